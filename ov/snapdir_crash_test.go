package dragonboat

// C16.E7 — crash-point enumeration of the snapshot directory protocol.
//
// Real code driven: snapshotter (snapshotter.go: Save, Commit, Shrink, Compact
// via pb.Snapshot.Unref, processOrphans, GetSnapshotFromLogDB, Load),
// server.SSEnv, transport.Chunk (the receive side: temp dir, chunk files, flag
// file, FinalizeSnapshot), rsm.SnapshotWriter/Reader/ChunkWriter,
// logdb.LogReader and a real sharded Pebble log store, all on ONE strict
// in-memory file system (github.com/lni/vfs StrictMem: data not covered by a
// file Sync and directory entries not covered by a directory Sync are lost by
// ResetToSyncedState).
//
// Call sequences replicate production:
//   local save   node.doSave (node.go:753-800): sm.Save -> snapshotter.Save;
//                snapshotter.Commit (SaveSSMetadata, FinalizeSnapshot = flag
//                file + rename + dir sync, logdb.SaveSnapshots, RemoveFlagFile);
//                on errSnapshotOutOfDate ssenv.MustRemoveTempDir; Validate;
//                logReader.CreateSnapshot (-> Unref of the previous snapshot
//                -> snapshotter.Compact -> RemoveFinalDir)
//   receive      transport.Chunk.Add for every chunk produced by the real
//                rsm.ChunkWriter (save -> CreateTempDir, chunk file, sync;
//                last chunk -> validate, FinalizeSnapshot, onReceive)
//   install      engine.processSteps (engine.go:1343-1351) for an update
//                carrying the snapshot: logdb.SaveRaftState, then
//                node.removeSnapshotFlagFile, then node.processSnapshot ->
//                logReader.ApplySnapshot (-> Unref -> Compact of the old one)
//   shrink       node.recover (node.go:871-878) for on-disk state machines
//   start-up     NodeHost.startShard (nodehost.go:1577-1583) + node.replayLog
//                (node.go:666-676) + the initial recover: newSnapshotter,
//                SetCompactor, processOrphans, GetSnapshotFromLogDB,
//                logReader.ApplySnapshot, snapshotter.Load of the file,
//                Shrink for on-disk state machines
//
// Crash model: every MUTATING file-system call made through the snapshot
// layer (create, write, sync, rename, remove, mkdir, link) and every mutating
// log-store call (SaveSnapshots, SaveRaftState) is one operation. "Crash at k"
// = power fails immediately before operation k: the process dies (the wrapper
// panics, the harness recovers at top level), all unsynced data and directory
// entries are discarded. The log store sits on the raw MemFS of the same FS
// instance (the default Pebble factory only accepts *vfs.MemFS), so each of
// its calls is atomic w.r.t. crash points; its inner crash atomicity is C10.

import (
	"errors"
	"bytes"
	"fmt"
	"io"
	"log"
	"os"
	"runtime/debug"
	"sort"
	"strings"
	"testing"

	gvfs "github.com/lni/vfs"

	"github.com/lni/dragonboat/v4/config"
	"github.com/lni/dragonboat/v4/internal/fileutil"
	"github.com/lni/dragonboat/v4/internal/logdb"
	"github.com/lni/dragonboat/v4/internal/rsm"
	"github.com/lni/dragonboat/v4/internal/server"
	"github.com/lni/dragonboat/v4/internal/transport"
	"github.com/lni/dragonboat/v4/internal/vfhelp"
	"github.com/lni/dragonboat/v4/logger"
	"github.com/lni/dragonboat/v4/raftio"
	pb "github.com/lni/dragonboat/v4/raftpb"
	sm "github.com/lni/dragonboat/v4/statemachine"
	"pgregory.net/rapid"
)

// ---------------------------------------------------------------------------
// counting / crashing FS wrapper
// ---------------------------------------------------------------------------

type vfCrash struct{ op int }

type vfOp struct {
	kind  string
	path  string
	phase string
}

type vfCountFS struct {
	inner   *gvfs.MemFS
	ops     int
	crashAt int
	crashed bool
	record  bool
	log     []vfOp
	phase   string
	open    map[*vfFile]struct{}
	// layout flags sampled at the crash instant
	bothTmp bool
	// errAt > 0: mutating operation errAt is not performed and returns an I/O error
	// (write, sync, create, rename, link, mkdir of the snapshot layer)
	errAt    int
	errFired bool
}

var errVFInjected = errors.New("vf: injected I/O error")

// inject reports whether the operation just accounted by tick has to fail.
func (c *vfCountFS) inject() bool {
	if c.errAt > 0 && c.ops == c.errAt && !c.errFired {
		c.errFired = true
		return true
	}
	return false
}

func newVFCountFS(inner *gvfs.MemFS) *vfCountFS {
	return &vfCountFS{inner: inner, open: make(map[*vfFile]struct{})}
}

func (c *vfCountFS) dead() {
	if c.crashed {
		panic(vfCrash{op: c.ops})
	}
}

// tick accounts one mutating operation; power fails BEFORE operation crashAt.
func (c *vfCountFS) tick(kind string, path string) {
	c.dead()
	c.ops++
	if c.record {
		c.log = append(c.log, vfOp{kind: kind, path: path, phase: c.phase})
	}
	if c.crashAt > 0 && c.ops == c.crashAt {
		c.crashed = true
		panic(vfCrash{op: c.ops})
	}
}

func (c *vfCountFS) closeAll() {
	for f := range c.open {
		if f.inner != nil {
			_ = f.inner.Close()
			f.inner = nil
		}
	}
	c.open = make(map[*vfFile]struct{})
}

type vfFileInfo struct {
	os.FileInfo
	name string
}

// Name: MemFS keeps the name inside the node and Rename updates it even when
// the rename itself is later rolled back by ResetToSyncedState, so after a
// crash Stat(x).Name() may differ from base(x). A real FS derives the name
// from the path; do the same here.
func (fi vfFileInfo) Name() string { return fi.name }

type vfFile struct {
	fs    *vfCountFS
	inner gvfs.File
	path  string
}

func (c *vfCountFS) wrap(f gvfs.File, err error, path string) (gvfs.File, error) {
	if err != nil {
		return nil, err
	}
	w := &vfFile{fs: c, inner: f, path: path}
	c.open[w] = struct{}{}
	return w, nil
}

func (f *vfFile) Close() error {
	// never panics: Close is what deferred clean-up code calls while the
	// "process" is dying; it has no durability effect
	delete(f.fs.open, f)
	if f.inner == nil {
		return nil
	}
	err := f.inner.Close()
	f.inner = nil
	return err
}
func (f *vfFile) Seek(o int64, w int) (int64, error) { f.fs.dead(); return f.inner.Seek(o, w) }
func (f *vfFile) Read(p []byte) (int, error)         { f.fs.dead(); return f.inner.Read(p) }
func (f *vfFile) ReadAt(p []byte, o int64) (int, error) {
	f.fs.dead()
	return f.inner.ReadAt(p, o)
}
func (f *vfFile) Write(p []byte) (int, error) {
	f.fs.tick("write", f.path)
	if f.fs.inject() {
		return 0, errVFInjected
	}
	return f.inner.Write(p)
}
func (f *vfFile) WriteAt(p []byte, o int64) (int, error) {
	f.fs.tick("write", f.path)
	if f.fs.inject() {
		return 0, errVFInjected
	}
	return f.inner.WriteAt(p, o)
}
func (f *vfFile) Stat() (os.FileInfo, error) {
	f.fs.dead()
	fi, err := f.inner.Stat()
	if err != nil {
		return nil, err
	}
	return vfFileInfo{FileInfo: fi, name: f.fs.inner.PathBase(f.path)}, nil
}
func (f *vfFile) Sync() error {
	f.fs.tick("sync", f.path)
	if f.fs.inject() {
		return errVFInjected
	}
	return f.inner.Sync()
}

var _ gvfs.FS = (*vfCountFS)(nil)

func (c *vfCountFS) Create(name string) (gvfs.File, error) {
	c.tick("create", name)
	if c.inject() {
		return nil, errVFInjected
	}
	f, err := c.inner.Create(name)
	return c.wrap(f, err, name)
}
func (c *vfCountFS) Link(o, n string) error {
	c.tick("link", n)
	if c.inject() {
		return errVFInjected
	}
	return c.inner.Link(o, n)
}
func (c *vfCountFS) Open(name string, opts ...gvfs.OpenOption) (gvfs.File, error) {
	c.dead()
	f, err := c.inner.Open(name, opts...)
	return c.wrap(f, err, name)
}
func (c *vfCountFS) OpenDir(name string) (gvfs.File, error) {
	c.dead()
	f, err := c.inner.OpenDir(name)
	return c.wrap(f, err, name)
}
func (c *vfCountFS) OpenForAppend(name string) (gvfs.File, error) {
	c.dead()
	f, err := c.inner.OpenForAppend(name)
	return c.wrap(f, err, name)
}
func (c *vfCountFS) Remove(name string) error {
	c.tick("remove", name)
	return c.inner.Remove(name)
}
func (c *vfCountFS) RemoveAll(name string) error {
	c.tick("removeall", name)
	return c.inner.RemoveAll(name)
}
func (c *vfCountFS) Rename(o, n string) error {
	c.tick("rename", n)
	if c.inject() {
		return errVFInjected
	}
	return c.inner.Rename(o, n)
}
func (c *vfCountFS) ReuseForWrite(o, n string) (gvfs.File, error) {
	c.tick("reuse", n)
	f, err := c.inner.ReuseForWrite(o, n)
	return c.wrap(f, err, n)
}
func (c *vfCountFS) MkdirAll(dir string, perm os.FileMode) error {
	c.tick("mkdir", dir)
	if c.inject() {
		return errVFInjected
	}
	return c.inner.MkdirAll(dir, perm)
}
func (c *vfCountFS) Lock(name string) (io.Closer, error) {
	c.tick("lock", name)
	return c.inner.Lock(name)
}
func (c *vfCountFS) List(dir string) ([]string, error) {
	c.dead()
	l, err := c.inner.List(dir)
	sort.Strings(l)
	return l, err
}
func (c *vfCountFS) Stat(name string) (os.FileInfo, error) {
	c.dead()
	fi, err := c.inner.Stat(name)
	if err != nil {
		return nil, err
	}
	return vfFileInfo{FileInfo: fi, name: c.inner.PathBase(name)}, nil
}
func (c *vfCountFS) PathBase(p string) string                      { return c.inner.PathBase(p) }
func (c *vfCountFS) PathJoin(e ...string) string                   { return c.inner.PathJoin(e...) }
func (c *vfCountFS) PathDir(p string) string                       { return c.inner.PathDir(p) }
func (c *vfCountFS) GetDiskUsage(p string) (gvfs.DiskUsage, error) { return c.inner.GetDiskUsage(p) }

// vfCrashLogDB makes every mutating log-store call one crash-countable operation.
type vfCrashLogDB struct {
	raftio.ILogDB
	fs *vfCountFS
}

func (l *vfCrashLogDB) SaveSnapshots(u []pb.Update) error {
	l.fs.tick("logdb.SaveSnapshots", "")
	return l.ILogDB.SaveSnapshots(u)
}

func (l *vfCrashLogDB) SaveRaftState(u []pb.Update, shard uint64) error {
	l.fs.tick("logdb.SaveRaftState", "")
	return l.ILogDB.SaveRaftState(u, shard)
}

// ---------------------------------------------------------------------------
// the replica under test
// ---------------------------------------------------------------------------

const (
	vfSnapRoot  = "/nh/snapshot/snapshot-1-1"
	vfLogDBDir  = "/nh/logdb"
	vfShardID   = 1
	vfReplicaID = 1
	vfDID       = 7
)

type vfSOp struct {
	Kind  string  `json:"kind"`
	Index uint64  `json:"index,omitempty"`
	From  uint64  `json:"from,omitempty"`
	Size  int     `json:"size,omitempty"`
	Ext   []int   `json:"ext,omitempty"` // sizes of the external files of a received file based snapshot
	Mid   []vfSOp `json:"mid,omitempty"` // executed inside the state machine's Save callback
}

func (o vfSOp) String() string {
	s := o.Kind
	if o.Index > 0 {
		s += fmt.Sprintf("@%d", o.Index)
	}
	if o.Size > 0 {
		s += fmt.Sprintf("/%d", o.Size)
	}
	if len(o.Ext) > 0 {
		s += fmt.Sprintf("+ext%v", o.Ext)
	}
	if len(o.Mid) > 0 {
		var m []string
		for _, x := range o.Mid {
			m = append(m, x.String())
		}
		s += "{" + strings.Join(m, ",") + "}"
	}
	return s
}

type vfChunkSink struct{ chunks []pb.Chunk }

func (s *vfChunkSink) Receive(c pb.Chunk) (bool, bool) {
	c.DeploymentId = vfDID // transport.job.sendChunks sets it on the sender side
	s.chunks = append(s.chunks, c)
	return true, false
}
func (s *vfChunkSink) Close() error        { return nil }
func (s *vfChunkSink) ShardID() uint64     { return vfShardID }
func (s *vfChunkSink) ToReplicaID() uint64 { return vfReplicaID }

type vfSavable struct {
	payload []byte
	dummy   bool
	mid     func()
}

func (s *vfSavable) Save(meta rsm.SSMeta, w io.Writer, session []byte,
	fc sm.ISnapshotFileCollection) (bool, error) {
	if _, err := w.Write(session); err != nil {
		return false, err
	}
	half := len(s.payload) / 2
	if _, err := w.Write(s.payload[:half]); err != nil {
		return false, err
	}
	if s.mid != nil {
		s.mid() // another actor (transport / step worker) makes progress mid-save
	}
	if _, err := w.Write(s.payload[half:]); err != nil {
		return false, err
	}
	return s.dummy, nil
}

type vfLoader struct {
	sessLen int
	session []byte
	data    []byte
	files   []sm.SnapshotFile
}

func (l *vfLoader) LoadSessions(r io.Reader, v rsm.SSVersion) error {
	l.session = make([]byte, l.sessLen)
	_, err := io.ReadFull(r, l.session)
	return err
}

func (l *vfLoader) Recover(r io.Reader, files []sm.SnapshotFile) error {
	d, err := io.ReadAll(r)
	l.data = d
	l.files = files
	return err
}

var vfSessionBytes = []byte("vf-session-image")

func vfPayload(index uint64, size int) []byte {
	b := make([]byte, size)
	for i := range b {
		b[i] = byte(uint64(i)*31 + index*7 + 1)
	}
	return b
}

func vfMembership() pb.Membership {
	return pb.Membership{ConfigChangeId: 1, Addresses: map[uint64]string{1: "a1", 2: "a2"}}
}

type vfInSave struct {
	ss  pb.Snapshot
	env server.SSEnv
	op  vfSOp
}

type vfReplica struct {
	mem       *gvfs.MemFS
	fs        *vfCountFS
	rawdb     raftio.ILogDB
	ldb       *vfCrashLogDB
	lr        *logdb.LogReader
	ss        *snapshotter
	chunk     *transport.Chunk
	onDisk    bool
	inSave    *vfInSave
	recvTail  []pb.Chunk
	recvOp    vfSOp
	arrived   []pb.Snapshot
	refs      []pb.Snapshot
	acked     uint64
	installed uint64         // index of the last installed (received) snapshot not yet shrunk
	sizes     map[uint64]int // index -> payload size of every snapshot ever written locally or received
	rsizes    map[uint64]int // index -> payload size of received images
	trace     []string
}

func vfSnapDir(uint64, uint64) string { return vfSnapRoot }

func vfOpenLogDB(mem *gvfs.MemFS) raftio.ILogDB {
	cfg := config.NodeHostConfig{Expert: config.GetDefaultExpertConfig()}
	cfg.Expert.LogDB = config.GetTinyMemLogDBConfig()
	cfg.Expert.LogDB.Shards = 1
	cfg.Expert.FS = mem
	db, err := logdb.NewDefaultLogDB(cfg, nil, []string{vfLogDBDir}, []string{vfLogDBDir})
	if err != nil {
		panic(err)
	}
	return db
}

func vfSyncDirRaw(mem *gvfs.MemFS, dir string) {
	f, err := mem.OpenDir(dir)
	if err != nil {
		panic(err)
	}
	if err := f.Sync(); err != nil {
		panic(err)
	}
	_ = f.Close()
}

// newVFReplica creates a fresh, durable, empty replica environment.
func newVFReplica(onDisk bool) *vfReplica {
	mem := gvfs.NewStrictMem()
	for _, d := range []string{vfLogDBDir, vfSnapRoot} {
		if err := mem.MkdirAll(d, 0755); err != nil {
			panic(err)
		}
	}
	for _, d := range []string{"/", "/nh", "/nh/snapshot", vfSnapRoot, vfLogDBDir} {
		vfSyncDirRaw(mem, d)
	}
	r := &vfReplica{mem: mem, onDisk: onDisk, sizes: make(map[uint64]int), rsizes: make(map[uint64]int)}
	r.fs = newVFCountFS(mem)
	r.attach()
	return r
}

// attach opens the log store and builds the per-shard objects the way
// NodeHost.startShard does (without running the start-up cleanup).
func (r *vfReplica) attach() {
	r.rawdb = vfOpenLogDB(r.mem)
	r.ldb = &vfCrashLogDB{ILogDB: r.rawdb, fs: r.fs}
	r.newShardObjects()
	r.chunk = transport.NewChunk(func(mb pb.MessageBatch) {
		for _, m := range mb.Requests {
			if m.Type == pb.InstallSnapshot {
				r.arrived = append(r.arrived, m.Snapshot)
			}
		}
	}, func(uint64, uint64, uint64) {}, vfSnapDir, vfDID, r.fs)
}

func (r *vfReplica) newShardObjects() {
	r.lr = logdb.NewLogReader(vfShardID, vfReplicaID, r.ldb)
	r.ss = newSnapshotter(vfShardID, vfReplicaID, vfSnapDir, r.ldb, r.lr, r.fs)
	r.lr.SetCompactor(r.ss)
}

func (r *vfReplica) curIndex() uint64 {
	ss, err := r.ss.GetSnapshot()
	if err != nil {
		return 0
	}
	idx := ss.Index
	if err := ss.Unref(); err != nil {
		panic(err)
	}
	return idx
}

func (r *vfReplica) tracef(f string, a ...interface{}) {
	r.trace = append(r.trace, fmt.Sprintf(f, a...))
}

// exec executes one operation of the sequence exactly as production does.
func (r *vfReplica) exec(op vfSOp) {
	r.fs.phase = op.Kind
	switch op.Kind {
	case "save":
		r.doSave(op)
	case "commit":
		r.doCommit()
	case "abortsave":
		// node.doSave: sm.Save failed with ErrSnapshotStopped/Aborted
		r.fs.phase = "abortsave"
		r.inSave.env.MustRemoveTempDir()
		r.inSave = nil
	case "recvbegin":
		r.doRecvBegin(op)
	case "recvend":
		r.doRecvEnd()
	case "install":
		r.doInstall()
	case "shrink":
		r.fs.phase = "shrink"
		if err := r.ss.Shrink(op.Index); err != nil {
			panic(fmt.Sprintf("shrink: %v", err))
		}
		if r.installed == op.Index {
			r.installed = 0
		}
	case "ref":
		ss, err := r.ss.GetSnapshot()
		if err == nil {
			r.refs = append(r.refs, ss)
		}
	case "unref":
		ss := r.refs[0]
		r.refs = r.refs[1:]
		r.fs.phase = "compact"
		if err := ss.Unref(); err != nil {
			panic(fmt.Sprintf("unref: %v", err))
		}
	case "restart":
		r.doCleanRestart()
	default:
		panic("unknown op " + op.Kind)
	}
}

func (r *vfReplica) doSave(op vfSOp) {
	sv := &vfSavable{payload: vfPayload(op.Index, op.Size), dummy: r.onDisk}
	if len(op.Mid) > 0 {
		sv.mid = func() {
			for _, m := range op.Mid {
				r.exec(m)
			}
			r.fs.phase = "save"
		}
	}
	meta := rsm.SSMeta{
		From: vfReplicaID, Index: op.Index, Term: 1, Membership: vfMembership(),
		Session: bytes.NewBuffer(append([]byte(nil), vfSessionBytes...)),
		Type:    pb.RegularStateMachine, CompressionType: config.NoCompression,
	}
	if r.onDisk {
		meta.Type = pb.OnDiskStateMachine
		meta.OnDiskIndex = op.Index
	}
	ss, env, err := r.ss.Save(sv, meta)
	if err != nil {
		panic(fmt.Sprintf("save: %v", err))
	}
	r.sizes[op.Index] = op.Size
	r.inSave = &vfInSave{ss: ss, env: env, op: op}
}

// doCommit is the second half of node.doSave.
func (r *vfReplica) doCommit() {
	in := r.inSave
	r.inSave = nil
	r.fs.phase = "commit"
	if err := r.ss.Commit(in.ss, rsm.SSRequest{}); err != nil {
		if snapshotCommitAborted(err) || saveAborted(err) {
			r.fs.phase = "commit-outofdate-cleanup"
			in.env.MustRemoveTempDir()
			r.tracef("commit@%d out of date", in.ss.Index)
			return
		}
		panic(fmt.Sprintf("commit: %v", err))
	}
	// Commit returned: the snapshot (or a newer one, see cache.trySaveSnapshot)
	// is recorded in the log store
	if in.ss.Index > r.acked {
		r.acked = in.ss.Index
	}
	if !in.ss.Validate(r.fs) {
		panic("generated invalid snapshot")
	}
	r.fs.phase = "compact"
	if err := r.lr.CreateSnapshot(in.ss); err != nil {
		if !isSoftSnapshotError(err) {
			panic(fmt.Sprintf("create snapshot: %v", err))
		}
		r.tracef("create@%d soft error", in.ss.Index)
	}
}

// Term tags the origin of an image: locally generated snapshots carry vfTermLocal,
// received ones vfTermRecv (the record in the log store tells which image won).
const (
	vfTermLocal = 1
	vfTermRecv  = 2
)

func vfExtPayload(index uint64, id uint64, size int) []byte {
	b := make([]byte, size)
	for i := range b {
		b[i] = byte(uint64(i)*13 + index*5 + id*101 + 3)
	}
	return b
}

// streamedChunks: an on-disk state machine streams its image (rsm.ChunkWriter).
func (r *vfReplica) streamedChunks(op vfSOp) []pb.Chunk {
	sink := &vfChunkSink{}
	meta := rsm.SSMeta{
		From: op.From, Index: op.Index, Term: vfTermRecv, Membership: vfMembership(),
		Type: pb.OnDiskStateMachine, OnDiskIndex: op.Index, CompressionType: config.NoCompression,
	}
	cw := rsm.NewChunkWriter(sink, meta)
	// empty session image + the state machine's data
	if _, err := cw.Write(rsm.GetEmptyLRUSession()); err != nil {
		panic(err)
	}
	if _, err := cw.Write(vfPayload(op.Index, op.Size)); err != nil {
		panic(err)
	}
	if err := cw.Close(); err != nil {
		panic(err)
	}
	return sink.chunks
}

// fileChunks: a regular state machine's snapshot is sent file by file: the
// sender's snapshot file (written by the real SnapshotWriter) first, then its
// external files, split and loaded by the real sender code
// (transport.splitSnapshotMessage + loadChunkData, chunk size 1024).
func (r *vfReplica) fileChunks(op vfSOp) []pb.Chunk {
	sfs := gvfs.NewMem()
	dir := "/sender/" + server.GetSnapshotDirName(op.Index)
	if err := sfs.MkdirAll(dir, 0755); err != nil {
		panic(err)
	}
	fp := sfs.PathJoin(dir, server.GetSnapshotFilename(op.Index))
	w, err := rsm.NewSnapshotWriter(fp, pb.NoCompression, sfs)
	if err != nil {
		panic(err)
	}
	if _, err := w.Write(vfSessionBytes); err != nil {
		panic(err)
	}
	if _, err := w.Write(vfPayload(op.Index, op.Size)); err != nil {
		panic(err)
	}
	if err := w.Close(); err != nil {
		panic(err)
	}
	fi, err := sfs.Stat(fp)
	if err != nil {
		panic(err)
	}
	ss := pb.Snapshot{
		Filepath: fp, FileSize: uint64(fi.Size()), Index: op.Index, Term: vfTermRecv,
		Membership: vfMembership(), Type: pb.RegularStateMachine, ShardID: vfShardID,
	}
	for i, sz := range op.Ext {
		id := uint64(i + 1)
		sf := &pb.SnapshotFile{FileId: id, FileSize: uint64(sz), Metadata: []byte{byte(id)}}
		sf.Filepath = sfs.PathJoin(dir, sf.Filename())
		f, err := sfs.Create(sf.Filepath)
		if err != nil {
			panic(err)
		}
		if _, err := f.Write(vfExtPayload(op.Index, id, sz)); err != nil {
			panic(err)
		}
		if err := f.Close(); err != nil {
			panic(err)
		}
		ss.Files = append(ss.Files, sf)
	}
	m := pb.Message{Type: pb.InstallSnapshot, From: op.From, To: vfReplicaID, ShardID: vfShardID, Snapshot: ss}
	chunks, err := transport.VFSenderChunks(m, vfDID, sfs)
	if err != nil {
		panic(err)
	}
	return chunks
}

func (r *vfReplica) doRecvBegin(op vfSOp) {
	var chunks []pb.Chunk
	if r.onDisk {
		chunks = r.streamedChunks(op)
	} else {
		chunks = r.fileChunks(op)
	}
	if len(chunks) < 2 {
		// a file based snapshot that fits one chunk: everything happens in recvend
		r.recvTail = chunks
		r.recvOp = op
		r.rsizes[op.Index] = op.Size
		return
	}
	// the first half of the stream arrives now, the rest with recvend
	n := len(chunks) / 2
	r.fs.phase = "recv-chunks"
	for _, c := range chunks[:n] {
		if !r.chunk.Add(c) {
			panic("chunk rejected")
		}
	}
	r.recvTail = chunks[n:]
	r.recvOp = op
	r.rsizes[op.Index] = op.Size
}

func (r *vfReplica) doRecvEnd() {
	rest := r.recvTail
	r.recvTail = nil
	r.fs.phase = "recv-chunks"
	for _, c := range rest[:len(rest)-1] {
		if !r.chunk.Add(c) {
			panic("middle chunk rejected")
		}
	}
	r.fs.phase = "recv-finalize"
	n := len(r.arrived)
	ok := r.chunk.Add(rest[len(rest)-1])
	if ok != (len(r.arrived) == n+1) {
		panic("Add result and onReceive disagree")
	}
	if !ok {
		r.tracef("recv@%d out of date", r.recvOp.Index)
	}
}

// doInstall: engine.processSteps for an Update carrying the received snapshot.
func (r *vfReplica) doInstall() {
	ss := r.arrived[0]
	r.arrived = r.arrived[1:]
	if ss.Index <= r.curIndex() {
		// raft ignores an InstallSnapshot that is not ahead of its log; the
		// finalized directory keeps its flag file until the next start-up
		r.tracef("install@%d ignored by raft", ss.Index)
		return
	}
	r.fs.phase = "install-record"
	ud := pb.Update{ShardID: vfShardID, ReplicaID: vfReplicaID, Snapshot: ss,
		State: pb.State{Term: 1, Commit: ss.Index}}
	if err := r.ldb.SaveRaftState([]pb.Update{ud}, 1); err != nil {
		panic(fmt.Sprintf("SaveRaftState: %v", err))
	}
	if ss.Index > r.acked {
		r.acked = ss.Index
	}
	r.fs.phase = "install-rmflag"
	if err := r.ss.removeFlagFile(ss.Index); err != nil {
		panic(fmt.Sprintf("removeFlagFile: %v", err))
	}
	r.fs.phase = "compact"
	if err := r.lr.ApplySnapshot(ss); err != nil && !isSoftSnapshotError(err) {
		panic(fmt.Sprintf("ApplySnapshot: %v", err))
	}
	r.installed = ss.Index
}

// doCleanRestart: StopShard + StartReplica on a live NodeHost (the log store
// stays open).
func (r *vfReplica) doCleanRestart() {
	r.refs = nil
	r.arrived = nil
	r.newShardObjects()
	r.fs.phase = "restart-orphans"
	if err := r.ss.processOrphans(); err != nil {
		panic(fmt.Sprintf("processOrphans: %v", err))
	}
	ss, err := r.ss.GetSnapshotFromLogDB()
	if err != nil && !r.ss.IsNoSnapshotError(err) {
		panic(err)
	}
	if !pb.IsEmptySnapshot(ss) {
		if err := r.lr.ApplySnapshot(ss); err != nil {
			panic(err)
		}
	}
}

// ---------------------------------------------------------------------------
// sequence generation (phase 1 executes while generating)
// ---------------------------------------------------------------------------

type vfSeqGen struct {
	t      *rapid.T
	r      *vfReplica
	next   uint64 // state machine's applied index, only grows
	ops    []vfSOp
	hadMid bool
	salt   uint64
}

// size of the state image at an index: a function of the index only (the
// state at one log index is the same wherever the image is produced), varied
// per case through a drawn salt.
func (g *vfSeqGen) size(index uint64) int {
	tbl := []int{1, 40, 40, 700, 3000}
	return tbl[(index+g.salt)%uint64(len(tbl))]
}

// recvIndex: the leader's snapshot is at, just above or well above what this
// replica is saving.
func (g *vfSeqGen) recvIndex() uint64 {
	base := g.next
	if g.r.inSave != nil {
		base = g.r.inSave.ss.Index
	}
	if base == 0 {
		base = 1
	}
	switch vfhelp.PickN(g.t, "ridx", 4) {
	case 0:
		return base // same index as the local save
	case 1:
		if base > 1 {
			return base - 1
		}
		return base
	default:
		return base + uint64(rapid.IntRange(1, 4).Draw(g.t, "rdelta"))
	}
}

func (g *vfSeqGen) candidates(nested bool) []string {
	r := g.r
	var c []string
	add := func(k string, n int) {
		for i := 0; i < n; i++ {
			c = append(c, k)
		}
	}
	cur := r.curIndex()
	if !nested {
		if r.inSave == nil {
			add("save", 4)
		} else {
			add("commit", 5)
			add("abortsave", 1)
		}
		if r.inSave == nil && r.recvTail == nil {
			add("restart", 2)
		}
	}
	if r.recvTail == nil {
		add("recvbegin", 3)
	} else {
		add("recvend", 5)
	}
	if len(r.arrived) > 0 {
		add("install", 6)
	}
	if r.onDisk && cur > 0 {
		if r.installed == cur {
			add("shrink", 6) // node.recover after the install
		} else {
			add("shrink", 1)
		}
	}
	if cur > 0 && len(r.refs) < 2 {
		add("ref", 1)
	}
	if len(r.refs) > 0 {
		add("unref", 2)
	}
	return c
}

func (g *vfSeqGen) draw(nested bool) vfSOp {
	c := g.candidates(nested)
	kind := c[vfhelp.PickN(g.t, "op", len(c))] // uniform: rapid.SampledFrom is biased towards the first elements
	op := vfSOp{Kind: kind}
	switch kind {
	case "save":
		g.next += uint64(rapid.IntRange(1, 3).Draw(g.t, "adv"))
		if c := g.r.curIndex(); g.next <= c {
			g.next = c + 1 // lastApplied is above the snapshot the replica was restored from
		}
		op.Index = g.next
		op.Size = g.size(op.Index)
		n := []int{0, 0, 1, 2, 3}[vfhelp.PickN(g.t, "mid", 5)]
		if n > 0 {
			g.hadMid = true
		}
		// the nested operations are drawn while they execute (inside Save)
		op.Mid = make([]vfSOp, 0, n)
		for i := 0; i < n; i++ {
			op.Mid = append(op.Mid, vfSOp{Kind: "?"})
		}
	case "recvbegin":
		op.Index = g.recvIndex()
		op.From = 2
		op.Size = g.size(op.Index)
		if !g.r.onDisk {
			// 0..3 external files; a sender cannot ship an empty file
			// (splitBySnapshotFile panics "empty file"), 1024 = chunk size
			for i, n := 0, []int{0, 1, 1, 2, 3}[vfhelp.PickN(g.t, "next", 5)]; i < n; i++ {
				op.Ext = append(op.Ext, []int{1, 40, 1024, 2500}[vfhelp.PickN(g.t, "extsz", 4)])
			}
		}
	case "shrink":
		op.Index = g.r.curIndex()
	}
	return op
}

// run draws and executes one top level operation; returns the concrete op.
func (g *vfSeqGen) run() vfSOp {
	op := g.draw(false)
	if op.Kind == "save" && len(op.Mid) > 0 {
		n := len(op.Mid)
		op.Mid = op.Mid[:0]
		// execute the save with a callback that draws + executes nested ops
		g.r.fs.phase = "save"
		g.execSaveWithDrawnMid(&op, n)
		return op
	}
	g.r.exec(op)
	return op
}

func (g *vfSeqGen) execSaveWithDrawnMid(op *vfSOp, n int) {
	r := g.r
	sv := &vfSavable{payload: vfPayload(op.Index, op.Size), dummy: r.onDisk}
	sv.mid = func() {
		for i := 0; i < n; i++ {
			m := g.draw(true)
			r.exec(m)
			op.Mid = append(op.Mid, m)
		}
		r.fs.phase = "save"
	}
	meta := rsm.SSMeta{
		From: vfReplicaID, Index: op.Index, Term: 1, Membership: vfMembership(),
		Session: bytes.NewBuffer(append([]byte(nil), vfSessionBytes...)),
		Type:    pb.RegularStateMachine, CompressionType: config.NoCompression,
	}
	if r.onDisk {
		meta.Type = pb.OnDiskStateMachine
		meta.OnDiskIndex = op.Index
	}
	ss, env, err := r.ss.Save(sv, meta)
	if err != nil {
		panic(fmt.Sprintf("save: %v", err))
	}
	r.sizes[op.Index] = op.Size
	r.inSave = &vfInSave{ss: ss, env: env, op: *op}
}

// ---------------------------------------------------------------------------
// power cut + start-up + oracle
// ---------------------------------------------------------------------------

type vfCrashReport struct {
	bothTmp     bool
	layoutAtCut []string
}

func (r *vfReplica) listRoot() []string {
	l, err := r.mem.List(vfSnapRoot)
	if err != nil {
		panic(err)
	}
	sort.Strings(l)
	return l
}

// powerCut: the process is dead (every handle is gone), unsynced state is lost.
func (r *vfReplica) powerCut() vfCrashReport {
	rep := vfCrashReport{layoutAtCut: r.listRoot()}
	gen, recv := false, false
	for _, n := range rep.layoutAtCut {
		if server.GenSnapshotDirNameRe.MatchString(n) {
			gen = true
		}
		if server.RecvSnapshotDirNameRe.MatchString(n) {
			recv = true
		}
	}
	rep.bothTmp = gen && recv
	r.mem.SetIgnoreSyncs(true)
	r.fs.closeAll()
	// transport.Chunk.Close() is a graceful-shutdown action (it removes the
	// temp dirs of unfinished transfers); a power cut just drops the object
	if err := r.rawdb.Close(); err != nil {
		panic(err)
	}
	r.mem.ResetToSyncedState()
	r.mem.SetIgnoreSyncs(false)
	return rep
}

type vfFailure struct {
	sig string
	msg string
}

const vfInterrupted = "__interrupted"

func vfFailf(sig string, f string, a ...interface{}) *vfFailure {
	return &vfFailure{sig: sig, msg: fmt.Sprintf(f, a...)}
}

// startup runs the production start-up path on the surviving files and
// checks the C16 oracle. acked is the newest snapshot index whose
// Commit / SaveRaftState had returned before the cut.
//
// crashAt > 0: power fails again before the crashAt-th mutating operation of
// the start-up path itself; the result then has sig vfInterrupted.
func (r *vfReplica) startup(acked uint64, crashAt int) (fail *vfFailure) {
	r.fs = newVFCountFS(r.mem)
	r.fs.phase = "startup"
	r.fs.crashAt = crashAt
	r.inSave, r.recvTail, r.arrived, r.refs = nil, nil, nil, nil
	r.installed = 0
	defer func() {
		if x := recover(); x != nil {
			if _, ok := x.(vfCrash); ok || r.fs.crashed {
				fail = &vfFailure{sig: vfInterrupted}
				return
			}
			fail = vfFailf("c16-startup-panic", "start-up path panicked: %v\nlayout after reset: %v\n%s",
				x, r.listRoot(), debug.Stack())
		}
	}()
	before := r.listRoot()
	r.attach()
	// NodeHost.startShard
	if err := r.ss.processOrphans(); err != nil {
		return vfFailf("c16-startup-error", "processOrphans failed: %v (layout %v)", err, before)
	}
	// node.replayLog
	rec, err := r.ss.GetSnapshotFromLogDB()
	if err != nil && !r.ss.IsNoSnapshotError(err) {
		return vfFailf("c16-startup-error", "GetSnapshotFromLogDB: %v", err)
	}
	if rec.Index < acked {
		return vfFailf("c16-acknowledged-snapshot-lost",
			"log store records snapshot %d after restart, but snapshot %d had been recorded (call returned) before the cut", rec.Index, acked)
	}
	// layout: only the complete directory of the recorded snapshot remains
	after := r.listRoot()
	for _, n := range after {
		p := r.mem.PathJoin(vfSnapRoot, n)
		switch {
		case server.GenSnapshotDirNameRe.MatchString(n), server.RecvSnapshotDirNameRe.MatchString(n):
			return vfFailf("c16-temp-dir-survives-startup", "temporary directory %s survives start-up (before %v, after %v)", n, before, after)
		case server.SnapshotDirNameRe.MatchString(n):
			if fileutil.HasFlagFile(p, fileutil.SnapshotFlagFilename, r.fs) {
				return vfFailf("c16-flag-file-survives-startup", "%s still has its flag file after start-up", n)
			}
			if pb.IsEmptySnapshot(rec) || n != server.GetSnapshotDirName(rec.Index) {
				return vfFailf("c16-unrecorded-snapshot-dir-survives-startup",
					"directory %s survives start-up but the recorded snapshot is %d (before %v)", n, rec.Index, before)
			}
		default:
			return vfFailf("c16-unknown-entry-in-snapshot-root", "unexpected entry %s", n)
		}
	}
	if pb.IsEmptySnapshot(rec) {
		return nil
	}
	if err := r.lr.ApplySnapshot(rec); err != nil {
		return vfFailf("c16-startup-error", "ApplySnapshot: %v", err)
	}
	// the recorded snapshot exists with a valid file
	fp := r.ss.getFilePath(rec.Index)
	if rec.Filepath != fp {
		return vfFailf("c16-recorded-path-differs", "recorded path %s, expected %s", rec.Filepath, fp)
	}
	if _, err := r.fs.Stat(fp); err != nil {
		return vfFailf("c16-recorded-snapshot-missing",
			"snapshot %d is recorded in the log store but %s does not exist: %v (before cleanup %v, after %v)",
			rec.Index, fp, err, before, after)
	}
	received := rec.Term == vfTermRecv
	streamed := received && rec.FileSize == 0
	if !received {
		// locally generated: snapshotter.Commit wrote snapshot.metadata into the
		// directory before publishing it (tools.ImportSnapshot / export read it);
		// a complete snapshot directory has it, intact
		var md pb.Snapshot
		mdir := r.ss.getEnv(rec.Index)
		if !fileutil.HasFlagFile(mdir.GetFinalDir(), server.MetadataFilename, r.fs) {
			return vfFailf("c16-recorded-snapshot-incomplete", "%s of recorded snapshot %d is missing (after %v)",
				server.MetadataFilename, rec.Index, after)
		}
		if err := fileutil.GetFlagFileContent(mdir.GetFinalDir(), server.MetadataFilename, &md, r.fs); err != nil {
			return vfFailf("c16-recorded-snapshot-incomplete", "metadata of %d unreadable: %v", rec.Index, err)
		}
		if md.Index != rec.Index {
			return vfFailf("c16-recorded-snapshot-incomplete", "metadata says index %d, record %d", md.Index, rec.Index)
		}
	}
	if received && !streamed {
		// file based transfer: the record carries the sizes the sender announced;
		// every file of the recorded snapshot must be there, complete
		fi, _ := r.fs.Stat(fp)
		if uint64(fi.Size()) != rec.FileSize {
			return vfFailf("c16-recorded-snapshot-file-invalid",
				"snapshot %d is recorded with a %d byte snapshot file, %s has %d bytes (external files in the record: %d)",
				rec.Index, rec.FileSize, fp, fi.Size(), len(rec.Files))
		}
		renv := r.ss.getEnv(rec.Index)
		for _, f := range rec.Files {
			want := r.mem.PathJoin(renv.GetFinalDir(), f.Filename())
			if f.Filepath != want {
				return vfFailf("c16-recorded-snapshot-file-invalid", "external file %d recorded at %s, expected %s", f.FileId, f.Filepath, want)
			}
			xf, err := r.fs.Open(f.Filepath)
			if err != nil {
				return vfFailf("c16-recorded-snapshot-file-invalid", "external file %d of recorded snapshot %d missing: %v", f.FileId, rec.Index, err)
			}
			data, err := io.ReadAll(xf)
			_ = xf.Close()
			if err != nil {
				return vfFailf("c16-recorded-snapshot-file-invalid", "external file %d unreadable: %v", f.FileId, err)
			}
			if uint64(len(data)) != f.FileSize || !bytes.Equal(data, vfExtPayload(rec.Index, f.FileId, int(f.FileSize))) {
				return vfFailf("c16-recorded-snapshot-file-invalid",
					"external file %d of recorded snapshot %d has %d bytes, recorded %d, or differs from what was sent", f.FileId, rec.Index, len(data), f.FileSize)
			}
		}
	}
	shrunk, err := rsm.IsShrunkSnapshotFile(fp, r.fs)
	if err != nil {
		return vfFailf("c16-recorded-snapshot-invalid", "IsShrunkSnapshotFile(%s): %v", fp, err)
	}
	if !shrunk {
		// production calls Snapshot.Validate only on locally generated snapshots
		// (node.doSave); a streamed one carries FileSize 0
		if !received {
			if !rec.Validate(r.fs) {
				return vfFailf("c16-recorded-snapshot-invalid", "Snapshot.Validate rejects %d", rec.Index)
			}
			fi, _ := r.fs.Stat(fp)
			if uint64(fi.Size()) != rec.FileSize {
				return vfFailf("c16-recorded-snapshot-invalid", "file size %d, recorded %d", fi.Size(), rec.FileSize)
			}
		}
		// the initial recover: rsm.StateMachine.Recover -> snapshotter.Load (the
		// real reader with its block checksums). A streamed image starts with an
		// empty session image, file based and local ones with the harness' session bytes
		ld := &vfLoader{sessLen: len(vfSessionBytes)}
		sizes := r.sizes
		if received {
			sizes = r.rsizes
		}
		if streamed {
			ld.sessLen = len(rsm.GetEmptyLRUSession())
		}
		if err := r.ss.Load(rec, ld, ld); err != nil {
			return vfFailf("c16-recorded-snapshot-invalid", "snapshotter.Load(%d): %v", rec.Index, err)
		}
		if !streamed && !bytes.Equal(ld.session, vfSessionBytes) {
			return vfFailf("c16-recorded-snapshot-content-differs", "session image of snapshot %d differs", rec.Index)
		}
		if len(ld.files) != len(rec.Files) {
			return vfFailf("c16-recorded-snapshot-content-differs", "Load handed %d external files to the state machine, record lists %d", len(ld.files), len(rec.Files))
		}
		if sz, ok := sizes[rec.Index]; ok {
			want := vfPayload(rec.Index, sz)
			if !bytes.Equal(ld.data, want) {
				return vfFailf("c16-recorded-snapshot-content-differs",
					"snapshot %d loads %d bytes that differ from what was saved/sent (%d bytes)", rec.Index, len(ld.data), len(want))
			}
		}
	}
	if r.onDisk && !rec.Dummy {
		// node.recover: on-disk state machines shrink the snapshot they recovered from
		if err := r.ss.Shrink(rec.Index); err != nil {
			return vfFailf("c16-startup-error", "Shrink after recover: %v", err)
		}
	}
	return nil
}

// afterlife: the restarted replica must be able to go on: it re-creates the
// snapshot it was working on when the power failed and one more, then restarts
// cleanly; the layout oracle must hold again.
func (r *vfReplica) afterlife(redo uint64) (fail *vfFailure) {
	defer func() {
		if x := recover(); x != nil {
			fail = vfFailf("c16-restarted-replica-cannot-continue", "operation after restart panicked: %v\n%s", x, debug.Stack())
		}
	}()
	cur := r.curIndex()
	idx := cur + 1
	if redo > cur {
		idx = redo
	}
	for i := 0; i < 2; i++ {
		r.exec(vfSOp{Kind: "save", Index: idx, Size: 33})
		r.exec(vfSOp{Kind: "commit"})
		if got := r.curIndex(); got != idx {
			return vfFailf("c16-restarted-replica-cannot-continue", "snapshot %d not current after save+commit (current %d)", idx, got)
		}
		idx += 2
	}
	r.exec(vfSOp{Kind: "restart"})
	l := r.listRoot()
	if len(l) != 1 || l[0] != server.GetSnapshotDirName(idx-2) {
		return vfFailf("c16-restarted-replica-cannot-continue", "layout after continue+restart: %v, want only snapshot %d", l, idx-2)
	}
	return nil
}

// runTo replays ops on a fresh replica with power failing before operation k
// (k == 0: no crash). Returns the replica and whether the crash fired.
func vfRunTo(onDisk bool, ops []vfSOp, k int) (r *vfReplica, crashed bool, other interface{}) {
	r = newVFReplica(onDisk)
	r.fs.crashAt = k
	defer func() {
		if x := recover(); x != nil {
			if _, ok := x.(vfCrash); ok || r.fs.crashed {
				crashed = true
				return
			}
			other = fmt.Sprintf("%v\n%s", x, debug.Stack())
		}
	}()
	for _, op := range ops {
		r.exec(op)
	}
	return r, false, nil
}

// vfRunToErr executes the sequence with an I/O error injected at mutating operation
// k (the operation is not performed). surfaced: the error came out of the call as an
// error or a panic (fail stop: the process dies there); otherwise the code under
// test went on as if the operation had succeeded and the whole sequence was run.
func vfRunToErr(onDisk bool, ops []vfSOp, k int) (r *vfReplica, surfaced bool, how string) {
	r = newVFReplica(onDisk)
	r.fs.errAt = k
	defer func() {
		if x := recover(); x != nil {
			surfaced = true
			how = fmt.Sprintf("%v", x)
			if len(how) > 300 {
				how = how[:300]
			}
		}
	}()
	for _, op := range ops {
		r.exec(op)
	}
	return r, false, ""
}

func vfPhaseOf(log []vfOp, k int) (label string, nontrivial bool, classes []string) {
	if k > len(log) {
		return "after-last-op", false, []string{"phase:after-last-op"}
	}
	op := log[k-1]
	label = op.phase
	classes = append(classes, "phase:"+op.phase, "before-op:"+op.kind)
	// between flag-file creation and the log-store record of that snapshot:
	// scan backwards for the nearest flag create / record
	inFlagWindow := false
	for i := k - 2; i >= 0; i-- {
		o := log[i]
		if strings.HasPrefix(o.kind, "logdb.") {
			break
		}
		if o.kind == "create" && strings.HasSuffix(o.path, fileutil.SnapshotFlagFilename) {
			inFlagWindow = true
			break
		}
	}
	if inFlagWindow {
		nontrivial = true
		classes = append(classes, "NT:between-flag-and-record")
	}
	if op.phase == "shrink" {
		nontrivial = true
		classes = append(classes, "NT:inside-shrink")
	}
	return label, nontrivial, classes
}

func vfCrashPoints(log []vfOp, exhaustive bool) []int {
	T := len(log)
	if exhaustive {
		out := make([]int, 0, T+1)
		for k := 1; k <= T+1; k++ {
			out = append(out, k)
		}
		return out
	}
	set := map[int]bool{1: true, T + 1: true}
	stride := (T + 39) / 40
	if stride < 1 {
		stride = 1
	}
	for k := 1; k <= T; k += stride {
		set[k] = true
	}
	for i, o := range log {
		k := i + 1
		interesting := o.kind == "rename" || strings.HasPrefix(o.kind, "logdb.") ||
			o.kind == "removeall" || o.kind == "remove" ||
			(o.kind == "create" && strings.HasSuffix(o.path, fileutil.SnapshotFlagFilename))
		if interesting || (o.kind == "sync" && (o.phase == "shrink" || strings.HasSuffix(o.path, vfSnapRoot))) {
			for _, d := range []int{-1, 0, 1, 2} {
				if k+d >= 1 && k+d <= T+1 {
					set[k+d] = true
				}
			}
		}
	}
	out := make([]int, 0, len(set))
	for k := range set {
		out = append(out, k)
	}
	sort.Ints(out)
	return out
}

func TestVF_C16_SnapshotDirCrash(t *testing.T) {
	defer transport.VFSetSnapshotChunkSize(transport.VFSetSnapshotChunkSize(1024)) // tunable, see transport/monkey.go
	log.SetOutput(io.Discard)                                                      // pebble's "background error: vfs: not supported" (no disk usage on MemFS)
	logger.GetLogger("dragonboat").SetLevel(logger.CRITICAL)
	logger.GetLogger("snapshotter").SetLevel(logger.CRITICAL)
	logger.GetLogger("rsm").SetLevel(logger.CRITICAL)
	logger.GetLogger("transport").SetLevel(logger.CRITICAL)
	logger.GetLogger("logdb").SetLevel(logger.CRITICAL)
	logger.GetLogger("pebblekv").SetLevel(logger.CRITICAL)
	logger.GetLogger("raftpb").SetLevel(logger.CRITICAL)
	logger.GetLogger("server").SetLevel(logger.CRITICAL)
	logger.GetLogger("config").SetLevel(logger.CRITICAL)
	st := vfhelp.NewStats("TestVF_C16_SnapshotDirCrash",
		"one case = (generated sequence of save/commit/abort/receive/install/shrink/ref/unref/restart on the real snapshotter+SSEnv+transport.Chunk+Pebble log store over one StrictMem, crash point k): power fails before mutating operation k, unsynced state is dropped, the NodeHost start-up path runs and the C16 oracle is checked, then the replica continues. "+
			"non-trivial = the cut falls between the creation of a flag file and the log-store record, or inside shrink/replace, or while a .generating and a .receiving directory coexist. "+
			"I/O error variant (cases '!k'): operation k (write/sync/create/rename/link/mkdir of the snapshot layer) fails instead of the power; the error either surfaces (fail stop = crash at that point) or the code goes on; then power cut + the same oracle; non-trivial there = the failed operation is a sync or the error did not surface")
	defer st.Flush()
	exhaustive := vfhelp.Thorough()
	st.Set("exhaustive", exhaustive)
	maxOps := 7
	if exhaustive {
		maxOps = 10
	}
	totalPoints, totalOps, totalDouble, totalErr := 0, 0, 0, 0
	rapid.Check(t, func(t *rapid.T) {
		onDisk := rapid.Bool().Draw(t, "onDisk")
		nops := 2 + vfhelp.PickN(t, "nops", maxOps-1)
		scenario := vfhelp.PickN(t, "scenario", 4)
		// phase 1: draw + execute without crash, recording the operations
		r := newVFReplica(onDisk)
		r.fs.record = true
		g := &vfSeqGen{t: t, r: r, salt: uint64(rapid.IntRange(0, 4).Draw(t, "sizeSalt"))}
		var ops []vfSOp
		func() {
			defer func() {
				if x := recover(); x != nil {
					vfhelp.Fail(t, "c16-panic-in-normal-operation", "sequence %v: %v\n%s", ops, x, debug.Stack())
				}
			}()
			// an optional scripted prefix brings the replica quickly into a
			// state with history (its operations are crash points like any other)
			var prefix []vfSOp
			switch scenario {
			case 1: // a locally generated snapshot is current
				prefix = []vfSOp{{Kind: "save", Index: 2, Size: g.size(2)}, {Kind: "commit"}}
				g.next = 2
			case 2: // a received snapshot is current
				prefix = []vfSOp{{Kind: "recvbegin", Index: 3, From: 2, Size: g.size(3)}, {Kind: "recvend"}, {Kind: "install"}}
				if !onDisk {
					prefix[0].Ext = []int{1024, 1}
				}
				g.next = 3
			case 3: // local snapshot replaced by a received one
				prefix = []vfSOp{{Kind: "save", Index: 2, Size: g.size(2)}, {Kind: "commit"},
					{Kind: "recvbegin", Index: 5, From: 2, Size: g.size(5)}, {Kind: "recvend"}, {Kind: "install"}}
				g.next = 5
			}
			for _, op := range prefix {
				r.exec(op)
				ops = append(ops, op)
			}
			for i := 0; i < nops; i++ {
				ops = append(ops, g.run())
			}
		}()
		oplog := r.fs.log
		T := len(oplog)
		ackedFull := r.acked
		// clean power-off of the phase-1 replica (nothing to check here, the
		// k = T+1 point below repeats it)
		r.powerCut()

		seq := make([]string, len(ops))
		hasRecvDuringSave := false
		hasExt := false
		noteExt := func(o vfSOp) {
			if o.Kind == "recvbegin" && len(o.Ext) > 0 {
				hasExt = true
			}
		}
		for i, o := range ops {
			seq[i] = o.String()
			noteExt(o)
			for _, m := range o.Mid {
				noteExt(m)
			}
			for _, m := range o.Mid {
				if strings.HasPrefix(m.Kind, "recv") {
					hasRecvDuringSave = true
				}
			}
		}
		seqStr := fmt.Sprintf("onDisk=%v %s", onDisk, strings.Join(seq, " "))
		points := vfCrashPoints(oplog, exhaustive)
		totalOps += T
		evaluate := func(k int, j int) int {
			kk := k
			if k == T+1 {
				kk = 0
			}
			rr, crashed, other := vfRunTo(onDisk, ops, kk)
			if other != nil {
				vfhelp.Fail(t, "c16-replay-diverged", "sequence %s crash point %d/%d: unexpected panic before the cut: %v", seqStr, k, T, other)
			}
			if crashed != (kk != 0) {
				vfhelp.Fail(t, "c16-replay-diverged", "sequence %s: crash point %d/%d did not fire as planned (crashed=%v, ops=%d)", seqStr, k, T, crashed, rr.fs.ops)
			}
			if kk == 0 && rr.acked != ackedFull {
				vfhelp.Fail(t, "c16-replay-diverged", "replay acked %d, phase 1 acked %d", rr.acked, ackedFull)
			}
			acked := rr.acked
			var redo uint64
			if rr.inSave != nil {
				redo = rr.inSave.ss.Index
			}
			rep := rr.powerCut()
			label, nt, classes := vfPhaseOf(oplog, k)
			if rep.bothTmp {
				nt = true
				classes = append(classes, "NT:generating-and-receiving-coexist")
			}
			if hasRecvDuringSave {
				classes = append(classes, "seq:receive-during-local-save")
			}
			if hasExt {
				classes = append(classes, "seq:received-snapshot-with-external-files")
			}
			if k <= len(oplog) && strings.Contains(oplog[k-1].path, "external-file-") {
				classes = append(classes, "before-op-on-external-file")
			}
			classes = append(classes, fmt.Sprintf("scenario:%d", scenario))
			if onDisk {
				classes = append(classes, "sm:on-disk")
			} else {
				classes = append(classes, "sm:regular")
			}
			where := fmt.Sprintf("power cut before operation %d of %d (%s, phase %s)", k, T, vfDescribe(oplog, k), label)
			if j > 0 {
				// second power failure, inside the start-up cleanup
				f := rr.startup(acked, j)
				if f == nil || f.sig != vfInterrupted {
					vfhelp.Fail(t, "c16-replay-diverged", "start-up crash point %d did not fire (%v)", j, f)
				}
				rr.powerCut()
				classes = append(classes, "double-crash:in-startup")
				where += fmt.Sprintf(", second power cut before operation %d of the start-up path", j)
			}
			fail := rr.startup(acked, 0)
			startupOps := rr.fs.ops
			if startupOps > 0 {
				classes = append(classes, "startup:had-to-clean-up")
			} else {
				classes = append(classes, "startup:nothing-to-clean")
			}
			if fail == nil {
				fail = rr.afterlife(redo)
			}
			if fail != nil {
				vfhelp.Fail(t, fail.sig, "sequence [%s], %s; layout at the cut %v; acked %d\n%s",
					seqStr, where, rep.layoutAtCut, acked, fail.msg)
			}
			rr.powerCut()
			st.Case([]byte(fmt.Sprintf("%s #%d.%d", seqStr, k, j)), nt, classes...)
			if nt && st.WantSample() {
				st.Sample(map[string]interface{}{
					"onDisk": onDisk, "sequence": ops, "ops_total": T, "crash_before_op": k,
					"op": vfDescribe(oplog, k), "layout_at_cut": rep.layoutAtCut, "acked": acked,
					"second_crash_in_startup_before_op": j,
				})
			}
			return startupOps
		}
		for i, k := range points {
			startupOps := evaluate(k, 0)
			totalPoints++
			if startupOps == 0 {
				continue
			}
			// power fails a second time, inside the start-up cleanup: every
			// crash point of the start-up path (thorough); first / middle /
			// last one for every 4th first-level point (quick)
			var js []int
			if exhaustive {
				for j := 1; j <= startupOps; j++ {
					js = append(js, j)
				}
			} else if i%4 == 0 {
				js = append(js, 1)
				if m := (startupOps + 1) / 2; m > 1 {
					js = append(js, m)
				}
				if startupOps > 2 {
					js = append(js, startupOps)
				}
			}
			for _, j := range js {
				evaluate(k, j)
				totalDouble++
			}
		}
		// I/O error variant: operation k of the snapshot layer fails instead of the power.
		// Either the error surfaces (error / panic: the process stops there, which is a
		// crash at that point) or the code goes on; in both cases the power is cut
		// afterwards and the start-up path must find what C16 promises - in particular a
		// snapshot whose save was reported successful although one of its writes or syncs
		// failed must not be the recorded one.
		var errPoints []int
		for k := 1; k <= T; k++ {
			switch oplog[k-1].kind {
			case "write", "sync", "create", "rename", "link", "mkdir":
				errPoints = append(errPoints, k)
			}
		}
		if !exhaustive && len(errPoints) > 12 {
			var pick []int
			for i := 0; i < 12; i++ {
				pick = append(pick, errPoints[vfhelp.PickN(t, "errpoint", len(errPoints))])
			}
			errPoints = pick
		}
		for _, k := range errPoints {
			rr, surfaced, how := vfRunToErr(onDisk, ops, k)
			if !rr.fs.errFired {
				vfhelp.Fail(t, "c16-replay-diverged", "sequence %s: I/O error point %d/%d did not fire", seqStr, k, T)
			}
			acked := rr.acked
			var redo uint64
			if rr.inSave != nil {
				redo = rr.inSave.ss.Index
			}
			rep := rr.powerCut()
			classes := []string{"ioerr:" + oplog[k-1].kind}
			if surfaced {
				classes = append(classes, "ioerr:surfaced")
			} else {
				classes = append(classes, "ioerr:not-surfaced")
			}
			where := fmt.Sprintf("I/O error injected at operation %d of %d (%s), surfaced=%v (%s), power cut afterwards", k, T, vfDescribe(oplog, k), surfaced, how)
			fail := rr.startup(acked, 0)
			if fail == nil {
				fail = rr.afterlife(redo)
			}
			if fail != nil {
				vfhelp.Fail(t, "c16-ioerr-"+strings.TrimPrefix(fail.sig, "c16-"), "sequence [%s], %s; layout at the cut %v; acked %d\n%s",
					seqStr, where, rep.layoutAtCut, acked, fail.msg)
			}
			rr.powerCut()
			totalErr++
			st.Case([]byte(fmt.Sprintf("%s !%d", seqStr, k)), !surfaced || oplog[k-1].kind == "sync", classes...)
		}
	})
	st.Set("io_error_points_executed", totalErr)
	st.Set("crash_points_executed", totalPoints)
	st.Set("second_crash_points_executed", totalDouble)
	st.Set("fs_operations_in_sequences", totalOps)
}

func vfDescribe(log []vfOp, k int) string {
	if k > len(log) {
		return "end of sequence"
	}
	o := log[k-1]
	return fmt.Sprintf("%s %s", o.kind, o.path)
}
