package dragonboat

// C06.E7 — NodeHost side of the ReadIndex path: the REAL pendingReadIndex fed by
// the REAL double buffered readIndexQueue, driven the way node.go drives them:
//
//   client        pendingReadIndex.read(timeout)            node.read, node.go:467
//   step worker   reqs := incomingReadIndexes.get()          node.handleReadIndex, node.go:1297-1300
//                 ctx := nextCtx(); add(ctx, reqs)           (the slice handed to add() IS the queue's
//                 raft.ReadIndex(ctx)                         reusable buffer; get() flips buffers on
//                                                             every step, also when the queue is empty)
//                 addReady(ReadyToReads); applied(lastApplied)  node.processReadyToRead, node.go:1081-1086
//                 dropped(ctx)                                node.processDroppedReadIndexes, node.go:1044
//                 applied(lastApplied)                        node.handleEvents, node.go:1219-1221
//   apply worker  applied(e.Index)                            node.ApplyUpdate, node.go:249
//   step worker   tick(n)                                     node.tick, node.go:1576
//   close         close()                                     node.close, node.go:383
//
// The raft layer is replaced by the generator, which obeys what raft guarantees
// (C06, decided by the E1 unit): a confirmation for ctx carries an index >= the
// commit index at the moment ReadIndex(ctx) was issued; a ctx is confirmed at
// most once, or dropped, or never answered; confirmations arrive in any order
// and arbitrarily late. pendingReadIndex keeps one batch per ctx and releases a
// batch only through the ReadyToRead of exactly that ctx ("a later confirmation
// confirms earlier ones" is resolved inside raft, which then emits one
// ReadyToRead per confirmed ctx).
//
// Oracle = reference model written from the property text (see vf6Model.judge).

import (
	"fmt"
	"runtime"
	"strings"
	"sync"
	"testing"

	"github.com/lni/dragonboat/v4/internal/vfhelp"
	"github.com/lni/dragonboat/v4/logger"
	pb "github.com/lni/dragonboat/v4/raftpb"
	"pgregory.net/rapid"
)

type vf6Batch struct {
	id        int
	ctx       pb.SystemCtx
	reqs      []*vf6Req
	formedSeq int    // event sequence number at which the batch was formed
	formedC   uint64 // model commit index when ReadIndex(ctx) was issued
	formedGet int    // number of queue.get() calls performed so far (including the forming one)
	ready     uint64 // index that came with the confirmation, 0 = not confirmed
	gone      bool   // confirmed+released, dropped
}

type vf6Req struct {
	id       int
	rs       *RequestState
	ch       chan RequestResult
	enqSeq   int
	enqC     uint64 // model commit index when the request was issued
	deadline uint64
	batch    *vf6Batch
	result   *RequestResult
	released bool
}

type vf6Model struct {
	t       *rapid.T
	q       *readIndexQueue
	p       pendingReadIndex
	pool    *sync.Pool
	now     uint64
	commit  uint64
	applied uint64
	seq     int
	gets    int
	reqs    []*vf6Req
	byPtr   map[*RequestState]*vf6Req
	batches []*vf6Batch
	closed  bool
	trace   []string
	// step context
	step       string
	candidates []*vf6Batch // batches this applied() call may legitimately release
	curApplied uint64
	dropping   *vf6Batch
	expiry     bool
	// evidence
	maxOutstanding int
	spanFlips      int
	delayed        int
	labels         map[string]bool
}

func (m *vf6Model) tracef(f string, a ...interface{}) {
	m.trace = append(m.trace, fmt.Sprintf(f, a...))
}

func (m *vf6Model) fail(sig string, f string, a ...interface{}) {
	vfhelp.Fail(m.t, sig, "%s\n  step %d (%s) now=%d commit=%d applied=%d\n  trace: %s",
		fmt.Sprintf(f, a...), len(m.trace), m.step, m.now, m.commit, m.applied, strings.Join(m.trace, " | "))
}

// call runs code under test; a second notification panics there
// ("RequestState.CompletedC is full") when the first one was not consumed yet.
func (m *vf6Model) call(what string, f func()) {
	defer func() {
		if r := recover(); r != nil {
			msg := fmt.Sprint(r)
			if strings.Contains(msg, "CompletedC is full") {
				m.fail("read-notified-twice", "%s: a request was notified a second time (%s)", what, msg)
			}
			m.fail("read-path-panic", "%s panicked: %s", what, msg)
		}
	}()
	f()
}

func (m *vf6Model) begin(step string) {
	m.step = step
	m.candidates = nil
	m.dropping = nil
	m.expiry = false
	m.seq++
}

func (m *vf6Model) outstanding() []*vf6Batch {
	var out []*vf6Batch
	for _, b := range m.batches {
		if b.gone {
			continue
		}
		live := false
		for _, r := range b.reqs {
			if r.result == nil {
				live = true
			}
		}
		if live {
			out = append(out, b)
		}
	}
	return out
}

// observe drains every request's channel and judges what arrived.
func (m *vf6Model) observe() {
	seen := make(map[chan RequestResult]bool)
	for i := len(m.reqs) - 1; i >= 0; i-- { // newest owner of a (reused) channel first
		r := m.reqs[i]
		if seen[r.ch] {
			continue
		}
		seen[r.ch] = true
		for {
			got := false
			select {
			case res := <-r.ch:
				got = true
				m.judge(r, res)
			default:
			}
			if !got {
				break
			}
		}
	}
}

// judge: the reference model's verdict on one delivered result.
func (m *vf6Model) judge(r *vf6Req, res RequestResult) {
	if r.result != nil {
		m.fail("read-notified-twice", "read #%d got %s after it already got %s", r.id, res.code, r.result.code)
	}
	switch res.code {
	case requestCompleted:
		own := r.batch
		mine := false
		for _, c := range m.candidates {
			if c == own {
				mine = true
			}
		}
		if !mine {
			// who could have released it? only the batches this applied() call
			// was entitled to release
			for _, c := range m.candidates {
				if c.formedSeq < r.enqSeq {
					m.fail("read-released-by-older-confirmation",
						"read #%d (issued at event %d, commit %d) was released Completed by the confirmation of batch %d, which was formed at event %d, BEFORE the read was issued (its own batch: %v)",
						r.id, r.enqSeq, r.enqC, c.id, c.formedSeq, vf6BatchID(own))
				}
			}
			for _, c := range m.candidates {
				if c.ready < r.enqC {
					m.fail("read-released-with-stale-index",
						"read #%d issued at commit index %d was released with read index %d (batch %d)", r.id, r.enqC, c.ready, c.id)
				}
			}
			if own != nil && own.ready > 0 && own.ready > m.curApplied {
				m.fail("read-released-before-applied",
					"read #%d released although applied index %d has not reached its read index %d", r.id, m.curApplied, own.ready)
			}
			m.fail("read-released-without-confirmation",
				"read #%d released Completed in step %s but the ctx of its batch (%v) was not confirmed+applied in this step", r.id, m.step, vf6BatchID(own))
		}
		if own.ready < r.enqC {
			m.fail("read-released-with-stale-index",
				"read #%d issued at commit index %d was released with read index %d", r.id, r.enqC, own.ready)
		}
		if !r.rs.readyToRead.ready() {
			m.fail("read-completed-without-ready-flag", "read #%d Completed but readyToRead not set", r.id)
		}
	case requestDropped:
		if m.dropping == nil || r.batch != m.dropping {
			m.fail("read-dropped-by-other-ctx", "read #%d reported Dropped but its ctx (batch %v) was not dropped in this step", r.id, vf6BatchID(r.batch))
		}
	case requestTimeout:
		if !m.expiry || m.now < r.deadline {
			m.fail("read-early-timeout", "read #%d Timeout at tick %d, deadline %d, step %s", r.id, m.now, r.deadline, m.step)
		}
	case requestTerminated:
		if !m.closed {
			m.fail("read-terminated-while-open", "read #%d Terminated but the table is not closed", r.id)
		}
	default:
		m.fail("read-unexpected-code", "read #%d got %s", r.id, res.code)
	}
	rc := res
	r.result = &rc
	m.labels["result-"+res.code.String()] = true
}

func vf6BatchID(b *vf6Batch) interface{} {
	if b == nil {
		return "none (still in the queue)"
	}
	return b.id
}

// ---------------------------------------------------------------------------

func (m *vf6Model) stepRead() {
	timeout := uint64(100)
	switch vfhelp.PickN(m.t, "tk", 4) {
	case 0:
		timeout = 1 + uint64(vfhelp.PickN(m.t, "tshort", 4))
	case 1:
		timeout = 5 + uint64(vfhelp.PickN(m.t, "tmid", 10))
	}
	m.begin("read")
	var rs *RequestState
	var err error
	m.call("read", func() { rs, err = m.p.read(timeout) })
	m.tracef("read(t%d)=%v", timeout, err)
	if err == nil {
		if prev := m.byPtr[rs]; prev != nil && (prev.result == nil || !prev.released) {
			m.fail("read-object-reused-while-owned", "RequestState of read #%d handed out again", prev.id)
		}
		r := &vf6Req{id: len(m.reqs), rs: rs, ch: rs.CompletedC, enqSeq: m.seq, enqC: m.commit, deadline: m.now + timeout}
		m.byPtr[rs] = r
		m.reqs = append(m.reqs, r)
	} else if err != ErrSystemBusy && !(m.closed && err == ErrShardClosed) {
		m.fail("read-unexpected-refusal", "read refused: %v", err)
	} else {
		m.labels["refused-"+err.Error()] = true
	}
	m.observe()
}

// stepHandleReadIndex = node.handleReadIndex; raft.ReadIndex(ctx) is issued at
// the current commit index.
func (m *vf6Model) stepHandleReadIndex() {
	m.begin("handleReadIndex")
	var reqs []*RequestState
	m.call("queue.get", func() { reqs = m.q.get() })
	m.gets++
	if len(reqs) > 0 {
		var ctx pb.SystemCtx
		m.call("nextCtx", func() { ctx = m.p.nextCtx() })
		b := &vf6Batch{id: len(m.batches), ctx: ctx, formedSeq: m.seq, formedC: m.commit, formedGet: m.gets}
		// the model records WHO is in the batch now, by value
		for _, rs := range reqs {
			r := m.byPtr[rs]
			if r == nil || r.batch != nil || r.result != nil {
				m.fail("read-queue-returned-foreign-request", "queue.get returned a request that is not waiting in the queue")
			}
			r.batch = b
			b.reqs = append(b.reqs, r)
		}
		m.call("add", func() { m.p.add(ctx, reqs) }) // the queue's own buffer, as node.go passes it
		m.batches = append(m.batches, b)
		if m.closed {
			b.gone = true
		}
	}
	m.tracef("get=%d", len(reqs))
	m.observe()
	out := m.outstanding()
	if len(out) > m.maxOutstanding {
		m.maxOutstanding = len(out)
	}
	if len(out) >= 2 {
		if span := m.gets - out[0].formedGet; span > m.spanFlips {
			m.spanFlips = span
		}
	}
}

func (m *vf6Model) unconfirmed() []*vf6Batch {
	var out []*vf6Batch
	for _, b := range m.batches {
		if !b.gone && b.ready == 0 {
			out = append(out, b)
		}
	}
	return out
}

// stepConfirm = node.processReadyToRead: addReady(ud.ReadyToReads) then applied(ud.LastApplied).
func (m *vf6Model) stepConfirm() {
	un := m.unconfirmed()
	n := 1
	if len(un) > 1 && vfhelp.PickN(m.t, "multi", 4) == 0 {
		n = 2
	}
	var reads []pb.ReadyToRead
	m.begin("confirm")
	for i := 0; i < n; i++ {
		un = m.unconfirmed()
		b := un[vfhelp.PickN(m.t, "cb", len(un))]
		// raft: read index = leader commit when it received ReadIndex(ctx) >= commit at issue time
		idx := b.formedC + uint64(vfhelp.PickN(m.t, "cidx", 3))
		if idx == 0 {
			idx = 1
		}
		if idx > m.commit {
			m.commit = idx // the leader's commit index was ahead of ours
		}
		b.ready = idx
		newer := 0
		for _, o := range m.batches {
			if o.formedSeq > b.formedSeq {
				newer++
			}
		}
		if newer > 0 {
			m.delayed++
		}
		reads = append(reads, pb.ReadyToRead{Index: idx, SystemCtx: b.ctx})
		m.tracef("confirm(b%d,idx%d,newer%d)", b.id, idx, newer)
	}
	m.call("addReady", func() { m.p.addReady(reads) })
	m.observe() // addReady alone must not release anything
	m.doApplied(m.applied)
}

func (m *vf6Model) doApplied(a uint64) {
	m.step = "applied"
	m.expiry = true
	m.curApplied = a
	m.candidates = nil
	if !m.closed {
		for _, b := range m.batches {
			if !b.gone && b.ready > 0 && b.ready <= a {
				m.candidates = append(m.candidates, b)
			}
		}
	}
	m.call("applied", func() { m.p.applied(a) })
	m.tracef("applied(%d)", a)
	m.observe()
	for _, b := range m.candidates {
		b.gone = true
		for _, r := range b.reqs {
			if r.result == nil {
				m.fail("read-never-notified", "batch %d was confirmed at index %d and applied reached %d, but read #%d got no result and the batch is gone", b.id, b.ready, a, r.id)
			}
		}
	}
}

func (m *vf6Model) stepApplied() {
	m.begin("applied")
	// commit moves, applied follows in arbitrary increments, never beyond commit
	m.commit += uint64(vfhelp.PickN(m.t, "cadv", 3))
	if m.applied < m.commit {
		m.applied += uint64(vfhelp.PickN(m.t, "aadv", int(m.commit-m.applied)+1))
	}
	a := m.applied
	if a > 0 && vfhelp.PickN(m.t, "stale", 5) == 0 {
		a = uint64(vfhelp.PickN(m.t, "stalev", int(a)+1)) // the other worker's older value
	}
	m.doApplied(a)
}

func (m *vf6Model) stepDropped() {
	un := m.unconfirmed()
	b := un[vfhelp.PickN(m.t, "db", len(un))]
	m.begin("dropped")
	if !m.closed {
		m.dropping = b
	}
	m.call("dropped", func() { m.p.dropped(b.ctx) })
	m.tracef("dropped(b%d)", b.id)
	m.observe()
	if !m.closed {
		for _, r := range b.reqs {
			if r.result == nil {
				m.fail("read-never-notified", "ctx of batch %d was dropped but read #%d was not reported Dropped", b.id, r.id)
			}
		}
	}
	b.gone = true
}

func (m *vf6Model) stepTick() {
	m.begin("tick")
	m.now += 1 + uint64(vfhelp.PickN(m.t, "tickd", 3))
	m.p.tick(m.now)
	m.tracef("tick(%d)", m.now)
	m.observe()
}

func (m *vf6Model) stepRelease() {
	var c []*vf6Req
	for _, r := range m.reqs {
		if r.result != nil && !r.released && m.byPtr[r.rs] == r {
			c = append(c, r)
		}
	}
	if len(c) == 0 {
		return
	}
	r := c[vfhelp.PickN(m.t, "rel", len(c))]
	m.begin("release")
	m.call("Release", func() { r.rs.Release() })
	r.released = true
	m.tracef("release(#%d)", r.id)
	m.labels["released"] = true
	m.observe()
}

func (m *vf6Model) stepClose() {
	m.begin("close")
	m.closed = true
	m.call("close", func() { m.p.close() })
	m.tracef("close")
	m.observe()
	for _, r := range m.reqs {
		if r.result == nil {
			m.fail("read-never-notified", "read #%d has no result after close()", r.id)
		}
	}
}

// finish: everything still pending must end: the worker forms the last batch,
// the clock passes every deadline, one expiry pass runs, then close.
func (m *vf6Model) finish() {
	if !m.closed && vfhelp.PickN(m.t, "drain", 2) == 0 {
		m.stepHandleReadIndex()
		m.begin("tick")
		m.now += 140
		m.p.tick(m.now)
		m.tracef("tick(far %d)", m.now)
		m.observe()
		m.begin("applied")
		m.doApplied(m.applied)
		m.begin("tick")
		m.now += defaultGCTick + 1
		m.p.tick(m.now)
		m.observe()
		m.begin("applied")
		m.doApplied(m.applied)
		for _, r := range m.reqs {
			if r.result == nil {
				m.fail("read-never-notified", "read #%d (deadline %d, batch %v) has no result at tick %d after an expiry pass", r.id, r.deadline, vf6BatchID(r.batch), m.now)
			}
		}
	}
	if !m.closed {
		m.stepClose()
	}
	m.begin("final")
	m.observe()
}

func TestVF_C06_PendingRead(t *testing.T) {
	defer runtime.GOMAXPROCS(runtime.GOMAXPROCS(1)) // deterministic sync.Pool behaviour
	logger.GetLogger("dragonboat").SetLevel(logger.CRITICAL)
	st := vfhelp.NewStats("TestVF_C06_PendingRead",
		"generated interleavings of read / handleReadIndex (queue.get + nextCtx + add on the queue's own buffer) / confirmations in any order and arbitrarily late / dropped / applied in arbitrary increments / tick / Release / close on the real pendingReadIndex + readIndexQueue; "+
			"non-trivial = at some moment >= 2 batches were outstanding whose oldest was formed >= 2 queue.get() flips earlier, and at least one confirmation arrived after a newer batch had been formed")
	defer st.Flush()
	maxSteps := 60
	if vfhelp.Thorough() {
		maxSteps = 120
	}
	rapid.Check(t, func(t *rapid.T) {
		qsize := []uint64{1, 2, 3, 4, 8}[vfhelp.PickN(t, "qsize", 5)]
		pool := &sync.Pool{}
		pool.New = func() interface{} {
			return &RequestState{CompletedC: make(chan RequestResult, 1), pool: pool}
		}
		q := newReadIndexQueue(qsize)
		m := &vf6Model{t: t, q: q, pool: pool, p: newPendingReadIndex(pool, q),
			byPtr: make(map[*RequestState]*vf6Req), labels: make(map[string]bool)}
		m.commit = uint64(vfhelp.PickN(t, "c0", 4))
		m.applied = m.commit
		steps := 8 + vfhelp.PickN(t, "steps", maxSteps-7)
		closeAllowed := vfhelp.PickN(t, "midclose", 6) == 0
		for i := 0; i < steps; i++ {
			type act struct {
				w   int
				run func()
			}
			un := len(m.unconfirmed())
			acts := []act{
				{8, m.stepRead},
				{7, m.stepHandleReadIndex},
				{3, m.stepApplied},
				{2, m.stepTick},
				{2, m.stepRelease},
			}
			if un > 0 {
				acts = append(acts, act{3 + un, m.stepConfirm}, act{1, m.stepDropped})
			}
			if closeAllowed && !m.closed {
				acts = append(acts, act{1, m.stepClose})
			}
			total := 0
			for _, a := range acts {
				total += a.w
			}
			x := vfhelp.PickN(t, "act", total)
			for _, a := range acts {
				if x < a.w {
					a.run()
					break
				}
				x -= a.w
			}
		}
		m.finish()

		nt := m.maxOutstanding >= 2 && m.spanFlips >= 2 && m.delayed >= 1
		labels := []string{fmt.Sprintf("qsize-%d", qsize)}
		for l := range m.labels {
			labels = append(labels, l)
		}
		if m.maxOutstanding >= 2 {
			labels = append(labels, "two-or-more-batches-outstanding")
		}
		if m.maxOutstanding >= 4 {
			labels = append(labels, "four-or-more-batches-outstanding")
		}
		if m.spanFlips >= 2 {
			labels = append(labels, "outstanding-batch-survived-2-flips")
		}
		if m.spanFlips >= 4 {
			labels = append(labels, "outstanding-batch-survived-4-flips")
		}
		if m.delayed > 0 {
			labels = append(labels, "delayed-confirmation")
		}
		if closeAllowed {
			labels = append(labels, "close-mid-run")
		}
		st.Case([]byte(fmt.Sprintf("q%d %s", qsize, strings.Join(m.trace, ";"))), nt, labels...)
		st.Count("reads-accepted", len(m.reqs))
		st.Count("batches-formed", len(m.batches))
		if nt && st.WantSample() {
			st.Sample(map[string]interface{}{"queueSize": qsize, "trace": m.trace,
				"maxOutstandingBatches": m.maxOutstanding, "flipsSurvived": m.spanFlips, "delayedConfirmations": m.delayed})
		}
	})
}
