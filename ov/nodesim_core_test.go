package dragonboat

// E9 nodesim - a deterministic, single goroutine simulator around the REAL
// NodeHost level `node` objects (node.go, quiesce.go, the request.go pending
// tables, internal/rsm, the real raft.Peer and the real LogReader/ShardedDB on an
// in-memory file system).
//
// What is real: everything reachable from node.stepNode(), the node.process*/
// apply*/commit* helpers, node.handleTask/handleSnapshotTask/save/recover,
// node.close, newNode/replayLog (restart), the pending tables and quiesceState.
//
// What is mirrored by the harness (and therefore NOT checked here): the sequencing
// of engine.processSteps / processApplies / ssWorker (nsSim.stepReplica,
// applyReplica, ssWorker below are line by line copies for one shard), the tick
// source (NodeHost.sendTickMessage), the transport (messages go from
// node.sendRaftMessage straight into the receiver's MessageQueue unless the
// generated link state drops or holds them) and NodeHost.startShard / stopNode.
//
// Every random choice is a rapid draw; raft's election jitter and the ReadIndex /
// config change keys come from random.LockGuardedRand whose source is replaced by
// a PRNG seeded from a rapid draw at the start of every case.

import (
	"encoding/binary"
	"fmt"
	"io"
	"math/rand"
	"os"
	"reflect"
	"sort"
	"strings"
	"sync"
	"unsafe"

	"github.com/lni/goutils/random"
	"pgregory.net/rapid"

	"github.com/lni/dragonboat/v4/client"
	"github.com/lni/dragonboat/v4/config"
	"github.com/lni/dragonboat/v4/internal/logdb"
	"github.com/lni/dragonboat/v4/internal/registry"
	"github.com/lni/dragonboat/v4/internal/rsm"
	"github.com/lni/dragonboat/v4/internal/server"
	"github.com/lni/dragonboat/v4/internal/settings"
	"github.com/lni/dragonboat/v4/internal/vfhelp"
	"github.com/lni/dragonboat/v4/internal/vfs"
	"github.com/lni/dragonboat/v4/raftio"
	pb "github.com/lni/dragonboat/v4/raftpb"
	sm "github.com/lni/dragonboat/v4/statemachine"
)

const (
	nsMaxID    = 8 // replica ids 1..5 initial voters, 6..8 spares that can be added
	nsTopDir   = "nodesim"
	nsOverhead = 1000000 // CompactionOverhead when log compaction is not wanted
	// nodehost.go streamPushDelayTick / streamConfirmedDelayTick
	nsStreamPushDelayTick      = 10
	nsStreamConfirmedDelayTick = 2
	nsC12Slack                 = 8 // ticks after the deadline within which a terminal result must exist
	nsMaxTraceLn               = 400
)

// nsSetGlobalRand replaces the source of goutils' process wide PRNG. The variable
// is exported, its field is not, hence reflect+unsafe (harness only).
func nsSetGlobalRand(seed int64) {
	v := reflect.ValueOf(random.LockGuardedRand).Elem().FieldByName("source")
	p := (*rand.Source64)(unsafe.Pointer(v.UnsafeAddr()))
	*p = rand.New(rand.NewSource(seed))
}

type nsOpts struct {
	voters          int
	electionRTT     uint64
	heartbeatRTT    uint64
	checkQuorum     bool
	preVote         bool
	quiesce         bool
	snapshotEntries uint64
	overhead        uint64
	seed            int64
	// eagerPool: the snapshot worker pool handles a save / recover notification at
	// once (before the notifying worker goes on); otherwise when its turn comes
	eagerPool bool
}

func (o nsOpts) String() string {
	return fmt.Sprintf("voters=%d E=%d H=%d cq=%t pv=%t quiesce=%t snapEntries=%d overhead=%d seed=%d eagerpool=%t",
		o.voters, o.electionRTT, o.heartbeatRTT, o.checkQuorum, o.preVote, o.quiesce, o.snapshotEntries, o.overhead, o.seed, o.eagerPool)
}

// nsSM is the instrumented user state machine (regular, in memory).
type nsSM struct {
	sim   *nsSim
	rep   *nsReplica
	inc   int
	count uint64
	sum   uint64
}

func nsHash(b []byte) uint64 { return vfhelp.Hash64(b) }

func (m *nsSM) Update(e sm.Entry) (sm.Result, error) {
	m.count++
	m.sum = m.sum*1099511628211 ^ nsHash(e.Cmd) ^ e.Index
	m.sim.onApply(m.rep, m.inc, e.Index, e.Cmd)
	return sm.Result{Value: e.Index}, nil
}

func (m *nsSM) Lookup(interface{}) (interface{}, error) { return m.count, nil }

func (m *nsSM) SaveSnapshot(w io.Writer,
	_ sm.ISnapshotFileCollection, _ <-chan struct{}) error {
	buf := make([]byte, 16)
	binary.LittleEndian.PutUint64(buf, m.count)
	binary.LittleEndian.PutUint64(buf[8:], m.sum)
	_, err := w.Write(buf)
	return err
}

func (m *nsSM) RecoverFromSnapshot(r io.Reader,
	_ []sm.SnapshotFile, _ <-chan struct{}) error {
	buf := make([]byte, 16)
	if _, err := io.ReadFull(r, buf); err != nil {
		return err
	}
	m.count = binary.LittleEndian.Uint64(buf)
	m.sum = binary.LittleEndian.Uint64(buf[8:])
	return nil
}

func (m *nsSM) Close() error { return nil }

type nsReplica struct {
	id        uint64
	n         *node
	smi       *nsSM
	alive     bool
	started   bool
	join      bool
	nonVoting bool
	promoted  bool
	peers     map[uint64]string
	tick      uint64
	inc       int
	stalled   bool
	selfGone  bool // applied its own removal (or found itself removed) and was stopped
	lastIdx   uint64
	lastAppl  uint64
	term      uint64
	campaign  bool // set by onSend / observeUpdate during the current step
	batch     []rsm.Task
	entries   []sm.Entry
	winTicks  int // ticks received while a committed config change was unapplied
	// the harness's own clock of the replica (independent of the clocks kept by the
	// code under test): Hint of the newest tick accepted by the replica's message queue
	// and Hint of the newest tick the replica has processed (a step consumes the whole
	// queue); ticksSeen counts the ticks processed by the current incarnation
	queuedHint uint64
	procHint   uint64
	ticksSeen  int
	// what SaveRaftState calls that have returned made durable for this replica (the
	// log store survives an in-process restart): C04 send-before-save monitor
	durState pb.State
	durVotes map[uint64]uint64
	durLast  uint64 // highest entry index ever saved
	durSnap  uint64 // highest snapshot index ever saved through SaveRaftState
	// snapshot worker pool state of the shard (see nsPipeline)
	saveReady, recoverReady   bool
	hasSaveJob, hasRecoverJob bool
	saveJob, recoverJob       rsm.Task
}

type nsReq struct {
	id       int
	kind     string
	rep      *nsReplica
	inc      int
	rs       *RequestState
	cmd      string
	deadline uint64
	// hDeadline: the deadline on the harness's own clock (0: the replica had not processed
	// a tick yet when the request was issued, its clock is not comparable)
	hDeadline uint64
	maxDone  uint64 // highest index of a proposal reported Completed before this request was issued
	done     bool
	code     string
	fair     bool
	silent   bool
}

type nsSim struct {
	t     *rapid.T
	st    *vfhelp.Stats
	armed map[string]bool
	opts  nsOpts

	shardID uint64
	fs      vfs.IFS
	ldb     raftio.ILogDB
	pool    *sync.Pool
	session *client.Session
	reps    []*nsReplica // reps[id], reps[0] unused
	blocked [nsMaxID + 1][nsMaxID + 1]bool
	held    [nsMaxID + 1][nsMaxID + 1]bool
	heldQ   [nsMaxID + 1][nsMaxID + 1][]pb.Message

	trace      []string
	failing    bool
	noDescribe bool
	quiet      bool
	rounds     int
	inFair     bool

	appliedCmd map[uint64]string
	memAt      map[uint64]string
	leaders    map[uint64]uint64
	ccIndex    []uint64
	ccSeen     map[uint64]bool
	reqs       []*nsReq
	maxDone    uint64
	propSeq    int
	flags      map[string]bool
	foreign    map[string]bool
	topMem     pb.Membership
	topApplied uint64
	applyViol  [][2]string
	// orphanBlocked[r] = index of a streamed snapshot that r's transport rejected
	// because a finalized directory of that index already exists at r
	orphanBlocked map[uint64]uint64
	outOfModel    string
	addKind       map[uint64]pb.ConfigChangeType
	votesSent     int
	dropped       int
}

var nsShardSeq uint64 = 7000

func newNsSim(t *rapid.T, st *vfhelp.Stats, armed []string, opts nsOpts) *nsSim {
	nsShardSeq++
	s := &nsSim{
		t: t, st: st, opts: opts, shardID: nsShardSeq,
		armed:      map[string]bool{},
		appliedCmd: map[uint64]string{},
		memAt:      map[uint64]string{},
		leaders:    map[uint64]uint64{},
		ccSeen:     map[uint64]bool{},
		flags:      map[string]bool{},
		foreign:    map[string]bool{},
		addKind:    map[uint64]pb.ConfigChangeType{},

		orphanBlocked: map[uint64]uint64{},
	}
	for _, a := range armed {
		s.armed[a] = true
	}
	nsSetGlobalRand(opts.seed)
	s.fs = vfs.NewMemFS()
	dir := s.fs.PathJoin(nsTopDir, "logdb")
	lldir := s.fs.PathJoin(nsTopDir, "logdb-ll")
	for _, d := range []string{dir, lldir} {
		if err := s.fs.MkdirAll(d, 0755); err != nil {
			panic(err)
		}
	}
	nhc := config.NodeHostConfig{Expert: config.GetDefaultExpertConfig()}
	nhc.Expert.LogDB.Shards = 1
	nhc.Expert.FS = s.fs
	ldb, err := logdb.NewDefaultLogDB(nhc, nil, []string{dir}, []string{lldir})
	if err != nil {
		panic(err)
	}
	s.ldb = ldb
	pool := &sync.Pool{}
	pool.New = func() interface{} {
		obj := &RequestState{}
		obj.CompletedC = make(chan RequestResult, 1)
		obj.pool = pool
		return obj
	}
	s.pool = pool
	s.session = client.NewNoOPSession(s.shardID, rand.New(rand.NewSource(opts.seed^0x5e55)))
	s.reps = make([]*nsReplica, nsMaxID+1)
	peers := map[uint64]string{}
	for id := uint64(1); id <= uint64(opts.voters); id++ {
		peers[id] = nsAddr(id)
	}
	for id := uint64(1); id <= nsMaxID; id++ {
		r := &nsReplica{id: id}
		if id <= uint64(opts.voters) {
			r.peers = peers
		} else {
			r.join = true
			r.peers = map[uint64]string{}
		}
		s.reps[id] = r
	}
	for id := uint64(1); id <= uint64(opts.voters); id++ {
		s.startReplica(s.reps[id])
	}
	return s
}

func nsAddr(id uint64) string { return fmt.Sprintf("peer%d:%d", id, 12345+id) }

func (s *nsSim) cleanup() {
	for _, r := range s.reps[1:] {
		if r.n != nil && r.alive {
			func() {
				defer func() { _ = recover() }()
				r.n.close()
				_ = r.n.destroy()
			}()
		}
	}
	func() {
		defer func() { _ = recover() }()
		_ = s.ldb.Close()
	}()
}

func (s *nsSim) logf(format string, args ...interface{}) {
	if s.quiet {
		return
	}
	s.trace = append(s.trace, fmt.Sprintf(format, args...))
}

func (s *nsSim) flag(l string) { s.flags[l] = true }

// violate reports a property violation. Armed signatures fail the case (with the
// trace), the others are counted once per case and the run goes on.
func (s *nsSim) violate(sig string, format string, args ...interface{}) {
	msg := fmt.Sprintf(format, args...)
	if !s.armed[sig] {
		if !s.foreign[sig] {
			s.foreign[sig] = true
			s.st.Count("foreign-violation:"+sig, 1)
		}
		return
	}
	s.dump(sig, msg)
	s.failing = true
	vfhelp.Fail(s.t, sig, "%s", msg)
}

func (s *nsSim) known(sig string, format string, args ...interface{}) bool {
	msg := fmt.Sprintf(format, args...)
	if !s.armed[sig] {
		if !s.foreign[sig] {
			s.foreign[sig] = true
			s.st.Count("foreign-violation:"+sig, 1)
		}
		return true
	}
	if !vfhelp.IsKnown(sig) {
		s.dump(sig, msg)
	}
	s.failing = true
	ok := s.st.Known(s.t, sig, "%s", msg)
	s.failing = false
	return ok
}

func (s *nsSim) dump(sig, msg string) {
	s.t.Logf("nodesim %s: %s", sig, msg)
	s.t.Logf("options: %s", s.opts)
	n := len(s.trace)
	for i := 0; i < n; i++ {
		if n > nsMaxTraceLn && i == nsMaxTraceLn*3/4 {
			skip := n - nsMaxTraceLn
			s.t.Logf("  ... (%d trace lines omitted)", skip)
			i += skip
		}
		s.t.Logf("  %4d %s", i, s.trace[i])
	}
	if !s.noDescribe {
		s.t.Logf("state: %s", s.describe())
	}
}

func (s *nsSim) describe() string {
	var b strings.Builder
	for _, r := range s.reps[1:] {
		if !r.started {
			continue
		}
		fmt.Fprintf(&b, "[r%d", r.id)
		if !r.alive {
			if r.selfGone {
				b.WriteString(" removed-stopped")
			} else {
				b.WriteString(" down")
			}
		}
		if r.n != nil {
			lid, term, _ := r.n.getLeaderID()
			fmt.Fprintf(&b, " term=%d leaderinfo=(%d,%d) applied=%d pushed=%d init=%t", r.term, lid, term,
				r.n.sm.GetLastApplied(), r.n.pushedIndex, r.n.initialized())
			if r.n.qs.enabled {
				fmt.Fprintf(&b, " quiesced=%t(since %d) idle=%d tick=%d", r.n.qs.quiesced(), r.n.qs.quiescedSince, r.n.qs.currentTick-r.n.qs.idleSince, r.n.qs.currentTick)
			}
			fmt.Fprintf(&b, " members=%s", nsMembers(r.n.sm.GetMembership()))
		}
		if r.stalled {
			b.WriteString(" apply-stalled")
		}
		if r.nonVoting {
			b.WriteString(" nonvoting")
		}
		b.WriteString("] ")
	}
	return b.String()
}

func nsKeys(m map[uint64]string) []uint64 {
	ks := make([]uint64, 0, len(m))
	for k := range m {
		ks = append(ks, k)
	}
	sort.Slice(ks, func(i, j int) bool { return ks[i] < ks[j] })
	return ks
}

func nsMembers(m pb.Membership) string {
	rem := make([]uint64, 0, len(m.Removed))
	for k := range m.Removed {
		rem = append(rem, k)
	}
	sort.Slice(rem, func(i, j int) bool { return rem[i] < rem[j] })
	return fmt.Sprintf("v%v n%v w%v x%v cc%d", nsKeys(m.Addresses), nsKeys(m.NonVotings), nsKeys(m.Witnesses), rem, m.ConfigChangeId)
}

// guard runs code under test; a panic in there is a fail-stop outcome of the code
// under test on an input the harness considers valid.
func (s *nsSim) guard(what string, f func()) {
	defer func() {
		if r := recover(); r != nil {
			if s.failing {
				panic(r)
			}
			msg := fmt.Sprint(r)
			s.logf("PANIC in %s: %s", what, msg)
			s.noDescribe = true // locks of the code under test may still be held
			s.armed["nodesim-panic"] = true
			s.violate("nodesim-panic", "code under test panicked in %s: %s", what, msg)
		}
	}()
	f()
}

// ---------------------------------------------------------------------------
// replica life cycle (mirror of NodeHost.startShard / stopNode)

func (s *nsSim) startReplica(r *nsReplica) {
	id := r.id
	snapdir := s.snapDir(id)
	if err := s.fs.MkdirAll(snapdir, 0755); err != nil {
		panic(err)
	}
	lr := logdb.NewLogReader(s.shardID, id, s.ldb)
	snapshotter := newSnapshotter(s.shardID, id,
		func(uint64, uint64) string { return snapdir }, s.ldb, lr, s.fs)
	lr.SetCompactor(snapshotter)
	cfg := config.Config{
		ReplicaID:              id,
		ShardID:                s.shardID,
		ElectionRTT:            s.opts.electionRTT,
		HeartbeatRTT:           s.opts.heartbeatRTT,
		CheckQuorum:            s.opts.checkQuorum,
		PreVote:                s.opts.preVote,
		Quiesce:                s.opts.quiesce,
		SnapshotEntries:        s.opts.snapshotEntries,
		CompactionOverhead:     s.opts.overhead,
		IsNonVoting:            r.nonVoting,
		DisableAutoCompactions: true,
	}
	r.inc++
	r.ticksSeen, r.procHint, r.queuedHint = 0, 0, 0
	r.saveReady, r.recoverReady, r.hasSaveJob, r.hasRecoverJob = false, false, false, false
	r.smi = &nsSM{sim: s, rep: r, inc: r.inc}
	smi := r.smi
	create := func(_ uint64, _ uint64, done <-chan struct{}) rsm.IManagedStateMachine {
		return rsm.NewNativeSM(cfg, rsm.NewInMemStateMachine(smi), done)
	}
	nr := registry.NewNodeRegistry(settings.Soft.StreamConnections, nil)
	nhc := config.NodeHostConfig{RTTMillisecond: 1}
	var n *node
	s.guard(fmt.Sprintf("start r%d", id), func() {
		if err := snapshotter.processOrphans(); err != nil {
			panic(err)
		}
		var err error
		n, err = newNode(r.peers, !r.join, cfg, nhc, create, snapshotter, lr,
			&nsPipeline{s: s, r: r}, nil, nil, nil,
			func(m pb.Message) { s.onSend(r, m) },
			nr, s.pool, s.ldb, nil, newSysEventListener(nil, nil))
		if err != nil {
			panic(err)
		}
	})
	n.loaded()
	r.n = n
	r.alive = true
	r.started = true
	r.lastIdx = 0
	r.lastAppl = 0
	r.campaign = false
}

// stopReplica mirrors NodeHost.stopNode: close, then destroy.
func (s *nsSim) stopReplica(r *nsReplica) {
	if !r.alive {
		return
	}
	s.observeMembership()
	s.guard(fmt.Sprintf("stop r%d", r.id), func() {
		r.n.close()
		if err := r.n.destroy(); err != nil {
			panic(err)
		}
	})
	r.alive = false
	// messages held for / queued at the replica are gone with it
	for from := 1; from <= nsMaxID; from++ {
		s.heldQ[from][r.id] = nil
		s.heldQ[r.id][from] = nil
	}
	// C12: the shard stopped, every pending request of this incarnation must have
	// its terminal result by now
	s.poll()
	for _, q := range s.reqs {
		if q.rep == r && q.inc == r.inc && !q.done {
			q.done = true
			s.violate("nodesim-no-terminal-result", "request #%d (%s via r%d) has no result after the replica was closed", q.id, q.kind, r.id)
		}
	}
}

// ---------------------------------------------------------------------------
// network

// noteDurable records what a SaveRaftState call that has returned made durable.
func (r *nsReplica) noteDurable(ud pb.Update) {
	if !pb.IsEmptyState(ud.State) {
		r.durState = ud.State
		if r.durVotes == nil {
			r.durVotes = map[uint64]uint64{}
		}
		r.durVotes[ud.State.Term] = ud.State.Vote
	}
	if n := len(ud.EntriesToSave); n > 0 && ud.EntriesToSave[n-1].Index > r.durLast {
		r.durLast = ud.EntriesToSave[n-1].Index
	}
	if !pb.IsEmptySnapshot(ud.Snapshot) && ud.Snapshot.Index > r.durSnap {
		r.durSnap = ud.Snapshot.Index
	}
}

// checkDurable: C04, persist before send. A message leaves a replica only when the
// term, vote and entries it implies are durable (Replicate is exempt from the entry
// rule - thesis 10.2.1 - but not from the term rule and not with a commit index beyond
// its own durable log; pre-vote messages carry a prospective term by design).
func (s *nsSim) checkDurable(from *nsReplica, m pb.Message) {
	if m.Type == pb.RequestPreVote || m.Type == pb.RequestPreVoteResp || m.Term == 0 {
		return
	}
	d := from.durState
	if m.Term > d.Term {
		s.violate("nodesim-term-not-durable", "r%d sends %s to r%d with term %d, its durable term is %d (vote %d)", from.id, m.Type, m.To, m.Term, d.Term, d.Vote)
		return
	}
	switch m.Type {
	case pb.RequestVoteResp:
		if !m.Reject && d.Term == m.Term {
			if v, ok := from.durVotes[m.Term]; !ok || v != m.To {
				s.violate("nodesim-vote-not-durable", "r%d grants its vote to r%d in term %d, its durable vote for that term is %d (recorded %t)", from.id, m.To, m.Term, v, ok)
			}
		}
	case pb.RequestVote:
		if d.Term == m.Term {
			if v, ok := from.durVotes[m.Term]; !ok || v != from.id {
				s.violate("nodesim-vote-not-durable", "r%d requests votes in term %d, its durable vote for that term is %d (recorded %t)", from.id, m.Term, v, ok)
			}
		}
	case pb.ReplicateResp:
		if !m.Reject && m.Term >= d.Term && m.LogIndex > from.durLast && m.LogIndex > from.durSnap && m.LogIndex > d.Commit {
			s.violate("nodesim-ack-not-durable", "r%d acknowledges index %d, its durable log ends at %d (snapshot %d)", from.id, m.LogIndex, from.durLast, from.durSnap)
		}
	case pb.Replicate, pb.Heartbeat:
		if m.Commit > from.durLast && m.Commit > from.durSnap {
			s.violate("nodesim-commit-advertised-before-durable", "r%d sends %s with commit index %d, its own durable log ends at %d (snapshot %d)", from.id, m.Type, m.Commit, from.durLast, from.durSnap)
		}
	}
}

func (s *nsSim) onSend(from *nsReplica, m pb.Message) {
	s.checkDurable(from, m)
	switch m.Type {
	case pb.RequestVote, pb.RequestPreVote:
		from.campaign = true
		s.votesSent++
	}
	if m.To == 0 || m.To > nsMaxID {
		return
	}
	if s.blocked[from.id][m.To] {
		s.dropped++
		if m.Type == pb.InstallSnapshot {
			s.guard("snapshot unref", func() {
				if err := m.Snapshot.Unref(); err != nil {
					panic(err)
				}
			})
			s.snapshotStatus(from, m.To, true, nsStreamPushDelayTick)
		}
		return
	}
	if s.held[from.id][m.To] {
		s.heldQ[from.id][m.To] = append(s.heldQ[from.id][m.To], m)
		return
	}
	s.deliver(m)
}

func (s *nsSim) deliver(m pb.Message) {
	to := s.reps[m.To]
	switch m.Type {
	case pb.InstallSnapshot:
		s.deliverSnapshot(m)
		return
	case pb.SnapshotReceived:
		// NodeHost.HandleMessageBatch turns it into a delayed SnapshotStatus
		if to.alive {
			to.n.mq.AddDelayed(pb.Message{Type: pb.SnapshotStatus, From: m.From}, nsStreamConfirmedDelayTick)
		}
		return
	}
	if !to.alive {
		s.dropped++
		return
	}
	to.n.mq.Add(m)
}

// snapshotStatus mirrors messageHandler.HandleSnapshotStatus on the sender.
func (s *nsSim) snapshotStatus(sender *nsReplica, to uint64, failed bool, delay uint64) {
	if sender.alive {
		sender.n.mq.AddDelayed(pb.Message{Type: pb.SnapshotStatus, From: to, Reject: failed}, delay)
	}
}

// deliverSnapshot mirrors what the transport does with an InstallSnapshot
// message: the snapshot file is copied (chunks) into a receiving directory of the
// target replica, finalized (flag file + rename, transport.Chunk.finalize), the
// message with the rewritten path is queued at the target, the target's NodeHost
// answers SnapshotReceived and the sender is told the outcome.
func (s *nsSim) deliverSnapshot(m pb.Message) {
	from, to := s.reps[m.From], s.reps[m.To]
	// the transport releases the sender's reference when the job ends
	defer s.guard("snapshot unref", func() {
		if err := m.Snapshot.Unref(); err != nil {
			panic(err)
		}
	})
	fail := func(why string) {
		s.logf("    snapshot %d r%d -> r%d not delivered: %s", m.Snapshot.Index, m.From, m.To, why)
		s.snapshotStatus(from, m.To, true, nsStreamPushDelayTick)
	}
	if !to.alive {
		fail("target down")
		return
	}
	if len(m.Snapshot.Files) > 0 || m.Snapshot.Witness || m.Snapshot.Dummy {
		s.outOfModel = "snapshot-kind"
		return
	}
	ok := false
	var out pb.Message
	s.guard("snapshot transfer", func() {
		data, err := nsReadFile(s.fs, m.Snapshot.Filepath)
		if err != nil {
			fail("source file is gone: " + err.Error())
			return
		}
		dir := s.snapDir(to.id)
		env := server.NewSSEnv(func(uint64, uint64) string { return dir },
			s.shardID, to.id, m.Snapshot.Index, m.From, server.ReceivingMode, s.fs)
		if err := env.CreateTempDir(); err != nil {
			fail("cannot create receiving dir: " + err.Error())
			return
		}
		base := s.fs.PathBase(m.Snapshot.Filepath)
		if err := nsWriteFile(s.fs, s.fs.PathJoin(env.GetTempDir(), base), data); err != nil {
			panic(err)
		}
		o := m.Snapshot
		// what arrives is the decoded wire form: no reference count, no compactor
		ss := pb.Snapshot{FileSize: o.FileSize, Index: o.Index, Term: o.Term, Membership: o.Membership,
			Checksum: o.Checksum, Dummy: o.Dummy, ShardID: o.ShardID, Type: o.Type, Imported: o.Imported,
			OnDiskIndex: o.OnDiskIndex, Witness: o.Witness}
		ss.Filepath = s.fs.PathJoin(env.GetFinalDir(), base)
		if err := env.FinalizeSnapshot(&ss); err != nil {
			env.MustRemoveTempDir()
			if err == server.ErrSnapshotOutOfDate {
				// transport.Chunk.addLocked drops the stream silently at its last chunk; the
				// sender has written all chunks without an error and reports success
				s.logf("    snapshot %d r%d -> r%d dropped by the target's transport: a directory of that index exists there (the sender sees success)", m.Snapshot.Index, m.From, m.To)
				s.orphanBlocked[to.id] = m.Snapshot.Index
				s.snapshotStatus(from, m.To, false, nsStreamPushDelayTick)
				return
			}
			panic(err)
		}
		out = m
		out.Snapshot = ss
		ok = true
	})
	if !ok {
		return
	}
	m2 := out
	s.flag("ev-snapshot-streamed")
	s.logf("    snapshot %d streamed r%d -> r%d", m.Snapshot.Index, m.From, m.To)
	to.n.mq.MustAdd(m2)
	// messageHandler.HandleSnapshot on the receiving host
	s.onSend(to, pb.Message{Type: pb.SnapshotReceived, From: to.id, To: m.From, ShardID: s.shardID})
	s.snapshotStatus(from, m.To, false, nsStreamPushDelayTick)
}

func nsReadFile(fs vfs.IFS, path string) ([]byte, error) {
	f, err := fs.Open(path)
	if err != nil {
		return nil, err
	}
	defer f.Close()
	return io.ReadAll(f)
}

func nsWriteFile(fs vfs.IFS, path string, data []byte) error {
	f, err := fs.Create(path)
	if err != nil {
		return err
	}
	if _, err := f.Write(data); err != nil {
		_ = f.Close()
		return err
	}
	if err := f.Sync(); err != nil {
		_ = f.Close()
		return err
	}
	return f.Close()
}

func (s *nsSim) snapDir(id uint64) string {
	return s.fs.PathJoin(nsTopDir, fmt.Sprintf("snap-%d-%d", s.shardID, id))
}

func (s *nsSim) release(from, to uint64) {
	q := s.heldQ[from][to]
	s.heldQ[from][to] = nil
	for _, m := range q {
		s.deliver(m)
	}
}

func (s *nsSim) healAll() {
	for a := uint64(1); a <= nsMaxID; a++ {
		for b := uint64(1); b <= nsMaxID; b++ {
			s.blocked[a][b] = false
			s.held[a][b] = false
			s.release(a, b)
		}
	}
}

func (s *nsSim) isolate(id uint64) {
	for b := uint64(1); b <= nsMaxID; b++ {
		if b != id {
			s.blocked[id][b] = true
			s.blocked[b][id] = true
		}
	}
}

func (s *nsSim) anyFault() bool {
	for a := 1; a <= nsMaxID; a++ {
		for b := 1; b <= nsMaxID; b++ {
			if s.blocked[a][b] || s.held[a][b] {
				return true
			}
		}
	}
	return false
}

// ---------------------------------------------------------------------------
// the three workers (mirrors of engine.go for one shard)

func (s *nsSim) tickReplica(r *nsReplica) {
	if !r.alive || r.n.stopped() {
		return
	}
	r.tick++
	r.n.mq.Tick()
	if ok, _ := r.n.mq.Add(pb.Message{Type: pb.LocalTick, To: r.id, From: r.id, Hint: r.tick}); ok {
		r.queuedHint = r.tick
	}
	if s.hasCCWindow(r) {
		r.winTicks++
	}
}

// hasCCWindow: a membership change entry is committed on r (handed to its apply
// queue) but not applied yet.
func (s *nsSim) hasCCWindow(r *nsReplica) bool {
	if r.n == nil {
		return false
	}
	return s.ccBetween(r.n.sm.GetLastApplied(), r.n.pushedIndex) != 0
}

func (s *nsSim) ccBetween(applied, pushed uint64) uint64 {
	for _, c := range s.ccIndex {
		if applied < c && c <= pushed {
			return c
		}
	}
	return 0
}

// stepReplica = engine.processSteps for a single node.
func (s *nsSim) stepReplica(r *nsReplica) {
	if !r.alive || r.n.stopped() {
		return
	}
	n := r.n
	appliedBefore := n.sm.GetLastApplied()
	pushedBefore := n.pushedIndex
	r.campaign = false
	queued := r.queuedHint
	if !n.initialized() {
		queued = 0 // (a replica that is not initialized yet leaves its message queue alone)
	}
	s.guard(fmt.Sprintf("step r%d", r.id), func() {
		ud, has, err := n.stepNode()
		if err != nil {
			panic(err)
		}
		// stepNode consumed the message queue: every tick queued before is processed
		if queued > r.procHint {
			r.procHint = queued
			r.ticksSeen++
		}
		if !has {
			return
		}
		s.observeUpdate(r, ud)
		if ud.FastApply {
			if err := n.processSnapshot(ud); err != nil {
				panic(err)
			}
			n.applyRaftUpdates(ud)
		}
		n.sendReplicateMessages(ud)
		n.processReadyToRead(ud)
		n.processDroppedEntries(ud)
		n.processDroppedReadIndexes(ud)
		n.processLogQuery(ud.LogQueryResult)
		n.processLeaderUpdate(ud.LeaderUpdate)
		if err := s.ldb.SaveRaftState([]pb.Update{ud}, 1); err != nil {
			panic(err)
		}
		r.noteDurable(ud)
		if !pb.IsEmptySnapshot(ud.Snapshot) {
			// engine.onSnapshotSaved
			if err := n.removeSnapshotFlagFile(ud.Snapshot.Index); err != nil {
				panic(err)
			}
			s.flag("ev-snapshot-installed")
		}
		if !ud.FastApply {
			if err := n.processSnapshot(ud); err != nil {
				panic(err)
			}
			n.applyRaftUpdates(ud)
		}
		if err := n.processRaftUpdate(ud); err != nil {
			panic(err)
		}
		n.commitRaftUpdate(ud)
	})
	if r.campaign {
		s.flag("ev-campaign")
		if len(s.ccIndex) > 0 {
			s.flag("ev-campaign-after-cc")
		}
		if s.flags["ev-cc-window"] {
			s.flag("ev-campaign-after-cc-window")
		}
		if c := s.ccBetween(appliedBefore, pushedBefore); c != 0 {
			s.violate("nodesim-campaign-with-unapplied-config-change",
				"r%d started campaigning / became leader although the membership change at index %d is committed on it (handed to its apply queue, pushed index %d) and not applied yet (applied index %d)",
				r.id, c, pushedBefore, appliedBefore)
		}
	}
}

func (s *nsSim) observeUpdate(r *nsReplica, ud pb.Update) {
	if !pb.IsEmptyState(ud.State) {
		r.term = ud.State.Term
	}
	for _, e := range ud.CommittedEntries {
		if e.Type == pb.ConfigChangeEntry && !s.ccSeen[e.Index] {
			s.ccSeen[e.Index] = true
			s.ccIndex = append(s.ccIndex, e.Index)
			sort.Slice(s.ccIndex, func(i, j int) bool { return s.ccIndex[i] < s.ccIndex[j] })
			s.flag("ev-cc-committed")
			for _, o := range s.reps[1:] {
				if o.alive && o.stalled {
					s.flag("ev-cc-committed-while-some-apply-stalled")
				}
			}
		}
	}
	lu := ud.LeaderUpdate
	if lu.Term != 0 && lu.LeaderID != 0 {
		if prev, ok := s.leaders[lu.Term]; ok && prev != lu.LeaderID {
			s.violate("nodesim-two-leaders-one-term", "term %d: r%d is leader, and r%d reports r%d as leader of the same term", lu.Term, prev, r.id, lu.LeaderID)
		}
		if lu.LeaderID == r.id {
			if _, ok := s.leaders[lu.Term]; !ok {
				s.leaders[lu.Term] = r.id
				s.logf("    r%d became leader of term %d", r.id, lu.Term)
				if len(s.leaders) > 1 {
					s.flag("ev-leader-change")
				}
			}
			r.campaign = true
		}
	}
}

// applyReplica = engine.processApplies for a single node.
func (s *nsSim) applyReplica(r *nsReplica) {
	if !r.alive || r.stalled || r.n.stopped() {
		return
	}
	n := r.n
	s.guard(fmt.Sprintf("apply r%d", r.id), func() {
		if n.processStatusTransition() {
			return
		}
		task, err := n.handleTask(r.batch, r.entries)
		if err != nil {
			panic(err)
		}
		if task.IsSnapshotTask() {
			n.handleSnapshotTask(task)
		}
	})
	s.flushApplyViolations()
}

// nsPipeline is the engine as the node sees it. The step / commit / apply
// notifications are not needed (the simulator runs those workers on its own
// schedule); the save / recover notifications are kept faithfully, because the
// snapshot worker pool of engine.go is purely notification driven: it looks for a
// job of a shard only after that shard was flagged ready (workerPoolMain takes the
// ready map, then getSaveJob / getRecoverJob), its ticker does not look for jobs.
type nsPipeline struct {
	dummyEngine
	s *nsSim
	r *nsReplica
}

func (p *nsPipeline) setSaveReady(uint64) {
	p.r.saveReady = true
	if p.s.opts.eagerPool {
		// the pool goroutine wins the race: it handles the notification before the
		// notifying worker executes its next statement
		p.s.poolPickup(p.r)
	}
}

func (p *nsPipeline) setRecoverReady(uint64) {
	p.r.recoverReady = true
	if p.s.opts.eagerPool {
		p.s.poolPickup(p.r)
	}
}

// poolPickup = workerPoolMain handling the ready notifications of one shard: the
// ready flag is consumed, then the request (if it is there) becomes a pending job.
func (s *nsSim) poolPickup(r *nsReplica) {
	n := r.n
	if r.saveReady {
		r.saveReady = false
		if req, ok := n.ss.getSaveReq(); ok {
			r.saveJob, r.hasSaveJob = req, true
		}
	}
	if r.recoverReady {
		r.recoverReady = false
		if req, ok := n.ss.getRecoverReq(); ok {
			r.recoverJob, r.hasRecoverJob = req, true
		}
	}
}

// ssWorker = workerPool + ssWorker for a single node (save and recover jobs).
func (s *nsSim) ssWorker(r *nsReplica) {
	if !r.alive {
		return
	}
	n := r.n
	s.guard(fmt.Sprintf("snapshot worker r%d", r.id), func() {
		s.poolPickup(r)
		if r.hasSaveJob {
			req := r.saveJob
			r.hasSaveJob = false
			if err := n.save(req); err != nil {
				panic(err)
			}
			n.saveDone()
			s.flag("ev-snapshot-saved")
		}
		if r.hasRecoverJob {
			req := r.recoverJob
			r.hasRecoverJob = false
			idx, err := n.recover(req)
			if err != nil {
				panic(err)
			}
			n.recoverDone(idx)
			if idx > 0 {
				s.flag("ev-recovered-from-snapshot")
			}
		}
	})
}

// round: one tick for every running replica, then every replica steps, applies
// and has its snapshot worker run; the starting replica rotates.
func (s *nsSim) round() {
	s.rounds++
	for id := 1; id <= nsMaxID; id++ {
		s.tickReplica(s.reps[id])
	}
	s.workAll()
}

func (s *nsSim) workAll() {
	off := s.rounds % nsMaxID
	for k := 0; k < nsMaxID; k++ {
		s.stepReplica(s.reps[1+(off+k)%nsMaxID])
	}
	for k := 0; k < nsMaxID; k++ {
		s.applyReplica(s.reps[1+(off+k)%nsMaxID])
	}
	for k := 0; k < nsMaxID; k++ {
		s.ssWorker(s.reps[1+(off+k)%nsMaxID])
	}
	s.afterAction()
}

func (s *nsSim) roundsN(k int) {
	for i := 0; i < k && s.outOfModel == ""; i++ {
		s.round()
	}
}

// ---------------------------------------------------------------------------
// oracles

// onApply is called from inside the user state machine (rsm holds its lock):
// violations are only recorded here and raised by flushApplyViolations.
func (s *nsSim) onApply(r *nsReplica, inc int, index uint64, cmd []byte) {
	c := string(cmd)
	if inc == r.inc {
		if index <= r.lastIdx {
			s.applyViol = append(s.applyViol, [2]string{"nodesim-apply-order",
				fmt.Sprintf("r%d applied index %d after index %d", r.id, index, r.lastIdx)})
		}
		r.lastIdx = index
	}
	if prev, ok := s.appliedCmd[index]; ok {
		if prev != c {
			s.applyViol = append(s.applyViol, [2]string{"nodesim-applied-entry-differs",
				fmt.Sprintf("index %d: r%d applied %q, another replica (or an earlier incarnation) applied %q", index, r.id, c, prev)})
		}
	} else {
		s.appliedCmd[index] = c
	}
}

func (s *nsSim) flushApplyViolations() {
	v := s.applyViol
	s.applyViol = nil
	for _, x := range v {
		s.violate(x[0], "%s", x[1])
	}
}

// afterAction runs the cheap monitors and collects results.
func (s *nsSim) afterAction() {
	for _, r := range s.reps[1:] {
		if r.n == nil || !r.alive {
			continue
		}
		n := r.n
		applied := n.sm.GetLastApplied()
		if applied < r.lastAppl {
			s.violate("nodesim-apply-order", "r%d: applied index went back from %d to %d", r.id, r.lastAppl, applied)
		}
		r.lastAppl = applied
		if applied > 0 {
			mem := nsMembers(n.sm.GetMembership())
			if prev, ok := s.memAt[applied]; ok {
				if prev != mem {
					s.violate("nodesim-membership-differs", "applied index %d: r%d has membership %s, another replica had %s", applied, r.id, mem, prev)
				}
			} else {
				s.memAt[applied] = mem
			}
		}
		if s.hasCCWindow(r) {
			s.flag("ev-cc-window")
			if r.winTicks >= int(2*s.opts.electionRTT) {
				s.flag("ev-cc-window-2E-ticks")
			}
		} else {
			r.winTicks = 0
		}
		if n.qs.quiesced() {
			s.flag("ev-quiesced")
			if _, _, ok := n.getLeaderID(); !ok {
				s.flag("ev-quiesced-leaderless")
			}
		}
	}
	s.observeMembership()
	s.poll()
	// NodeHost's node monitor: a replica that stopped itself is unloaded
	for _, r := range s.reps[1:] {
		if r.alive && r.n.stopped() {
			s.logf("    r%d stopped itself (removed), unloading", r.id)
			r.selfGone = true
			s.flag("ev-self-removed")
			s.stopReplica(r)
		}
	}
}

func (s *nsSim) poll() {
	for _, q := range s.reqs {
		select {
		case res := <-q.rs.CompletedC:
			if q.done {
				s.violate("nodesim-two-results", "request #%d (%s via r%d) got a second result %s after %s", q.id, q.kind, q.rep.id, res.code, q.code)
				continue
			}
			q.done = true
			q.code = res.code.String()
			s.onResult(q, res)
		default:
		}
		if q.done || !q.rep.alive || q.rep.inc != q.inc {
			continue
		}
		if now := q.rep.n.pendingReadIndexes.getTick(); now > q.deadline+nsC12Slack {
			q.done = true
			q.code = "none"
			s.violate("nodesim-no-terminal-result", "request #%d (%s via r%d) deadline tick %d, replica processed tick %d, no result", q.id, q.kind, q.rep.id, q.deadline, now)
		} else if q.hDeadline > 0 && q.rep.procHint > q.hDeadline+nsC12Slack {
			// the same rule on the harness's own clock: the ticks the replica has processed
			// (whatever the request tables of the code under test believe the time to be)
			q.done = true
			q.code = "none"
			s.violate("nodesim-no-terminal-result", "request #%d (%s via r%d) deadline tick %d on the harness's clock, the replica has processed tick %d (its request tables are at tick %d), no result", q.id, q.kind, q.rep.id, q.hDeadline, q.rep.procHint, now)
		}
	}
}

func (s *nsSim) onResult(q *nsReq, res RequestResult) {
	if !q.silent || res.Completed() {
		s.logf("    result #%d %s via r%d: %s", q.id, q.kind, q.rep.id, res.code)
	}
	s.flag("res-" + q.kind + "-" + res.code.String())
	if res.Timeout() && q.hDeadline > 0 && q.rep.alive && q.rep.inc == q.inc && q.rep.procHint+1 < q.hDeadline {
		// tick driven expiry: a request is not timed out before the replica has processed
		// the ticks up to its deadline (one tick of tolerance)
		s.violate("nodesim-timeout-before-deadline", "request #%d (%s via r%d) was reported Timeout when the replica had processed tick %d, its deadline is tick %d", q.id, q.kind, q.rep.id, q.rep.procHint, q.hDeadline)
	}
	if !res.Completed() {
		return
	}
	switch q.kind {
	case "prop":
		v := res.GetResult().Value
		got, ok := s.appliedCmd[v]
		if !ok {
			s.violate("nodesim-completed-not-applied", "proposal #%d %q via r%d reported Completed with result %d, no replica applied a user entry at that index", q.id, q.cmd, q.rep.id, v)
			return
		}
		if got != q.cmd {
			s.violate("nodesim-foreign-result", "proposal #%d %q via r%d reported Completed with the result of index %d, which holds %q", q.id, q.cmd, q.rep.id, v, got)
			return
		}
		if q.rep.alive && q.rep.inc == q.inc && q.rep.n.sm.GetLastApplied() < v {
			s.violate("nodesim-completed-not-applied", "proposal #%d via r%d reported Completed at index %d, local applied index is %d", q.id, q.rep.id, v, q.rep.n.sm.GetLastApplied())
		}
		if v > s.maxDone {
			s.maxDone = v
		}
	case "read":
		if q.rep.alive && q.rep.inc == q.inc {
			if a := q.rep.n.sm.GetLastApplied(); a < q.maxDone {
				s.violate("nodesim-stale-read", "ReadIndex #%d via r%d completed with local applied index %d; a proposal at index %d was reported Completed before the read was issued", q.id, q.rep.id, a, q.maxDone)
			}
		}
	}
}

func (s *nsSim) track(kind string, r *nsReplica, rs *RequestState, timeout uint64, cmd string) *nsReq {
	q := &nsReq{id: len(s.reqs), kind: kind, rep: r, inc: r.inc, rs: rs, cmd: cmd,
		deadline: r.n.pendingReadIndexes.getTick() + timeout, maxDone: s.maxDone, fair: s.inFair}
	if r.ticksSeen > 0 {
		q.hDeadline = r.procHint + timeout
	}
	s.reqs = append(s.reqs, q)
	return q
}

// ---------------------------------------------------------------------------
// client operations

func (s *nsSim) propose(r *nsReplica, timeout uint64) *nsReq {
	if !r.alive {
		return nil
	}
	s.propSeq++
	cmd := fmt.Sprintf("p%d", s.propSeq)
	var q *nsReq
	s.guard("propose", func() {
		rs, err := r.n.propose(s.session, []byte(cmd), timeout)
		if err != nil {
			s.logf("    propose via r%d: %v", r.id, err)
			s.flag("err-propose")
			return
		}
		q = s.track("prop", r, rs, timeout, cmd)
		s.logf("    #%d propose %q via r%d timeout %d", q.id, cmd, r.id, timeout)
	})
	return q
}

func (s *nsSim) read(r *nsReplica, timeout uint64) *nsReq {
	if !r.alive {
		return nil
	}
	var q *nsReq
	s.guard("read", func() {
		rs, err := r.n.read(timeout)
		if err != nil {
			s.logf("    read via r%d: %v", r.id, err)
			s.flag("err-read")
			return
		}
		q = s.track("read", r, rs, timeout, "")
		s.logf("    #%d read via r%d timeout %d (max completed index %d)", q.id, r.id, timeout, s.maxDone)
	})
	return q
}

func (s *nsSim) configChange(r *nsReplica, cct pb.ConfigChangeType, target uint64, timeout uint64) *nsReq {
	if !r.alive {
		return nil
	}
	var q *nsReq
	s.guard("config change", func() {
		rs, err := r.n.requestConfigChange(cct, target, nsAddr(target), 0, timeout)
		if err != nil {
			s.logf("    %s r%d via r%d: %v", cct, target, r.id, err)
			s.flag("err-cc")
			return
		}
		q = s.track("cc", r, rs, timeout, "")
		s.logf("    #%d %s r%d via r%d timeout %d", q.id, cct, target, r.id, timeout)
	})
	return q
}

func (s *nsSim) snapshotReq(r *nsReplica, timeout uint64) *nsReq {
	if !r.alive {
		return nil
	}
	var q *nsReq
	s.guard("snapshot request", func() {
		rs, err := r.n.requestSnapshot(SnapshotOption{}, timeout)
		if err != nil {
			s.logf("    snapshot via r%d: %v", r.id, err)
			s.flag("err-snapshot")
			return
		}
		q = s.track("snap", r, rs, timeout, "")
		s.logf("    #%d snapshot via r%d timeout %d", q.id, r.id, timeout)
	})
	return q
}

// spareFor returns a replica id that may be added with the given kind: never
// started, not a member, not removed, and never requested with another kind (a
// replica that joins has to be started with the kind it was added with; the
// harness keeps the operator out of the undocumented "added as non-voting,
// promoted before it was ever started" corner).
func (s *nsSim) spareFor(kind pb.ConfigChangeType) uint64 {
	mem, _ := s.latestMembership()
	for id := uint64(s.opts.voters) + 1; id <= nsMaxID; id++ {
		_, v := mem.Addresses[id]
		_, nv := mem.NonVotings[id]
		if v || nv || mem.Removed[id] || s.reps[id].started {
			continue
		}
		if k, ok := s.addKind[id]; ok && k != kind {
			continue
		}
		s.addKind[id] = kind
		return id
	}
	return 0
}

func (s *nsSim) transfer(r *nsReplica, target uint64) {
	if !r.alive {
		return
	}
	s.guard("leader transfer", func() {
		if err := r.n.requestLeaderTransfer(target); err != nil {
			s.logf("    transfer via r%d: %v", r.id, err)
			return
		}
		s.flag("ev-transfer-requested")
	})
}

// ---------------------------------------------------------------------------
// views

func (s *nsSim) aliveReps() []*nsReplica {
	var out []*nsReplica
	for _, r := range s.reps[1:] {
		if r.alive {
			out = append(out, r)
		}
	}
	return out
}

// leader: the running replica that claims leadership with the highest term.
func (s *nsSim) leader() *nsReplica {
	var best *nsReplica
	var bt uint64
	for _, r := range s.aliveReps() {
		if r.n.isLeader() {
			_, term, _ := r.n.getLeaderID()
			if best == nil || term > bt {
				best, bt = r, term
			}
		}
	}
	return best
}

// latestMembership: the applied membership with the highest applied index that
// any replica has ever shown (afterAction keeps it; a freshly restarted replica's
// state machine is empty until it has replayed its log). Before anything was
// applied it is the initial membership.
func (s *nsSim) latestMembership() (pb.Membership, uint64) {
	s.observeMembership()
	if s.topApplied == 0 {
		m := pb.Membership{Addresses: map[uint64]string{}}
		for id := uint64(1); id <= uint64(s.opts.voters); id++ {
			m.Addresses[id] = nsAddr(id)
		}
		return m, 0
	}
	return s.topMem, s.topApplied
}

func (s *nsSim) observeMembership() {
	for _, r := range s.reps[1:] {
		if r.n == nil {
			continue
		}
		if a := r.n.sm.GetLastApplied(); a > s.topApplied {
			s.topApplied = a
			s.topMem = r.n.sm.GetMembership()
		}
	}
}

func (s *nsSim) maxApplied() uint64 {
	var m uint64
	for _, r := range s.aliveReps() {
		if a := r.n.sm.GetLastApplied(); a > m {
			m = a
		}
	}
	return m
}

// ---------------------------------------------------------------------------
// C17 fair phase

// fairPhase heals everything and requires progress. stageA: no client at all, a
// leader has to exist; stageB: a write only client pinned to one replica.
func (s *nsSim) fairPhase(clientPick func(n int) int) {
	E := int(s.opts.electionRTT)
	s.inFair = true
	s.logf("FAIR PHASE: heal all links, un-stall all apply workers, restart stopped replicas")
	s.healAll()
	operator := func() {
		mem, _ := s.latestMembership()
		for _, r := range s.reps[1:] {
			_, v := mem.Addresses[r.id]
			_, nv := mem.NonVotings[r.id]
			removed := mem.Removed[r.id]
			if !r.started && (v || nv) {
				// a committed change added it: the operator starts it (join)
				r.nonVoting = nv
				s.logf("    operator starts joiner r%d (nonvoting=%t)", r.id, nv)
				s.startReplica(r)
				s.flag("fair-joiner-started")
			}
			if r.started && !r.alive && !r.selfGone && !removed && !r.promoted {
				s.logf("    operator restarts r%d", r.id)
				s.startReplica(r)
			}
			// a replica that was removed without noticing keeps campaigning with ever
			// higher terms; without CheckQuorum/PreVote that legitimately disrupts the
			// shard (thesis 4.2.3), so the operator stops removed replicas
			if removed && r.alive && !s.opts.checkQuorum && !s.opts.preVote {
				s.logf("    operator stops removed replica r%d", r.id)
				s.flag("fair-stopped-removed-replica")
				r.selfGone = true
				s.stopReplica(r)
			}
		}
	}
	for _, r := range s.reps[1:] {
		r.stalled = false
	}
	operator()
	// precondition of C17: a majority of the voting members is running
	if mem, _ := s.latestMembership(); true {
		running := 0
		for id := range mem.Addresses {
			if s.reps[id].alive {
				running++
			}
		}
		if running < len(mem.Addresses)/2+1 {
			s.logf("    no majority of the voting members %v can be run by the operator, no progress required", nsKeys(mem.Addresses))
			s.flag("fair-no-majority-running")
			if os.Getenv("VF_NS_DEBUG") != "" {
				fmt.Println("NOMAJ", nsKeys(mem.Addresses), s.describe())
			}
			return
		}
	}
	leaderAtStart := s.leader() != nil
	// stage A
	budgetA := 60 * E
	minA := 8 * E
	for i := 0; i < budgetA && s.outOfModel == ""; i++ {
		s.round()
		operator()
		if i >= minA && s.leader() != nil {
			break
		}
	}
	if s.outOfModel != "" {
		return
	}
	if s.leader() == nil {
		if s.classifyStuck() {
			return
		}
		if s.allQuiescent() {
			// every running voting member is quiescent and none is leader: nobody campaigns
			// until a request arrives (findings/E9.md, Q1)
			if leaderAtStart {
				s.flag("q1-leader-lost-in-fair-phase")
			} else {
				s.flag("q1-no-leader-when-faults-ended")
			}
			if !s.known("nodesim-idle-quiescent-shard-stays-leaderless",
				"all running voting members are quiescent and none of them is leader (a leader existed when the faults ended: %t): nobody campaigns (QuiescedTick) until a client request arrives, %d fault free ticks so far; %s", leaderAtStart, budgetA, s.describe()) {
				return
			}
		} else {
			s.violate("nodesim-no-leader-in-fair-phase", "all links healed, all replicas running for %d ticks without client activity: nobody is leader (a leader existed when the faults ended: %t); %s", budgetA, leaderAtStart, s.describe())
			return
		}
	} else {
		s.flag("fair-leader-exists")
	}
	// stage B
	budgetB := 340 * E
	var client *nsReplica
	var cur *nsReq
	completed := 0
	submitted := 0
	pickClient := func() *nsReplica {
		mem, _ := s.latestMembership()
		var cands []*nsReplica
		for _, r := range s.aliveReps() {
			_, v := mem.Addresses[r.id]
			_, nv := mem.NonVotings[r.id]
			if (v || nv) && r.n.initialized() {
				cands = append(cands, r)
			}
		}
		if len(cands) == 0 {
			return nil
		}
		return cands[clientPick(len(cands))]
	}
	caughtUp := func() bool {
		mem, _ := s.latestMembership()
		top := s.maxApplied()
		for _, r := range s.aliveReps() {
			_, v := mem.Addresses[r.id]
			_, nv := mem.NonVotings[r.id]
			if (v || nv) && r.n.sm.GetLastApplied() < top {
				return false
			}
		}
		return true
	}
	q2Checked := 0
	for i := 0; i < budgetB && s.outOfModel == ""; i++ {
		// Q2 (findings/E9.md): the client sits on a replica that joined while every
		// voting member is quiescent; nobody ever talks to it. Tolerated as a known
		// finding, the client then moves to a voting member so that the search goes on.
		if completed == 0 && client != nil && client.alive && i-q2Checked >= 40*E {
			q2Checked = i
			if s.joinerIgnored(client) {
				if !s.known("nodesim-joiner-ignored-by-quiescent-shard",
					"r%d was added by a committed membership change and started while all voting members were quiescent: no replica ever sends it anything (quiescent leaders send no heartbeats, it has no membership to campaign with), the %d proposals submitted through it were all dropped, it never catches up; %s", client.id, submitted, s.describe()) {
					return
				}
				client = nil
				for _, r := range s.aliveReps() {
					if _, ok := r.n.sm.GetMembership().Addresses[r.id]; ok && client == nil {
						client = r
						s.logf("    fair phase client moves to r%d", client.id)
					}
				}
			}
		}
		if i%E == 0 {
			if client != nil && client.alive {
				// the client's replica may have been removed from the shard in the meantime (a
				// membership change still in flight when the faults ended): nobody tells a
				// removed replica anything any more and it is not a replica of the shard, so
				// the client goes to a member
				mem, _ := s.latestMembership()
				_, v := mem.Addresses[client.id]
				_, nv := mem.NonVotings[client.id]
				if !v && !nv {
					s.logf("    fair phase client leaves r%d (removed from the shard)", client.id)
					s.flag("fair-client-left-removed-replica")
					client = nil
				}
			}
			if client == nil || !client.alive {
				client = pickClient()
				if client != nil {
					s.logf("    fair phase client is pinned to r%d", client.id)
				}
			}
			if client != nil && (cur == nil || cur.done) {
				if cur != nil && cur.done && cur.code == "RequestCompleted" {
					completed++
				}
				if completed == 0 {
					s.quiet = submitted >= 3
					cur = s.propose(client, uint64(3*E))
					s.quiet = false
					if cur != nil {
						submitted++
						cur.silent = submitted > 3
						if submitted == 4 {
							s.logf("    (further proposals of the fair phase client and their results are not logged unless Completed)")
						}
					}
				}
			}
		}
		s.round()
		operator()
		if cur != nil && cur.done && cur.code == "RequestCompleted" && completed == 0 {
			completed++
		}
		if completed > 0 && caughtUp() && s.leader() != nil {
			s.flag("fair-progress")
			return
		}
	}
	if s.outOfModel != "" {
		return
	}
	if s.classifyStuck() {
		return
	}
	if s.leader() == nil {
		s.violate("nodesim-no-leader-in-fair-phase", "no leader at the end of the fair phase (%d ticks); %s", budgetA+budgetB, s.describe())
		return
	}
	if completed == 0 {
		who := uint64(0)
		if client != nil {
			who = client.id
		}
		s.violate("nodesim-no-progress-in-fair-phase", "none of the %d proposals submitted through r%d (one per election timeout, retried when dropped / timed out) completed within %d ticks of fault free running; %s", submitted, who, budgetB, s.describe())
		return
	}
	s.violate("nodesim-replica-not-caught-up", "a running member replica did not catch up to applied index %d within %d fault free ticks; %s", s.maxApplied(), budgetB, s.describe())
}

// joinerIgnored: r has not applied its own addition yet and every running voting
// member is quiescent.
func (s *nsSim) joinerIgnored(r *nsReplica) bool {
	mem := r.n.sm.GetMembership()
	_, v := mem.Addresses[r.id]
	_, nv := mem.NonVotings[r.id]
	if v || nv {
		return false
	}
	return s.allQuiescent()
}

// allQuiescent: every running voting member (by its own applied membership) is
// quiescent.
func (s *nsSim) allQuiescent() bool {
	n := 0
	for _, r := range s.aliveReps() {
		if _, ok := r.n.sm.GetMembership().Addresses[r.id]; !ok {
			continue
		}
		n++
		if !r.n.qs.quiesced() {
			return false
		}
	}
	return n > 0
}

// classifyStuck recognises the shapes of the recorded findings F2 and F5 (F4
// needs a witness, which this engine does not generate).
func (s *nsSim) classifyStuck() bool {
	// F2: a stopped self-removed replica is still needed for somebody's quorum
	for _, x := range s.reps[1:] {
		if !x.selfGone {
			continue
		}
		for _, v := range s.aliveReps() {
			mem := v.n.sm.GetMembership()
			if _, ok := mem.Addresses[v.id]; !ok {
				continue
			}
			if _, ok := mem.Addresses[x.id]; !ok {
				continue
			}
			running := 0
			for id := range mem.Addresses {
				if s.reps[id].alive {
					running++
				}
			}
			if running < len(mem.Addresses)/2+1 {
				return s.known("stuck-quorum-needs-self-removed-replica",
					"r%d committed and applied its own removal and stopped, r%d still counts it as a voting member and cannot reach a quorum of its membership without it; %s", x.id, v.id, s.describe())
			}
		}
	}
	// Q3 (findings/E9.md): a lagging replica keeps rejecting the stream of the
	// leader's snapshot because an orphaned directory of the same index exists
	for _, r := range s.aliveReps() {
		if idx, ok := s.orphanBlocked[r.id]; ok && r.n.sm.GetLastApplied() < idx && s.leader() != nil {
			return s.known("nodesim-orphan-snapshot-dir-blocks-restream",
				"r%d (applied %d) needs the leader's snapshot %d, but every stream of it is rejected by r%d's own transport (ErrSnapshotOutOfDate): a directory of that index was finalized there earlier for an InstallSnapshot message that its raft then ignored; it cannot catch up until the leader creates a snapshot with a larger index; %s", r.id, r.n.sm.GetLastApplied(), idx, r.id, s.describe())
		}
	}
	// F5: CheckQuorum and PreVote off, a replica that cannot campaign has a higher
	// term than the leader and ignores it
	if l := s.leader(); l != nil && !s.opts.checkQuorum && !s.opts.preVote {
		for _, r := range s.aliveReps() {
			if r == l || r.term <= l.term {
				continue
			}
			mem := r.n.sm.GetMembership()
			_, selfVoter := mem.Addresses[r.id]
			if r.nonVoting || !selfVoter {
				return s.known("stuck-higher-term-replica-ignores-leader",
					"r%d (term %d) cannot campaign itself and silently ignores leader r%d (term %d) because neither CheckQuorum nor PreVote is enabled; %s", r.id, r.term, l.id, l.term, s.describe())
			}
		}
	}
	return false
}
