package dragonboat

// C12.E7 — real-thread race between client goroutines, one step-worker round
// in flight and node.close() on the REAL pending tables (the single threaded
// model in pend_model_test.go executes every method atomically and cannot
// produce interleavings INSIDE close()/read()/propose()).
//
// What production does around a stop (nodehost.go:stopNode, node.go:379-388,
// engine.go:1316-1321):
//   - the stopping goroutine (nh.mu held) deletes the shard from the map, then
//     node.close(): requestRemoval() closes stopC FIRST, then the five table
//     close() calls in the order read, proposal, config change, snapshot, log
//     query; then n.offloaded() and wake-ups;
//   - clients that loaded the *node before the delete (lock free sync.Map
//     load) may still call propose/read/request... at any time, also after
//     close();
//   - workers test node.stopped() before every round and skip the node from
//     then on; a round that is in flight completes (queue.get, nextCtx, add,
//     tick, gc, applied, worker-side completions). After that NOTHING touches
//     the tables any more: no tick, no gc, no get.
// The harness mirrors exactly that: closer sets the stop flag and runs the
// five close() calls; the worker goroutine checks the flag before each round;
// clients hammer the accept call until they are refused with ErrShardClosed.
// Afterwards one more tick far past every deadline + gc + applied is issued
// (the tail of an in-flight round at the latest possible moment; these calls
// return early on a stopped table) and the C12 oracle is evaluated over ALL
// accepted requests.
//
// This unit samples schedules of the Go runtime; it is not reproducible bit by
// bit. Its measured detection rate for the seeded close()-order change is in
// /verif/findings/E7-sensitivity.md.

import (
	"fmt"
	"os"
	"runtime"
	"strings"
	"sync"
	"sync/atomic"
	"testing"

	"github.com/lni/dragonboat/v4/client"
	"github.com/lni/dragonboat/v4/config"
	"github.com/lni/dragonboat/v4/internal/rsm"
	"github.com/lni/dragonboat/v4/internal/vfhelp"
	"github.com/lni/dragonboat/v4/logger"
	pb "github.com/lni/dragonboat/v4/raftpb"
	sm "github.com/lni/dragonboat/v4/statemachine"
	"pgregory.net/rapid"
)

type vfRaceAccepted struct {
	rs         *RequestState
	afterClose bool // the accepting call STARTED after close() had begun
}

type vfRaceCase struct {
	table      int
	clients    int
	prefill    int
	worker     bool
	timeout    uint64
	closeAfter int64 // close() begins once the clients made this many attempts
	extra      int   // attempts a client still makes after close() has returned
	notify     bool
}

type vfRaceRun struct {
	c        vfRaceCase
	n        *vfNode
	stop     int32 // node.stopped()
	closed   int32 // close() returned
	attempts int64
	now      uint64
	pmu      sync.Mutex
	panics   []string
}

func (r *vfRaceRun) guard(where string) {
	if x := recover(); x != nil {
		r.pmu.Lock()
		r.panics = append(r.panics, fmt.Sprintf("%s: %v", where, x))
		r.pmu.Unlock()
	}
}

// accept performs one client call on the chosen table.
func (r *vfRaceRun) accept(id int) (*RequestState, error) {
	n := r.n
	switch r.c.table {
	case vfKProp:
		s := &client.Session{ShardID: 1, ClientID: uint64(id + 1), SeriesID: client.NoOPSeriesID}
		return n.pp.propose(s, nil, r.c.timeout)
	case vfKRead:
		return n.pr.read(r.c.timeout)
	case vfKCC:
		return n.pc.request(pb.ConfigChange{Type: pb.AddNode, ReplicaID: 2, Address: "a2"}, r.c.timeout)
	case vfKSnap:
		return n.ps.request(rsm.UserRequested, "", false, 0, 0, r.c.timeout)
	default:
		return n.pl.add(1, 5, 1024)
	}
}

func (r *vfRaceRun) clientMain(id int, out *[]vfRaceAccepted, refused *map[string]int) {
	defer r.guard("client")
	left := r.c.extra
	for i := 0; i < 200000; i++ {
		after := atomic.LoadInt32(&r.stop) != 0
		done := atomic.LoadInt32(&r.closed) != 0
		rs, err := r.accept(id)
		atomic.AddInt64(&r.attempts, 1)
		if err == nil {
			*out = append(*out, vfRaceAccepted{rs: rs, afterClose: after})
		} else {
			(*refused)[err.Error()]++
			if err == ErrShardClosed {
				return
			}
		}
		if done {
			if left == 0 {
				return
			}
			left--
		}
		if err != nil {
			runtime.Gosched()
		}
	}
}

// workerMain: rounds of what the step / commit / apply / snapshot workers do
// with the tables, as long as the node is not stopped; the round in flight
// when close() begins runs to its end.
func (r *vfRaceRun) workerMain() {
	defer r.guard("worker")
	n := r.n
	var readyCtx []pb.SystemCtx
	applied := uint64(0)
	val := uint64(0)
	for round := 0; round < 1000000; round++ {
		if atomic.LoadInt32(&r.stop) != 0 { // engine.go:1318
			return
		}
		// node.handleEvents: handleReadIndex, (messages incl. tick), handleConfigChange,
		// handleProposals, handleSnapshot, handleLogQuery, gc, applied
		if reqs := n.readIndexes.get(); len(reqs) > 0 {
			ctx := n.pr.nextCtx()
			n.pr.add(ctx, reqs)
			readyCtx = append(readyCtx, ctx)
		}
		if round%4 == 0 {
			now := atomic.AddUint64(&r.now, 1)
			n.ps.tick(now)
			n.pp.tick(now)
			n.pr.tick(now)
			n.pc.tick(now)
		}
		var ccKey uint64
		haveCC := false
		if len(n.configChangeC) > 0 {
			select {
			case req, ok := <-n.configChangeC:
				if ok {
					ccKey, haveCC = req.key, true
				}
			default:
			}
		}
		ents := append([]pb.Entry(nil), n.proposals.get(false)...)
		var ssKey uint64
		haveSS := false
		select {
		case req := <-n.snapshotC:
			ssKey, haveSS = req.Key, true
		default:
		}
		lq := n.pl.get()
		n.pp.gc()
		n.pc.gc()
		n.ps.gc()
		n.pr.applied(applied)
		// processReadyToRead / processLogQuery (after stepNode, no lock)
		if len(readyCtx) > 0 {
			applied++
			var rr []pb.ReadyToRead
			for _, c := range readyCtx {
				rr = append(rr, pb.ReadyToRead{Index: applied, SystemCtx: c})
			}
			readyCtx = readyCtx[:0]
			n.pr.addReady(rr)
			n.pr.applied(applied)
		}
		if lq != nil {
			n.pl.returned(false, LogRange{FirstIndex: 1, LastIndex: 5}, nil)
		}
		// commit + apply workers
		for _, e := range ents {
			if r.c.notify {
				n.pp.committed(e.ClientID, e.SeriesID, e.Key)
			}
			val++
			n.pp.applied(e.ClientID, e.SeriesID, e.Key, sm.Result{Value: val}, false)
		}
		if haveCC {
			if r.c.notify {
				n.pc.committed(ccKey)
			}
			n.pc.apply(ccKey, false)
		}
		if haveSS {
			val++
			n.ps.apply(ssKey, false, false, val)
		}
		runtime.Gosched()
	}
}

func (r *vfRaceRun) closeMain() {
	defer r.guard("close")
	for atomic.LoadInt64(&r.attempts) < r.c.closeAfter {
		runtime.Gosched()
	}
	atomic.StoreInt32(&r.stop, 1) // requestRemoval(): stopC closed first
	n := r.n
	n.pr.close()
	n.pp.close()
	n.pc.close()
	n.ps.close()
	n.pl.close()
	atomic.StoreInt32(&r.closed, 1)
}

func vfRunRaceCase(t *rapid.T, st *vfhelp.Stats) {
	c := vfRaceCase{
		table:   []int{vfKRead, vfKRead, vfKRead, vfKProp, vfKProp, vfKCC, vfKSnap, vfKLog}[vfhelp.PickN(t, "table", 8)],
		clients: 1 + vfhelp.PickN(t, "clients", 8),
		worker:  vfhelp.PickN(t, "worker", 2) == 0,
		notify:  vfhelp.PickN(t, "notify", 2) == 0,
		extra:   vfhelp.PickN(t, "extra", 4),
	}
	switch vfhelp.PickN(t, "pf", 4) {
	case 0:
		c.prefill = 0
	case 1:
		c.prefill = vfhelp.PickN(t, "pfs", 64)
	default:
		c.prefill = vfhelp.PickN(t, "pfl", 4001)
	}
	switch vfhelp.PickN(t, "tk", 3) {
	case 0:
		c.timeout = 1 + uint64(vfhelp.PickN(t, "ts", 3))
	case 1:
		c.timeout = 5 + uint64(vfhelp.PickN(t, "tm", 20))
	default:
		c.timeout = 100
	}
	c.closeAfter = int64(vfhelp.PickN(t, "closeAfter", 64))
	if c.table != vfKRead && c.table != vfKProp && c.prefill > 1 {
		c.prefill = 1 // single slot tables
	}
	seed := int64(1 + vfhelp.PickN(t, "seed", 1<<20))

	r := &vfRaceRun{c: c, n: newVFNode(c.notify, 16, 8192, 8192, seed, config.NoCompression)}
	var accepted []vfRaceAccepted
	for i := 0; i < c.prefill; i++ {
		rs, err := r.accept(0)
		if err != nil {
			vfhelp.Fail(t, "race-prefill-refused", "request %d before close refused: %v", i, err)
		}
		accepted = append(accepted, vfRaceAccepted{rs: rs})
	}
	outs := make([][]vfRaceAccepted, c.clients)
	refs := make([]map[string]int, c.clients)
	var wg sync.WaitGroup
	for i := 0; i < c.clients; i++ {
		refs[i] = make(map[string]int)
		wg.Add(1)
		go func(i int) {
			defer wg.Done()
			r.clientMain(i, &outs[i], &refs[i])
		}(i)
	}
	if c.worker {
		wg.Add(1)
		go func() {
			defer wg.Done()
			r.workerMain()
		}()
	}
	wg.Add(1)
	go func() {
		defer wg.Done()
		r.closeMain()
	}()
	wg.Wait()

	// the latest thing an in-flight round can still do
	func() {
		defer r.guard("tail")
		now := atomic.AddUint64(&r.now, 300)
		r.n.ps.tick(now)
		r.n.pp.tick(now)
		r.n.pr.tick(now)
		r.n.pc.tick(now)
		r.n.pp.gc()
		r.n.pc.gc()
		r.n.ps.gc()
		r.n.pr.applied(1 << 40)
	}()

	refused := make(map[string]int)
	for i := range outs {
		accepted = append(accepted, outs[i]...)
		for k, v := range refs[i] {
			refused[k] += v
		}
	}
	desc := fmt.Sprintf("table=%s clients=%d prefill=%d worker=%v notifyCommit=%v timeout=%d closeAfter=%d accepted=%d refused=%v",
		vfKindName[c.table], c.clients, c.prefill, c.worker, c.notify, c.timeout, c.closeAfter, len(accepted), refused)
	for _, p := range r.panics {
		if strings.Contains(p, "is full") {
			vfhelp.Fail(t, "race-second-terminal-result", "a request was notified twice (%s); %s", p, desc)
		}
	}
	if len(r.panics) > 0 {
		vfhelp.Fail(t, "race-panic", "code under test panicked: %v; %s", r.panics, desc)
	}
	before, after, missing, missingAfter := 0, 0, 0, 0
	codes := make(map[RequestResultCode]int)
	seen := make(map[*RequestState]bool, len(accepted))
	for _, a := range accepted {
		if seen[a.rs] {
			vfhelp.Fail(t, "race-request-object-handed-out-twice", "one RequestState returned by two accepted calls; %s", desc)
		}
		seen[a.rs] = true
		if a.afterClose {
			after++
		} else {
			before++
		}
		select {
		case res := <-a.rs.CompletedC:
			codes[res.code]++
			if res.code == requestCommitted {
				vfhelp.Fail(t, "race-committed-on-result-channel", "%s", desc)
			}
			select {
			case res2 := <-a.rs.CompletedC:
				vfhelp.Fail(t, "race-second-terminal-result", "request got %s and %s; %s", res.code, res2.code, desc)
			default:
			}
		default:
			missing++
			if a.afterClose {
				missingAfter++
			}
		}
	}
	if missing > 0 && os.Getenv("VF_RACE_MEASURE") != "" {
		// measurement mode (sensitivity runs only): count detections instead of stopping at the first
		st.Count("measure-detected-table-"+vfKindName[c.table], 1)
		st.Count(fmt.Sprintf("measure-detected-worker-%v", c.worker), 1)
		missing = 0
	}
	if missing > 0 {
		vfhelp.Fail(t, "race-accepted-request-without-result",
			"%d of %d accepted %s requests (%d of them accepted by a call that started after close() began) have no terminal result after close() completed and the clock passed every deadline; results %v; %s",
			missing, len(accepted), vfKindName[c.table], missingAfter, codes, desc)
	}
	nt := before > 0 && after > 0
	labels := []string{"table-" + vfKindName[c.table], fmt.Sprintf("clients-%d", c.clients)}
	if c.worker {
		labels = append(labels, "worker-running")
	} else {
		labels = append(labels, "no-worker")
	}
	switch {
	case c.prefill == 0:
		labels = append(labels, "prefill-0")
	case c.prefill < 64:
		labels = append(labels, "prefill-small")
	default:
		labels = append(labels, "prefill-large")
	}
	if after > 0 {
		labels = append(labels, "accepted-after-close-began")
	}
	if refused[ErrShardClosed.Error()] > 0 {
		labels = append(labels, "refused-shard-closed")
	}
	for code := range codes {
		labels = append(labels, "result-"+code.String())
	}
	// schedules are not reproducible: distinctness is counted over parameters + outcome shape
	st.Case([]byte(fmt.Sprintf("%+v b%d a%d %v", c, before, after, codes)), nt, labels...)
	st.Count("requests-accepted", len(accepted))
	st.Count("requests-accepted-after-close-began", after)
	if nt && st.WantSample() {
		st.Sample(map[string]interface{}{"case": desc, "accepted_before_close": before, "accepted_after_close_began": after, "results": fmt.Sprint(codes)})
	}
}

func TestVF_C12_PendingRace(t *testing.T) {
	logger.GetLogger("dragonboat").SetLevel(logger.CRITICAL)
	st := vfhelp.NewStats("TestVF_C12_PendingRace",
		"real goroutines: 1-8 clients hammer propose/read/requestConfigChange/requestSnapshot/queryRaftLog on the real tables (0-4000 requests queued beforehand) while node.close() runs at a generated moment and (optionally) a worker goroutine performs step/commit/apply rounds until node.stopped(); then every accepted request must hold exactly one terminal result. Schedules are sampled from the Go runtime. "+
			"non-trivial = at least one request was accepted by a call that started after close() began and at least one before")
	defer st.Flush()
	rapid.Check(t, func(t *rapid.T) { vfRunRaceCase(t, st) })
}

// TestVF_C12_PendingRaceDetector is the same property built with -race (conf
// unit key "race": true): additionally every unsynchronised access between the
// client, worker and close goroutines inside request.go / queue.go fails the
// unit. A separate name keeps its work directory apart from the plain variant.
func TestVF_C12_PendingRaceDetector(t *testing.T) {
	logger.GetLogger("dragonboat").SetLevel(logger.CRITICAL)
	st := vfhelp.NewStats("TestVF_C12_PendingRaceDetector",
		"same generator and oracle as TestVF_C12_PendingRace, binary built with the Go race detector")
	defer st.Flush()
	rapid.Check(t, func(t *rapid.T) { vfRunRaceCase(t, st) })
}
