package dragonboat

// E9 nodesim - fixed schedules that reproduce the two behaviours reported in
// findings/E9.md (Q1, Q2) on the unchanged tree (Q3: see the fail file named there). They are
// NOT registered as units
// (they fail on HEAD by design); run them by hand:
//
//	cd /repo && go test -modfile=/verif/build/<tag>/C17/go.mod -overlay=/verif/build/<tag>/C17/overlay.json \
//	    -vet=off -run 'TestVF_E9_Repro' -v .

import (
	"testing"

	"pgregory.net/rapid"

	"github.com/lni/dragonboat/v4/internal/vfhelp"
	pb "github.com/lni/dragonboat/v4/raftpb"
)

func nsRepro(t *testing.T, opts nsOpts, f func(s *nsSim)) {
	nsSilence()
	st := vfhelp.NewStats(t.Name(), "fixed schedule")
	rapid.Check(t, func(rt *rapid.T) {
		if opts.overhead == 0 {
			opts.overhead = nsOverhead
		}
		opts.heartbeatRTT = 1
		opts.seed = 1
		s := newNsSim(rt, st, nil, opts)
		defer s.cleanup()
		f(s)
	})
}

func nsReproLeaderMustExist(s *nsSim, ticks int) {
	for i := 0; i < ticks; i++ {
		s.round()
	}
	if s.leader() == nil {
		s.t.Fatalf("all links up for %d ticks, nobody is leader and nobody campaigns: %s", ticks, s.describe())
	}
}

// Q1-a: the replicas of a 2 voter shard cannot talk to each other for the first
// 20 election timeouts of their life; both become quiescent without ever having
// had a leader. After the network healed no leader is elected.
func TestVF_E9_Repro_Q1a(t *testing.T) {
	nsRepro(t, nsOpts{voters: 2, electionRTT: 6, quiesce: true}, func(s *nsSim) {
		s.isolate(1)
		s.roundsN(125)
		s.healAll()
		nsReproLeaderMustExist(s, 600)
	})
}

// Q1-b: CheckQuorum. r1 is cut off from the start, campaigns until it becomes
// quiescent; the majority elects a leader and idles. The partition heals shortly
// before the majority reaches its quiesce threshold: the leader is deposed by
// r1's higher term NoOP and put to sleep by the other follower's Quiesce message
// before it campaigns.
func TestVF_E9_Repro_Q1b(t *testing.T) {
	nsRepro(t, nsOpts{voters: 3, electionRTT: 10, checkQuorum: true, quiesce: true}, func(s *nsSim) {
		s.isolate(1)
		s.roundsN(209)
		if l := s.leader(); l == nil {
			s.t.Fatalf("set up: no leader in the majority: %s", s.describe())
		}
		s.healAll()
		nsReproLeaderMustExist(s, 600)
	})
}

// Q2: a replica added by a committed change is started after the shard went
// quiescent again; nobody ever talks to it.
func TestVF_E9_Repro_Q2(t *testing.T) {
	nsRepro(t, nsOpts{voters: 3, electionRTT: 6, quiesce: true}, func(s *nsSim) {
		for i := 0; i < 100 && s.leader() == nil; i++ {
			s.round()
		}
		l := s.leader()
		if l == nil {
			s.t.Fatalf("set up: no leader")
		}
		q := s.configChange(l, pb.AddNode, 4, 100)
		for i := 0; i < 50 && !q.done; i++ {
			s.round()
		}
		if q.code != "RequestCompleted" {
			s.t.Fatalf("set up: AddNode %s", q.code)
		}
		s.roundsN(130) // threshold is 120 ticks
		if !s.allQuiescent() {
			s.t.Fatalf("set up: shard not quiescent: %s", s.describe())
		}
		s.startReplica(s.reps[4])
		completed := false
		for i := 0; i < 100 && !completed; i++ {
			p := s.propose(s.reps[4], 18)
			s.roundsN(6)
			completed = p != nil && p.code == "RequestCompleted"
		}
		if !completed || s.reps[4].n.sm.GetLastApplied() == 0 {
			s.t.Fatalf("r4 joined a quiescent shard 600 ticks ago: none of its 100 proposals completed, it has applied nothing: %s", s.describe())
		}
	})
}
