package dragonboat

// E9 nodesim - generator, profiles and units (see nodesim_core_test.go).

import (
	"fmt"
	"os"
	"sort"
	"strings"
	"testing"

	"pgregory.net/rapid"

	"github.com/lni/dragonboat/v4/internal/vfhelp"
	"github.com/lni/dragonboat/v4/logger"
	pb "github.com/lni/dragonboat/v4/raftpb"
)

var (
	nsFamC02 = []string{"nodesim-applied-entry-differs", "nodesim-apply-order", "nodesim-two-leaders-one-term",
		"nodesim-completed-not-applied", "nodesim-foreign-result", "nodesim-membership-differs", "nodesim-panic"}
	nsFamC07 = []string{"nodesim-campaign-with-unapplied-config-change", "nodesim-membership-differs",
		"nodesim-applied-entry-differs", "nodesim-two-leaders-one-term", "nodesim-panic"}
	nsFamC06 = []string{"nodesim-stale-read", "nodesim-panic"}
	nsFamC04 = []string{"nodesim-term-not-durable", "nodesim-vote-not-durable", "nodesim-ack-not-durable", "nodesim-commit-advertised-before-durable", "nodesim-panic"}
	nsFamC12 = []string{"nodesim-no-terminal-result", "nodesim-timeout-before-deadline", "nodesim-two-results", "nodesim-completed-not-applied",
		"nodesim-foreign-result", "nodesim-panic"}
	nsFamC17 = []string{"nodesim-no-leader-in-fair-phase", "nodesim-no-progress-in-fair-phase",
		"nodesim-replica-not-caught-up", "stuck-quorum-needs-self-removed-replica",
		"stuck-higher-term-replica-ignores-leader", "nodesim-idle-quiescent-shard-stays-leaderless", "nodesim-joiner-ignored-by-quiescent-shard", "nodesim-orphan-snapshot-dir-blocks-restream", "nodesim-panic"}
)

type nsWeight struct {
	name string
	w    int
}

type nsProfile struct {
	unit       string
	rule       string
	armed      []string
	weights    []nsWeight
	quiescePct int   // probability (in 1/16) of Quiesce=true
	voters     []int // 16 slots
	maxActions int
	nontrivial func(s *nsSim) bool
}

func nsSilence() {
	if os.Getenv("VF_NS_LOG") != "" {
		return
	}
	for _, p := range []string{"dragonboat", "raft", "rsm", "logdb", "transport", "grpc", "config", "raftpb", "tan", "registry", "settings", "utils"} {
		logger.GetLogger(p).SetLevel(logger.CRITICAL)
	}
}

type nsGen struct {
	t *rapid.T
	s *nsSim
	p *nsProfile
}

func (g *nsGen) pick(label string, n int) int { return vfhelp.PickN(g.t, label, n) }
func (g *nsGen) coin(label string) bool       { return vfhelp.Pick(g.t, label, 1) == 1 }

func (g *nsGen) pickAlive(label string) *nsReplica {
	a := g.s.aliveReps()
	if len(a) == 0 {
		return nil
	}
	return a[g.pick(label, len(a))]
}

func (g *nsGen) pickStarted(label string) *nsReplica {
	var a []*nsReplica
	for _, r := range g.s.reps[1:] {
		if r.started {
			a = append(a, r)
		}
	}
	if len(a) == 0 {
		return nil
	}
	return a[g.pick(label, len(a))]
}

// leaderOrAny: the leader with probability 3/4, otherwise any running replica
func (g *nsGen) leaderOrAny(label string) *nsReplica {
	if g.pick(label+"-viaLeader", 4) != 0 {
		if l := g.s.leader(); l != nil {
			return l
		}
	}
	return g.pickAlive(label)
}

func (g *nsGen) timeout(label string) uint64 {
	E := g.s.opts.electionRTT
	return []uint64{1, 3, E, 3 * E, 3 * E, 10 * E, 10 * E, 40 * E}[g.pick(label, 8)]
}

func (g *nsGen) genOpts() nsOpts {
	o := nsOpts{}
	o.voters = g.p.voters[g.pick("voters", 16)]
	if g.coin("E6") {
		o.electionRTT, o.heartbeatRTT = 6, 1
	} else {
		o.electionRTT = 10
		o.heartbeatRTT = uint64(1 + g.pick("H", 2))
	}
	o.checkQuorum = g.coin("checkQuorum")
	o.preVote = g.coin("preVote")
	o.quiesce = g.pick("quiesce", 16) < g.p.quiescePct
	o.overhead = nsOverhead
	if g.coin("snapshots") {
		o.snapshotEntries = uint64(4 + g.pick("snapshotEntries", 12))
		if g.coin("compaction") {
			o.overhead = uint64(1 + g.pick("overhead", 8))
		}
	}
	o.seed = int64(vfhelp.Pick(g.t, "seed", 30)) + 1
	o.eagerPool = g.coin("eagerPool")
	return o
}

func (g *nsGen) action() {
	s := g.s
	total := 0
	for _, w := range g.p.weights {
		total += w.w
	}
	x := g.pick("action", total)
	name := ""
	for _, w := range g.p.weights {
		if x < w.w {
			name = w.name
			break
		}
		x -= w.w
	}
	E := int(s.opts.electionRTT)
	switch name {
	case "round":
		k := 1 + g.pick("k", E)
		s.logf("rounds %d", k)
		s.roundsN(k)
	case "rounds-long":
		k := E + g.pick("k", 3*E)
		s.logf("rounds %d", k)
		s.roundsN(k)
	case "idle":
		k := 1 + g.pick("k", 26*E)
		s.logf("idle %d rounds", k)
		s.roundsN(k)
	case "tick-one":
		r := g.pickAlive("rep")
		if r == nil {
			return
		}
		k := 1 + g.pick("k", 2*E)
		s.logf("r%d alone: %d ticks, stepping after each", r.id, k)
		for i := 0; i < k; i++ {
			s.tickReplica(r)
			s.stepReplica(r)
			s.applyReplica(r)
		}
		s.afterAction()
	case "step-one":
		r := g.pickAlive("rep")
		if r == nil {
			return
		}
		s.logf("step r%d", r.id)
		s.stepReplica(r)
		s.afterAction()
	case "apply-one":
		r := g.pickAlive("rep")
		if r == nil {
			return
		}
		s.logf("apply+snapshot worker r%d", r.id)
		s.applyReplica(r)
		s.ssWorker(r)
		s.afterAction()
	case "work-no-tick":
		k := 1 + g.pick("k", 4)
		s.logf("all workers run %d times without ticks", k)
		for i := 0; i < k; i++ {
			s.rounds++
			s.workAll()
		}
	case "propose":
		if r := g.leaderOrAny("rep"); r != nil {
			s.propose(r, g.timeout("timeout"))
		}
	case "propose-burst":
		r := g.leaderOrAny("rep")
		if r == nil {
			return
		}
		k := 2 + g.pick("k", 5)
		to := g.timeout("timeout")
		for i := 0; i < k; i++ {
			s.propose(r, to)
		}
	case "read":
		if r := g.leaderOrAny("rep"); r != nil {
			s.read(r, g.timeout("timeout"))
		}
	case "cc":
		g.configChange()
	case "transfer":
		r := g.leaderOrAny("rep")
		tgt := g.pickStarted("target")
		if r == nil || tgt == nil {
			return
		}
		s.logf("leader transfer to r%d requested via r%d", tgt.id, r.id)
		s.transfer(r, tgt.id)
	case "snapshot":
		if r := g.pickAlive("rep"); r != nil {
			s.snapshotReq(r, g.timeout("timeout"))
		}
	case "isolate":
		if r := g.pickStarted("rep"); r != nil {
			s.logf("isolate r%d (both directions)", r.id)
			s.isolate(r.id)
			s.flag("act-isolate")
		}
	case "cut-link":
		a, b := g.pickStarted("from"), g.pickStarted("to")
		if a == nil || b == nil || a == b {
			return
		}
		s.logf("cut link r%d -> r%d", a.id, b.id)
		s.blocked[a.id][b.id] = true
		s.flag("act-cut-link")
	case "hold-link":
		a, b := g.pickStarted("from"), g.pickStarted("to")
		if a == nil || b == nil || a == b {
			return
		}
		if s.held[a.id][b.id] {
			s.logf("release held link r%d -> r%d (%d messages)", a.id, b.id, len(s.heldQ[a.id][b.id]))
			s.held[a.id][b.id] = false
			s.release(a.id, b.id)
		} else {
			s.logf("hold link r%d -> r%d (messages are delayed)", a.id, b.id)
			s.held[a.id][b.id] = true
			s.flag("act-hold-link")
		}
	case "heal":
		s.logf("heal all links")
		s.healAll()
	case "stall":
		if r := g.pickAlive("rep"); r != nil {
			r.stalled = !r.stalled
			s.logf("apply worker of r%d stalled=%t", r.id, r.stalled)
			s.flag("act-stall")
		}
	case "crash":
		// (a promoted replica is never stopped: with which IsNonVoting flag it has to
		// be restarted is undocumented, see findings/E9.md)
		if r := g.pickAlive("rep"); r != nil && !r.promoted {
			s.logf("stop r%d (process kill between two step worker iterations)", r.id)
			s.flag("act-crash")
			s.stopReplica(r)
		}
	case "restart":
		g.restart()
	case "start-joiner":
		g.startJoiner()
	case "near-quiesce":
		r := g.pickAlive("rep")
		if r == nil || !s.opts.quiesce {
			return
		}
		g.nearQuiesce(r, g.pick("delta", 2*E)-E/2)
	case "macro-c07":
		g.macroC07()
	case "macro-quiesce-race":
		g.macroQuiesceRace()
	case "macro-restart-repropose":
		g.macroRestartRepropose()
	default:
		panic("unknown action " + name)
	}
}

func (g *nsGen) restart() {
	s := g.s
	var c []*nsReplica
	for _, r := range s.reps[1:] {
		if r.started && !r.alive && !r.selfGone && !r.promoted {
			c = append(c, r)
		}
	}
	if len(c) == 0 {
		return
	}
	r := c[g.pick("rep", len(c))]
	s.logf("restart r%d from its durable state", r.id)
	s.flag("act-restart")
	s.startReplica(r)
}

func (g *nsGen) startJoiner() {
	s := g.s
	mem, _ := s.latestMembership()
	for _, r := range s.reps[1:] {
		_, v := mem.Addresses[r.id]
		_, nv := mem.NonVotings[r.id]
		if !r.started && (v || nv) && !mem.Removed[r.id] {
			r.nonVoting = nv
			s.logf("start joiner r%d (nonvoting=%t)", r.id, nv)
			s.flag("act-start-joiner")
			s.startReplica(r)
			return
		}
	}
}

func (g *nsGen) configChange() {
	s := g.s
	via := g.leaderOrAny("via")
	if via == nil {
		return
	}
	mem, _ := s.latestMembership()
	to := g.timeout("timeout")
	voters := nsKeys(mem.Addresses)
	nvs := nsKeys(mem.NonVotings)
	switch g.pick("cckind", 8) {
	case 0, 1, 2: // remove a member (possibly the leader or the requester itself)
		all := append(append([]uint64{}, voters...), nvs...)
		if len(all) == 0 {
			return
		}
		tgt := all[g.pick("target", len(all))]
		s.flag("act-cc-remove")
		if tgt == via.id {
			s.flag("act-cc-remove-self")
		}
		s.configChange(via, pb.RemoveNode, tgt, to)
	case 3, 4: // add a voter
		spare := s.spareFor(pb.AddNode)
		if spare == 0 {
			return
		}
		s.flag("act-cc-add")
		s.configChange(via, pb.AddNode, spare, to)
	case 5: // add a non-voting replica
		spare := s.spareFor(pb.AddNonVoting)
		if spare == 0 {
			return
		}
		s.flag("act-cc-add-nonvoting")
		s.configChange(via, pb.AddNonVoting, spare, to)
	case 6: // promote a started non-voting replica
		for _, id := range nvs {
			if s.reps[id].alive {
				s.reps[id].promoted = true
				s.flag("act-cc-promote")
				s.configChange(via, pb.AddNode, id, to)
				return
			}
		}
	case 7: // invalid: add a removed id again / remove an unknown id
		for id := uint64(1); id <= nsMaxID; id++ {
			if mem.Removed[id] {
				s.flag("act-cc-invalid")
				s.configChange(via, pb.AddNode, id, to)
				return
			}
		}
	}
}

// nearQuiesce runs rounds until replica r is delta ticks away from entering
// quiesce (delta < 0: |delta| ticks after it entered).
func (g *nsGen) nearQuiesce(r *nsReplica, delta int) {
	s := g.s
	E := int(s.opts.electionRTT)
	s.logf("idle until r%d is %d ticks from its quiesce threshold", r.id, delta)
	for i := 0; i < 30*E && r.alive && s.outOfModel == ""; i++ {
		q := r.n.qs
		if q.quiesced() {
			if delta >= 0 || int(q.currentTick-q.quiescedSince) >= -delta {
				break
			}
		} else if int(q.threshold())-int(q.currentTick-q.idleSince) <= delta {
			break
		}
		s.round()
	}
	s.flag("act-near-quiesce")
}

func (g *nsGen) waitDone(q *nsReq, max int) bool {
	for i := 0; i < max && g.s.outOfModel == ""; i++ {
		if q.done {
			break
		}
		g.s.round()
	}
	return q.done && q.code == "RequestCompleted"
}

// macroC07: a membership change is committed while a follower's apply worker is
// stalled, then that follower loses contact with the leader for several election
// timeouts.
func (g *nsGen) macroC07() {
	s := g.s
	E := int(s.opts.electionRTT)
	l := s.leader()
	if l == nil {
		s.roundsN(2 * E)
		return
	}
	mem := l.n.sm.GetMembership()
	var fol []*nsReplica
	for _, id := range nsKeys(mem.Addresses) {
		if r := s.reps[id]; r.alive && r != l {
			fol = append(fol, r)
		}
	}
	if len(fol) == 0 {
		return
	}
	x := fol[g.pick("X", len(fol))]
	s.logf("MACRO c07: leader r%d, stall the apply worker of r%d", l.id, x.id)
	s.flag("act-macro-c07")
	x.stalled = true
	var others []*nsReplica
	for _, r := range fol {
		if r != x {
			others = append(others, r)
		}
	}
	// optionally the replicas that are going to be removed miss everything
	away := g.coin("partition-removed-first") && len(fol) >= 4
	nchanges := 1 + g.pick("nchanges", 2)
	for i := 0; i < nchanges; i++ {
		var q *nsReq
		if len(others) > i && g.pick("kind", 4) != 0 {
			tgt := others[len(others)-1-i]
			if away {
				s.logf("isolate r%d", tgt.id)
				s.isolate(tgt.id)
			}
			q = s.configChange(l, pb.RemoveNode, tgt.id, uint64(20*E))
		} else {
			spare := s.spareFor(pb.AddNode)
			if spare == 0 {
				break
			}
			q = s.configChange(l, pb.AddNode, spare, uint64(20*E))
		}
		if q == nil || !g.waitDone(q, 8*E) {
			break
		}
	}
	s.roundsN(1 + g.pick("settle", E))
	switch g.pick("split", 4) {
	case 0:
		s.logf("isolate r%d", x.id)
		s.isolate(x.id)
	case 1:
		s.logf("isolate leader r%d", l.id)
		s.isolate(l.id)
	case 2:
		// {leader + one follower} | {everybody else}; removed replicas end up with X
		s.logf("split: {r%d and one more} | {the rest incl. r%d}", l.id, x.id)
		s.healAll()
		side := map[uint64]bool{l.id: true}
		for _, r := range others {
			if s.reps[r.id].alive && len(side) < 2 && l.n.sm.GetMembership().Addresses[r.id] != "" {
				side[r.id] = true
			}
		}
		for a := uint64(1); a <= nsMaxID; a++ {
			for b := uint64(1); b <= nsMaxID; b++ {
				if side[a] != side[b] {
					s.blocked[a][b] = true
				}
			}
		}
	case 3:
		s.logf("cut r%d -> r%d only", l.id, x.id)
		s.blocked[l.id][x.id] = true
	}
	s.roundsN(2*E + g.pick("wait", 3*E))
	if g.coin("unstall") {
		s.logf("apply worker of r%d resumes", x.id)
		x.stalled = false
		s.roundsN(1 + g.pick("after", 2*E))
	}
}

// macroQuiesceRace: one follower is cut off while the rest of the idle shard
// approaches its quiesce threshold; the partition heals around that moment.
func (g *nsGen) macroQuiesceRace() {
	s := g.s
	E := int(s.opts.electionRTT)
	l := s.leader()
	if l == nil || !s.opts.quiesce {
		s.roundsN(2 * E)
		return
	}
	var fol []*nsReplica
	for _, r := range s.aliveReps() {
		if r != l {
			fol = append(fol, r)
		}
	}
	if len(fol) == 0 {
		return
	}
	x := fol[g.pick("X", len(fol))]
	s.logf("MACRO quiesce race: leader r%d, isolate r%d", l.id, x.id)
	s.flag("act-macro-quiesce-race")
	s.isolate(x.id)
	s.roundsN(g.pick("gap", 2*E+1))
	if g.pick("write", 4) != 0 {
		if q := s.propose(l, uint64(5*E)); q != nil {
			g.waitDone(q, E)
		}
	}
	who := l
	if g.pick("who", 4) == 0 {
		who = x
	}
	g.nearQuiesce(who, g.pick("delta", 3*E/2)-E/4)
	if g.pick("heal-in-macro", 4) == 0 {
		s.logf("heal all links")
		s.healAll()
		s.roundsN(g.pick("after", 4*E))
	}
}

// macroRestartRepropose: proposals through a replica, an in-process restart of
// that replica, and more proposals through it (same NoOP session) while it is
// still replaying its log.
func (g *nsGen) macroRestartRepropose() {
	s := g.s
	r := g.pickAlive("rep")
	if r == nil || r.promoted {
		return
	}
	s.logf("MACRO restart+repropose via r%d", r.id)
	s.flag("act-macro-restart-repropose")
	k := 1 + g.pick("before", 3)
	for i := 0; i < k; i++ {
		s.propose(r, uint64(10*s.opts.electionRTT))
	}
	s.roundsN(g.pick("rounds-before", 4))
	if !r.alive {
		return
	}
	s.logf("stop r%d, restart it", r.id)
	s.stopReplica(r)
	s.startReplica(r)
	s.flag("act-restart")
	s.roundsN(2 + g.pick("rounds-init", 2))
	if !r.alive {
		return
	}
	k = 1 + g.pick("after", 3)
	for i := 0; i < k; i++ {
		s.propose(r, uint64(10*s.opts.electionRTT))
	}
	s.roundsN(2 + g.pick("rounds-after", 6))
}

// ---------------------------------------------------------------------------

func nsRun(t *testing.T, p *nsProfile) {
	nsSilence()
	st := vfhelp.NewStats(p.unit, p.rule)
	defer st.Flush()
	rapid.Check(t, func(t *rapid.T) {
		g := &nsGen{t: t, p: p}
		opts := g.genOpts()
		armed := p.armed
		if x := os.Getenv("VF_NS_ARM"); x != "" { // development aid: arm more signatures
			armed = append(append([]string{}, armed...), strings.Split(x, ",")...)
		}
		s := newNsSim(t, st, armed, opts)
		g.s = s
		defer s.cleanup()
		E := int(opts.electionRTT)
		s.logf("options: %s", opts)
		// warm up: usually until there is a leader
		if g.pick("warmup", 8) != 0 {
			for i := 0; i < 12*E && s.leader() == nil; i++ {
				s.round()
			}
			s.roundsN(2)
			s.logf("warm up done after %d rounds, leader %v", s.rounds, s.leader() != nil)
		}
		n := 4 + g.pick("nactions", p.maxActions)
		for i := 0; i < n && s.outOfModel == ""; i++ {
			g.action()
		}
		if l := s.leader(); l != nil {
			for _, r := range s.aliveReps() {
				if r.term > l.term {
					s.flag("ev-term-ahead-before-fair")
				}
			}
		} else {
			s.flag("ev-no-leader-before-fair")
		}
		if s.anyFault() {
			s.flag("ev-faults-at-end")
		}
		pre := map[string]bool{}
		for k := range s.flags {
			pre[k] = true
		}
		if s.outOfModel == "" {
			s.fairPhase(func(n int) int { return g.pick("fair-client", n) })
		}
		// end of run: every request that was accepted has its terminal result or is
		// still within its deadline (poll ran after every round)
		labels := []string{}
		if s.outOfModel != "" {
			labels = append(labels, "out-of-model:"+s.outOfModel)
		}
		for k := range s.flags {
			labels = append(labels, k)
		}
		labels = append(labels, fmt.Sprintf("voters=%d", opts.voters),
			fmt.Sprintf("cq=%t", opts.checkQuorum), fmt.Sprintf("pv=%t", opts.preVote),
			fmt.Sprintf("quiesce=%t", opts.quiesce), fmt.Sprintf("snapshots=%t", opts.snapshotEntries > 0), fmt.Sprintf("compaction=%t", opts.overhead != nsOverhead))
		sort.Strings(labels)
		s.flags = pre
		nt := s.outOfModel == "" && p.nontrivial(s)
		canon := []byte(opts.String() + "|" + strings.Join(nsCanon(s.trace), ";"))
		st.Case(canon, nt, labels...)
		st.Count("rounds", s.rounds)
		if nt && st.WantSample() {
			tr := s.trace
			if len(tr) > 60 {
				tr = tr[:60]
			}
			st.Sample(map[string]interface{}{"options": opts.String(), "trace": tr, "labels": labels})
		}
	})
}

// nsCanon keeps the schedule lines (not the result lines) of a trace.
func nsCanon(trace []string) []string {
	var out []string
	for _, l := range trace {
		if !strings.HasPrefix(l, "    result") {
			out = append(out, l)
		}
	}
	return out
}

func nsVoters(spec map[int]int) []int {
	var out []int
	ks := []int{}
	for k := range spec {
		ks = append(ks, k)
	}
	sort.Ints(ks)
	for _, k := range ks {
		for i := 0; i < spec[k]; i++ {
			out = append(out, k)
		}
	}
	if len(out) != 16 {
		panic("voters spec must have 16 slots")
	}
	return out
}

func TestVF_C02_NodeSim(t *testing.T) {
	nsRun(t, &nsProfile{
		unit:  "TestVF_C02_NodeSim",
		rule:  "E9 nodesim: real node objects, generated schedule of rounds/ticks/steps/stalled apply/partitions/held links/restarts/transfers/membership changes/snapshots + client requests; non-trivial = user entries were applied by at least two replicas AND the case had a leader change, a restart, a stalled apply worker or a link fault",
		armed: nsFamC02,
		weights: []nsWeight{{"round", 20}, {"rounds-long", 6}, {"idle", 1}, {"tick-one", 3}, {"step-one", 4}, {"apply-one", 2}, {"work-no-tick", 3},
			{"propose", 16}, {"propose-burst", 6}, {"read", 3}, {"cc", 4}, {"transfer", 4}, {"snapshot", 3},
			{"isolate", 4}, {"cut-link", 3}, {"hold-link", 4}, {"heal", 4}, {"stall", 4}, {"crash", 4}, {"restart", 6},
			{"start-joiner", 2}, {"macro-restart-repropose", 5}, {"macro-c07", 1}},
		quiescePct: 4,
		voters:     nsVoters(map[int]int{1: 1, 2: 2, 3: 9, 5: 4}),
		maxActions: 40,
		nontrivial: func(s *nsSim) bool {
			if !(s.flags["res-prop-RequestCompleted"]) {
				return false
			}
			return s.flags["ev-leader-change"] || s.flags["act-restart"] || s.flags["act-stall"] ||
				s.flags["act-isolate"] || s.flags["act-cut-link"] || s.flags["act-hold-link"]
		},
	})
}

// C04, the send-before-save half at the node level: node.go decides which messages of an
// Update leave before SaveRaftState (sendReplicateMessages / isFreeOrderMessage /
// canSendBeforeSave) and which after; every message is checked against what was durable
// at the instant it left.
func TestVF_C04_NodeSim(t *testing.T) {
	nsRun(t, &nsProfile{
		unit:  "TestVF_C04_NodeSim",
		rule:  "E9 nodesim, election + read profile (leader changes, transfers, partitions healed while reads are in flight, single voting member shards with a non-voting member): every message a node hands to the transport is compared with the hard state and entries that SaveRaftState calls that had returned made durable; non-trivial = >= 2 leader changes or a link fault healed, and a read or a proposal completed",
		armed: nsFamC04,
		weights: []nsWeight{{"round", 18}, {"rounds-long", 5}, {"tick-one", 4}, {"step-one", 6}, {"apply-one", 2}, {"work-no-tick", 4},
			{"propose", 12}, {"propose-burst", 4}, {"read", 14}, {"cc", 3}, {"transfer", 8},
			{"isolate", 7}, {"cut-link", 5}, {"hold-link", 5}, {"heal", 7}, {"stall", 3}, {"crash", 3}, {"restart", 5},
			{"start-joiner", 2}},
		quiescePct: 3,
		voters:     nsVoters(map[int]int{1: 3, 2: 2, 3: 8, 5: 3}),
		maxActions: 40,
		nontrivial: func(s *nsSim) bool {
			return (s.flags["res-read-RequestCompleted"] || s.flags["res-prop-RequestCompleted"]) &&
				(s.flags["ev-leader-change"] || s.flags["act-isolate"] || s.flags["act-cut-link"] || s.flags["act-hold-link"])
		},
	})
}

func TestVF_C07_NodeSim(t *testing.T) {
	nsRun(t, &nsProfile{
		unit:  "TestVF_C07_NodeSim",
		rule:  "E9 nodesim, membership profile; non-trivial = some replica had a membership change committed (handed to its apply queue) but not applied, AND a replica campaigned afterwards in the same case",
		armed: nsFamC07,
		weights: []nsWeight{{"round", 16}, {"rounds-long", 8}, {"tick-one", 3}, {"step-one", 3}, {"apply-one", 2},
			{"propose", 8}, {"read", 1}, {"cc", 14}, {"transfer", 3}, {"snapshot", 2},
			{"isolate", 5}, {"cut-link", 3}, {"hold-link", 2}, {"heal", 4}, {"stall", 8}, {"crash", 3}, {"restart", 4},
			{"start-joiner", 5}, {"macro-c07", 10}},
		quiescePct: 3,
		voters:     nsVoters(map[int]int{2: 1, 3: 6, 4: 2, 5: 7}),
		maxActions: 30,
		nontrivial: func(s *nsSim) bool {
			return s.flags["ev-cc-window"] && s.flags["ev-campaign-after-cc-window"]
		},
	})
}

func TestVF_C17_NodeSim(t *testing.T) {
	nsRun(t, &nsProfile{
		unit:  "TestVF_C17_NodeSim",
		rule:  "E9 nodesim, progress profile (long idle stretches, Quiesce mostly on); fault prefix, then fair phase: 8-60 election timeouts without client (a leader must exist), then a write only client pinned to one generated replica (one proposal per election timeout until one completes, all running members catch up); non-trivial = a replica was quiescent or a replica's term was ahead of the leader's (or there was no leader) when the fair phase started",
		armed: nsFamC17,
		weights: []nsWeight{{"round", 10}, {"rounds-long", 8}, {"idle", 12}, {"tick-one", 3}, {"step-one", 2},
			{"propose", 8}, {"read", 2}, {"cc", 3}, {"transfer", 3}, {"snapshot", 1},
			{"isolate", 10}, {"cut-link", 4}, {"hold-link", 2}, {"heal", 5}, {"stall", 3}, {"crash", 4}, {"restart", 5},
			{"start-joiner", 2}, {"near-quiesce", 5}, {"macro-quiesce-race", 10}},
		quiescePct: 12,
		voters:     nsVoters(map[int]int{1: 1, 2: 1, 3: 11, 5: 3}),
		maxActions: 16,
		nontrivial: func(s *nsSim) bool {
			return s.flags["ev-quiesced"] || s.flags["ev-term-ahead-before-fair"] || s.flags["ev-no-leader-before-fair"]
		},
	})
}

func TestVF_C06_NodeSim(t *testing.T) {
	nsRun(t, &nsProfile{
		unit:  "TestVF_C06_NodeSim",
		rule:  "E9 nodesim, read profile (reads and writes through every replica, leader transfers, partitions with deposed-but-unaware leaders); non-trivial = a ReadIndex completed after some proposal had completed AND the case had a leader change or a link fault",
		armed: nsFamC06,
		weights: []nsWeight{{"round", 18}, {"rounds-long", 4}, {"tick-one", 4}, {"step-one", 6}, {"apply-one", 3}, {"work-no-tick", 4},
			{"propose", 14}, {"propose-burst", 4}, {"read", 16}, {"cc", 2}, {"transfer", 6},
			{"isolate", 5}, {"cut-link", 5}, {"hold-link", 5}, {"heal", 4}, {"stall", 5}, {"crash", 2}, {"restart", 3}},
		quiescePct: 3,
		voters:     nsVoters(map[int]int{1: 1, 2: 1, 3: 10, 5: 4}),
		maxActions: 40,
		nontrivial: func(s *nsSim) bool {
			return s.flags["res-read-RequestCompleted"] && s.flags["res-prop-RequestCompleted"] &&
				(s.flags["ev-leader-change"] || s.flags["act-isolate"] || s.flags["act-cut-link"] || s.flags["act-hold-link"])
		},
	})
}

// C01 through the real node objects: what a client is told must be true. A read
// completes only when the local replica has applied every write completed before the
// read was issued; a write reported Completed was applied, with the result of ITS entry;
// applied entries agree across replicas. Mixed read/write profile with restarts of the
// replica the client talks to (the same NoOP session is reused across the restart).
func TestVF_C01_NodeSim(t *testing.T) {
	nsRun(t, &nsProfile{
		unit: "TestVF_C01_NodeSim",
		rule: "E9 nodesim, client profile (reads and writes through every replica, in-process restarts with the same session, leader changes, link faults); non-trivial = a write and a read completed AND the case had a restart, a leader change or a link fault",
		armed: []string{"nodesim-stale-read", "nodesim-completed-not-applied", "nodesim-foreign-result", "nodesim-applied-entry-differs", "nodesim-panic"},
		weights: []nsWeight{{"round", 18}, {"rounds-long", 4}, {"tick-one", 3}, {"step-one", 5}, {"apply-one", 3}, {"work-no-tick", 3},
			{"propose", 16}, {"propose-burst", 6}, {"read", 12}, {"cc", 2}, {"transfer", 5},
			{"isolate", 4}, {"cut-link", 4}, {"hold-link", 4}, {"heal", 4}, {"stall", 5}, {"crash", 4}, {"restart", 6},
			{"macro-restart-repropose", 6}},
		quiescePct: 3,
		voters:     nsVoters(map[int]int{1: 1, 2: 1, 3: 10, 5: 4}),
		maxActions: 40,
		nontrivial: func(s *nsSim) bool {
			return s.flags["res-read-RequestCompleted"] && s.flags["res-prop-RequestCompleted"] &&
				(s.flags["ev-leader-change"] || s.flags["act-restart"] || s.flags["act-isolate"] || s.flags["act-cut-link"] || s.flags["act-hold-link"])
		},
	})
}

func TestVF_C12_NodeSim(t *testing.T) {
	nsRun(t, &nsProfile{
		unit:  "TestVF_C12_NodeSim",
		rule:  "E9 nodesim, request profile (all request kinds with short and long deadlines, replicas stopped with requests pending, leader loss); non-trivial = at least three different terminal result codes were observed in the case",
		armed: nsFamC12,
		weights: []nsWeight{{"round", 18}, {"rounds-long", 5}, {"idle", 1}, {"tick-one", 4}, {"step-one", 4}, {"apply-one", 2},
			{"propose", 14}, {"propose-burst", 6}, {"read", 10}, {"cc", 8}, {"transfer", 4}, {"snapshot", 6},
			{"isolate", 5}, {"cut-link", 3}, {"hold-link", 3}, {"heal", 4}, {"stall", 4}, {"crash", 6}, {"restart", 6},
			{"start-joiner", 2}, {"macro-restart-repropose", 5}},
		quiescePct: 4,
		voters:     nsVoters(map[int]int{1: 2, 2: 2, 3: 9, 5: 3}),
		maxActions: 40,
		nontrivial: func(s *nsSim) bool {
			codes := map[string]bool{}
			for k := range s.flags {
				if strings.HasPrefix(k, "res-") {
					codes[k[strings.LastIndex(k, "-")+1:]] = true
				}
			}
			return len(codes) >= 3
		},
	})
}
