package dragonboat

// C12.E7 — model-based test of the REAL pending-request tables of request.go
// (pendingProposal, pendingReadIndex, pendingConfigChange, pendingSnapshot,
// pendingRaftLogQuery) and of the two queues of queue.go they feed, wired
// together exactly as newNode() (node.go:153-181) wires them, driven at METHOD
// granularity by a rapid generated schedule.
//
// Why method granularity is the real atomicity (verified against the sources):
//
//   actor                goroutine / lock held around the calls               calls
//   -------------------  ---------------------------------------------------  ---------------------------------
//   client               caller goroutine; NodeHost.propose/readIndex/...      pendingX.propose/read/request/add,
//                        only do a lock free sync.Map load (nodehost.go:1460)  RequestState.Release
//   step worker          engine.processSteps -> node.stepNode holds            queue.get, nextCtx, add, tick, gc,
//                        node.raftMu (node.go:1139-1141) for handleEvents;     applied(lastApplied) (read table);
//                        AFTER stepNode returned, WITHOUT any lock             addReady, applied, dropped (both
//                        (engine.go:1334-1342): processReadyToRead,            tables), returned (log query)
//                        processDroppedEntries/ReadIndexes, processLogQuery
//   commit worker        engine.processCommits -> notifyCommittedEntries,      committed (proposal, config change)
//                        no lock (node.go:1062)
//   apply worker         rsm -> node.ApplyUpdate (no lock, node.go:243),       applied (proposal), applied (read),
//                        node.ApplyConfigChange (raftMu, node.go:261)          apply (config change)
//   snapshot worker      node.save (snapshotLock only, node.go:739-766)        apply (snapshot)
//   close                NodeHost.stopNode holds nh.mu ONLY (nodehost.go:      node.close(): the five close()
//                        1791-1813); no worker and no client call takes        calls in sequence
//                        nh.mu (workers use nh.mu.RLock only in
//                        forEachShard/getShardSetIndex while (re)loading
//                        nodes, never around the calls above)
//
// Every table method takes only that table's own mutex for the duration of the
// one call. Therefore (a) any client call, (b) any single worker side call and
// (c) each of the five close() calls of node.close() may be interleaved freely
// with the calls of the other actors; sequences of the SAME goroutine keep
// their program order (queue.get -> nextCtx -> add; committed before applied
// for one entry; get -> returned for the log query). raftMu does not exclude
// close() (close never takes raftMu) and does not exclude clients.
// engine.processSteps checks node.stopped() only BEFORE stepNode (engine.go:
// 1318), so a close() that starts after that check runs concurrently with the
// remaining worker calls of that round.
//
// Oracle: a reference ledger keyed by (RequestState pointer, generation); see
// vfModel.onResult / obligations.

import (
	"fmt"
	"math/rand"
	"runtime"
	"strings"
	"sync"
	"testing"

	"github.com/lni/dragonboat/v4/client"
	"github.com/lni/dragonboat/v4/config"
	"github.com/lni/dragonboat/v4/internal/rsm"
	"github.com/lni/dragonboat/v4/internal/vfhelp"
	"github.com/lni/dragonboat/v4/logger"
	pb "github.com/lni/dragonboat/v4/raftpb"
	sm "github.com/lni/dragonboat/v4/statemachine"
	"pgregory.net/rapid"
)

const (
	vfKProp = iota
	vfKRead
	vfKCC
	vfKSnap
	vfKLog
	vfKinds
)

var vfKindName = [...]string{"proposal", "read", "configchange", "snapshot", "logquery"}

// signatures of the known findings (see /verif/findings/E7.md)
const (
	vfSigS5           = "c12-readindex-add-after-close-drops-requests"
	vfSigLogAccepted  = "c12-logquery-accepted-after-close-never-terminated"
	vfSigLogPanic     = "c12-logquery-returned-after-close-panics"
	vfSigLogCrosstalk = "c12-logquery-result-delivered-to-later-request"
)

// vfNode is the part of node that owns the pending tables, wired as newNode does.
type vfNode struct {
	pool          *sync.Pool
	proposals     *entryQueue
	readIndexes   *readIndexQueue
	configChangeC chan configChangeRequest
	snapshotC     chan rsm.SSRequest
	pp            pendingProposal
	pr            pendingReadIndex
	pc            pendingConfigChange
	ps            pendingSnapshot
	pl            pendingRaftLogQuery
}

func newVFNode(notifyCommit bool, shards uint64, pqSize uint64, rqSize uint64,
	seed int64, ct config.CompressionType) *vfNode {
	n := &vfNode{}
	// same construction as NodeHost.createPools (nodehost.go:1648)
	p := &sync.Pool{}
	p.New = func() interface{} {
		obj := &RequestState{}
		obj.CompletedC = make(chan RequestResult, 1)
		obj.pool = p
		if notifyCommit {
			obj.committedC = make(chan RequestResult, 1)
		}
		return obj
	}
	n.pool = p
	cfg := config.Config{ShardID: 1, ReplicaID: 1, EntryCompressionType: ct}
	n.proposals = newEntryQueue(pqSize, lazyFreeCycle)
	n.readIndexes = newReadIndexQueue(rqSize)
	n.configChangeC = make(chan configChangeRequest, 1)
	n.snapshotC = make(chan rsm.SSRequest, 1)
	old := pendingProposalShards
	pendingProposalShards = shards // soft setting PendingProposalShards
	n.pp = newPendingProposal(cfg, notifyCommit, p, n.proposals)
	pendingProposalShards = old
	// getRng seeds the key generators from pid+time; use a drawn seed instead so
	// that the key -> table shard mapping is reproducible
	for i := range n.pp.keyg {
		n.pp.keyg[i] = &keyGenerator{rand: rand.New(rand.NewSource(seed + int64(i)*7919))}
	}
	n.pr = newPendingReadIndex(p, n.readIndexes)
	n.pc = newPendingConfigChange(n.configChangeC, notifyCommit)
	n.ps = newPendingSnapshot(n.snapshotC)
	n.pl = newPendingRaftLogQuery()
	return n
}

type vfBatch struct {
	ctx   pb.SystemCtx
	ents  []*vfEnt
	ready uint64
	gone  bool
}

// vfEnt is one ledger entry: one accepted request.
type vfEnt struct {
	id           int
	kind         int
	rs           *RequestState
	gen          int
	ch           chan RequestResult
	cch          chan RequestResult
	deadline     uint64
	since        uint64
	inScope      bool
	key          uint64
	clientID     uint64
	seriesID     uint64
	notifyCommit bool
	committed    int
	terminal     *RequestResult
	released     bool
	lazy         bool
	inChan       bool
	rstate       int // reads: 0 in queue, 1 taken by the step worker, 2 in a batch
	batch        *vfBatch
	lost         bool // tolerated known finding: this request never gets a result
	afterClose   bool
}

func (e *vfEnt) open() bool { return e.terminal == nil }

func (e *vfEnt) String() string {
	return fmt.Sprintf("#%d %s gen%d", e.id, vfKindName[e.kind], e.gen)
}

type vfExp struct {
	code   RequestResultCode
	val    sm.Result
	lr     LogRange
	nents  int
	entIdx uint64
}

type vfStep struct {
	name      string
	targets   map[*vfEnt]vfExp
	timeoutOK [vfKinds]bool
	closing   [vfKinds]bool
	gcTrig    [vfKinds]bool
	commitTgt *vfEnt
	post      func()
}

type vfWProp struct {
	key, cid, sid uint64
	committed     bool
}

type vfWKey struct {
	key       uint64
	committed bool
}

type vfModel struct {
	t            *rapid.T
	st           *vfhelp.Stats
	n            *vfNode
	notifyCommit bool
	now          uint64
	currentTick  uint64
	gcTick       uint64
	ledger       []*vfEnt
	byPtr        map[*RequestState]*vfEnt
	byKey        [vfKinds]map[uint64]*vfEnt
	chans        []chan RequestResult
	owner        map[chan RequestResult]*vfEnt
	cchans       []chan RequestResult
	cowner       map[chan RequestResult]*vfEnt
	propInRaft   []*vfWProp
	readTaken    []*RequestState
	readTakenSet bool
	batches      []*vfBatch
	ccInRaft     []*vfWKey
	ccNil        bool
	snapTaken    []uint64
	logSeen      *RequestState
	logSeenEnt   *vfEnt
	appliedHi    uint64
	closeStage   int
	closed       [vfKinds]bool
	nextVal      uint64
	cur          vfStep
	trace        []string
	labels       map[string]bool
	nt           bool
	results      [8]int
}

func (m *vfModel) label(l string) { m.labels[l] = true }

func (m *vfModel) tracef(format string, args ...interface{}) {
	m.trace = append(m.trace, fmt.Sprintf(format, args...))
}

func (m *vfModel) fail(sig string, format string, args ...interface{}) {
	vfhelp.Fail(m.t, sig, "%s\n  step %d (%s)\n  trace: %s", fmt.Sprintf(format, args...),
		len(m.trace), m.cur.name, strings.Join(m.trace, " | "))
}

// call runs a call into the code under test and converts a panic into a value.
func (m *vfModel) call(f func()) (panicked bool, msg string) {
	defer func() {
		if r := recover(); r != nil {
			panicked = true
			msg = fmt.Sprint(r)
		}
	}()
	f()
	return false, ""
}

func (m *vfModel) mustCall(what string, f func()) {
	if p, msg := m.call(f); p {
		m.fail("c12-panic-"+what, "code under test panicked in %s: %s", what, msg)
	}
}

func (m *vfModel) begin(name string) {
	m.cur = vfStep{name: name, targets: make(map[*vfEnt]vfExp)}
}

func (m *vfModel) end() {
	m.observe()
	if m.cur.post != nil {
		m.cur.post()
	}
	m.obligations()
}

func (m *vfModel) val() uint64 {
	m.nextVal++
	return 1000 + m.nextVal
}

// ---------------------------------------------------------------------------
// ledger
// ---------------------------------------------------------------------------

func (m *vfModel) accept(kind int, rs *RequestState, deadline uint64) *vfEnt {
	if rs == nil {
		m.fail("c12-nil-requeststate", "%s request accepted (nil error) but RequestState is nil", vfKindName[kind])
	}
	gen := 0
	if prev := m.byPtr[rs]; prev != nil {
		if prev.open() {
			m.fail("c12-reused-while-pending",
				"RequestState %p of %v was handed out again to a new %s request while the old one has no result yet",
				rs, prev, vfKindName[kind])
		}
		if !prev.released {
			m.fail("c12-reused-before-release",
				"RequestState %p of %v was handed out again before its owner released it", rs, prev)
		}
		gen = prev.gen + 1
		m.label("pool-reuse")
		if prev.kind != kind {
			m.label("pool-reuse-across-tables")
		}
		for _, o := range m.ledger {
			if o.kind == kind && o.open() && !o.lost {
				m.label("NT:reuse-while-same-table-pending")
				m.nt = true
				break
			}
		}
	}
	e := &vfEnt{
		id: len(m.ledger), kind: kind, rs: rs, gen: gen,
		ch: rs.CompletedC, cch: rs.committedC, deadline: deadline,
		since: m.now, afterClose: m.closed[kind],
	}
	if e.ch == nil {
		m.fail("c12-nil-channel", "accepted %v has a nil result channel", e)
	}
	if kind == vfKProp || kind == vfKRead {
		e.lazy = rapid.IntRange(0, 9).Draw(m.t, "lazy") == 0
	}
	if _, ok := m.owner[e.ch]; !ok {
		m.chans = append(m.chans, e.ch)
	}
	m.owner[e.ch] = e
	if e.cch != nil {
		if _, ok := m.cowner[e.cch]; !ok {
			m.cchans = append(m.cchans, e.cch)
		}
		m.cowner[e.cch] = e
	}
	m.byPtr[rs] = e
	m.ledger = append(m.ledger, e)
	if e.afterClose {
		m.label("accepted-after-close-" + vfKindName[kind])
	}
	return e
}

func (m *vfModel) observe() {
	for _, ch := range m.chans {
		e := m.owner[ch]
		if e.inChan {
			// a lazy client: the (already validated) result is still parked in
			// the channel
			if len(ch) != 1 {
				m.fail("c12-parked-result-vanished", "result of %v vanished from its channel", e)
			}
			continue
		}
		for {
			got := false
			select {
			case r := <-ch:
				got = true
				m.onResult(e, r, ch)
			default:
			}
			if !got || e.inChan {
				break
			}
		}
	}
	for _, ch := range m.cchans {
		e := m.cowner[ch]
		for {
			got := false
			select {
			case r := <-ch:
				got = true
				m.onCommitted(e, r)
			default:
			}
			if !got {
				break
			}
		}
	}
}

func (m *vfModel) onCommitted(e *vfEnt, r RequestResult) {
	if r.code != requestCommitted {
		m.fail("c12-committedc-carries-other-code", "%v got %s on its committed channel", e, r.code)
	}
	if !m.notifyCommit {
		m.fail("c12-committed-when-disabled", "%v got a Committed notification with NotifyCommit off", e)
	}
	if !e.open() {
		m.fail("c12-committed-after-terminal", "%v got Committed after its terminal result %s", e, e.terminal.code)
	}
	if m.cur.commitTgt != e {
		m.fail("c12-committed-crosstalk", "%v got Committed in a step that did not signal it", e)
	}
	e.committed++
	if e.committed > 1 {
		m.fail("c12-committed-twice", "%v got two Committed notifications", e)
	}
	m.label("committed-notification")
}

func (m *vfModel) onResult(e *vfEnt, r RequestResult, ch chan RequestResult) {
	if r.code == requestCommitted {
		m.fail("c12-committed-on-result-channel", "%v got Committed on CompletedC", e)
	}
	if !e.open() {
		m.fail("c12-second-terminal-result", "%v got a second terminal result %s (first %s)",
			e, r.code, e.terminal.code)
	}
	ok, sig, why := m.allowed(e, r)
	if !ok {
		if e.kind == vfKLog && e.afterClose && m.cur.name == "logReturned" {
			// pendingRaftLogQuery has no stopped flag: a query accepted after
			// close() receives the result computed for the query that close()
			// terminated (finding E7-2)
			if m.st.Known(m.t, vfSigLogCrosstalk,
				"%v accepted after close() received the result that belongs to %v", e, m.logSeenEnt) {
				m.st.Count("excluded-"+vfSigLogCrosstalk, 1)
			}
		} else {
			m.fail(sig, "%v: %s (got %s value %d)", e, why, r.code, r.result.Value)
		}
	}
	rc := r
	e.terminal = &rc
	m.results[int(r.code)]++
	m.label("result-" + r.code.String())
	if e.lazy {
		ch <- r
		e.inChan = true
		m.label("lazy-client")
	}
}

// allowed decides whether result r may legitimately reach e in the current step.
func (m *vfModel) allowed(e *vfEnt, r RequestResult) (bool, string, string) {
	c := &m.cur
	switch r.code {
	case requestTerminated:
		// truthful iff the table is being / has been closed (a repaired add()
		// may terminate late comers after close())
		if !c.closing[e.kind] && !m.closed[e.kind] {
			return false, "c12-unjustified-terminated", "Terminated although the " + vfKindName[e.kind] + " table is not closed"
		}
		return true, "", ""
	case requestTimeout:
		if !c.timeoutOK[e.kind] {
			return false, "c12-unjustified-timeout", "Timeout in a step that performs no expiry on this table"
		}
		if e.deadline == 0 || m.now < e.deadline {
			return false, "c12-early-timeout", fmt.Sprintf("Timeout at tick %d before the deadline %d", m.now, e.deadline)
		}
		return true, "", ""
	}
	exp, ok := c.targets[e]
	if !ok {
		if len(c.targets) > 0 {
			return false, "c12-crosstalk", fmt.Sprintf("%s delivered to a request other than the one whose key/ctx was signalled", r.code)
		}
		return false, "c12-unjustified-" + strings.ToLower(r.code.String()), "result not caused by this step"
	}
	if exp.code != r.code {
		return false, "c12-wrong-code", fmt.Sprintf("expected %s", exp.code)
	}
	if r.result.Value != exp.val.Value || string(r.result.Data) != string(exp.val.Data) {
		return false, "c12-wrong-value", fmt.Sprintf("expected value %d", exp.val.Value)
	}
	if e.kind == vfKSnap && !r.snapshotResult {
		return false, "c12-wrong-value", "snapshotResult flag missing"
	}
	if e.kind == vfKLog {
		if !r.logQueryResult || r.logRange != exp.lr || len(r.entries) != exp.nents ||
			(exp.nents > 0 && r.entries[0].Index != exp.entIdx) {
			return false, "c12-wrong-value", "log query result differs from the returned() call"
		}
	}
	return true, "", ""
}

func (m *vfModel) obligations() {
	for _, e := range m.ledger {
		if !e.open() || e.lost {
			continue
		}
		if m.closed[e.kind] {
			if e.kind == vfKRead && e.rstate == 1 {
				// taken out of the queue by the step worker before close(): the
				// worker still owes the add() call; judged there
				continue
			}
			if e.kind == vfKLog && e.afterClose {
				if m.st.Known(m.t, vfSigLogAccepted,
					"%v was accepted after pendingRaftLogQuery.close() and can never get a result", e) {
					m.st.Count("excluded-"+vfSigLogAccepted, 1)
					e.lost = true
				}
				continue
			}
			m.fail("c12-not-terminated-after-close-"+vfKindName[e.kind],
				"%v has no result although its table was closed", e)
		}
		if m.cur.gcTrig[e.kind] && e.inScope && e.deadline != 0 {
			lim := e.deadline
			if e.since > lim {
				lim = e.since
			}
			if lim+defaultGCTick < m.now {
				m.fail("c12-timeout-missed-"+vfKindName[e.kind],
					"%v (deadline %d, in table since %d) still has no result after an expiry pass at tick %d (gc window %d)",
					e, e.deadline, e.since, m.now, defaultGCTick)
			}
		}
	}
}

// ---------------------------------------------------------------------------
// client actions
// ---------------------------------------------------------------------------

func (m *vfModel) drawTimeout() uint64 {
	switch rapid.IntRange(0, 5).Draw(m.t, "tk") {
	case 0, 1:
		return 100
	case 2, 3:
		return uint64(rapid.IntRange(3, 10).Draw(m.t, "timeout"))
	default:
		return uint64(rapid.IntRange(1, 3).Draw(m.t, "timeout"))
	}
}

func (m *vfModel) refused(kind int, err error) {
	switch err {
	case ErrSystemBusy:
		m.label("refused-busy-" + vfKindName[kind])
	case ErrShardClosed:
		m.label("refused-closed-" + vfKindName[kind])
		if !m.closed[kind] && m.closeStage == 0 {
			m.fail("c12-shardclosed-before-close", "%s refused with ErrShardClosed before close()", vfKindName[kind])
		}
	default:
		m.fail("c12-unexpected-refusal", "%s refused with %v", vfKindName[kind], err)
	}
}

func (m *vfModel) stepPropose() {
	cid := uint64(rapid.IntRange(1, 3).Draw(m.t, "client"))
	s := &client.Session{ShardID: 1, ClientID: cid}
	switch rapid.IntRange(0, 5).Draw(m.t, "sess") {
	case 0, 1:
		s.SeriesID = client.NoOPSeriesID
	case 2:
		s.SeriesID = client.SeriesIDForRegister
	case 3:
		s.SeriesID = client.SeriesIDForUnregister
	default:
		s.SeriesID = client.SeriesIDFirstProposal + uint64(rapid.IntRange(0, 2).Draw(m.t, "series"))
		s.RespondedTo = s.SeriesID - 1
	}
	var cmd []byte
	if s.SeriesID != client.SeriesIDForRegister && s.SeriesID != client.SeriesIDForUnregister {
		cmd = make([]byte, rapid.IntRange(0, 6).Draw(m.t, "cmdlen"))
	}
	timeout := m.drawTimeout()
	m.begin("propose")
	var rs *RequestState
	var err error
	m.mustCall("propose", func() { rs, err = m.n.pp.propose(s, cmd, timeout) })
	m.tracef("propose(c%d,s%d,t%d)=%v", cid, s.SeriesID, timeout, err)
	if err != nil {
		m.refused(vfKProp, err)
	} else {
		e := m.accept(vfKProp, rs, m.now+timeout)
		e.key, e.clientID, e.seriesID = rs.key, rs.clientID, rs.seriesID
		e.notifyCommit = m.notifyCommit
		e.inScope = true
		if e.clientID != s.ClientID || e.seriesID != s.SeriesID {
			m.fail("c12-wrong-session-on-request", "request carries another session")
		}
		if o := m.byKey[vfKProp][e.key]; o != nil && o.open() {
			// 2^-64 with real key generators; possible with the seeded ones
			m.label("key-collision")
		}
		m.byKey[vfKProp][e.key] = e
	}
	m.end()
}

func (m *vfModel) stepRead() {
	timeout := m.drawTimeout()
	m.begin("read")
	var rs *RequestState
	var err error
	m.mustCall("read", func() { rs, err = m.n.pr.read(timeout) })
	m.tracef("read(t%d)=%v", timeout, err)
	if err != nil {
		m.refused(vfKRead, err)
	} else {
		m.accept(vfKRead, rs, m.now+timeout)
	}
	m.end()
}

func (m *vfModel) stepCC() {
	timeout := m.drawTimeout()
	cc := pb.ConfigChange{Type: pb.AddNode, ReplicaID: 2, Address: "a2", ConfigChangeId: m.val()}
	m.begin("requestConfigChange")
	var rs *RequestState
	var err error
	m.mustCall("requestConfigChange", func() { rs, err = m.n.pc.request(cc, timeout) })
	m.tracef("cc(t%d)=%v", timeout, err)
	if err != nil {
		m.refused(vfKCC, err)
	} else {
		e := m.accept(vfKCC, rs, m.now+timeout)
		e.key = rs.key
		e.inScope = true
		e.notifyCommit = m.notifyCommit
		m.byKey[vfKCC][e.key] = e
	}
	m.end()
}

func (m *vfModel) stepSnap() {
	timeout := m.drawTimeout()
	m.begin("requestSnapshot")
	var rs *RequestState
	var err error
	m.mustCall("requestSnapshot", func() {
		rs, err = m.n.ps.request(rsm.UserRequested, "", false, 0, 0, timeout)
	})
	m.tracef("snap(t%d)=%v", timeout, err)
	if err != nil {
		m.refused(vfKSnap, err)
	} else {
		e := m.accept(vfKSnap, rs, m.now+timeout)
		e.key = rs.key
		e.inScope = true
		m.byKey[vfKSnap][e.key] = e
	}
	m.end()
}

func (m *vfModel) stepLog() {
	first := uint64(rapid.IntRange(1, 5).Draw(m.t, "first"))
	m.begin("queryRaftLog")
	var rs *RequestState
	var err error
	m.mustCall("queryRaftLog", func() { rs, err = m.n.pl.add(first, first+3, 1024) })
	m.tracef("logq=%v", err)
	if err != nil {
		m.refused(vfKLog, err)
	} else {
		m.accept(vfKLog, rs, 0)
	}
	m.end()
}

func (m *vfModel) releasable() []*vfEnt {
	var out []*vfEnt
	for _, e := range m.ledger {
		if e.released || m.byPtr[e.rs] != e {
			continue
		}
		out = append(out, e)
	}
	return out
}

func (m *vfModel) stepRelease() {
	c := m.releasable()
	var done []*vfEnt
	for _, e := range c {
		if !e.open() {
			done = append(done, e)
		}
	}
	// mostly a client releasing a request it got the result of; sometimes a
	// premature Release() (SyncPropose/SyncRead do that when their context
	// expires first, nodehost.go getRequestState + Release)
	if len(done) > 0 && rapid.IntRange(0, 3).Draw(m.t, "relkind") != 0 {
		c = done
	}
	e := c[vfhelp.PickN(m.t, "rel", len(c))]
	m.begin("release")
	m.tracef("release(#%d,%v)", e.id, e.open())
	if e.open() {
		m.label("premature-release")
	}
	m.mustCall("Release", func() { e.rs.Release() })
	if !e.open() {
		e.released = true
		if e.inChan {
			m.label("released-with-unread-result")
		}
	}
	m.end()
}

func (m *vfModel) lazyParked() []*vfEnt {
	var out []*vfEnt
	for _, e := range m.ledger {
		if e.inChan && !e.released {
			out = append(out, e)
		}
	}
	return out
}

func (m *vfModel) stepLazyReceive() {
	c := m.lazyParked()
	e := c[vfhelp.PickN(m.t, "lazyrecv", len(c))]
	m.begin("lazyReceive")
	m.tracef("recv(#%d)", e.id)
	select {
	case <-e.ch:
		e.inChan = false
	default:
		m.fail("c12-parked-result-vanished", "result of %v vanished", e)
	}
	m.end()
}

// ---------------------------------------------------------------------------
// worker actions
// ---------------------------------------------------------------------------

func (m *vfModel) stepPropGet() {
	paused := rapid.IntRange(0, 7).Draw(m.t, "paused") == 0
	m.begin("propQueueGet")
	var ents []pb.Entry
	m.mustCall("entryQueue.get", func() { ents = m.n.proposals.get(paused) })
	m.tracef("pget(%v)=%d", paused, len(ents))
	for _, ent := range ents {
		e := m.byKey[vfKProp][ent.Key]
		if e == nil || e.clientID != ent.ClientID || e.seriesID != ent.SeriesID {
			m.fail("c12-refused-entry-in-queue", "entry key %d in the proposal queue does not belong to an accepted request", ent.Key)
		}
		m.propInRaft = append(m.propInRaft, &vfWProp{key: ent.Key, cid: ent.ClientID, sid: ent.SeriesID})
	}
	if paused {
		m.label("queue-paused")
	}
	m.end()
}

func (m *vfModel) propTarget(w *vfWProp) *vfEnt {
	e := m.byKey[vfKProp][w.key]
	if e != nil && e.open() && e.clientID == w.cid && e.seriesID == w.sid {
		return e
	}
	return nil
}

func (m *vfModel) pickProp(pred func(*vfWProp) bool) (int, *vfWProp) {
	var idx []int
	for i, w := range m.propInRaft {
		if pred(w) {
			idx = append(idx, i)
		}
	}
	if len(idx) == 0 {
		return -1, nil
	}
	i := idx[vfhelp.PickN(m.t, "pick", len(idx))]
	return i, m.propInRaft[i]
}

func (m *vfModel) removeProp(i int) {
	m.propInRaft = append(m.propInRaft[:i:i], m.propInRaft[i+1:]...)
}

func (m *vfModel) stepPropDropped() {
	i, w := m.pickProp(func(w *vfWProp) bool { return !w.committed })
	m.begin("propDropped")
	if e := m.propTarget(w); e != nil {
		m.cur.targets[e] = vfExp{code: requestDropped}
	}
	m.mustCall("proposals.dropped", func() { m.n.pp.dropped(w.cid, w.sid, w.key) })
	m.tracef("pdropped")
	m.removeProp(i)
	m.end()
}

func (m *vfModel) stepPropCommitted() {
	_, w := m.pickProp(func(w *vfWProp) bool { return !w.committed })
	m.begin("propCommitted")
	m.cur.commitTgt = m.propTarget(w)
	m.mustCall("proposals.committed", func() { m.n.pp.committed(w.cid, w.sid, w.key) })
	m.tracef("pcommitted")
	w.committed = true
	m.end()
}

func (m *vfModel) stepPropApplied() {
	i, w := m.pickProp(func(w *vfWProp) bool { return !m.notifyCommit || w.committed })
	rejected := false
	if w.sid != client.NoOPSeriesID {
		rejected = rapid.IntRange(0, 3).Draw(m.t, "rejected") == 0
	}
	v := m.val()
	res := sm.Result{Value: v, Data: []byte{byte(v)}}
	m.begin("propApplied")
	if e := m.propTarget(w); e != nil {
		code := requestCompleted
		if rejected {
			code = requestRejected
		}
		m.cur.targets[e] = vfExp{code: code, val: res}
	}
	m.cur.timeoutOK[vfKProp] = true // applied() runs gcAt() on that table shard
	m.mustCall("proposals.applied", func() { m.n.pp.applied(w.cid, w.sid, w.key, res, rejected) })
	m.tracef("papplied(%v)", rejected)
	m.removeProp(i)
	m.end()
}

func (m *vfModel) openOf(kind int) []*vfEnt {
	var out []*vfEnt
	for _, e := range m.ledger {
		if e.kind == kind && e.open() && !e.lost {
			out = append(out, e)
		}
	}
	return out
}

// stepPropForeign: an entry proposed through ANOTHER replica whose random 64-bit
// key happens to equal the key of a local pending proposal (keys are only
// unique per key generator) but whose client/series differs. It must not
// complete, commit or drop the local request (request.go:1160).
func (m *vfModel) stepPropForeign() {
	c := m.openOf(vfKProp)
	e := c[vfhelp.PickN(m.t, "foreign", len(c))]
	cid, sid := e.clientID+10, e.seriesID
	if rapid.Bool().Draw(m.t, "fser") {
		cid, sid = e.clientID, e.seriesID+7
	}
	v := m.val()
	res := sm.Result{Value: v}
	which := rapid.IntRange(0, 3).Draw(m.t, "fkind")
	m.begin("propForeign")
	m.label("foreign-key-collision")
	switch which {
	case 0:
		m.mustCall("proposals.dropped", func() { m.n.pp.dropped(cid, sid, e.key) })
	case 1:
		if m.notifyCommit {
			m.mustCall("proposals.committed", func() { m.n.pp.committed(cid, sid, e.key) })
		}
	default:
		m.cur.timeoutOK[vfKProp] = true
		m.mustCall("proposals.applied", func() { m.n.pp.applied(cid, sid, e.key, res, false) })
	}
	m.tracef("pforeign(%d)", which)
	m.end()
}

func (m *vfModel) stepReadGet() {
	m.begin("readQueueGet")
	var reqs []*RequestState
	m.mustCall("readIndexQueue.get", func() { reqs = m.n.readIndexes.get() })
	m.tracef("rget=%d", len(reqs))
	if len(reqs) > 0 {
		m.readTaken = append([]*RequestState(nil), reqs...)
		m.readTakenSet = true
		for _, rs := range m.readTaken {
			e := m.byPtr[rs]
			if e == nil || e.kind != vfKRead || e.rstate != 0 {
				m.fail("c12-refused-entry-in-queue", "read queue returned a request that was not accepted")
			}
			e.rstate = 1
		}
	}
	m.end()
}

func (m *vfModel) stepReadAdd() {
	m.begin("readAdd")
	var ctx pb.SystemCtx
	m.mustCall("readIndex.nextCtx", func() { ctx = m.n.pr.nextCtx() })
	reqs := m.readTaken
	m.mustCall("readIndex.add", func() { m.n.pr.add(ctx, reqs) })
	m.tracef("radd(%d)", len(reqs))
	b := &vfBatch{ctx: ctx}
	for _, rs := range reqs {
		e := m.byPtr[rs]
		e.rstate = 2
		e.batch = b
		e.inScope = true
		e.since = m.now
		b.ents = append(b.ents, e)
	}
	m.batches = append(m.batches, b)
	m.readTaken = nil
	m.readTakenSet = false
	if m.closed[vfKRead] {
		// S5: close() fell between queue.get() and add(): add() returns
		// silently when stopped and nobody else knows these requests
		b.gone = true
		m.label("S5-shape:close-between-get-and-add")
		m.cur.post = func() {
			for _, e := range b.ents {
				if e.open() {
					if m.st.Known(m.t, vfSigS5,
						"%v was taken from the read queue before close() and handed to pendingReadIndex.add() after it: add() dropped it, it never gets a result", e) {
						m.st.Count("excluded-"+vfSigS5, 1)
						e.lost = true
					}
				}
			}
		}
	}
	m.end()
}

func (m *vfModel) liveBatches(pred func(*vfBatch) bool) []*vfBatch {
	var out []*vfBatch
	for _, b := range m.batches {
		if !b.gone && pred(b) {
			out = append(out, b)
		}
	}
	return out
}

func (m *vfModel) stepReadReady() {
	c := m.liveBatches(func(b *vfBatch) bool { return b.ready == 0 })
	b := c[vfhelp.PickN(m.t, "batch", len(c))]
	lo := uint64(1)
	if m.appliedHi > 2 {
		lo = m.appliedHi - 2
	}
	idx := uint64(rapid.IntRange(int(lo), int(m.appliedHi)+3).Draw(m.t, "ridx"))
	m.begin("readAddReady")
	m.mustCall("readIndex.addReady", func() {
		m.n.pr.addReady([]pb.ReadyToRead{{Index: idx, SystemCtx: b.ctx}})
	})
	m.tracef("rready(%d)", idx)
	b.ready = idx
	m.end()
}

func (m *vfModel) stepReadDropped() {
	c := m.liveBatches(func(b *vfBatch) bool { return b.ready == 0 })
	b := c[vfhelp.PickN(m.t, "batch", len(c))]
	m.begin("readDropped")
	if !m.closed[vfKRead] {
		for _, e := range b.ents {
			if e.open() {
				m.cur.targets[e] = vfExp{code: requestDropped}
			}
		}
	}
	m.mustCall("readIndex.dropped", func() { m.n.pr.dropped(b.ctx) })
	m.tracef("rdropped")
	b.gone = true
	m.end()
}

func (m *vfModel) stepReadApplied() {
	m.appliedHi += uint64(rapid.IntRange(0, 2).Draw(m.t, "adv"))
	v := m.appliedHi
	if v > 0 && rapid.IntRange(0, 3).Draw(m.t, "stale") == 0 {
		// the step worker's applied(lastApplied) may lag the apply worker's applied(e.Index)
		v = uint64(rapid.IntRange(0, int(v)).Draw(m.t, "stalev"))
	}
	m.begin("readApplied")
	for _, b := range m.batches {
		if b.gone || b.ready == 0 || b.ready > v {
			continue
		}
		for _, e := range b.ents {
			if e.open() {
				m.cur.targets[e] = vfExp{code: requestCompleted}
			}
		}
		if !m.closed[vfKRead] {
			b.gone = true
		}
	}
	m.cur.timeoutOK[vfKRead] = true
	m.cur.gcTrig[vfKRead] = !m.closed[vfKRead]
	m.mustCall("readIndex.applied", func() { m.n.pr.applied(v) })
	m.tracef("rapplied(%d)", v)
	m.end()
}

func (m *vfModel) stepCCTake() {
	m.begin("ccTake")
	// node.handleConfigChange (node.go:1309)
	if len(m.n.configChangeC) > 0 {
		select {
		case req, ok := <-m.n.configChangeC:
			if !ok {
				m.ccNil = true
			} else {
				if m.byKey[vfKCC][req.key] == nil {
					m.fail("c12-refused-entry-in-queue", "config change channel carries a request that was not accepted")
				}
				m.ccInRaft = append(m.ccInRaft, &vfWKey{key: req.key})
			}
		default:
		}
	}
	m.tracef("cctake")
	m.end()
}

func (m *vfModel) ccTarget(key uint64) *vfEnt {
	if e := m.byKey[vfKCC][key]; e != nil && e.open() {
		return e
	}
	return nil
}

func (m *vfModel) pickCC(pred func(*vfWKey) bool) (int, *vfWKey) {
	var idx []int
	for i, w := range m.ccInRaft {
		if pred(w) {
			idx = append(idx, i)
		}
	}
	if len(idx) == 0 {
		return -1, nil
	}
	i := idx[vfhelp.PickN(m.t, "pickcc", len(idx))]
	return i, m.ccInRaft[i]
}

func (m *vfModel) stepCCDropped() {
	i, w := m.pickCC(func(w *vfWKey) bool { return !w.committed })
	m.begin("ccDropped")
	if e := m.ccTarget(w.key); e != nil {
		m.cur.targets[e] = vfExp{code: requestDropped}
	}
	m.mustCall("configChange.dropped", func() { m.n.pc.dropped(w.key) })
	m.tracef("ccdropped")
	m.ccInRaft = append(m.ccInRaft[:i:i], m.ccInRaft[i+1:]...)
	m.end()
}

func (m *vfModel) stepCCCommitted() {
	_, w := m.pickCC(func(w *vfWKey) bool { return !w.committed })
	m.begin("ccCommitted")
	m.cur.commitTgt = m.ccTarget(w.key)
	m.mustCall("configChange.committed", func() { m.n.pc.committed(w.key) })
	m.tracef("cccommitted")
	w.committed = true
	m.end()
}

func (m *vfModel) stepCCApply() {
	i, w := m.pickCC(func(w *vfWKey) bool { return !m.notifyCommit || w.committed })
	rejected := rapid.IntRange(0, 2).Draw(m.t, "ccrej") == 0
	m.begin("ccApply")
	if e := m.ccTarget(w.key); e != nil {
		code := requestCompleted
		if rejected {
			code = requestRejected
		}
		m.cur.targets[e] = vfExp{code: code}
	}
	m.mustCall("configChange.apply", func() { m.n.pc.apply(w.key, rejected) })
	m.tracef("ccapply(%v)", rejected)
	m.ccInRaft = append(m.ccInRaft[:i:i], m.ccInRaft[i+1:]...)
	m.end()
}

func (m *vfModel) stepSnapTake() {
	m.begin("snapTake")
	select {
	case req := <-m.n.snapshotC:
		if m.byKey[vfKSnap][req.Key] == nil {
			m.fail("c12-refused-entry-in-queue", "snapshot channel carries a request that was not accepted")
		}
		m.snapTaken = append(m.snapTaken, req.Key)
	default:
	}
	m.tracef("snaptake")
	m.end()
}

func (m *vfModel) stepSnapApply() {
	i := rapid.IntRange(0, len(m.snapTaken)-1).Draw(m.t, "picksnap")
	key := m.snapTaken[i]
	outcome := rapid.IntRange(0, 3).Draw(m.t, "snapout")
	var exp vfExp
	ignored, aborted, index := false, false, uint64(0)
	switch outcome {
	case 0:
		ignored = true
		exp.code = requestRejected
	case 1:
		aborted = true
		exp.code = requestAborted
	default:
		index = m.val()
		exp.code = requestCompleted
		exp.val = sm.Result{Value: index}
	}
	m.begin("snapApply")
	if e := m.byKey[vfKSnap][key]; e != nil && e.open() {
		m.cur.targets[e] = exp
	}
	m.mustCall("snapshot.apply", func() { m.n.ps.apply(key, ignored, aborted, index) })
	m.tracef("snapapply(%d)", outcome)
	m.snapTaken = append(m.snapTaken[:i:i], m.snapTaken[i+1:]...)
	m.end()
}

func (m *vfModel) stepLogGet() {
	m.begin("logGet")
	var req *RequestState
	m.mustCall("logQuery.get", func() { req = m.n.pl.get() })
	m.tracef("logget=%v", req != nil)
	if req != nil {
		m.logSeen = req
		m.logSeenEnt = m.byPtr[req]
		if m.logSeenEnt == nil || m.logSeenEnt.kind != vfKLog {
			m.fail("c12-refused-entry-in-queue", "log query slot holds a request that was not accepted")
		}
	}
	m.end()
}

func (m *vfModel) stepLogReturned() {
	oor := rapid.IntRange(0, 3).Draw(m.t, "oor") == 0
	v := m.val()
	lr := LogRange{FirstIndex: v, LastIndex: v + 2}
	ents := []pb.Entry{{Index: v, Term: 1}}
	exp := vfExp{code: requestCompleted, lr: lr, nents: 1, entIdx: v}
	if oor {
		exp = vfExp{code: requestOutOfRange, lr: lr}
	}
	m.begin("logReturned")
	e := m.logSeenEnt
	if e.open() {
		m.cur.targets[e] = exp
	}
	panicked, msg := m.call(func() { m.n.pl.returned(oor, lr, ents) })
	m.tracef("logreturned(%v)", oor)
	if panicked {
		if m.closed[vfKLog] {
			// processLogQuery runs after stepNode without a lock; close() in
			// between empties the slot and returned() panics (finding E7-2)
			m.label("logquery-returned-after-close")
			if m.st.Known(m.t, vfSigLogPanic,
				"pendingRaftLogQuery.returned() panicked (%s): close() ran between the step worker's get() and returned()", msg) {
				m.st.Count("excluded-"+vfSigLogPanic, 1)
			}
		} else {
			m.fail("c12-panic-logQuery.returned", "returned() panicked: %s", msg)
		}
	}
	m.logSeen = nil
	m.logSeenEnt = nil
	m.end()
}

func (m *vfModel) stepTick() {
	d := uint64(1)
	if rapid.IntRange(0, 4).Draw(m.t, "tkd") == 0 {
		d = uint64(rapid.IntRange(2, 6).Draw(m.t, "tickd"))
	}
	m.begin("tick")
	m.now += d
	m.currentTick++
	// node.tick (node.go:1574)
	m.n.ps.tick(m.now)
	m.n.pp.tick(m.now)
	m.n.pr.tick(m.now)
	m.n.pc.tick(m.now)
	m.tracef("tick(+%d=%d)", d, m.now)
	m.end()
}

func (m *vfModel) stepGC() {
	m.begin("gc")
	// node.gc (node.go:1225)
	if m.gcTick != m.currentTick {
		for _, k := range []int{vfKProp, vfKCC, vfKSnap} {
			m.cur.timeoutOK[k] = true
			m.cur.gcTrig[k] = !m.closed[k]
		}
		m.mustCall("gc", func() {
			m.n.pp.gc()
			m.n.pc.gc()
			m.n.ps.gc()
		})
		m.gcTick = m.currentTick
		m.tracef("gc")
	} else {
		m.tracef("gc-skip")
	}
	m.end()
}

func (m *vfModel) inflight(k int) []string {
	var out []string
	switch k {
	case vfKRead:
		if m.readTakenSet {
			out = append(out, "read:get-add")
		}
		if len(m.liveBatches(func(*vfBatch) bool { return true })) > 0 {
			out = append(out, "read:add-applied")
		}
	case vfKProp:
		if len(m.propInRaft) > 0 {
			out = append(out, "proposal:get-applied")
		}
	case vfKCC:
		if len(m.ccInRaft) > 0 {
			out = append(out, "configchange:take-apply")
		}
	case vfKSnap:
		if len(m.snapTaken) > 0 {
			out = append(out, "snapshot:take-apply")
		}
	case vfKLog:
		if m.logSeen != nil {
			out = append(out, "logquery:get-returned")
		}
	}
	return out
}

// stepCloseNext performs the next of the five close() calls of node.close()
// (node.go:383-387).
func (m *vfModel) stepCloseNext() {
	m.begin("close")
	k := []int{vfKRead, vfKProp, vfKCC, vfKSnap, vfKLog}[m.closeStage]
	for _, l := range m.inflight(k) {
		m.label("NT:close-between-worker-calls")
		m.label("close-during-" + l)
		m.nt = true
	}
	if len(m.openOf(k)) > 0 {
		m.label("close-with-outstanding-" + vfKindName[k])
	}
	m.cur.closing[k] = true
	m.mustCall("close-"+vfKindName[k], func() {
		switch k {
		case vfKRead:
			m.n.pr.close()
		case vfKProp:
			m.n.pp.close()
		case vfKCC:
			m.n.pc.close()
		case vfKSnap:
			m.n.ps.close()
		case vfKLog:
			m.n.pl.close()
		}
	})
	m.tracef("close(%s)", vfKindName[k])
	m.closed[k] = true
	m.closeStage++
	m.end()
}

// ---------------------------------------------------------------------------
// schedule
// ---------------------------------------------------------------------------

type vfAct struct {
	name string
	w    int
	ok   func() bool
	run  func()
}

func (m *vfModel) actions(prof []int) []vfAct {
	has := func(f func(*vfWProp) bool) bool {
		for _, w := range m.propInRaft {
			if f(w) {
				return true
			}
		}
		return false
	}
	hasCC := func(f func(*vfWKey) bool) bool {
		for _, w := range m.ccInRaft {
			if f(w) {
				return true
			}
		}
		return false
	}
	always := func() bool { return true }
	closeW := prof[4]
	if m.closeStage > 0 {
		closeW = 25
	}
	relW := 0
	for _, e := range m.releasable() {
		if !e.open() {
			relW += 5
		} else {
			relW++
		}
	}
	if relW > 30 {
		relW = 30
	}
	cap3 := func(n int) int {
		if n > 3 {
			return 3
		}
		return n
	}
	// backlog driven weights: work that is waiting for a worker makes that
	// worker's next call more likely, so that requests regularly run to
	// completion before the node is closed
	pq := cap3(int(m.n.proposals.idx))
	rq := cap3(int(m.n.readIndexes.idx))
	inRaft := cap3(len(m.propInRaft))
	notReady := cap3(len(m.liveBatches(func(b *vfBatch) bool { return b.ready == 0 })))
	ready := cap3(len(m.liveBatches(func(b *vfBatch) bool { return b.ready != 0 })))
	cw := func(kind int, base int) int {
		if len(m.openOf(kind)) >= 4 {
			return base / 3
		}
		return base
	}
	return []vfAct{
		{"propose", cw(vfKProp, 6) * prof[0], always, m.stepPropose},
		{"read", cw(vfKRead, 6) * prof[0], always, m.stepRead},
		{"cc", 2 * prof[0], always, m.stepCC},
		{"snap", 2 * prof[0], always, m.stepSnap},
		{"logq", 2 * prof[0], always, m.stepLog},
		{"release", relW * prof[3], func() bool { return len(m.releasable()) > 0 }, m.stepRelease},
		{"lazyrecv", 2, func() bool { return len(m.lazyParked()) > 0 }, m.stepLazyReceive},
		{"pget", (2 + 5*pq) * prof[1], always, m.stepPropGet},
		{"pdropped", 1 * inRaft * prof[1], func() bool { return has(func(w *vfWProp) bool { return !w.committed }) }, m.stepPropDropped},
		{"pcommitted", 6 * inRaft * prof[1], func() bool {
			return m.notifyCommit && has(func(w *vfWProp) bool { return !w.committed })
		}, m.stepPropCommitted},
		{"papplied", 6 * inRaft * prof[1], func() bool {
			return has(func(w *vfWProp) bool { return !m.notifyCommit || w.committed })
		}, m.stepPropApplied},
		{"pforeign", 1, func() bool { return len(m.openOf(vfKProp)) > 0 }, m.stepPropForeign},
		{"rget", (2 + 5*rq) * prof[1], func() bool { return !m.readTakenSet }, m.stepReadGet},
		{"radd", 16 * prof[1], func() bool { return m.readTakenSet }, m.stepReadAdd},
		{"rready", 6 * notReady * prof[1], func() bool { return notReady > 0 }, m.stepReadReady},
		{"rdropped", 1 * prof[1], func() bool { return notReady > 0 }, m.stepReadDropped},
		{"rapplied", (2 + 6*ready) * prof[1], always, m.stepReadApplied},
		{"cctake", (1 + 5*len(m.n.configChangeC)) * prof[1], func() bool { return !m.ccNil }, m.stepCCTake},
		{"ccdropped", 1 * prof[1], func() bool { return hasCC(func(w *vfWKey) bool { return !w.committed }) }, m.stepCCDropped},
		{"cccommitted", 6 * prof[1], func() bool {
			return m.notifyCommit && hasCC(func(w *vfWKey) bool { return !w.committed })
		}, m.stepCCCommitted},
		{"ccapply", 6 * prof[1], func() bool {
			return hasCC(func(w *vfWKey) bool { return !m.notifyCommit || w.committed })
		}, m.stepCCApply},
		{"snaptake", (1 + 5*len(m.n.snapshotC)) * prof[1], always, m.stepSnapTake},
		{"snapapply", 6 * prof[1], func() bool { return len(m.snapTaken) > 0 }, m.stepSnapApply},
		{"logget", 3 * prof[1], func() bool { return m.logSeen == nil }, m.stepLogGet},
		{"logreturned", 8 * prof[1], func() bool { return m.logSeen != nil }, m.stepLogReturned},
		{"tick", 4 * prof[2], always, m.stepTick},
		{"gc", 3 * prof[2], always, m.stepGC},
		{"close", closeW, func() bool { return m.closeStage < 5 }, m.stepCloseNext},
	}
}

var vfProfiles = [][]int{
	// client, worker, clock, release, close
	{3, 3, 2, 2, 1},  // balanced
	{3, 2, 8, 2, 1},  // expiry heavy
	{4, 4, 2, 5, 0},  // release / reuse heavy, closes only at the end
	{3, 3, 1, 2, 10}, // early close
	{2, 5, 2, 2, 2},  // worker heavy
}

func (m *vfModel) runOne(prof []int) {
	acts := m.actions(prof)
	total := 0
	for i := range acts {
		if acts[i].w > 0 && acts[i].ok() {
			total += acts[i].w
		} else {
			acts[i].w = 0
		}
	}
	x := vfhelp.PickN(m.t, "act", total) // uniform: rapid.IntRange is biased towards the range ends
	for i := range acts {
		if acts[i].w == 0 {
			continue
		}
		if x < acts[i].w {
			acts[i].run()
			return
		}
		x -= acts[i].w
	}
}

// finish drives the node to quiescence: the step worker completes the add() it
// owes, the clock moves past every deadline and one expiry pass runs on every
// table, then node.close() completes. Afterwards every accepted request must
// hold exactly one terminal result.
func (m *vfModel) finish() {
	if m.readTakenSet {
		m.stepReadAdd()
	}
	if m.closeStage == 0 && rapid.Bool().Draw(m.t, "drain") {
		m.label("finish-by-expiry")
		m.stepReadGet()
		if m.readTakenSet {
			m.stepReadAdd()
		}
		m.begin("tick")
		m.now += 120
		m.currentTick++
		m.n.ps.tick(m.now)
		m.n.pp.tick(m.now)
		m.n.pr.tick(m.now)
		m.n.pc.tick(m.now)
		m.tracef("tick(far=%d)", m.now)
		m.end()
		m.stepGC()
		m.stepReadApplied()
		for _, e := range m.ledger {
			if e.open() && !e.lost && e.kind != vfKLog {
				m.fail("c12-timeout-missed-"+vfKindName[e.kind], "%v has no result long after its deadline %d (now %d)", e, e.deadline, m.now)
			}
		}
	}
	for m.closeStage < 5 {
		m.stepCloseNext()
	}
	if m.readTakenSet {
		m.stepReadAdd()
	}
	m.begin("final")
	m.end()
	for _, e := range m.ledger {
		if e.open() && !e.lost {
			m.fail("c12-zero-results", "%v never got a result", e)
		}
	}
}

func vfRunPendingCase(t *rapid.T, st *vfhelp.Stats, maxSteps int) {
	notifyCommit := rapid.Bool().Draw(t, "notifyCommit")
	shards := rapid.SampledFrom([]uint64{1, 2, 16}).Draw(t, "tableShards")
	pq := rapid.SampledFrom([]uint64{1, 3, 8, 32}).Draw(t, "proposalQueue")
	rq := rapid.SampledFrom([]uint64{1, 3, 8, 32}).Draw(t, "readQueue")
	seed := rapid.Int64Range(1, 1<<40).Draw(t, "keySeed")
	ct := config.NoCompression
	if rapid.IntRange(0, 5).Draw(t, "snappy") == 0 {
		ct = config.Snappy
	}
	profIdx := vfhelp.PickN(t, "profile", len(vfProfiles))
	m := &vfModel{
		t: t, st: st, notifyCommit: notifyCommit,
		n:      newVFNode(notifyCommit, shards, pq, rq, seed, ct),
		byPtr:  make(map[*RequestState]*vfEnt),
		owner:  make(map[chan RequestResult]*vfEnt),
		cowner: make(map[chan RequestResult]*vfEnt),
		labels: make(map[string]bool),
	}
	for k := range m.byKey {
		m.byKey[k] = make(map[uint64]*vfEnt)
	}
	steps := 10 + vfhelp.PickN(t, "steps", maxSteps-9)
	for i := 0; i < steps; i++ {
		m.runOne(vfProfiles[profIdx])
	}
	m.finish()

	labels := make([]string, 0, len(m.labels)+4)
	for l := range m.labels {
		labels = append(labels, l)
	}
	if notifyCommit {
		labels = append(labels, "notifyCommit-on")
	} else {
		labels = append(labels, "notifyCommit-off")
	}
	labels = append(labels, fmt.Sprintf("profile-%d", profIdx))
	if len(m.ledger) == 0 {
		labels = append(labels, "no-request-accepted")
	}
	canon := fmt.Sprintf("nc=%v sh=%d pq=%d rq=%d | %s", notifyCommit, shards, pq, rq, strings.Join(m.trace, ";"))
	st.Case([]byte(canon), m.nt, labels...)
	st.Count("requests-accepted", len(m.ledger))
	for c, n := range m.results {
		if n > 0 {
			st.Count("results-"+RequestResultCode(c).String(), n)
		}
	}
	if m.nt && st.WantSample() {
		st.Sample(map[string]interface{}{
			"notifyCommit": notifyCommit, "tableShards": shards, "proposalQueue": pq, "readQueue": rq,
			"trace": m.trace, "accepted": len(m.ledger),
		})
	}
}

func TestVF_C12_PendingTables(t *testing.T) {
	// one P: sync.Pool's private slot / shared list behave deterministically, so
	// that whether a released RequestState is reused does not depend on the
	// scheduler
	defer runtime.GOMAXPROCS(runtime.GOMAXPROCS(1))
	logger.GetLogger("dragonboat").SetLevel(logger.CRITICAL)
	st := vfhelp.NewStats("TestVF_C12_PendingTables",
		"generated schedules of client / step-worker / commit-worker / apply-worker / snapshot-worker / tick / gc / close / Release calls on the real pending tables wired as in newNode; every method call is one step. "+
			"non-trivial = a released RequestState was handed out again while another request of the same table was pending, or close() began while a worker-side call sequence was in progress")
	defer st.Flush()
	maxSteps := 120
	if vfhelp.Thorough() {
		maxSteps = 220
	}
	rapid.Check(t, func(t *rapid.T) {
		vfRunPendingCase(t, st, maxSteps)
	})
}
