package dragonboat

// Minimal standalone reproductions (no rapid) of the C12 findings of engine E7.
// They are plain regression tests: each FAILS on a tree that has the defect and
// passes once it is repaired. They are not units of ./check (which must stay
// green through the known-findings list); run them by hand:
//
//   cd /verif && ./check C12 quick            # regenerates build/C12/{go.mod,overlay.json}
//   cd /repo && GOFLAGS=-mod=mod GOPROXY=off GOSUMDB=off GOTOOLCHAIN=local \
//     go test -modfile=/verif/build/C12/go.mod -overlay=/verif/build/C12/overlay.json \
//     -vet=off -run 'TestVFRepro_' -v .

import (
	"testing"

	"github.com/lni/dragonboat/v4/config"
	pb "github.com/lni/dragonboat/v4/raftpb"
)

func vfPoll(rs *RequestState) (RequestResult, bool) {
	select {
	case r := <-rs.CompletedC:
		return r, true
	default:
	}
	return RequestResult{}, false
}

// E7-1 (S5): read -> step worker readIndexQueue.get() -> close() -> add().
func TestVFRepro_C12_ReadIndexAddAfterCloseLosesRequests(t *testing.T) {
	n := newVFNode(false, 16, 16, 16, 1, config.NoCompression)
	rs, err := n.pr.read(100) // client: NodeHost.ReadIndex -> node.read
	if err != nil {
		t.Fatalf("read refused: %v", err)
	}
	reqs := n.readIndexes.get() // step worker, node.handleReadIndex line 1297 (under raftMu)
	if len(reqs) != 1 || reqs[0] != rs {
		t.Fatalf("unexpected queue content")
	}
	n.pr.close()          // NodeHost.stopNode -> node.close() (under nh.mu only)
	ctx := n.pr.nextCtx() // step worker, line 1299
	n.pr.add(ctx, reqs)   // step worker, line 1300: returns silently, p.stopped
	n.pr.tick(1000)       // whatever happens later ...
	n.pr.applied(1000)    // ... nothing refers to the request any more
	n.pr.dropped(ctx)
	if _, ok := vfPoll(rs); !ok {
		t.Fatalf("accepted ReadIndex request never gets a result (expected Terminated): "+
			"pending batches %d, queue length %d", len(n.pr.batches), n.readIndexes.pendingSize())
	}
}

// control: the same schedule with close() AFTER add() terminates the request.
func TestVFRepro_C12_ReadIndexCloseAfterAddTerminates(t *testing.T) {
	n := newVFNode(false, 16, 16, 16, 1, config.NoCompression)
	rs, _ := n.pr.read(100)
	reqs := n.readIndexes.get()
	ctx := n.pr.nextCtx()
	n.pr.add(ctx, reqs)
	n.pr.close()
	r, ok := vfPoll(rs)
	if !ok || !r.Terminated() {
		t.Fatalf("expected Terminated, got %v %v", r.code, ok)
	}
}

// E7-2a: QueryRaftLog accepted after close(): no stopped flag in pendingRaftLogQuery.
func TestVFRepro_C12_LogQueryAcceptedAfterClose(t *testing.T) {
	n := newVFNode(false, 16, 16, 16, 1, config.NoCompression)
	n.pl.close() // node.close() finished
	// a client that loaded the *node from nh.mu.shards just before stopNode
	// deleted it (nodehost.go:1431/1438 take no lock)
	rs, err := n.pl.add(1, 5, 1024)
	if err != nil {
		return // refused: fine
	}
	// the step worker skips stopped nodes (engine.go:1318), log queries have no
	// deadline and close() has already run: nobody will ever notify rs
	if _, ok := vfPoll(rs); !ok {
		t.Fatalf("log query accepted after close() (err=nil) and never terminated")
	}
}

// E7-2b: get() -> close() -> returned() panics in the step worker.
func TestVFRepro_C12_LogQueryReturnedAfterClosePanics(t *testing.T) {
	n := newVFNode(false, 16, 16, 16, 1, config.NoCompression)
	rs, err := n.pl.add(1, 5, 1024)
	if err != nil {
		t.Fatal(err)
	}
	if n.pl.get() != rs { // step worker inside stepNode: node.handleLogQuery
		t.Fatal("get")
	}
	n.pl.close() // stopNode on another goroutine, after engine.go:1318 was passed
	r, ok := vfPoll(rs)
	if !ok || !r.Terminated() {
		t.Fatalf("expected Terminated")
	}
	defer func() {
		if x := recover(); x != nil {
			t.Fatalf("step worker panics in processLogQuery -> returned(): %v", x)
		}
	}()
	// engine.go:1340 node.processLogQuery(ud.LogQueryResult), no lock held
	n.pl.returned(false, LogRange{FirstIndex: 1, LastIndex: 5}, []pb.Entry{{Index: 1}})
}

// E7-2c: get(A) -> close() (A Terminated) -> add(B) accepted -> returned() gives B the result of A.
func TestVFRepro_C12_LogQueryCrosstalkAfterClose(t *testing.T) {
	n := newVFNode(false, 16, 16, 16, 1, config.NoCompression)
	a, _ := n.pl.add(1, 5, 1024)
	_ = n.pl.get()
	n.pl.close()
	if r, ok := vfPoll(a); !ok || !r.Terminated() {
		t.Fatalf("expected A Terminated")
	}
	b, err := n.pl.add(100, 200, 1024)
	if err != nil {
		return
	}
	n.pl.returned(false, LogRange{FirstIndex: 1, LastIndex: 5}, []pb.Entry{{Index: 1}})
	if r, ok := vfPoll(b); ok {
		_, lr := r.RaftLogs()
		t.Fatalf("query B [100,200) received the result computed for query A: range %+v code %s", lr, r.code)
	}
}
