package transport

// The only spot of the C13 frame harness that touches unexported identifiers
// of internal/transport. Everything else goes through exported API
// (NewTCPTransport, NewTCPConnection, NewTCPSnapshotConnection,
// SendMessageBatch, SendChunk) and the documented frame layout, so that the
// check keeps building - and deciding - when helper signatures such as
// readMessage / writeMessage / requestHeader change.
//
// Unexported dependencies:
//   (*TCP).serveConn(net.Conn)   the receive loop, the highest level entry point that takes a connection
//   recvBufSize                  soft setting PerConnectionRecvBufSize (piece size of the read / write loops)
//   payloadBufferSize            size of serveConn's reusable receive buffer (monkey.go sets it to 8 KiB)
//   perConnBufSize               soft setting PerConnectionSendBufSize (reusable send buffer of TCPConnection)

import (
	"bytes"
	"io"
	"net"
	"time"

	"github.com/lni/dragonboat/v4/config"
	"github.com/lni/dragonboat/v4/logger"
	pb "github.com/lni/dragonboat/v4/raftpb"
)

// memConn is an in-memory net.Conn: reads come from rd, writes go to wr.
// Deadlines are accepted and ignored; reading past the data returns io.EOF
// (the peer closed the connection).
type memConn struct {
	rd *bytes.Reader
	wr bytes.Buffer
}

type memAddr struct{}

func (memAddr) Network() string { return "mem" }
func (memAddr) String() string  { return "mem" }

func (c *memConn) Read(b []byte) (int, error) {
	if c.rd == nil {
		return 0, io.EOF
	}
	return c.rd.Read(b)
}
func (c *memConn) Write(b []byte) (int, error)        { return c.wr.Write(b) }
func (c *memConn) Close() error                       { return nil }
func (c *memConn) LocalAddr() net.Addr                { return memAddr{} }
func (c *memConn) RemoteAddr() net.Addr               { return memAddr{} }
func (c *memConn) SetDeadline(t time.Time) error      { return nil }
func (c *memConn) SetReadDeadline(t time.Time) error  { return nil }
func (c *memConn) SetWriteDeadline(t time.Time) error { return nil }

// delivered is what the transport handed to the upper layer.
type delivered struct {
	isChunk bool
	batch   pb.MessageBatch
	chunk   pb.Chunk
}

// vfReceiver is a real TCP transport whose handlers record what is delivered.
type vfReceiver struct {
	tr  *TCP
	got []delivered
}

func newVFReceiver(encrypted bool) *vfReceiver {
	r := &vfReceiver{}
	cfg := config.NodeHostConfig{MutualTLS: encrypted}
	r.tr = NewTCPTransport(cfg,
		func(b pb.MessageBatch) { r.got = append(r.got, delivered{batch: b}) },
		func(c pb.Chunk) bool { r.got = append(r.got, delivered{isChunk: true, chunk: c}); return true },
	).(*TCP)
	return r
}

// serve feeds stream to the real receive loop as the bytes of one connection
// that the peer closes afterwards, and returns what was delivered, what the
// receiver wrote back and the panic value if the loop panicked.
func (r *vfReceiver) serve(stream []byte) (got []delivered, written []byte, panicked interface{}) {
	r.got = nil
	conn := &memConn{rd: bytes.NewReader(stream)}
	func() {
		defer func() { panicked = recover() }()
		r.tr.serveConn(conn)
	}()
	return r.got, conn.wr.Bytes(), panicked
}

type vfBuffers struct{ recv, payload, send uint64 }

func vfGetBuffers() vfBuffers {
	return vfBuffers{recv: recvBufSize, payload: payloadBufferSize, send: perConnBufSize}
}

func vfSetBuffers(b vfBuffers) {
	recvBufSize, payloadBufferSize, perConnBufSize = b.recv, b.payload, b.send
}

func vfQuietLogs() {
	// the receiver logs every rejected frame
	logger.GetLogger("transport").SetLevel(logger.CRITICAL)
}
