package transport

// Engine E5, property C15: snapshot chunk transfer reassembles exactly or
// rejects. Real sender side splitting (splitSnapshotMessage / loadChunkData,
// rsm.ChunkWriter for streamed snapshots, getWitnessChunk), a generated
// perturbation program over the chunk lists, a real transport.Chunk receiver
// over an in-memory file system, and a reference receiver written from the
// property statement as the oracle.

import (
	"sync/atomic"
	"time"
	"bytes"
	"context"
	"fmt"
	"reflect"
	"sort"
	"strings"
	"testing"

	"github.com/lni/dragonboat/v4/internal/fileutil"
	"github.com/lni/dragonboat/v4/internal/rsm"
	"github.com/lni/dragonboat/v4/internal/server"
	"github.com/lni/dragonboat/v4/internal/vfhelp"
	"github.com/lni/dragonboat/v4/internal/vfs"
	"github.com/lni/dragonboat/v4/internal/vfx/snapio"
	"github.com/lni/dragonboat/v4/raftio"
	pb "github.com/lni/dragonboat/v4/raftpb"
	"pgregory.net/rapid"
)

const (
	vfDid = uint64(7)

	vfSigS4       = "c15-rejected-first-chunk-removes-live-stream-dir-then-panics"
	vfSigExtFile  = "c15-corrupt-external-file-chunk-finalized"
	vfSigAfterRej = "c15-finalized-after-rejected-main-file-chunk"
)

// ---------------------------------------------------------------------------
// streams (what the sender side produces)

type vfExt struct {
	id   uint64
	data []byte
	meta []byte
}

type vfStream struct {
	n          int
	mode       string // file | stream | witness
	shard      uint64
	to         uint64
	from       uint64
	index      uint64
	term       uint64
	onDisk     uint64
	membership pb.Membership
	mainBytes  []byte
	mainName   string
	exts       []vfExt
	chunks     []pb.Chunk
	firstSize  uint64 // FileSize announced by chunk 0
	mainChunks int
	recLen     int
	bigMain    bool
	lag        bool // streamed over a slow connection (see vfBuildStream)
}

func (s *vfStream) key() string {
	return fmt.Sprintf("%d:%d:%d", s.shard, s.to, s.index)
}

func (s *vfStream) desc() string {
	ex := make([]int, 0, len(s.exts))
	for _, e := range s.exts {
		ex = append(ex, len(e.data))
	}
	return fmt.Sprintf("s%d{%s key=%s from=%d main=%dB exts=%v chunks=%d}", s.n, s.mode, s.key(), s.from, len(s.mainBytes), ex, len(s.chunks))
}

func vfDir(fs vfs.IFS) server.SnapshotDirFunc {
	return func(shard uint64, replica uint64) string {
		return fs.PathJoin("/nh", "host", "00000000000000000007", fmt.Sprintf("snapshot-part-%d", shard%3),
			fmt.Sprintf("snapshot-%d-%d", shard, replica))
	}
}

// vfBuildStream produces the source files on the sender's file system and
// splits them with the real sender code.
func vfBuildStream(t vfhelp.TB, sfs vfs.IFS, s *vfStream, payload snapio.Payload, compressed bool, writeCuts []int, extSizes []int) {
	ct := pb.NoCompression
	if compressed {
		ct = pb.Snappy
	}
	srcDir := sfs.PathJoin("/src", fmt.Sprintf("s%d", s.n), server.GetSnapshotDirName(s.index))
	if err := sfs.MkdirAll(srcDir, 0o755); err != nil {
		t.Fatalf("mkdir %v", err)
	}
	pbytes := payload.Bytes()
	switch s.mode {
	case "file", "witness":
		fp := sfs.PathJoin(srcDir, server.GetSnapshotFilename(s.index))
		sv, err := snapio.SaveFile(sfs, fp, rsm.NewSnapshotWriter, ct, rsm.GetEmptyLRUSession(), snapio.Segments(pbytes, writeCuts))
		if err != nil {
			t.Fatalf("save %v", err)
		}
		main, err := snapio.ReadFile(sfs, fp)
		if err != nil {
			t.Fatalf("read %v", err)
		}
		m := pb.Message{Type: pb.InstallSnapshot, ShardID: s.shard, From: s.from, To: s.to}
		m.Snapshot = pb.Snapshot{Filepath: fp, FileSize: sv.FileSize, Index: s.index, Term: s.term, OnDiskIndex: s.onDisk,
			Membership: s.membership, Checksum: sv.Checksum, Witness: s.mode == "witness"}
		if s.mode == "file" {
			for i, sz := range extSizes {
				e := vfExt{id: uint64(i*3 + 1), meta: []byte{byte(i), 0xEE}}
				e.data = snapio.Payload{Kind: 2, Seed: payload.Seed + uint64(i) + 1, Len: sz}.Bytes()
				efp := sfs.PathJoin(srcDir, fmt.Sprintf("external-file-%d", e.id))
				if err := snapio.WriteFile(sfs, efp, e.data); err != nil {
					t.Fatalf("write %v", err)
				}
				m.Snapshot.Files = append(m.Snapshot.Files, &pb.SnapshotFile{Filepath: efp, FileSize: uint64(sz), FileId: e.id, Metadata: e.meta})
				s.exts = append(s.exts, e)
			}
		}
		// as Transport.doSendSnapshot does: split, hand the chunks to a job, let the
		// job load the data of each chunk and send it over the connection
		chunks, err := splitSnapshotMessage(m, sfs)
		if err != nil {
			t.Fatalf("split %v", err)
		}
		conn := &vfConn{}
		j := newJob(context.Background(), s.shard, s.to, vfDid, false, len(chunks), &vfTrans{conn: conn}, make(chan struct{}), sfs)
		if err := j.connect("receiver"); err != nil {
			t.Fatalf("connect %v", err)
		}
		j.addSnapshot(chunks)
		if err := j.process(); err != nil {
			t.Fatalf("job.process %v", err)
		}
		j.close()
		if len(conn.chunks) != len(chunks) || !conn.closed {
			t.Fatalf("job sent %d of %d chunks (closed %v)", len(conn.chunks), len(chunks), conn.closed)
		}
		chunks = conn.chunks
		s.chunks = chunks
		if s.mode == "witness" {
			s.mainBytes = append([]byte{}, chunks[0].Data...)
			s.mainName = "witness.snapshot"
			s.exts = nil
			s.onDisk = 0 // getWitnessChunk always announces on-disk index 0
		} else {
			s.mainBytes = main
			s.mainName = server.GetSnapshotFilename(s.index)
		}
	case "stream":
		// as Transport.GetStreamSink + snapshotter.Stream do: a streaming job fed
		// through its Sink by rsm.ChunkWriter, sending over the connection
		conn := &vfConn{}
		if s.lag {
			// a slow connection: nothing is serialised before the state machine has written
			// its whole image (the streaming job queues up to 4 chunks, one more is in flight)
			conn.gate = make(chan struct{})
		}
		j := newJob(context.Background(), s.shard, s.to, vfDid, true, 0, &vfTrans{conn: conn}, make(chan struct{}), sfs)
		if err := j.connect("receiver"); err != nil {
			t.Fatalf("connect %v", err)
		}
		done := make(chan error, 1)
		go func() { done <- j.process() }()
		sink := &vfSink{Sink: &Sink{j: j}}
		meta := rsm.SSMeta{From: s.from, Index: s.index, Term: s.term, OnDiskIndex: s.onDisk, Membership: s.membership, CompressionType: ct}
		var serr error
		if conn.gate != nil {
			wdone := make(chan struct{})
			go func() {
				serr = snapio.StreamTo(sink, meta, snapio.Segments(pbytes, writeCuts))
				close(wdone)
			}()
			// the connection stays blocked until the writer is done or the queue is full
			// (4 queued chunks + the one in flight: the writer would wait for the connection)
			for deadline := time.Now().Add(5 * time.Second); time.Now().Before(deadline); {
				select {
				case <-wdone:
					deadline = time.Now()
				default:
					if atomic.LoadInt32(&sink.received) >= 5 {
						deadline = time.Now()
					} else {
						time.Sleep(200 * time.Microsecond)
					}
				}
			}
			close(conn.gate)
			<-wdone
		} else {
			serr = snapio.StreamTo(sink, meta, snapio.Segments(pbytes, writeCuts))
		}
		perr := <-done
		j.close()
		if serr != nil || perr != nil {
			t.Fatalf("streaming failed: %v %v", serr, perr)
		}
		for i := range conn.chunks {
			s.mainBytes = append(s.mainBytes, conn.chunks[i].Data...)
		}
		if n := len(conn.chunks); n < 3 || conn.chunks[n-1].ChunkCount != pb.LastChunkCount {
			t.Fatalf("streaming job sent %d chunks", n)
		}
		s.chunks = conn.chunks
		s.mainName = server.GetSnapshotFilename(s.index)
	}
	s.firstSize = s.chunks[0].FileSize
	for _, c := range s.chunks {
		if !c.HasFileInfo {
			s.mainChunks++
		}
	}
	s.recLen = snapio.ParseLayout(s.mainBytes, true).RecLen
	s.bigMain = len(s.mainBytes) > 2*(snapio.BlockSize+snapio.CRCSize)+snapio.HeaderSize
}

// vfConn is the recording raftio.ISnapshotConnection of the sender side.
type vfConn struct {
	chunks []pb.Chunk
	closed bool
	gate   chan struct{}
}

func (c *vfConn) Close() { c.closed = true }

func (c *vfConn) SendChunk(chunk pb.Chunk) error {
	if c.gate != nil {
		<-c.gate
	}
	// a real connection serialises the chunk before the next one is prepared
	// (job.sendChunks reuses one data buffer)
	chunk.Data = append([]byte{}, chunk.Data...)
	c.chunks = append(c.chunks, chunk)
	return nil
}

type vfTrans struct{ conn *vfConn }

func (t *vfTrans) Name() string { return "vf" }
func (t *vfTrans) Start() error { return nil }
func (t *vfTrans) Close() error { return nil }
func (t *vfTrans) GetConnection(ctx context.Context, target string) (raftio.IConnection, error) {
	return nil, fmt.Errorf("not used")
}
func (t *vfTrans) GetSnapshotConnection(ctx context.Context, target string) (raftio.ISnapshotConnection, error) {
	return t.conn, nil
}

// vfSink wraps the real Sink (pb.IChunkSink of a streaming job) and counts the
// chunks handed to it.
type vfSink struct {
	*Sink
	received int32
}

func (s *vfSink) Receive(c pb.Chunk) (bool, bool) {
	atomic.AddInt32(&s.received, 1)
	return s.Sink.Receive(c)
}

// ---------------------------------------------------------------------------
// the reference receiver (written from the property statement)

type vfTracked struct {
	s         *vfStream
	from      uint64
	start     uint64 // tick at which the first chunk was accepted
	next      uint64
	tick      uint64
	valid     bool // every accepted chunk so far is what the sender produced
	badMain   bool // an altered main file chunk was accepted in order
	badExt    bool // an altered external file chunk was accepted in order
	rejected  bool // the receiver refused an in-order chunk of this stream
	removed   bool // the replica was marked removed while the stream was live
	maybeGone bool // a rejected corrupt first chunk arrived for this key (either no effect or restart)
	accepted  int
}

type vfModel struct {
	tick      uint64
	gcTick    uint64
	timeout   uint64
	tracked   map[string]*vfTracked
	finalized map[string]*vfStream
	removed   map[string]bool
	order     []string // keys in finalization order
}

func (m *vfModel) doTick() {
	m.tick++
	if m.tick%m.gcTick == 0 {
		for k, tr := range m.tracked {
			if m.tick-tr.tick >= m.timeout {
				delete(m.tracked, k)
			}
		}
	}
}

type vfDelivery struct {
	s        *vfStream
	id       int
	chunk    pb.Chunk
	wrongDid bool
	wrongBin bool
	foreign  bool
	corrupt  string // "" when the data is what the sender produced
	renamed  bool   // hostile directory components, same base name
	what     string
}

// expectation of the model for the boolean result of Add
const (
	vfExpectFalse = iota
	vfExpectTrue
	vfExpectAny
)

type vfVerdict struct {
	longSteady bool
	expect   int
	finalize bool
	zombie   bool // an in-order chunk of a stream whose key saw a rejected corrupt first chunk
	inOrder  bool
	tr       *vfTracked
	note     string
}

func rootKey(s *vfStream) string { return fmt.Sprintf("%d:%d", s.shard, s.to) }

// step advances the model before the result of Add is known.
func (m *vfModel) step(d vfDelivery) vfVerdict {
	if d.wrongDid || d.wrongBin {
		return vfVerdict{expect: vfExpectFalse, note: "wrong deployment id / bin version"}
	}
	key := d.s.key()
	tr := m.tracked[key]
	pristine := d.corrupt == ""
	if d.id == 0 {
		if !pristine {
			// a corrupt first chunk: either refused at once (then without effect, or
			// dropping the old stream) or accepted and doomed; resolved by the result
			return vfVerdict{expect: vfExpectAny, tr: tr, note: "corrupt first chunk"}
		}
		ntr := &vfTracked{s: d.s, from: d.chunk.From, next: 1, tick: m.tick, start: m.tick, valid: true, accepted: 1}
		m.tracked[key] = ntr
		if d.foreign {
			ntr.valid = false
			ntr.badMain = true
		}
		if m.removed[rootKey(d.s)] {
			ntr.removed = true
			return vfVerdict{expect: vfExpectFalse, tr: ntr, inOrder: true, note: "first chunk for a removed replica"}
		}
		if d.chunk.IsLastChunk() {
			return m.last(key, ntr)
		}
		return vfVerdict{expect: vfExpectTrue, tr: ntr, inOrder: true}
	}
	if tr == nil || tr.next != uint64(d.id) || tr.from != d.chunk.From {
		return vfVerdict{expect: vfExpectFalse, note: "not the next expected chunk of a tracked stream from its sender"}
	}
	// chunks of two streams with the same key and the same sender cannot be told apart
	if tr.s != d.s {
		pristine = false
	}
	v := vfVerdict{tr: tr, inOrder: true, zombie: tr.maybeGone}
	tr.next++
	tr.tick = m.tick
	tr.accepted++
	if m.removed[rootKey(d.s)] {
		tr.removed = true
		v.expect = vfExpectFalse
		v.note = "replica removed"
		return v
	}
	if !pristine {
		tr.valid = false
		if d.chunk.HasFileInfo {
			tr.badExt = true
		} else {
			tr.badMain = true
		}
	}
	if d.chunk.IsLastChunk() {
		lv := m.last(key, tr)
		lv.zombie = v.zombie
		return lv
	}
	switch {
	case tr.removed:
		v.expect = vfExpectAny
	case tr.valid && !tr.rejected:
		v.expect = vfExpectTrue
	default:
		v.expect = vfExpectAny
	}
	return v
}

func (m *vfModel) last(key string, tr *vfTracked) vfVerdict {
	v := vfVerdict{tr: tr, inOrder: true}
	delete(m.tracked, key)
	if tr.removed {
		v.expect = vfExpectAny
		return v
	}
	if !tr.valid || tr.rejected {
		v.expect = vfExpectAny // must not finalize; checked by the caller
		return v
	}
	if _, ok := m.finalized[key]; ok {
		v.expect = vfExpectFalse
		v.note = "final directory already exists: out of date"
		return v
	}
	m.finalized[key] = tr.s
	m.order = append(m.order, key)
	v.expect = vfExpectTrue
	v.finalize = true
	// a stream that took at least timeout+gc-interval ticks in total although no
	// gap between two of its chunks reached the timeout (otherwise the collector
	// would have dropped it): at least one collector run saw it older than the
	// timeout while it was still in flight
	v.longSteady = tr.accepted >= 2 && m.tick-tr.start >= m.timeout+m.gcTick
	return v
}

// ---------------------------------------------------------------------------
// the receiver under test

type vfReceiver struct {
	fs       vfs.IFS
	chunks   *Chunk
	msgs     []pb.MessageBatch
	confirms [][3]uint64
}

func vfNewReceiver(fs vfs.IFS) *vfReceiver {
	r := &vfReceiver{fs: fs}
	r.chunks = NewChunk(func(mb pb.MessageBatch) { r.msgs = append(r.msgs, mb) },
		func(shard uint64, replica uint64, from uint64) { r.confirms = append(r.confirms, [3]uint64{shard, replica, from}) },
		vfDir(fs), vfDid, fs)
	return r
}

func (r *vfReceiver) add(c pb.Chunk) (ok bool, pv interface{}) {
	defer func() {
		if p := recover(); p != nil {
			pv = p
		}
	}()
	return r.chunks.Add(c), nil
}

// vfScan lists the files and directories of the receiver's file system.
func vfScan(fs vfs.IFS) (files []string, dirs []string) {
	var walk func(dir string)
	walk = func(dir string) {
		names, err := fs.List(dir)
		if err != nil {
			panic(err)
		}
		for _, n := range names {
			p := fs.PathJoin(dir, n)
			fi, err := fs.Stat(p)
			if err != nil {
				panic(err)
			}
			if fi.IsDir() {
				dirs = append(dirs, p)
				walk(p)
			} else {
				files = append(files, p)
			}
		}
	}
	walk("/")
	sort.Strings(files)
	sort.Strings(dirs)
	return
}

// ---------------------------------------------------------------------------
// generation

type vfCase struct {
	chunkSize uint64
	gcTick    uint64
	timeout   uint64
	streams   []*vfStream
	rel       []string
}

func vfGenMembership(t *rapid.T, lbl string) pb.Membership {
	m := pb.Membership{ConfigChangeId: rapid.Uint64Range(1, 50).Draw(t, lbl+"ccid"), Addresses: map[uint64]string{}}
	n := rapid.IntRange(1, 3).Draw(t, lbl+"nmembers")
	for i := 1; i <= n; i++ {
		m.Addresses[uint64(i)] = fmt.Sprintf("host%d:%d", i, 1000+i)
	}
	if rapid.Bool().Draw(t, lbl+"hasremoved") {
		m.Removed = map[uint64]bool{9: true}
	}
	return m
}

func vfGenCase(t *rapid.T) vfCase {
	c := vfCase{}
	c.gcTick = rapid.Uint64Range(1, 4).Draw(t, "gctick")
	c.timeout = rapid.SampledFrom([]uint64{1, 2, 2, 3, 3, 4, 5, 6}).Draw(t, "timeout")
	big := rapid.IntRange(0, 9).Draw(t, "bigcase") == 0
	if big {
		c.chunkSize = rapid.SampledFrom([]uint64{1 << 20, 2 << 20, 2<<20 + 4, 3 << 19}).Draw(t, "chunksize")
	} else {
		c.chunkSize = rapid.SampledFrom([]uint64{1024, 1024, 1025, 1500, 2048, 4096, 16384}).Draw(t, "chunksize")
	}
	n := rapid.SampledFrom([]int{1, 1, 2, 2, 2, 3}).Draw(t, "nstreams")
	for i := 0; i < n; i++ {
		lbl := fmt.Sprintf("s%d-", i)
		s := &vfStream{n: i}
		s.mode = rapid.SampledFrom([]string{"file", "file", "file", "stream", "stream", "witness"}).Draw(t, lbl+"mode")
		rel := "first"
		if i > 0 {
			rel = rapid.SampledFrom([]string{"same-key-other-sender", "same-key-other-sender", "other-index", "other-replica", "other-shard"}).Draw(t, lbl+"rel")
		}
		base := c.streams
		switch rel {
		case "first":
			s.shard = rapid.Uint64Range(1, 5).Draw(t, lbl+"shard")
			s.to = rapid.Uint64Range(1, 3).Draw(t, lbl+"to")
			s.from = rapid.Uint64Range(4, 6).Draw(t, lbl+"from")
			s.index = rapid.OneOf(rapid.Uint64Range(1, 300), rapid.SampledFrom([]uint64{1<<32 + 5, 1<<63 + 1})).Draw(t, lbl+"index")
		case "same-key-other-sender":
			o := base[rapid.IntRange(0, len(base)-1).Draw(t, lbl+"of")]
			s.shard, s.to, s.index = o.shard, o.to, o.index
			s.from = o.from + 3 + uint64(i)
		case "other-index":
			o := base[rapid.IntRange(0, len(base)-1).Draw(t, lbl+"of")]
			s.shard, s.to, s.from = o.shard, o.to, o.from
			s.index = o.index + uint64(i)*1000 + rapid.Uint64Range(1, 5).Draw(t, lbl+"dindex")
		case "other-replica":
			o := base[rapid.IntRange(0, len(base)-1).Draw(t, lbl+"of")]
			s.shard, s.index, s.from = o.shard, o.index, o.from
			s.to = o.to + 10*uint64(i)
		default:
			o := base[rapid.IntRange(0, len(base)-1).Draw(t, lbl+"of")]
			s.to, s.index, s.from = o.to, o.index, o.from
			s.shard = o.shard + 10*uint64(i)
		}
		c.rel = append(c.rel, rel)
		s.term = rapid.Uint64Range(1, 9).Draw(t, lbl+"term")
		s.onDisk = rapid.Uint64Range(0, 3).Draw(t, lbl+"ondisk")
		s.membership = vfGenMembership(t, lbl)
		c.streams = append(c.streams, s)
	}
	return c
}

func vfGenContent(t *rapid.T, c vfCase, s *vfStream, sfs vfs.IFS, big bool) {
	lbl := fmt.Sprintf("s%d-", s.n)
	p := snapio.Payload{Kind: rapid.SampledFrom([]int{0, 1, 2, 2}).Draw(t, lbl+"paykind"), Seed: rapid.Uint64().Draw(t, lbl+"seed")}
	cs := int(c.chunkSize)
	switch {
	case s.mode == "witness":
		p.Len = 0
	case big:
		// at least two full 2 MiB blocks plus a partial one: the validator checks
		// a block inside AddChunk only once two full blocks are buffered
		p.Len = 2*snapio.BlockSize + rapid.SampledFrom([]int{-16, 1, 100, 4096, snapio.BlockSize / 2}).Draw(t, lbl+"bigextra")
	case s.mode == "stream" && rapid.IntRange(0, 7).Draw(t, lbl+"hugestream") == 0:
		// three full blocks and a partial one: chunks 1 and 2 are consecutive full size
		// chunks; with a slow connection both are queued when the writer finishes
		p.Len = 3*snapio.BlockSize + rapid.SampledFrom([]int{1, 100, 4096}).Draw(t, lbl+"hugeextra") - 16
		s.lag = rapid.Bool().Draw(t, lbl+"lag")
	case s.mode == "stream":
		p.Len = rapid.OneOf(rapid.IntRange(0, 3000), rapid.IntRange(0, 3000), rapid.SampledFrom([]int{snapio.BlockSize - 16, snapio.BlockSize - 15, snapio.BlockSize + 100})).Draw(t, lbl+"len")
	default:
		p.Len = rapid.OneOf(rapid.IntRange(0, 200), rapid.IntRange(0, 6*cs),
			rapid.SampledFrom([]int{cs - snapio.HeaderSize - 36, 2*cs - snapio.HeaderSize - 36, 2*cs - snapio.HeaderSize - 35, 3 * cs})).Draw(t, lbl+"len")
		if p.Len < 0 {
			p.Len = 0
		}
		if cs >= 1<<20 && p.Len > 3000 {
			p.Len = p.Len % 3000
		}
	}
	compressed := rapid.IntRange(0, 3).Draw(t, lbl+"compressed") == 0
	var extSizes []int
	if s.mode == "file" {
		ne := rapid.SampledFrom([]int{0, 0, 1, 1, 2, 3}).Draw(t, lbl+"next")
		for i := 0; i < ne; i++ {
			var sz int
			if cs >= 1<<20 {
				sz = rapid.OneOf(rapid.IntRange(1, 5000), rapid.SampledFrom([]int{cs - 1, cs, cs + 1})).Draw(t, lbl+"extsize")
			} else {
				sz = rapid.OneOf(rapid.IntRange(1, 300), rapid.IntRange(1, 3*cs),
					rapid.SampledFrom([]int{1, cs - 1, cs, cs + 1, 2 * cs, 2*cs + 3})).Draw(t, lbl+"extsize")
			}
			extSizes = append(extSizes, sz)
		}
	}
	cuts := snapio.GenCuts(t, lbl+"w", p.Len, nil)
	vfBuildStream(t, sfs, s, p, compressed, cuts, extSizes)
}

// corruptions of the data of a chunk; main file chunks are only altered in
// bytes that a checksum covers (header length and CRC slot, blocks, tail)
func vfCorrupt(t *rapid.T, lbl string, s *vfStream, id int, c pb.Chunk) (pb.Chunk, string) {
	data := append([]byte{}, c.Data...)
	kind := rapid.SampledFrom([]string{"flip", "flip", "flip", "truncate", "extend", "empty"}).Draw(t, lbl+"ckind")
	if len(data) == 0 {
		kind = "extend"
	}
	switch kind {
	case "flip":
		lo, hi := 0, len(data)-1
		if !c.HasFileInfo && id == 0 {
			// first chunk of the main file: header length, CRC slot or payload
			switch rapid.IntRange(0, 2).Draw(t, lbl+"cregion") {
			case 0:
				// higher bytes of the length: always refused; the lowest byte may run
				// into the all-zero CRC escape and panic in the header unmarshaller
				lo, hi = 1, 7
				if rapid.IntRange(0, 3).Draw(t, lbl+"clow") == 0 {
					lo, hi = 0, 0
				}
				kind = "flip-header-len"
			case 1:
				lo, hi = 8+s.recLen, 11+s.recLen
				kind = "flip-header-crcslot"
			default:
				lo = snapio.HeaderSize
				kind = "flip-payload"
			}
			if lo > hi || hi >= len(data) {
				lo, hi = snapio.HeaderSize, len(data)-1
				kind = "flip-payload"
			}
			if lo > hi {
				// the first chunk holds nothing but the header
				lo, hi = 0, 0
				kind = "flip-header-len"
			}
		}
		off := rapid.IntRange(lo, hi).Draw(t, lbl+"coff")
		data[off] ^= 1 << uint(rapid.IntRange(0, 7).Draw(t, lbl+"cbit"))
	case "truncate":
		k := rapid.IntRange(1, vfMin(len(data), 40)).Draw(t, lbl+"ck")
		if !c.HasFileInfo && id == 0 && rapid.IntRange(0, 7).Draw(t, lbl+"cshort") == 0 {
			k = len(data) - rapid.IntRange(0, snapio.HeaderSize-1).Draw(t, lbl+"ckeep")
			kind = "truncate-below-header"
		}
		if k > len(data) {
			k = len(data)
		}
		data = data[:len(data)-k]
	case "extend":
		data = append(data, bytes.Repeat([]byte{0x5A}, rapid.IntRange(1, 20).Draw(t, lbl+"ck"))...)
	case "empty":
		if !c.HasFileInfo && id == 0 && rapid.IntRange(0, 3).Draw(t, lbl+"cempty") != 0 {
			data = data[:len(data)-1]
			kind = "truncate"
			if len(data) < snapio.HeaderSize {
				kind = "truncate-below-header"
			}
			break
		}
		data = nil
		if !c.HasFileInfo && id == 0 {
			kind = "truncate-below-header"
		}
	}
	c.Data = data
	return c, kind
}

func vfMin(a, b int) int {
	if a < b {
		return a
	}
	return b
}

// ---------------------------------------------------------------------------
// the property

type vfRun struct {
	t        *rapid.T
	st       *vfhelp.Stats
	c        vfCase
	rfs      vfs.IFS
	recv     *vfReceiver
	model    *vfModel
	cursor   []int
	log      []string
	labels   map[string]bool
	died     bool
	hitLater bool // a perturbation hit a chunk other than the first
	finished map[string]bool
	// confirmations raised by finalizations tolerated as known findings
	tolConfirms map[[3]uint64]int
}

func (r *vfRun) label(l string) { r.labels[l] = true }

func (r *vfRun) fail(sig string, format string, args ...interface{}) {
	vfhelp.Fail(r.t, sig, "%s\ncase: chunkSize=%d gc=%d timeout=%d streams=%s\ntrace:\n  %s", fmt.Sprintf(format, args...),
		r.c.chunkSize, r.c.gcTick, r.c.timeout, r.streams(), strings.Join(r.log, "\n  "))
}

func (r *vfRun) known(sig string, format string, args ...interface{}) {
	r.st.Known(r.t, sig, "%s\ncase: chunkSize=%d gc=%d timeout=%d streams=%s\ntrace:\n  %s", fmt.Sprintf(format, args...),
		r.c.chunkSize, r.c.gcTick, r.c.timeout, r.streams(), strings.Join(r.log, "\n  "))
}

func (r *vfRun) streams() string {
	var out []string
	for _, s := range r.c.streams {
		out = append(out, s.desc())
	}
	return strings.Join(out, " ")
}

func (r *vfRun) finalDirOf(s *vfStream) string {
	return r.rfs.PathJoin(vfDir(r.rfs)(s.shard, s.to), server.GetSnapshotDirName(s.index))
}

func (r *vfRun) deliver(d vfDelivery) {
	if r.died {
		return
	}
	nmsgs := len(r.recv.msgs)
	v := r.model.step(d)
	ok, pv := r.recv.add(d.chunk)
	r.log = append(r.log, fmt.Sprintf("add s%d#%d %s -> %v panic=%v (model expect=%d finalize=%v %s)", d.s.n, d.id, d.what, ok, pv != nil, v.expect, v.finalize, v.note))
	if pv != nil {
		// a panic of the receiver kills the process: the case ends here
		r.died = true
		r.label("receiver-panicked")
		if v.finalize {
			// the reference receiver would have finalized with this chunk
			delete(r.model.finalized, d.s.key())
			r.model.order = r.model.order[:len(r.model.order)-1]
		}
		switch {
		case v.zombie && d.corrupt == "":
			r.label("panic:s4")
			r.known(vfSigS4, "in-order chunk %d of the live stream s%d panics the receiver after a refused corrupt first chunk for the same key: %v", d.id, d.s.n, pv)
		case d.corrupt != "" && v.zombie:
			r.label("panic:s4-shape-on-corrupt-chunk")
		case d.corrupt != "":
			// fail-stop on a corrupt chunk: recorded, not a violation by itself
			r.label("panic:on-corrupt-chunk/" + d.corrupt)
		default:
			r.fail("c15-add-panics", "Add panicked on a chunk the sender produced: %v", pv)
		}
		return
	}
	// resolve the nondeterministic cases of the model by the observed result
	if d.id == 0 && d.corrupt != "" && !d.wrongDid && !d.wrongBin {
		key := d.s.key()
		if ok {
			ntr := &vfTracked{s: d.s, from: d.chunk.From, next: 1, tick: r.model.tick, start: r.model.tick, valid: false, badMain: true, accepted: 1}
			r.model.tracked[key] = ntr
			if d.chunk.IsLastChunk() {
				delete(r.model.tracked, key)
			}
			r.label("corrupt-first-chunk:accepted-doomed")
		} else {
			if v.tr != nil {
				v.tr.maybeGone = true
				r.label("corrupt-first-chunk:refused-while-stream-live")
			} else {
				r.label("corrupt-first-chunk:refused")
			}
		}
	}
	if v.zombie && v.inOrder && d.corrupt == "" {
		// after a refused corrupt first chunk the old stream either goes on or was dropped
		if !ok {
			// restart semantics: the corrupt first chunk replaced the old stream
			delete(r.model.tracked, d.s.key())
			v.expect = vfExpectAny
			if v.finalize {
				delete(r.model.finalized, d.s.key())
				r.model.order = r.model.order[:len(r.model.order)-1]
				v.finalize = false
			}
			r.label("live-stream-dropped-by-corrupt-first-chunk")
		}
		v.tr.maybeGone = false
	}
	if v.inOrder && v.tr != nil && !ok && v.expect != vfExpectFalse && !v.tr.removed {
		if d.corrupt != "" || !v.tr.valid {
			v.tr.rejected = true
		}
	}
	switch v.expect {
	case vfExpectTrue:
		if !ok {
			r.fail("c15-chunk-wrongly-refused", "Add returned false for s%d chunk %d (%s), the reference receiver accepts it", d.s.n, d.id, d.what)
		}
	case vfExpectFalse:
		if ok {
			r.fail("c15-chunk-wrongly-accepted", "Add returned true for s%d chunk %d (%s), the reference receiver ignores it: %s", d.s.n, d.id, d.what, v.note)
		}
	}
	got := len(r.recv.msgs) - nmsgs
	switch {
	case v.finalize && got != 1:
		r.fail("c15-complete-stream-not-finalized", "the complete valid sequence of s%d was delivered but %d InstallSnapshot notifications were raised", d.s.n, got)
	case !v.finalize && got != 0:
		tr := v.tr
		switch {
		case tr != nil && tr.badExt && !tr.badMain && !tr.rejected:
			r.label("known:corrupt-external-file-finalized")
			r.known(vfSigExtFile, "s%d finalized although an external file chunk was altered in transit (external files carry no checksum)", d.s.n)
		case tr != nil && tr.rejected:
			r.label("known:finalized-after-rejected-chunk")
			r.known(vfSigAfterRej, "s%d finalized although the receiver had refused one of its in-order chunks", d.s.n)
		default:
			r.fail("c15-invalid-stream-finalized", "s%d chunk %d (%s) raised an InstallSnapshot notification, the reference receiver does not finalize (%s)", d.s.n, d.id, d.what, v.note)
		}
		// the directory now exists: later streams for the key are out of date
		if _, ok := r.model.finalized[d.s.key()]; !ok {
			r.model.finalized[d.s.key()] = nil
		}
		r.tolConfirms[[3]uint64{d.s.shard, d.s.to, d.chunk.From}]++
	}
	if v.finalize {
		r.finished[d.s.key()] = true
		if v.longSteady {
			r.label("stream-longer-than-timeout-every-gap-below-it:finalized")
			r.st.Count("long-steady-streams-finalized", 1)
			if !r.labels["op:steady"] && !r.labels["slow-retransmission"] {
				// reachable with the plain tick operation alone (the only source before
				// the steady operation and the slow retransmission existed)
				r.label("stream-longer-than-timeout-every-gap-below-it:by-plain-tick-ops-only")
			}
		}
	}
}

func (r *vfRun) pristine(s *vfStream, id int) vfDelivery {
	return vfDelivery{s: s, id: id, chunk: s.chunks[id], what: "pristine"}
}

func (r *vfRun) tick(n int) {
	if r.died {
		return
	}
	for i := 0; i < n; i++ {
		r.recv.chunks.Tick()
		r.model.doTick()
	}
	r.log = append(r.log, fmt.Sprintf("tick x%d (now %d)", n, r.model.tick))
}

var vfHostileDirs = []string{"../../", "/", "/etc/", "a/b/", "../", "./", "/nh/host/", "..//x/../"}

func (r *vfRun) op(i int) {
	t := r.t
	lbl := fmt.Sprintf("op%d-", i)
	kind := rapid.SampledFrom([]string{"deliver", "deliver", "deliver", "deliver", "deliver", "deliver", "finish", "finish",
		"drop", "swap", "dup", "corrupt", "corrupt", "corrupt-then-finish", "corrupt-then-finish", "corrupt-first", "restart", "wrongdid", "wrongbin", "foreign", "markremoved",
		"tick", "tick", "steady", "steady", "rename"}).Draw(t, lbl+"kind")
	s := r.c.streams[rapid.IntRange(0, len(r.c.streams)-1).Draw(t, lbl+"s")]
	cur := r.cursor[s.n]
	left := len(s.chunks) - cur
	note := func(k string) {
		r.label("op:" + k)
		if cur > 0 && left > 0 {
			r.hitLater = true
		}
	}
	switch kind {
	case "deliver":
		if left > 0 {
			r.deliver(r.pristine(s, cur))
			r.cursor[s.n]++
		}
	case "finish":
		for j := cur; j < len(s.chunks); j++ {
			r.deliver(r.pristine(s, j))
		}
		r.cursor[s.n] = len(s.chunks)
		r.label("op:finish")
	case "drop":
		if left > 0 {
			r.log = append(r.log, fmt.Sprintf("drop s%d#%d", s.n, cur))
			r.cursor[s.n]++
			note("drop")
		}
	case "swap":
		if left > 1 {
			r.deliver(r.pristine(s, cur+1))
			r.deliver(r.pristine(s, cur))
			r.cursor[s.n] += 2
			note("swap")
		}
	case "dup":
		if cur > 0 {
			j := rapid.IntRange(0, cur-1).Draw(t, lbl+"j")
			d := r.pristine(s, j)
			d.what = "duplicate"
			if j == 0 {
				// a repeated first chunk restarts the stream
				d.what = "duplicate of the first chunk (restart)"
				r.deliver(d)
				r.cursor[s.n] = 1
				r.label("op:dup-first")
			} else {
				r.deliver(d)
				r.label("op:dup")
				r.hitLater = true
			}
		}
	case "corrupt":
		if left > 0 {
			c, how := vfCorrupt(t, lbl, s, cur, s.chunks[cur])
			tag := "main"
			if c.HasFileInfo {
				tag = "ext"
			}
			r.deliver(vfDelivery{s: s, id: cur, chunk: c, corrupt: how, what: "corrupt(" + how + "," + tag + ")"})
			r.cursor[s.n]++
			note("corrupt-" + tag)
		}
	case "corrupt-then-finish":
		// one chunk damaged in transit, everything else delivered
		if left > 0 {
			j := cur + rapid.IntRange(0, vfMin(left-1, 3)).Draw(t, lbl+"j")
			for k := cur; k < j; k++ {
				r.deliver(r.pristine(s, k))
			}
			c, how := vfCorrupt(t, lbl, s, j, s.chunks[j])
			tag := "main"
			if c.HasFileInfo {
				tag = "ext"
			}
			r.deliver(vfDelivery{s: s, id: j, chunk: c, corrupt: how, what: "corrupt(" + how + "," + tag + ")"})
			for k := j + 1; k < len(s.chunks); k++ {
				r.deliver(r.pristine(s, k))
			}
			r.cursor[s.n] = len(s.chunks)
			r.label("op:corrupt-" + tag + "-then-finish")
			if j > 0 || len(s.chunks) > 1 {
				r.hitLater = r.hitLater || j > 0
			}
		}
	case "corrupt-first":
		// a corrupt first chunk for the key of s (a restart whose first chunk is damaged)
		c, how := vfCorrupt(t, lbl, s, 0, s.chunks[0])
		r.deliver(vfDelivery{s: s, id: 0, chunk: c, corrupt: how, what: "corrupt-first(" + how + ")"})
		r.label("op:corrupt-first")
		if cur > 1 {
			r.hitLater = true
		}
	case "restart":
		r.cursor[s.n] = 0
		r.log = append(r.log, fmt.Sprintf("restart s%d", s.n))
		r.label("op:restart")
	case "wrongdid":
		if left > 0 {
			c := s.chunks[cur]
			c.DeploymentId = vfDid + 1 + uint64(rapid.IntRange(0, 3).Draw(t, lbl+"d"))
			r.deliver(vfDelivery{s: s, id: cur, chunk: c, wrongDid: true, what: "wrong deployment id"})
			r.cursor[s.n]++
			note("wrongdid")
		}
	case "wrongbin":
		if left > 0 {
			c := s.chunks[cur]
			c.BinVer = raftio.TransportBinVersion + 1
			r.deliver(vfDelivery{s: s, id: cur, chunk: c, wrongBin: true, what: "wrong bin version"})
			r.cursor[s.n]++
			note("wrongbin")
		}
	case "foreign":
		// the next chunk of the stream, but claiming another sender
		if left > 0 && cur > 0 {
			c := s.chunks[cur]
			c.From = s.from + 100
			r.deliver(vfDelivery{s: s, id: cur, chunk: c, foreign: true, corrupt: "", what: "foreign sender"})
			// (a first chunk from another sender is a legitimate new stream: covered by
			// the same-key-other-sender streams)
			note("foreign")
		}
	case "markremoved":
		if rapid.IntRange(0, 2).Draw(t, lbl+"really") == 0 {
			root := vfDir(r.rfs)(s.shard, s.to)
			if err := fileutil.MarkDirAsDeleted(root, &pb.Membership{}, r.rfs); err != nil {
				t.Fatalf("mark %v", err)
			}
			r.model.removed[rootKey(s)] = true
			r.log = append(r.log, fmt.Sprintf("replica %s marked removed", rootKey(s)))
			r.label("op:markremoved")
			if cur > 0 && left > 0 {
				r.hitLater = true
			}
		}
	case "tick":
		r.tick(rapid.IntRange(1, int(r.c.timeout+r.c.gcTick)).Draw(t, lbl+"n"))
		r.label("op:tick")
	case "steady":
		// a slow but healthy sender: the rest of the stream with a pause shorter
		// than the timeout before every chunk
		if left > 0 && r.c.timeout >= 2 {
			r.label("op:steady")
			for j := cur; j < len(s.chunks) && !r.died; j++ {
				k := rapid.SampledFrom([]int{int(r.c.timeout) - 1, int(r.c.timeout) - 1, 1, 0}).Draw(t, lbl+"pause")
				if k > 0 {
					r.tick(k)
				}
				r.deliver(r.pristine(s, j))
			}
			r.cursor[s.n] = len(s.chunks)
		}
	case "rename":
		// hostile directory components in the file name, same base name
		if left > 0 {
			c := s.chunks[cur]
			base := r.rfs.PathBase(c.Filepath)
			c.Filepath = rapid.SampledFrom(vfHostileDirs).Draw(t, lbl+"dir") + base
			r.deliver(vfDelivery{s: s, id: cur, chunk: c, renamed: true, what: "file name " + c.Filepath})
			r.cursor[s.n]++
			r.label("op:hostile-dir-components")
		}
	}
}

func (r *vfRun) checkFinalState() {
	// every finalized snapshot is complete and byte identical, nothing else exists
	files, dirs := vfScan(r.rfs)
	want := map[string][]byte{}
	wantDirs := map[string]bool{}
	for _, s := range r.c.streams {
		wantDirs[vfDir(r.rfs)(s.shard, s.to)] = true
		if r.model.removed[rootKey(s)] {
			want[r.rfs.PathJoin(vfDir(r.rfs)(s.shard, s.to), "DELETED.dragonboat")] = nil
		}
	}
	for key, s := range r.model.finalized {
		if s == nil {
			continue // finalized by a tolerated known finding
		}
		_ = key
		fd := r.finalDirOf(s)
		wantDirs[fd] = true
		want[r.rfs.PathJoin(fd, s.mainName)] = s.mainBytes
		want[r.rfs.PathJoin(fd, fileutil.SnapshotFlagFilename)] = nil
		for _, e := range s.exts {
			want[r.rfs.PathJoin(fd, fmt.Sprintf("external-file-%d", e.id))] = e.data
		}
	}
	tolerated := map[string]bool{}
	for key, s := range r.model.finalized {
		if s == nil {
			for _, x := range r.c.streams {
				if x.key() == key {
					tolerated[r.finalDirOf(x)] = true
				}
			}
		}
	}
	inTolerated := func(p string) bool {
		for d := range tolerated {
			if p == d || strings.HasPrefix(p, d+"/") {
				return true
			}
		}
		return false
	}
	for _, f := range files {
		if inTolerated(f) {
			continue
		}
		if !strings.HasPrefix(f, "/nh/host/") {
			r.fail("c15-file-outside-snapshot-root", "file %s exists outside the snapshot root", f)
		}
		data, ok := want[f]
		if !ok {
			r.fail("c15-unexpected-file", "unexpected file %s after the run (expected files: %d)", f, len(want))
		}
		if data != nil {
			got, err := snapio.ReadFile(r.rfs, f)
			if err != nil {
				r.t.Fatalf("read %v", err)
			}
			if !bytes.Equal(got, data) {
				r.fail("c15-finalized-file-differs", "finalized file %s (%d bytes) differs from the source (%d bytes)", f, len(got), len(data))
			}
		}
		delete(want, f)
	}
	for f := range want {
		r.fail("c15-finalized-file-missing", "expected file %s does not exist", f)
	}
	for _, d := range dirs {
		if inTolerated(d) {
			continue
		}
		if strings.HasSuffix(d, ".receiving") {
			r.fail("c15-temp-dir-not-collected", "temporary directory %s still exists %d ticks after the last chunk (timeout %d, gc interval %d)",
				d, r.c.timeout+r.c.gcTick+1, r.c.timeout, r.c.gcTick)
		}
		if strings.HasPrefix(d, "/nh/host/") && strings.Contains(r.rfs.PathBase(d), "snapshot-") && !wantDirs[d] &&
			!strings.HasPrefix(r.rfs.PathBase(d), "snapshot-part-") {
			r.fail("c15-unexpected-dir", "unexpected directory %s", d)
		}
		if !strings.HasPrefix(d, "/nh") && d != "/" && d != "" {
			r.fail("c15-file-outside-snapshot-root", "directory %s exists outside the snapshot root", d)
		}
	}
	// notifications
	nwant := 0
	for _, key := range r.model.order {
		s := r.model.finalized[key]
		nwant++
		var found []pb.MessageBatch
		for _, mb := range r.recv.msgs {
			if len(mb.Requests) == 1 && mb.Requests[0].ShardID == s.shard && mb.Requests[0].To == s.to && mb.Requests[0].Snapshot.Index == s.index {
				found = append(found, mb)
			}
		}
		if len(found) != 1 {
			r.fail("c15-notification-count", "%d InstallSnapshot notifications for %s, want exactly 1", len(found), s.desc())
		}
		mb := found[0]
		m := mb.Requests[0]
		fd := r.finalDirOf(s)
		bad := ""
		switch {
		case mb.DeploymentId != vfDid || mb.BinVer != raftio.TransportBinVersion:
			bad = "batch deployment id / bin version"
		case m.Type != pb.InstallSnapshot || m.From != s.from:
			bad = "type/from"
		case m.Snapshot.Term != s.term || m.Snapshot.OnDiskIndex != s.onDisk:
			bad = "term/on-disk index"
		case !reflect.DeepEqual(m.Snapshot.Membership, s.membership):
			bad = "membership"
		case m.Snapshot.Filepath != r.rfs.PathJoin(fd, s.mainName):
			bad = "file path " + m.Snapshot.Filepath
		case m.Snapshot.FileSize != s.firstSize:
			bad = "file size"
		case s.mode != "stream" && m.Snapshot.FileSize != uint64(len(s.mainBytes)):
			bad = "file size vs bytes"
		case m.Snapshot.Witness != (s.mode == "witness"):
			bad = "witness flag"
		case len(m.Snapshot.Files) != len(s.exts):
			bad = "number of external files"
		}
		for i, e := range s.exts {
			if bad != "" {
				break
			}
			f := m.Snapshot.Files[i]
			if f.FileId != e.id || f.FileSize != uint64(len(e.data)) || !bytes.Equal(f.Metadata, e.meta) ||
				f.Filepath != r.rfs.PathJoin(fd, fmt.Sprintf("external-file-%d", e.id)) {
				bad = fmt.Sprintf("external file %d: %+v", i, f)
			}
		}
		if bad != "" {
			r.fail("c15-notification-wrong", "InstallSnapshot notification for %s does not describe it: %s; message %+v", s.desc(), bad, m)
		}
		nc := 0
		for _, cf := range r.recv.confirms {
			if cf == [3]uint64{s.shard, s.to, s.from} {
				nc++
			}
		}
		same := 0
		for _, k2 := range r.model.order {
			o := r.model.finalized[k2]
			if o.shard == s.shard && o.to == s.to && o.from == s.from {
				same++
			}
		}
		if nc != same+r.tolConfirms[[3]uint64{s.shard, s.to, s.from}] {
			r.fail("c15-confirm-count", "confirm fired %d times for (%d,%d,%d), want %d", nc, s.shard, s.to, s.from, same)
		}
	}
	ntol := 0
	for _, s := range r.model.finalized {
		if s == nil {
			ntol++
		}
	}
	if len(r.recv.msgs) != nwant+ntol {
		r.fail("c15-notification-count", "%d notifications raised, reference receiver finalized %d", len(r.recv.msgs), nwant)
	}
}

func vfC15Prop(st *vfhelp.Stats) func(t *rapid.T) {
	return func(t *rapid.T) {
		c := vfGenCase(t)
		oldCS, oldGC, oldTO := snapshotChunkSize, gcIntervalTick, snapshotChunkTimeoutTick
		snapshotChunkSize, gcIntervalTick, snapshotChunkTimeoutTick = c.chunkSize, c.gcTick, c.timeout
		defer func() { snapshotChunkSize, gcIntervalTick, snapshotChunkTimeoutTick = oldCS, oldGC, oldTO }()
		sfs := vfs.NewMemFS()
		rfs := vfs.NewMemFS()
		bigUsed := false
		for _, s := range c.streams {
			big := c.chunkSize >= 1<<20 && !bigUsed && s.mode != "witness" && rapid.IntRange(0, 2).Draw(t, fmt.Sprintf("s%d-big", s.n)) > 0
			if big {
				bigUsed = true
			}
			vfGenContent(t, c, s, sfs, big)
			if err := rfs.MkdirAll(vfDir(rfs)(s.shard, s.to), 0o755); err != nil {
				t.Fatalf("mkdir %v", err)
			}
		}
		r := &vfRun{t: t, st: st, c: c, rfs: rfs, recv: vfNewReceiver(rfs), labels: map[string]bool{}, finished: map[string]bool{}, tolConfirms: map[[3]uint64]int{},
			cursor: make([]int, len(c.streams)),
			model: &vfModel{gcTick: c.gcTick, timeout: c.timeout, tracked: map[string]*vfTracked{}, finalized: map[string]*vfStream{}, removed: map[string]bool{}}}
		nops := rapid.IntRange(0, 30).Draw(t, "nops")
		for i := 0; i < nops && !r.died; i++ {
			r.op(i)
		}
		// clean retransmission of everything, interleaved chunk by chunk: streams
		// for different snapshots must all finish
		if !r.died {
			r.log = append(r.log, "-- clean interleaved retransmission")
			maxLen := 0
			for _, s := range c.streams {
				if len(s.chunks) > maxLen {
					maxLen = len(s.chunks)
				}
			}
			order := rapid.Permutation(c.streams).Draw(t, "drainorder")
			// the retransmission is slow in half of the cases: a pause shorter than the
			// timeout before every round (every live stream gets a chunk per round)
			pause := 0
			if c.timeout >= 2 && rapid.Bool().Draw(t, "slowdrain") {
				pause = rapid.IntRange(1, int(c.timeout)-1).Draw(t, "drainpause")
				r.label("slow-retransmission")
			}
			for j := 0; j < maxLen && !r.died; j++ {
				if pause > 0 && j > 0 {
					r.tick(pause)
				}
				for _, s := range order {
					if j < len(s.chunks) {
						r.deliver(r.pristine(s, j))
					}
				}
			}
		}
		if !r.died {
			r.tick(int(c.timeout + c.gcTick + 1))
			r.checkFinalState()
			// streams of distinct snapshots of live replicas all finished
			keys := map[string]int{}
			for _, s := range c.streams {
				keys[s.key()]++
			}
			for _, s := range c.streams {
				if keys[s.key()] == 1 && !r.model.removed[rootKey(s)] {
					if _, ok := r.model.finalized[s.key()]; !ok {
						r.fail("c15-complete-stream-not-finalized", "stream %s was retransmitted cleanly but is not finalized", s.desc())
					}
				}
			}
		} else {
			// the receiver died: whatever it finalized before must still be right
			for key, s := range r.model.finalized {
				if s == nil {
					continue
				}
				_ = key
				got, err := snapio.ReadFile(rfs, rfs.PathJoin(r.finalDirOf(s), s.mainName))
				if err != nil || !bytes.Equal(got, s.mainBytes) {
					r.fail("c15-finalized-file-differs", "finalized main file of %s wrong after receiver panic (%v)", s.desc(), err)
				}
			}
			files, _ := vfScan(rfs)
			for _, f := range files {
				if !strings.HasPrefix(f, "/nh/host/") {
					r.fail("c15-file-outside-snapshot-root", "file %s exists outside the snapshot root", f)
				}
			}
		}
		// evidence
		maxChunks := 0
		modes := map[string]bool{}
		for _, s := range c.streams {
			if len(s.chunks) > maxChunks {
				maxChunks = len(s.chunks)
			}
			modes[s.mode] = true
			r.label("mode=" + s.mode)
			r.label(fmt.Sprintf("exts=%d", len(s.exts)))
			if s.bigMain {
				r.label("main>2blocks")
			}
		}
		for _, rel := range c.rel[1:] {
			r.label("second-stream:" + rel)
		}
		r.label(fmt.Sprintf("streams=%d", len(c.streams)))
		r.label(fmt.Sprintf("finalized=%d", len(r.model.order)))
		r.label(fmt.Sprintf("chunksize=%d", c.chunkSize))
		nt := maxChunks >= 3 && r.hitLater
		labels := make([]string, 0, len(r.labels))
		for l := range r.labels {
			labels = append(labels, l)
		}
		sort.Strings(labels)
		st.Case([]byte(r.streams()+strings.Join(r.log, "|")), nt, labels...)
		if nt && st.WantSample() {
			st.Sample(map[string]interface{}{"streams": r.streams(), "chunk_size": c.chunkSize, "gc": c.gcTick, "timeout": c.timeout, "trace": r.log})
		}
	}
}

func TestVF_C15_Transfer(t *testing.T) {
	st := vfhelp.NewStats("TestVF_C15_Transfer",
		"1-3 snapshots (file based with 0-3 external files / streamed by rsm.ChunkWriter / witness; keys related: same key other sender, other index, other replica, other shard) split by the real sender code with a generated snapshotChunkSize; "+
			"0-30 generated delivery operations (deliver, finish, drop, swap, duplicate, corrupt data, corrupt first chunk, restart, wrong deployment id / bin version, foreign sender, mark replica removed, ticks, steady, hostile directory components) "+
			"(steady = the rest of a stream with a pause shorter than the timeout before every chunk) followed by a clean interleaved retransmission (slow in half of the cases: a pause shorter than the timeout before every round) and timeout+gc ticks, against a reference receiver; non-trivial = a stream of >= 3 chunks and a perturbation hitting a chunk other than the first")
	defer st.Flush()
	rapid.Check(t, vfC15Prop(st))
}
