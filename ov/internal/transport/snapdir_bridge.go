package transport

// Overlay-only bridge for the C16.E7 harness (root package): gives it the
// sender side of a file based snapshot transfer exactly as job.sendChunks
// performs it (splitSnapshotMessage + loadChunkData).

import (
	"github.com/lni/dragonboat/v4/internal/vfs"
	pb "github.com/lni/dragonboat/v4/raftpb"
)

// VFSetSnapshotChunkSize sets the (tunable, see monkey.go) snapshot chunk size
// and returns the previous value. It must stay >= the snapshot header size.
func VFSetSnapshotChunkSize(n uint64) uint64 {
	old := snapshotChunkSize
	snapshotChunkSize = n
	return old
}

// VFSenderChunks returns the chunks the sender puts on the wire for m, data
// loaded from fs, deployment id set.
func VFSenderChunks(m pb.Message, did uint64, fs vfs.IFS) ([]pb.Chunk, error) {
	chunks, err := splitSnapshotMessage(m, fs)
	if err != nil {
		return nil, err
	}
	buf := make([]byte, snapshotChunkSize)
	for i := range chunks {
		chunks[i].DeploymentId = did
		if !chunks[i].Witness {
			data, err := loadChunkData(chunks[i], buf, fs)
			if err != nil {
				return nil, err
			}
			chunks[i].Data = append([]byte(nil), data...)
		}
	}
	return chunks, nil
}
