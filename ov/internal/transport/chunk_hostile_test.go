package transport

// Engine E5, property C15, last clause: a chunk's file name can never escape
// the snapshot directory. Degenerate base names ("..", ".", "", "/") behave
// differently on the in-memory file system (Create silently replaces a
// directory) and on a real one (EISDIR), so this unit runs the receiver on the
// real file system below the unit's working directory.

import (
	"fmt"
	"os"
	"path/filepath"
	"sort"
	"strings"
	"testing"

	"github.com/lni/dragonboat/v4/internal/server"
	"github.com/lni/dragonboat/v4/internal/vfhelp"
	"github.com/lni/dragonboat/v4/internal/vfs"
	"github.com/lni/dragonboat/v4/internal/vfx/snapio"
	pb "github.com/lni/dragonboat/v4/raftpb"
	"pgregory.net/rapid"
)

var vfHostileNames = []string{
	"..", ".", "", "/", "../..", "a/..", "a/.", "./", "../", "/etc/passwd", "../../../outside", "../outside",
	"/outside", "....//outside", "..\\outside", "dragonboat.snapshot.message", "snapshot.metadata",
	"x/../../outside", "\x00", "a\x00b", strings.Repeat("n", 300), "DELETED.dragonboat", " ", "~", "-rf",
}

func vfListTree(root string) (files []string, dirs []string) {
	_ = filepath.Walk(root, func(p string, fi os.FileInfo, err error) error {
		if err != nil {
			return nil
		}
		if fi.IsDir() {
			dirs = append(dirs, p)
		} else {
			files = append(files, p)
		}
		return nil
	})
	sort.Strings(files)
	sort.Strings(dirs)
	return
}

func TestVF_C15_HostileNames(t *testing.T) {
	st := vfhelp.NewStats("TestVF_C15_HostileNames",
		"one file based snapshot (0-2 external files), one generated chunk carries a hostile file name (.., ., empty, /, absolute, parent-relative, NUL, over-long, names of the receiver's own flag files); "+
			"receiver on the real file system; afterwards every file below the case directory must be a direct child of a temporary or final snapshot directory and nothing may exist outside the replica's snapshot root; "+
			"non-trivial = the hostile name is on a chunk other than the first of a stream with >= 3 chunks")
	defer st.Flush()
	cwd, err := os.Getwd()
	if err != nil {
		t.Fatalf("getwd %v", err)
	}
	n := 0
	rapid.Check(t, func(t *rapid.T) {
		n++
		caseDir := filepath.Join(cwd, fmt.Sprintf("hostile-case-%d", n))
		if err := os.RemoveAll(caseDir); err != nil {
			t.Fatalf("cleanup %v", err)
		}
		defer os.RemoveAll(caseDir)
		oldCS, oldGC, oldTO := snapshotChunkSize, gcIntervalTick, snapshotChunkTimeoutTick
		snapshotChunkSize, gcIntervalTick, snapshotChunkTimeoutTick = 1024, 1, 1
		defer func() { snapshotChunkSize, gcIntervalTick, snapshotChunkTimeoutTick = oldCS, oldGC, oldTO }()
		sfs := vfs.NewMemFS()
		rfs := vfs.DefaultFS
		s := &vfStream{n: 0, mode: "file", shard: 1, to: 2, from: 5, index: rapid.Uint64Range(1, 1000).Draw(t, "index"), term: 2,
			membership: pb.Membership{Addresses: map[uint64]string{1: "a1"}}}
		var exts []int
		for i := rapid.IntRange(0, 2).Draw(t, "next"); i > 0; i-- {
			exts = append(exts, rapid.IntRange(1, 2500).Draw(t, "extsize"))
		}
		vfBuildStream(t, sfs, s, snapio.Payload{Kind: 2, Seed: 1, Len: rapid.IntRange(0, 2500).Draw(t, "len")}, false, nil, exts)
		dirf := func(shard uint64, replica uint64) string {
			return filepath.Join(caseDir, "nh", fmt.Sprintf("snapshot-%d-%d", shard, replica))
		}
		root := dirf(s.shard, s.to)
		if err := os.MkdirAll(root, 0o755); err != nil {
			t.Fatalf("mkdir %v", err)
		}
		var msgs []pb.MessageBatch
		recv := NewChunk(func(mb pb.MessageBatch) { msgs = append(msgs, mb) }, func(uint64, uint64, uint64) {}, dirf, vfDid, rfs)
		hi := rapid.IntRange(0, len(s.chunks)-1).Draw(t, "hostilechunk")
		name := rapid.SampledFrom(vfHostileNames).Draw(t, "name")
		if rapid.IntRange(0, 3).Draw(t, "prefixed") == 0 {
			name = rapid.SampledFrom([]string{"../../", "/", "x/"}).Draw(t, "prefix") + name
		}
		outcome := "accepted"
		for i, c := range s.chunks {
			if i == hi {
				c.Filepath = name
			}
			ok, pv := func() (ok bool, pv interface{}) {
				defer func() {
					if p := recover(); p != nil {
						pv = p
					}
				}()
				return recv.Add(c), nil
			}()
			if pv != nil {
				outcome = "receiver-panicked"
				break
			}
			if !ok {
				outcome = "refused"
				break
			}
		}
		if len(msgs) > 0 {
			outcome += "+finalized"
		}
		// where did bytes go?
		files, dirs := vfListTree(caseDir)
		for _, f := range files {
			rel, err := filepath.Rel(root, f)
			if err != nil || strings.HasPrefix(rel, "..") {
				vfhelp.Fail(t, "c15-file-outside-snapshot-root", "hostile name %q on chunk %d: file %s created outside the snapshot root %s", name, hi, f, root)
			}
			parts := strings.Split(rel, string(filepath.Separator))
			okDir := len(parts) == 2 && (server.SnapshotDirNameRe.MatchString(parts[0]) || server.RecvSnapshotDirNameRe.MatchString(parts[0]))
			if !okDir {
				vfhelp.Fail(t, "c15-file-escapes-snapshot-dir", "hostile name %q on chunk %d: file %s is not a direct child of a snapshot directory", name, hi, f)
			}
		}
		for _, d := range dirs {
			rel, err := filepath.Rel(caseDir, d)
			if err != nil || strings.HasPrefix(rel, "..") {
				vfhelp.Fail(t, "c15-file-outside-snapshot-root", "directory %s outside", d)
			}
			if rel != "." && rel != "nh" && !strings.HasPrefix(rel, filepath.Join("nh", "snapshot-1-2")) {
				vfhelp.Fail(t, "c15-file-outside-snapshot-root", "hostile name %q: directory %s created outside the snapshot root", name, d)
			}
		}
		if fi, err := os.Stat(root); err != nil || !fi.IsDir() {
			vfhelp.Fail(t, "c15-snapshot-root-clobbered", "hostile name %q: the replica's snapshot root is no longer a directory (%v)", name, err)
		}
		for _, p := range []string{filepath.Join(cwd, "outside"), "/outside", filepath.Join(caseDir, "outside"), filepath.Join(caseDir, "nh", "outside")} {
			if _, err := os.Stat(p); err == nil {
				_ = os.Remove(p)
				vfhelp.Fail(t, "c15-file-outside-snapshot-root", "hostile name %q created %s", name, p)
			}
		}
		recv.Close()
		base := filepath.Base(name)
		cls := "base=ordinary"
		switch {
		case base == ".." || base == "." || base == "/" || name == "":
			cls = "base=degenerate"
		case strings.Contains(name, "\x00"):
			cls = "base=nul"
		case len(base) > 255:
			cls = "base=overlong"
		case base == "dragonboat.snapshot.message" || base == "snapshot.metadata" || base == "DELETED.dragonboat":
			cls = "base=receiver-flag-file"
		}
		nt := hi > 0 && len(s.chunks) >= 3
		st.Case([]byte(fmt.Sprintf("%q|%d|%d|%v", name, hi, len(s.chunks), exts)), nt, cls, "outcome="+outcome, cls+"/"+outcome)
		if nt && st.WantSample() {
			st.Sample(map[string]interface{}{"name": name, "chunk": hi, "chunks": len(s.chunks), "outcome": outcome})
		}
	})
}
