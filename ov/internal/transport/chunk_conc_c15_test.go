package transport

// Engine E5, property C15 (also registered for C14): concurrent receive.
//
// In production the chunks of different connections are handled by different
// goroutines: a chunk of an abandoned first attempt of a snapshot stream can
// still be inside Chunk.Add (slow disk) when the first chunk of the sender's
// retry of the same snapshot (same shard:replica:index) arrives on a new
// connection. This unit runs Chunk.Add on REAL goroutines with a HARNESS
// CONTROLLED interleaving: the file system (and the snapshot directory lookup and
// the two callbacks) handed to the Chunk under test can park the calling
// goroutine right before its p-th operation; while goroutine A is parked inside
// Add, goroutine B delivers other chunks and goroutine T ticks the collector.
//
// Oracle (from the property statement): Add is linearizable - the observable
// outcome (results of every Add, finalized snapshot directories and the bytes of
// every file in them, InstallSnapshot notifications, directories left after
// timeout + gc ticks) equals what a reference receiver produces for SOME serial
// order of the concurrent calls. Tick is not claimed to be atomic: the clock
// moves at once, the collector then judges the tracked snapshots one by one; the
// serial orders interleave these steps of every tick of T separately.

import (
	"bytes"
	"fmt"
	"os"
	"reflect"
	"sort"
	"strings"
	"sync"
	"testing"
	"time"

	gvfs "github.com/lni/vfs"

	"github.com/lni/dragonboat/v4/internal/fileutil"
	"github.com/lni/dragonboat/v4/internal/server"
	"github.com/lni/dragonboat/v4/internal/vfhelp"
	"github.com/lni/dragonboat/v4/internal/vfs"
	"github.com/lni/dragonboat/v4/internal/vfx/snapio"
	"github.com/lni/dragonboat/v4/raftio"
	pb "github.com/lni/dragonboat/v4/raftpb"
	"pgregory.net/rapid"
)

// ---------------------------------------------------------------------------
// the gate: parks the caller right before its p-th operation after arming

type ccGate struct {
	mu       sync.Mutex
	armed    bool
	counting bool // dry run: count and record, never park
	target   int
	count    int
	ops      []string
	parkedAt string
	parked   chan struct{}
	release  chan struct{}
}

func newCCGate() *ccGate {
	return &ccGate{parked: make(chan struct{}), release: make(chan struct{})}
}

func (g *ccGate) op(name string) {
	g.mu.Lock()
	if !g.armed {
		g.mu.Unlock()
		return
	}
	idx := g.count
	g.count++
	g.ops = append(g.ops, name)
	if g.counting || idx != g.target {
		g.mu.Unlock()
		return
	}
	g.armed = false
	g.parkedAt = name
	g.mu.Unlock()
	close(g.parked)
	<-g.release
}

func (g *ccGate) arm(target int, counting bool) {
	g.mu.Lock()
	g.armed, g.counting, g.target, g.count, g.ops = true, counting, target, 0, nil
	g.mu.Unlock()
}

func (g *ccGate) disarm() []string {
	g.mu.Lock()
	defer g.mu.Unlock()
	g.armed = false
	return append([]string{}, g.ops...)
}

// ccFS is the file system handed to the Chunk under test.
type ccFS struct {
	vfs.IFS
	g *ccGate
}

func (f *ccFS) file(kind string, fl vfs.File, err error) (vfs.File, error) {
	if err != nil || fl == nil {
		return fl, err
	}
	return &ccFile{File: fl, g: f.g, kind: kind}, nil
}

func (f *ccFS) Create(name string) (vfs.File, error) {
	f.g.op("fs.create")
	fl, err := f.IFS.Create(name)
	return f.file("file", fl, err)
}
func (f *ccFS) Link(o, n string) error { f.g.op("fs.link"); return f.IFS.Link(o, n) }
func (f *ccFS) Open(name string, opts ...gvfs.OpenOption) (vfs.File, error) {
	f.g.op("fs.open")
	fl, err := f.IFS.Open(name, opts...)
	return f.file("file", fl, err)
}
func (f *ccFS) OpenDir(name string) (vfs.File, error) {
	f.g.op("fs.opendir")
	fl, err := f.IFS.OpenDir(name)
	return f.file("dir", fl, err)
}
func (f *ccFS) OpenForAppend(name string) (vfs.File, error) {
	f.g.op("fs.openforappend")
	fl, err := f.IFS.OpenForAppend(name)
	return f.file("file", fl, err)
}
func (f *ccFS) Remove(name string) error    { f.g.op("fs.remove"); return f.IFS.Remove(name) }
func (f *ccFS) RemoveAll(name string) error { f.g.op("fs.removeall"); return f.IFS.RemoveAll(name) }
func (f *ccFS) Rename(o, n string) error    { f.g.op("fs.rename"); return f.IFS.Rename(o, n) }
func (f *ccFS) ReuseForWrite(o, n string) (vfs.File, error) {
	f.g.op("fs.reuseforwrite")
	fl, err := f.IFS.ReuseForWrite(o, n)
	return f.file("file", fl, err)
}
func (f *ccFS) MkdirAll(dir string, perm os.FileMode) error {
	f.g.op("fs.mkdirall")
	return f.IFS.MkdirAll(dir, perm)
}
func (f *ccFS) List(dir string) ([]string, error) { f.g.op("fs.list"); return f.IFS.List(dir) }
func (f *ccFS) Stat(name string) (os.FileInfo, error) {
	f.g.op("fs.stat")
	return f.IFS.Stat(name)
}

type ccFile struct {
	vfs.File
	g    *ccGate
	kind string
}

func (f *ccFile) Write(p []byte) (int, error) { f.g.op(f.kind + ".write"); return f.File.Write(p) }
func (f *ccFile) WriteAt(p []byte, o int64) (int, error) {
	f.g.op(f.kind + ".writeat")
	return f.File.WriteAt(p, o)
}
func (f *ccFile) Read(p []byte) (int, error) { f.g.op(f.kind + ".read"); return f.File.Read(p) }
func (f *ccFile) ReadAt(p []byte, o int64) (int, error) {
	f.g.op(f.kind + ".readat")
	return f.File.ReadAt(p, o)
}
func (f *ccFile) Stat() (os.FileInfo, error) { f.g.op(f.kind + ".stat"); return f.File.Stat() }
func (f *ccFile) Sync() error                { f.g.op(f.kind + ".sync"); return f.File.Sync() }
func (f *ccFile) Close() error               { f.g.op(f.kind + ".close"); return f.File.Close() }

// ---------------------------------------------------------------------------
// the receiver under test

type ccRecv struct {
	mem      vfs.IFS
	g        *ccGate
	chunks   *Chunk
	mu       sync.Mutex
	msgs     []pb.MessageBatch
	confirms [][3]uint64
}

func newCCRecv() *ccRecv {
	r := &ccRecv{mem: vfs.NewMemFS(), g: newCCGate()}
	base := vfDir(r.mem)
	dir := func(shard uint64, replica uint64) string {
		r.g.op("dirlookup")
		return base(shard, replica)
	}
	r.chunks = NewChunk(func(mb pb.MessageBatch) {
		r.g.op("cb.onreceive")
		r.mu.Lock()
		r.msgs = append(r.msgs, mb)
		r.mu.Unlock()
	}, func(shard uint64, replica uint64, from uint64) {
		r.g.op("cb.confirm")
		r.mu.Lock()
		r.confirms = append(r.confirms, [3]uint64{shard, replica, from})
		r.mu.Unlock()
	}, dir, vfDid, &ccFS{IFS: r.mem, g: r.g})
	return r
}

type ccRes struct {
	done bool
	ok   bool
	pv   interface{}
}

func (r *ccRecv) add(c pb.Chunk) (res ccRes) {
	defer func() {
		if p := recover(); p != nil {
			res = ccRes{done: true, pv: p}
		}
	}()
	return ccRes{done: true, ok: r.chunks.Add(c)}
}

func (r *ccRecv) tick() (pv interface{}) {
	defer func() {
		if p := recover(); p != nil {
			pv = p
		}
	}()
	r.chunks.Tick()
	return nil
}

// ---------------------------------------------------------------------------
// the case

type ccStream struct {
	*vfStream
	k       string // shard:replica:index
	pay     snapio.Payload
	content int    // streams with equal content have byte identical chunks
	role    string // first | retry | other
}

type ccOp struct {
	ticks int    // > 0: that many ticks, each one atomic
	inc   bool   // first half of a tick of T: the clock moves; on a collector tick every key without its own step is judged
	gck   string // second half of a collector tick of T: the stream of this key is judged
	s     *ccStream
	id    int
	seq   int // slot of the result (adds only)
	who   string
}

func (o ccOp) String() string {
	if o.inc {
		return "T:tick"
	}
	if o.gck != "" {
		return "T:collect " + o.gck
	}
	if o.ticks > 0 {
		return fmt.Sprintf("%s:tick x%d", o.who, o.ticks)
	}
	return fmt.Sprintf("%s:add %s#%d", o.who, o.s.role, o.id)
}

type ccCase struct {
	chunkSize uint64
	gcTick    uint64
	timeout   uint64
	streams   []*ccStream
	retryKind string
	pre       []ccOp
	a         ccOp
	bs        []ccOp
	bKind     string
	ts        []ccOp   // single ticks
	tsteps    [][]ccOp // the steps of the ticks of T (one list per order of the keys judged separately)
	bFirst    bool     // B is launched before T
	post      []ccOp
	nAdds     int
	dryOps    []string
	p         int
}

func (c *ccCase) desc() string {
	var ss []string
	for _, s := range c.streams {
		ss = append(ss, s.role+"="+s.desc())
	}
	return fmt.Sprintf("chunkSize=%d gc=%d timeout=%d retry=%s %s", c.chunkSize, c.gcTick, c.timeout, c.retryKind, strings.Join(ss, " "))
}

func ccOps(ops []ccOp) string {
	out := make([]string, 0, len(ops))
	for _, o := range ops {
		out = append(out, o.String())
	}
	return strings.Join(out, ", ")
}

// ---------------------------------------------------------------------------
// the reference receiver (a simplified copy of the one in chunk_c15_test.go:
// every chunk is what a sender produced, no replica is removed)

type ccTracked struct {
	s    *ccStream
	next int
	tick uint64
}

type ccModel struct {
	tick    uint64
	gc      uint64
	timeout uint64
	tracked map[string]*ccTracked
	fin     map[string]*ccStream
	rets    []byte // '?' not executed, 'T', 'F'
	split   map[string]bool
	gcNow   bool
}

func newCCModel(c *ccCase) *ccModel {
	m := &ccModel{gc: c.gcTick, timeout: c.timeout, tracked: map[string]*ccTracked{}, fin: map[string]*ccStream{},
		rets: bytes.Repeat([]byte{'?'}, c.nAdds), split: map[string]bool{}}
	for _, o := range c.tsteps[0] {
		if o.gck != "" {
			m.split[o.gck] = true
		}
	}
	return m
}

func (m *ccModel) add(s *ccStream, id int) bool {
	var tr *ccTracked
	if id == 0 {
		// a first chunk starts a stream for its key, replacing whatever was there
		tr = &ccTracked{s: s, next: 1, tick: m.tick}
		m.tracked[s.k] = tr
	} else {
		// only the next expected chunk, from the sender that started the stream
		tr = m.tracked[s.k]
		if tr == nil || tr.next != id || tr.s.from != s.from {
			return false
		}
		if tr.s.content != s.content {
			panic("harness: streams of one sender for one key with different content")
		}
		tr.next++
		tr.tick = m.tick
	}
	if id == len(s.chunks)-1 {
		delete(m.tracked, s.k)
		if _, ok := m.fin[s.k]; ok {
			return false // the snapshot already exists: out of date
		}
		m.fin[s.k] = tr.s
	}
	return true
}

func (m *ccModel) apply(o ccOp) {
	if o.inc {
		// Tick is not one atomic step: the clock moves at once, the collector then takes
		// the lock of every tracked snapshot in turn
		m.tick++
		m.gcNow = m.tick%m.gc == 0
		if m.gcNow {
			for k, tr := range m.tracked {
				if !m.split[k] && m.tick-tr.tick >= m.timeout {
					delete(m.tracked, k)
				}
			}
		}
		return
	}
	if o.gck != "" {
		if tr := m.tracked[o.gck]; m.gcNow && tr != nil && m.tick-tr.tick >= m.timeout {
			delete(m.tracked, o.gck)
		}
		return
	}
	if o.ticks > 0 {
		for i := 0; i < o.ticks; i++ {
			m.tick++
			if m.tick%m.gc == 0 {
				for k, tr := range m.tracked {
					if m.tick-tr.tick >= m.timeout {
						delete(m.tracked, k)
					}
				}
			}
		}
		return
	}
	if m.add(o.s, o.id) {
		m.rets[o.seq] = 'T'
	} else {
		m.rets[o.seq] = 'F'
	}
}

func ccFinCanon(fin map[string]uint64) string {
	keys := make([]string, 0, len(fin))
	for k, from := range fin {
		keys = append(keys, fmt.Sprintf("%s<-%d", k, from))
	}
	sort.Strings(keys)
	return strings.Join(keys, ",")
}

func (m *ccModel) outcome() (string, map[string]uint64) {
	fin := map[string]uint64{}
	for k, s := range m.fin {
		fin[k] = s.from
	}
	return string(m.rets) + " fin[" + ccFinCanon(fin) + "]", fin
}

// ccOrders enumerates the serial orders of the concurrent operations: A alone,
// the adds of B in order, the ticks of T in order; aFirst: A returned before the
// others were started; bBeforeT / tBeforeB: that thread had returned before the
// other one was started.
func ccOrders(c *ccCase, ts []ccOp, aFirst, bBeforeT, tBeforeB bool, visit func(order []ccOp)) {
	order := make([]ccOp, 0, 1+len(c.bs)+len(ts))
	var rec func(aDone bool, ib, it int)
	rec = func(aDone bool, ib, it int) {
		if aDone && ib == len(c.bs) && it == len(ts) {
			visit(order)
			return
		}
		if !aDone {
			order = append(order, c.a)
			rec(true, ib, it)
			order = order[:len(order)-1]
			if aFirst {
				return
			}
		}
		if ib < len(c.bs) && !(tBeforeB && it < len(ts)) {
			order = append(order, c.bs[ib])
			rec(aDone, ib+1, it)
			order = order[:len(order)-1]
		}
		if it < len(ts) && !(bBeforeT && ib < len(c.bs)) {
			order = append(order, ts[it])
			rec(aDone, ib, it+1)
			order = order[:len(order)-1]
		}
	}
	rec(false, 0, 0)
}

// ---------------------------------------------------------------------------
// generation

func ccGenStream(t *rapid.T, c *ccCase, sfs vfs.IFS, n int, role string, mode string, blocks int, base *ccStream) *ccStream {
	lbl := role + "-"
	s := &ccStream{vfStream: &vfStream{n: n, mode: mode}, role: role, content: n}
	switch role {
	case "first":
		s.shard = rapid.Uint64Range(1, 5).Draw(t, lbl+"shard")
		s.to = rapid.Uint64Range(1, 3).Draw(t, lbl+"to")
		s.from = rapid.Uint64Range(4, 6).Draw(t, lbl+"from")
		s.index = rapid.OneOf(rapid.Uint64Range(1, 300), rapid.SampledFrom([]uint64{1<<32 + 5, 1<<63 + 1})).Draw(t, lbl+"index")
	case "retry":
		// another sender streams its own image of the same snapshot
		s.shard, s.to, s.index = base.shard, base.to, base.index
		s.from = base.from + 3
	default:
		s.shard, s.to = base.shard, base.to
		s.index = base.index + 1000 + rapid.Uint64Range(1, 5).Draw(t, lbl+"dindex")
		s.from = base.from
		if rapid.Bool().Draw(t, lbl+"othersender") {
			s.from = base.from + 3
		}
	}
	s.term = rapid.Uint64Range(1, 9).Draw(t, lbl+"term")
	s.onDisk = rapid.Uint64Range(0, 3).Draw(t, lbl+"ondisk")
	s.membership = vfGenMembership(t, lbl)
	p := snapio.Payload{Kind: rapid.SampledFrom([]int{0, 1, 2, 2}).Draw(t, lbl+"paykind"), Seed: rapid.Uint64().Draw(t, lbl+"seed")}
	cs := int(snapshotChunkSize)
	compressed := rapid.IntRange(0, 3).Draw(t, lbl+"compressed") == 0
	var extSizes []int
	if mode == "stream" {
		if blocks <= 1 {
			p.Len = rapid.OneOf(rapid.IntRange(0, 4000), rapid.IntRange(0, 40)).Draw(t, lbl+"len")
		} else {
			// blocks-1 full blocks and a partial one (16 bytes of session data lead the payload)
			p.Len = (blocks-1)*snapio.BlockSize + rapid.SampledFrom([]int{-16, -15, 1, 100, 4096}).Draw(t, lbl+"extra")
		}
	} else {
		if blocks <= 1 {
			p.Len = rapid.OneOf(rapid.IntRange(2*cs, 6*cs), rapid.SampledFrom([]int{3*cs - snapio.HeaderSize - 36, 3*cs - snapio.HeaderSize - 35, 3 * cs})).Draw(t, lbl+"len")
		} else {
			p.Len = (blocks-1)*snapio.BlockSize + rapid.SampledFrom([]int{-16, 1, 100, 4096, snapio.BlockSize / 2}).Draw(t, lbl+"extra")
		}
		ne := rapid.SampledFrom([]int{0, 0, 1, 1, 2}).Draw(t, lbl+"next")
		if (compressed && p.Kind != 2) || snapio.HeaderSize+16+p.Len <= 2*cs {
			// the main file may fit into one or two chunks (compressible payload, big
			// chunks): at least three chunks anyway
			ne = 2
		}
		for i := 0; i < ne; i++ {
			var sz int
			if cs >= 1<<20 {
				sz = rapid.IntRange(1, 5000).Draw(t, lbl+"extsize")
			} else {
				sz = rapid.OneOf(rapid.IntRange(1, 300), rapid.IntRange(1, 3*cs), rapid.SampledFrom([]int{cs - 1, cs, cs + 1, 2 * cs})).Draw(t, lbl+"extsize")
			}
			extSizes = append(extSizes, sz)
		}
	}
	var cuts []int
	if p.Len < 1<<20 {
		cuts = snapio.GenCuts(t, lbl+"w", p.Len, nil)
	} else if rapid.Bool().Draw(t, lbl+"onewrite") {
		cuts = nil
	} else {
		cuts = []int{rapid.IntRange(0, p.Len).Draw(t, lbl+"cut1"), rapid.IntRange(0, p.Len).Draw(t, lbl+"cut2")}
		sort.Ints(cuts)
	}
	vfBuildStream(t, sfs, s.vfStream, p, compressed, cuts, extSizes)
	s.pay = p
	s.k = s.key()
	return s
}

// ccClone is the sender's retry of a snapshot: the same chunks again (the same
// file is split again / the same state is streamed again), optionally by
// another sender id.
func ccClone(base *ccStream, n int, from uint64) *ccStream {
	v := *base.vfStream
	v.n = n
	v.from = from
	v.chunks = make([]pb.Chunk, len(base.chunks))
	for i, ch := range base.chunks {
		ch.From = from
		v.chunks[i] = ch
	}
	return &ccStream{vfStream: &v, k: base.k, pay: base.pay, content: base.content, role: "retry"}
}

func ccGenCase(t *rapid.T, sfs vfs.IFS) *ccCase {
	c := &ccCase{}
	c.gcTick = rapid.Uint64Range(1, 3).Draw(t, "gctick")
	c.timeout = rapid.SampledFrom([]uint64{1, 2, 2, 3, 3, 4}).Draw(t, "timeout")
	mode := rapid.SampledFrom([]string{"stream", "stream", "file", "file"}).Draw(t, "mode")
	blocks := rapid.SampledFrom([]int{1, 1, 1, 1, 1, 1, 1, 1, 1, 1, 1, 1, 1, 1, 1, 1, 1, 1, 1, 1, 1, 1, 1, 1, 1, 1, 1, 1, 1, 2, 3, 4}).Draw(t, "blocks")
	if blocks > 1 {
		c.chunkSize = rapid.SampledFrom([]uint64{1 << 20, 2 << 20, 3 << 19}).Draw(t, "chunksize")
	} else {
		c.chunkSize = rapid.SampledFrom([]uint64{1024, 1024, 1500, 2048, 4096}).Draw(t, "chunksize")
	}
	// the sender side reads the package variable
	snapshotChunkSize = c.chunkSize
	s1 := ccGenStream(t, c, sfs, 0, "first", mode, blocks, nil)
	c.streams = append(c.streams, s1)
	c.retryKind = rapid.SampledFrom([]string{"same-sender", "same-sender", "other-sender-same-bytes", "other-sender-own-bytes"}).Draw(t, "retrykind")
	if c.retryKind == "other-sender-own-bytes" && blocks > 2 {
		c.retryKind = "other-sender-same-bytes"
	}
	var s2 *ccStream
	switch c.retryKind {
	case "same-sender":
		s2 = ccClone(s1, 1, s1.from)
	case "other-sender-same-bytes":
		s2 = ccClone(s1, 1, s1.from+3)
	default:
		s2 = ccGenStream(t, c, sfs, 1, "retry", mode, blocks, s1)
	}
	c.streams = append(c.streams, s2)
	var s3 *ccStream
	if rapid.IntRange(0, 9).Draw(t, "third") < 4 {
		snapshotChunkSize = 1024
		s3 = ccGenStream(t, c, sfs, 2, "other", rapid.SampledFrom([]string{"stream", "file"}).Draw(t, "other-mode"), 1, s1)
		snapshotChunkSize = c.chunkSize
		c.streams = append(c.streams, s3)
	}
	if len(s1.chunks) < 3 || len(s2.chunks) < 3 {
		t.Fatalf("harness: a stream of %d/%d chunks", len(s1.chunks), len(s2.chunks))
	}
	seq := 0
	add := func(who string, s *ccStream, id int) ccOp {
		o := ccOp{s: s, id: id, seq: seq, who: who}
		seq++
		return o
	}
	// the prefix, delivered from one goroutine
	cur3 := 0
	if s3 != nil {
		cur3 = rapid.IntRange(0, len(s3.chunks)-1).Draw(t, "pre-other")
		for i := 0; i < cur3; i++ {
			c.pre = append(c.pre, add("pre", s3, i))
		}
	}
	n1 := len(s1.chunks)
	q := rapid.OneOf(rapid.IntRange(0, n1-1), rapid.SampledFrom([]int{1, n1 - 1, n1 - 2})).Draw(t, "pre-first")
	for i := 0; i < q; i++ {
		c.pre = append(c.pre, add("pre", s1, i))
	}
	if k := rapid.SampledFrom([]int{0, 0, 0, 0, 1, int(c.timeout) - 1}).Draw(t, "pre-ticks"); k > 0 {
		c.pre = append(c.pre, ccOp{ticks: k, who: "pre"})
	}
	j := q
	if q > 0 && rapid.IntRange(0, 6).Draw(t, "a-restarts") == 0 {
		j = 0 // the first attempt itself starts over
	}
	c.a = add("A", s1, j)
	// what B delivers while A is parked
	c.bKind = rapid.SampledFrom([]string{"retry#0", "retry#0", "retry#0", "retry#0,retry#1", "other", "other", "dup", "other,retry#0", "retry#0,other"}).Draw(t, "b-kind")
	if s3 == nil && strings.Contains(c.bKind, "other") {
		c.bKind = rapid.SampledFrom([]string{"retry#0", "retry#0,retry#1", "dup"}).Draw(t, "b-kind2")
	}
	cur2 := 0
	for _, what := range strings.Split(c.bKind, ",") {
		switch what {
		case "retry#0":
			c.bs = append(c.bs, add("B", s2, 0))
			cur2 = 1
		case "retry#1":
			c.bs = append(c.bs, add("B", s2, 1))
			cur2 = 2
		case "other":
			c.bs = append(c.bs, add("B", s3, cur3))
			cur3++
		case "dup":
			c.bs = append(c.bs, add("B", s1, j))
		}
	}
	if rapid.Bool().Draw(t, "ticks-while-parked") {
		k := rapid.IntRange(1, int(c.timeout+c.gcTick)).Draw(t, "nticks")
		for i := 0; i < k; i++ {
			c.ts = append(c.ts, ccOp{ticks: 1, who: "T"})
		}
	}
	c.bFirst = rapid.Bool().Draw(t, "b-first")
	// afterwards, from one goroutine: the rest of the retry, the rest of the
	// other stream, and enough ticks for the collector
	if k := rapid.SampledFrom([]int{0, 0, 0, 0, 1, int(c.timeout) - 1, int(c.timeout + c.gcTick)}).Draw(t, "post-ticks"); k > 0 {
		c.post = append(c.post, ccOp{ticks: k, who: "post"})
	}
	for i := cur2; i < len(s2.chunks); i++ {
		c.post = append(c.post, add("post", s2, i))
	}
	if s3 != nil {
		for i := cur3; i < len(s3.chunks); i++ {
			c.post = append(c.post, add("post", s3, i))
		}
	}
	c.post = append(c.post, ccOp{ticks: int(c.timeout + c.gcTick + 1), who: "post"})
	c.nAdds = seq
	// the steps of T: the keys A and B touch are judged by the collector in steps of their own
	var keys []string
	for _, o := range append([]ccOp{c.a}, c.bs...) {
		if len(keys) == 0 || (len(keys) == 1 && keys[0] != o.s.k) {
			keys = append(keys, o.s.k)
		}
	}
	now := uint64(0)
	for _, o := range c.pre {
		now += uint64(o.ticks)
	}
	korders := [][]string{keys}
	if len(keys) == 2 {
		korders = append(korders, []string{keys[1], keys[0]})
	}
	for _, ko := range korders {
		var steps []ccOp
		for i := range c.ts {
			steps = append(steps, ccOp{inc: true, who: "T"})
			if (now+uint64(i)+1)%c.gcTick == 0 {
				for _, k := range ko {
					steps = append(steps, ccOp{gck: k, who: "T"})
				}
			}
		}
		c.tsteps = append(c.tsteps, steps)
	}
	return c
}

// ---------------------------------------------------------------------------
// execution

const (
	ccSigStaleGC = "c15-conc-collector-stale-record-leaks-retry-temp-dir"

	ccBlockedWait  = 3 * time.Millisecond
	ccDeadlockWait = 60 * time.Second
)

func ccWait(done <-chan struct{}, d time.Duration) bool {
	select {
	case <-done:
		return true
	default:
	}
	tm := time.NewTimer(d)
	defer tm.Stop()
	select {
	case <-done:
		return true
	case <-tm.C:
		return false
	}
}

type ccExec struct {
	recv       *ccRecv
	res        []ccRes
	tickPanic  interface{}
	parked     bool
	parkedAt   string
	bStatus    string // none | ran | blocked
	tStatus    string
	aFirst     bool
	bBeforeT   bool
	tBeforeB   bool
	deadlocked bool
	log        []string
}

func (x *ccExec) seqOp(o ccOp) bool {
	if o.ticks > 0 {
		for i := 0; i < o.ticks; i++ {
			if pv := x.recv.tick(); pv != nil {
				x.tickPanic = pv
				x.log = append(x.log, fmt.Sprintf("%s -> panic %v", o, pv))
				return false
			}
		}
		x.log = append(x.log, o.String())
		return true
	}
	r := x.recv.add(o.s.chunks[o.id])
	x.res[o.seq] = r
	x.log = append(x.log, fmt.Sprintf("%s -> %v panic=%v", o, r.ok, r.pv != nil))
	return r.pv == nil
}

// ccDryRun learns the operations Add(A) performs after the prefix.
func ccDryRun(c *ccCase, mkdirs func(fs vfs.IFS)) ([]string, bool) {
	x := &ccExec{recv: newCCRecv(), res: make([]ccRes, c.nAdds)}
	mkdirs(x.recv.mem)
	for _, o := range c.pre {
		if !x.seqOp(o) {
			return nil, false
		}
	}
	x.recv.g.arm(-1, true)
	x.recv.add(c.a.s.chunks[c.a.id])
	return x.recv.g.disarm(), true
}

func ccRun(c *ccCase, mkdirs func(fs vfs.IFS)) *ccExec {
	x := &ccExec{recv: newCCRecv(), res: make([]ccRes, c.nAdds), bStatus: "none", tStatus: "none"}
	mkdirs(x.recv.mem)
	for _, o := range c.pre {
		if !x.seqOp(o) {
			return x
		}
	}
	g := x.recv.g
	if len(c.dryOps) > 0 {
		g.arm(c.p, false)
	}
	aDone := make(chan struct{})
	go func() {
		x.res[c.a.seq] = x.recv.add(c.a.s.chunks[c.a.id])
		close(aDone)
	}()
	select {
	case <-g.parked:
		x.parked = true
		x.parkedAt = g.parkedAt
		x.log = append(x.log, fmt.Sprintf("%s parked before operation %d (%s) of %d", c.a, c.p, g.parkedAt, len(c.dryOps)))
	case <-aDone:
		x.aFirst = true
		r := x.res[c.a.seq]
		x.log = append(x.log, fmt.Sprintf("%s -> %v panic=%v (never parked: %d operations)", c.a, r.ok, r.pv != nil, len(c.dryOps)))
	case <-time.After(ccDeadlockWait):
		x.deadlocked = true
		x.log = append(x.log, "A neither parked nor returned")
		return x
	}
	g.disarm()
	bDone := make(chan struct{})
	tDone := make(chan struct{})
	var tPanic interface{}
	startB := func() bool {
		if len(c.bs) == 0 {
			close(bDone)
			return true
		}
		go func() {
			for _, o := range c.bs {
				x.res[o.seq] = x.recv.add(o.s.chunks[o.id])
			}
			close(bDone)
		}()
		w := ccBlockedWait
		for _, o := range c.bs {
			w += time.Duration(len(o.s.chunks[o.id].Data)>>20) * 2 * time.Millisecond
		}
		if ccWait(bDone, w) {
			x.bStatus = "ran"
			return true
		}
		x.bStatus = "blocked"
		return false
	}
	startT := func() bool {
		if len(c.ts) == 0 {
			close(tDone)
			return true
		}
		go func() {
			for range c.ts {
				if pv := x.recv.tick(); pv != nil {
					tPanic = pv
					break
				}
			}
			close(tDone)
		}()
		if ccWait(tDone, ccBlockedWait) {
			x.tStatus = "ran"
			return true
		}
		x.tStatus = "blocked"
		return false
	}
	if c.bFirst {
		x.bBeforeT = startB() && len(c.bs) > 0 && len(c.ts) > 0
		startT()
	} else {
		x.tBeforeB = startT() && len(c.bs) > 0 && len(c.ts) > 0
		startB()
	}
	x.log = append(x.log, fmt.Sprintf("while A is parked=%v: B [%s] %s, T x%d %s (B first: %v)", x.parked, ccOps(c.bs), x.bStatus, len(c.ts), x.tStatus, c.bFirst))
	close(g.release)
	dead := time.After(ccDeadlockWait)
	for _, ch := range []chan struct{}{aDone, bDone, tDone} {
		select {
		case <-ch:
		case <-dead:
			x.deadlocked = true
			x.log = append(x.log, "not every goroutine returned after A was released")
			return x
		}
	}
	x.tickPanic = tPanic
	for _, o := range append([]ccOp{c.a}, c.bs...) {
		r := x.res[o.seq]
		x.log = append(x.log, fmt.Sprintf("%s -> %v panic=%v", o, r.ok, r.pv != nil))
	}
	if tPanic != nil {
		return x
	}
	for _, o := range append([]ccOp{c.a}, c.bs...) {
		if x.res[o.seq].pv != nil {
			return x
		}
	}
	for _, o := range c.post {
		if !x.seqOp(o) {
			return x
		}
	}
	return x
}

// ---------------------------------------------------------------------------
// the property

func ccProp(st *vfhelp.Stats) func(t *rapid.T) {
	return func(t *rapid.T) {
		oldCS, oldGC, oldTO := snapshotChunkSize, gcIntervalTick, snapshotChunkTimeoutTick
		defer func() { snapshotChunkSize, gcIntervalTick, snapshotChunkTimeoutTick = oldCS, oldGC, oldTO }()
		sfs := vfs.NewMemFS()
		c := ccGenCase(t, sfs)
		gcIntervalTick, snapshotChunkTimeoutTick = c.gcTick, c.timeout
		mkdirs := func(fs vfs.IFS) {
			for _, s := range c.streams {
				if err := fs.MkdirAll(vfDir(fs)(s.shard, s.to), 0o755); err != nil {
					t.Fatalf("mkdir %v", err)
				}
			}
		}
		dry, ok := ccDryRun(c, mkdirs)
		if !ok {
			vfhelp.Fail(t, "c15-conc-add-panics", "the receiver panicked while the prefix was delivered from one goroutine\ncase: %s\nprefix: %s", c.desc(), ccOps(c.pre))
		}
		c.dryOps = dry
		if len(dry) > 0 {
			c.p = rapid.IntRange(0, len(dry)-1).Draw(t, "park-at")
		}
		x := ccRun(c, mkdirs)
		labels := map[string]bool{}
		label := func(l string) { labels[l] = true }
		trace := func() string {
			return fmt.Sprintf("case: %s\nprefix: %s\nA: %s (operations of this call: %v)\nB: %s  T: %d ticks\nafterwards: %s\ntrace:\n  %s",
				c.desc(), ccOps(c.pre), c.a, c.dryOps, ccOps(c.bs), len(c.ts), ccOps(c.post), strings.Join(x.log, "\n  "))
		}
		fail := func(sig string, format string, args ...interface{}) {
			vfhelp.Fail(t, sig, "%s\n%s", fmt.Sprintf(format, args...), trace())
		}
		if x.deadlocked {
			fail("c15-conc-deadlock", "the receiver did not return within %v", ccDeadlockWait)
		}
		if len(dry) > 0 && !x.parked {
			t.Fatalf("harness: the dry run saw %d operations but A was never parked at %d\n%s", len(dry), c.p, trace())
		}
		if x.parked && x.parkedAt != dry[c.p] {
			t.Fatalf("harness: parked at %s, the dry run had %s there\n%s", x.parkedAt, dry[c.p], trace())
		}
		// 1. fail-stop
		for i, r := range x.res {
			if r.pv != nil {
				fail("c15-conc-add-panics", "Add (result slot %d) panicked on a chunk the sender produced: %v", i, r.pv)
			}
		}
		if x.tickPanic != nil {
			fail("c15-conc-tick-panics", "Tick panicked: %v", x.tickPanic)
		}
		// 2. what was finalized
		rfs := x.recv.mem
		streamOf := func(key string, from uint64) *ccStream {
			for _, s := range c.streams {
				if s.k == key && s.from == from {
					return s
				}
			}
			return nil
		}
		gotFin := map[string]uint64{}
		for _, mb := range x.recv.msgs {
			if len(mb.Requests) != 1 {
				fail("c15-conc-notification-wrong", "a notification batch of %d messages", len(mb.Requests))
			}
			m := mb.Requests[0]
			key := fmt.Sprintf("%d:%d:%d", m.ShardID, m.To, m.Snapshot.Index)
			if _, ok := gotFin[key]; ok {
				fail("c15-conc-finalized-twice", "two InstallSnapshot notifications for %s", key)
			}
			gotFin[key] = m.From
			s := streamOf(key, m.From)
			if s == nil {
				fail("c15-conc-notification-wrong", "notification for %s from %d: no such stream", key, m.From)
			}
			fd := rfs.PathJoin(vfDir(rfs)(s.shard, s.to), server.GetSnapshotDirName(s.index))
			bad := ""
			switch {
			case mb.DeploymentId != vfDid || mb.BinVer != raftio.TransportBinVersion:
				bad = "batch deployment id / bin version"
			case m.Type != pb.InstallSnapshot:
				bad = "type"
			case m.Snapshot.Term != s.term || m.Snapshot.OnDiskIndex != s.onDisk:
				bad = "term/on-disk index"
			case !reflect.DeepEqual(m.Snapshot.Membership, s.membership):
				bad = "membership"
			case m.Snapshot.Filepath != rfs.PathJoin(fd, s.mainName):
				bad = "file path " + m.Snapshot.Filepath
			case m.Snapshot.FileSize != s.firstSize:
				bad = "file size"
			case len(m.Snapshot.Files) != len(s.exts):
				bad = fmt.Sprintf("%d external files", len(m.Snapshot.Files))
			}
			for i, e := range s.exts {
				if bad != "" {
					break
				}
				f := m.Snapshot.Files[i]
				if f.FileId != e.id || f.FileSize != uint64(len(e.data)) || !bytes.Equal(f.Metadata, e.meta) ||
					f.Filepath != rfs.PathJoin(fd, fmt.Sprintf("external-file-%d", e.id)) {
					bad = fmt.Sprintf("external file %d: %+v", i, f)
				}
			}
			if bad != "" {
				fail("c15-conc-notification-wrong", "InstallSnapshot notification for %s does not describe it: %s; message %+v", s.desc(), bad, m)
			}
		}
		if len(x.recv.confirms) != len(x.recv.msgs) {
			fail("c15-conc-confirm-count", "%d confirmations for %d notifications", len(x.recv.confirms), len(x.recv.msgs))
		}
		// 3. the files
		files, dirs := vfScan(rfs)
		want := map[string][]byte{}
		for key, from := range gotFin {
			s := streamOf(key, from)
			fd := rfs.PathJoin(vfDir(rfs)(s.shard, s.to), server.GetSnapshotDirName(s.index))
			want[rfs.PathJoin(fd, s.mainName)] = s.mainBytes
			want[rfs.PathJoin(fd, fileutil.SnapshotFlagFilename)] = nil
			for _, e := range s.exts {
				want[rfs.PathJoin(fd, fmt.Sprintf("external-file-%d", e.id))] = e.data
			}
		}
		var unexpected []string
		for _, f := range files {
			data, ok := want[f]
			if !ok {
				unexpected = append(unexpected, f)
				continue
			}
			delete(want, f)
			if data == nil {
				continue
			}
			got, err := snapio.ReadFile(rfs, f)
			if err != nil {
				t.Fatalf("read %v", err)
			}
			if !bytes.Equal(got, data) {
				d := 0
				for d < len(got) && d < len(data) && got[d] == data[d] {
					d++
				}
				fail("c15-conc-finalized-file-differs", "finalized file %s (%d bytes) differs from the source (%d bytes), first difference at %d", f, len(got), len(data), d)
			}
		}
		for f := range want {
			fail("c15-conc-finalized-file-missing", "a notification was raised but %s does not exist", f)
		}
		for key, from := range gotFin {
			s := streamOf(key, from)
			fp := rfs.PathJoin(vfDir(rfs)(s.shard, s.to), server.GetSnapshotDirName(s.index), s.mainName)
			got, err := snapio.ReadFile(rfs, fp)
			if err != nil {
				t.Fatalf("read %v", err)
			}
			var datas [][]byte
			off := 0
			for _, ch := range s.chunks {
				if !ch.HasFileInfo {
					datas = append(datas, got[off:off+len(ch.Data)])
					off += len(ch.Data)
				}
			}
			if v := snapio.ValidateChunks(datas); !v.Accepted {
				fail("c15-conc-finalized-file-unloadable", "the finalized main file of %s is refused by the snapshot validator (%s %v)", s.desc(), v.Where, v.Panic)
			}
			l := snapio.LoadFile(rfs, fp, nil, false)
			payload := s.pay.Bytes()
			if l.Failed() || !l.SM.Done || !bytes.Equal(l.SM.Got, payload) {
				fail("c15-conc-finalized-file-unloadable", "the finalized main file of %s does not load back with the %d payload bytes written: %s, state machine got %d bytes",
					s.desc(), len(payload), l.Why(), len(l.SM.Got))
			}
		}
		// 4. some serial order of the concurrent calls explains the outcome
		got := make([]byte, c.nAdds)
		for i, r := range x.res {
			switch {
			case !r.done:
				got[i] = '?'
			case r.ok:
				got[i] = 'T'
			default:
				got[i] = 'F'
			}
		}
		gotCanon := string(got) + " fin[" + ccFinCanon(gotFin) + "]"
		outcomes := map[string]string{}
		var fins []map[string]uint64
		norders, matched := 0, 0
		aPos := map[string]bool{}
		for _, tsteps := range c.tsteps {
			ccOrders(c, tsteps, x.aFirst, x.bBeforeT, x.tBeforeB, func(order []ccOp) {
				norders++
				m := newCCModel(c)
				for _, o := range c.pre {
					m.apply(o)
				}
				for _, o := range order {
					m.apply(o)
				}
				for _, o := range c.post {
					m.apply(o)
				}
				oc, fin := m.outcome()
				if _, ok := outcomes[oc]; !ok {
					outcomes[oc] = ccOps(order)
					fins = append(fins, fin)
				}
				if oc == gotCanon {
					matched++
					// where A stands relative to the adds of B
					for i, o := range order {
						if o.who == "A" {
							nb := 0
							for _, o2 := range order[:i] {
								if o2.who == "B" {
									nb++
								}
							}
							switch {
							case len(c.bs) == 0:
							case nb == 0:
								aPos["A<B"] = true
							case nb == len(c.bs):
								aPos["B<A"] = true
							default:
								aPos["B1<A<B2"] = true
							}
						}
					}
				}
			})
		}
		if matched == 0 {
			var all []string
			for oc, order := range outcomes {
				all = append(all, fmt.Sprintf("%s   by %s", oc, order))
			}
			sort.Strings(all)
			for key, from := range gotFin {
				found := false
				for _, fin := range fins {
					if f, ok := fin[key]; ok && f == from {
						found = true
					}
				}
				if !found {
					fail("c15-conc-invalid-stream-finalized", "snapshot %s was finalized from sender %d, which no serial order of the concurrent calls does\nobserved: %s\nserial orders give:\n  %s",
						key, from, gotCanon, strings.Join(all, "\n  "))
				}
			}
			for key := range fins[0] {
				every := true
				for _, fin := range fins {
					if _, ok := fin[key]; !ok {
						every = false
					}
				}
				if _, ok := gotFin[key]; every && !ok {
					fail("c15-conc-complete-stream-not-finalized", "every serial order of the concurrent calls finalizes %s, the receiver did not\nobserved: %s\nserial orders give:\n  %s",
						key, gotCanon, strings.Join(all, "\n  "))
				}
			}
			fail("c15-conc-not-serializable", "no serial order of the concurrent calls (%d orders, %d distinct outcomes) produces the observed results\nobserved: %s\nserial orders give:\n  %s",
				norders, len(outcomes), gotCanon, strings.Join(all, "\n  "))
		}
		// 5. nothing else is left behind
		tolerated := ""
		for _, d := range dirs {
			if strings.HasSuffix(d, ".receiving") || strings.HasSuffix(d, ".generating") {
				s1, s2 := c.streams[0], c.streams[1]
				retryTmp := rfs.PathJoin(vfDir(rfs)(s2.shard, s2.to), fmt.Sprintf("%s-%d.receiving", server.GetSnapshotDirName(s2.index), s2.from))
				if d == retryTmp && s2.from != s1.from && x.parked && len(c.ts) > 0 && !x.bBeforeT && !x.tBeforeB && strings.Contains(c.bKind, "retry#0") {
					// the collector (waiting for the snapshot lock together with the first chunk
					// of another sender's retry) judged the record it had looked up earlier
					label("known:collector-stale-record-leaks-retry-temp-dir")
					st.Known(t, ccSigStaleGC, "temporary directory %s of the retry still exists %d ticks after its last chunk and nothing tracks it (timeout %d, gc interval %d): "+
						"the collector ran concurrently with the first chunk of the retry of another sender\n%s", d, c.timeout+c.gcTick+1, c.timeout, c.gcTick, trace())
					tolerated = d
					continue
				}
				fail("c15-conc-temp-dir-not-collected", "temporary directory %s still exists %d ticks after the last chunk (timeout %d, gc interval %d)", d, c.timeout+c.gcTick+1, c.timeout, c.gcTick)
			}
		}
		var left []string
		for _, f := range unexpected {
			if tolerated == "" || !strings.HasPrefix(f, tolerated+"/") {
				left = append(left, f)
			}
		}
		if len(left) > 0 {
			fail("c15-conc-unexpected-file", "unexpected files after the run: %v", left)
		}
		// evidence
		label("mode=" + c.streams[0].mode)
		label("retry=" + c.retryKind)
		label(fmt.Sprintf("streams=%d", len(c.streams)))
		label(fmt.Sprintf("exts=%d", len(c.streams[0].exts)))
		nb := (c.streams[0].pay.Len + 16 + snapio.BlockSize - 1) / snapio.BlockSize
		if nb < 1 {
			nb = 1
		}
		label(fmt.Sprintf("blocks=%d", nb))
		nch := len(c.streams[0].chunks)
		switch {
		case nch <= 3:
			label("chunks=3")
		case nch <= 6:
			label("chunks=4-6")
		default:
			label("chunks>6")
		}
		switch {
		case c.a.id == 0 && ccHasAdd(c.pre, c.a.s):
			label("A=first-chunk-restarting-its-stream")
		case c.a.id == 0:
			label("A=first-chunk")
		case c.a.id == nch-1:
			label("A=last-chunk")
		default:
			label("A=middle-chunk")
		}
		label("B=" + c.bKind)
		label("B:" + x.bStatus)
		label("T:" + x.tStatus)
		if x.parked {
			label("A-parked-at:" + x.parkedAt)
			if c.p == 0 {
				label("A-parked-before-its-first-operation")
			}
			if c.p == len(dry)-1 {
				label("A-parked-before-its-last-operation")
			}
		} else {
			label("A-not-parked(no-operations:refused-chunk)")
		}
		if x.bBeforeT {
			label("B-returned-before-T-started")
		}
		if x.tBeforeB {
			label("T-returned-before-B-started")
		}
		var ap []string
		for k := range aPos {
			ap = append(ap, k)
		}
		sort.Strings(ap)
		if len(ap) > 0 {
			label("explained-by:" + strings.Join(ap, "|"))
		}
		if len(outcomes) > 1 {
			label("serial-orders-differ-in-outcome")
		} else {
			label("serial-orders-all-same-outcome")
		}
		label(fmt.Sprintf("finalized=%d", len(gotFin)))
		for key, from := range gotFin {
			if key == c.streams[0].k {
				switch {
				case c.streams[1].from == c.streams[0].from:
					label("snapshot-finalized")
				case from == c.streams[0].from:
					label("snapshot-finalized-from-first-attempt")
				default:
					label("snapshot-finalized-from-retry")
				}
			}
		}
		nt := x.parked && x.bStatus != "none" && nch >= 3
		ls := make([]string, 0, len(labels))
		for l := range labels {
			ls = append(ls, l)
		}
		sort.Strings(ls)
		canon := fmt.Sprintf("%s|%s|%s|p=%d|%s|T%d|%v|%s|%s", c.desc(), ccOps(c.pre), c.a, c.p, ccOps(c.bs), len(c.ts), c.bFirst, ccOps(c.post), gotCanon)
		st.Case([]byte(canon), nt, ls...)
		if nt && st.WantSample() {
			st.Sample(map[string]interface{}{"case": c.desc(), "prefix": ccOps(c.pre), "A": c.a.String(), "operations_of_A": c.dryOps, "parked_before": c.p,
				"B": ccOps(c.bs), "ticks_while_parked": len(c.ts), "afterwards": ccOps(c.post), "trace": x.log, "outcome": gotCanon, "serial_orders": norders, "distinct_outcomes": len(outcomes)})
		}
	}
}

func ccHasAdd(ops []ccOp, s *ccStream) bool {
	for _, o := range ops {
		if o.ticks == 0 && o.s == s {
			return true
		}
	}
	return false
}

func TestVF_C15_ConcurrentReceive(t *testing.T) {
	st := vfhelp.NewStats("TestVF_C15_ConcurrentReceive",
		"a snapshot of 1-4 blocks (streamed by rsm.ChunkWriter through a real streaming job / file based with 0-2 external files split by the real sender code), its retry for the same key "+
			"(same sender, other sender with the same bytes, other sender with its own bytes) and optionally a stream for another index; a prefix delivered from one goroutine, then chunk j of the first attempt "+
			"on goroutine A, parked by the harness file system right before its p-th operation (file system call, snapshot directory lookup, callback; p over all operations of that call, learnt by a dry run); "+
			"while A is parked goroutine B delivers 1-2 chunks (first chunk(s) of the retry / next chunk of the other stream / duplicate of chunk j) and goroutine T ticks 0..timeout+gc times; A is released, "+
			"the rest of the retry and of the other stream follow from one goroutine, then timeout+gc+1 ticks. Oracle: results of every Add, finalized snapshots (bytes, validator, load) and notifications equal a reference "+
			"receiver's for some serial order of A, B's adds and the steps of the ticks (clock step, then one collector step per key A or B touches); non-trivial = A was parked inside Add while B's Add ran (returned or observed blocked) and the stream has >= 3 chunks")
	defer st.Flush()
	st.Set("blocked_wait_ms", int(ccBlockedWait/time.Millisecond))
	rapid.Check(t, ccProp(st))
}

// TestVF_C15_ReproStaleCollector is the fixed-scenario reproduction of the
// finding c15-conc-collector-stale-record-leaks-retry-temp-dir (see
// /verif/findings/E5.md, finding 6). It is not generated: sender 4 streams
// snapshot 1:2:100, its first chunk is held inside Add by a slow disk; the first
// chunk of the same snapshot streamed by sender 7 and the collector tick both
// wait for the snapshot lock. Whenever the chunk gets the lock before the
// collector, the collector drops the record of sender 7's stream using the age
// of sender 4's record. Reports through Stats.Known.
func TestVF_C15_ReproStaleCollector(t *testing.T) {
	st := vfhelp.NewStats("TestVF_C15_ReproStaleCollector", "fixed scenario, up to 20 attempts (the order in which the two waiters get the lock is the scheduler's)")
	defer st.Flush()
	oldCS, oldGC, oldTO := snapshotChunkSize, gcIntervalTick, snapshotChunkTimeoutTick
	snapshotChunkSize, gcIntervalTick, snapshotChunkTimeoutTick = 1024, 1, 1
	defer func() { snapshotChunkSize, gcIntervalTick, snapshotChunkTimeoutTick = oldCS, oldGC, oldTO }()
	sfs := vfs.NewMemFS()
	first := &ccStream{vfStream: &vfStream{n: 0, mode: "stream", shard: 1, to: 2, from: 4, index: 100, term: 3,
		membership: pb.Membership{Addresses: map[uint64]string{1: "a1"}}}, role: "first"}
	vfBuildStream(t, sfs, first.vfStream, snapio.Payload{Kind: 2, Seed: 42, Len: 500}, false, nil, nil)
	first.k = first.key()
	retry := ccClone(first, 1, 7)
	for attempt := 1; attempt <= 20; attempt++ {
		r := newCCRecv()
		root := vfDir(r.mem)(first.shard, first.to)
		if err := r.mem.MkdirAll(root, 0o755); err != nil {
			t.Fatalf("mkdir %v", err)
		}
		r.g.arm(0, false)
		aDone, bDone, tDone := make(chan ccRes, 1), make(chan ccRes, 1), make(chan struct{})
		go func() { aDone <- r.add(first.chunks[0]) }()
		<-r.g.parked // sender 4's first chunk is inside Add, holding the snapshot lock
		go func() { bDone <- r.add(retry.chunks[0]) }()
		time.Sleep(20 * time.Millisecond) // (lets sender 7's first chunk reach the lock first)
		go func() { r.tick(); close(tDone) }()
		time.Sleep(20 * time.Millisecond)
		close(r.g.release)
		a, b := <-aDone, <-bDone
		<-tDone
		var rest []bool
		for _, ch := range retry.chunks[1:] {
			rest = append(rest, r.add(ch).ok)
		}
		for i := 0; i < 5; i++ {
			r.tick()
		}
		_, dirs := vfScan(r.mem)
		var left []string
		for _, d := range dirs {
			if strings.HasSuffix(d, ".receiving") {
				left = append(left, d)
			}
		}
		t.Logf("attempt %d: first#0 -> %v, retry#0 -> %v, rest of the retry -> %v, notifications %d, temporary directories after 5 more ticks: %v",
			attempt, a.ok, b.ok, rest, len(r.msgs), left)
		st.Case([]byte(fmt.Sprintf("%d", attempt)), len(left) > 0, fmt.Sprintf("leaked=%v", len(left) > 0))
		if len(left) > 0 {
			st.Known(t, ccSigStaleGC, "sender 7's stream was accepted (first chunk -> %v), every later chunk refused %v, and %v is never collected", b.ok, rest, left)
			return
		}
	}
	t.Logf("not reproduced in 20 attempts (the collector always got the lock first)")
}
