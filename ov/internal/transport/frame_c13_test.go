package transport

// C13, transport frames (in-package, white box).
//
// Frame layout as written by writeMessage (tcp.go):
//
//	offset 0   2 bytes  magic number 0xAE 0x7D
//	offset 2   2 bytes  method  (big endian; 100 = raft message batch, 200 = snapshot chunk)
//	offset 4   8 bytes  size    (big endian payload length)
//	offset 12  4 bytes  header CRC-32 (IEEE) over the 18 header bytes with this field zeroed
//	offset 16  4 bytes  payload CRC-32 (IEEE) over the payload (0 and unchecked when the
//	                    connection is TLS protected: `encrypted`)
//	offset 20  size bytes payload
//
// What the checks guarantee, derived from the code (requestHeader.encode/decode,
// readMagicNumber, readMessage):
//
//   - magic: compared for equality, so every change of the two bytes is rejected
//     (as ErrBadMessage, or as errPoisonReceived if it happens to become 0x0000 -
//     both end the connection without delivering anything).
//   - header: the header CRC covers method, size and the payload CRC field. A
//     corrupted header h' with CRC field c' is accepted iff crc(h' with field
//     zeroed) == c'. With e_d the error in the covered bytes and e_c the error
//     in the CRC field this is G(x) | e_d(x)*x^32 + e_c(x) in the usual CRC
//     algebra. Hence guaranteed detected: every single bit flip; every burst
//     (<= 32 bits) that lies completely inside the covered bytes or completely
//     inside the CRC field. A burst that straddles the border between covered
//     bytes and the embedded CRC field is NOT guaranteed (the CRC sits in the
//     middle of the header, not at its end, so the classical burst guarantee
//     does not apply); such a corruption is only asserted when the reference
//     model below says the checksum does not match, which is decided by
//     recomputing the CRC, never by assumption.
//   - method: after the CRC only 100 and 200 are accepted.
//   - size: size == 0 is rejected; otherwise exactly size bytes are read.
//   - payload (not encrypted): accepted iff crc(payload') == header payload CRC.
//     Guaranteed detected: every single bit flip and every burst <= 32 bits
//     inside the payload. When `encrypted` the payload is not covered at all:
//     nothing is asserted for payload corruption then.
//   - truncation: the reader hits EOF before magic+header+size bytes arrived =>
//     io.ReadFull fails => error. Every proper prefix must be rejected.
//
// The oracle is a reference decoder (refDecode) written from the layout above.
// For every corrupted / truncated stream: if the reference decoder rejects it,
// the real reader must return an error. If the reference decoder accepts it
// (checksum collision or corruption the format does not cover) nothing is
// asserted and the case is counted as "undetectable-by-design". For the
// guaranteed classes above the reference decoder accepting would mean that the
// derivation is wrong: that is reported as inconclusive, not as a violation.

import (
	"bytes"
	"encoding/binary"
	"fmt"
	"hash/crc32"
	"io"
	"net"
	"reflect"
	"testing"
	"time"

	"github.com/lni/dragonboat/v4/internal/vfhelp"
	"github.com/lni/dragonboat/v4/internal/vfx/codec"
	"github.com/lni/dragonboat/v4/logger"
	pb "github.com/lni/dragonboat/v4/raftpb"
	"pgregory.net/rapid"
)

const (
	vfMagicLen  = 2
	vfHeaderOff = 2
	vfHeaderLen = requestHeaderSize
	vfMethodOff = 2  // frame offsets
	vfSizeOff   = 4  //
	vfHCRCOff   = 12 //
	vfPCRCOff   = 16 //
	vfPayOff    = 20 //
)

// memConn is an in-memory net.Conn: reads come from rd, writes go to wr.
// Deadlines are accepted and ignored; reading past the data returns io.EOF.
type memConn struct {
	rd *bytes.Reader
	wr bytes.Buffer
}

type memAddr struct{}

func (memAddr) Network() string { return "mem" }
func (memAddr) String() string  { return "mem" }

func (c *memConn) Read(b []byte) (int, error) {
	if c.rd == nil {
		return 0, io.EOF
	}
	return c.rd.Read(b)
}
func (c *memConn) Write(b []byte) (int, error)        { return c.wr.Write(b) }
func (c *memConn) Close() error                       { return nil }
func (c *memConn) LocalAddr() net.Addr                { return memAddr{} }
func (c *memConn) RemoteAddr() net.Addr               { return memAddr{} }
func (c *memConn) SetDeadline(t time.Time) error      { return nil }
func (c *memConn) SetReadDeadline(t time.Time) error  { return nil }
func (c *memConn) SetWriteDeadline(t time.Time) error { return nil }

func readerConn(stream []byte) *memConn { return &memConn{rd: bytes.NewReader(stream)} }

// refDecode is the reference decoder of one frame at the start of stream.
func refDecode(stream []byte, encrypted bool) (ok bool, method uint16, payload []byte, why string) {
	if len(stream) < vfMagicLen {
		return false, 0, nil, "short-magic"
	}
	if stream[0] != 0xAE || stream[1] != 0x7D {
		return false, 0, nil, "bad-magic"
	}
	if len(stream) < vfPayOff {
		return false, 0, nil, "short-header"
	}
	h := append([]byte(nil), stream[vfHeaderOff:vfPayOff]...)
	stored := binary.BigEndian.Uint32(h[10:])
	binary.BigEndian.PutUint32(h[10:], 0)
	if crc32.ChecksumIEEE(h) != stored {
		return false, 0, nil, "header-crc"
	}
	method = binary.BigEndian.Uint16(h[0:])
	if method != 100 && method != 200 {
		return false, 0, nil, "method"
	}
	size := binary.BigEndian.Uint64(h[2:])
	if size == 0 {
		return false, 0, nil, "zero-size"
	}
	if uint64(len(stream)-vfPayOff) < size {
		return false, 0, nil, "short-payload"
	}
	payload = stream[vfPayOff : vfPayOff+int(size)]
	if !encrypted && crc32.ChecksumIEEE(payload) != binary.BigEndian.Uint32(h[14:]) {
		return false, 0, nil, "payload-crc"
	}
	return true, method, payload, ""
}

// scratch holds the receive side buffers, reused between decodes the way
// serveConn reuses them between frames.
type scratch struct {
	magic  []byte
	header []byte
	rbuf   []byte
}

func newScratch(rbufLen int) *scratch {
	return &scratch{magic: make([]byte, len(magicNumber)), header: make([]byte, requestHeaderSize), rbuf: make([]byte, rbufLen)}
}

// realDecode runs the real reader (what serveConn does for one frame) over
// stream.
func realDecode(stream []byte, encrypted bool, sc *scratch) (rh requestHeader, payload []byte, err error, panicked interface{}) {
	defer func() {
		if r := recover(); r != nil {
			panicked = r
		}
	}()
	conn := readerConn(stream)
	if err = readMagicNumber(conn, sc.magic); err != nil {
		return
	}
	rh, payload, err = readMessage(conn, sc.header, sc.rbuf, encrypted)
	return
}

type frameValue struct {
	method uint16
	batch  pb.MessageBatch
	chunk  pb.Chunk
}

func normBatchForCompare(b *pb.MessageBatch) {
	if len(b.Requests) == 0 {
		b.Requests = nil
	}
	for i := range b.Requests {
		m := &b.Requests[i]
		if len(m.Entries) == 0 {
			m.Entries = nil
		}
		for j := range m.Entries {
			if len(m.Entries[j].Cmd) == 0 {
				m.Entries[j].Cmd = nil
			}
		}
		normSnapshotForCompare(&m.Snapshot)
	}
}

func normMembershipForCompare(m *pb.Membership) {
	if len(m.Addresses) == 0 {
		m.Addresses = nil
	}
	if len(m.Removed) == 0 {
		m.Removed = nil
	}
	if len(m.NonVotings) == 0 {
		m.NonVotings = nil
	}
	if len(m.Witnesses) == 0 {
		m.Witnesses = nil
	}
}

func normSnapshotForCompare(s *pb.Snapshot) {
	normMembershipForCompare(&s.Membership)
	if len(s.Files) == 0 {
		s.Files = nil
	}
}

// flipBit flips bit i (0 = most significant bit of byte 0) of b.
func flipBit(b []byte, i int) { b[i/8] ^= 0x80 >> uint(i%8) }

func regionOf(byteOff int) string {
	switch {
	case byteOff < vfMethodOff:
		return "magic"
	case byteOff < vfSizeOff:
		return "method"
	case byteOff < vfHCRCOff:
		return "size"
	case byteOff < vfPCRCOff:
		return "header-crc"
	case byteOff < vfPayOff:
		return "payload-crc"
	default:
		return "payload"
	}
}

func TestVF_C13_Frame(t *testing.T) {
	plog.SetLevel(logger.CRITICAL) // the reader logs every rejected frame
	st := vfhelp.NewStats("TestVF_C13_Frame",
		"a generated MessageBatch / Chunk is written with the real writeMessage (directly or through TCPConnection.SendMessageBatch / "+
			"TCPSnapshotConnection.SendChunk) into an in-memory conn with a drawn recvBufSize, 1-3 frames per stream, read back with "+
			"readMagicNumber/readMessage and compared; then for the first frame: every single-bit flip of magic+header+payload "+
			"(exhaustive when the payload <= 256 bytes, all of magic+header plus a boundary-biased sample of payload bits otherwise), "+
			"bursts <= 32 bits, every truncation length; a reference decoder decides whether the checksum covers the corruption. "+
			"non-trivial = the frame was attacked by corruptions that land in the header CRC and in the length field and by truncations "+
			"(true for every case that is not encrypted-only) and the value has uint64 fields on both sides of 2^49; "+
			"distinct = distinct (frame bytes, encrypted, recvBufSize)")
	defer st.Flush()
	defaultRecvBufSize := recvBufSize
	defer func() { recvBufSize = defaultRecvBufSize }()

	rapid.Check(t, func(t *rapid.T) {
		meta := codec.NewMeta()
		encrypted := codec.Pick(t, "encrypted", 2) == 0
		small := codec.Pick(t, "small", 3) < 5
		lim := codec.SmallLimits()
		if !small {
			lim = codec.Limits{MaxCmd: 300, MaxElems: 3, Boundary: true}
		}
		nframes := rapid.SampledFrom([]int{1, 1, 2, 3}).Draw(t, "nframes")
		values := make([]frameValue, nframes)
		for i := range values {
			if rapid.Bool().Draw(t, "is-chunk") {
				values[i] = frameValue{method: snapshotType, chunk: codec.Chunk(t, lim, meta)}
			} else {
				values[i] = frameValue{method: raftType, batch: codec.MessageBatch(t, lim, meta)}
			}
		}
		// recvBufSize is a documented soft setting (PerConnectionRecvBufSize);
		// small values make the chunked write / read loops iterate
		rbs := rapid.SampledFrom([]uint64{defaultRecvBufSize, defaultRecvBufSize, 16, 33, 64, 100, 256, 1024}).Draw(t, "recvbufsize")
		recvBufSize = rbs
		defer func() { recvBufSize = defaultRecvBufSize }()

		// ---- write -------------------------------------------------------
		wconn := &memConn{}
		viaConnection := rapid.Bool().Draw(t, "via-connection")
		var payloads [][]byte
		var frameEnds []int
		var werr error
		var wpanic interface{}
		sendbuf := rapid.SampledFrom([]int{0, 64, 4096}).Draw(t, "sendbuf")
		func() {
			defer func() { wpanic = recover() }()
			mc := &TCPConnection{conn: wconn, header: make([]byte, requestHeaderSize), payload: make([]byte, sendbuf), encrypted: encrypted}
			sc := &TCPSnapshotConnection{conn: wconn, header: make([]byte, requestHeaderSize), encrypted: encrypted}
			for i := range values {
				v := &values[i]
				var payload []byte
				if v.method == raftType {
					payload = pb.MustMarshal(&v.batch)
					if viaConnection {
						werr = mc.SendMessageBatch(v.batch)
					} else {
						werr = writeMessage(wconn, requestHeader{method: raftType}, payload, make([]byte, requestHeaderSize), encrypted)
					}
				} else {
					payload = pb.MustMarshal(&v.chunk)
					if viaConnection {
						werr = sc.SendChunk(v.chunk)
					} else {
						werr = writeMessage(wconn, requestHeader{method: snapshotType}, payload, make([]byte, requestHeaderSize), encrypted)
					}
				}
				if werr != nil {
					return
				}
				payloads = append(payloads, payload)
				frameEnds = append(frameEnds, wconn.wr.Len())
			}
		}()
		if wpanic != nil {
			vfhelp.Fail(t, "frame-write-panic", "panic while writing: %v", wpanic)
		}
		if werr != nil {
			vfhelp.Fail(t, "frame-write-error", "%v", werr)
		}
		stream := append([]byte(nil), wconn.wr.Bytes()...)

		// ---- the written bytes follow the documented layout ---------------
		off := 0
		for i := range values {
			// maps make the encoding of a value non deterministic: use the bytes on the wire
			ok, method, p, why := refDecode(stream[off:], encrypted)
			if !ok {
				vfhelp.Fail(t, "frame-written-frame-invalid", "frame %d rejected by the reference decoder: %s", i, why)
			}
			if method != values[i].method || off+vfPayOff+len(p) != frameEnds[i] || len(p) != len(payloads[i]) {
				vfhelp.Fail(t, "frame-written-frame-invalid", "frame %d: method %d want %d, end %d want %d, payload %d want %d",
					i, method, values[i].method, off+vfPayOff+len(p), frameEnds[i], len(p), len(payloads[i]))
			}
			if encrypted && binary.BigEndian.Uint32(stream[off+vfPCRCOff:]) != 0 {
				vfhelp.Fail(t, "frame-written-frame-invalid", "payload crc field not zero on an encrypted connection")
			}
			payloads[i] = p
			off = frameEnds[i]
		}

		// ---- read back intact (all frames from one conn) ------------------
		rbufLen := rapid.SampledFrom([]int{4096, 0, len(payloads[0]), len(payloads[0]) - 1, len(payloads[0]) + 10, 1, 1 << 16}).Draw(t, "rbuflen")
		if rbufLen < 0 {
			rbufLen = 0
		}
		sc := newScratch(rbufLen)
		var decoded []frameValue
		func() {
			conn := readerConn(stream)
			magic, header, rbuf := sc.magic, sc.header, sc.rbuf
			for i := range values {
				if err := readMagicNumber(conn, magic); err != nil {
					vfhelp.Fail(t, "frame-intact-rejected", "frame %d: readMagicNumber: %v", i, err)
				}
				rh, buf, err := readMessage(conn, header, rbuf, encrypted)
				if err != nil {
					vfhelp.Fail(t, "frame-intact-rejected", "frame %d: readMessage: %v", i, err)
				}
				if rh.method != values[i].method || rh.size != uint64(len(payloads[i])) || !bytes.Equal(buf, payloads[i]) {
					vfhelp.Fail(t, "frame-intact-differs", "frame %d: method=%d size=%d len=%d want method=%d size=%d",
						i, rh.method, rh.size, len(buf), values[i].method, len(payloads[i]))
				}
				// what serveConn does next: decode and hand over; the handler keeps the
				// value while the next frame is read into the same buffer, so the
				// values are compared only after all frames were read
				if rh.method == raftType {
					var b pb.MessageBatch
					if err := b.Unmarshal(buf); err != nil {
						vfhelp.Fail(t, "frame-intact-unmarshal", "%v", err)
					}
					decoded = append(decoded, frameValue{method: raftType, batch: b})
				} else {
					var c pb.Chunk
					if err := c.Unmarshal(buf); err != nil {
						vfhelp.Fail(t, "frame-intact-unmarshal", "%v", err)
					}
					decoded = append(decoded, frameValue{method: snapshotType, chunk: c})
				}
			}
			// nothing may be left, the next read must report EOF and not a frame
			if err := readMagicNumber(conn, magic); err == nil {
				vfhelp.Fail(t, "frame-read-past-end", "a frame was read from an exhausted stream")
			}
		}()
		for i := range sc.rbuf {
			sc.rbuf[i] = 0xee
		}
		for i := range values {
			if values[i].method == raftType {
				b, want := decoded[i].batch, values[i].batch
				normBatchForCompare(&b)
				normBatchForCompare(&want)
				if !reflect.DeepEqual(&b, &want) {
					vfhelp.Fail(t, "frame-intact-value-differs", "message batch %d differs after the frame round trip: %s vs %s", i, codec.Canon(&b), codec.Canon(&want))
				}
			} else {
				c, want := decoded[i].chunk, values[i].chunk
				normMembershipForCompare(&c.Membership)
				normMembershipForCompare(&want.Membership)
				if !reflect.DeepEqual(&c, &want) {
					vfhelp.Fail(t, "frame-intact-value-differs", "chunk %d differs after the frame round trip: %s vs %s", i, codec.Canon(&c), codec.Canon(&want))
				}
			}
		}

		// ---- corruption of the first frame --------------------------------
		first := stream[:frameEnds[0]]
		plen := len(payloads[0])
		counts := map[string]int{}
		check := func(kind string, corrupted []byte, guaranteed bool, desc func() string) {
			refOK, _, refPayload, why := refDecode(corrupted, encrypted)
			_, got, err, panicked := realDecode(corrupted, encrypted, sc)
			if panicked != nil {
				vfhelp.Fail(t, "frame-"+kind+"-panic", "reader panicked on %s: %v", desc(), panicked)
			}
			if !refOK {
				counts[kind+"/rejected-by:"+why]++
				if err == nil {
					vfhelp.Fail(t, "frame-"+kind+"-accepted", "%s (reference: %s) was delivered as a %d byte message; encrypted=%v recvBufSize=%d",
						desc(), why, len(got), encrypted, rbs)
				}
				return
			}
			counts[kind+"/undetectable-by-design"]++
			if guaranteed {
				t.Fatalf("VFINCONCLUSIVE harness derivation wrong: %s accepted by the reference decoder", desc())
			}
			if err == nil && !bytes.Equal(got, refPayload) {
				vfhelp.Fail(t, "frame-"+kind+"-delivers-different-bytes", "%s: reader and reference decoder disagree on the delivered payload", desc())
			}
		}

		// single bit flips
		nbits := len(first) * 8
		// payload bits of an encrypted connection are not covered by any check:
		// only a sample is tried there (and nothing is asserted for them)
		exhaustive := plen <= 256 && !encrypted
		var bits []int
		if exhaustive {
			bits = make([]int, nbits)
			for i := range bits {
				bits[i] = i
			}
		} else {
			for i := 0; i < vfPayOff*8; i++ {
				bits = append(bits, i)
			}
			pb0 := vfPayOff * 8
			for i := 0; i < 16; i++ { // first and last two payload bytes
				bits = append(bits, pb0+i, nbits-1-i)
			}
			// around multiples of recvBufSize (chunked read loop borders)
			if rbs < uint64(plen) {
				for k := uint64(1); k*rbs < uint64(plen) && k <= 4; k++ {
					b := pb0 + int(k*rbs)*8
					bits = append(bits, b-1, b)
				}
			}
			for i := 0; i < 64; i++ {
				bits = append(bits, pb0+rapid.IntRange(0, plen*8-1).Draw(t, "payload-bit"))
			}
		}
		work := make([]byte, len(first))
		for _, bit := range bits {
			copy(work, first)
			flipBit(work, bit)
			region := regionOf(bit / 8)
			guaranteed := !(region == "payload" && encrypted)
			check("bitflip-"+region, work, guaranteed, func() string { return fmt.Sprintf("flip of bit %d (%s)", bit, region) })
		}

		// bursts <= 32 bits: first and last bit of the burst flipped, drawn pattern between
		nbursts := 48
		for i := 0; i < nbursts; i++ {
			blen := rapid.IntRange(2, 32).Draw(t, "burst-len")
			var start int
			switch codec.Pick(t, "burst-where", 3) {
			case 0: // anywhere in magic+header, may straddle field borders
				start = rapid.IntRange(0, vfPayOff*8-1).Draw(t, "burst-start")
			case 1: // inside the header CRC field
				start = vfHCRCOff*8 + rapid.IntRange(0, 32-blen).Draw(t, "burst-start")
			case 2: // inside the size field
				start = vfSizeOff*8 + rapid.IntRange(0, 64-blen).Draw(t, "burst-start")
			case 3: // straddling header / payload
				start = vfPayOff*8 - rapid.IntRange(1, blen-1).Draw(t, "burst-start")
			default:
				start = rapid.IntRange(0, nbits-1).Draw(t, "burst-start")
			}
			if start+blen > nbits {
				start = nbits - blen
			}
			pattern := rapid.Uint32().Draw(t, "burst-pattern")
			copy(work, first)
			flipBit(work, start)
			flipBit(work, start+blen-1)
			for k := 1; k < blen-1; k++ {
				if pattern&(1<<uint(k)) != 0 {
					flipBit(work, start+k)
				}
			}
			r1, r2 := regionOf(start/8), regionOf((start+blen-1)/8)
			region := r1
			// guaranteed-detected (see the derivation at the top of the file):
			//  - the burst touches the magic number;
			//  - it lies inside one checksum domain: method+size, the header CRC
			//    field, the payload CRC field, or the unencrypted payload;
			//  - it starts in the payload CRC field and runs into the payload: the
			//    header part alone is a burst inside covered bytes.
			// Not guaranteed: straddling a border of the embedded header CRC field,
			// or lying inside the payload of an encrypted connection.
			dom := func(r string) string {
				if r == "method" || r == "size" {
					return "method+size"
				}
				return r
			}
			var guaranteed bool
			switch {
			case r1 == "magic":
				guaranteed = true
			case dom(r1) == dom(r2):
				guaranteed = !(r1 == "payload" && encrypted)
			case r1 == "payload-crc" && r2 == "payload":
				guaranteed = true
			}
			if r1 != r2 {
				region = r1 + "+" + r2
			}
			check("burst-"+region, work, guaranteed, func() string {
				return fmt.Sprintf("burst of %d bits at bit %d (%s)", blen, start, region)
			})
		}

		// truncation: every proper prefix (all of them up to 600 bytes, else a
		// boundary biased selection); the following frames are NOT appended, the
		// peer closed the connection
		var cuts []int
		if len(first) <= 600 {
			for n := 0; n < len(first); n++ {
				cuts = append(cuts, n)
			}
		} else {
			for n := 0; n <= vfPayOff+16; n++ {
				cuts = append(cuts, n)
			}
			for n := len(first) - 16; n < len(first); n++ {
				cuts = append(cuts, n)
			}
			for k := uint64(1); k*rbs < uint64(plen) && k <= 4; k++ {
				c := vfPayOff + int(k*rbs)
				cuts = append(cuts, c-1, c, c+1)
			}
			for i := 0; i < 32; i++ {
				cuts = append(cuts, rapid.IntRange(vfPayOff, len(first)-1).Draw(t, "cut"))
			}
		}
		for _, n := range cuts {
			if n < 0 || n >= len(first) {
				continue // not a proper prefix
			}
			where := "payload"
			if n < vfMagicLen {
				where = "magic"
			} else if n < vfPayOff {
				where = "header"
			}
			check("truncate-in-"+where, first[:n], true, func() string { return fmt.Sprintf("truncation to %d of %d bytes", n, len(first)) })
		}

		// ---- bookkeeping ---------------------------------------------------
		for k, v := range counts {
			st.Count("corruption/"+k, v)
		}
		labels := meta.ClassLabels()
		if exhaustive {
			labels = append(labels, "bitflips-exhaustive")
		} else {
			labels = append(labels, "bitflips-sampled")
		}
		if encrypted {
			labels = append(labels, "encrypted")
		} else {
			labels = append(labels, "plain")
		}
		if viaConnection {
			labels = append(labels, "written-via-connection")
		} else {
			labels = append(labels, "written-via-writeMessage")
		}
		if values[0].method == raftType {
			labels = append(labels, "first-frame-messagebatch")
		} else {
			labels = append(labels, "first-frame-chunk")
		}
		labels = append(labels, fmt.Sprintf("frames-%d", nframes))
		if rbs < uint64(plen) {
			labels = append(labels, "payload-longer-than-recvbuf")
		}
		hitCRC := counts["bitflip-header-crc/rejected-by:header-crc"] > 0
		hitSize := counts["bitflip-size/rejected-by:header-crc"] > 0
		nt := hitCRC && hitSize && meta.Spread.Both()
		canon := append([]byte{b2byte(encrypted), byte(rbs), byte(rbs >> 8), byte(rbs >> 16)}, stream...)
		st.Case(canon, nt, labels...)
		if nt && plen <= 120 && st.WantSample() {
			st.Sample(map[string]interface{}{
				"frame_hex": fmt.Sprintf("%x", first), "encrypted": encrypted, "recvBufSize": rbs,
				"bitflips": len(bits), "bursts": nbursts, "truncations": len(cuts),
			})
		}
	})
}

func b2byte(b bool) byte {
	if b {
		return 1
	}
	return 0
}
