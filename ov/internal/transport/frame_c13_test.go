package transport

// C13, transport frames (in-package; the receive side is driven through
// (*TCP).serveConn, the send side through the exported connection types, see
// frame_adapter_c13_test.go for the few unexported identifiers used).
//
// Frame layout as written by writeMessage (tcp.go):
//
//	offset 0   2 bytes  magic number 0xAE 0x7D
//	offset 2   2 bytes  method  (big endian; 100 = raft message batch, 200 = snapshot chunk)
//	offset 4   8 bytes  size    (big endian payload length)
//	offset 12  4 bytes  header CRC-32 (IEEE) over the 18 header bytes with this field zeroed
//	offset 16  4 bytes  payload CRC-32 (IEEE) over the payload (0 and unchecked when the
//	                    connection is TLS protected: `encrypted`)
//	offset 20  size bytes payload
//
// What the checks guarantee, derived from the code (requestHeader.encode/decode,
// readMagicNumber, readMessage):
//
//   - magic: compared for equality, so every change of the two bytes is rejected
//     (as ErrBadMessage, or as errPoisonReceived if it happens to become 0x0000 -
//     both end the connection without delivering anything).
//   - header: the header CRC covers method, size and the payload CRC field. A
//     corrupted header h' with CRC field c' is accepted iff crc(h' with field
//     zeroed) == c'. With e_d the error in the covered bytes and e_c the error
//     in the CRC field this is G(x) | e_d(x)*x^32 + e_c(x) in the usual CRC
//     algebra. Hence guaranteed detected: every single bit flip; every burst
//     (<= 32 bits) that lies completely inside the covered bytes or completely
//     inside the CRC field. A burst that straddles the border between covered
//     bytes and the embedded CRC field is NOT guaranteed (the CRC sits in the
//     middle of the header, not at its end, so the classical burst guarantee
//     does not apply); such a corruption is only asserted when the reference
//     model below says the checksum does not match, which is decided by
//     recomputing the CRC, never by assumption.
//   - method: after the CRC only 100 and 200 are accepted.
//   - size: size == 0 is rejected; otherwise exactly size bytes are read.
//   - payload (not encrypted): accepted iff crc(payload') == header payload CRC.
//     Guaranteed detected: every single bit flip and every burst <= 32 bits
//     inside the payload. When `encrypted` the payload is not covered at all:
//     nothing is asserted for payload corruption then.
//   - truncation: the reader hits EOF before magic+header+size bytes arrived =>
//     io.ReadFull fails => error. Every proper prefix must be rejected.
//
// The oracle is a reference decoder (refDecode) written from the layout above.
// Every stream - intact, corrupted, truncated or hostile - is fed to the real
// receive loop ((*TCP).serveConn with recording message / chunk handlers) as
// the bytes of one connection which the peer then closes:
//
//   - the reference decoder rejects it  => nothing may be delivered;
//   - the reference decoder accepts it (intact frame, checksum collision, or a
//     corruption the format does not cover, e.g. the payload of an `encrypted`
//     connection) => either nothing is delivered (the payload no longer
//     decodes) or exactly the value encoded by the accepted payload bytes.
//     For corrupted streams this is counted as "undetectable-by-design"; for
//     the guaranteed classes above the reference decoder accepting would mean
//     the derivation is wrong: reported as inconclusive, not as a violation.
//
// Hostile constants. Checks of the form "field == 0 means not set" are a
// classic way to lose a checksum, and random values never hit them. A sizeable
// part of the cases therefore carries a first frame built to have
//
//   - payload CRC exactly 0x00000000 / 0xFFFFFFFF: four bytes inside an entry
//     Cmd (message batch) or Data (chunk) of the generated value are solved so
//     that the whole encoded payload checksums to the target (CRC-32 is affine:
//     the 32 candidate bits map to the CRC through an invertible GF(2) matrix);
//     the frame is still written by the real sender;
//   - header CRC exactly 0x00000000 / 0xFFFFFFFF: the payload CRC value that
//     makes the header checksum hit the target is solved the same way, then the
//     payload is forced to that CRC;
//   - size 0 and size 2^64-1 with a *valid* header CRC (crafted with the
//     reference encoder; no sender produces them). Nothing may be delivered.
//     For size 2^64-1 the unchanged receiver panics in make([]byte, size)
//     ("len out of range"): a CRC-valid header is not a corruption the checksum
//     covers, so C13 does not forbid it; the panic is tolerated for exactly that
//     header, counted (hostile-size-max-reader-panics) and reported in
//     findings/E4.md. Every corruption of such a frame that breaks the header
//     CRC must be rejected without panic like any other.
//
// and the same single-bit-flip / burst / truncation suite is run on it.

import (
	"bytes"
	"encoding/binary"
	"fmt"
	"hash/crc32"
	"math"
	"reflect"
	"testing"

	"github.com/lni/dragonboat/v4/internal/vfhelp"
	"github.com/lni/dragonboat/v4/internal/vfx/codec"
	pb "github.com/lni/dragonboat/v4/raftpb"
	"pgregory.net/rapid"
)

// frame layout constants (from the documented layout, not from the package)
const (
	vfMagicLen   = 2
	vfHeaderOff  = 2
	vfMethodOff  = 2
	vfSizeOff    = 4
	vfHCRCOff    = 12
	vfPCRCOff    = 16
	vfPayOff     = 20
	vfRaftMethod = uint16(100)
	vfSnapMethod = uint16(200)
)

type refFrame struct {
	ok          bool
	why         string
	headerValid bool
	method      uint16
	size        uint64
	hcrc, pcrc  uint32
	payload     []byte
}

func headerCRC(h18 []byte) uint32 {
	h := append([]byte(nil), h18[:18]...)
	binary.BigEndian.PutUint32(h[10:], 0)
	return crc32.ChecksumIEEE(h)
}

// refDecode is the reference decoder of one frame at the start of stream.
func refDecode(stream []byte, encrypted bool) (f refFrame) {
	if len(stream) < vfMagicLen {
		f.why = "short-magic"
		return
	}
	if stream[0] != 0xAE || stream[1] != 0x7D {
		f.why = "bad-magic"
		return
	}
	if len(stream) < vfPayOff {
		f.why = "short-header"
		return
	}
	h := stream[vfHeaderOff:vfPayOff]
	f.hcrc = binary.BigEndian.Uint32(h[10:])
	if headerCRC(h) != f.hcrc {
		f.why = "header-crc"
		return
	}
	f.method = binary.BigEndian.Uint16(h[0:])
	if f.method != vfRaftMethod && f.method != vfSnapMethod {
		f.why = "method"
		return
	}
	f.headerValid = true
	f.size = binary.BigEndian.Uint64(h[2:])
	f.pcrc = binary.BigEndian.Uint32(h[14:])
	if f.size == 0 {
		f.why = "zero-size"
		return
	}
	if uint64(len(stream)-vfPayOff) < f.size {
		f.why = "short-payload"
		return
	}
	f.payload = stream[vfPayOff : vfPayOff+int(f.size)]
	if !encrypted && crc32.ChecksumIEEE(f.payload) != f.pcrc {
		f.why = "payload-crc"
		return
	}
	f.ok = true
	return
}

// refEncode builds a frame from the documented layout.
func refEncode(method uint16, size uint64, pcrc uint32, payload []byte) []byte {
	out := make([]byte, vfPayOff, vfPayOff+len(payload))
	out[0], out[1] = 0xAE, 0x7D
	binary.BigEndian.PutUint16(out[vfMethodOff:], method)
	binary.BigEndian.PutUint64(out[vfSizeOff:], size)
	binary.BigEndian.PutUint32(out[vfPCRCOff:], pcrc)
	binary.BigEndian.PutUint32(out[vfHCRCOff:], headerCRC(out[vfHeaderOff:vfPayOff]))
	return append(out, payload...)
}

// forceCRC rewrites buf[off:off+4] so that crc32.ChecksumIEEE(buf) == target.
// CRC-32 is affine over GF(2): crc(buf ^ d) = crc(buf) ^ L(d); restricted to 32
// consecutive bits L is invertible, so the 32x32 system is solved directly.
func forceCRC(buf []byte, off int, target uint32) {
	copy(buf[off:off+4], []byte{0, 0, 0, 0})
	z := make([]byte, len(buf))
	zc := crc32.ChecksumIEEE(z)
	var basisVec, basisCombo [32]uint32
	var have [32]bool
	reduce := func(v, c uint32) (uint32, uint32) {
		for b := 31; b >= 0 && v != 0; b-- {
			if v&(1<<uint(b)) != 0 && have[b] {
				v ^= basisVec[b]
				c ^= basisCombo[b]
			}
		}
		return v, c
	}
	for bit := 0; bit < 32; bit++ {
		z[off+bit/8] = 0x80 >> uint(bit%8)
		col := crc32.ChecksumIEEE(z) ^ zc
		z[off+bit/8] = 0
		v, c := reduce(col, 1<<uint(bit))
		if v == 0 {
			panic("forceCRC: singular system")
		}
		top := 31
		for v&(1<<uint(top)) == 0 {
			top--
		}
		basisVec[top], basisCombo[top], have[top] = v, c, true
	}
	v, c := reduce(crc32.ChecksumIEEE(buf)^target, 0)
	if v != 0 {
		panic("forceCRC: no solution")
	}
	for bit := 0; bit < 32; bit++ {
		if c&(1<<uint(bit)) != 0 {
			buf[off+bit/8] ^= 0x80 >> uint(bit%8)
		}
	}
	if crc32.ChecksumIEEE(buf) != target {
		panic("forceCRC: self check failed")
	}
}

// pcrcForHeaderCRC returns the payload CRC value for which the header of a
// frame with this method and size checksums to target.
func pcrcForHeaderCRC(method uint16, size uint64, target uint32) uint32 {
	h := make([]byte, 18)
	binary.BigEndian.PutUint16(h[0:], method)
	binary.BigEndian.PutUint64(h[2:], size)
	forceCRC(h, 14, target)
	return binary.BigEndian.Uint32(h[14:])
}

type frameValue struct {
	method uint16
	batch  pb.MessageBatch
	chunk  pb.Chunk
}

func normBatchForCompare(b *pb.MessageBatch) {
	if len(b.Requests) == 0 {
		b.Requests = nil
		return
	}
	rs := make([]pb.Message, len(b.Requests))
	copy(rs, b.Requests)
	b.Requests = rs
	for i := range rs {
		m := &rs[i]
		if len(m.Entries) == 0 {
			m.Entries = nil
		} else {
			es := make([]pb.Entry, len(m.Entries))
			copy(es, m.Entries)
			for j := range es {
				if len(es[j].Cmd) == 0 {
					es[j].Cmd = nil
				}
			}
			m.Entries = es
		}
		normMembershipForCompare(&m.Snapshot.Membership)
		if len(m.Snapshot.Files) == 0 {
			m.Snapshot.Files = nil
		}
	}
}

func normMembershipForCompare(m *pb.Membership) {
	if len(m.Addresses) == 0 {
		m.Addresses = nil
	}
	if len(m.Removed) == 0 {
		m.Removed = nil
	}
	if len(m.NonVotings) == 0 {
		m.NonVotings = nil
	}
	if len(m.Witnesses) == 0 {
		m.Witnesses = nil
	}
}

// sameValue compares what was delivered with the expected value (modulo the
// nil/empty identification of the codec, see internal/vfx/codec/oracle_test.go).
func sameValue(d delivered, want frameValue) bool {
	if d.isChunk != (want.method == vfSnapMethod) {
		return false
	}
	if d.isChunk {
		a, b := d.chunk, want.chunk
		normMembershipForCompare(&a.Membership)
		normMembershipForCompare(&b.Membership)
		return reflect.DeepEqual(&a, &b)
	}
	a, b := d.batch, want.batch
	normBatchForCompare(&a)
	normBatchForCompare(&b)
	return reflect.DeepEqual(&a, &b)
}

func renderDelivered(d delivered) string {
	if d.isChunk {
		return "chunk " + string(codec.Canon(&d.chunk))
	}
	return "batch " + string(codec.Canon(&d.batch))
}

// decodePayload is what the receive loop does with accepted payload bytes.
func decodePayload(method uint16, payload []byte) (v frameValue, ok bool) {
	defer func() {
		if recover() != nil {
			ok = false
		}
	}()
	v.method = method
	if method == vfRaftMethod {
		return v, v.batch.Unmarshal(payload) == nil
	}
	return v, v.chunk.Unmarshal(payload) == nil
}

// flipBit flips bit i (0 = most significant bit of byte 0) of b.
func flipBit(b []byte, i int) { b[i/8] ^= 0x80 >> uint(i%8) }

func regionOf(byteOff int) string {
	switch {
	case byteOff < vfMethodOff:
		return "magic"
	case byteOff < vfSizeOff:
		return "method"
	case byteOff < vfHCRCOff:
		return "size"
	case byteOff < vfPCRCOff:
		return "header-crc"
	case byteOff < vfPayOff:
		return "payload-crc"
	default:
		return "payload"
	}
}

// the patch site: a tag that does not occur by chance followed by the four
// bytes forceCRC may rewrite
var patchTag = []byte{0xF7, 'V', 'F', 0xC3, 0x9D, 0x11}

const (
	hostileNone = iota
	hostilePayloadCRCZero
	hostilePayloadCRCOnes
	hostileHeaderCRCZero
	hostileHeaderCRCOnes
	hostileSizeZero
	hostileSizeMax
)

var hostileNames = []string{"ordinary-frame", "payload-crc-zero", "payload-crc-ones", "header-crc-zero",
	"header-crc-ones", "size-zero", "size-max"}

// of 16: 7 ordinary, 3 payload-crc-zero, 1 payload-crc-ones, 1+1 header crc, 1 size 0, 2 -> (1 size max, 1 payload-crc-zero)
var hostileTable = []int{hostileNone, hostileNone, hostileNone, hostileNone, hostileNone, hostileNone, hostileNone,
	hostilePayloadCRCZero, hostilePayloadCRCZero, hostilePayloadCRCZero, hostilePayloadCRCZero,
	hostilePayloadCRCOnes, hostileHeaderCRCZero, hostileHeaderCRCOnes, hostileSizeZero, hostileSizeMax}

func TestVF_C13_Frame(t *testing.T) {
	vfQuietLogs()
	st := vfhelp.NewStats("TestVF_C13_Frame",
		"1-3 generated MessageBatch / Chunk values are written with the real TCPConnection.SendMessageBatch / TCPSnapshotConnection.SendChunk "+
			"into an in-memory conn (drawn recvBufSize, send and receive buffer sizes, encrypted or not) and fed to the real receive loop "+
			"(*TCP).serveConn with recording handlers; what is delivered is compared with what was sent. In 9 of 16 cases the first frame is a "+
			"hostile constant: payload CRC forced to 0 / 0xFFFFFFFF, header CRC forced to 0 / 0xFFFFFFFF (four bytes of a Cmd / Data solved over GF(2)), "+
			"or a crafted CRC-valid header with size 0 / 2^64-1. Then for the first frame: every single-bit flip of magic+header+payload "+
			"(exhaustive when the payload <= 256 bytes, all of magic+header plus a boundary-biased sample of payload bits otherwise), "+
			"48 bursts <= 32 bits, every truncation length, each fed to serveConn; a reference decoder written from the frame layout decides "+
			"whether a checksum covers the corruption: rejected by the reference => nothing may be delivered; accepted => nothing or exactly the value "+
			"of the accepted bytes. non-trivial = corruptions landed in the header CRC and in the length field and (the first frame is a hostile "+
			"constant or the values have uint64 fields on both sides of 2^49); distinct = distinct (stream bytes, encrypted, buffer sizes)")
	defer st.Flush()
	defaults := vfGetBuffers()
	defer vfSetBuffers(defaults)

	rapid.Check(t, func(t *rapid.T) {
		defer vfSetBuffers(defaults)
		meta := codec.NewMeta()
		hostile := hostileTable[codec.Pick(t, "hostile", 4)]
		encrypted := hostile == hostileNone && codec.Pick(t, "encrypted", 1) == 0
		small := codec.Pick(t, "small", 3) < 5
		lim := codec.SmallLimits()
		if !small {
			lim = codec.Limits{MaxCmd: 300, MaxElems: 3, Boundary: true}
		}
		nframes := rapid.SampledFrom([]int{1, 1, 2, 3}).Draw(t, "nframes")
		crafted := hostile == hostileSizeZero || hostile == hostileSizeMax
		values := make([]frameValue, nframes)
		var patch []byte // the four solvable bytes inside values[0]
		for i := range values {
			if rapid.Bool().Draw(t, "is-chunk") {
				c := codec.Chunk(t, lim, meta)
				if i == 0 && hostile != hostileNone && !crafted {
					c.Data = append(append(append([]byte(nil), patchTag...), 0, 0, 0, 0), c.Data...)
					patch = c.Data[len(patchTag) : len(patchTag)+4]
				}
				values[i] = frameValue{method: vfSnapMethod, chunk: c}
			} else {
				b := codec.MessageBatch(t, lim, meta)
				if i == 0 && hostile != hostileNone && !crafted {
					if len(b.Requests) == 0 {
						b.Requests = []pb.Message{{Type: pb.Replicate, To: 2, From: 1, ShardID: 1, Term: 5}}
					}
					m := &b.Requests[0]
					if len(m.Entries) == 0 {
						m.Entries = []pb.Entry{{Type: pb.ApplicationEntry, Index: 7, Term: 5}}
					}
					e := &m.Entries[0]
					e.Cmd = append(append(append([]byte(nil), patchTag...), 0, 0, 0, 0), e.Cmd...)
					patch = e.Cmd[len(patchTag) : len(patchTag)+4]
				}
				values[i] = frameValue{method: vfRaftMethod, batch: b}
			}
		}
		// documented soft settings / buffer sizes; small values make the chunked
		// write / read loops iterate and the receive buffer be reused or replaced
		bufs := vfBuffers{
			recv:    rapid.SampledFrom([]uint64{defaults.recv, defaults.recv, 16, 33, 64, 100, 256, 1024}).Draw(t, "recvbufsize"),
			payload: rapid.SampledFrom([]uint64{4096, 0, 100, 1024, 8192}).Draw(t, "payloadbuffersize"),
			send:    rapid.SampledFrom([]uint64{4096, 0, 64, 65536}).Draw(t, "perconnbufsize"),
		}
		vfSetBuffers(bufs)
		rbs := bufs.recv

		// ---- write with the real senders ---------------------------------
		writeAll := func() (stream []byte, ends []int) {
			wconn := &memConn{}
			var werr error
			var wpanic interface{}
			func() {
				defer func() { wpanic = recover() }()
				mc := NewTCPConnection(wconn, encrypted)
				sc := NewTCPSnapshotConnection(wconn, encrypted)
				for i := range values {
					if values[i].method == vfRaftMethod {
						werr = mc.SendMessageBatch(values[i].batch)
					} else {
						werr = sc.SendChunk(values[i].chunk)
					}
					if werr != nil {
						return
					}
					ends = append(ends, wconn.wr.Len())
				}
			}()
			if wpanic != nil {
				vfhelp.Fail(t, "frame-write-panic", "panic while writing: %v", wpanic)
			}
			if werr != nil {
				vfhelp.Fail(t, "frame-write-error", "%v", werr)
			}
			return append([]byte(nil), wconn.wr.Bytes()...), ends
		}
		stream, frameEnds := writeAll()
		writer := "real-writer"

		// ---- hostile constants --------------------------------------------
		wantTargets := func(f refFrame) (pc uint32, hc uint32, checkH bool) {
			switch hostile {
			case hostilePayloadCRCZero:
				return 0, 0, false
			case hostilePayloadCRCOnes:
				return math.MaxUint32, 0, false
			case hostileHeaderCRCZero:
				return pcrcForHeaderCRC(f.method, f.size, 0), 0, true
			default:
				return pcrcForHeaderCRC(f.method, f.size, math.MaxUint32), math.MaxUint32, true
			}
		}
		switch {
		case crafted:
			// a CRC-valid header no sender produces, followed by the bytes of the generated first frame's payload
			f := refDecode(stream, encrypted)
			if !f.ok {
				vfhelp.Fail(t, "frame-written-frame-invalid", "first frame rejected by the reference decoder: %s", f.why)
			}
			size := uint64(0)
			if hostile == hostileSizeMax {
				size = math.MaxUint64
			}
			tail := f.payload
			if len(tail) > 24 {
				tail = tail[:24]
			}
			pcrc := crc32.ChecksumIEEE(tail)
			if hostile == hostileSizeZero {
				pcrc = crc32.ChecksumIEEE(nil) // a self-consistent frame with an empty payload
			}
			stream = refEncode(f.method, size, pcrc, tail)
			frameEnds = []int{len(stream)}
			values = values[:1]
			nframes = 1
			writer = "crafted-frame"
		case hostile != hostileNone:
			done := false
			for attempt := 0; attempt < 4 && !done; attempt++ {
				f := refDecode(stream, encrypted)
				if !f.ok {
					vfhelp.Fail(t, "frame-written-frame-invalid", "first frame rejected by the reference decoder: %s", f.why)
				}
				pc, hc, checkH := wantTargets(f)
				if f.pcrc == pc && (!checkH || f.hcrc == hc) {
					done = true
					break
				}
				at := bytes.Index(f.payload, patchTag)
				if at < 0 || bytes.Count(f.payload, patchTag) != 1 {
					t.Fatalf("VFINCONCLUSIVE patch tag not found exactly once in the written payload")
				}
				p := append([]byte(nil), f.payload...)
				forceCRC(p, at+len(patchTag), pc)
				copy(patch, p[at+len(patchTag):at+len(patchTag)+4])
				// the value now encodes to p unless a multi-entry map is iterated in another order
				stream, frameEnds = writeAll()
			}
			f := refDecode(stream, encrypted)
			pc, hc, checkH := wantTargets(f)
			if !(f.ok && f.pcrc == pc && (!checkH || f.hcrc == hc)) {
				// map iteration order kept changing the encoding: craft the first frame
				// from the last solved payload with the reference encoder
				at := bytes.Index(f.payload, patchTag)
				p := append([]byte(nil), f.payload...)
				forceCRC(p, at+len(patchTag), pc)
				copy(patch, p[at+len(patchTag):at+len(patchTag)+4])
				rest := append([]byte(nil), stream[frameEnds[0]:]...)
				first := refEncode(f.method, uint64(len(p)), pc, p)
				delta := len(first) - frameEnds[0]
				stream = append(first, rest...)
				for i := range frameEnds {
					frameEnds[i] += delta
				}
				writer = "crafted-frame"
				f = refDecode(stream, encrypted)
			}
			if !(f.ok && f.pcrc == pc && (!checkH || f.hcrc == hc)) {
				t.Fatalf("VFINCONCLUSIVE could not build the hostile frame %s", hostileNames[hostile])
			}
		}

		// ---- the written bytes follow the documented layout ---------------
		var payloads [][]byte
		if !crafted {
			off := 0
			for i := range values {
				f := refDecode(stream[off:], encrypted)
				if !f.ok {
					vfhelp.Fail(t, "frame-written-frame-invalid", "frame %d rejected by the reference decoder: %s", i, f.why)
				}
				var wantLen int
				if values[i].method == vfRaftMethod {
					wantLen = values[i].batch.Size()
				} else {
					wantLen = values[i].chunk.Size()
				}
				if f.method != values[i].method || off+vfPayOff+len(f.payload) != frameEnds[i] || len(f.payload) != wantLen {
					vfhelp.Fail(t, "frame-written-frame-invalid", "frame %d: method %d want %d, end %d want %d, payload %d want %d",
						i, f.method, values[i].method, off+vfPayOff+len(f.payload), frameEnds[i], len(f.payload), wantLen)
				}
				if encrypted && f.pcrc != 0 {
					vfhelp.Fail(t, "frame-written-frame-invalid", "payload crc field not zero on an encrypted connection")
				}
				payloads = append(payloads, f.payload)
				off = frameEnds[i]
			}
		}

		// ---- intact delivery through the real receive loop ----------------
		rx := newVFReceiver(encrypted)
		counts := map[string]int{}
		got, _, panicked := rx.serve(stream)
		if crafted {
			if panicked != nil {
				if hostile != hostileSizeMax {
					vfhelp.Fail(t, "frame-hostile-size-panic", "receiver panicked on a CRC-valid header with size 0: %v", panicked)
				}
				counts["hostile-size-max-reader-panics"]++
			}
			if len(got) != 0 {
				vfhelp.Fail(t, "frame-hostile-size-delivered", "a frame with size %s was delivered", hostileNames[hostile])
			}
		} else {
			if panicked != nil {
				vfhelp.Fail(t, "frame-intact-panic", "receiver panicked on intact frames: %v", panicked)
			}
			if len(got) != len(values) {
				vfhelp.Fail(t, "frame-intact-rejected", "%d of %d intact frames were delivered (first frame: %s, encrypted=%v, recvBufSize=%d)",
					len(got), len(values), hostileNames[hostile], encrypted, rbs)
			}
			// compared only now: the handlers keep the values while later frames are
			// read into the same receive buffer
			for i := range values {
				if !sameValue(got[i], values[i]) {
					vfhelp.Fail(t, "frame-intact-value-differs", "frame %d differs after the frame round trip: got %s", i, renderDelivered(got[i]))
				}
			}
		}

		// ---- corruption of the first frame --------------------------------
		first := stream[:frameEnds[0]]
		plen := len(first) - vfPayOff
		check := func(kind string, corrupted []byte, guaranteed bool, desc func() string) {
			ref := refDecode(corrupted, encrypted)
			got, _, panicked := rx.serve(corrupted)
			if panicked != nil {
				if ref.headerValid && ref.size == math.MaxUint64 {
					counts["hostile-size-max-reader-panics"]++ // see the file header
				} else if ref.ok && !guaranteed {
					// bytes that no checksum covers (payload of an `encrypted` connection,
					// where TLS - not the frame - protects them) reached pb Unmarshal and
					// the hand written decoder indexed past the end of malformed input.
					// Not a corruption "its checksum covers": outside C13; counted and
					// reported in findings/E4.md.
					counts[kind+"/undetectable-by-design"]++
					counts["undetectable-by-design-decoder-panics"]++
					return
				} else {
					vfhelp.Fail(t, "frame-"+kind+"-panic", "receiver panicked on %s: %v", desc(), panicked)
				}
			}
			if !ref.ok {
				counts[kind+"/rejected-by:"+ref.why]++
				if len(got) != 0 {
					vfhelp.Fail(t, "frame-"+kind+"-accepted", "%s (reference: %s) was delivered to the handler; first frame: %s encrypted=%v recvBufSize=%d: %s",
						desc(), ref.why, hostileNames[hostile], encrypted, rbs, renderDelivered(got[0]))
				}
				return
			}
			counts[kind+"/undetectable-by-design"]++
			if guaranteed {
				t.Fatalf("VFINCONCLUSIVE harness derivation wrong: %s accepted by the reference decoder", desc())
			}
			if len(got) > 1 {
				vfhelp.Fail(t, "frame-"+kind+"-delivers-different-message", "%s: %d messages delivered from one frame", desc(), len(got))
			}
			if len(got) == 1 {
				want, ok := decodePayload(ref.method, ref.payload)
				if !ok || !sameValue(got[0], want) {
					vfhelp.Fail(t, "frame-"+kind+"-delivers-different-message", "%s: the delivered value is not the value of the accepted bytes", desc())
				}
			}
		}

		// single bit flips
		nbits := len(first) * 8
		// payload bits of an encrypted connection are not covered by any check:
		// only a sample is tried there
		exhaustive := plen <= 256 && !encrypted
		var bits []int
		if exhaustive {
			bits = make([]int, nbits)
			for i := range bits {
				bits[i] = i
			}
		} else {
			for i := 0; i < vfPayOff*8; i++ {
				bits = append(bits, i)
			}
			pb0 := vfPayOff * 8
			for i := 0; i < 16; i++ { // first and last two payload bytes
				bits = append(bits, pb0+i, nbits-1-i)
			}
			// around multiples of recvBufSize (chunked read loop borders)
			if rbs < uint64(plen) {
				for k := uint64(1); k*rbs < uint64(plen) && k <= 4; k++ {
					b := pb0 + int(k*rbs)*8
					bits = append(bits, b-1, b)
				}
			}
			if patch != nil { // the solved bytes and their neighbourhood
				if at := bytes.Index(first, patchTag); at >= 0 {
					for i := at * 8; i < (at+len(patchTag)+6)*8 && i < nbits; i++ {
						bits = append(bits, i)
					}
				}
			}
			for i := 0; i < 64; i++ {
				bits = append(bits, pb0+rapid.IntRange(0, plen*8-1).Draw(t, "payload-bit"))
			}
		}
		work := make([]byte, len(first))
		for _, bit := range bits {
			copy(work, first)
			flipBit(work, bit)
			region := regionOf(bit / 8)
			guaranteed := !(region == "payload" && (encrypted || crafted))
			check("bitflip-"+region, work, guaranteed, func() string { return fmt.Sprintf("flip of bit %d (%s)", bit, region) })
		}

		// bursts <= 32 bits: first and last bit of the burst flipped, drawn pattern between
		nbursts := 48
		for i := 0; i < nbursts; i++ {
			blen := rapid.IntRange(2, 32).Draw(t, "burst-len")
			var start int
			switch codec.Pick(t, "burst-where", 3) {
			case 0: // anywhere in magic+header, may straddle field borders
				start = rapid.IntRange(0, vfPayOff*8-1).Draw(t, "burst-start")
			case 1: // inside the header CRC field
				start = vfHCRCOff*8 + rapid.IntRange(0, 32-blen).Draw(t, "burst-start")
			case 2: // inside the size field
				start = vfSizeOff*8 + rapid.IntRange(0, 64-blen).Draw(t, "burst-start")
			case 3: // straddling header / payload
				start = vfPayOff*8 - rapid.IntRange(1, blen-1).Draw(t, "burst-start")
			default:
				start = rapid.IntRange(0, nbits-1).Draw(t, "burst-start")
			}
			if start+blen > nbits {
				start = nbits - blen
			}
			pattern := rapid.Uint32().Draw(t, "burst-pattern")
			copy(work, first)
			flipBit(work, start)
			flipBit(work, start+blen-1)
			for k := 1; k < blen-1; k++ {
				if pattern&(1<<uint(k)) != 0 {
					flipBit(work, start+k)
				}
			}
			r1, r2 := regionOf(start/8), regionOf((start+blen-1)/8)
			region := r1
			// guaranteed-detected (see the derivation at the top of the file):
			//  - the burst touches the magic number;
			//  - it lies inside one checksum domain: method+size, the header CRC
			//    field, the payload CRC field, or the unencrypted payload;
			//  - it starts in the payload CRC field and runs into the payload: the
			//    header part alone is a burst inside covered bytes.
			// Not guaranteed: straddling a border of the embedded header CRC field,
			// or lying inside the payload of an encrypted connection (or behind a
			// crafted header whose size does not describe the bytes that follow).
			dom := func(r string) string {
				if r == "method" || r == "size" {
					return "method+size"
				}
				return r
			}
			var guaranteed bool
			switch {
			case r1 == "magic":
				guaranteed = true
			case dom(r1) == dom(r2):
				guaranteed = !(r1 == "payload" && (encrypted || crafted))
			case r1 == "payload-crc" && r2 == "payload":
				guaranteed = true
			}
			if r1 != r2 {
				region = r1 + "+" + r2
			}
			check("burst-"+region, work, guaranteed, func() string {
				return fmt.Sprintf("burst of %d bits at bit %d (%s)", blen, start, region)
			})
		}

		// truncation: every proper prefix (all of them up to 600 bytes, else a
		// boundary biased selection); the following frames are NOT appended, the
		// peer closed the connection
		var cuts []int
		if len(first) <= 600 {
			for n := 0; n < len(first); n++ {
				cuts = append(cuts, n)
			}
		} else {
			for n := 0; n <= vfPayOff+16; n++ {
				cuts = append(cuts, n)
			}
			for n := len(first) - 16; n < len(first); n++ {
				cuts = append(cuts, n)
			}
			for k := uint64(1); k*rbs < uint64(plen) && k <= 4; k++ {
				c := vfPayOff + int(k*rbs)
				cuts = append(cuts, c-1, c, c+1)
			}
			for i := 0; i < 32; i++ {
				cuts = append(cuts, rapid.IntRange(vfPayOff, len(first)-1).Draw(t, "cut"))
			}
		}
		for _, n := range cuts {
			if n < 0 || n >= len(first) {
				continue // not a proper prefix
			}
			where := "payload"
			if n < vfMagicLen {
				where = "magic"
			} else if n < vfPayOff {
				where = "header"
			}
			check("truncate-in-"+where, first[:n], true, func() string { return fmt.Sprintf("truncation to %d of %d bytes", n, len(first)) })
		}

		// ---- bookkeeping ---------------------------------------------------
		for k, v := range counts {
			st.Count("corruption/"+k, v)
		}
		labels := meta.ClassLabels()
		labels = append(labels, hostileNames[hostile], writer)
		if hostile != hostileNone {
			labels = append(labels, "hostile-constant")
		}
		if exhaustive {
			labels = append(labels, "bitflips-exhaustive")
		} else {
			labels = append(labels, "bitflips-sampled")
		}
		if encrypted {
			labels = append(labels, "encrypted")
		} else {
			labels = append(labels, "plain")
		}
		if values[0].method == vfRaftMethod {
			labels = append(labels, "first-frame-messagebatch")
		} else {
			labels = append(labels, "first-frame-chunk")
		}
		labels = append(labels, fmt.Sprintf("frames-%d", nframes))
		if rbs < uint64(plen) {
			labels = append(labels, "payload-longer-than-recvbuf")
		}
		if len(payloads) > 0 && bufs.payload < uint64(len(payloads[0])) {
			labels = append(labels, "payload-longer-than-receive-buffer")
		}
		hitCRC := counts["bitflip-header-crc/rejected-by:header-crc"] > 0
		hitSize := counts["bitflip-size/rejected-by:header-crc"] > 0
		nt := hitCRC && hitSize && (hostile != hostileNone || meta.Spread.Both())
		canon := append([]byte{b2byte(encrypted), byte(bufs.recv), byte(bufs.recv >> 8), byte(bufs.recv >> 16),
			byte(bufs.payload), byte(bufs.payload >> 8), byte(bufs.send), byte(bufs.send >> 8)}, stream...)
		st.Case(canon, nt, labels...)
		if nt && plen <= 120 && st.WantSample() {
			st.Sample(map[string]interface{}{
				"first_frame_hex": fmt.Sprintf("%x", first), "first_frame": hostileNames[hostile], "encrypted": encrypted,
				"recvBufSize": rbs, "bitflips": len(bits), "bursts": nbursts, "truncations": len(cuts),
			})
		}
	})
}

func b2byte(b bool) byte {
	if b {
		return 1
	}
	return 0
}
