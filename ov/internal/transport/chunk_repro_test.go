package transport

// Engine E5, property C15: minimal deterministic reproductions of the
// findings of TestVF_C15_Transfer (no generated input). Each scenario reports
// through Stats.Known so that it is tolerated while the finding is listed in
// /verif/known_findings.d/E5.json and fails otherwise.

import (
	"bytes"
	"fmt"
	"testing"

	"github.com/lni/dragonboat/v4/internal/server"
	"github.com/lni/dragonboat/v4/internal/vfhelp"
	"github.com/lni/dragonboat/v4/internal/vfs"
	"github.com/lni/dragonboat/v4/internal/vfx/snapio"
	pb "github.com/lni/dragonboat/v4/raftpb"
)

type vfRepro struct {
	t    *testing.T
	sfs  vfs.IFS
	rfs  vfs.IFS
	recv *vfReceiver
}

func vfNewRepro(t *testing.T, chunkSize uint64) (*vfRepro, func()) {
	oldCS, oldGC, oldTO := snapshotChunkSize, gcIntervalTick, snapshotChunkTimeoutTick
	snapshotChunkSize, gcIntervalTick, snapshotChunkTimeoutTick = chunkSize, 2, 3
	r := &vfRepro{t: t, sfs: vfs.NewMemFS(), rfs: vfs.NewMemFS()}
	r.recv = vfNewReceiver(r.rfs)
	return r, func() { snapshotChunkSize, gcIntervalTick, snapshotChunkTimeoutTick = oldCS, oldGC, oldTO }
}

func (r *vfRepro) stream(n int, mode string, from uint64, payloadLen int, exts []int) *vfStream {
	s := &vfStream{n: n, mode: mode, shard: 1, to: 2, from: from, index: 100, term: 3,
		membership: pb.Membership{Addresses: map[uint64]string{1: "a1"}}}
	vfBuildStream(r.t, r.sfs, s, snapio.Payload{Kind: 2, Seed: 42, Len: payloadLen}, false, nil, exts)
	if err := r.rfs.MkdirAll(vfDir(r.rfs)(s.shard, s.to), 0o755); err != nil {
		r.t.Fatalf("mkdir %v", err)
	}
	return s
}

// S4: a refused first chunk removes the temporary directory of the live stream
// of the same key but leaves the stream tracked; its next chunk panics.
func vfReproS4(t *testing.T, st *vfhelp.Stats) {
	r, restore := vfNewRepro(t, 1024)
	defer restore()
	a := r.stream(0, "file", 5, 3000, nil) // sender 5, 5 chunks
	if len(a.chunks) < 3 {
		t.Fatalf("want >= 3 chunks, got %d", len(a.chunks))
	}
	for i := 0; i < 2; i++ {
		if ok, pv := r.recv.add(a.chunks[i]); !ok || pv != nil {
			t.Fatalf("chunk %d of the live stream refused: %v %v", i, ok, pv)
		}
	}
	// a first chunk for the same snapshot with one flipped bit in the header CRC slot
	bad := a.chunks[0]
	bad.From = 6 // (any sender; the same sender shows the same behaviour)
	bad.Data = append([]byte{}, bad.Data...)
	bad.Data[8+a.recLen] ^= 1
	ok, pv := r.recv.add(bad)
	if ok || pv != nil {
		t.Fatalf("damaged first chunk: ok=%v panic=%v", ok, pv)
	}
	env := r.recv.chunks.getEnv(a.chunks[0])
	_, statErr := r.rfs.Stat(env.GetTempDir())
	// the refused chunk must have been ignored without effect: chunk 2 continues the stream
	ok, pv = r.recv.add(a.chunks[2])
	switch {
	case pv != nil:
		st.Known(t, vfSigS4, "minimal reproduction: chunks 0,1 of a stream accepted; a first chunk with a damaged header for the same key refused (temp dir of the live stream now missing: %v); chunk 2 of the live stream panics: %v", statErr, pv)
		st.Count("repro-s4-panic", 1)
	case !ok:
		st.Count("repro-s4-live-stream-dropped", 1) // restart semantics: acceptable
	default:
		for i := 3; i < len(a.chunks); i++ {
			if ok, pv := r.recv.add(a.chunks[i]); !ok || pv != nil {
				t.Fatalf("chunk %d refused: %v %v", i, ok, pv)
			}
		}
		if len(r.recv.msgs) != 1 {
			vfhelp.Fail(t, "c15-complete-stream-not-finalized", "stream not finalized after an ignored first chunk")
		}
		st.Count("repro-s4-no-effect", 1)
	}
}

// A main file chunk refused by the incremental validator does not stop the
// stream: the validator forgets the failed block, the remaining chunks are
// stored and the final Validate accepts; an incomplete file is finalized.
func vfReproRejectedChunk(t *testing.T, st *vfhelp.Stats) {
	r, restore := vfNewRepro(t, 2<<20)
	defer restore()
	a := r.stream(0, "stream", 5, 2*snapio.BlockSize+100, nil) // 3 blocks: chunks 0,1,2 + tail + last marker
	bad := a.chunks[0]
	bad.Data = append([]byte{}, bad.Data...)
	bad.Data[snapio.HeaderSize+10] ^= 1 // inside block 0
	results := []bool{}
	for i := range a.chunks {
		c := a.chunks[i]
		if i == 0 {
			c = bad
		}
		ok, pv := r.recv.add(c)
		if pv != nil {
			t.Fatalf("panic %v", pv)
		}
		results = append(results, ok)
	}
	if len(r.recv.msgs) == 0 {
		st.Count("repro-rejected-chunk-not-finalized", 1)
		return
	}
	fd := r.rfs.PathJoin(vfDir(r.rfs)(a.shard, a.to), server.GetSnapshotDirName(a.index))
	got, _ := snapio.ReadFile(r.rfs, r.rfs.PathJoin(fd, a.mainName))
	st.Known(t, vfSigAfterRej, "minimal reproduction: streamed snapshot of 3 blocks, one bit of block 0 flipped in chunk 0; Add results %v; the snapshot was finalized and announced; stored file has %d bytes, the source %d (identical: %v)",
		results, len(got), len(a.mainBytes), bytes.Equal(got, a.mainBytes))
	st.Count("repro-rejected-chunk-finalized", 1)
}

// External files carry no checksum: an altered external file chunk is stored
// and the snapshot finalized.
func vfReproExternal(t *testing.T, st *vfhelp.Stats) {
	r, restore := vfNewRepro(t, 1024)
	defer restore()
	a := r.stream(0, "file", 5, 10, []int{1500})
	for i := range a.chunks {
		c := a.chunks[i]
		if i == len(a.chunks)-1 {
			c.Data = append([]byte{}, c.Data...)
			c.Data[0] ^= 1
		}
		if ok, pv := r.recv.add(c); !ok || pv != nil {
			t.Fatalf("chunk %d: %v %v", i, ok, pv)
		}
	}
	if len(r.recv.msgs) == 0 {
		st.Count("repro-external-not-finalized", 1)
		return
	}
	fd := r.rfs.PathJoin(vfDir(r.rfs)(a.shard, a.to), server.GetSnapshotDirName(a.index))
	got, _ := snapio.ReadFile(r.rfs, r.rfs.PathJoin(fd, fmt.Sprintf("external-file-%d", a.exts[0].id)))
	st.Known(t, vfSigExtFile, "minimal reproduction: one bit of the last external file chunk flipped; snapshot finalized, external file identical to the source: %v", bytes.Equal(got, a.exts[0].data))
	st.Count("repro-external-finalized", 1)
}

func TestVF_C15_Repro(t *testing.T) {
	st := vfhelp.NewStats("TestVF_C15_Repro", "three fixed scenarios: minimal reproductions of the known findings of C15 (no generated input)")
	defer st.Flush()
	vfReproS4(t, st)
	vfReproRejectedChunk(t, st)
	vfReproExternal(t, st)
	st.Case([]byte("repro"), false, "fixed-scenarios")
}
