package nhcluster

import (
	"context"
	"encoding/json"
	"fmt"
	"os"
	"sort"
	"strings"
	"sync"
	"sync/atomic"
	"testing"
	"time"

	dragonboat "github.com/lni/dragonboat/v4"
	"github.com/lni/dragonboat/v4/config"
	"github.com/lni/dragonboat/v4/internal/vfhelp"
	"github.com/lni/dragonboat/v4/logger"
	pb "github.com/lni/dragonboat/v4/raftpb"
	"pgregory.net/rapid"
)

// C07 at the public API level: membership changes issued through real NodeHosts
// (RequestAddReplica / AddNonVoting / AddWitness / DeleteReplica, ordered and
// unordered), with joiners started on spare hosts, removed replicas stopping
// themselves, promotions, invalid requests, two requests racing, link faults,
// restarts and leader transfers in between, all under client write load.
//
// Oracle: a reference membership written from the property statement and kept by
// the operator (who issues one change at a time and learns each outcome), compared
// with what every linearizable membership read returns; plus the invariants of
// the statement on every observed membership (a removed id never comes back, the
// set of full members is never empty, an id only moves non-voting -> full member,
// no two members share an address, the change id never goes back), "an invalid or
// stale request never completes", agreement of all members' views at the end and
// the C01/C02 oracles over the client history recorded meanwhile.

type c07Op int

const (
	c07AddVoter c07Op = iota
	c07AddNonVoting
	c07AddWitness
	c07Promote
	c07Remove
	c07Invalid
	c07Race
	c07Isolate
	c07Restart
	c07Transfer
	c07Snapshot
	c07StaleCampaign
	c07NumOps
)

var c07OpNames = [...]string{"add-voter", "add-nonvoting", "add-witness", "promote", "remove", "invalid", "race", "isolate", "restart", "transfer", "snapshot", "stale-campaigner"}

type c07Step struct {
	Op      c07Op
	A, B, C int
	AfterMs int
}

func (s c07Step) String() string {
	return fmt.Sprintf("%s(%d,%d,%d)+%dms", c07OpNames[s.Op], s.A, s.B, s.C, s.AfterMs)
}

type c07Plan struct {
	Hosts       int
	Kind        KVKind
	Tan         bool
	Ordered     bool
	PreVote     bool
	CheckQuorum bool
	SnapEntries uint64
	NetDelayMs  int
	Writers     int
	Steps       []c07Step
	Seeds       []int64
	// AsyncPct: percentage of the client operations issued through the asynchronous API
	// (Propose / ReadIndex + ReadLocalNode): every accepted request must deliver exactly
	// one terminal result, also when its replica is removed, stopped or restarted meanwhile
	AsyncPct int
}

type c07Role int

const (
	roleNone c07Role = iota
	roleVoter
	roleNonVoting
	roleWitness
)

// c07Model is the reference membership.
type c07Model struct {
	role    map[uint64]c07Role
	addr    map[uint64]string
	removed map[uint64]bool
}

func (m *c07Model) clone() *c07Model {
	c := &c07Model{role: map[uint64]c07Role{}, addr: map[uint64]string{}, removed: map[uint64]bool{}}
	for k, v := range m.role {
		c.role[k] = v
	}
	for k, v := range m.addr {
		c.addr[k] = v
	}
	for k := range m.removed {
		c.removed[k] = true
	}
	return c
}

func (m *c07Model) String() string {
	var v, n, w, x []uint64
	for id, r := range m.role {
		switch r {
		case roleVoter:
			v = append(v, id)
		case roleNonVoting:
			n = append(n, id)
		case roleWitness:
			w = append(w, id)
		}
	}
	for id := range m.removed {
		x = append(x, id)
	}
	for _, s := range [][]uint64{v, n, w, x} {
		sort.Slice(s, func(i, j int) bool { return s[i] < s[j] })
	}
	return fmt.Sprintf("voters%v nonvoting%v witnesses%v removed%v", v, n, w, x)
}

func (m *c07Model) voters() []uint64 {
	var v []uint64
	for id, r := range m.role {
		if r == roleVoter {
			v = append(v, id)
		}
	}
	sort.Slice(v, func(i, j int) bool { return v[i] < v[j] })
	return v
}

func (m *c07Model) byRole(want c07Role) []uint64 {
	var v []uint64
	for id, r := range m.role {
		if r == want {
			v = append(v, id)
		}
	}
	sort.Slice(v, func(i, j int) bool { return v[i] < v[j] })
	return v
}

func memString(m *dragonboat.Membership) string {
	keys := func(x map[uint64]string) []uint64 {
		var r []uint64
		for k := range x {
			r = append(r, k)
		}
		sort.Slice(r, func(i, j int) bool { return r[i] < r[j] })
		return r
	}
	var rem []uint64
	for k := range m.Removed {
		rem = append(rem, k)
	}
	sort.Slice(rem, func(i, j int) bool { return rem[i] < rem[j] })
	return fmt.Sprintf("voters%v nonvoting%v witnesses%v removed%v", keys(m.Nodes), keys(m.NonVotings), keys(m.Witnesses), rem)
}

// equals: the observed membership is exactly the reference membership
func (m *c07Model) equals(o *dragonboat.Membership) bool {
	n := 0
	for id, r := range m.role {
		var a string
		var ok bool
		switch r {
		case roleVoter:
			a, ok = o.Nodes[id]
		case roleNonVoting:
			a, ok = o.NonVotings[id]
		case roleWitness:
			a, ok = o.Witnesses[id]
		}
		if !ok || a != m.addr[id] {
			return false
		}
		n++
	}
	if n != len(o.Nodes)+len(o.NonVotings)+len(o.Witnesses) {
		return false
	}
	if len(o.Removed) != len(m.removed) {
		return false
	}
	for id := range m.removed {
		if _, ok := o.Removed[id]; !ok {
			return false
		}
	}
	return true
}

func modelFrom(o *dragonboat.Membership) *c07Model {
	m := &c07Model{role: map[uint64]c07Role{}, addr: map[uint64]string{}, removed: map[uint64]bool{}}
	for id, a := range o.Nodes {
		m.role[id], m.addr[id] = roleVoter, a
	}
	for id, a := range o.NonVotings {
		m.role[id], m.addr[id] = roleNonVoting, a
	}
	for id, a := range o.Witnesses {
		m.role[id], m.addr[id] = roleWitness, a
	}
	for id := range o.Removed {
		m.removed[id] = true
	}
	return m
}

var famE6C07 = set("membership-differs-from-completed-changes", "removed-replica-is-a-member-again", "removed-id-forgotten", "no-full-member-left",
	"member-demoted", "two-members-share-an-address", "config-change-id-went-back", "config-change-id-unchanged-by-change", "invalid-config-change-accepted",
	"stale-ordered-config-change-accepted", "two-ordered-changes-with-one-id-accepted", "rejected-config-change-changed-membership",
	"membership-differs-between-replicas", "unknown-outcome-resolved-to-impossible-membership",
	"linearizability-violated", "replicas-applied-different-entries", "replica-state-differs-at-same-index", "write-applied-twice",
	"restart-failed", "joiner-start-failed", "completed-request-never-applied", "vote-response-without-request")

func genC07Plan(t *rapid.T) c07Plan {
	p := c07Plan{
		Hosts:       5 + vfhelp.Pick(t, "hosts", 1),
		Kind:        KVKind(vfhelp.PickN(t, "kind", 3)),
		Tan:         vfhelp.Pick(t, "tan", 2) == 0,
		Ordered:     vfhelp.Pick(t, "ordered", 1) == 1,
		PreVote:     vfhelp.Pick(t, "prevote", 1) == 1,
		CheckQuorum: vfhelp.Pick(t, "checkquorum", 1) == 1,
		Writers:     1 + vfhelp.PickN(t, "writers", 3),
	}
	if vfhelp.Pick(t, "snap", 1) == 1 {
		p.SnapEntries = uint64(4 + vfhelp.PickN(t, "snapentries", 8))
	}
	if vfhelp.Pick(t, "netdelay", 2) == 0 {
		p.NetDelayMs = 1 + vfhelp.PickN(t, "netdelayms", 3)
	}
	// membership changes are what this unit is about: they outweigh the pure faults
	weighted := []c07Op{c07AddVoter, c07AddVoter, c07AddNonVoting, c07AddNonVoting, c07AddWitness, c07Promote, c07Promote, c07Remove, c07Remove, c07Remove,
		c07Invalid, c07Invalid, c07Invalid, c07Race, c07Isolate, c07Isolate, c07Restart, c07Transfer, c07Snapshot, c07StaleCampaign}
	n := 8 + vfhelp.PickN(t, "nsteps", 9)
	for i := 0; i < n; i++ {
		op := weighted[vfhelp.PickN(t, "op", len(weighted))]
		p.Steps = append(p.Steps, c07Step{Op: op, A: vfhelp.PickN(t, "a", 14), B: vfhelp.PickN(t, "b", 7), C: vfhelp.PickN(t, "c", 7), AfterMs: 2 + vfhelp.PickN(t, "after", 30)})
	}
	for i := 0; i < 4; i++ {
		p.Seeds = append(p.Seeds, int64(vfhelp.Pick(t, "seed", 1000)))
	}
	return p
}

func TestVF_C07_Cluster(t *testing.T) {
	st := vfhelp.NewStats("TestVF_C07_Cluster",
		"E6 nhcluster: generated sequences of membership change requests through the public NodeHost API (add full member / non-voting / witness on spare hosts, promote, remove incl. the leader, invalid and stale requests, two racing requests; ordered and unordered mode) "+
			"interleaved with link faults, restarts, leader transfers and snapshots under client write load; oracle = reference membership kept from the learnt outcomes vs every linearizable membership read, the invariants of the statement on every observed membership, agreement of all members at the end, C01/C02 oracles on the client history; "+
			"non-trivial = >= 3 changes took effect, among them a removal, and >= 1 invalid/stale request was refused; distinct = hash of the plan")
	defer st.Flush()
	rapid.Check(t, func(t *rapid.T) {
		p := genC07Plan(t)
		if data, err := json.MarshalIndent(p, "", " "); err == nil {
			_ = os.WriteFile("artefact-current-plan.json", data, 0o644)
		}
		labels, nt, ok := runC07(t, st, p)
		if !ok {
			return
		}
		canon, _ := json.Marshal(p)
		sort.Strings(labels)
		st.Case(canon, nt, labels...)
		if nt && st.WantSample() {
			var ss []string
			for _, s := range p.Steps {
				ss = append(ss, s.String())
			}
			st.Sample(map[string]interface{}{"hosts": p.Hosts, "kind": p.Kind.String(), "tan": p.Tan, "ordered": p.Ordered, "steps": strings.Join(ss, " "), "outcome": labels})
		}
	})
}

type c07Run struct {
	p       c07Plan
	c       *Cluster
	res     *Result
	spec    *ShardSpec
	model   *c07Model
	mu      sync.Mutex // protects ridOn / roleOn / promoted against the writers
	ridOn   map[int]uint64
	roleOn  map[int]c07Role
	promoted map[uint64]bool
	nextID  uint64
	lastCCID uint64
	haveCCID bool
	oldCCIDs []uint64
	labels  map[string]int
	applied int // membership changes that took effect
	refused int
	removals int
	usedHost  map[int]bool // hosts that run or ran a replica
	onRemoved func(rid uint64)
	onJoined  func(h *Host)
}

func (r *c07Run) label(l string) { r.labels[l]++ }

func (r *c07Run) cfg(rid uint64, role c07Role) config.Config {
	c := ShardConfig(shardID, rid)
	c.OrderedConfigChange = r.p.Ordered
	c.PreVote = r.p.PreVote
	c.CheckQuorum = r.p.CheckQuorum
	c.SnapshotEntries = r.p.SnapEntries
	switch role {
	case roleNonVoting:
		c.IsNonVoting = true
	case roleWitness:
		c.IsWitness = true
		c.SnapshotEntries = 0
	}
	return c
}

// via picks a running host whose replica is a full member or a non-voting member
// by the reference membership (requests are forwarded to the leader from there)
func (r *c07Run) via(k int) *Host {
	var cands []*Host
	for _, h := range r.c.Hosts {
		rid := r.ridOn[h.Idx]
		if h.Up && rid != 0 && (r.model.role[rid] == roleVoter || r.model.role[rid] == roleNonVoting) {
			cands = append(cands, h)
		}
	}
	if len(cands) == 0 {
		return nil
	}
	return cands[k%len(cands)]
}

func (r *c07Run) spare(k int) *Host {
	var cands, used []*Host
	for _, h := range r.c.Hosts {
		if h.Up && r.ridOn[h.Idx] == 0 {
			cands = append(cands, h)
			if r.usedHost[h.Idx] {
				used = append(used, h)
			}
		}
	}
	if len(cands) == 0 {
		return nil
	}
	if len(used) > 0 && k%2 == 1 {
		// the host of a removed replica: peers that have not learnt of the removal yet keep
		// sending the removed replica's messages to the address the new replica listens on
		return used[(k/2)%len(used)]
	}
	return cands[k%len(cands)]
}

func (r *c07Run) hostOf(rid uint64) *Host {
	for _, h := range r.c.Hosts {
		if r.ridOn[h.Idx] == rid {
			return h
		}
	}
	return nil
}

// observe performs a linearizable membership read (retried for a while) and checks
// the invariants of the statement on what it returns.
func (r *c07Run) observe(k int) (*dragonboat.Membership, bool) {
	deadline := time.Now().Add(8 * time.Second)
	for i := 0; time.Now().Before(deadline); i++ {
		h := r.via(k + i)
		if h == nil {
			return nil, false
		}
		ctx, cancel := context.WithTimeout(context.Background(), 500*time.Millisecond)
		m, err := h.NH.SyncGetShardMembership(ctx, shardID)
		cancel()
		if err == nil {
			r.invariants(m)
			return m, true
		}
		if os.Getenv("VF_DEBUG_C07") != "" {
			lid, term, valid, lerr := h.NH.GetLeaderID(shardID)
			fmt.Fprintf(os.Stderr, "%d observe via host %d (rid %d): %v; leader %d term %d valid %v err %v\n", Now(), h.Idx, r.ridOn[h.Idx], err, lid, term, valid, lerr)
		}
		time.Sleep(10 * time.Millisecond)
	}
	return nil, false
}

func (r *c07Run) invariants(m *dragonboat.Membership) {
	res := r.res
	if len(m.Nodes) == 0 {
		res.violate("no-full-member-left", "observed membership has no full member: %s", memString(m))
	}
	for id := range r.model.removed {
		if _, ok := m.Removed[id]; !ok {
			res.violate("removed-id-forgotten", "replica %d was removed (reference %s) but is not recorded as removed in %s", id, r.model, memString(m))
		}
	}
	seen := map[string]uint64{}
	for _, mm := range []map[uint64]string{m.Nodes, m.NonVotings, m.Witnesses} {
		for id, a := range mm {
			if _, gone := m.Removed[id]; gone || r.model.removed[id] {
				res.violate("removed-replica-is-a-member-again", "replica %d is recorded as removed and is a member in %s", id, memString(m))
			}
			key := strings.ToLower(strings.TrimSpace(a))
			if other, dup := seen[key]; dup && other != id {
				res.violate("two-members-share-an-address", "replicas %d and %d share address %s in %s", other, id, a, memString(m))
			}
			seen[key] = id
		}
	}
	for id, role := range r.model.role {
		if role != roleVoter {
			continue
		}
		if _, ok := m.NonVotings[id]; ok {
			res.violate("member-demoted", "full member %d is a non-voting member in %s", id, memString(m))
		}
		if _, ok := m.Witnesses[id]; ok {
			res.violate("member-demoted", "full member %d is a witness in %s", id, memString(m))
		}
	}
	if r.haveCCID && m.ConfigChangeID < r.lastCCID {
		res.violate("config-change-id-went-back", "change id %d after %d", m.ConfigChangeID, r.lastCCID)
	}
	if r.haveCCID && m.ConfigChangeID != r.lastCCID {
		r.oldCCIDs = append(r.oldCCIDs, r.lastCCID)
	}
	r.lastCCID, r.haveCCID = m.ConfigChangeID, true
}

// settle compares a fresh observation with the reference membership.
func (r *c07Run) settle(k int, what string) bool {
	m, ok := r.observe(k)
	if !ok {
		r.label("inconclusive-membership-unreadable")
		return false
	}
	if !r.model.equals(m) {
		r.res.violate("membership-differs-from-completed-changes", "after %s: reference %s, linearizable read %s", what, r.model, memString(m))
		return false
	}
	return true
}

type c07Change struct {
	kind string // add-voter | add-nonvoting | add-witness | remove
	rid  uint64
	addr string
}

func (ch c07Change) String() string { return fmt.Sprintf("%s(%d,%s)", ch.kind, ch.rid, ch.addr) }

func (m *c07Model) apply(ch c07Change) {
	switch ch.kind {
	case "add-voter":
		m.role[ch.rid], m.addr[ch.rid] = roleVoter, ch.addr
	case "add-nonvoting":
		m.role[ch.rid], m.addr[ch.rid] = roleNonVoting, ch.addr
	case "add-witness":
		m.role[ch.rid], m.addr[ch.rid] = roleWitness, ch.addr
	case "remove":
		delete(m.role, ch.rid)
		delete(m.addr, ch.rid)
		m.removed[ch.rid] = true
	}
}

func (r *c07Run) request(h *Host, ch c07Change, ccid uint64, timeout time.Duration) error {
	ctx, cancel := context.WithTimeout(context.Background(), timeout)
	defer cancel()
	switch ch.kind {
	case "add-voter":
		return h.NH.SyncRequestAddReplica(ctx, shardID, ch.rid, ch.addr, ccid)
	case "add-nonvoting":
		return h.NH.SyncRequestAddNonVoting(ctx, shardID, ch.rid, ch.addr, ccid)
	case "add-witness":
		return h.NH.SyncRequestAddWitness(ctx, shardID, ch.rid, ch.addr, ccid)
	default:
		return h.NH.SyncRequestDeleteReplica(ctx, shardID, ch.rid, ccid)
	}
}

// barrier: once a write proposed now has completed, an earlier request whose outcome
// is unknown has either taken effect or never will (delayed copies of it in the
// network are waited out first).
func (r *c07Run) barrier(k int) bool {
	time.Sleep(time.Duration(3*r.p.NetDelayMs+30) * time.Millisecond)
	deadline := time.Now().Add(8 * time.Second)
	for i := 0; time.Now().Before(deadline); i++ {
		h := r.via(k + i)
		if h == nil {
			return false
		}
		ctx, cancel := context.WithTimeout(context.Background(), 500*time.Millisecond)
		_, err := h.NH.SyncPropose(ctx, h.NH.GetNoOPSession(shardID), []byte("B|barrier"))
		cancel()
		if err == nil {
			return true
		}
		time.Sleep(10 * time.Millisecond)
	}
	return false
}

// change issues one valid membership change, learns its outcome and updates the
// reference membership. Returns whether it took effect; ok=false ends the case
// (inconclusive or violation already recorded).
func (r *c07Run) change(k int, ch c07Change) (took bool, ok bool) {
	h := r.via(k)
	if h == nil {
		return false, false
	}
	var ccid uint64
	if r.p.Ordered {
		m, ok := r.observe(k)
		if !ok {
			r.label("inconclusive-membership-unreadable")
			return false, false
		}
		ccid = m.ConfigChangeID
	}
	before, haveBefore := r.lastCCID, r.haveCCID
	err := r.request(h, ch, ccid, 2*time.Second)
	switch {
	case err == nil:
		r.model.apply(ch)
		took = true
	case err == dragonboat.ErrRejected:
		// a valid, up to date request is refused only if the membership moved under it,
		// which the operator (the only requester) excludes
		r.res.violate("membership-differs-from-completed-changes", "valid request %s (change id %d, ordered %v) was rejected; reference %s", ch, ccid, r.p.Ordered, r.model)
		return false, false
	default:
		r.label("change-outcome-unknown")
		if !r.barrier(k + 1) {
			r.label("inconclusive-no-barrier")
			return false, false
		}
		m, ok := r.observe(k + 1)
		if !ok {
			r.label("inconclusive-membership-unreadable")
			return false, false
		}
		with := r.model.clone()
		with.apply(ch)
		switch {
		case with.equals(m):
			r.model = with
			took = true
		case r.model.equals(m):
		default:
			r.res.violate("unknown-outcome-resolved-to-impossible-membership", "request %s ended with %v; reference before %s; linearizable read afterwards %s", ch, err, r.model, memString(m))
			return false, false
		}
	}
	if took {
		r.applied++
		if ch.kind == "remove" {
			r.removals++
			r.label("removal-took-effect")
			if r.onRemoved != nil {
				r.onRemoved(ch.rid)
			}
		}
		if !r.settle(k, ch.String()) {
			return took, false
		}
		if haveBefore && r.lastCCID == before {
			r.res.violate("config-change-id-unchanged-by-change", "%s took effect but the change id is still %d", ch, before)
		}
	}
	return took, true
}

func (r *c07Run) startJoiner(h *Host, rid uint64, role c07Role) bool {
	var err error
	for try := 0; try < 50; try++ {
		err = h.StartReplica(r.spec, nil, true, r.cfg(rid, role))
		if err == nil {
			r.mu.Lock()
			r.ridOn[h.Idx], r.roleOn[h.Idx] = rid, role
			r.usedHost[h.Idx] = true
			r.mu.Unlock()
			if r.onJoined != nil {
				r.onJoined(h)
			}
			return true
		}
		if err != dragonboat.ErrShardAlreadyExist {
			break
		}
		// the previous (removed) replica of this host is still being unloaded
		time.Sleep(10 * time.Millisecond)
	}
	r.res.violate("joiner-start-failed", "replica %d (role %d) could not be started on host %d: %v", rid, role, h.Idx, err)
	return false
}

func runC07(t *rapid.T, st *vfhelp.Stats, p c07Plan) ([]string, bool, bool) {
	return runC07Fam(t, st, p, famE6C07, "C07")
}

func runC07Fam(t *rapid.T, st *vfhelp.Stats, p c07Plan, fam map[string]bool, prop string) ([]string, bool, bool) {
	if os.Getenv("VF_DEBUG_RAFTLOG") != "" {
		logger.GetLogger("raft").SetLevel(logger.INFO)
	}
	rec := NewRecorder()
	c := NewCluster(ClusterOptions{Hosts: p.Hosts, Tan: p.Tan, Seed: 13, RTTms: 2})
	defer c.Close()
	res := &Result{Plan: Plan{Hosts: p.Hosts, Kind: p.Kind, Tan: p.Tan, Keys: 2}, Rec: rec, Flags: map[string]int{}, Cluster: c}
	res.sent = newSendMonitor(res, c)
	var removedIDs, reusedAddr sync.Map // replica ids removed so far; addresses that run a second replica id
	var staleVoteReqs, staleVoteReqsToReused int64
	c.Net.OnSend = func(from, to string, m pb.Message) {
		res.sent.onSend(from, to, m)
		if m.Type == pb.RequestVote || m.Type == pb.RequestPreVote {
			if _, gone := removedIDs.Load(m.To); gone {
				atomic.AddInt64(&staleVoteReqs, 1)
				if _, again := reusedAddr.Load(to); again {
					atomic.AddInt64(&staleVoteReqsToReused, 1)
				}
			}
		}
	}
	defer func() {
		if atomic.LoadInt64(&staleVoteReqs) > 0 {
			st.Count("vote-request-addressed-to-removed-replica", 1)
		}
		if atomic.LoadInt64(&staleVoteReqsToReused) > 0 {
			st.Count("vote-request-for-removed-replica-sent-to-reused-host", 1)
		}
	}()
	if p.NetDelayMs > 0 {
		c.Net.SetMaxDelay(time.Duration(p.NetDelayMs) * time.Millisecond)
	}
	r := &c07Run{p: p, c: c, res: res, spec: NewShardSpec(shardID, p.Kind, rec), ridOn: map[int]uint64{}, roleOn: map[int]c07Role{},
		promoted: map[uint64]bool{}, nextID: 4, labels: map[string]int{}, usedHost: map[int]bool{0: true, 1: true, 2: true},
		model: &c07Model{role: map[uint64]c07Role{}, addr: map[uint64]string{}, removed: map[uint64]bool{}}}
	r.onRemoved = func(rid uint64) { removedIDs.Store(rid, true) }
	r.onJoined = func(h *Host) {
		if h.Idx < 3 || func() bool { _, ok := reusedAddr.Load("seen:" + h.Addr); return ok }() {
			reusedAddr.Store(h.Addr, true)
		}
		reusedAddr.Store("seen:"+h.Addr, true)
	}
	inconclusive := func(why string) ([]string, bool, bool) {
		st.Count("inconclusive-"+why, 1)
		return nil, false, false
	}
	members := c.Members(3)
	for _, h := range c.Hosts {
		h.Mon.OnSnapshotRecord = rec.SnapshotCreated
		h.Mon.OnSnapshotInstalled = rec.SnapshotInstalled
		h.Mon.OnViolation = res.violate
		if err := h.Start(); err != nil {
			return inconclusive("start")
		}
	}
	for i := 0; i < 3; i++ {
		rid := uint64(i + 1)
		if err := c.Hosts[i].StartReplica(r.spec, members, false, r.cfg(rid, roleVoter)); err != nil {
			return inconclusive("startreplica")
		}
		r.ridOn[i], r.roleOn[i] = rid, roleVoter
		r.model.role[rid], r.model.addr[rid] = roleVoter, c.Hosts[i].Addr
	}
	if _, ok := c.WaitLeader(shardID, 10*time.Second); !ok {
		return inconclusive("no-initial-leader")
	}
	if !r.settle(0, "start") {
		if len(res.AllViolations()) == 0 {
			return inconclusive("initial-membership-unreadable")
		}
	}

	// client write/read load on the hosts that run a replica
	stop := make(chan struct{})
	var wg sync.WaitGroup
	var opMu sync.Mutex
	var valCtr int64
	addOp := func(op *Op) *Op {
		opMu.Lock()
		op.ID = len(res.Ops)
		res.Ops = append(res.Ops, op)
		opMu.Unlock()
		return op
	}
	for w := 0; w < p.Writers; w++ {
		wg.Add(1)
		go func(w int) {
			defer wg.Done()
			rnd := newLCG(p.Seeds[w%len(p.Seeds)] + int64(w))
			for i := 0; i < 400; i++ {
				select {
				case <-stop:
					return
				default:
				}
				r.mu.Lock()
				h := c.Hosts[rnd.intn(p.Hosts)]
				usable := h.Up && h.NH != nil && r.ridOn[h.Idx] != 0 && r.roleOn[h.Idx] != roleWitness
				nh := h.NH
				r.mu.Unlock()
				if !usable {
					time.Sleep(200 * time.Microsecond)
					continue
				}
				key := fmt.Sprintf("k%d", rnd.intn(2))
				timeout := time.Duration(100+rnd.intn(200)) * time.Millisecond
				if p.AsyncPct > 0 && rnd.intn(100) < p.AsyncPct {
					c07Async(res, nh, h.Idx, w, key, timeout, rnd.intn(3) == 0, &valCtr, addOp)
					time.Sleep(time.Duration(rnd.intn(2)) * time.Millisecond)
					continue
				}
				ctx, cancel := context.WithTimeout(context.Background(), timeout)
				if rnd.intn(3) == 0 {
					op := addOp(&Op{Client: w, Host: h.Idx, Key: key, Call: Now(), Mode: "syncread"})
					v, err := nh.SyncRead(ctx, shardID, key)
					if err == nil {
						op.Val, _ = v.(string)
					}
					op.Outcome, op.Ret = classifyErr(err), Now()
				} else {
					val := fmt.Sprintf("w%dv%d", w, atomic.AddInt64(&valCtr, 1))
					op := addOp(&Op{Client: w, Host: h.Idx, Write: true, Key: key, Val: val, Call: Now(), Mode: "syncpropose"})
					_, err := nh.SyncPropose(ctx, nh.GetNoOPSession(shardID), []byte("P|"+key+"|"+val))
					op.Outcome, op.Ret = classifyErr(err), Now()
					if err == nil {
						res.flag("write-completed")
					}
				}
				cancel()
				time.Sleep(time.Duration(rnd.intn(3)) * time.Millisecond)
			}
		}(w)
	}

	addKinds := map[c07Op]struct {
		kind string
		role c07Role
	}{c07AddVoter: {"add-voter", roleVoter}, c07AddNonVoting: {"add-nonvoting", roleNonVoting}, c07AddWitness: {"add-witness", roleWitness}}

	alive := true
	var healWg sync.WaitGroup // heals of isolations that span several steps
	for si, s := range p.Steps {
		if !alive || len(res.AllViolations()) > 0 {
			break
		}
		time.Sleep(time.Duration(s.AfterMs) * time.Millisecond)
		switch s.Op {
		case c07AddVoter, c07AddNonVoting, c07AddWitness:
			ak := addKinds[s.Op]
			sp := r.spare(s.A)
			if sp == nil {
				r.label("skipped-no-spare-host")
				continue
			}
			if ak.role == roleWitness && len(r.model.byRole(roleWitness)) > 0 {
				r.label("skipped-second-witness")
				continue
			}
			rid := r.nextID
			r.nextID++
			took, ok := r.change(s.B, c07Change{ak.kind, rid, sp.Addr})
			alive = ok
			if took {
				r.label("took-" + ak.kind)
				if !r.startJoiner(sp, rid, ak.role) {
					alive = false
				}
			}
		case c07StaleCampaign:
			// A full member Z is cut off (once X's host runs the new replica, what Z sends to that host is delivered again), another
			// full member X is removed and a new replica Y is added and started on X's host.
			// Z keeps campaigning with the membership it knows: its vote requests for X arrive
			// at the address Y listens on. Then the network heals and Z catches up.
			voters := r.model.voters()
			// (five full members: without Z and X, and before the new replica runs, three of them
			// still are a quorum of the four / five members of the configurations on the way)
			if len(voters) < 5 {
				r.label("skipped-stale-campaigner-needs-5-full-members")
				continue
			}
			var lid uint64
			for _, h := range c.Hosts {
				if h.Up && r.ridOn[h.Idx] != 0 {
					if id, _, ok, err := h.NH.GetLeaderID(shardID); err == nil && ok {
						lid = id
						break
					}
				}
			}
			var cands []uint64
			for _, v := range voters {
				if h := r.hostOf(v); v != lid && h != nil && h.Up && !r.promoted[v] {
					cands = append(cands, v)
				}
			}
			if lid == 0 || len(cands) < 2 {
				r.label("skipped-stale-campaigner-no-leader")
				continue
			}
			sort.Slice(cands, func(i, j int) bool { return cands[i] < cands[j] })
			z, x := cands[s.A%len(cands)], cands[(s.A+1)%len(cands)]
			zh, xh := r.hostOf(z), r.hostOf(x)
			// (a member that is heard by everybody and hears nobody deposes every leader when
			// neither PreVote nor CheckQuorum is on: Z is cut off in both directions at first)
			for _, o := range c.Hosts {
				if o != zh {
					c.Net.SetDown(o.Addr, zh.Addr, true)
					c.Net.SetDown(zh.Addr, o.Addr, true)
				}
			}
			r.label("stale-campaigner")
			if os.Getenv("VF_DEBUG_C07") != "" {
				fmt.Fprintf(os.Stderr, "stale-campaigner: voters %v leader %d z %d (host %d) x %d (host %d) model %s\n", voters, lid, z, zh.Idx, x, xh.Idx, r.model)
			}
			k := s.B
			for tries := 0; tries < 12; tries++ {
				if h := r.via(k); h != nil && h != zh && h != xh {
					break
				}
				k++
			}
			took, ok := r.change(k, c07Change{"remove", x, ""})
			alive = ok
			if took && alive {
				r.label("took-remove")
				time.Sleep(time.Duration(5+s.C) * time.Millisecond)
				r.mu.Lock()
				r.ridOn[xh.Idx], r.roleOn[xh.Idx] = 0, roleNone
				r.mu.Unlock()
				_ = xh.NH.StopReplica(shardID, x)
				for tries := 0; tries < 12; tries++ {
					if h := r.via(k); h != nil && h != zh {
						break
					}
					k++
				}
				rid := r.nextID
				r.nextID++
				took2, ok2 := r.change(k, c07Change{"add-voter", rid, xh.Addr})
				alive = ok2
				if took2 && alive {
					r.label("took-add-voter")
					if !r.startJoiner(xh, rid, roleVoter) {
						alive = false
					} else {
						r.label("stale-campaigner-host-reused")
						// from now on what Z sends to X's former host is delivered
						c.Net.SetDown(zh.Addr, xh.Addr, false)
					}
				}
			}
			// Z's election timeout passes a few times
			time.Sleep(time.Duration(80+30*s.B) * time.Millisecond)
			c.Net.HealAll()
		case c07Promote:
			nvs := r.model.byRole(roleNonVoting)
			if len(nvs) == 0 {
				r.label("skipped-nothing-to-promote")
				continue
			}
			rid := nvs[s.A%len(nvs)]
			took, ok := r.change(s.B, c07Change{"add-voter", rid, r.model.addr[rid]})
			alive = ok
			if took {
				r.label("took-promote")
				r.mu.Lock()
				r.promoted[rid] = true
				r.mu.Unlock()
			}
		case c07Remove:
			var cands []uint64
			for id, role := range r.model.role {
				// keep two full members so that the shard stays available for the rest of the plan
				if role == roleVoter && len(r.model.voters()) <= 2 {
					continue
				}
				cands = append(cands, id)
			}
			if len(cands) == 0 {
				r.label("skipped-nothing-to-remove")
				continue
			}
			sort.Slice(cands, func(i, j int) bool { return cands[i] < cands[j] })
			rid := cands[s.A%len(cands)]
			if s.C%3 == 0 {
				// prefer the current leader: a leader removing itself
				for _, h := range c.Hosts {
					if h.Up && r.ridOn[h.Idx] != 0 {
						if lid, _, ok, err := h.NH.GetLeaderID(shardID); err == nil && ok && r.model.role[lid] == roleVoter && len(r.model.voters()) > 2 {
							rid = lid
							r.label("remove-targets-leader")
							break
						}
					}
				}
			}
			victim := r.hostOf(rid)
			// the request goes through another member than the one being removed
			k := s.B
			for tries := 0; tries < 8; tries++ {
				if h := r.via(k); h != nil && h != victim {
					break
				}
				k++
			}
			took, ok := r.change(k, c07Change{"remove", rid, ""})
			alive = ok
			if took {
				r.label("took-remove")
				if victim != nil {
					// the removed replica stops itself once it learns of its removal; the operator
					// stops it anyway after a while (it may never learn) and the host is spare again
					time.Sleep(time.Duration(5+s.C) * time.Millisecond)
					r.mu.Lock()
					r.ridOn[victim.Idx], r.roleOn[victim.Idx] = 0, roleNone
					r.mu.Unlock()
					if victim.Up {
						_ = victim.NH.StopReplica(shardID, rid)
					}
				}
			}
		case c07Invalid:
			alive = r.invalid(s)
		case c07Race:
			alive = r.race(s)
		case c07Isolate:
			h := c.Hosts[s.A%p.Hosts]
			// (C%4 == 3: a deaf replica - it hears nobody, but what it sends is delivered: it
			// keeps campaigning with the membership it knows, and its vote requests reach the
			// hosts of replicas that were removed - and replaced - meanwhile)
			deaf := s.C%4 == 3
			for _, o := range c.Hosts {
				if o != h {
					if !deaf {
						c.Net.SetDown(h.Addr, o.Addr, true)
					}
					c.Net.SetDown(o.Addr, h.Addr, true)
				}
			}
			r.label("fault-isolate")
			if deaf {
				r.label("fault-deaf-replica")
			}
			if s.C%2 == 1 {
				// the host stays cut off while the next steps run: its replica misses membership
				// changes, campaigns with the membership it knows and catches up after the heal
				r.label("fault-isolate-across-steps")
				healWg.Add(1)
				go func(d time.Duration) {
					defer healWg.Done()
					time.Sleep(d)
					c.Net.HealAll()
				}(time.Duration(60+40*s.B) * time.Millisecond)
				continue
			}
			time.Sleep(time.Duration(20+10*s.B) * time.Millisecond)
			c.Net.HealAll()
		case c07Restart:
			h := c.Hosts[s.A%p.Hosts]
			r.mu.Lock()
			rid, role := r.ridOn[h.Idx], r.roleOn[h.Idx]
			promoted := r.promoted[rid]
			r.mu.Unlock()
			if rid == 0 || promoted {
				// (with which IsNonVoting flag a promoted replica has to be restarted is not
				// documented: not generated)
				r.label("skipped-restart")
				continue
			}
			r.mu.Lock()
			h.Stop()
			r.mu.Unlock()
			time.Sleep(time.Duration(1+s.B) * time.Millisecond)
			r.mu.Lock()
			err := h.Start()
			r.mu.Unlock()
			if err != nil {
				res.violate("restart-failed", "host %d: %v", h.Idx, err)
				break
			}
			var mem map[uint64]dragonboat.Target
			join := true
			if rid <= 3 {
				mem, join = members, false
			}
			if err := h.StartReplica(r.spec, mem, join, r.cfg(rid, role)); err != nil {
				res.violate("restart-failed", "host %d replica %d: %v", h.Idx, rid, err)
			}
			r.label("fault-restart")
		case c07Transfer:
			if h := r.via(s.A); h != nil {
				vs := r.model.voters()
				_ = h.NH.RequestLeaderTransfer(shardID, vs[s.B%len(vs)])
				r.label("fault-transfer")
			}
		case c07Snapshot:
			if h := r.via(s.A); h != nil {
				if rs, err := h.NH.RequestSnapshot(shardID, dragonboat.SnapshotOption{}, time.Second); err == nil {
					go func() { <-rs.ResultC(); rs.Release() }()
					r.label("fault-snapshot")
				}
			}
		}
		_ = si
	}
	close(stop)
	wg.Wait()
	healWg.Wait()
	c.Net.HealAll()

	// every member's own view (a linearizable read through that very host) agrees
	if alive && len(res.AllViolations()) == 0 {
		agreed := 0
		for _, h := range c.Hosts {
			rid := r.ridOn[h.Idx]
			if !h.Up || rid == 0 || r.model.role[rid] == roleWitness || r.model.role[rid] == roleNone {
				continue
			}
			var m *dragonboat.Membership
			var err error
			for dl := time.Now().Add(8 * time.Second); time.Now().Before(dl); {
				ctx, cancel := context.WithTimeout(context.Background(), 500*time.Millisecond)
				m, err = h.NH.SyncGetShardMembership(ctx, shardID)
				cancel()
				if err == nil {
					break
				}
				time.Sleep(10 * time.Millisecond)
			}
			if err != nil {
				r.label("final-membership-unreadable-through-a-member")
				continue
			}
			r.invariants(m)
			if !r.model.equals(m) {
				res.violate("membership-differs-between-replicas", "final membership read through host %d (replica %d): %s; reference %s", h.Idx, rid, memString(m), r.model)
			}
			agreed++
		}
		if agreed >= 2 {
			r.label("final-views-compared")
		}
		res.finalAgreement()
	}
	res.CheckLinearizable()
	res.CheckStreams()
	for _, v := range res.AllViolations() {
		if strings.HasPrefix(v.Sig, "harness-") {
			return inconclusive(v.Sig)
		}
		if !fam[v.Sig] {
			st.Count("foreign-violation:"+v.Sig, 1)
			continue
		}
		art := map[string]interface{}{"plan": p, "violation": v, "labels": r.labels, "reference": r.model.String()}
		if data, err := json.MarshalIndent(art, "", " "); err == nil {
			_ = os.WriteFile("artefact-"+prop+".json", data, 0o644)
		}
		t.Logf("plan %+v", p)
		if !st.Known(t, v.Sig, "%s", v.Msg) {
			return nil, false, false
		}
	}
	var labels []string
	for l := range r.labels {
		labels = append(labels, l)
	}
	for f := range res.Flags {
		labels = append(labels, f)
	}
	labels = append(labels, "kind-"+p.Kind.String(), fmt.Sprintf("ordered-%v", p.Ordered))
	if p.Tan {
		labels = append(labels, "tan")
	} else {
		labels = append(labels, "pebble")
	}
	nt := r.applied >= 3 && r.removals >= 1 && r.refused >= 1
	return labels, nt, true
}

// c07Async issues one client operation through the asynchronous API and requires exactly
// one terminal result within the request's deadline (plus the harness's 10 s grace).
func c07Async(res *Result, nh *dragonboat.NodeHost, hi, w int, key string, timeout time.Duration, read bool, valCtr *int64, addOp func(*Op) *Op) {
	if read {
		op := addOp(&Op{Client: w, Host: hi, Key: key, Call: Now(), Mode: "readindex"})
		rs, err := nh.ReadIndex(shardID, timeout)
		if err != nil {
			op.Outcome, op.Ret = classifyErr(err), Now()
			return
		}
		r, code, _ := awaitResultX(rs, timeout)
		if code != awaitOK {
			what := "no-terminal-result"
			if code == awaitExtra {
				what = "two-results"
			}
			res.violate(what, "ReadIndex on host %d (timeout %v) while the membership changes: %s", hi, timeout, what)
			op.Outcome, op.Ret = "noresult", Now()
			return
		}
		res.flag("async-read-" + resultOutcome(r))
		if r.Completed() {
			v, err := nh.ReadLocalNode(rs, key)
			if err == nil {
				op.Val, _ = v.(string)
			}
			op.Outcome = classifyErr(err)
		} else {
			op.Outcome = resultOutcome(r)
		}
		op.Ret = Now()
		rs.Release()
		return
	}
	val := fmt.Sprintf("w%dv%d", w, atomic.AddInt64(valCtr, 1))
	cmd := []byte("P|" + key + "|" + val)
	op := addOp(&Op{Client: w, Host: hi, Write: true, Key: key, Val: val, Call: Now(), Mode: "propose"})
	rs, err := nh.Propose(nh.GetNoOPSession(shardID), cmd, timeout)
	if err != nil {
		op.Outcome, op.Ret = "notproposed", Now()
		return
	}
	r, code, _ := awaitResultX(rs, timeout)
	if code != awaitOK {
		what := "no-terminal-result"
		if code == awaitExtra {
			what = "two-results"
		}
		res.violate(what, "Propose %q on host %d (timeout %v) while the membership changes: %s", cmd, hi, timeout, what)
		op.Outcome, op.Ret = "noresult", Now()
		return
	}
	op.Outcome, op.Ret = resultOutcome(r), Now()
	res.flag("async-write-" + op.Outcome)
	if r.Completed() {
		res.flag("write-completed")
		op.Index = r.GetResult().Value
		if string(r.GetResult().Data) != "R:"+string(cmd) {
			res.violate("completed-with-foreign-result", "proposal %q completed with result data %q", cmd, r.GetResult().Data)
		}
	}
	rs.Release()
}

// A member that missed membership changes keeps talking to the replicas it knows: the
// host of a removed replica runs a new replica of the same shard by then. Every plan
// starts with "add a full member" and the stale-campaigner macro (see c07StaleCampaign).
func TestVF_C07_StaleMember(t *testing.T) {
	st := vfhelp.NewStats("TestVF_C07_StaleMember",
		"E6 nhcluster: five full members; one is cut off, another one is removed and a new replica is added and started on the removed one's host; what the cut off member sends to that host is delivered again, it campaigns with the membership it knows, then the network heals; followed by generated membership changes and faults as in TestVF_C07_Cluster; "+
			"oracle = as TestVF_C07_Cluster plus the wire monitor (a vote / pre-vote response answers a request that was addressed to the responding replica); "+
			"non-trivial = the removed replica's host was reused while the stale member was campaigning; distinct = hash of the plan")
	defer st.Flush()
	rapid.Check(t, func(t *rapid.T) {
		p := genC07Plan(t)
		pre := []c07Step{{Op: c07AddVoter, A: 0, B: vfhelp.PickN(t, "b0", 7), AfterMs: 2}, {Op: c07AddVoter, A: 0, B: vfhelp.PickN(t, "b00", 7), AfterMs: 2},
			{Op: c07StaleCampaign, A: vfhelp.PickN(t, "a1", 6), B: vfhelp.PickN(t, "b1", 4), C: vfhelp.PickN(t, "c1", 7), AfterMs: 20 + vfhelp.PickN(t, "after1", 100)}}
		if len(p.Steps) > 6 {
			p.Steps = p.Steps[:6]
		}
		p.Steps = append(pre, p.Steps...)
		if data, err := json.MarshalIndent(p, "", " "); err == nil {
			_ = os.WriteFile("artefact-current-plan.json", data, 0o644)
		}
		labels, _, ok := runC07(t, st, p)
		if !ok {
			return
		}
		nt := false
		for _, l := range labels {
			if l == "stale-campaigner-host-reused" {
				nt = true
			}
		}
		canon, _ := json.Marshal(p)
		sort.Strings(labels)
		st.Case(canon, nt, labels...)
		if nt && st.WantSample() {
			var ss []string
			for _, s := range p.Steps {
				ss = append(ss, s.String())
			}
			st.Sample(map[string]interface{}{"hosts": p.Hosts, "kind": p.Kind.String(), "prevote": p.PreVote, "checkquorum": p.CheckQuorum, "steps": strings.Join(ss, " "), "outcome": labels})
		}
	})
}

// The asynchronous request API while the membership changes (C12): every Propose /
// ReadIndex accepted by a replica delivers exactly one terminal result, also when that
// replica applies its own removal, is stopped by the monitor, restarted or replaced.
func TestVF_C12_Membership(t *testing.T) {
	st := vfhelp.NewStats("TestVF_C12_Membership",
		"E6 nhcluster: the generated membership change sequences of TestVF_C07_Cluster (add / promote / remove incl. the leader and the replica a client talks to, restarts, isolations, transfers, snapshots) under asynchronous client load (Propose / ReadIndex with 100-300 ms deadlines on every member); "+
			"oracle = every accepted request delivers exactly one terminal result within its deadline (+10 s grace), a completed proposal carries its own result, completed requests are in the linearizable history; "+
			"non-trivial = >= 1 removal took effect and asynchronous requests ended with >= 2 different codes; distinct = hash of the plan")
	defer st.Flush()
	rapid.Check(t, func(t *rapid.T) {
		p := genC07Plan(t)
		p.AsyncPct = 85
		if p.Writers < 3 {
			p.Writers = 3
		}
		// removals are what matters here
		for i := range p.Steps {
			if (p.Steps[i].Op == c07Invalid || p.Steps[i].Op == c07Race) && vfhelp.Pick(t, "toremove", 1) == 1 {
				p.Steps[i].Op = c07Remove
			}
		}
		if data, err := json.MarshalIndent(p, "", " "); err == nil {
			_ = os.WriteFile("artefact-current-plan.json", data, 0o644)
		}
		labels, _, ok := runC07Fam(t, st, p, famE6C12, "C12")
		if !ok {
			return
		}
		codes, removed := 0, false
		for _, l := range labels {
			if strings.HasPrefix(l, "async-write-") || strings.HasPrefix(l, "async-read-") {
				codes++
			}
			if l == "removal-took-effect" {
				removed = true
			}
		}
		canon, _ := json.Marshal(p)
		sort.Strings(labels)
		nt := codes >= 2 && removed
		st.Case(canon, nt, labels...)
		if nt && st.WantSample() {
			var ss []string
			for _, s := range p.Steps {
				ss = append(ss, s.String())
			}
			st.Sample(map[string]interface{}{"hosts": p.Hosts, "kind": p.Kind.String(), "steps": strings.Join(ss, " "), "outcome": labels})
		}
	})
}

// invalid issues one request that the statement says must never take effect.
func (r *c07Run) invalid(s c07Step) bool {
	h := r.via(s.B)
	if h == nil {
		return false
	}
	var ccid uint64
	m, ok := r.observe(s.B)
	if !ok {
		r.label("inconclusive-membership-unreadable")
		return false
	}
	if r.p.Ordered {
		ccid = m.ConfigChangeID
	}
	sp := r.spare(s.A)
	pick := func(ids []uint64) uint64 { return ids[s.C%len(ids)] }
	var ch c07Change
	why := ""
	members := append(append(r.model.voters(), r.model.byRole(roleNonVoting)...), r.model.byRole(roleWitness)...)
	kinds3 := []string{"add-voter", "add-nonvoting", "add-witness"}
	// the variants that apply to the current membership; one of them is drawn
	var variants []func()
	if len(r.model.removed) > 0 && sp != nil {
		variants = append(variants, func() {
			var ids []uint64
			for id := range r.model.removed {
				ids = append(ids, id)
			}
			sort.Slice(ids, func(i, j int) bool { return ids[i] < ids[j] })
			ch, why = c07Change{kinds3[s.C%3], pick(ids), sp.Addr}, "re-adds-removed-replica"
		})
		// (weighted: the rule the statement names first)
		variants = append(variants, variants[len(variants)-1])
	}
	variants = append(variants, func() {
		// a new id at the address of an existing member
		ch, why = c07Change{kinds3[s.C%3], r.nextID, r.model.addr[pick(members)]}, "address-already-used"
		r.nextID++
	}, func() {
		ch, why = c07Change{"add-nonvoting", pick(r.model.voters()), ""}, "full-member-as-nonvoting"
		ch.addr = r.model.addr[ch.rid]
	}, func() {
		ch, why = c07Change{"add-witness", pick(r.model.voters()), ""}, "full-member-as-witness"
		ch.addr = r.model.addr[ch.rid]
	})
	if ws := r.model.byRole(roleWitness); len(ws) > 0 {
		variants = append(variants, func() {
			ch, why = c07Change{[]string{"add-voter", "add-nonvoting"}[s.C%2], pick(ws), ""}, "witness-changes-role"
			ch.addr = r.model.addr[ch.rid]
		})
	}
	if nvs := r.model.byRole(roleNonVoting); len(nvs) > 0 {
		variants = append(variants, func() {
			ch, why = c07Change{"add-witness", pick(nvs), ""}, "nonvoting-as-witness"
			ch.addr = r.model.addr[ch.rid]
		})
	}
	if r.p.Ordered && sp != nil {
		var stale []uint64
		for _, id := range r.oldCCIDs {
			if id != m.ConfigChangeID {
				stale = append(stale, id)
			}
		}
		if len(stale) > 0 {
			f := func() {
				// a stale change id in ordered mode
				ch, why = c07Change{"add-nonvoting", r.nextID, sp.Addr}, "stale-change-id"
				r.nextID++
				ccid = stale[s.C%len(stale)]
			}
			variants = append(variants, f, f)
		}
	}
	variants[s.A%len(variants)]()
	err := r.request(h, ch, ccid, 2*time.Second)
	r.label("invalid-" + why)
	if err == nil {
		sig := "invalid-config-change-accepted"
		if why == "stale-change-id" {
			sig = "stale-ordered-config-change-accepted"
		}
		r.res.violate(sig, "request %s (%s, change id %d, current %d) completed; reference %s", ch, why, ccid, m.ConfigChangeID, r.model)
		return false
	}
	if err == dragonboat.ErrRejected {
		r.refused++
		r.label("refused-" + why)
	} else {
		if !r.barrier(s.B + 1) {
			r.label("inconclusive-no-barrier")
			return false
		}
	}
	m2, ok := r.observe(s.B + 1)
	if !ok {
		r.label("inconclusive-membership-unreadable")
		return false
	}
	if !r.model.equals(m2) {
		r.res.violate("rejected-config-change-changed-membership", "request %s (%s) ended with %v; reference %s; linearizable read afterwards %s", ch, why, err, r.model, memString(m2))
		return false
	}
	return true
}

// race issues two valid additions at the same time through two hosts. Both may take
// effect in unordered mode (one after the other); in ordered mode they carry the
// same change id and at most one of them may.
func (r *c07Run) race(s c07Step) bool {
	sp1 := r.spare(s.A)
	if sp1 == nil {
		r.label("skipped-no-spare-host")
		return true
	}
	r.mu.Lock()
	r.ridOn[sp1.Idx] = ^uint64(0) // reserved
	r.mu.Unlock()
	sp2 := r.spare(s.A + 1)
	r.mu.Lock()
	r.ridOn[sp1.Idx] = 0
	r.mu.Unlock()
	if sp2 == nil {
		r.label("skipped-no-spare-host")
		return true
	}
	h1, h2 := r.via(s.B), r.via(s.B+1)
	if h1 == nil || h2 == nil {
		return false
	}
	var ccid uint64
	if r.p.Ordered {
		m, ok := r.observe(s.B)
		if !ok {
			r.label("inconclusive-membership-unreadable")
			return false
		}
		ccid = m.ConfigChangeID
	}
	chs := []c07Change{{"add-nonvoting", r.nextID, sp1.Addr}, {"add-nonvoting", r.nextID + 1, sp2.Addr}}
	if s.C%2 == 0 {
		chs[0].kind = "add-voter"
	}
	r.nextID += 2
	errs := make([]error, 2)
	var wg sync.WaitGroup
	for i, h := range []*Host{h1, h2} {
		wg.Add(1)
		go func(i int, h *Host) {
			defer wg.Done()
			errs[i] = r.request(h, chs[i], ccid, 2*time.Second)
		}(i, h)
	}
	wg.Wait()
	r.label("race")
	if r.p.Ordered && errs[0] == nil && errs[1] == nil {
		r.res.violate("two-ordered-changes-with-one-id-accepted", "requests %s and %s, both with change id %d, completed", chs[0], chs[1], ccid)
		return false
	}
	unknown := false
	for _, e := range errs {
		if e != nil && e != dragonboat.ErrRejected {
			unknown = true
		}
	}
	if unknown && !r.barrier(s.B+2) {
		r.label("inconclusive-no-barrier")
		return false
	}
	m, ok := r.observe(s.B + 2)
	if !ok {
		r.label("inconclusive-membership-unreadable")
		return false
	}
	// which of the two took effect is read off the observation; it must be consistent
	// with the learnt outcomes (completed => in, rejected => out)
	for i, ch := range chs {
		_, inV := m.Nodes[ch.rid]
		_, inN := m.NonVotings[ch.rid]
		in := inV || inN
		if errs[i] == nil && !in {
			r.res.violate("membership-differs-from-completed-changes", "racing request %s completed but replica %d is not a member in %s", ch, ch.rid, memString(m))
			return false
		}
		if errs[i] == dragonboat.ErrRejected {
			r.label("race-one-rejected")
			if in {
				r.res.violate("rejected-config-change-changed-membership", "racing request %s was rejected but replica %d is a member in %s", ch, ch.rid, memString(m))
				return false
			}
		}
		if in {
			r.model.apply(ch)
			r.applied++
		}
	}
	if !r.model.equals(m) {
		r.res.violate("membership-differs-from-completed-changes", "after racing requests %s (%v) and %s (%v): reference %s, linearizable read %s", chs[0], errs[0], chs[1], errs[1], r.model, memString(m))
		return false
	}
	for i, sp := range []*Host{sp1, sp2} {
		if r.model.role[chs[i].rid] != roleNone {
			if !r.startJoiner(sp, chs[i].rid, r.model.role[chs[i].rid]) {
				return false
			}
		}
	}
	return true
}
