package nhcluster

import (
	"context"
	"encoding/json"
	"fmt"
	"sort"
	"testing"
	"time"

	"pgregory.net/rapid"

	dragonboat "github.com/lni/dragonboat/v4"
	"github.com/lni/dragonboat/v4/internal/vfhelp"
)

// C17 end to end, the part the raft core simulator (E1) cannot see: the node level
// glue (quiesce.go, node.go tick handling, request forwarding). A generated fault
// prefix (one replica cut off while the shard is busy or idle, healed at a generated
// instant that is aimed at the quiesce threshold, optional leader transfer and
// restart) is followed by a fault free period in which a client talks to ONE
// generated host only. Progress is required within a bound that is three orders of
// magnitude above the election timeout; wall clock bounds are the only way to state
// "eventually" on real NodeHosts, so the bound is generous and a miss is re-probed
// once more before it counts.

type c17Plan struct {
	Tan         bool
	Kind        KVKind
	PreVote     bool
	CheckQuorum bool
	Quiesce     bool
	ElectionRTT uint64
	RTTms       uint64 // NodeHostConfig.RTTMillisecond: 2 (as small as the repository's own tests use) or 20
	Victim      int  // host that is cut off
	Busy        bool // clients keep writing while the victim is cut off
	WarmWrites  int
	// the victim is cut off IsolateMs after the last warm write and healed HealTicks
	// ticks (RTT = 2ms) later: HealTicks is drawn around the quiesce threshold
	IsolateMs int
	HealTicks int
	Transfer  bool
	Restart   int // 0 none, 1 restart victim after heal, 2 restart probe host after heal
	ProbeHost int
}

const (
	c17ProgressBound = 20 * time.Second
)

func TestVF_C17_Cluster(t *testing.T) {
	st := vfhelp.NewStats("TestVF_C17_Cluster",
		"E6: real NodeHosts with generated PreVote/CheckQuorum/Quiesce settings; fault prefix = one replica cut off (busy or idle shard), healed at a generated instant around the quiesce threshold, "+
			"optional leader transfer and restart; then a fault free period in which a client uses one generated host only: a proposal, a linearizable read and catch-up of every running replica "+
			"must complete within 20 s (1000+ election timeouts), re-probed once before a miss counts; non-trivial = the shard was idle long enough to quiesce or the victim's term ran ahead; distinct = hash of the plan")
	defer st.Flush()
	rapid.Check(t, func(t *rapid.T) {
		p := c17Plan{
			Tan:         vfhelp.Pick(t, "tan", 1) == 1,
			Kind:        KVKind(vfhelp.PickN(t, "kind", 3)),
			PreVote:     vfhelp.Pick(t, "prevote", 1) == 1,
			CheckQuorum: vfhelp.Pick(t, "checkquorum", 1) == 1,
			Quiesce:     vfhelp.Pick(t, "quiesce", 2) != 0,
			ElectionRTT: []uint64{5, 10}[vfhelp.Pick(t, "ert", 1)],
			RTTms:       []uint64{2, 20}[vfhelp.Pick(t, "rttms", 1)],
			Victim:      vfhelp.PickN(t, "victim", 3),
			Busy:        vfhelp.Pick(t, "busy", 2) == 0,
			WarmWrites:  3 + vfhelp.PickN(t, "warm", 10),
			IsolateMs:   vfhelp.PickN(t, "isolatems", 40),
			Transfer:    vfhelp.Pick(t, "transfer", 2) == 0,
			Restart:     []int{0, 0, 1, 2}[vfhelp.Pick(t, "restart", 2)],
			ProbeHost:   vfhelp.PickN(t, "probehost", 3),
		}
		threshold := int(p.ElectionRTT * 10)
		// heal around the instant the idle majority enters quiesce: threshold +- 2 election timeouts,
		// or well before / well after it
		switch vfhelp.Pick(t, "healmode", 2) {
		case 0:
			p.HealTicks = 5 + vfhelp.PickN(t, "healearly", threshold/2)
		case 1, 2:
			p.HealTicks = threshold - 2*int(p.ElectionRTT) + vfhelp.PickN(t, "healnear", 4*int(p.ElectionRTT)+1)
		default:
			p.HealTicks = threshold + 2*int(p.ElectionRTT) + vfhelp.PickN(t, "heallate", 2*threshold)
		}
		canon, _ := json.Marshal(p)
		labels, nt, ok := runC17(t, st, p)
		if !ok {
			return
		}
		sort.Strings(labels)
		st.Case(canon, nt, labels...)
		if nt && st.WantSample() {
			st.Sample(p)
		}
	})
}

func runC17(t *rapid.T, st *vfhelp.Stats, p c17Plan) ([]string, bool, bool) {
	rec := NewRecorder()
	if p.RTTms == 0 {
		p.RTTms = 2
	}
	tick := time.Duration(p.RTTms) * time.Millisecond
	c := NewCluster(ClusterOptions{Hosts: 3, Tan: p.Tan, Seed: 11, RTTms: p.RTTms})
	defer c.Close()
	spec := NewShardSpec(shardID, p.Kind, rec)
	members := c.Members(3)
	cfgOf := func(rid uint64) dragonboatCfg {
		cfg := ShardConfig(shardID, rid)
		cfg.ElectionRTT = p.ElectionRTT
		cfg.PreVote = p.PreVote
		cfg.CheckQuorum = p.CheckQuorum
		cfg.Quiesce = p.Quiesce
		return dragonboatCfg{cfg}
	}
	inconclusive := func(why string) ([]string, bool, bool) {
		st.Count("inconclusive-"+why, 1)
		return nil, false, false
	}
	for _, h := range c.Hosts {
		if err := h.Start(); err != nil {
			return inconclusive("start")
		}
		if err := h.StartReplica(spec, members, false, cfgOf(uint64(h.Idx+1)).Config); err != nil {
			return inconclusive("startreplica")
		}
	}
	if _, ok := c.WaitLeader(shardID, 10*time.Second); !ok {
		return inconclusive("no-initial-leader")
	}
	labels := []string{fmt.Sprintf("rtt-%dms", p.RTTms), "kind-" + p.Kind.String(), fmt.Sprintf("prevote-%v", p.PreVote), fmt.Sprintf("checkquorum-%v", p.CheckQuorum), fmt.Sprintf("quiesce-%v", p.Quiesce)}
	val := 0
	write := func(h *Host, timeout time.Duration) error {
		val++
		ctx, cancel := context.WithTimeout(context.Background(), timeout)
		defer cancel()
		_, err := h.NH.SyncPropose(ctx, h.NH.GetNoOPSession(shardID), []byte(fmt.Sprintf("P|k0|v%d", val)))
		return err
	}
	for i := 0; i < p.WarmWrites; i++ {
		if err := write(c.Hosts[i%3], 2*time.Second); err != nil {
			return inconclusive("warmup")
		}
	}
	victim := c.Hosts[p.Victim]
	termOf := func(h *Host) uint64 {
		if !h.Up {
			return 0
		}
		if _, term, _, err := h.NH.GetLeaderID(shardID); err == nil {
			return term
		}
		return 0
	}
	time.Sleep(time.Duration(p.IsolateMs) * time.Millisecond)
	termBefore := termOf(victim)
	for _, o := range c.Hosts {
		if o != victim {
			c.Net.SetDown(victim.Addr, o.Addr, true)
			c.Net.SetDown(o.Addr, victim.Addr, true)
		}
	}
	healAt := time.Now().Add(time.Duration(p.HealTicks) * tick)
	if p.Busy {
		i := 0
		for time.Now().Before(healAt) {
			h := c.Hosts[i%3]
			i++
			if h == victim {
				continue
			}
			_ = write(h, 50*tick)
		}
		labels = append(labels, "busy-while-cut-off")
	} else {
		time.Sleep(time.Until(healAt))
		labels = append(labels, "idle-while-cut-off")
		if p.Quiesce && p.HealTicks > int(p.ElectionRTT*10) {
			labels = append(labels, "idle-beyond-quiesce-threshold")
		}
	}
	aheadTerm := termOf(victim) > termBefore
	if aheadTerm {
		labels = append(labels, "victim-term-ran-ahead")
	}
	c.Net.HealAll()
	if p.Transfer {
		if lid, ok := c.WaitLeader(shardID, time.Second); ok {
			target := lid%3 + 1
			_ = c.Hosts[lid-1].NH.RequestLeaderTransfer(shardID, target)
			labels = append(labels, "leader-transfer")
		}
	}
	restart := func(h *Host) bool {
		h.Stop()
		if err := h.Start(); err != nil {
			return false
		}
		return h.StartReplica(spec, members, false, cfgOf(uint64(h.Idx+1)).Config) == nil
	}
	switch p.Restart {
	case 1:
		if !restart(victim) {
			return inconclusive("restart")
		}
		labels = append(labels, "victim-restarted")
	case 2:
		if !restart(c.Hosts[p.ProbeHost]) {
			return inconclusive("restart")
		}
		labels = append(labels, "probe-host-restarted")
	}

	// fault free period: the client only knows one host
	probe := c.Hosts[p.ProbeHost]
	tryProgress := func(bound time.Duration) (string, string) {
		deadline := time.Now().Add(bound)
		ok := false
		var lastErr error
		for time.Now().Before(deadline) {
			if lastErr = write(probe, 500*time.Millisecond); lastErr == nil {
				ok = true
				break
			}
			time.Sleep(5 * time.Millisecond)
		}
		if !ok {
			return "no-progress-in-fault-free-period", fmt.Sprintf("no proposal through host %d completed within %v of a fault free period (last error %v)", p.ProbeHost, bound, lastErr)
		}
		ok = false
		for time.Now().Before(deadline) {
			ctx, cancel := context.WithTimeout(context.Background(), 500*time.Millisecond)
			_, lastErr = probe.NH.SyncRead(ctx, shardID, "k0")
			cancel()
			if lastErr == nil {
				ok = true
				break
			}
			time.Sleep(5 * time.Millisecond)
		}
		if !ok {
			return "read-stuck-in-fault-free-period", fmt.Sprintf("no linearizable read through host %d completed within %v of a fault free period (last error %v)", p.ProbeHost, bound, lastErr)
		}
		// catch-up of every running replica to the probe host's applied index
		var want uint64
		if v, err := probe.NH.StaleRead(shardID, "\x00applied"); err == nil {
			want, _ = v.(uint64)
		}
		for time.Now().Before(deadline) {
			behind := ""
			for _, h := range c.Hosts {
				if !h.Up {
					continue
				}
				v, err := h.NH.StaleRead(shardID, "\x00applied")
				a, _ := v.(uint64)
				if err != nil || a < want {
					behind = fmt.Sprintf("host %d applied %d < %d (%v)", h.Idx, a, want, err)
				}
			}
			if behind == "" {
				return "", ""
			}
			lastErr = fmt.Errorf("%s", behind)
			time.Sleep(10 * time.Millisecond)
		}
		return "replica-not-caught-up-in-fault-free-period", fmt.Sprintf("within %v of a fault free period: %v", bound, lastErr)
	}
	sig, msg := tryProgress(c17ProgressBound)
	if sig != "" {
		// once more: a miss counts only if the shard is still stuck after a second bound
		labels = append(labels, "first-probe-missed")
		sig2, msg2 := tryProgress(c17ProgressBound)
		if sig2 != "" {
			states := ""
			for _, h := range c.Hosts {
				lid, term, valid, err := h.NH.GetLeaderID(shardID)
				states += fmt.Sprintf(" [host %d leader %d term %d valid %v err %v]", h.Idx, lid, term, valid, err)
			}
			if !st.Known(t, sig2, "%s; first probe: %s; %s; plan %+v", msg2, msg, states, p) {
				return nil, false, false
			}
			labels = append(labels, "known-"+sig2)
		}
	} else {
		labels = append(labels, "progress")
	}
	nt := aheadTerm || (p.Quiesce && !p.Busy && p.HealTicks > int(p.ElectionRTT*10)-2*int(p.ElectionRTT))
	return labels, nt, true
}

var _ = dragonboat.ErrClosed
