package nhcluster

import (
	"context"
	"encoding/json"
	"fmt"
	"hash/fnv"
	"io"
	"sort"
	"strings"
	"testing"
	"time"

	gvfs "github.com/lni/vfs"
	"pgregory.net/rapid"

	dragonboat "github.com/lni/dragonboat/v4"
	"github.com/lni/dragonboat/v4/config"
	"github.com/lni/dragonboat/v4/internal/rsm"
	"github.com/lni/dragonboat/v4/internal/vfhelp"
	"github.com/lni/dragonboat/v4/tools"
)

type c20Plan struct {
	Kind        KVKind
	Tan         bool
	Writes1     int // writes before the export
	Writes2     int // writes after the export (lost by the repair)
	RemoveThird bool // remove replica 3 before the export (a removed id in the image)
	AddNV       bool // add host 3 (replica 4) as non-voting before the export
	SnapEntries uint64
	Exporter    int
	MemberCase  int // which new member list
	Corrupt     int // 0 none, 1 delete file, 2 flip block crc, 3 flip data byte, 4 flip metadata
	CorruptPos  int
	Pad         int
	// SnapAtExport: the exporter takes a regular snapshot right before the export, so
	// that its log store already holds a snapshot record at exactly the exported index
	SnapAtExport bool
	// BusyExport: clients keep writing while the snapshot is exported and the state
	// machine's PrepareSnapshot / SaveSnapshot take a few ms (concurrent and on-disk kinds
	// keep applying meanwhile): the exported image must still be the state at its index
	BusyExport bool
}

var memberCaseNames = []string{"all-old", "subset-12", "single-1", "old1-plus-new", "entirely-new", "single-2",
	"invalid-missing-importer", "invalid-wrong-address", "invalid-readmit-removed", "invalid-changed-address", "invalid-nonvoting-as-regular"}

func dumpFS(fs gvfs.FS, root string) map[string]uint64 {
	out := map[string]uint64{}
	var walk func(dir string)
	walk = func(dir string) {
		names, err := fs.List(dir)
		if err != nil {
			return
		}
		sort.Strings(names)
		for _, n := range names {
			p := fs.PathJoin(dir, n)
			fi, err := fs.Stat(p)
			if err != nil {
				continue
			}
			if fi.IsDir() {
				out[p+"/"] = 0
				walk(p)
				continue
			}
			f, err := fs.Open(p)
			if err != nil {
				continue
			}
			h := fnv.New64a()
			_, _ = io.Copy(h, f)
			_ = f.Close()
			out[p] = h.Sum64()
		}
	}
	walk(root)
	return out
}

func sameDump(a, b map[string]uint64) (bool, string) {
	for k, v := range a {
		if w, ok := b[k]; !ok {
			return false, "removed " + k
		} else if w != v {
			return false, "changed " + k
		}
	}
	for k := range b {
		if _, ok := a[k]; !ok {
			// lock files and empty directories created by opening the store are not data
			if strings.HasSuffix(k, "/") || strings.HasSuffix(k, "LOCK") || strings.Contains(k, ".lock") {
				continue
			}
			return false, "added " + k
		}
	}
	return true, ""
}

func copyTree(src gvfs.FS, srcDir string, dst gvfs.FS, dstDir string) error {
	if err := dst.MkdirAll(dstDir, 0o755); err != nil {
		return err
	}
	names, err := src.List(srcDir)
	if err != nil {
		return err
	}
	for _, n := range names {
		sp, dp := src.PathJoin(srcDir, n), dst.PathJoin(dstDir, n)
		fi, err := src.Stat(sp)
		if err != nil {
			return err
		}
		if fi.IsDir() {
			if err := copyTree(src, sp, dst, dp); err != nil {
				return err
			}
			continue
		}
		in, err := src.Open(sp)
		if err != nil {
			return err
		}
		data, err := io.ReadAll(in)
		_ = in.Close()
		if err != nil {
			return err
		}
		out, err := dst.Create(dp)
		if err != nil {
			return err
		}
		if _, err := out.Write(data); err != nil {
			return err
		}
		if err := out.Sync(); err != nil {
			return err
		}
		if err := out.Close(); err != nil {
			return err
		}
	}
	return nil
}

func rewriteFile(fs gvfs.FS, path string, f func([]byte) []byte) error {
	in, err := fs.Open(path)
	if err != nil {
		return err
	}
	data, err := io.ReadAll(in)
	_ = in.Close()
	if err != nil {
		return err
	}
	data = f(data)
	out, err := fs.Create(path)
	if err != nil {
		return err
	}
	if _, err := out.Write(data); err != nil {
		return err
	}
	_ = out.Sync()
	return out.Close()
}

func TestVF_C20_Import(t *testing.T) {
	st := vfhelp.NewStats("TestVF_C20_Import",
		"E6: generated history (writes, optional removal / non-voting member, SM kind, Pebble/Tan), export point, new member list "+
			"(valid: subsets, new ids, single member; invalid: importer missing, wrong/changed address, re-admitted removed id, kind change) "+
			"and at most one corruption of the exported directory; ImportSnapshot on every listed host, restart, compare; "+
			"non-trivial = new list differs from the old in >= 2 members, or a corruption/invalid list that must be refused; distinct = hash of the plan")
	defer st.Flush()
	rapid.Check(t, func(t *rapid.T) {
		p := c20Plan{
			Kind:        KVKind(vfhelp.PickN(t, "kind", 3)),
			Tan:         vfhelp.Pick(t, "tan", 1) == 1,
			Writes1:     3 + vfhelp.PickN(t, "w1", 25),
			Writes2:     vfhelp.PickN(t, "w2", 10),
			RemoveThird: vfhelp.Pick(t, "rm3", 1) == 1,
			AddNV:       vfhelp.Pick(t, "addnv", 1) == 1,
			SnapEntries: []uint64{0, 0, 4, 9}[vfhelp.Pick(t, "snap", 2)],
			Exporter:    vfhelp.PickN(t, "exporter", 2),
			SnapAtExport: vfhelp.Pick(t, "snapatexport", 1) == 1,
			BusyExport:   vfhelp.Pick(t, "busyexport", 1) == 1,
			MemberCase:  vfhelp.PickN(t, "members", len(memberCaseNames)),
			Corrupt:     []int{0, 0, 0, 1, 2, 3, 4, 0}[vfhelp.Pick(t, "corrupt", 3)],
			CorruptPos:  vfhelp.Pick(t, "cpos", 12),
			Pad:         []int{0, 100, 5000, 70000}[vfhelp.Pick(t, "pad", 2)],
		}
		canon, _ := json.Marshal(p)
		labels, nt, sample := runC20(t, st, p)
		if labels == nil {
			return
		}
		st.Case(canon, nt, labels...)
		if nt && st.WantSample() {
			st.Sample(sample)
		}
	})
}

func runC20(t *rapid.T, st *vfhelp.Stats, p c20Plan) ([]string, bool, interface{}) {
	rec := NewRecorder()
	SnapshotPad = int32(p.Pad)
	defer func() { SnapshotPad = 0 }()
	c := NewCluster(ClusterOptions{Hosts: 5, Tan: p.Tan, Seed: 3, RTTms: 2})
	defer c.Close()
	spec := NewShardSpec(shardID, p.Kind, rec)
	members := c.Members(3)
	labels := []string{"kind-" + p.Kind.String(), "members-" + memberCaseNames[p.MemberCase], fmt.Sprintf("corrupt-%d", p.Corrupt)}
	inconclusive := func(why string) ([]string, bool, interface{}) {
		st.Count("inconclusive-"+why, 1)
		return nil, false, nil
	}
	cfgOf := func(rid uint64) dragonboatCfg {
		cfg := ShardConfig(shardID, rid)
		cfg.SnapshotEntries = p.SnapEntries
		return dragonboatCfg{cfg}
	}
	for i := 0; i < 3; i++ {
		if err := c.Hosts[i].Start(); err != nil {
			return inconclusive("start")
		}
		if err := c.Hosts[i].StartReplica(spec, members, false, cfgOf(uint64(i+1)).Config); err != nil {
			return inconclusive("startreplica")
		}
	}
	if _, ok := c.WaitLeader(shardID, 10*time.Second); !ok {
		return inconclusive("no-leader")
	}
	propose := func(h *Host, cmd string) error {
		var err error
		for dl := time.Now().Add(30 * time.Second); time.Now().Before(dl); {
			ctx, cancel := context.WithTimeout(context.Background(), 2*time.Second)
			_, err = h.NH.SyncPropose(ctx, h.NH.GetNoOPSession(shardID), []byte(cmd))
			cancel()
			if err == nil {
				return nil
			}
			time.Sleep(20 * time.Millisecond)
		}
		return err
	}
	h0 := c.Hosts[0]
	for i := 0; i < p.Writes1; i++ {
		if err := propose(c.Hosts[i%3], fmt.Sprintf("P|k%d|a%d", i%4, i)); err != nil {
			return inconclusive("write1")
		}
	}
	old := map[uint64]string{1: c.Hosts[0].Addr, 2: c.Hosts[1].Addr, 3: c.Hosts[2].Addr}
	removed := map[uint64]bool{}
	nonvoting := map[uint64]string{}
	if p.AddNV {
		ctx, cancel := context.WithTimeout(context.Background(), 5*time.Second)
		err := h0.NH.SyncRequestAddNonVoting(ctx, shardID, 4, c.Hosts[3].Addr, 0)
		cancel()
		if err != nil {
			return inconclusive("addnv")
		}
		nonvoting[4] = c.Hosts[3].Addr
		labels = append(labels, "image-has-nonvoting")
	}
	if p.RemoveThird {
		ctx, cancel := context.WithTimeout(context.Background(), 5*time.Second)
		err := h0.NH.SyncRequestDeleteReplica(ctx, shardID, 3, 0)
		cancel()
		if err != nil {
			return inconclusive("remove3")
		}
		delete(old, 3)
		removed[3] = true
		labels = append(labels, "image-has-removed-id")
	}
	// export
	exp := c.Hosts[p.Exporter]
	// barrier: the exporter must have applied the membership changes made above (they
	// were acknowledged by another replica), otherwise the exported image
	// legitimately still contains the old membership
	{
		var berr error
		for dl := time.Now().Add(20 * time.Second); time.Now().Before(dl); {
			ctx, cancel := context.WithTimeout(context.Background(), 2*time.Second)
			_, berr = exp.NH.SyncRead(ctx, shardID, "k0")
			cancel()
			if berr == nil {
				break
			}
			time.Sleep(20 * time.Millisecond)
		}
		if berr != nil {
			return inconclusive("barrier")
		}
	}
	if err := exp.FS.MkdirAll("/export", 0o755); err != nil {
		return inconclusive("mkdir")
	}
	if p.SnapAtExport {
		sctx, scancel := context.WithTimeout(context.Background(), 10*time.Second)
		if _, serr := exp.NH.SyncRequestSnapshot(sctx, shardID, dragonboat.SnapshotOption{}); serr == nil {
			labels = append(labels, "regular-snapshot-at-exported-index")
		}
		scancel()
	}
	busyStop, busyDone := make(chan struct{}), make(chan struct{})
	if p.BusyExport {
		labels = append(labels, "writes-during-export")
		rec.mu.Lock()
		rec.SlowSnapshot = 3 * time.Millisecond
		rec.mu.Unlock()
		go func() {
			defer close(busyDone)
			for i := 0; ; i++ {
				select {
				case <-busyStop:
					return
				default:
				}
				ctx, cancel := context.WithTimeout(context.Background(), 500*time.Millisecond)
				_, _ = exp.NH.SyncPropose(ctx, exp.NH.GetNoOPSession(shardID), []byte(fmt.Sprintf("P|k%d|e%d", i%4, i)))
				cancel()
			}
		}()
		time.Sleep(2 * time.Millisecond)
	} else {
		close(busyDone)
	}
	ctx, cancel := context.WithTimeout(context.Background(), 10*time.Second)
	index, err := exp.NH.SyncRequestSnapshot(ctx, shardID, dragonboat.SnapshotOption{Exported: true, ExportPath: "/export"})
	cancel()
	close(busyStop)
	<-busyDone
	rec.mu.Lock()
	rec.SlowSnapshot = 0
	rec.mu.Unlock()
	if err != nil {
		return inconclusive("export")
	}
	// the image saved for the export is the one with the highest last-update index
	// not above the snapshot index (entries in between are not user entries)
	rec.mu.Lock()
	want, ok := "", false
	best := uint64(0)
	for applied, dump := range rec.Images {
		if applied <= index && (applied >= best || !ok) {
			best, want, ok = applied, dump, true
		}
	}
	rec.mu.Unlock()
	if !ok {
		vfhelp.Fail(t, "harness-no-image", "no image recorded for exported index %d", index)
	}
	// the exported image is the state at the exported index: no user entry lies between
	// the last update folded into the image and the index the snapshot is stamped with
	rec.mu.Lock()
	for _, st := range rec.Streams {
		for _, d := range st {
			if d.Index > best && d.Index <= index && strings.HasPrefix(d.Cmd, "P|") {
				rec.mu.Unlock()
				vfhelp.Fail(t, "exported-snapshot-content-not-at-snapshot-index", "the exported snapshot is stamped with index %d, the image saved for it has applied index %d, but entry %d (%q) is a user entry", index, best, d.Index, d.Cmd)
			}
		}
	}
	rec.mu.Unlock()
	for i := 0; i < p.Writes2; i++ {
		if err := propose(c.Hosts[i%2], fmt.Sprintf("P|k%d|b%d", i%4, i)); err != nil {
			return inconclusive("write2")
		}
	}
	// quorum is lost: everything stops
	for i := 0; i < 3; i++ {
		c.Hosts[i].Stop()
	}
	srcDir := fmt.Sprintf("/export/snapshot-%016X", index)

	// the new member list
	newMembers := map[uint64]string{}
	hostOf := map[uint64]*Host{}
	add := func(rid uint64, h *Host) { newMembers[rid] = h.Addr; hostOf[rid] = h }
	valid := true
	onlyInvalidFor := uint64(0) // the list is invalid for this importer only
	switch memberCaseNames[p.MemberCase] {
	case "all-old":
		for rid := range old {
			add(rid, c.Hosts[rid-1])
		}
	case "subset-12":
		add(1, c.Hosts[0])
		add(2, c.Hosts[1])
	case "single-1":
		add(1, c.Hosts[0])
	case "single-2":
		add(2, c.Hosts[1])
	case "old1-plus-new":
		add(1, c.Hosts[0])
		add(7, c.Hosts[4])
	case "entirely-new":
		add(8, c.Hosts[4])
		if !p.AddNV {
			add(9, c.Hosts[3])
		}
	case "invalid-missing-importer":
		add(2, c.Hosts[1])
		hostOf[1] = c.Hosts[0] // host 0 imports as replica 1 which is not listed
		valid = false
		onlyInvalidFor = 1
	case "invalid-wrong-address":
		newMembers[1] = c.Hosts[1].Addr // replica 1 listed at another host's address
		hostOf[1] = c.Hosts[0]
		add(2, c.Hosts[1])
		valid = false
	case "invalid-readmit-removed":
		if !p.RemoveThird {
			add(1, c.Hosts[0])
			add(2, c.Hosts[1])
		} else {
			add(1, c.Hosts[0])
			add(3, c.Hosts[2])
			valid = false
		}
	case "invalid-changed-address":
		add(1, c.Hosts[0])
		newMembers[2] = c.Hosts[4].Addr // member 2 moved to another address
		hostOf[2] = c.Hosts[4]
		valid = false
	case "invalid-nonvoting-as-regular":
		add(1, c.Hosts[0])
		if p.AddNV {
			add(4, c.Hosts[3])
			valid = false
		}
	}
	differ := 0
	for rid := range old {
		if _, ok := newMembers[rid]; !ok {
			differ++
		}
	}
	for rid := range newMembers {
		if _, ok := old[rid]; !ok {
			differ++
		}
	}

	// import on every host of the list (each gets its own copy of the export)
	importers := make([]uint64, 0, len(hostOf))
	for rid := range hostOf {
		importers = append(importers, rid)
	}
	sort.Slice(importers, func(i, j int) bool { return importers[i] < importers[j] })
	mustFail := !valid || p.Corrupt == 1 || p.Corrupt == 2 || p.Corrupt == 4
	accepted := 0
	for _, rid := range importers {
		h := hostOf[rid]
		if h.Up {
			h.Stop()
		}
		_ = h.FS.RemoveAll("/import")
		if err := copyTree(exp.FS, srcDir, h.FS, "/import/ss"); err != nil {
			vfhelp.Fail(t, "harness-copy-failed", "%v", err)
		}
		ssfile := ""
		names, _ := h.FS.List("/import/ss")
		for _, n := range names {
			if strings.HasSuffix(n, ".gbsnap") {
				ssfile = h.FS.PathJoin("/import/ss", n)
			}
		}
		if ssfile == "" {
			vfhelp.Fail(t, "harness-no-snapshot-file", "exported dir has no snapshot file: %v", names)
		}
		switch p.Corrupt {
		case 1:
			_ = h.FS.Remove(ssfile)
		case 2, 3:
			_ = rewriteFile(h.FS, ssfile, func(d []byte) []byte {
				hdr := int(rsm.HeaderSize)
				if len(d) <= hdr+20 {
					return d
				}
				// v2 payload: blocks followed by a 4 byte CRC each, 16 byte tail
				payloadEnd := len(d) - 16
				if p.Corrupt == 2 {
					d[payloadEnd-1-p.CorruptPos%4] ^= 0x10 // CRC of the last block
				} else {
					span := payloadEnd - 4 - hdr
					d[hdr+(p.CorruptPos*7919)%span] ^= 0x04 // a data byte
				}
				return d
			})
		case 4:
			_ = rewriteFile(h.FS, "/import/ss/snapshot.metadata", func(d []byte) []byte {
				if len(d) > 0 {
					d[(p.CorruptPos*31)%len(d)] ^= 0x20
				}
				return d
			})
		}
		mustFail := mustFail
		if onlyInvalidFor != 0 && rid != onlyInvalidFor && (p.Corrupt == 0 || p.Corrupt == 3) {
			mustFail = false
		}
		before := dumpFS(h.FS, h.Dir)
		cfg := h.config()
		var ierr error
		func() {
			defer func() {
				if pv := recover(); pv != nil {
					ierr = fmt.Errorf("panic: %v", pv)
				}
			}()
			ierr = tools.ImportSnapshot(cfg, "/import/ss", newMembers, rid)
		}()
		if mustFail {
			if ierr == nil {
				vfhelp.Fail(t, "import-accepted-invalid-input", "ImportSnapshot accepted %s / corruption %d on replica %d", memberCaseNames[p.MemberCase], p.Corrupt, rid)
			}
			after := dumpFS(h.FS, h.Dir)
			if same, what := sameDump(before, after); !same {
				if !st.Known(t, "import-refused-but-modified-data", "ImportSnapshot failed (%v) on replica %d but modified existing data: %s", ierr, rid, what) {
					return nil, false, nil
				}
			}
			labels = append(labels, "refused")
			continue
		}
		if ierr != nil {
			if p.Corrupt == 3 {
				labels = append(labels, "data-flip-refused")
				continue
			}
			vfhelp.Fail(t, "import-refused-valid-input", "ImportSnapshot failed on replica %d with a valid image and member list %v: %v", rid, newMembers, ierr)
		}
		accepted++
		if p.Corrupt == 3 {
			// not covered by the checksum-of-checksums checked at import: the image must
			// then fail closed when it is loaded, never deliver altered bytes
			loadedAltered := false
			func() {
				defer func() { _ = recover() }()
				fp := findImported(h.FS, h.Dir, index)
				if fp == "" {
					return
				}
				r, _, err := rsm.NewSnapshotReader(fp, h.FS)
				if err != nil {
					return
				}
				defer r.Close()
				if _, err := io.Copy(io.Discard, r); err == nil {
					loadedAltered = true
				}
			}()
			if loadedAltered {
				vfhelp.Fail(t, "import-altered-image-loads", "a data flip in the exported snapshot was imported and reads back without error")
			}
			labels = append(labels, "data-flip-accepted-fails-closed")
		}
	}
	nt := differ >= 2 || mustFail || p.Corrupt == 3
	sample := map[string]interface{}{"kind": p.Kind.String(), "tan": p.Tan, "members": memberCaseNames[p.MemberCase], "new_members": fmt.Sprint(newMembers),
		"corrupt": p.Corrupt, "exported_index": index, "writes_before": p.Writes1, "writes_after": p.Writes2}
	if mustFail || p.Corrupt == 3 || accepted == 0 {
		return labels, nt, sample
	}

	// restart the listed hosts on the imported data
	for _, rid := range importers {
		h := hostOf[rid]
		if err := h.Start(); err != nil {
			vfhelp.Fail(t, "restart-after-import-failed", "NewNodeHost on replica %d: %v", rid, err)
		}
		if err := h.StartReplica(spec, nil, false, cfgOf(rid).Config); err != nil {
			vfhelp.Fail(t, "restart-after-import-failed", "StartReplica on replica %d: %v", rid, err)
		}
	}
	if _, ok := c.WaitLeader(shardID, 20*time.Second); !ok {
		vfhelp.Fail(t, "no-leader-after-import", "no leader within 20s after importing on %v", importers)
	}
	first := hostOf[importers[0]]
	var m *dragonboat.Membership
	for dl := time.Now().Add(30 * time.Second); time.Now().Before(dl); {
		ctx, cancel := context.WithTimeout(context.Background(), 2*time.Second)
		m, err = first.NH.SyncGetShardMembership(ctx, shardID)
		cancel()
		if err == nil {
			break
		}
		time.Sleep(25 * time.Millisecond)
	}
	if err != nil {
		vfhelp.Fail(t, "no-progress-after-import", "SyncGetShardMembership: %v", err)
	}
	if fmt.Sprint(m.Nodes) != fmt.Sprint(newMembers) || len(m.NonVotings) != 0 || len(m.Witnesses) != 0 {
		vfhelp.Fail(t, "membership-after-import-differs", "membership %v nonvotings %v, want exactly %v", m.Nodes, m.NonVotings, newMembers)
	}
	for rid := range old {
		if _, ok := newMembers[rid]; !ok {
			if _, rm := m.Removed[rid]; !rm {
				vfhelp.Fail(t, "unlisted-member-not-removed", "previous member %d is not listed and not recorded as removed: %v", rid, m.Removed)
			}
		}
	}
	for rid := range removed {
		if _, rm := m.Removed[rid]; !rm {
			vfhelp.Fail(t, "removed-id-forgotten-by-import", "replica id %d was removed before the export and is not recorded as removed after the import: %v", rid, m.Removed)
		}
	}
	for rid := range nonvoting {
		if _, ok := newMembers[rid]; !ok {
			if _, rm := m.Removed[rid]; !rm {
				vfhelp.Fail(t, "unlisted-member-not-removed", "previous non-voting member %d is not listed and not recorded as removed: %v", rid, m.Removed)
			}
		}
	}
	for _, rid := range importers {
		h := hostOf[rid]
		var v interface{}
		for dl := time.Now().Add(30 * time.Second); time.Now().Before(dl); {
			ctx, cancel := context.WithTimeout(context.Background(), 2*time.Second)
			v, err = h.NH.SyncRead(ctx, shardID, "\x00dump")
			cancel()
			if err == nil {
				break
			}
			time.Sleep(25 * time.Millisecond)
		}
		if err != nil {
			vfhelp.Fail(t, "no-progress-after-import", "SyncRead on replica %d: %v", rid, err)
		}
		if v.(string) != want {
			vfhelp.Fail(t, "state-after-import-differs", "replica %d state %q, exported state %q (index %d)", rid, v, want, index)
		}
	}
	if err := propose(first, "P|new|z"); err != nil {
		vfhelp.Fail(t, "no-progress-after-import", "proposal after import: %v", err)
	}
	labels = append(labels, "imported-and-restarted")
	// a second restart of the repaired replicas: the imported snapshot is still the
	// newest record (or has been shrunk by an on-disk state machine); they must come
	// back with the repaired state plus what was acknowledged since
	want2 := want + "new=z;"
	for _, rid := range importers {
		hostOf[rid].Stop()
	}
	for _, rid := range importers {
		h := hostOf[rid]
		if err := h.Start(); err != nil {
			vfhelp.Fail(t, "second-restart-after-import-failed", "NewNodeHost on replica %d: %v", rid, err)
		}
		if err := h.StartReplica(spec, nil, false, cfgOf(rid).Config); err != nil {
			vfhelp.Fail(t, "second-restart-after-import-failed", "StartReplica on replica %d: %v", rid, err)
		}
	}
	for _, rid := range importers {
		h := hostOf[rid]
		var v interface{}
		for dl := time.Now().Add(30 * time.Second); time.Now().Before(dl); {
			ctx, cancel := context.WithTimeout(context.Background(), 2*time.Second)
			v, err = h.NH.SyncRead(ctx, shardID, "\x00dump")
			cancel()
			if err == nil {
				break
			}
			time.Sleep(25 * time.Millisecond)
		}
		if err != nil {
			vfhelp.Fail(t, "no-progress-after-import", "SyncRead on replica %d after the second restart: %v", rid, err)
		}
		if v.(string) != want2 {
			vfhelp.Fail(t, "state-after-second-restart-differs", "replica %d state %q after the second restart, want %q (exported index %d)", rid, v, want2, index)
		}
	}
	labels = append(labels, "restarted-twice")
	return labels, nt, sample
}

type dragonboatCfg struct{ Config config.Config }

func findImported(fs gvfs.FS, root string, index uint64) string {
	found := ""
	var walk func(dir string)
	walk = func(dir string) {
		names, err := fs.List(dir)
		if err != nil {
			return
		}
		for _, n := range names {
			p := fs.PathJoin(dir, n)
			fi, err := fs.Stat(p)
			if err != nil {
				continue
			}
			if fi.IsDir() {
				walk(p)
			} else if strings.HasSuffix(n, ".gbsnap") && strings.Contains(dir, fmt.Sprintf("snapshot-%016X", index)) {
				found = p
			}
		}
	}
	walk(root)
	return found
}
