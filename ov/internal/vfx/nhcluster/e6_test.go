package nhcluster

import (
	"encoding/json"
	"fmt"
	"os"
	"sort"
	"strings"
	"testing"

	"github.com/lni/dragonboat/v4/internal/vfhelp"
	"pgregory.net/rapid"
)

type e6Profile struct {
	prop     string
	family   map[string]bool
	prefixes []string
	tune     func(t *rapid.T, p *Plan)
	nontriv  func(res *Result) bool
	rule     string
}

func set(names ...string) map[string]bool {
	m := map[string]bool{}
	for _, n := range names {
		m[n] = true
	}
	return m
}

func genPlan(t *rapid.T, tune func(t *rapid.T, p *Plan)) Plan {
	p := Plan{
		Hosts:     3,
		Kind:      KVKind(vfhelp.PickN(t, "kind", 3)),
		Tan:       vfhelp.Pick(t, "tan", 2) == 0,
		Clients:   2 + vfhelp.PickN(t, "clients", 4),
		OpsPerCli: 6 + vfhelp.PickN(t, "ops", 14),
		Keys:      1 + vfhelp.PickN(t, "keys", 3),
		ReadPct:   20 + vfhelp.PickN(t, "readpct", 50),
		AsyncPct:  vfhelp.PickN(t, "asyncpct", 70),
		Sessions:  vfhelp.Pick(t, "sessions", 1) == 1,
		PreVote:   vfhelp.Pick(t, "prevote", 1) == 1,
		NonVoting: vfhelp.Pick(t, "nonvoting", 2) == 0,
	}
	if p.NonVoting {
		// 2 hosts = a single voting member plus a non-voting member
		p.Hosts = 2 + vfhelp.PickN(t, "hostsnv", 3)
	}
	switch vfhelp.Pick(t, "snap", 2) {
	case 0:
		p.SnapEntries = 0
	case 1:
		p.SnapEntries = 5
	default:
		p.SnapEntries = 12
	}
	if vfhelp.Pick(t, "savedelay", 1) == 1 {
		p.SaveDelayMs = 1 + vfhelp.PickN(t, "savedelayms", 4)
	}
	if vfhelp.Pick(t, "netdelay", 1) == 1 {
		p.NetDelayMs = 1 + vfhelp.PickN(t, "netdelayms", 4)
	}
	if vfhelp.Pick(t, "widen", 1) == 1 {
		p.WidenUs = 50 + vfhelp.PickN(t, "widenus", 400)
	}
	nf := vfhelp.PickN(t, "nfaults", 8)
	for i := 0; i < nf; i++ {
		p.Faults = append(p.Faults, Fault{
			Kind:    FaultKind(vfhelp.PickN(t, "fkind", int(numFaultKinds))),
			A:       vfhelp.Pick(t, "fa", 3),
			B:       vfhelp.Pick(t, "fb", 3),
			AfterMs: 5 + vfhelp.PickN(t, "fafter", 60),
		})
	}
	for i := 0; i < 8; i++ {
		p.CliSeeds = append(p.CliSeeds, int64(vfhelp.Pick(t, "cliseed", 20)))
	}
	if tune != nil {
		tune(t, &p)
	}
	return p
}

func runE6(t *testing.T, prof e6Profile) {
	st := vfhelp.NewStats("TestVF_"+prof.prop+"_Cluster",
		"E6 nhcluster: generated client programs x fault plan (partitions, loss, power cuts with unsynced data lost, restarts, "+
			"leader transfers, snapshots, replica stop/start) on real NodeHosts; "+prof.rule+"; distinct = hash of the plan")
	defer st.Flush()
	rapid.Check(t, func(t *rapid.T) {
		p := genPlan(t, prof.tune)
		// kept on disk so that a case that takes the whole process down (a panic on a
		// goroutine of the code under test) can still be diagnosed and replayed
		if data, err := json.MarshalIndent(p, "", " "); err == nil {
			_ = os.WriteFile("artefact-current-plan.json", data, 0o644)
		}
		res := RunPlan(p)
		res.CheckLinearizable()
		res.CheckStreams()
		res.Cluster.Close()
		canon, _ := json.Marshal(p)
		foreign := 0
		for _, v := range res.AllViolations() {
			inFam := prof.family[v.Sig]
			for _, pre := range prof.prefixes {
				if strings.HasPrefix(v.Sig, pre) {
					inFam = true
				}
			}
			if strings.HasPrefix(v.Sig, "harness-") {
				// the harness could not set the case up (e.g. no initial leader on a loaded
				// machine): inconclusive case, never a violation
				st.Count("inconclusive-"+v.Sig, 1)
				return
			}
			if !inFam {
				foreign++
				st.Count("foreign-violation:"+v.Sig, 1)
				continue
			}
			art := map[string]interface{}{"plan": p, "violation": v, "history": res.historyString(), "flags": res.Flags}
			if data, err := json.MarshalIndent(art, "", " "); err == nil {
				_ = os.WriteFile(fmt.Sprintf("artefact-%s.json", prof.prop), data, 0o644)
			}
			t.Logf("plan %+v", p)
			if !st.Known(t, v.Sig, "%s", v.Msg) {
				return
			}
		}
		labels := []string{"kind-" + p.Kind.String()}
		if p.Tan {
			labels = append(labels, "tan")
		} else {
			labels = append(labels, "pebble")
		}
		for k := range res.Flags {
			labels = append(labels, k)
		}
		if res.Rec.OverlapLookupUpdate > 0 {
			labels = append(labels, "lookup-pending-during-update")
		}
		if res.Rec.OverlapSaveUpdate > 0 {
			labels = append(labels, "save-pending-during-update")
		}
		sort.Strings(labels)
		nt := prof.nontriv(res)
		st.Case(canon, nt, labels...)
		if nt && st.WantSample() {
			var fs []string
			for _, f := range p.Faults {
				fs = append(fs, f.String())
			}
			completed := 0
			for _, op := range res.Ops {
				if op.Outcome == "completed" {
					completed++
				}
			}
			st.Sample(map[string]interface{}{"kind": p.Kind.String(), "tan": p.Tan, "clients": p.Clients, "ops": len(res.Ops),
				"completed": completed, "faults": strings.Join(fs, " "), "save_delay_ms": p.SaveDelayMs})
		}
	})
}

var famE6C01 = set("linearizability-violated", "write-applied-twice", "replicas-applied-different-entries")
var famE6C04 = set("term-not-durable", "vote-not-durable", "ack-not-durable", "commit-advertised-before-durable",
	"two-votes-one-term", "recovered-term-lower", "restart-failed", "linearizability-violated", "completed-request-never-applied")
var famE6C11 = set("call-after-close", "exclusive-calls-overlap", "update-index-not-increasing", "ondisk-update-at-or-below-open-index",
	"write-applied-twice", "replicas-applied-different-entries", "lookup-overlaps-update", "lookup-overlaps-recoverfromsnapshot",
	"lookup-overlaps-close", "savesnapshot-overlaps-update", "savesnapshot-overlaps-recoverfromsnapshot", "savesnapshot-overlaps-close",
	"update-overlaps-lookup", "completed-request-never-applied", "savesnapshot-overlaps-close")
var famE6C12 = set("completed-with-foreign-result", "dropped-request-applied", "completed-request-never-applied", "no-terminal-result", "two-results")

func TestVF_C01_Cluster(t *testing.T) {
	runE6(t, e6Profile{prop: "C01", family: famE6C01,
		rule: "non-trivial = >= 2 clients completed operations on one key, a read served by a non-leader host and >= 1 fault (partition/power cut/transfer) happened",
		nontriv: func(res *Result) bool {
			f := res.Flags
			return f["read-completed"] > 0 && f["write-completed"] > 1 && f["lin-checked"] > 0 &&
				f["fault-partition"]+f["power-cut"]+f["fault-transfer"]+f["fault-loss"] > 0
		}})
}

func TestVF_C04_Cluster(t *testing.T) {
	runE6(t, e6Profile{prop: "C04", family: famE6C04,
		tune: func(t *rapid.T, p *Plan) {
			p.ReadPct = 20
			if p.SaveDelayMs == 0 {
				p.SaveDelayMs = 1 + vfhelp.PickN(t, "savedelayms2", 3)
			}
			// make sure power failures happen
			p.Faults = append(p.Faults, Fault{Kind: FPowerCut, A: vfhelp.Pick(t, "pc", 2), AfterMs: 10 + vfhelp.PickN(t, "pcafter", 40)},
				Fault{Kind: FRestart, AfterMs: 20 + vfhelp.PickN(t, "rsafter", 60)})
			if vfhelp.Pick(t, "pcall", 1) == 1 {
				p.Faults = append(p.Faults, Fault{Kind: FPowerCutAll, AfterMs: 10 + vfhelp.PickN(t, "pcallafter", 40)})
			}
			// a power cut exactly before / after the k-th save of one host: the window
			// between "made durable" and "sent"
			if vfhelp.Pick(t, "trig", 1) == 1 {
				p.TrigEvent = []string{"before-save", "after-save"}[vfhelp.Pick(t, "trigev", 1)]
				p.TrigHost = vfhelp.Pick(t, "trighost", 2)
				p.TrigK = 1 + vfhelp.PickN(t, "trigk", 40)
			}
		},
		rule: "non-trivial = >= 1 power cut (unsynced data dropped) followed by a restart, with a save delay widening the send-before-save window",
		nontriv: func(res *Result) bool {
			return res.Flags["power-cut"] > 0 && res.Flags["restart"] > 0 && res.Flags["write-completed"] > 0
		}})
}

func TestVF_C11_Cluster(t *testing.T) {
	runE6(t, e6Profile{prop: "C11", family: famE6C11,
		tune: func(t *rapid.T, p *Plan) {
			if p.WidenUs == 0 {
				p.WidenUs = 100 + vfhelp.PickN(t, "widenus2", 500)
			}
			p.ReadPct = 50
			if p.SnapEntries == 0 {
				p.SnapEntries = 6
			}
			p.Faults = append(p.Faults, Fault{Kind: FStopReplica, A: vfhelp.Pick(t, "sr", 2), B: vfhelp.Pick(t, "srb", 3), AfterMs: 10 + vfhelp.PickN(t, "srafter", 40)},
				Fault{Kind: FSnapshot, A: vfhelp.Pick(t, "ss", 2), AfterMs: 5 + vfhelp.PickN(t, "ssafter", 30)})
			if vfhelp.Pick(t, "slowsnap", 1) == 1 {
				p.SlowSnapMs = 10 + vfhelp.PickN(t, "slowsnapms", 40)
				p.Faults = append(p.Faults, Fault{Kind: FCloseDuringSnapshot, A: vfhelp.Pick(t, "cds", 2), AfterMs: 10 + vfhelp.PickN(t, "cdsafter", 40)})
			}
		},
		rule: "non-trivial = state machine calls really overlapped where allowed (Lookup/SaveSnapshot pending during Update), a replica was stopped with client reads in flight, or a NodeHost was closed while a snapshot call was in progress",
		nontriv: func(res *Result) bool {
			return res.Rec.OverlapLookupUpdate+res.Rec.OverlapSaveUpdate > 0 || res.Flags["replica-stopped"] > 0 || res.Flags["closed-during-snapshot"] > 0
		}})
}

func TestVF_C12_Cluster(t *testing.T) {
	runE6(t, e6Profile{prop: "C12", family: famE6C12,
		tune: func(t *rapid.T, p *Plan) {
			p.AsyncPct = 80
			p.Faults = append(p.Faults, Fault{Kind: FStopReplica, A: vfhelp.Pick(t, "sr", 2), B: vfhelp.Pick(t, "srb", 3), AfterMs: 10 + vfhelp.PickN(t, "srafter", 40)})
		},
		rule: "non-trivial = asynchronous requests ended with >= 2 different terminal codes (Completed plus Timeout/Dropped/Terminated)",
		nontriv: func(res *Result) bool {
			f := res.Flags
			kinds := 0
			for _, k := range []string{"completed", "timeout", "dropped", "terminated", "rejected"} {
				if f["write-"+k]+f["read-"+k] > 0 {
					kinds++
				}
			}
			return kinds >= 2
		}})
}
