package nhcluster

import (
	"encoding/json"
	"fmt"
	"os"
	"sort"
	"strings"
	"testing"
	"time"

	"github.com/lni/dragonboat/v4/internal/vfhelp"
	"pgregory.net/rapid"
)

type e6Profile struct {
	name     string // unit name, default TestVF_<prop>_Cluster
	prop     string
	family   map[string]bool
	prefixes []string
	tune     func(t *rapid.T, p *Plan)
	nontriv  func(res *Result) bool
	rule     string
}

func set(names ...string) map[string]bool {
	m := map[string]bool{}
	for _, n := range names {
		m[n] = true
	}
	return m
}

func genPlan(t *rapid.T, tune func(t *rapid.T, p *Plan)) Plan {
	p := Plan{
		Hosts:     3,
		Kind:      KVKind(vfhelp.PickN(t, "kind", 3)),
		Tan:       vfhelp.Pick(t, "tan", 2) == 0,
		Clients:   2 + vfhelp.PickN(t, "clients", 4),
		OpsPerCli: 6 + vfhelp.PickN(t, "ops", 14),
		Keys:      1 + vfhelp.PickN(t, "keys", 3),
		ReadPct:   20 + vfhelp.PickN(t, "readpct", 50),
		AsyncPct:  vfhelp.PickN(t, "asyncpct", 70),
		Sessions:  vfhelp.Pick(t, "sessions", 1) == 1,
		PreVote:   vfhelp.Pick(t, "prevote", 1) == 1,
		NonVoting: vfhelp.Pick(t, "nonvoting", 2) == 0,
	}
	if p.NonVoting {
		// 2 hosts = a single voting member plus a non-voting member
		p.Hosts = 2 + vfhelp.PickN(t, "hostsnv", 3)
	} else if vfhelp.Pick(t, "witness", 2) == 0 {
		// 3 hosts = two full members plus a witness (the classic use), 4 = three plus a witness
		p.Witness = true
		p.Hosts = 3 + vfhelp.Pick(t, "hostsw", 1)
	}
	// non-default configurations
	p.EntryCompress = vfhelp.Pick(t, "entrycompress", 2) == 0
	p.SnapCompress = vfhelp.Pick(t, "snapcompress", 2) == 0
	p.NoCheckQuorum = vfhelp.Pick(t, "nocheckquorum", 2) == 0
	p.NotifyCommit = vfhelp.Pick(t, "notifycommit", 2) == 0
	switch vfhelp.Pick(t, "pad", 2) {
	case 0:
		p.PadBytes = 40 + vfhelp.PickN(t, "padsmall", 200)
	case 1:
		p.PadBytes = 1500 + vfhelp.PickN(t, "padbig", 3000)
	}
	if p.SnapEntries > 0 {
		switch vfhelp.Pick(t, "snappad", 3) {
		case 0:
			// several blocks / chunks: 4.5 - 7 MiB
			p.SnapPadKB = 4608 + vfhelp.PickN(t, "snappadbig", 2560)
		case 1, 2:
			p.SnapPadKB = 1 + vfhelp.PickN(t, "snappadsmall", 300)
		}
	}
	if vfhelp.Pick(t, "aux", 1) == 1 {
		p.AuxPct = 5 + vfhelp.PickN(t, "auxpct", 20)
	}
	if vfhelp.Pick(t, "maxinmem", 2) == 0 {
		// a handful of commands fit: the rate limiter engages as soon as a follower lags
		p.MaxInMemBytes = uint64(2+vfhelp.PickN(t, "maxinmemk", 8)) * uint64(p.PadBytes+200)
	}
	switch vfhelp.Pick(t, "snap", 2) {
	case 0:
		p.SnapEntries = 0
	case 1:
		p.SnapEntries = 5
	default:
		p.SnapEntries = 12
	}
	if vfhelp.Pick(t, "savedelay", 1) == 1 {
		p.SaveDelayMs = 1 + vfhelp.PickN(t, "savedelayms", 4)
	}
	if vfhelp.Pick(t, "netdelay", 1) == 1 {
		p.NetDelayMs = 1 + vfhelp.PickN(t, "netdelayms", 4)
	}
	if vfhelp.Pick(t, "widen", 1) == 1 {
		p.WidenUs = 50 + vfhelp.PickN(t, "widenus", 400)
	}
	nf := vfhelp.PickN(t, "nfaults", 8)
	for i := 0; i < nf; i++ {
		p.Faults = append(p.Faults, Fault{
			Kind:    FaultKind(vfhelp.PickN(t, "fkind", int(numFaultKinds))),
			A:       vfhelp.Pick(t, "fa", 3),
			B:       vfhelp.Pick(t, "fb", 3),
			AfterMs: 5 + vfhelp.PickN(t, "fafter", 60),
		})
	}
	for i := 0; i < 8; i++ {
		p.CliSeeds = append(p.CliSeeds, int64(vfhelp.Pick(t, "cliseed", 20)))
	}
	if tune != nil {
		tune(t, &p)
	}
	return p
}

func runE6(t *testing.T, prof e6Profile) {
	if prof.name == "" {
		prof.name = "TestVF_" + prof.prop + "_Cluster"
	}
	st := vfhelp.NewStats(prof.name,
		"E6 nhcluster: generated client programs x fault plan (partitions, loss, power cuts with unsynced data lost, restarts, "+
			"leader transfers, snapshots, replica stop/start) on real NodeHosts; "+prof.rule+"; distinct = hash of the plan")
	defer st.Flush()
	rapid.Check(t, func(t *rapid.T) {
		p := genPlan(t, prof.tune)
		// kept on disk so that a case that takes the whole process down (a panic on a
		// goroutine of the code under test) can still be diagnosed and replayed
		if data, err := json.MarshalIndent(p, "", " "); err == nil {
			_ = os.WriteFile("artefact-current-plan.json", data, 0o644)
		}
		began := time.Now()
		res := RunPlan(p)
		ranFor := time.Since(began)
		res.CheckLinearizable()
		res.CheckStreams()
		res.Cluster.Close()
		if total := time.Since(began); total > 90*time.Second {
			// kept for diagnosis: a case this slow eats the time budget of its shard
			if data, err := json.MarshalIndent(map[string]interface{}{"plan": p, "flags": res.Flags, "run_seconds": ranFor.Seconds(), "total_seconds": total.Seconds()}, "", " "); err == nil {
				_ = os.WriteFile(fmt.Sprintf("artefact-slow-case-%d.json", time.Now().UnixNano()), data, 0o644)
			}
			st.Count("slow-case-over-90s", 1)
		}
		canon, _ := json.Marshal(p)
		foreign := 0
		for _, v := range res.AllViolations() {
			inFam := prof.family[v.Sig]
			for _, pre := range prof.prefixes {
				if strings.HasPrefix(v.Sig, pre) {
					inFam = true
				}
			}
			if strings.HasPrefix(v.Sig, "harness-") {
				// the harness could not set the case up (e.g. no initial leader on a loaded
				// machine): inconclusive case, never a violation
				st.Count("inconclusive-"+v.Sig, 1)
				return
			}
			if !inFam {
				foreign++
				st.Count("foreign-violation:"+v.Sig, 1)
				continue
			}
			art := map[string]interface{}{"plan": p, "violation": v, "history": res.historyString(), "flags": res.Flags}
			if data, err := json.MarshalIndent(art, "", " "); err == nil {
				_ = os.WriteFile(fmt.Sprintf("artefact-%s.json", prof.prop), data, 0o644)
			}
			t.Logf("plan %+v", p)
			if !st.Known(t, v.Sig, "%s", v.Msg) {
				return
			}
		}
		labels := []string{"kind-" + p.Kind.String()}
		if p.Tan {
			labels = append(labels, "tan")
		} else {
			labels = append(labels, "pebble")
		}
		for name, on := range map[string]bool{"cfg-witness": p.Witness, "cfg-nonvoting": p.NonVoting, "cfg-entry-compression": p.EntryCompress,
			"cfg-snapshot-compression": p.SnapCompress, "cfg-no-checkquorum": p.NoCheckQuorum, "cfg-notify-commit": p.NotifyCommit,
			"cfg-max-inmem-log-size": p.MaxInMemBytes > 0, "cfg-big-snapshot-images": p.SnapPadKB >= 4096, "cfg-padded-commands": p.PadBytes > 0, "cfg-prevote": p.PreVote} {
			if on {
				labels = append(labels, name)
			}
		}
		for k := range res.Flags {
			labels = append(labels, k)
		}
		if res.Rec.OverlapLookupUpdate > 0 {
			labels = append(labels, "lookup-pending-during-update")
		}
		if res.Rec.OverlapSaveUpdate > 0 {
			labels = append(labels, "save-pending-during-update")
		}
		sort.Strings(labels)
		nt := prof.nontriv(res)
		st.Case(canon, nt, labels...)
		if nt && st.WantSample() {
			var fs []string
			for _, f := range p.Faults {
				fs = append(fs, f.String())
			}
			completed := 0
			for _, op := range res.Ops {
				if op.Outcome == "completed" {
					completed++
				}
			}
			st.Sample(map[string]interface{}{"kind": p.Kind.String(), "tan": p.Tan, "clients": p.Clients, "ops": len(res.Ops),
				"completed": completed, "faults": strings.Join(fs, " "), "save_delay_ms": p.SaveDelayMs})
		}
	})
}

// (a snapshot whose content is not the state at the index it is stamped with makes
// acknowledged writes disappear or come back after a restart from it)
var famE6C01 = set("linearizability-violated", "write-applied-twice", "command-payload-altered", "snapshot-image-altered", "replicas-applied-different-entries", "snapshot-content-not-at-snapshot-index", "installed-snapshot-content-not-at-snapshot-index")
var famE6C04 = set("term-not-durable", "vote-not-durable", "ack-not-durable", "commit-advertised-before-durable",
	"two-votes-one-term", "recovered-term-lower", "restart-failed", "restart-panics-commit-outside-log-range", "linearizability-violated", "completed-request-never-applied")
var famE6C11 = set("call-after-close", "exclusive-calls-overlap", "update-index-not-increasing", "ondisk-update-at-or-below-open-index",
	"write-applied-twice", "replicas-applied-different-entries", "lookup-overlaps-update", "lookup-overlaps-recoverfromsnapshot",
	"lookup-overlaps-close", "savesnapshot-overlaps-update", "savesnapshot-overlaps-recoverfromsnapshot", "savesnapshot-overlaps-close",
	"update-overlaps-lookup", "completed-request-never-applied", "savesnapshot-overlaps-close")
var famE6C12 = set("completed-with-foreign-result", "dropped-request-applied", "completed-request-never-applied", "no-terminal-result", "two-results",
	"committed-then-dropped", "committed-notified-never-applied", "logquery-wrong-range", "logquery-undecodable-entry", "logquery-returned-uncommitted-entry", "snapshot-request-completed-without-snapshot")

var famE6C02 = set("replicas-applied-different-entries", "update-index-not-increasing", "write-applied-twice", "command-payload-altered", "snapshot-image-altered",
	"replica-state-differs-at-same-index", "ondisk-update-at-or-below-open-index", "snapshot-content-not-at-snapshot-index", "installed-snapshot-content-not-at-snapshot-index")
var famE6C06 = set("stale-read", "read-returned-unapplied-value", "linearizability-violated", "read-no-terminal-result")

// C02 end to end: the Update streams and the final user state of real replicas
// agree under snapshots, lagging followers, restarts and power cuts.
func TestVF_C02_Cluster(t *testing.T) {
	runE6(t, e6Profile{prop: "C02", family: famE6C02,
		tune: func(t *rapid.T, p *Plan) {
			p.ReadPct = 15
			if p.SnapEntries == 0 || vfhelp.Pick(t, "snap5", 1) == 1 {
				p.SnapEntries = 5
			}
			if p.WidenUs == 0 {
				p.WidenUs = 100 + vfhelp.PickN(t, "widenus2", 500)
			}
			p.OpsPerCli += 8
			// a follower that lags behind a compacted log, user requested snapshots and a
			// replica rebuilt from its snapshot
			a := vfhelp.Pick(t, "lag", 2)
			p.Faults = append(p.Faults,
				Fault{Kind: FSnapshot, A: vfhelp.Pick(t, "ss", 2), AfterMs: 5 + vfhelp.PickN(t, "ssafter", 30)},
				Fault{Kind: FIsolate, A: a, AfterMs: 5 + vfhelp.PickN(t, "lagafter", 30)},
				Fault{Kind: FSnapshot, A: a + 1, AfterMs: 20 + vfhelp.PickN(t, "ss2after", 40)},
				Fault{Kind: FHeal, AfterMs: 10 + vfhelp.PickN(t, "healafter", 40)},
				Fault{Kind: FStopReplica, A: vfhelp.Pick(t, "sr", 2), B: vfhelp.Pick(t, "srb", 3), AfterMs: 10 + vfhelp.PickN(t, "srafter", 40)})
			if vfhelp.Pick(t, "pc", 1) == 1 {
				p.Faults = append(p.Faults, Fault{Kind: FPowerCut, A: vfhelp.Pick(t, "pch", 2), AfterMs: 10 + vfhelp.PickN(t, "pcafter", 40)},
					Fault{Kind: FRestart, AfterMs: 20 + vfhelp.PickN(t, "rsafter", 60)})
			}
		},
		rule: "non-trivial = a replica was rebuilt from a snapshot (restart, stop/start or InstallSnapshot to a lagging follower) and the final states of >= 2 replicas were compared at the same applied index",
		nontriv: func(res *Result) bool {
			return res.Flags["final-states-compared"] > 0 && res.Rec.CallCount["RecoverFromSnapshot"] > 0
		}})
}

var famE6C08 = set("snapshot-image-altered", "log-compacted-beyond-durable-snapshot", "restart-failed", "restart-panics-commit-outside-log-range",
	"replica-state-differs-at-same-index", "snapshot-content-not-at-snapshot-index", "installed-snapshot-content-not-at-snapshot-index", "update-index-not-increasing",
	"ondisk-update-at-or-below-open-index", "replicas-applied-different-entries", "completed-request-never-applied")

// C08 end to end: snapshots taken while entries keep being applied (concurrent and
// on-disk state machines, slow SaveSnapshot), small compaction overhead, replicas
// restarted from their own snapshots and lagging followers brought back by the
// leader's snapshot; the log store monitor checks every compaction request against
// the newest snapshot durably recorded.
func TestVF_C08_Cluster(t *testing.T) {
	runE6(t, e6Profile{prop: "C08", family: famE6C08,
		tune: func(t *rapid.T, p *Plan) {
			p.ReadPct = 10
			p.SnapEntries = uint64(3 + vfhelp.PickN(t, "snapentries2", 6))
			p.Overhead = uint64(1 + vfhelp.PickN(t, "overhead", 4))
			p.OpsPerCli += 10
			if vfhelp.Pick(t, "slowsnap", 1) == 1 {
				p.SlowSnapMs = 5 + vfhelp.PickN(t, "slowsnapms", 30)
			}
			a := vfhelp.Pick(t, "lag", 2)
			p.Faults = append(p.Faults,
				Fault{Kind: FSnapshot, A: vfhelp.Pick(t, "ss", 2), AfterMs: 5 + vfhelp.PickN(t, "ssafter", 30)},
				Fault{Kind: FIsolate, A: a, AfterMs: 5 + vfhelp.PickN(t, "lagafter", 30)},
				Fault{Kind: FSnapshot, A: a + 1, AfterMs: 30 + vfhelp.PickN(t, "ss2after", 40)},
				Fault{Kind: FHeal, AfterMs: 10 + vfhelp.PickN(t, "healafter", 40)},
				Fault{Kind: FStopReplica, A: vfhelp.Pick(t, "sr", 2), B: vfhelp.Pick(t, "srb", 3), AfterMs: 10 + vfhelp.PickN(t, "srafter", 40)},
				Fault{Kind: FPowerCut, A: vfhelp.Pick(t, "pch", 2), AfterMs: 10 + vfhelp.PickN(t, "pcafter", 40)},
				Fault{Kind: FRestart, AfterMs: 20 + vfhelp.PickN(t, "rsafter", 60)})
			// exported snapshots are not recorded in the log store and must not move the compaction point
			p.Faults = append(p.Faults, Fault{Kind: FExport, A: vfhelp.Pick(t, "exp", 2), AfterMs: 15 + vfhelp.PickN(t, "expafter", 40)},
				Fault{Kind: FExport, A: vfhelp.Pick(t, "exp2", 2), AfterMs: 15 + vfhelp.PickN(t, "expafter2", 40)})
			if p.SlowSnapMs > 0 {
				// a replica stopped / a host closed while its snapshot worker is inside SaveSnapshot
				p.Faults = append(p.Faults, Fault{Kind: FCloseDuringSnapshot, A: vfhelp.Pick(t, "cds", 2), AfterMs: 10 + vfhelp.PickN(t, "cdsafter", 40)})
			}
		},
		rule: "non-trivial = >= 1 snapshot was saved, the log was compacted and a replica was afterwards rebuilt from a snapshot (restart or install)",
		nontriv: func(res *Result) bool {
			return res.Rec.CallCount["RecoverFromSnapshot"]+res.Rec.CallCount["Open"] > 0 && len(res.Rec.Created) > 0 && res.Flags["restart"]+res.Flags["replica-stopped"] > 0
		}})
}

// The streaming half of C08: an on-disk state machine streams its snapshot to a
// follower that fell behind the compacted log while the apply worker keeps applying
// (PrepareSnapshot of the test state machine takes a few Update calls' time). The
// follower is cut off and healed several times under continuous write load.
func TestVF_C08_StreamUnderLoad(t *testing.T) {
	streamUnderLoad(t, "TestVF_C08_StreamUnderLoad", "C08", famE6C08)
}

// the same schedule family decided against C02's oracles (replicas at the same applied
// index hold identical state; applied streams agree)
func TestVF_C02_StreamUnderLoad(t *testing.T) {
	streamUnderLoad(t, "TestVF_C02_StreamUnderLoad", "C02", famE6C02)
}

func streamUnderLoad(t *testing.T, name, prop string, family map[string]bool) {
	runE6(t, e6Profile{name: name, prop: prop, family: family,
		tune: func(t *rapid.T, p *Plan) {
			p.Kind = KindOnDisk
			p.NonVoting, p.Witness = false, false
			p.Hosts = 3
			p.Sessions = false
			p.ReadPct = 5
			p.SnapEntries = uint64(3 + vfhelp.PickN(t, "snapentries2", 4))
			p.Overhead = 1
			p.Clients = 4
			p.OpsPerCli = 70 + vfhelp.PickN(t, "ops2", 40)
			p.WidenUs = 150 + vfhelp.PickN(t, "widenus2", 400)
			p.SlowSnapMs = 0
			a := vfhelp.Pick(t, "lag", 2)
			p.Faults = nil
			for i := 0; i < 4; i++ {
				p.Faults = append(p.Faults,
					Fault{Kind: FIsolate, A: a, AfterMs: 8 + vfhelp.PickN(t, "lagafter", 25)},
					Fault{Kind: FHeal, AfterMs: 25 + vfhelp.PickN(t, "healafter", 40)})
			}
		},
		rule: "non-trivial = a running replica accepted a streamed snapshot while client writes were still being applied (a snapshot installed and the writers not yet finished)",
		nontriv: func(res *Result) bool {
			return len(res.Rec.Installed) > 0 && res.Rec.CallCount["RecoverFromSnapshot"] > 0
		}})
}

// C06 end to end: many overlapping ReadIndex requests (local and via followers /
// non-voting replicas) racing with writes, leader changes and partitions.
func TestVF_C06_Cluster(t *testing.T) {
	runE6(t, e6Profile{prop: "C06", family: famE6C06,
		tune: func(t *rapid.T, p *Plan) {
			p.ReadPct = 55 + vfhelp.PickN(t, "readpct2", 25)
			p.AsyncPct = 75
			p.Clients = 4 + vfhelp.PickN(t, "clients2", 3)
			p.Keys = 1 + vfhelp.Pick(t, "keys2", 1)
			if p.NetDelayMs == 0 && vfhelp.Pick(t, "nd", 1) == 1 {
				p.NetDelayMs = 1 + vfhelp.PickN(t, "netdelayms2", 5)
			}
			if p.WidenUs == 0 && vfhelp.Pick(t, "wd", 2) != 0 {
				// slow Update calls: followers apply late, reads must wait for them
				p.WidenUs = 200 + vfhelp.PickN(t, "widenus2", 1500)
			}
			p.Faults = append(p.Faults, Fault{Kind: FTransfer, A: vfhelp.Pick(t, "tr", 2), B: vfhelp.Pick(t, "trb", 2), AfterMs: 10 + vfhelp.PickN(t, "trafter", 40)})
			p.StaleReaders = 1 + vfhelp.Pick(t, "stalereaders", 1)
			if vfhelp.Pick(t, "restartinread", 1) == 1 {
				// the replica a SyncRead was issued on is replaced by a new incarnation (replaying
				// its log with slow Updates) between the read's ReadIndex and its Lookup
				p.RestartInReadPct = 10 + vfhelp.PickN(t, "restartinreadpct", 20)
				p.AsyncPct = 40
				if p.WidenUs < 300 {
					p.WidenUs = 300 + vfhelp.PickN(t, "widenus3", 1200)
				}
			}
			if vfhelp.Pick(t, "slowread", 1) == 1 {
				// readers that use their completed ReadIndex late, while replicas are stopped and started again
				p.SlowReadUs = 500 + vfhelp.PickN(t, "slowreadus", 4000)
				p.Faults = append(p.Faults, Fault{Kind: FStopReplica, A: vfhelp.Pick(t, "sr", 2), B: vfhelp.Pick(t, "srb", 3), AfterMs: 10 + vfhelp.PickN(t, "srafter", 30)},
					Fault{Kind: FStopReplica, A: vfhelp.Pick(t, "sr2", 2), B: vfhelp.Pick(t, "srb2", 3), AfterMs: 5 + vfhelp.PickN(t, "srafter2", 30)})
			}
		},
		rule: "non-trivial = >= 3 reads completed through ReadIndex, at least one on a host that was not the leader's, interleaved with completed writes on the same keys",
		nontriv: func(res *Result) bool {
			return res.Flags["read-completed"] >= 3 && res.Flags["write-completed"] >= 2 && res.Flags["lin-checked"] > 0
		}})
}

func TestVF_C01_Cluster(t *testing.T) {
	runE6(t, e6Profile{prop: "C01", family: famE6C01,
		tune: func(t *rapid.T, p *Plan) {
			if p.WidenUs == 0 && vfhelp.Pick(t, "wd", 1) == 1 {
				// slow Update calls: a replica that applies late must not serve reads early
				p.WidenUs = 200 + vfhelp.PickN(t, "widenus2", 1500)
			}
			if vfhelp.Pick(t, "restartinread", 1) == 1 {
				// a replica is replaced by a new incarnation (replaying its log with slow Updates)
				// between a read's confirmed ReadIndex and its Lookup: inside SyncRead, and between
				// ReadIndex and ReadLocalNode of the asynchronous path
				p.RestartInReadPct = 10 + vfhelp.PickN(t, "restartinreadpct", 20)
				if p.AsyncPct > 50 {
					p.AsyncPct = 50
				}
				if p.WidenUs < 300 {
					p.WidenUs = 300 + vfhelp.PickN(t, "widenus3", 1200)
				}
				p.SlowReadUs = 500 + vfhelp.PickN(t, "slowreadus", 4000)
				p.Faults = append(p.Faults, Fault{Kind: FStopReplica, A: vfhelp.Pick(t, "sr", 2), B: vfhelp.Pick(t, "srb", 3), AfterMs: 10 + vfhelp.PickN(t, "srafter", 30)},
					Fault{Kind: FStopReplica, A: vfhelp.Pick(t, "sr2", 2), B: vfhelp.Pick(t, "srb2", 3), AfterMs: 5 + vfhelp.PickN(t, "srafter2", 30)})
			}
		},
		rule: "non-trivial = >= 2 clients completed operations on one key, a read served by a non-leader host and >= 1 fault (partition/power cut/transfer) happened",
		nontriv: func(res *Result) bool {
			f := res.Flags
			return f["read-completed"] > 0 && f["write-completed"] > 1 && f["lin-checked"] > 0 &&
				f["fault-partition"]+f["power-cut"]+f["fault-transfer"]+f["fault-loss"] > 0
		}})
}

func TestVF_C04_Cluster(t *testing.T) {
	runE6(t, e6Profile{prop: "C04", family: famE6C04,
		tune: func(t *rapid.T, p *Plan) {
			p.ReadPct = 20
			if p.SaveDelayMs == 0 {
				p.SaveDelayMs = 1 + vfhelp.PickN(t, "savedelayms2", 3)
			}
			// make sure power failures happen
			p.Faults = append(p.Faults, Fault{Kind: FPowerCut, A: vfhelp.Pick(t, "pc", 2), AfterMs: 10 + vfhelp.PickN(t, "pcafter", 40)},
				Fault{Kind: FRestart, AfterMs: 20 + vfhelp.PickN(t, "rsafter", 60)})
			if vfhelp.Pick(t, "pcall", 1) == 1 {
				p.Faults = append(p.Faults, Fault{Kind: FPowerCutAll, AfterMs: 10 + vfhelp.PickN(t, "pcallafter", 40)})
			}
			// a power cut exactly before / after the k-th save of one host: the window
			// between "made durable" and "sent"
			if vfhelp.Pick(t, "trig", 1) == 1 {
				p.TrigEvent = []string{"before-save", "after-save"}[vfhelp.Pick(t, "trigev", 1)]
				p.TrigHost = vfhelp.Pick(t, "trighost", 2)
				p.TrigK = 1 + vfhelp.PickN(t, "trigk", 40)
			}
		},
		rule: "non-trivial = >= 1 power cut (unsynced data dropped) followed by a restart, with a save delay widening the send-before-save window",
		nontriv: func(res *Result) bool {
			return res.Flags["power-cut"] > 0 && res.Flags["restart"] > 0 && res.Flags["write-completed"] > 0
		}})
}

func TestVF_C11_Cluster(t *testing.T) {
	runE6(t, e6Profile{prop: "C11", family: famE6C11,
		tune: func(t *rapid.T, p *Plan) {
			if p.WidenUs == 0 {
				p.WidenUs = 100 + vfhelp.PickN(t, "widenus2", 500)
			}
			p.ReadPct = 50
			if p.SnapEntries == 0 {
				p.SnapEntries = 6
			}
			p.Faults = append(p.Faults, Fault{Kind: FStopReplica, A: vfhelp.Pick(t, "sr", 2), B: vfhelp.Pick(t, "srb", 3), AfterMs: 10 + vfhelp.PickN(t, "srafter", 40)},
				Fault{Kind: FSnapshot, A: vfhelp.Pick(t, "ss", 2), AfterMs: 5 + vfhelp.PickN(t, "ssafter", 30)})
			// local readers hammering a replica that lags, is healed and then restores a
			// snapshot sent by the leader
			p.StaleReaders = 1 + vfhelp.Pick(t, "stalereaders", 1)
			if vfhelp.Pick(t, "lagrecover", 1) == 1 {
				a := vfhelp.Pick(t, "lag", 2)
				p.SnapEntries = 5
				p.SlowRecoverMs = 2 + vfhelp.PickN(t, "slowrecoverms", 10)
				p.OpsPerCli += 10
				p.Faults = append([]Fault{
					{Kind: FIsolate, A: a, AfterMs: 5 + vfhelp.PickN(t, "lagafter", 20)},
					{Kind: FHeal, AfterMs: 40 + vfhelp.PickN(t, "healafter", 60)}}, p.Faults...)
			}
			if vfhelp.Pick(t, "slowsnap", 1) == 1 {
				p.SlowSnapMs = 10 + vfhelp.PickN(t, "slowsnapms", 40)
				p.Faults = append(p.Faults, Fault{Kind: FCloseDuringSnapshot, A: vfhelp.Pick(t, "cds", 2), AfterMs: 10 + vfhelp.PickN(t, "cdsafter", 40)})
			}
		},
		rule: "non-trivial = state machine calls really overlapped where allowed (Lookup/SaveSnapshot pending during Update), a replica was stopped with client reads in flight, or a NodeHost was closed while a snapshot call was in progress",
		nontriv: func(res *Result) bool {
			return res.Rec.OverlapLookupUpdate+res.Rec.OverlapSaveUpdate > 0 || res.Flags["replica-stopped"] > 0 || res.Flags["closed-during-snapshot"] > 0 ||
				(res.Rec.CallCount["RecoverFromSnapshot"] > 0 && res.Flags["stale-read-ok"] > 0)
		}})
}

// The plain (non-concurrent) state machine part of C11: Lookup and SaveSnapshot
// never overlap Update, RecoverFromSnapshot or Close. Local readers hammer every
// replica while one of them lags behind a compacted log, is healed and restores
// the snapshot streamed by the leader, is stopped, restarted or closed.
func TestVF_C11_PlainSM(t *testing.T) {
	runE6(t, e6Profile{name: "TestVF_C11_PlainSM", prop: "C11", family: famE6C11,
		tune: func(t *rapid.T, p *Plan) {
			p.Kind = KindRegular
			p.NonVoting, p.Witness = false, false
			p.Hosts = 3
			p.SnapEntries = 5
			p.ReadPct = 30
			p.WidenUs = 50 + vfhelp.PickN(t, "widenus2", 300)
			p.StaleReaders = 2
			p.SlowRecoverMs = 2 + vfhelp.PickN(t, "slowrecoverms", 10)
			p.Clients = 3 + vfhelp.PickN(t, "clients2", 3)
			p.OpsPerCli = 20 + vfhelp.PickN(t, "ops2", 15)
			a := vfhelp.Pick(t, "lag", 2)
			if len(p.Faults) > 3 {
				p.Faults = p.Faults[:3]
			}
			p.Faults = append([]Fault{
				{Kind: FIsolate, A: a, AfterMs: 5 + vfhelp.PickN(t, "lagafter", 20)},
				{Kind: FHeal, AfterMs: 60 + vfhelp.PickN(t, "healafter", 80)}}, p.Faults...)
			// a replica is stopped while one of its local reads is still inside Lookup
			p.SlowLookupMs = 3 + vfhelp.PickN(t, "slowlookupms", 6)
			p.Faults = append(p.Faults, Fault{Kind: FStopReplica, A: vfhelp.Pick(t, "sr", 2), B: vfhelp.Pick(t, "srb", 3), AfterMs: 10 + vfhelp.PickN(t, "srafter", 40)})
		},
		rule: "non-trivial = a running replica with local readers active restored a snapshot (RecoverFromSnapshot called while StaleRead calls succeed), or Lookup/SaveSnapshot were pending during Update",
		nontriv: func(res *Result) bool {
			return res.Rec.CallCount["RecoverFromSnapshot"] > 0 && res.Flags["stale-read-ok"] > 0
		}})
}

func TestVF_C12_Cluster(t *testing.T) {
	runE6(t, e6Profile{prop: "C12", family: famE6C12,
		tune: func(t *rapid.T, p *Plan) {
			p.AsyncPct = 80
			p.Faults = append(p.Faults, Fault{Kind: FStopReplica, A: vfhelp.Pick(t, "sr", 2), B: vfhelp.Pick(t, "srb", 3), AfterMs: 10 + vfhelp.PickN(t, "srafter", 40)})
		},
		rule: "non-trivial = asynchronous requests ended with >= 2 different terminal codes (Completed plus Timeout/Dropped/Terminated)",
		nontriv: func(res *Result) bool {
			f := res.Flags
			kinds := 0
			for _, k := range []string{"completed", "timeout", "dropped", "terminated", "rejected"} {
				if f["write-"+k]+f["read-"+k] > 0 {
					kinds++
				}
			}
			return kinds >= 2
		}})
}

var famE6C18 = set("non-full-member-acts-as-leader", "non-full-member-campaigns", "payload-sent-to-witness", "payload-saved-on-witness",
	"full-snapshot-on-witness", "linearizability-violated", "replicas-applied-different-entries", "completed-request-never-applied")

// C18 at the NodeHost level: shards with a non-voting member or a witness on real
// NodeHosts. The non-voting member / the witness never campaigns and never acts as
// a leader (every message that leaves a host is inspected), also when it is the
// target of a leader transfer, when the leader is cut off or loses power and when
// the only other full member is gone; a witness is sent and stores entry metadata
// and membership changes only, never a snapshot image; and client visible behaviour
// stays linearizable (a commit decided with the wrong quorum loses acknowledged
// writes once the real majority takes over).
func TestVF_C18_Cluster(t *testing.T) {
	runE6(t, e6Profile{prop: "C18", family: famE6C18,
		tune: func(t *rapid.T, p *Plan) {
			if !p.NonVoting && !p.Witness {
				if vfhelp.Pick(t, "role", 1) == 0 {
					p.NonVoting = true
					p.Hosts = 2 + vfhelp.PickN(t, "hostsnv2", 3)
				} else {
					p.Witness = true
					p.Hosts = 3 + vfhelp.Pick(t, "hostsw2", 1)
				}
			}
			special := p.Hosts - 1
			if p.SnapEntries == 0 && vfhelp.Pick(t, "snap6", 1) == 1 {
				p.SnapEntries = 6
			}
			v := vfhelp.Pick(t, "victim", p.Hosts-2)
			p.Faults = append(p.Faults,
				// the special member as transfer target, then the leader's side of the shard in trouble
				Fault{Kind: FTransfer, A: vfhelp.Pick(t, "tfrom", p.Hosts-2), B: special, AfterMs: 5 + vfhelp.PickN(t, "tafter", 30)},
				Fault{Kind: FIsolate, A: v, AfterMs: 5 + vfhelp.PickN(t, "isoafter", 40)},
				Fault{Kind: FTransfer, A: vfhelp.Pick(t, "tfrom2", p.Hosts-2), B: special, AfterMs: 20 + vfhelp.PickN(t, "tafter2", 60)},
				Fault{Kind: FHeal, AfterMs: 30 + vfhelp.PickN(t, "healafter", 80)})
			if vfhelp.Pick(t, "pc", 1) == 1 {
				p.Faults = append(p.Faults, Fault{Kind: FPowerCut, A: vfhelp.Pick(t, "pch", p.Hosts-1), AfterMs: 10 + vfhelp.PickN(t, "pcafter", 40)},
					Fault{Kind: FRestart, AfterMs: 30 + vfhelp.PickN(t, "rsafter", 80)})
			}
		},
		rule: "non-trivial = the non-voting member / witness joined the shard, and a full member was cut off or lost power while clients were writing (an election or a commit had to be decided without it)",
		nontriv: func(res *Result) bool {
			f := res.Flags
			return f["nonvoting-joined"]+f["witness-joined"] > 0 && f["fault-isolate"]+f["fault-powercut"]+f["fault-partition"] > 0 && f["write-completed"] > 0
		}})
}
