package nhcluster

import (
	"context"
	"sync"
	"testing"
	"time"

	"github.com/lni/dragonboat/v4/internal/vfhelp"
	pb "github.com/lni/dragonboat/v4/raftpb"
)

// TestVF_F1_Probe: single voter + one non-voting member. The voter's log store
// stalls in SaveRaftState (slow fsync); the non-voting member must not learn a
// commit index covering entries the voter has not made durable yet.
func TestVF_C04_F1Probe(t *testing.T) {
	st := vfhelp.NewStats("TestVF_C04_F1Probe", "fixed regression scenario (finding F1): single voter + non-voting member, slow save; the commit index carried by Replicate must not exceed the sender's durable log")
	defer st.Flush()
	defer func() { st.Case([]byte("f1-probe"), true, "f1-probe") }()
	rec := NewRecorder()
	c := NewCluster(ClusterOptions{Hosts: 2, Seed: 1})
	defer c.Close()
	for _, h := range c.Hosts {
		if err := h.Start(); err != nil {
			t.Fatal(err)
		}
	}
	spec := NewShardSpec(1, KindRegular, rec)
	h0, h1 := c.Hosts[0], c.Hosts[1]
	cfg := ShardConfig(1, 1)
	if err := h0.StartReplica(spec, c.Members(1), false, cfg); err != nil {
		t.Fatal(err)
	}
	if _, ok := c.WaitLeader(1, 5*time.Second); !ok {
		t.Fatal("no leader")
	}
	ctx, cancel := context.WithTimeout(context.Background(), 5*time.Second)
	defer cancel()
	if err := h0.NH.SyncRequestAddNonVoting(ctx, 1, 2, h1.Addr, 0); err != nil {
		t.Fatal(err)
	}
	cfg2 := ShardConfig(1, 2)
	cfg2.IsNonVoting = true
	if err := h1.StartReplica(spec, nil, true, cfg2); err != nil {
		t.Fatal(err)
	}
	s := h0.NH.GetNoOPSession(1)
	for i := 0; i < 3; i++ {
		if _, err := h0.NH.SyncPropose(ctx, s, []byte("P|k|warm")); err != nil {
			t.Fatal(err)
		}
	}
	time.Sleep(50 * time.Millisecond)
	// observe: commit carried by Replicate vs what the voter has durably saved
	var mu sync.Mutex
	var bad []string
	c.Net.OnSend = func(from, to string, m pb.Message) {
		if from != h0.Addr || m.Type != pb.Replicate {
			return
		}
		h0.Mon.View(1, 1, func(d *Durable) {
			if m.Commit > d.LastIndex && m.Commit > d.SnapIndex {
				mu.Lock()
				bad = append(bad, "Replicate advertises commit index beyond the sender's durable log")
				t.Logf("Replicate commit=%d entries=%d, sender durable last index=%d", m.Commit, len(m.Entries), d.LastIndex)
				mu.Unlock()
			}
		})
	}
	h0.Mon.SaveDelay = func() time.Duration { return 20 * time.Millisecond }
	rs, err := h0.NH.Propose(s, []byte("P|k|x"), 5*time.Second)
	if err != nil {
		t.Fatal(err)
	}
	<-rs.ResultC()
	mu.Lock()
	defer mu.Unlock()
	if len(bad) > 0 {
		vfhelp.Fail(t, "commit-advertised-before-durable", "F1: %s (%d messages)", bad[0], len(bad))
	}
}
