// Package nhcluster is the E6 engine: real dragonboat.NodeHost instances in one
// process, on strict in-memory file systems, with a fault injecting transport, a
// monitoring log store wrapper and instrumented state machines. Overlay-only.
package nhcluster

import (
	"context"
	"fmt"
	"math/rand"
	"sort"
	"sync"
	"sync/atomic"
	"time"

	gvfs "github.com/lni/vfs"

	dragonboat "github.com/lni/dragonboat/v4"
	"github.com/lni/dragonboat/v4/config"
	"github.com/lni/dragonboat/v4/internal/logdb"
	"github.com/lni/dragonboat/v4/internal/tan"
	"github.com/lni/dragonboat/v4/logger"
	"github.com/lni/dragonboat/v4/raftio"
	sm "github.com/lni/dragonboat/v4/statemachine"
	pb "github.com/lni/dragonboat/v4/raftpb"
)

func init() {
	for _, n := range []string{"raft", "rsm", "transport", "grpc", "dragonboat", "logdb", "raftpb", "config",
		"tan", "settings", "order", "utils", "server", "registry", "pebblekv", "tests", "vfs", "fileutil", "id", "tee"} {
		logger.GetLogger(n).SetLevel(logger.CRITICAL)
	}
}

// Stamp is the global logical clock used for all recorded events.
var stamp int64

func Now() int64 { return atomic.AddInt64(&stamp, 1) }

// ---------------------------------------------------------------------------
// fault injecting transport
// ---------------------------------------------------------------------------

// Net is the controller shared by all transports of one cluster.
type Net struct {
	mu       sync.Mutex
	hosts    map[string]*netTransport
	down     map[[2]string]bool // directed link down
	dead     map[string]bool    // host dead (power off)
	lossPct  map[[2]string]int
	maxDelay time.Duration
	rnd      *rand.Rand
	// observers run before any drop decision, with the message as it leaves the host
	OnSend  func(from string, to string, m pb.Message)
	OnChunk func(from string, to string, c pb.Chunk)
	// counters
	Sent, Dropped int64
}

func NewNet(seed int64) *Net {
	return &Net{
		hosts:   map[string]*netTransport{},
		down:    map[[2]string]bool{},
		dead:    map[string]bool{},
		lossPct: map[[2]string]int{},
		rnd:     rand.New(rand.NewSource(seed)),
	}
}

func (n *Net) SetDown(from, to string, down bool) {
	n.mu.Lock()
	defer n.mu.Unlock()
	if down {
		n.down[[2]string{from, to}] = true
	} else {
		delete(n.down, [2]string{from, to})
	}
}

func (n *Net) SetLoss(from, to string, pct int) {
	n.mu.Lock()
	defer n.mu.Unlock()
	n.lossPct[[2]string{from, to}] = pct
}

func (n *Net) SetDead(host string, dead bool) {
	n.mu.Lock()
	defer n.mu.Unlock()
	if dead {
		n.dead[host] = true
	} else {
		delete(n.dead, host)
	}
}

func (n *Net) isDead(host string) bool {
	n.mu.Lock()
	defer n.mu.Unlock()
	return n.dead[host]
}

func (n *Net) SetMaxDelay(d time.Duration) {
	n.mu.Lock()
	defer n.mu.Unlock()
	n.maxDelay = d
}

func (n *Net) HealAll() {
	n.mu.Lock()
	defer n.mu.Unlock()
	n.down = map[[2]string]bool{}
	n.lossPct = map[[2]string]int{}
}

// route decides the fate of one transmission: target transport (nil = lost) and delay.
func (n *Net) route(from, to string) (*netTransport, time.Duration, bool) {
	n.mu.Lock()
	defer n.mu.Unlock()
	if n.dead[from] || n.dead[to] || n.down[[2]string{from, to}] {
		return nil, 0, false
	}
	t, ok := n.hosts[to]
	if !ok {
		return nil, 0, false
	}
	if pct := n.lossPct[[2]string{from, to}]; pct > 0 && n.rnd.Intn(100) < pct {
		return nil, 0, true // silently lost
	}
	var d time.Duration
	if n.maxDelay > 0 {
		d = time.Duration(n.rnd.Int63n(int64(n.maxDelay)))
	}
	return t, d, true
}

type netFactory struct{ net *Net }

func (f *netFactory) Create(cfg config.NodeHostConfig, h raftio.MessageHandler, ch raftio.ChunkHandler) raftio.ITransport {
	return &netTransport{net: f.net, addr: cfg.RaftAddress, handler: h, chunkHandler: ch}
}
func (f *netFactory) Validate(string) bool { return true }

type netTransport struct {
	net          *Net
	addr         string
	handler      raftio.MessageHandler
	chunkHandler raftio.ChunkHandler
	closed       int32
	inflight     sync.RWMutex // Close waits for handlers in flight, like the real transport's stopper
}

func (t *netTransport) Name() string { return "vf-faultnet" }
func (t *netTransport) Start() error {
	t.net.mu.Lock()
	defer t.net.mu.Unlock()
	t.net.hosts[t.addr] = t
	return nil
}
func (t *netTransport) Close() error {
	t.inflight.Lock()
	atomic.StoreInt32(&t.closed, 1)
	t.inflight.Unlock()
	t.net.mu.Lock()
	defer t.net.mu.Unlock()
	if t.net.hosts[t.addr] == t {
		delete(t.net.hosts, t.addr)
	}
	return nil
}

var errUnreachable = fmt.Errorf("vf-faultnet: unreachable")

func (t *netTransport) GetConnection(ctx context.Context, target string) (raftio.IConnection, error) {
	if _, _, ok := t.net.route(t.addr, target); !ok {
		return nil, errUnreachable
	}
	return &netConn{t: t, target: target}, nil
}

func (t *netTransport) GetSnapshotConnection(ctx context.Context, target string) (raftio.ISnapshotConnection, error) {
	if _, _, ok := t.net.route(t.addr, target); !ok {
		return nil, errUnreachable
	}
	return &netConn{t: t, target: target}, nil
}

type netConn struct {
	t      *netTransport
	target string
}

func (c *netConn) Close() {}

func (c *netConn) SendMessageBatch(batch pb.MessageBatch) error {
	if atomic.LoadInt32(&c.t.closed) == 1 {
		return errUnreachable
	}
	if f := c.t.net.OnSend; f != nil && !c.t.net.isDead(c.t.addr) {
		// (a host whose power is off sends nothing: what its dying process still
		// hands to the transport never leaves)
		for _, m := range batch.Requests {
			f(c.t.addr, c.target, m)
		}
	}
	atomic.AddInt64(&c.t.net.Sent, 1)
	dst, delay, ok := c.t.net.route(c.t.addr, c.target)
	if !ok {
		return errUnreachable
	}
	if dst == nil {
		atomic.AddInt64(&c.t.net.Dropped, 1)
		return nil
	}
	// copy through the wire format: hosts never share memory
	data := pb.MustMarshal(&batch)
	deliver := func() {
		dst.inflight.RLock()
		defer dst.inflight.RUnlock()
		if atomic.LoadInt32(&dst.closed) == 1 {
			return
		}
		// the link may have gone down while the message was in flight
		if d2, _, ok := c.t.net.route(c.t.addr, c.target); !ok || d2 != dst {
			return
		}
		var b pb.MessageBatch
		if err := b.Unmarshal(data); err != nil {
			panic(err)
		}
		dst.handler(b)
	}
	if delay > 0 {
		time.AfterFunc(delay, deliver)
	} else {
		deliver()
	}
	return nil
}

func (c *netConn) SendChunk(chunk pb.Chunk) error {
	if atomic.LoadInt32(&c.t.closed) == 1 {
		return errUnreachable
	}
	if f := c.t.net.OnChunk; f != nil {
		f(c.t.addr, c.target, chunk)
	}
	dst, _, ok := c.t.net.route(c.t.addr, c.target)
	if !ok || dst == nil {
		return errUnreachable
	}
	data := pb.MustMarshal(&chunk)
	var ck pb.Chunk
	if err := ck.Unmarshal(data); err != nil {
		panic(err)
	}
	dst.inflight.RLock()
	defer dst.inflight.RUnlock()
	if atomic.LoadInt32(&dst.closed) == 1 {
		return errUnreachable
	}
	if !dst.chunkHandler(ck) {
		return fmt.Errorf("vf-faultnet: chunk rejected")
	}
	return nil
}

// ---------------------------------------------------------------------------
// monitoring log store
// ---------------------------------------------------------------------------

type nodeKey struct{ Shard, Replica uint64 }

// Durable is the ever-durable shadow of one replica's log store content: what
// SaveRaftState / SaveSnapshots calls that have RETURNED made durable.
type Durable struct {
	State     pb.State
	MaxTerm   uint64            // highest term ever durable
	Votes     map[uint64]uint64 // term -> vote ever durable
	Entries   map[uint64]map[uint64]bool // index -> set of terms ever durably saved
	LastIndex uint64            // highest index ever durably saved
	SnapIndex uint64            // highest snapshot index ever durably recorded
	// SnapAttempt: highest snapshot index ever HANDED to the log store (recorded before
	// the save starts, whether or not it became durable): an upper bound of what can be
	// durable, used where a lower bound would raise false alarms (a save in flight
	// when the power goes may or may not be durable)
	SnapAttempt uint64
	Saves     int
}

func newDurable() *Durable {
	return &Durable{Votes: map[uint64]uint64{}, Entries: map[uint64]map[uint64]bool{}}
}

// MonLog is shared by all incarnations of one host's log store.
type MonLog struct {
	mu      sync.Mutex
	host    string
	nodes   map[nodeKey]*Durable
	// hooks
	BeforeSave func(host string, uds []pb.Update) // runs before the real SaveRaftState
	AfterSave  func(host string, uds []pb.Update)
	SaveDelay  func() time.Duration
	OnSaveSnapshots func(host string, before bool)
	// OnSnapshotInstalled sees every snapshot record saved by the step worker, i.e. a
	// snapshot received from another replica that raft accepted
	OnSnapshotInstalled func(shard, replica, index uint64)
	// OnViolation reports what the monitor itself decides (see RemoveEntriesTo)
	OnViolation func(sig string, format string, args ...interface{})
	// OnSnapshotRecord sees every locally created snapshot recorded in the log store
	OnSnapshotRecord func(shard, replica, index uint64)
	saveCalls  int64
	frozen     int32 // power is off: saves that still return are not durable
	// Witness: replicas of this host that run as witnesses (C18: they store entry
	// metadata and membership changes only and never a snapshot image)
	Witness map[nodeKey]bool
}

// checkWitness: everything handed to the log store of a witness replica is metadata.
func (m *MonLog) checkWitness(uds []pb.Update) {
	if len(m.Witness) == 0 || m.OnViolation == nil {
		return
	}
	for _, ud := range uds {
		if !m.Witness[nodeKey{ud.ShardID, ud.ReplicaID}] {
			continue
		}
		for _, e := range ud.EntriesToSave {
			if e.Type != pb.ConfigChangeEntry && (e.Type != pb.MetadataEntry || len(e.Cmd) > 0) {
				m.OnViolation("payload-saved-on-witness", "witness %d/%d on %s is asked to store entry %d of type %s with %d payload bytes",
					ud.ShardID, ud.ReplicaID, m.host, e.Index, e.Type, len(e.Cmd))
				break
			}
		}
		if !pb.IsEmptySnapshot(ud.Snapshot) && !ud.Snapshot.Witness && !ud.Snapshot.Dummy {
			m.OnViolation("full-snapshot-on-witness", "witness %d/%d on %s is asked to record a regular snapshot (index %d, file %q)",
				ud.ShardID, ud.ReplicaID, m.host, ud.Snapshot.Index, ud.Snapshot.Filepath)
		}
	}
}

func NewMonLog(host string) *MonLog {
	return &MonLog{host: host, nodes: map[nodeKey]*Durable{}}
}

func (m *MonLog) node(k nodeKey) *Durable {
	d, ok := m.nodes[k]
	if !ok {
		d = newDurable()
		m.nodes[k] = d
	}
	return d
}

// Snapshot returns a copy of the durable shadow of one replica.
func (m *MonLog) Get(shard, replica uint64) Durable {
	m.mu.Lock()
	defer m.mu.Unlock()
	d := m.node(nodeKey{shard, replica})
	c := *d
	return c
}

// View runs f with the live durable shadow under the lock.
func (m *MonLog) View(shard, replica uint64, f func(d *Durable)) {
	m.mu.Lock()
	defer m.mu.Unlock()
	f(m.node(nodeKey{shard, replica}))
}

// Freeze stops the shadow from growing (the host lost power; whatever the dying
// process still "saves" is not durable). Unfreeze at restart.
func (m *MonLog) Freeze(on bool) {
	if on {
		atomic.StoreInt32(&m.frozen, 1)
	} else {
		atomic.StoreInt32(&m.frozen, 0)
	}
}

func (m *MonLog) record(uds []pb.Update) {
	if atomic.LoadInt32(&m.frozen) == 1 {
		return
	}
	m.mu.Lock()
	defer m.mu.Unlock()
	for _, ud := range uds {
		d := m.node(nodeKey{ud.ShardID, ud.ReplicaID})
		touched := false
		if !pb.IsEmptyState(ud.State) {
			d.State = ud.State
			if ud.State.Term > d.MaxTerm {
				d.MaxTerm = ud.State.Term
			}
			d.Votes[ud.State.Term] = ud.State.Vote
			touched = true
		}
		for _, e := range ud.EntriesToSave {
			s, ok := d.Entries[e.Index]
			if !ok {
				s = map[uint64]bool{}
				d.Entries[e.Index] = s
			}
			s[e.Term] = true
			if e.Index > d.LastIndex {
				d.LastIndex = e.Index
			}
			touched = true
		}
		if !pb.IsEmptySnapshot(ud.Snapshot) {
			if ud.Snapshot.Index > d.SnapIndex {
				d.SnapIndex = ud.Snapshot.Index
			}
			touched = true
		}
		if touched {
			d.Saves++
		}
	}
}

type monFactory struct {
	inner config.LogDBFactory
	mon   *MonLog
}

func (f *monFactory) Name() string { return f.inner.Name() }
func (f *monFactory) Create(cfg config.NodeHostConfig, cb config.LogDBCallback, dirs []string, wals []string) (raftio.ILogDB, error) {
	db, err := f.inner.Create(cfg, cb, dirs, wals)
	if err != nil {
		return nil, err
	}
	return &monDB{ILogDB: db, mon: f.mon}, nil
}

type monDB struct {
	raftio.ILogDB
	mon *MonLog
}

func hasContent(uds []pb.Update) bool {
	for _, ud := range uds {
		if !pb.IsEmptyState(ud.State) || len(ud.EntriesToSave) > 0 || !pb.IsEmptySnapshot(ud.Snapshot) {
			return true
		}
	}
	return false
}

func (m *MonLog) noteSnapshotAttempt(uds []pb.Update) {
	m.mu.Lock()
	defer m.mu.Unlock()
	for _, ud := range uds {
		if !pb.IsEmptySnapshot(ud.Snapshot) {
			if d := m.node(nodeKey{ud.ShardID, ud.ReplicaID}); ud.Snapshot.Index > d.SnapAttempt {
				d.SnapAttempt = ud.Snapshot.Index
			}
		}
	}
}

func (d *monDB) SaveRaftState(uds []pb.Update, shardID uint64) error {
	d.mon.checkWitness(uds)
	d.mon.noteSnapshotAttempt(uds)
	content := hasContent(uds)
	if content {
		atomic.AddInt64(&d.mon.saveCalls, 1)
		if f := d.mon.BeforeSave; f != nil {
			f(d.mon.host, uds)
		}
		if f := d.mon.SaveDelay; f != nil {
			if dl := f(); dl > 0 {
				time.Sleep(dl)
			}
		}
	}
	err := d.ILogDB.SaveRaftState(uds, shardID)
	if err == nil && content {
		d.mon.record(uds)
		if f := d.mon.OnSnapshotInstalled; f != nil {
			for _, ud := range uds {
				if !pb.IsEmptySnapshot(ud.Snapshot) && !ud.Snapshot.Witness && !ud.Snapshot.Dummy {
					f(ud.ShardID, ud.ReplicaID, ud.Snapshot.Index)
				}
			}
		}
		if f := d.mon.AfterSave; f != nil {
			f(d.mon.host, uds)
		}
	}
	return err
}

// RemoveEntriesTo: C08, log compaction never removes an entry that is not covered
// by a snapshot the replica can durably recover from.
func (d *monDB) RemoveEntriesTo(shardID uint64, replicaID uint64, index uint64) error {
	if atomic.LoadInt32(&d.mon.frozen) == 0 {
		d.mon.mu.Lock()
		snap := d.mon.node(nodeKey{shardID, replicaID}).SnapAttempt
		d.mon.mu.Unlock()
		if index > snap {
			if f := d.mon.OnViolation; f != nil {
				f("log-compacted-beyond-durable-snapshot", "replica %d/%d on %s removes log entries up to %d, the newest snapshot ever handed to its log store is %d",
					shardID, replicaID, d.mon.host, index, snap)
			}
		}
	}
	return d.ILogDB.RemoveEntriesTo(shardID, replicaID, index)
}

func (d *monDB) SaveSnapshots(uds []pb.Update) error {
	if f := d.mon.OnSaveSnapshots; f != nil {
		f(d.mon.host, true)
	}
	d.mon.noteSnapshotAttempt(uds)
	err := d.ILogDB.SaveSnapshots(uds)
	if err == nil {
		d.mon.record(uds)
		if f := d.mon.OnSnapshotRecord; f != nil {
			for _, ud := range uds {
				if !pb.IsEmptySnapshot(ud.Snapshot) && !ud.Snapshot.Dummy && !ud.Snapshot.Witness {
					f(ud.ShardID, ud.ReplicaID, ud.Snapshot.Index)
				}
			}
		}
		if f := d.mon.OnSaveSnapshots; f != nil {
			f(d.mon.host, false)
		}
	}
	return err
}

type tanFactory struct{}

func (tanFactory) Create(cfg config.NodeHostConfig, cb config.LogDBCallback, dirs []string, wals []string) (raftio.ILogDB, error) {
	return tan.Factory.Create(cfg, cb, dirs, wals)
}
func (tanFactory) Name() string { return tan.Factory.Name() }

// ---------------------------------------------------------------------------
// hosts and cluster
// ---------------------------------------------------------------------------

type Host struct {
	Idx     int
	Addr    string
	FS      *gvfs.MemFS
	NH      *dragonboat.NodeHost
	Mon     *MonLog
	Dir     string
	Up      bool
	Inc     int
	cluster *Cluster
	// SysListener, when set, receives the NodeHost's system events
	SysListener raftio.ISystemEventListener
}

type ClusterOptions struct {
	Hosts       int
	Tan         bool
	RTTms       uint64
	Seed        int64
	NotifyCommit bool
}

type Cluster struct {
	Opts  ClusterOptions
	Net   *Net
	Hosts []*Host
	mu    sync.Mutex
}

func NewCluster(opts ClusterOptions) *Cluster {
	if opts.RTTms == 0 {
		opts.RTTms = 2
	}
	c := &Cluster{Opts: opts, Net: NewNet(opts.Seed)}
	for i := 0; i < opts.Hosts; i++ {
		addr := fmt.Sprintf("localhost:%d", 26000+i)
		mfs := gvfs.NewStrictMem()
		h := &Host{Idx: i, Addr: addr, FS: mfs, Mon: NewMonLog(addr), Dir: fmt.Sprintf("/vf/h%d", i), cluster: c}
		c.Hosts = append(c.Hosts, h)
	}
	return c
}

func (h *Host) config() config.NodeHostConfig {
	var inner config.LogDBFactory
	if h.cluster.Opts.Tan {
		inner = tanFactory{}
	} else {
		inner = logdb.NewDefaultFactory()
	}
	cfg := config.NodeHostConfig{
		NodeHostDir:    h.Dir,
		RTTMillisecond: h.cluster.Opts.RTTms,
		RaftAddress:    h.Addr,
		NotifyCommit:        h.cluster.Opts.NotifyCommit,
		SystemEventListener: h.SysListener,
		Expert: config.ExpertConfig{
			FS:               h.FS,
			LogDBFactory:     &monFactory{inner: inner, mon: h.Mon},
			TransportFactory: &netFactory{net: h.cluster.Net},
		},
	}
	cfg.Expert.Engine = config.GetDefaultEngineConfig()
	cfg.Expert.Engine.ExecShards = 2
	cfg.Expert.Engine.CommitShards = 2
	cfg.Expert.Engine.ApplyShards = 2
	cfg.Expert.Engine.SnapshotShards = 2
	cfg.Expert.Engine.CloseShards = 2
	cfg.Expert.LogDB = config.GetTinyMemLogDBConfig()
	cfg.Expert.LogDB.Shards = 2
	return cfg
}

// Start creates the NodeHost of a host (first start or restart).
func (h *Host) Start() error {
	nh, err := dragonboat.NewNodeHost(h.config())
	if err != nil {
		return err
	}
	h.NH = nh
	h.Up = true
	h.Inc++
	h.cluster.Net.SetDead(h.Addr, false)
	return nil
}

// newNodeHostIsolated creates the NodeHost of a host without touching its
// network state (the caller keeps it cut off).
func newNodeHostIsolated(h *Host) (*dragonboat.NodeHost, error) {
	return dragonboat.NewNodeHost(h.config())
}

// NormalizeNames repairs an artefact of lni/vfs MemFS after ResetToSyncedState: a
// node whose rename was rolled back keeps reporting the *new* base name from
// Stat().Name() although it is listed under the old name again. A real file
// system derives the name from the directory entry; code that builds paths from
// FileInfo.Name() (snapshotter.processOrphans) would otherwise be blamed for a
// test file system bug. The fix renames such an entry away and back.
func NormalizeNames(fs *gvfs.MemFS, root string) {
	var walk func(dir string)
	walk = func(dir string) {
		names, err := fs.List(dir)
		if err != nil {
			return
		}
		changed := false
		for _, n := range names {
			p := fs.PathJoin(dir, n)
			fi, err := fs.Stat(p)
			if err != nil {
				continue
			}
			if fi.Name() != n {
				tmp := p + ".vfnorm"
				if err := fs.Rename(p, tmp); err == nil {
					_ = fs.Rename(tmp, p)
					changed = true
				}
			}
			if fi.IsDir() {
				walk(p)
			}
		}
		if changed {
			if d, err := fs.OpenDir(dir); err == nil {
				_ = d.Sync()
				_ = d.Close()
			}
		}
	}
	walk(root)
}

// Stop closes the NodeHost gracefully.
func (h *Host) Stop() {
	if !h.Up {
		return
	}
	h.cluster.Net.SetDead(h.Addr, true)
	h.NH.Close()
	h.Up = false
}

// PowerCut stops the host losing everything that was not synced: the network
// goes dark, nothing becomes durable any more, the process is torn down and
// the file system is reset to its synced state (lni/vfs strict mem semantics).
func (h *Host) PowerCut() {
	if !h.Up {
		return
	}
	h.cluster.Net.SetDead(h.Addr, true)
	h.Mon.Freeze(true)
	h.FS.SetIgnoreSyncs(true)
	h.NH.Close()
	h.FS.ResetToSyncedState()
	h.FS.SetIgnoreSyncs(false)
	NormalizeNames(h.FS, "/")
	h.Mon.Freeze(false)
	h.Up = false
}

func (c *Cluster) Close() {
	for _, h := range c.Hosts {
		if h.Up {
			h.Stop()
		}
	}
}

// Members returns replicaID -> address for hosts [0, n).
func (c *Cluster) Members(n int) map[uint64]dragonboat.Target {
	m := map[uint64]dragonboat.Target{}
	for i := 0; i < n; i++ {
		m[uint64(i+1)] = c.Hosts[i].Addr
	}
	return m
}

// ShardConfig is the default raft config of the harness.
func ShardConfig(shard, replica uint64) config.Config {
	return config.Config{
		ShardID:            shard,
		ReplicaID:          replica,
		ElectionRTT:        10,
		HeartbeatRTT:       1,
		CheckQuorum:        true,
		SnapshotEntries:    0,
		CompactionOverhead: 5,
	}
}

// WaitLeader waits until some running host reports a leader for the shard.
func (c *Cluster) WaitLeader(shard uint64, timeout time.Duration) (uint64, bool) {
	deadline := time.Now().Add(timeout)
	for time.Now().Before(deadline) {
		for _, h := range c.Hosts {
			if !h.Up {
				continue
			}
			if lid, _, ok, err := h.NH.GetLeaderID(shard); err == nil && ok && lid != 0 {
				return lid, true
			}
		}
		time.Sleep(2 * time.Millisecond)
	}
	return 0, false
}

func sortedU64(m map[uint64]bool) []uint64 {
	r := make([]uint64, 0, len(m))
	for k := range m {
		r = append(r, k)
	}
	sort.Slice(r, func(i, j int) bool { return r[i] < r[j] })
	return r
}

// ShardSpec describes how a replica of a shard is started on a host.
type ShardSpec struct {
	Shard   uint64
	Kind    KVKind
	Rec     *Recorder
	Disks   map[string]*DiskImage // on-disk SM images keyed by "shard/replica"
	mu      sync.Mutex
}

func NewShardSpec(shard uint64, kind KVKind, rec *Recorder) *ShardSpec {
	return &ShardSpec{Shard: shard, Kind: kind, Rec: rec, Disks: map[string]*DiskImage{}}
}

func (s *ShardSpec) Disk(shard, replica uint64) *DiskImage {
	s.mu.Lock()
	defer s.mu.Unlock()
	k := fmt.Sprintf("%d/%d", shard, replica)
	d, ok := s.Disks[k]
	if !ok {
		d = NewDiskImage()
		s.Disks[k] = d
	}
	return d
}

// StartReplica starts one replica of the shard on the host.
func (h *Host) StartReplica(spec *ShardSpec, members map[uint64]dragonboat.Target, join bool, cfg config.Config) (err error) {
	// a replica that cannot be started because the code under test panics on what it
	// finds on disk is reported as an error ("panic: ..."), not as a dead test process
	defer func() {
		if p := recover(); p != nil {
			err = fmt.Errorf("panic: %v", p)
		}
	}()
	switch spec.Kind {
	case KindRegular:
		return h.NH.StartReplica(members, join, func(shard, replica uint64) sm.IStateMachine {
			return &RegularKV{c: newCore(spec.Rec, KindRegular, shard, replica, nil)}
		}, cfg)
	case KindConcurrent:
		return h.NH.StartConcurrentReplica(members, join, func(shard, replica uint64) sm.IConcurrentStateMachine {
			return &ConcurrentKV{c: newCore(spec.Rec, KindConcurrent, shard, replica, nil)}
		}, cfg)
	default:
		return h.NH.StartOnDiskReplica(members, join, func(shard, replica uint64) sm.IOnDiskStateMachine {
			d := spec.Disk(shard, replica)
			d.mu.Lock()
			d.Off = func() bool { return atomic.LoadInt32(&h.Mon.frozen) == 1 }
			d.mu.Unlock()
			return &OnDiskKV{c: newCore(spec.Rec, KindOnDisk, shard, replica, d)}
		}, cfg)
	}
}
