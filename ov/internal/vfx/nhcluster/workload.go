package nhcluster

import (
	"context"
	"fmt"
	"sort"
	"strings"
	"sync"
	"sync/atomic"
	"time"

	"github.com/anishathalye/porcupine"

	dragonboat "github.com/lni/dragonboat/v4"
	"github.com/lni/dragonboat/v4/client"
	"github.com/lni/dragonboat/v4/config"
	"github.com/lni/dragonboat/v4/internal/rsm"
	pb "github.com/lni/dragonboat/v4/raftpb"
)

// Plan is one generated E6 case: configuration, client programs, fault plan.
type Plan struct {
	Hosts       int
	Kind        KVKind
	Tan         bool
	Clients     int
	OpsPerCli   int
	Keys        int
	ReadPct     int // percentage of reads
	AsyncPct    int // percentage of operations issued through the async API
	Sessions    bool
	Faults      []Fault
	SaveDelayMs int // generated delay inside SaveRaftState (widens the send-before-save window)
	NetDelayMs  int
	WidenUs     int // sleep inside state machine calls
	SnapEntries uint64
	Overhead    uint64 // CompactionOverhead, 0 = default 5
	SlowSnapMs  int // SaveSnapshot / PrepareSnapshot take this long
	// event triggered power cut: host TrigHost loses power at the TrigK-th occurrence of
	// TrigEvent ("" = none; "before-save" / "after-save" = SaveRaftState with content)
	TrigEvent string
	TrigHost  int
	TrigK     int
	CliSeeds    []int64
	PreVote     bool
	Quiesce     bool
	NonVoting   bool // host Hosts-1 joins as a non-voting member
	// StaleReaders goroutines call StaleRead (a bare Lookup on the local replica) on
	// random hosts for the whole run; not part of the checked history
	StaleReaders int
	SlowRecoverMs int // RecoverFromSnapshot takes this long
	SlowLookupMs  int // every 16th Lookup takes this long
	// RestartInReadPct: percentage of SyncRead calls during which the local replica is
	// stopped and started again while the call waits for its ReadIndex (the schedule point
	// is the call's own ctx.Done(): the harness sleeps there until the ReadIndex has very
	// likely completed, restarts the replica and only then lets the call look at its result)
	RestartInReadPct int
	// SlowReadUs: a ReadIndex client waits up to this long between the completion of
	// ReadIndex and its ReadLocalNode / NAReadLocalNode call (the API allows any delay)
	SlowReadUs int
	// non-default but legal configurations (every replica of the shard gets the same)
	EntryCompress bool // Config.EntryCompressionType = Snappy
	SnapCompress  bool // Config.SnapshotCompressionType = Snappy
	MaxInMemBytes uint64 // Config.MaxInMemLogSize (0 = unlimited): proposals are rate limited
	NoCheckQuorum bool
	NotifyCommit  bool // NodeHostConfig.NotifyCommit: async proposals report Committed before Completed
	PadBytes      int  // commands carry this many extra (compressible) bytes
	// Witness: host Hosts-1 joins as a witness (votes, stores metadata only, has no state machine)
	Witness bool
	// SnapPadKB: every snapshot image is followed by this many KB of position dependent
	// filler (several 2 MiB blocks / chunks when large); checked by RecoverFromSnapshot
	SnapPadKB int
	// AuxPct: percentage of client operations that are auxiliary requests (QueryRaftLog,
	// RequestCompaction) instead of reads and writes
	AuxPct int
}

// special reports whether host index i runs the non-voting member or the witness
func (p Plan) special(i int) bool { return (p.NonVoting || p.Witness) && i == p.Hosts-1 }

// hookCtx runs fn the first time the code under test asks for the Done channel, i.e. at
// the point where a synchronous API call starts waiting for its request's result
type hookCtx struct {
	context.Context
	once sync.Once
	fn   func()
}

func (h *hookCtx) Done() <-chan struct{} {
	h.once.Do(h.fn)
	return h.Context.Done()
}

type FaultKind int

const (
	FPartition FaultKind = iota
	FHeal
	FPowerCut
	FRestart
	FTransfer
	FSnapshot
	FStopReplica
	FLoss
	FPowerCutAll
	FCloseDuringSnapshot
	FIsolate // host A is cut off from every other host, both directions
	FExport  // host A exports a snapshot (not recorded in its log store, must not compact its log)
	numFaultKinds
)

var faultNames = [...]string{"partition", "heal", "powercut", "restart", "transfer", "snapshot", "stopreplica", "loss", "powercut-all", "close-during-snapshot", "isolate", "export"}

type Fault struct {
	Kind    FaultKind
	A, B    int
	AfterMs int // pause before this fault
}

func (f Fault) String() string { return fmt.Sprintf("%s(%d,%d)+%dms", faultNames[f.Kind], f.A, f.B, f.AfterMs) }

type trigger struct {
	event string
	host  string
	k     int32
	count int32
	fired int32
	c     *Cluster
	ch    chan struct{}
}

// fire is called from hooks inside the running system. When the trigger matches
// it cuts the power of the victim: from now on nothing is synced, nothing is sent.
func (tr *trigger) fire(event string, host string) {
	if tr == nil || event != tr.event || host != tr.host || atomic.LoadInt32(&tr.fired) == 1 {
		return
	}
	if atomic.AddInt32(&tr.count, 1) != tr.k {
		return
	}
	if !atomic.CompareAndSwapInt32(&tr.fired, 0, 1) {
		return
	}
	for _, h := range tr.c.Hosts {
		if h.Addr == tr.host {
			tr.c.Net.SetDead(h.Addr, true)
			h.Mon.Freeze(true)
			h.FS.SetIgnoreSyncs(true)
		}
	}
	close(tr.ch)
}


// Op is one recorded client operation.
type Op struct {
	ID      int
	Client  int
	Host    int
	Write   bool
	Key     string
	Val     string
	Call    int64
	Ret     int64
	Outcome string // completed | failed:<err> | dropped | rejected | timeout | terminated
	Mode    string
	Index   uint64
	// CommitNotified: the request delivered a Committed notification (NotifyCommit)
	CommitNotified bool
}

// LogQueryObs is one completed QueryRaftLog: the committed entries the replica
// on Host returned for [First, Last).
type LogQueryObs struct {
	Host        int
	First, Last uint64
	Indexes     []uint64
	Cmds        []string // logical command of each returned entry ("" = not a user proposal)
}

type Result struct {
	bg         sync.WaitGroup // watcher goroutines of asynchronous requests issued by the fault plan
	LogQueries []LogQueryObs
	Plan       Plan
	Ops        []*Op
	Rec        *Recorder
	Violations []Violation
	Flags      map[string]int
	Cluster    *Cluster
	mu         sync.Mutex
	sent       *sendMonitor
}

func (r *Result) flag(name string) {
	r.mu.Lock()
	r.Flags[name]++
	r.mu.Unlock()
}

func (r *Result) violate(sig string, format string, args ...interface{}) {
	r.mu.Lock()
	defer r.mu.Unlock()
	if len(r.Violations) < 40 {
		r.Violations = append(r.Violations, Violation{Sig: sig, Msg: fmt.Sprintf(format, args...)})
	}
}

// ---------------------------------------------------------------------------
// C04 send monitor: persist-before-send, judged against the ever-durable shadow
// ---------------------------------------------------------------------------

type sendMonitor struct {
	mu         sync.Mutex
	res        *Result
	byAddr     map[string]*Host
	maxTerm    map[nodeKey]uint64            // highest term seen in messages of a replica
	votes      map[[3]uint64]uint64          // (shard, replica, term) -> candidate granted
	maxAck     map[nodeKey]uint64            // highest acknowledged index (current-term acks)
	counts     map[string]int64
	asked      map[[4]uint64]bool            // (shard, candidate, addressee, prevote?) of every vote request that left a host
}

func newSendMonitor(res *Result, c *Cluster) *sendMonitor {
	m := &sendMonitor{res: res, byAddr: map[string]*Host{}, maxTerm: map[nodeKey]uint64{}, votes: map[[3]uint64]uint64{},
		maxAck: map[nodeKey]uint64{}, counts: map[string]int64{}, asked: map[[4]uint64]bool{}}
	for _, h := range c.Hosts {
		m.byAddr[h.Addr] = h
	}
	return m
}

func (sm *sendMonitor) onSend(from, to string, m pb.Message) {
	h, ok := sm.byAddr[from]
	if !ok {
		return
	}
	k := nodeKey{m.ShardID, m.From}
	sm.mu.Lock()
	sm.counts[m.Type.String()]++
	// a vote (or pre-vote) response answers a request that was addressed to the responding
	// replica: a replica started on the host of a removed one must not answer for it
	switch m.Type {
	case pb.RequestVote:
		sm.asked[[4]uint64{m.ShardID, m.From, m.To, 0}] = true
	case pb.RequestPreVote:
		sm.asked[[4]uint64{m.ShardID, m.From, m.To, 1}] = true
	case pb.RequestVoteResp, pb.RequestPreVoteResp:
		pre := uint64(0)
		if m.Type == pb.RequestPreVoteResp {
			pre = 1
		}
		if !sm.asked[[4]uint64{m.ShardID, m.To, m.From, pre}] {
			sm.mu.Unlock()
			sm.res.violate("vote-response-without-request", "replica %d sends %s (reject %v, term %d) to %d, which never sent such a request to replica %d", m.From, m.Type, m.Reject, m.Term, m.To, m.From)
			sm.mu.Lock()
		}
	}
	sm.mu.Unlock()
	// C18 at the NodeHost level: the non-voting member / the witness never campaigns and
	// never acts as a leader; a witness is sent entry metadata and membership changes only
	if pl := sm.res.Plan; (pl.NonVoting || pl.Witness) && m.ShardID == shardID {
		special := uint64(pl.Hosts)
		if m.From == special {
			switch m.Type {
			case pb.Replicate, pb.Heartbeat, pb.InstallSnapshot, pb.TimeoutNow:
				sm.res.violate("non-full-member-acts-as-leader", "replica %d (non-voting %v, witness %v) sends %s in term %d", m.From, pl.NonVoting, pl.Witness, m.Type, m.Term)
			case pb.RequestVote, pb.RequestPreVote:
				sm.res.violate("non-full-member-campaigns", "replica %d (non-voting %v, witness %v) sends %s in term %d", m.From, pl.NonVoting, pl.Witness, m.Type, m.Term)
			}
		}
		if pl.Witness && m.To == special && m.Type == pb.Replicate {
			for _, e := range m.Entries {
				if e.Type != pb.ConfigChangeEntry && (e.Type != pb.MetadataEntry || len(e.Cmd) > 0) {
					sm.res.violate("payload-sent-to-witness", "replica %d sends entry %d of type %s with %d payload bytes to witness %d", m.From, e.Index, e.Type, len(e.Cmd), m.To)
					break
				}
			}
		}
	}
	if m.Type == pb.RequestPreVote || m.Type == pb.RequestPreVoteResp || m.Term == 0 {
		return
	}
	h.Mon.View(m.ShardID, m.From, func(d *Durable) {
		if m.Term > d.MaxTerm {
			sm.res.violate("term-not-durable", "host %s replica %d sends %s with term %d, highest durable term %d", from, m.From, m.Type, m.Term, d.MaxTerm)
		}
		switch m.Type {
		case pb.RequestVoteResp:
			if !m.Reject {
				if v, ok := d.Votes[m.Term]; (!ok || v != m.To) && d.MaxTerm <= m.Term {
					sm.res.violate("vote-not-durable", "replica %d grants its vote to %d in term %d, durable vote for that term: %d (known %v)", m.From, m.To, m.Term, v, ok)
				}
			}
		case pb.RequestVote:
			if v, ok := d.Votes[m.Term]; (!ok || v != m.From) && d.MaxTerm <= m.Term {
				sm.res.violate("vote-not-durable", "replica %d requests votes in term %d, durable vote for that term: %d (known %v)", m.From, m.Term, v, ok)
			}
		case pb.ReplicateResp:
			if !m.Reject && m.Term >= d.MaxTerm {
				_, saved := d.Entries[m.LogIndex]
				if !saved && m.LogIndex > d.SnapIndex && m.LogIndex > d.State.Commit && m.LogIndex > 0 {
					sm.res.violate("ack-not-durable", "replica %d acknowledges index %d which it never saved (last durable %d, snapshot %d)", m.From, m.LogIndex, d.LastIndex, d.SnapIndex)
				}
			}
		case pb.Replicate, pb.Heartbeat:
			if m.Commit > d.LastIndex && m.Commit > d.SnapIndex {
				sm.res.violate("commit-advertised-before-durable", "replica %d sends %s with commit index %d, its own durable log ends at %d", m.From, m.Type, m.Commit, d.LastIndex)
			}
		}
	})
	sm.mu.Lock()
	defer sm.mu.Unlock()
	if m.Type == pb.ReplicateResp && !m.Reject && m.LogIndex > sm.maxAck[k] {
		sm.maxAck[k] = m.LogIndex
	}
	if m.Term > sm.maxTerm[k] {
		sm.maxTerm[k] = m.Term
	}
	if m.Type == pb.RequestVoteResp && !m.Reject {
		vk := [3]uint64{m.ShardID, m.From, m.Term}
		if prev, ok := sm.votes[vk]; ok && prev != m.To {
			sm.res.violate("two-votes-one-term", "replica %d granted its vote in term %d to %d and to %d", m.From, m.Term, prev, m.To)
		}
		sm.votes[vk] = m.To
	}
}

// afterRestart: the restarted replica must not come back with a term lower than
// one it used in a message before the crash.
func (sm *sendMonitor) termFloor(shard, replica uint64) uint64 {
	sm.mu.Lock()
	defer sm.mu.Unlock()
	return sm.maxTerm[nodeKey{shard, replica}]
}

// ---------------------------------------------------------------------------
// running a plan
// ---------------------------------------------------------------------------

const shardID = 1

type cfgBox struct{ Config config.Config }

func (p Plan) shardConfig(replica uint64) cfgBox {
	c := ShardConfig(shardID, replica)
	c.SnapshotEntries = p.SnapEntries
	if p.Overhead > 0 {
		c.CompactionOverhead = p.Overhead
	}
	c.PreVote = p.PreVote
	c.Quiesce = p.Quiesce
	if p.EntryCompress {
		c.EntryCompressionType = config.Snappy
	}
	if p.SnapCompress {
		c.SnapshotCompressionType = config.Snappy
	}
	c.MaxInMemLogSize = p.MaxInMemBytes
	if p.NoCheckQuorum {
		c.CheckQuorum = false
	}
	return cfgBox{c}
}

func classifyErr(err error) string {
	switch err {
	case nil:
		return "completed"
	case dragonboat.ErrTimeout:
		return "timeout"
	case dragonboat.ErrShardNotReady:
		return "dropped"
	case dragonboat.ErrRejected:
		return "rejected"
	case dragonboat.ErrShardClosed, dragonboat.ErrClosed, dragonboat.ErrAborted, dragonboat.ErrCanceled:
		return "terminated"
	}
	return "failed:" + err.Error()
}

func resultOutcome(r dragonboat.RequestResult) string {
	switch {
	case r.Completed():
		return "completed"
	case r.Timeout():
		return "timeout"
	case r.Terminated():
		return "terminated"
	case r.Dropped():
		return "dropped"
	case r.Rejected():
		return "rejected"
	case r.Aborted():
		return "aborted"
	}
	return "unknown-code"
}

// RunPlan executes one plan on a fresh cluster and returns the recorded result.
func RunPlan(p Plan) *Result {
	rec := NewRecorder()
	atomic.StoreInt32(&SnapshotPad, int32(p.SnapPadKB)<<10)
	defer atomic.StoreInt32(&SnapshotPad, 0)
	rec.Widen = time.Duration(p.WidenUs) * time.Microsecond
	rec.SlowSnapshot = time.Duration(p.SlowSnapMs) * time.Millisecond
	rec.SlowRecover = time.Duration(p.SlowRecoverMs) * time.Millisecond
	rec.SlowLookup = time.Duration(p.SlowLookupMs) * time.Millisecond
	c := NewCluster(ClusterOptions{Hosts: p.Hosts, Tan: p.Tan, Seed: 7, RTTms: 2, NotifyCommit: p.NotifyCommit})
	res := &Result{Plan: p, Rec: rec, Flags: map[string]int{}, Cluster: c}
	res.sent = newSendMonitor(res, c)
	c.Net.OnSend = res.sent.onSend
	if p.NetDelayMs > 0 {
		c.Net.SetMaxDelay(time.Duration(p.NetDelayMs) * time.Millisecond)
	}
	spec := NewShardSpec(shardID, p.Kind, rec)
	voters := p.Hosts
	if p.NonVoting || p.Witness {
		voters = p.Hosts - 1
	}
	members := c.Members(voters)
	for _, h := range c.Hosts {
		h.Mon.OnSnapshotRecord = rec.SnapshotCreated
		h.Mon.OnSnapshotInstalled = rec.SnapshotInstalled
		h.Mon.OnViolation = res.violate
		if p.Witness && h.Idx == p.Hosts-1 {
			h.Mon.Witness = map[nodeKey]bool{{shardID, uint64(p.Hosts)}: true}
		}
		if err := h.Start(); err != nil {
			res.violate("harness-nodehost-start-failed", "%v", err)
			return res
		}
		if p.SaveDelayMs > 0 {
			d := time.Duration(p.SaveDelayMs) * time.Millisecond
			h.Mon.SaveDelay = func() time.Duration { return d }
		}
	}
	var tr *trigger
	if p.TrigEvent != "" {
		th := c.Hosts[p.TrigHost%p.Hosts]
		tr = &trigger{event: p.TrigEvent, host: th.Addr, k: int32(p.TrigK), c: c, ch: make(chan struct{})}
		th.Mon.BeforeSave = func(host string, uds []pb.Update) { tr.fire("before-save", host) }
		th.Mon.AfterSave = func(host string, uds []pb.Update) { tr.fire("after-save", host) }
	}
	startReplica := func(h *Host) error {
		rid := uint64(h.Idx + 1)
		if p.NonVoting && h.Idx == p.Hosts-1 {
			cfg := p.shardConfig(rid).Config
			cfg.IsNonVoting = true
			return h.StartReplica(spec, nil, true, cfg)
		}
		if p.Witness && h.Idx == p.Hosts-1 {
			cfg := p.shardConfig(rid).Config
			cfg.IsWitness = true
			cfg.SnapshotEntries = 0 // (a witness must not be configured to take snapshots)
			return h.StartReplica(spec, nil, true, cfg)
		}
		return h.StartReplica(spec, members, false, p.shardConfig(rid).Config)
	}
	for i := 0; i < voters; i++ {
		if err := startReplica(c.Hosts[i]); err != nil {
			res.violate("harness-start-replica-failed", "%v", err)
			return res
		}
	}
	if _, ok := c.WaitLeader(shardID, 10*time.Second); !ok {
		res.violate("harness-no-initial-leader", "no leader within 10s on a healthy cluster")
		return res
	}
	if p.NonVoting {
		ctx, cancel := context.WithTimeout(context.Background(), 5*time.Second)
		err := c.Hosts[0].NH.SyncRequestAddNonVoting(ctx, shardID, uint64(p.Hosts), c.Hosts[p.Hosts-1].Addr, 0)
		cancel()
		if err == nil {
			_ = startReplica(c.Hosts[p.Hosts-1])
			res.flag("nonvoting-joined")
		}
	}
	if p.Witness {
		ctx, cancel := context.WithTimeout(context.Background(), 5*time.Second)
		err := c.Hosts[0].NH.SyncRequestAddWitness(ctx, shardID, uint64(p.Hosts), c.Hosts[p.Hosts-1].Addr, 0)
		cancel()
		if err == nil {
			_ = startReplica(c.Hosts[p.Hosts-1])
			res.flag("witness-joined")
		}
	}
	pad := ""
	if p.PadBytes > 0 {
		pad = "|" + strings.Repeat("abcdefgh", p.PadBytes/8+1)[:p.PadBytes]
	}

	var opMu sync.Mutex
	nextOp := 0
	addOp := func(op *Op) *Op {
		opMu.Lock()
		op.ID = nextOp
		nextOp++
		res.Ops = append(res.Ops, op)
		opMu.Unlock()
		return op
	}
	var hostMu sync.RWMutex // protects Host.NH/Up against the fault goroutine
	var valCtr int64
	var restartsInRead int32 // at most 4 replica restarts inside SyncRead calls per case
	var maxIndex uint64 // highest log index a completed proposal reported
	stopClients := make(chan struct{})
	var wg sync.WaitGroup
	for ci := 0; ci < p.Clients; ci++ {
		wg.Add(1)
		go func(ci int) {
			defer wg.Done()
			rnd := newLCG(p.CliSeeds[ci])
			var sess *client.Session
			var sessHost int = -1
			for i := 0; i < p.OpsPerCli; i++ {
				select {
				case <-stopClients:
					return
				default:
				}
				hi := rnd.intn(p.Hosts)
				key := fmt.Sprintf("k%d", rnd.intn(p.Keys))
				isRead := rnd.intn(100) < p.ReadPct
				async := rnd.intn(100) < p.AsyncPct
				hostMu.RLock()
				h := c.Hosts[hi]
				nh := h.NH
				up := h.Up
				hostMu.RUnlock()
				if !up || nh == nil {
					time.Sleep(time.Millisecond)
					continue
				}
				timeout := time.Duration(100+rnd.intn(300)) * time.Millisecond
				if p.AuxPct > 0 && rnd.intn(100) < p.AuxPct {
					res.auxRequest(nh, hi, rnd, atomic.LoadUint64(&maxIndex))
					continue
				}
				if isRead {
					op := addOp(&Op{Client: ci, Host: hi, Key: key, Call: Now()})
					if async {
						op.Mode = "readindex"
						rs, err := nh.ReadIndex(shardID, timeout)
						if err != nil {
							op.Outcome, op.Ret = classifyErr(err), Now()
							continue
						}
						r, got := awaitResult(rs, timeout)
						if !got {
							res.violate("no-terminal-result", "ReadIndex on host %d (timeout %v) delivered no result within the deadline plus 10 s", hi, timeout)
							res.violate("read-no-terminal-result", "ReadIndex on host %d (timeout %v) delivered no result within the deadline plus 10 s", hi, timeout)
							op.Outcome, op.Ret = "noresult", Now()
							continue
						}
						if r.Completed() {
							if p.SlowReadUs > 0 {
								time.Sleep(time.Duration(rnd.intn(p.SlowReadUs)) * time.Microsecond)
							}
							var v interface{}
							var err error
							if rnd.intn(3) == 0 {
								// the no-allocation read path (statemachine.IExtended)
								var b []byte
								b, err = nh.NAReadLocalNode(rs, []byte(key))
								v = string(b)
								op.Mode = "readindex-na"
							} else {
								v, err = nh.ReadLocalNode(rs, key)
							}
							if err == nil {
								op.Val, _ = v.(string)
								op.Outcome = "completed"
							} else {
								op.Outcome = classifyErr(err)
							}
						} else {
							op.Outcome = resultOutcome(r)
						}
						op.Ret = Now()
						rs.Release()
					} else {
						op.Mode = "syncread"
						ctx, cancel := context.WithTimeout(context.Background(), timeout)
						var rctx context.Context = ctx
						if p.RestartInReadPct > 0 && !p.special(hi) && rnd.intn(100) < p.RestartInReadPct && atomic.AddInt32(&restartsInRead, 1) <= 4 {
							wait := time.Duration(2+rnd.intn(8)) * time.Millisecond
							settle := time.Duration(rnd.intn(4000)) * time.Microsecond // the new incarnation gets this long to initialize
							rctx = &hookCtx{Context: ctx, fn: func() {
								time.Sleep(wait)
								hostMu.Lock()
								defer hostMu.Unlock()
								if h := c.Hosts[hi]; h.Up && h.NH == nh {
									if err := nh.StopReplica(shardID, uint64(hi+1)); err == nil {
										res.flag("replica-restarted-inside-syncread")
										var err error
										for try := 0; try < 200; try++ {
											time.Sleep(time.Millisecond)
											if err = startReplica(h); err == nil {
												break
											}
										}
										if err != nil {
											res.flag("replica-restart-failed")
										}
										time.Sleep(settle)
									}
								}
							}}
							op.Mode = "syncread-restart"
						}
						v, err := nh.SyncRead(rctx, shardID, key)
						cancel()
						if err == nil {
							op.Val, _ = v.(string)
						}
						op.Outcome, op.Ret = classifyErr(err), Now()
						if op.Mode == "syncread-restart" {
							res.flag("restart-read-" + strings.ReplaceAll(op.Outcome, " ", "_"))
						}
					}
					res.flag("read-" + strings.SplitN(op.Outcome, ":", 2)[0])
					continue
				}
				val := fmt.Sprintf("c%dv%d", ci, atomic.AddInt64(&valCtr, 1))
				cmd := []byte("P|" + key + "|" + val + pad)
				op := addOp(&Op{Client: ci, Host: hi, Write: true, Key: key, Val: val, Call: Now()})
				// (on-disk state machines must use NoOP sessions: documented, ProposeSession panics)
				if p.Sessions && p.Kind != KindOnDisk && !async {
					// registered session with the documented retry discipline
					op.Mode = "session"
					if sess == nil || sessHost != hi {
						ctx, cancel := context.WithTimeout(context.Background(), timeout)
						s, err := nh.SyncGetSession(ctx, shardID)
						cancel()
						if err != nil {
							op.Outcome, op.Ret = "failed:nosession", Now()
							res.flag("write-nosession")
							// never proposed: remove from the history
							op.Outcome = "notproposed"
							continue
						}
						sess, sessHost = s, hi
					}
					var err error
					for try := 0; try < 3; try++ {
						ctx, cancel := context.WithTimeout(context.Background(), timeout)
						_, err = nh.SyncPropose(ctx, sess, cmd)
						cancel()
						if err == nil {
							sess.ProposalCompleted()
							break
						}
						if err != dragonboat.ErrTimeout && err != dragonboat.ErrShardNotReady && err != dragonboat.ErrSystemBusy {
							break
						}
						res.flag("session-retry")
					}
					op.Outcome, op.Ret = classifyErr(err), Now()
					if err != nil {
						// outcome unknown: the session cannot be used any further
						sess = nil
					}
				} else if async {
					op.Mode = "propose"
					rs, err := nh.Propose(nh.GetNoOPSession(shardID), cmd, timeout)
					if err != nil {
						op.Outcome, op.Ret = "notproposed", Now()
						continue
					}
					r, code, notified := awaitResultX(rs, timeout)
					op.CommitNotified = notified
					if notified {
						res.flag("commit-notified")
					}
					if code != awaitOK {
						if code == awaitExtra {
							res.violate("two-results", "Propose %q on host %d: a further result (%s) after the terminal one / a second Committed notification", cmd, hi, resultOutcome(r))
						} else {
							res.violate("no-terminal-result", "Propose %q on host %d (timeout %v) delivered no result within the deadline plus 10 s", cmd, hi, timeout)
						}
						op.Outcome, op.Ret = "noresult", Now()
						continue
					}
					op.Outcome, op.Ret = resultOutcome(r), Now()
					if notified && r.Dropped() {
						res.violate("committed-then-dropped", "Propose %q on host %d was reported Committed and then Dropped", cmd, hi)
					}
					if !p.NotifyCommit && notified {
						res.violate("two-results", "Propose %q on host %d: Committed notification although NotifyCommit is off", cmd, hi)
					}
					if r.Completed() {
						op.Index = r.GetResult().Value
						for {
							cur := atomic.LoadUint64(&maxIndex)
							if op.Index <= cur || atomic.CompareAndSwapUint64(&maxIndex, cur, op.Index) {
								break
							}
						}
						if string(r.GetResult().Data) != "R:"+string(cmd) {
							res.violate("completed-with-foreign-result", "proposal %q completed with result data %q", cmd, r.GetResult().Data)
						}
					}
					rs.Release()
				} else {
					op.Mode = "syncpropose"
					ctx, cancel := context.WithTimeout(context.Background(), timeout)
					r, err := nh.SyncPropose(ctx, nh.GetNoOPSession(shardID), cmd)
					cancel()
					op.Outcome, op.Ret = classifyErr(err), Now()
					if err == nil {
						op.Index = r.Value
						for {
							cur := atomic.LoadUint64(&maxIndex)
							if op.Index <= cur || atomic.CompareAndSwapUint64(&maxIndex, cur, op.Index) {
								break
							}
						}
						if string(r.Data) != "R:"+string(cmd) {
							res.violate("completed-with-foreign-result", "proposal %q completed with result data %q", cmd, r.Data)
						}
					}
				}
				res.flag("write-" + strings.SplitN(op.Outcome, ":", 2)[0])
			}
		}(ci)
	}

	var staleWg sync.WaitGroup
	for si := 0; si < p.StaleReaders; si++ {
		staleWg.Add(1)
		go func(si int) {
			defer staleWg.Done()
			rnd := newLCG(int64(977 + si))
			kept := map[int]*dragonboat.RequestState{}
			keptInc := map[int]int{}
			keptAt := map[int]int64{}
			for {
				select {
				case <-stopClients:
					return
				default:
				}
				// (the lock only covers picking the NodeHost: a local read may still be inside the
				// state machine when the fault plan stops, restarts or closes its replica)
				hostMu.RLock()
				h := c.Hosts[rnd.intn(p.Hosts)]
				hUp, hNH, hIdx, hInc := h.Up, h.NH, h.Idx, h.Inc
				hostMu.RUnlock()
				if hUp && hNH != nil {
					key := fmt.Sprintf("k%d", rnd.intn(p.Keys))
					if rs := kept[hIdx]; rs != nil && keptInc[hIdx] == hInc && rnd.intn(2) == 0 {
						// the no-allocation read path with a completed ReadIndex that the reader
						// keeps using (not part of the checked history: the index is old)
						if b, err := hNH.NAReadLocalNode(rs, []byte(key)); err == nil {
							res.flag("na-read-ok")
							// checked by the stale-read oracle only: the read may take effect anywhere
							// between the moment its ReadIndex was issued and now
							addOp(&Op{Client: 200 + si, Host: hIdx, Key: key, Val: string(b), Call: keptAt[hIdx], Ret: Now(), Outcome: "completed", Mode: "na-kept"})
						}
					} else if _, err := hNH.StaleRead(shardID, key); err == nil {
						res.flag("stale-read-ok")
					}
					if keptInc[hIdx] != hInc || kept[hIdx] == nil {
						at := Now()
						if rs, err := hNH.ReadIndex(shardID, 200*time.Millisecond); err == nil {
							if r, got := awaitResult(rs, 200*time.Millisecond); got && r.Completed() {
								kept[hIdx], keptInc[hIdx], keptAt[hIdx] = rs, hInc, at
							}
						}
					}
				}
				time.Sleep(100 * time.Microsecond)
			}
		}(si)
	}

	// fault plan
	faultsDone := make(chan struct{})
	go func() {
		defer close(faultsDone)
		for _, f := range p.Faults {
			time.Sleep(time.Duration(f.AfterMs) * time.Millisecond)
			select {
			case <-stopClients:
				return
			default:
			}
			res.flag("fault-" + faultNames[f.Kind])
			a, b := c.Hosts[f.A%p.Hosts], c.Hosts[f.B%p.Hosts]
			switch f.Kind {
			case FPartition:
				if a != b {
					c.Net.SetDown(a.Addr, b.Addr, true)
					if f.B%2 == 0 {
						c.Net.SetDown(b.Addr, a.Addr, true)
					}
				}
			case FExport:
				hostMu.RLock()
				if a.Up {
					dir := fmt.Sprintf("/export-%d-%d", a.Idx, f.AfterMs)
					_ = a.FS.MkdirAll(dir, 0o755)
					if rs, err := a.NH.RequestSnapshot(shardID, dragonboat.SnapshotOption{Exported: true, ExportPath: dir}, time.Second); err == nil {
						res.watchSnapshot(a, rs, time.Second, dir)
						res.flag("snapshot-exported")
					}
				}
				hostMu.RUnlock()
			case FIsolate:
				for _, o := range c.Hosts {
					if o != a {
						c.Net.SetDown(a.Addr, o.Addr, true)
						c.Net.SetDown(o.Addr, a.Addr, true)
					}
				}
			case FLoss:
				if a != b {
					c.Net.SetLoss(a.Addr, b.Addr, 30)
				}
			case FHeal:
				c.Net.HealAll()
			case FPowerCut:
				hostMu.Lock()
				if a.Up && countUp(c) > 1 {
					res.powerCut(a, spec)
				}
				hostMu.Unlock()
			case FPowerCutAll:
				hostMu.Lock()
				for _, h := range c.Hosts {
					if h.Up {
						res.powerCut(h, spec)
					}
				}
				for _, h := range c.Hosts {
					res.restart(h, startReplica)
				}
				hostMu.Unlock()
				res.flag("all-hosts-power-cycled")
			case FRestart:
				hostMu.Lock()
				for _, h := range c.Hosts {
					if !h.Up {
						res.restart(h, startReplica)
						break
					}
				}
				hostMu.Unlock()
			case FTransfer:
				hostMu.RLock()
				if a.Up {
					_ = a.NH.RequestLeaderTransfer(shardID, uint64(f.B%p.Hosts+1))
				}
				hostMu.RUnlock()
			case FSnapshot:
				hostMu.RLock()
				if a.Up {
					if rs, err := a.NH.RequestSnapshot(shardID, dragonboat.SnapshotOption{}, 500*time.Millisecond); err == nil {
						res.watchSnapshot(a, rs, 500*time.Millisecond, "")
					}
				}
				hostMu.RUnlock()
			case FCloseDuringSnapshot:
				// the NodeHost is closed gracefully while one of its snapshot workers is
				// inside the user state machine's SaveSnapshot / PrepareSnapshot
				hostMu.Lock()
				if a.Up && countUp(c) > 1 {
					name := fmt.Sprintf("%d/%d", shardID, a.Idx+1)
					if rs, err := a.NH.RequestSnapshot(shardID, dragonboat.SnapshotOption{}, time.Second); err == nil {
						res.watchSnapshot(a, rs, time.Second, "")
						for dl := time.Now().Add(300 * time.Millisecond); time.Now().Before(dl) && !rec.SnapshotBusy(name); {
							time.Sleep(200 * time.Microsecond)
						}
						if rec.SnapshotBusy(name) {
							res.flag("closed-during-snapshot")
						}
						a.Stop()
						res.restart(a, startReplica)
					}
				}
				hostMu.Unlock()
			case FStopReplica:
				hostMu.Lock()
				if a.Up {
					if err := a.NH.StopReplica(shardID, uint64(a.Idx+1)); err == nil {
						res.flag("replica-stopped")
						time.Sleep(time.Duration(1+f.B%5) * time.Millisecond)
						if err := startReplica(a); err != nil {
							res.flag("replica-restart-failed")
						}
					}
				}
				hostMu.Unlock()
			}
		}
	}()

	trigDone := make(chan struct{})
	go func() {
		defer close(trigDone)
		if tr == nil {
			return
		}
		select {
		case <-tr.ch:
		case <-stopClients:
			return
		}
		// the power is already off (nothing synced or sent since the trigger fired):
		// tear the process down, drop unsynced data, restart
		hostMu.Lock()
		defer hostMu.Unlock()
		th := c.Hosts[p.TrigHost%p.Hosts]
		if !th.Up {
			return
		}
		th.NH.Close()
		th.FS.ResetToSyncedState()
		th.FS.SetIgnoreSyncs(false)
		NormalizeNames(th.FS, "/")
		th.Mon.Freeze(false)
		th.Up = false
		if p.Kind == KindOnDisk {
			spec.Disk(shardID, uint64(th.Idx+1)).PowerCut()
		}
		res.flag("power-cut")
		res.flag("triggered-power-cut-" + p.TrigEvent)
		time.Sleep(time.Duration(5+p.TrigK) * time.Millisecond)
		res.restart(th, startReplica)
	}()
	doneC := make(chan struct{})
	go func() { wg.Wait(); close(doneC) }()
	select {
	case <-doneC:
	case <-time.After(60 * time.Second):
		res.violate("harness-clients-stuck", "client goroutines did not finish within 60s")
	}
	close(stopClients)
	<-faultsDone
	<-trigDone
	staleWg.Wait()
	res.bg.Wait()

	// heal, restart everything, final reads through every host
	c.Net.HealAll()
	hostMu.Lock()
	for _, h := range c.Hosts {
		res.restart(h, startReplica)
	}
	hostMu.Unlock()
	res.finalReads(p)
	res.finalAgreement()
	return res
}

// watchSnapshot waits (on its own goroutine, joined by RunPlan before the oracles
// run) for the terminal result of a RequestSnapshot: exactly one (C12); a Completed
// result names the index of a snapshot that exists - recorded in the replica's log
// store for a regular request, a directory in the export path for an exported one.
func (res *Result) watchSnapshot(h *Host, rs *dragonboat.RequestState, timeout time.Duration, exportDir string) {
	res.bg.Add(1)
	go func() {
		defer res.bg.Done()
		r, code, _ := awaitResultX(rs, timeout+30*time.Second)
		switch code {
		case awaitNone:
			res.violate("no-terminal-result", "RequestSnapshot on host %d (timeout %v, export %q) delivered no result within the deadline plus 40 s", h.Idx, timeout, exportDir)
			return
		case awaitExtra:
			res.violate("two-results", "RequestSnapshot on host %d delivered a second result", h.Idx)
			return
		}
		res.flag("snapshot-request-" + resultOutcome(r))
		if r.Completed() && atomic.LoadInt32(&h.Mon.frozen) == 0 {
			idx := r.SnapshotIndex()
			if exportDir != "" {
				found := false
				if names, err := h.FS.List(exportDir); err == nil {
					for _, n := range names {
						if strings.Contains(n, fmt.Sprintf("%016X", idx)) {
							found = true
						}
					}
				}
				if !found && atomic.LoadInt32(&h.Mon.frozen) == 0 {
					res.violate("snapshot-request-completed-without-snapshot", "exported snapshot request on host %d completed with index %d but %s holds no such snapshot", h.Idx, idx, exportDir)
				}
			} else {
				res.Rec.mu.Lock()
				found := false
				for _, c := range res.Rec.Created[fmt.Sprintf("%d/%d", shardID, h.Idx+1)] {
					if c == idx {
						found = true
					}
				}
				res.Rec.mu.Unlock()
				if res.Plan.Kind == KindOnDisk {
					// (snapshots of on-disk state machines are recorded as dummy records, which the
					// recorder does not list one by one: the newest record must have reached the index)
					found = h.Mon.Get(shardID, uint64(h.Idx+1)).SnapIndex >= idx
				}
				if !found && atomic.LoadInt32(&h.Mon.frozen) == 0 {
					res.violate("snapshot-request-completed-without-snapshot", "snapshot request on host %d completed with index %d but no snapshot with that index was recorded in the replica's log store", h.Idx, idx)
				}
			}
		}
		rs.Release()
	}()
}

// auxRequest issues one auxiliary request of the public API and checks that it gets
// exactly one terminal result (C12). A completed QueryRaftLog is kept for the
// truthfulness check in CheckStreams: what it returns are committed entries.
func (res *Result) auxRequest(nh *dragonboat.NodeHost, hi int, rnd *lcg, hiIndex uint64) {
	switch rnd.intn(4) {
	case 0:
		// (ErrRejected = nothing to reclaim)
		if st, err := nh.RequestCompaction(shardID, uint64(hi+1)); err == nil {
			select {
			case <-st.ResultC():
				res.flag("aux-compaction-completed")
			case <-time.After(20 * time.Second):
				res.violate("no-terminal-result", "RequestCompaction on host %d: the returned SysOpState did not complete within 20 s", hi)
			}
		} else {
			res.flag("aux-compaction-refused")
		}
	default:
		first := uint64(1 + rnd.intn(int(hiIndex)+3))
		last := first + 1 + uint64(rnd.intn(8))
		maxSize := uint64(16 + rnd.intn(6000))
		rs, err := nh.QueryRaftLog(shardID, first, last, maxSize)
		if err != nil {
			res.flag("aux-logquery-refused")
			return
		}
		r, code, _ := awaitResultX(rs, 0)
		switch {
		case code == awaitNone:
			res.violate("no-terminal-result", "QueryRaftLog [%d,%d) on host %d delivered no result within 10 s", first, last, hi)
		case code == awaitExtra:
			res.violate("two-results", "QueryRaftLog [%d,%d) on host %d delivered a second result", first, last, hi)
		case r.Completed():
			ents, lr := r.RaftLogs()
			obs := LogQueryObs{Host: hi, First: first, Last: last}
			for i, e := range ents {
				if e.Index != first+uint64(i) || e.Index >= last {
					res.violate("logquery-wrong-range", "QueryRaftLog [%d,%d) on host %d returned entry %d at position %d (reported range [%d,%d))", first, last, hi, e.Index, i, lr.FirstIndex, lr.LastIndex)
					break
				}
				cmd := ""
				if e.Type == pb.ApplicationEntry || e.Type == pb.EncodedEntry {
					if payload, err := rsm.GetPayload(e); err == nil {
						parts := strings.SplitN(string(payload), "|", 4)
						if len(parts) >= 3 && parts[0] == "P" {
							cmd = strings.Join(parts[:3], "|")
						}
					} else {
						res.violate("logquery-undecodable-entry", "QueryRaftLog on host %d returned entry %d whose payload cannot be decoded: %v", hi, e.Index, err)
					}
				}
				obs.Indexes = append(obs.Indexes, e.Index)
				obs.Cmds = append(obs.Cmds, cmd)
			}
			res.mu.Lock()
			res.LogQueries = append(res.LogQueries, obs)
			res.mu.Unlock()
			res.flag("aux-logquery-completed")
		case r.RequestOutOfRange():
			res.flag("aux-logquery-out-of-range")
		default:
			res.flag("aux-logquery-" + resultOutcome(r))
		}
	}
}

// finalAgreement: C02. With the network healed and no client traffic every
// running replica converges on the same applied index; replicas that report the
// same applied index must hold identical user state (data and number of Update
// calls folded into it - a double apply or a snapshot stamped with the wrong
// index shows up in the count).
func (res *Result) finalAgreement() {
	c := res.Cluster
	deadline := time.Now().Add(5 * time.Second)
	for {
		states := map[string]string{}
		applied := map[string]string{}
		for _, h := range c.Hosts {
			if !h.Up || h.NH == nil {
				continue
			}
			v, err := h.NH.StaleRead(shardID, "\x00state")
			if err != nil {
				continue
			}
			s, _ := v.(string)
			states[h.Addr] = s
			applied[h.Addr] = strings.SplitN(s, " ", 2)[0]
		}
		byApplied := map[string]string{}
		converged := len(states) > 1
		var first string
		for a, s := range states {
			if prev, ok := byApplied[applied[a]]; ok && prev != s {
				res.violate("replica-state-differs-at-same-index", "two replicas at %s hold different user state: %q vs %q", applied[a], prev, s)
				return
			}
			byApplied[applied[a]] = s
			if first == "" {
				first = applied[a]
			} else if first != applied[a] {
				converged = false
			}
		}
		if converged {
			res.flag("final-states-compared")
			return
		}
		if time.Now().After(deadline) {
			res.flag("final-states-not-converged")
			return
		}
		time.Sleep(20 * time.Millisecond)
	}
}

// awaitResult waits for the terminal result of an asynchronous request: every
// accepted request gets one by tick driven expiry shortly after its deadline at
// the latest (C12). The margin is generous because ticks are wall clock driven.
func awaitResult(rs *dragonboat.RequestState, timeout time.Duration) (dragonboat.RequestResult, bool) {
	r, got, _ := awaitResultC(rs, timeout)
	return r, got
}

// awaitResultC additionally reports whether a Committed notification preceded the
// terminal result (NodeHostConfig.NotifyCommit). More than one Committed
// notification, or anything after the terminal result, counts as "no single
// terminal result" (got == false with a result code set).
func awaitResultC(rs *dragonboat.RequestState, timeout time.Duration) (dragonboat.RequestResult, bool, bool) {
	r, code, committed := awaitResultX(rs, timeout)
	return r, code == awaitOK, committed
}

const (
	awaitOK    = iota // exactly one terminal result
	awaitNone         // no terminal result within the deadline plus 10 s
	awaitExtra        // a further result after the terminal one, or a second Committed notification
)

// (RequestResult.Committed() is also true for a Completed result: a notification is
// "committed and not completed")
func awaitResultX(rs *dragonboat.RequestState, timeout time.Duration) (dragonboat.RequestResult, int, bool) {
	committed := false
	deadline := time.After(timeout + 10*time.Second)
	for {
		select {
		case r := <-rs.ResultC():
			if r.Committed() && !r.Completed() {
				if committed {
					return r, awaitExtra, true
				}
				committed = true
				continue
			}
			// a second result on the same request is a violation; it would be sitting in the
			// channel by now or arrive while the request object is still ours
			select {
			case r2 := <-rs.ResultC():
				return r2, awaitExtra, committed
			default:
			}
			return r, awaitOK, committed
		case <-deadline:
			return dragonboat.RequestResult{}, awaitNone, committed
		}
	}
}

func countUp(c *Cluster) int {
	n := 0
	for _, h := range c.Hosts {
		if h.Up {
			n++
		}
	}
	return n
}

func (res *Result) powerCut(h *Host, spec *ShardSpec) {
	h.PowerCut()
	if res.Plan.Kind == KindOnDisk {
		spec.Disk(shardID, uint64(h.Idx+1)).PowerCut()
	}
	res.flag("power-cut")
}

// restartSig names the way a replica failed to come back.
func restartSig(err error) string {
	if err != nil && strings.Contains(err.Error(), "out of range state") {
		// raft.loadState: the persisted commit index is outside the recovered log range
		return "restart-panics-commit-outside-log-range"
	}
	return "restart-failed"
}

func (res *Result) restart(h *Host, startReplica func(*Host) error) {
	if h.Up {
		return
	}
	rid := uint64(h.Idx + 1)
	floor := res.sent.termFloor(shardID, rid)
	if err := h.Start(); err != nil {
		res.violate("restart-failed", "host %d: NewNodeHost failed after power cut: %v", h.Idx, err)
		return
	}
	if err := startReplica(h); err != nil {
		d := h.Mon.Get(shardID, rid)
		res.violate(restartSig(err), "host %d: StartReplica failed after power cut: %v (ever-durable shadow of the log store: state %+v, snapshot record %d, last index %d)",
			h.Idx, err, d.State, d.SnapIndex, d.LastIndex)
		return
	}
	res.flag("restart")
	// recovered hard state must not be older than what the replica told the world
	d := h.Mon.Get(shardID, rid)
	if d.MaxTerm < floor {
		res.violate("recovered-term-lower", "replica %d sent messages with term %d, highest term ever durable is %d", rid, floor, d.MaxTerm)
	}
	if lr, err := h.NH.GetLogReader(shardID); err == nil {
		_, last := lr.GetRange()
		res.sent.mu.Lock()
		ack := res.sent.maxAck[nodeKey{shardID, rid}]
		res.sent.mu.Unlock()
		if last < ack {
			res.flag("restart-log-shorter-than-acked") // informational; entries may have been superseded legitimately
		}
	}
}

// finalReads: after healing, a linearizable read of every key through every
// host; these reads are part of the history.
func (res *Result) finalReads(p Plan) {
	c := res.Cluster
	if _, ok := c.WaitLeader(shardID, 15*time.Second); !ok {
		res.flag("no-leader-after-heal")
		return
	}
	for _, h := range c.Hosts {
		if !h.Up || (p.Witness && h.Idx == p.Hosts-1) {
			continue
		}
		for k := 0; k < p.Keys; k++ {
			key := fmt.Sprintf("k%d", k)
			op := &Op{ID: len(res.Ops), Client: 100 + h.Idx, Host: h.Idx, Key: key, Call: Now(), Mode: "final"}
			var err error
			var v interface{}
			for try := 0; try < 40; try++ {
				ctx, cancel := context.WithTimeout(context.Background(), 500*time.Millisecond)
				op.Call = Now()
				v, err = h.NH.SyncRead(ctx, shardID, key)
				cancel()
				if err == nil {
					break
				}
				time.Sleep(20 * time.Millisecond)
			}
			op.Ret = Now()
			op.Outcome = classifyErr(err)
			if err == nil {
				op.Val, _ = v.(string)
				res.flag("final-read-ok")
			} else {
				res.flag("final-read-failed")
			}
			res.Ops = append(res.Ops, op)
		}
	}
}

// ---------------------------------------------------------------------------
// oracles over the recorded result
// ---------------------------------------------------------------------------

type regIn struct {
	write bool
	key   string
	val   string
}

var regModel = porcupine.Model{
	Partition: func(history []porcupine.Operation) [][]porcupine.Operation {
		m := map[string][]porcupine.Operation{}
		var keys []string
		for _, op := range history {
			k := op.Input.(regIn).key
			if _, ok := m[k]; !ok {
				keys = append(keys, k)
			}
			m[k] = append(m[k], op)
		}
		sort.Strings(keys)
		var out [][]porcupine.Operation
		for _, k := range keys {
			out = append(out, m[k])
		}
		return out
	},
	Init: func() interface{} { return "" },
	Step: func(state, input, output interface{}) (bool, interface{}) {
		in := input.(regIn)
		if in.write {
			return true, in.val
		}
		return output.(string) == state.(string), state
	},
	Equal: func(a, b interface{}) bool { return a.(string) == b.(string) },
}

// CheckLinearizable: C01. Completed operations are linearizable; operations
// without a definite outcome may take effect at any later point or never.
func (res *Result) CheckLinearizable() {
	var hist []porcupine.Operation
	end := Now() + 1000
	for _, op := range res.Ops {
		switch {
		case op.Mode == "na-kept":
			// long lived reads of the local readers: decided by the stale-read oracle
		case op.Outcome == "notproposed" || op.Outcome == "":
		case op.Write && op.Outcome == "completed":
			hist = append(hist, porcupine.Operation{ClientId: op.ID, Input: regIn{true, op.Key, op.Val}, Call: op.Call, Output: "", Return: op.Ret})
		case op.Write:
			hist = append(hist, porcupine.Operation{ClientId: op.ID, Input: regIn{true, op.Key, op.Val}, Call: op.Call, Output: "", Return: end})
		case !op.Write && op.Outcome == "completed":
			hist = append(hist, porcupine.Operation{ClientId: op.ID, Input: regIn{false, op.Key, ""}, Call: op.Call, Output: op.Val, Return: op.Ret})
		}
	}
	if len(hist) == 0 {
		return
	}
	r := porcupine.CheckOperationsTimeout(regModel, hist, 5*time.Second)
	if r == porcupine.Unknown {
		res.flag("lin-check-budget-exhausted")
		return
	}
	res.flag("lin-checked")
	if r == porcupine.Illegal {
		res.violate("linearizability-violated", "history is not linearizable: %s", res.historyString())
	}
}

func (res *Result) historyString() string {
	var sb strings.Builder
	for _, op := range res.Ops {
		if op.Outcome == "notproposed" {
			continue
		}
		rw := "R"
		if op.Write {
			rw = "W"
		}
		fmt.Fprintf(&sb, "{%d c%d h%d %s %s=%s [%d,%d] %s %s} ", op.ID, op.Client, op.Host, rw, op.Key, op.Val, op.Call, op.Ret, op.Outcome, op.Mode)
	}
	return sb.String()
}

// CheckStreams: C02/C11 cross checks over the recorded Update streams.
func (res *Result) CheckStreams() {
	res.Rec.mu.Lock()
	defer res.Rec.mu.Unlock()
	byIndex := map[uint64]string{}
	for name, st := range res.Rec.Streams {
		perInc := map[int]uint64{}
		seen := map[string]map[int]int{}
		for _, d := range st {
			if last, ok := perInc[d.Inc]; ok && d.Index <= last {
				res.violateLocked("update-index-not-increasing", "replica %s incarnation %d: index %d after %d", name, d.Inc, d.Index, last)
			}
			perInc[d.Inc] = d.Index
			if prev, ok := byIndex[d.Index]; ok && prev != d.Cmd {
				res.violateLocked("replicas-applied-different-entries", "index %d: %q on replica %s, %q elsewhere", d.Index, d.Cmd, name, prev)
			}
			byIndex[d.Index] = d.Cmd
			if strings.HasPrefix(d.Cmd, "P|") {
				if seen[d.Cmd] == nil {
					seen[d.Cmd] = map[int]int{}
				}
				seen[d.Cmd][d.Inc]++
				if seen[d.Cmd][d.Inc] > 1 {
					res.violateLocked("write-applied-twice", "replica %s incarnation %d applied %q twice", name, d.Inc, d.Cmd)
				}
			}
		}
	}
	// a value is applied at one index only (exactly once overall)
	idxOf := map[string]uint64{}
	for idx, cmd := range byIndex {
		if !strings.HasPrefix(cmd, "P|") {
			continue
		}
		if prev, ok := idxOf[cmd]; ok && prev != idx {
			res.violateLocked("write-applied-twice", "%q applied at index %d and at index %d", cmd, prev, idx)
		}
		idxOf[cmd] = idx
	}
	// C12/C02: a completed QueryRaftLog returns committed entries: a user proposal it
	// reports at index i is the command every replica applies at i, and an index at
	// which a replica applied a user proposal is not reported as something else
	for _, q := range res.LogQueries {
		for i, idx := range q.Indexes {
			applied, ok := byIndex[idx]
			if !ok {
				// (nothing was delivered to a state machine at this index: a membership change,
				// a no-op, session bookkeeping or the filtered duplicate of a retried proposal)
				continue
			}
			if !strings.HasPrefix(applied, "P|") {
				applied = ""
			}
			if applied != q.Cmds[i] {
				res.violateLocked("logquery-returned-uncommitted-entry", "QueryRaftLog [%d,%d) on host %d returned %q at index %d; the replicas applied %q there", q.First, q.Last, q.Host, q.Cmds[i], idx, applied)
			}
		}
	}
	// C02/C08: the content of a snapshot is the state at the index the snapshot is
	// stamped with. The image handed to SaveSnapshot carries the state machine's own
	// applied index A; the finished snapshot is reported with index M. Entries in
	// (A, M] must be entries that never reach Update (membership changes, no-ops,
	// session bookkeeping), and A must not be ahead of M.
	if res.Plan.Kind != KindOnDisk {
		for name, created := range res.Rec.Created {
			imgs := res.Rec.ImagesBy[name]
			res.mu.Lock()
			res.Flags["snapshot-index-vs-image-checked"] += len(created)
			res.mu.Unlock()
			for _, m := range created {
				var best uint64
				for _, a := range imgs {
					if a <= m && a > best {
						best = a
					}
				}
				for j := best + 1; j <= m; j++ {
					if cmd, ok := byIndex[j]; ok {
						res.violateLocked("snapshot-content-not-at-snapshot-index",
							"replica %s finished a snapshot stamped with index %d, the newest image it saved at or below that index has applied index %d (images %v), but entry %d (%q) is a user entry",
							name, m, best, imgs, j, cmd)
						break
					}
				}
			}
		}
	}
	// the same for snapshots received from another replica: the image handed to
	// RecoverFromSnapshot carries the sender's applied index A, raft accepted the
	// snapshot as index M (all kinds, streamed snapshots of on-disk state machines included)
	// (judged from the image's side: a snapshot that raft accepted may never reach the
	// state machine - the replica is stopped or loses power first and restarts from a
	// later one - so an accepted index without a matching image proves nothing; but every
	// image that WAS handed to RecoverFromSnapshot must be the state at the index of some
	// snapshot the replica accepted or created itself)
	for name, recov := range res.Rec.RecoveredBy {
		var cands []uint64
		cands = append(cands, res.Rec.Installed[name]...)
		cands = append(cands, res.Rec.Created[name]...)
		for _, a := range recov {
			explained, any := false, false
			var worst uint64
			var worstCmd string
			for _, m := range cands {
				if m < a {
					continue
				}
				any = true
				clean := true
				for j := a + 1; j <= m; j++ {
					if cmd, ok := byIndex[j]; ok {
						clean = false
						worst, worstCmd = j, cmd
						break
					}
				}
				if clean {
					explained = true
					break
				}
			}
			if any && !explained {
				res.violateLocked("installed-snapshot-content-not-at-snapshot-index",
					"replica %s recovered from an image with applied index %d; every snapshot it accepted or created at or above that index (accepted %v, created %v) covers user entries the image does not contain, e.g. entry %d (%q), which the replica will never apply",
					name, a, res.Rec.Installed[name], res.Rec.Created[name], worst, worstCmd)
				break
			}
		}
	}
	// C06: a completed read never returns a value that was overwritten (in apply
	// order) by a write acknowledged before the read was issued
	for _, rd := range res.Ops {
		if rd.Write || rd.Outcome != "completed" || rd.Mode == "final" {
			continue
		}
		var seenIdx uint64
		if rd.Val != "" {
			idx, ok := idxOf["P|"+rd.Key+"|"+rd.Val]
			if !ok {
				res.violateLocked("read-returned-unapplied-value", "read %d of %s returned %q which no replica applied", rd.ID, rd.Key, rd.Val)
				continue
			}
			seenIdx = idx
		}
		for _, w := range res.Ops {
			if !w.Write || w.Key != rd.Key || w.Outcome != "completed" || w.Ret >= rd.Call {
				continue
			}
			if widx, ok := idxOf["P|"+w.Key+"|"+w.Val]; ok && widx > seenIdx {
				res.violateLocked("stale-read", "read %d (%s on host %d, issued at %d) returned %q (index %d) although write %q (index %d) was acknowledged at %d",
					rd.ID, rd.Mode, rd.Host, rd.Call, rd.Val, seenIdx, w.Val, widx, w.Ret)
				break
			}
		}
	}
	// dropped / rejected requests never reach a state machine (C12)
	for _, op := range res.Ops {
		if !op.Write {
			continue
		}
		cmd := "P|" + op.Key + "|" + op.Val
		_, applied := idxOf[cmd]
		if (op.Outcome == "dropped" || op.Outcome == "rejected") && applied && op.Mode != "session" {
			res.violateLocked("dropped-request-applied", "request %q reported %s but was applied at index %d", cmd, op.Outcome, idxOf[cmd])
		}
		if op.CommitNotified && !applied && res.Flags["final-read-ok"] > 0 {
			res.violateLocked("committed-notified-never-applied", "request %q was reported Committed (outcome %s) but no replica ever applied it", cmd, op.Outcome)
		}
		if op.Outcome == "completed" && !applied {
			res.violateLocked("completed-request-never-applied", "request %q reported Completed but no replica applied it", cmd)
		}
		if op.Outcome == "completed" && op.Index != 0 && applied && idxOf[cmd] != op.Index {
			res.violateLocked("completed-with-foreign-result", "request %q completed with the result of index %d, applied at index %d", cmd, op.Index, idxOf[cmd])
		}
	}
}

func (res *Result) violateLocked(sig string, format string, args ...interface{}) {
	res.mu.Lock()
	defer res.mu.Unlock()
	if len(res.Violations) < 40 {
		res.Violations = append(res.Violations, Violation{Sig: sig, Msg: fmt.Sprintf(format, args...)})
	}
}

// AllViolations merges harness level and state machine level violations.
func (res *Result) AllViolations() []Violation {
	res.mu.Lock()
	v := append([]Violation{}, res.Violations...)
	res.mu.Unlock()
	return append(v, res.Rec.Violations()...)
}

// small deterministic PRNG for the client programs (seeded from rapid draws)
type lcg struct{ s uint64 }

func newLCG(seed int64) *lcg { return &lcg{s: uint64(seed)*2862933555777941757 + 3037000493} }
func (l *lcg) intn(n int) int {
	l.s = l.s*6364136223846793005 + 1442695040888963407
	return int((l.s >> 33) % uint64(n))
}
