package nhcluster

import (
	"context"
	"fmt"
	"testing"
	"time"

	dragonboat "github.com/lni/dragonboat/v4"
	"github.com/lni/dragonboat/v4/internal/vfhelp"
)

// TestVF_C16_PowerCutRightAfterSnapshot (finding F6): a snapshot is recorded in
// the log store (synced) at an index whose commit index update may not be durable
// yet (Tan writes state changes that only move the commit index without fsync).
// A power cut right after the snapshot must leave the replica restartable.
func TestVF_C16_PowerCutRightAfterSnapshot(t *testing.T) {
	st := vfhelp.NewStats("TestVF_C16_PowerCutRightAfterSnapshot", "fixed scenario (finding F6): writes, snapshot request, immediate power cut, restart; Pebble and Tan, regular and on-disk state machines")
	defer st.Flush()
	for _, tan := range []bool{false, true} {
		for _, kind := range []KVKind{KindRegular, KindOnDisk} {
			for round := 0; round < 3; round++ {
				name := fmt.Sprintf("tan=%v/%s/%d", tan, kind, round)
				f6Scenario(t, st, tan, kind, round, name)
				st.Case([]byte(name), true, fmt.Sprintf("tan-%v", tan), "kind-"+kind.String())
			}
		}
	}
}

func f6Scenario(t *testing.T, st *vfhelp.Stats, tan bool, kind KVKind, round int, name string) {
	rec := NewRecorder()
	c := NewCluster(ClusterOptions{Hosts: 3, Seed: int64(round), Tan: tan})
	defer c.Close()
	spec := NewShardSpec(1, kind, rec)
	for _, h := range c.Hosts {
		if err := h.Start(); err != nil {
			t.Fatal(err)
		}
		if err := h.StartReplica(spec, c.Members(3), false, ShardConfig(1, uint64(h.Idx+1))); err != nil {
			t.Fatal(err)
		}
	}
	lid, ok := c.WaitLeader(1, 10*time.Second)
	if !ok {
		st.Count("inconclusive-no-leader", 1)
		return
	}
	l := c.Hosts[lid-1]
	ctx, cancel := context.WithTimeout(context.Background(), 30*time.Second)
	defer cancel()
	s := l.NH.GetNoOPSession(1)
	for i := 0; i < 6+round*3; i++ {
		if _, err := l.NH.SyncPropose(ctx, s, []byte(fmt.Sprintf("P|k|w%d", i))); err != nil {
			st.Count("inconclusive-warmup", 1)
			return
		}
	}
	// snapshot on every host, then cut the power of all of them at once
	for _, h := range c.Hosts {
		sctx, scancel := context.WithTimeout(context.Background(), 5*time.Second)
		_, _ = h.NH.SyncRequestSnapshot(sctx, 1, dragonboat.SnapshotOption{})
		scancel()
	}
	for _, h := range c.Hosts {
		h.PowerCut()
		if kind == KindOnDisk {
			spec.Disk(1, uint64(h.Idx+1)).PowerCut()
		}
	}
	for _, h := range c.Hosts {
		var startErr error
		func() {
			defer func() {
				if p := recover(); p != nil {
					startErr = fmt.Errorf("panic: %v", p)
				}
			}()
			if err := h.Start(); err != nil {
				startErr = err
				return
			}
			startErr = h.StartReplica(spec, c.Members(3), false, ShardConfig(1, uint64(h.Idx+1)))
		}()
		if startErr != nil {
			d := h.Mon.Get(1, uint64(h.Idx+1))
			if !st.Known(t, "replica-not-restartable-after-power-cut", "[%s] replica %d cannot restart after a power cut that followed a snapshot (recorded snapshot index %d, last state handed to the log store %+v): %v",
				name, h.Idx+1, d.SnapIndex, d.State, startErr) {
				return
			}
		}
	}
}
