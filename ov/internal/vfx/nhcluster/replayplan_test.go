package nhcluster

import (
	"encoding/json"
	"os"
	"strconv"
	"testing"

	"github.com/lni/dragonboat/v4/internal/vfhelp"
	"pgregory.net/rapid"
)

// TestVF_ReplayPlan reruns one saved plan (VF_PLAN=<artefact json>, either a bare
// plan or an artefact with a "plan" member) VF_PLAN_RUNS times; real goroutine
// schedules differ between runs, so a schedule dependent failure may need several.
func TestVF_ReplayPlan(t *testing.T) {
	path := os.Getenv("VF_PLAN")
	if path == "" {
		t.Skip("VF_PLAN not set")
	}
	data, err := os.ReadFile(path)
	if err != nil {
		t.Fatal(err)
	}
	var wrap struct{ Plan *Plan `json:"plan"` }
	var p Plan
	if json.Unmarshal(data, &wrap) == nil && wrap.Plan != nil {
		p = *wrap.Plan
	} else if err := json.Unmarshal(data, &p); err != nil {
		t.Fatal(err)
	}
	runs, _ := strconv.Atoi(os.Getenv("VF_PLAN_RUNS"))
	if runs == 0 {
		runs = 10
	}
	for i := 0; i < runs; i++ {
		res := RunPlan(p)
		res.CheckLinearizable()
		res.CheckStreams()
		res.Cluster.Close()
		if os.Getenv("VF_PLAN_DEBUG") != "" {
			t.Logf("run %d: flags %v\ncreated %v\nimages %v\ncalls %v", i, res.Flags, res.Rec.Created, res.Rec.ImagesBy, res.Rec.CallCount)
		}
		for _, v := range res.AllViolations() {
			t.Errorf("run %d: VFSIG[%s] %s", i, v.Sig, v.Msg)
		}
		if t.Failed() {
			return
		}
	}
}

// TestVF_C16_ReplayPlan reruns one c16Plan (VF_PLAN=<json>) VF_PLAN_RUNS times.
func TestVF_C16_ReplayPlan(t *testing.T) {
	path := os.Getenv("VF_PLAN")
	if path == "" {
		t.Skip("VF_PLAN not set")
	}
	data, err := os.ReadFile(path)
	if err != nil {
		t.Fatal(err)
	}
	var p c16Plan
	if err := json.Unmarshal(data, &p); err != nil {
		t.Fatal(err)
	}
	runs, _ := strconv.Atoi(os.Getenv("VF_PLAN_RUNS"))
	if runs == 0 {
		runs = 3
	}
	st := vfhelp.NewStats("TestVF_C16_ReplayPlan", "replay")
	for i := 0; i < runs; i++ {
		rapid.Check(t, func(rt *rapid.T) {
			labels, nt, _ := runC16(rt, st, p)
			t.Logf("run %d: fired=%v labels=%v", i, nt, labels)
		})
	}
}
