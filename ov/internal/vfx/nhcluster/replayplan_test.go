package nhcluster

import (
	"encoding/json"
	"os"
	"strconv"
	"testing"

	"github.com/lni/dragonboat/v4/internal/vfhelp"
	"github.com/lni/dragonboat/v4/logger"
	"pgregory.net/rapid"
)

// TestVF_ReplayPlan reruns one saved plan (VF_PLAN=<artefact json>, either a bare
// plan or an artefact with a "plan" member) VF_PLAN_RUNS times; real goroutine
// schedules differ between runs, so a schedule dependent failure may need several.
func TestVF_ReplayPlan(t *testing.T) {
	path := os.Getenv("VF_PLAN")
	if path == "" {
		t.Skip("VF_PLAN not set")
	}
	data, err := os.ReadFile(path)
	if err != nil {
		t.Fatal(err)
	}
	var wrap struct{ Plan *Plan `json:"plan"` }
	var p Plan
	if json.Unmarshal(data, &wrap) == nil && wrap.Plan != nil {
		p = *wrap.Plan
	} else if err := json.Unmarshal(data, &p); err != nil {
		t.Fatal(err)
	}
	runs, _ := strconv.Atoi(os.Getenv("VF_PLAN_RUNS"))
	if runs == 0 {
		runs = 10
	}
	for i := 0; i < runs; i++ {
		res := RunPlan(p)
		res.CheckLinearizable()
		res.CheckStreams()
		res.Cluster.Close()
		if os.Getenv("VF_PLAN_DEBUG") != "" {
			t.Logf("run %d: flags %v\ncreated %v\nimages %v\ninstalled %v\nrecovered %v\ncalls %v", i, res.Flags, res.Rec.Created, res.Rec.ImagesBy, res.Rec.Installed, res.Rec.RecoveredBy, res.Rec.CallCount)
		}
		for _, v := range res.AllViolations() {
			t.Errorf("run %d: VFSIG[%s] %s", i, v.Sig, v.Msg)
		}
		if t.Failed() {
			return
		}
	}
}

// TestVF_C16_ReplayPlan reruns one c16Plan (VF_PLAN=<json>) VF_PLAN_RUNS times.
func TestVF_C16_ReplayPlan(t *testing.T) {
	path := os.Getenv("VF_PLAN")
	if path == "" {
		t.Skip("VF_PLAN not set")
	}
	data, err := os.ReadFile(path)
	if err != nil {
		t.Fatal(err)
	}
	var p c16Plan
	if err := json.Unmarshal(data, &p); err != nil {
		t.Fatal(err)
	}
	runs, _ := strconv.Atoi(os.Getenv("VF_PLAN_RUNS"))
	if runs == 0 {
		runs = 3
	}
	st := vfhelp.NewStats("TestVF_C16_ReplayPlan", "replay")
	for i := 0; i < runs; i++ {
		rapid.Check(t, func(rt *rapid.T) {
			labels, nt, _ := runC16(rt, st, p)
			t.Logf("run %d: fired=%v labels=%v", i, nt, labels)
		})
	}
}

// TestVF_C17_ReplayPlan reruns one c17Plan (VF_PLAN=<json>); VF_LOG=1 turns the
// library's INFO logging on.
func TestVF_C17_ReplayPlan(t *testing.T) {
	path := os.Getenv("VF_PLAN")
	if path == "" {
		t.Skip("VF_PLAN not set")
	}
	data, err := os.ReadFile(path)
	if err != nil {
		t.Fatal(err)
	}
	var p c17Plan
	if err := json.Unmarshal(data, &p); err != nil {
		t.Fatal(err)
	}
	if os.Getenv("VF_LOG") != "" {
		for _, n := range []string{"raft", "dragonboat"} {
			logger.GetLogger(n).SetLevel(logger.INFO)
		}
		if os.Getenv("VF_LOG") == "2" {
			logger.GetLogger("transport").SetLevel(logger.DEBUG)
			logger.GetLogger("raft").SetLevel(logger.DEBUG)
			logger.GetLogger("dragonboat").SetLevel(logger.DEBUG)
		}
	}
	st := vfhelp.NewStats("TestVF_C17_ReplayPlan", "replay")
	rapid.Check(t, func(rt *rapid.T) {
		labels, nt, ok := runC17(rt, st, p)
		t.Logf("ok=%v nontrivial=%v labels=%v", ok, nt, labels)
	})
}
