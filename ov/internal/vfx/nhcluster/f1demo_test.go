package nhcluster

import (
	"context"
	"strings"
	"sync/atomic"
	"testing"
	"time"

	"github.com/lni/dragonboat/v4/internal/vfhelp"
	pb "github.com/lni/dragonboat/v4/raftpb"
)

// TestVF_F1_Divergence demonstrates finding F1 end to end on real NodeHosts: a
// shard with one voting member and one non-voting member. The voter's fsync of a
// proposal stalls; meanwhile the non-voting member has already been told that the
// entry is committed and applies it; the voter loses power before its fsync
// completes and restarts without the entry. The non-voting member has then
// applied an entry that is not in the shard's log: replicas diverge for good.
func TestVF_C04_F1Divergence(t *testing.T) {
	st := vfhelp.NewStats("TestVF_C04_F1Divergence", "fixed regression scenario (finding F1): power failure of the single voter while its save is stalled; all replicas must end with identical state")
	defer st.Flush()
	defer func() { st.Case([]byte("f1-divergence"), true, "f1-divergence") }()
	rec := NewRecorder()
	c := NewCluster(ClusterOptions{Hosts: 2, Seed: 1})
	defer c.Close()
	for _, h := range c.Hosts {
		if err := h.Start(); err != nil {
			t.Fatal(err)
		}
	}
	spec := NewShardSpec(1, KindRegular, rec)
	h0, h1 := c.Hosts[0], c.Hosts[1]
	if err := h0.StartReplica(spec, c.Members(1), false, ShardConfig(1, 1)); err != nil {
		t.Fatal(err)
	}
	if _, ok := c.WaitLeader(1, 5*time.Second); !ok {
		t.Fatal("no leader")
	}
	ctx, cancel := context.WithTimeout(context.Background(), 20*time.Second)
	defer cancel()
	if err := h0.NH.SyncRequestAddNonVoting(ctx, 1, 2, h1.Addr, 0); err != nil {
		t.Fatal(err)
	}
	cfg2 := ShardConfig(1, 2)
	cfg2.IsNonVoting = true
	if err := h1.StartReplica(spec, nil, true, cfg2); err != nil {
		t.Fatal(err)
	}
	s := h0.NH.GetNoOPSession(1)
	if _, err := h0.NH.SyncPropose(ctx, s, []byte("P|k|warm")); err != nil {
		t.Fatal(err)
	}
	// wait until the non-voting member has caught up
	waitFor(t, 5*time.Second, func() bool { return streamHas(rec, "1/2", "P|k|warm") })

	// stall the voter's next save that contains the proposal
	var stall int32 = 1
	release := make(chan struct{})
	h0.Mon.BeforeSave = func(host string, uds []pb.Update) {
		for _, ud := range uds {
			for _, e := range ud.EntriesToSave {
				if strings.Contains(string(e.Cmd), "P|a|x") && atomic.CompareAndSwapInt32(&stall, 1, 0) {
					<-release
				}
			}
		}
	}
	if _, err := h0.NH.Propose(s, []byte("P|a|x"), 10*time.Second); err != nil {
		t.Fatal(err)
	}
	// with the defect the non-voting member applies the entry although the only
	// voting member has not made it durable
	applied := false
	deadline := time.Now().Add(1500 * time.Millisecond)
	for time.Now().Before(deadline) {
		if streamHas(rec, "1/2", "P|a|x") {
			applied = true
			break
		}
		time.Sleep(2 * time.Millisecond)
	}
	// power failure of the voter while its fsync is still pending
	c.Net.SetDead(h0.Addr, true)
	h0.Mon.Freeze(true)
	h0.FS.SetIgnoreSyncs(true)
	close(release)
	h0.NH.Close()
	h0.FS.ResetToSyncedState()
	h0.FS.SetIgnoreSyncs(false)
	NormalizeNames(h0.FS, "/")
	h0.Mon.Freeze(false)
	h0.Up = false
	h0.Mon.BeforeSave = nil
	if err := h0.Start(); err != nil {
		t.Fatal(err)
	}
	if err := h0.StartReplica(spec, c.Members(1), false, ShardConfig(1, 1)); err != nil {
		t.Fatal(err)
	}
	if _, ok := c.WaitLeader(1, 10*time.Second); !ok {
		t.Fatal("no leader after restart")
	}
	s = h0.NH.GetNoOPSession(1)
	var err error
	for i := 0; i < 50; i++ {
		cctx, ccancel := context.WithTimeout(context.Background(), time.Second)
		_, err = h0.NH.SyncPropose(cctx, s, []byte("P|b|y"))
		ccancel()
		if err == nil {
			break
		}
		time.Sleep(50 * time.Millisecond)
	}
	if err != nil {
		t.Fatal(err)
	}
	caughtUp := false
	for dl := time.Now().Add(3 * time.Second); time.Now().Before(dl); time.Sleep(5 * time.Millisecond) {
		if streamHas(rec, "1/2", "P|b|y") {
			caughtUp = true
			break
		}
	}
	t.Logf("non-voting member received the post-restart proposal: %v", caughtUp)
	v0, err := h0.NH.SyncRead(ctx, 1, "\x00dump")
	if err != nil {
		t.Fatal(err)
	}
	v1, err := h1.NH.StaleRead(1, "\x00dump")
	if err != nil {
		t.Fatal(err)
	}
	t.Logf("non-voting member applied the unsaved entry before the power failure: %v", applied)
	t.Logf("voter state: %v", v0)
	t.Logf("non-voting state: %v", v1)
	if v0 != v1 {
		vfhelp.Fail(t, "replicas-diverged-after-power-failure", "F1: replicas diverged: voter %q, non-voting member %q", v0, v1)
	}
}

func streamHas(rec *Recorder, name string, cmd string) bool {
	rec.mu.Lock()
	defer rec.mu.Unlock()
	for _, d := range rec.Streams[name] {
		if d.Cmd == cmd {
			return true
		}
	}
	return false
}

func waitFor(t *testing.T, d time.Duration, f func() bool) {
	deadline := time.Now().Add(d)
	for time.Now().Before(deadline) {
		if f() {
			return
		}
		time.Sleep(2 * time.Millisecond)
	}
	t.Fatalf("condition not reached within %v", d)
}
