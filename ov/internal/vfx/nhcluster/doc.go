package nhcluster
