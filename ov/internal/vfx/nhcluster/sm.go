package nhcluster

import (
	"encoding/binary"
	"encoding/json"
	"fmt"
	"io"
	"sort"
	"strings"
	"sync"
	"sync/atomic"
	"time"

	sm "github.com/lni/dragonboat/v4/statemachine"
)

// Violation is a contract violation observed by an instrumented component.
type Violation struct {
	Sig string
	Msg string
}

// Recorder collects violations and call traces of one test case.
type Recorder struct {
	mu         sync.Mutex
	violations []Violation
	// Updates: per (shard, replica) and incarnation the stream of delivered entries
	Streams map[string][]Delivered
	// Concurrency evidence
	OverlapLookupUpdate int64 // Lookup pending while Update entered (allowed kinds only)
	OverlapSaveUpdate   int64
	CallCount           map[string]int64
	Widen               time.Duration
	// Images: applied index -> canonical dump of every image handed to SaveSnapshot
	Images map[uint64]string
	// Hook, when set, is called at entry/exit of snapshot related state machine calls
	Hook func(event string, name string)
	// SlowSnapshot makes SaveSnapshot / PrepareSnapshot take this long
	SlowSnapshot time.Duration
	// SlowRecover makes RecoverFromSnapshot take this long
	SlowRecover time.Duration
	// SlowLookup makes every 16th Lookup take this long (a read still inside the user
	// state machine when its replica is stopped, restored or closed)
	SlowLookup  time.Duration
	lookupCount int64
	busy         map[string]int // replica name -> snapshot related calls in progress
	// ImagesBy: replica name -> applied index of every image handed to SaveSnapshot, in order
	ImagesBy map[string][]uint64
	// Created: replica name -> index of every locally created snapshot recorded in the log store
	Created map[string][]uint64
	// Installed: replica name -> index of every received snapshot raft accepted;
	// RecoveredBy: replica name -> applied index carried by every image handed to RecoverFromSnapshot
	Installed   map[string][]uint64
	RecoveredBy map[string][]uint64
}

// SnapshotInstalled records the index of a received snapshot that raft accepted.
func (r *Recorder) SnapshotInstalled(shard, replica, index uint64) {
	r.mu.Lock()
	defer r.mu.Unlock()
	if r.Installed == nil {
		r.Installed = map[string][]uint64{}
	}
	name := fmt.Sprintf("%d/%d", shard, replica)
	r.Installed[name] = append(r.Installed[name], index)
}

// SnapshotCreated records the index a finished snapshot is stamped with.
func (r *Recorder) SnapshotCreated(shard, replica, index uint64) {
	r.mu.Lock()
	defer r.mu.Unlock()
	if r.Created == nil {
		r.Created = map[string][]uint64{}
	}
	name := fmt.Sprintf("%d/%d", shard, replica)
	r.Created[name] = append(r.Created[name], index)
}

// SnapshotBusy reports whether a SaveSnapshot/PrepareSnapshot call of the replica is in progress.
func (r *Recorder) SnapshotBusy(name string) bool {
	r.mu.Lock()
	defer r.mu.Unlock()
	return r.busy[name] > 0
}

func (r *Recorder) hook(event string, name string) {
	r.mu.Lock()
	if r.busy == nil {
		r.busy = map[string]int{}
	}
	switch event {
	case "sm-save-enter", "sm-prepare-enter":
		r.busy[name]++
	case "sm-save-exit", "sm-prepare-exit":
		r.busy[name]--
	}
	slow, slowRecover := r.SlowSnapshot, r.SlowRecover
	r.mu.Unlock()
	if slow > 0 && (event == "sm-save-enter" || event == "sm-prepare-enter" || event == "sm-prepare-exit") {
		// (sm-prepare-exit: PrepareSnapshot is slow after it captured its point in time image)
		time.Sleep(slow)
	}
	if slowRecover > 0 && event == "sm-recover-enter" {
		time.Sleep(slowRecover)
	}
	if r.Hook != nil {
		r.Hook(event, name)
	}
}

type Delivered struct {
	Inc   int
	Index uint64
	Cmd   string
}

func NewRecorder() *Recorder {
	return &Recorder{Streams: map[string][]Delivered{}, CallCount: map[string]int64{}, Images: map[uint64]string{}}
}

func (r *Recorder) Violate(sig string, format string, args ...interface{}) {
	r.mu.Lock()
	defer r.mu.Unlock()
	if len(r.violations) < 50 {
		r.violations = append(r.violations, Violation{Sig: sig, Msg: fmt.Sprintf(format, args...)})
	}
}

func (r *Recorder) Violations() []Violation {
	r.mu.Lock()
	defer r.mu.Unlock()
	return append([]Violation{}, r.violations...)
}

func (r *Recorder) count(name string) {
	r.mu.Lock()
	r.CallCount[name]++
	r.mu.Unlock()
}

// DiskImage is the durable storage of an on-disk state machine: it survives
// restarts; a power cut discards what was not synced.
type DiskImage struct {
	mu      sync.Mutex
	Synced  map[string]string
	SyncedI uint64
	Work    map[string]string
	WorkI   uint64
	// number of Update calls folded into the image (part of the user state)
	SyncedC uint64
	WorkC   uint64
	// Off, when set, reports that the host has lost power: nothing becomes durable any
	// more (a Sync of the dying process returns but leaves the synced image alone)
	Off func() bool
}

func NewDiskImage() *DiskImage {
	return &DiskImage{Synced: map[string]string{}, Work: map[string]string{}}
}

// PowerCut discards unsynced content.
func (d *DiskImage) PowerCut() {
	d.mu.Lock()
	defer d.mu.Unlock()
	d.Work = map[string]string{}
	for k, v := range d.Synced {
		d.Work[k] = v
	}
	d.WorkI = d.SyncedI
	d.WorkC = d.SyncedC
}

// KVKind selects the user state machine interface.
type KVKind int

const (
	KindRegular KVKind = iota
	KindConcurrent
	KindOnDisk
)

func (k KVKind) String() string { return [...]string{"regular", "concurrent", "ondisk"}[k] }

// kvCore is the instrumented key-value state machine shared by the three kinds.
type kvCore struct {
	rec     *Recorder
	kind    KVKind
	shard   uint64
	replica uint64
	inc     int
	name    string

	mu      sync.Mutex // protects data for the concurrent kinds (harness internal)
	data    map[string]string
	applied uint64
	count   uint64
	disk    *DiskImage
	openIdx uint64

	// contract instrumentation
	inUpdate  int32
	inLookup  int32
	inSave    int32
	inPrepare int32
	inRecover int32
	inSync    int32
	inClose   int32
	closed    int32
	lastIndex uint64
	recovered bool
}

var incCounter int64

func newCore(rec *Recorder, kind KVKind, shard, replica uint64, disk *DiskImage) *kvCore {
	c := &kvCore{rec: rec, kind: kind, shard: shard, replica: replica, data: map[string]string{}, disk: disk,
		inc: int(atomic.AddInt64(&incCounter, 1))}
	c.name = fmt.Sprintf("%d/%d", shard, replica)
	return c
}

func (c *kvCore) widen() {
	if c.rec.Widen > 0 {
		time.Sleep(c.rec.Widen)
	}
}

func (c *kvCore) afterClose(call string) {
	if atomic.LoadInt32(&c.closed) == 1 {
		c.rec.Violate("call-after-close", "%s %s: %s called after Close", c.kind, c.name, call)
	}
}

// exclusive group: Update, Sync, PrepareSnapshot, RecoverFromSnapshot, Close never overlap one another
func (c *kvCore) enterExclusive(call string, own *int32) {
	c.afterClose(call)
	type ctr struct {
		n string
		p *int32
	}
	for _, o := range []ctr{{"Update", &c.inUpdate}, {"Sync", &c.inSync}, {"PrepareSnapshot", &c.inPrepare},
		{"RecoverFromSnapshot", &c.inRecover}, {"Close", &c.inClose}} {
		if atomic.LoadInt32(o.p) > 0 {
			c.rec.Violate("exclusive-calls-overlap", "%s %s: %s entered while %s is running", c.kind, c.name, call, o.n)
		}
	}
	if c.kind == KindRegular {
		// plain IStateMachine: additionally Lookup and SaveSnapshot never overlap Update/Recover/Close
		if call == "Update" || call == "RecoverFromSnapshot" || call == "Close" {
			if atomic.LoadInt32(&c.inLookup) > 0 {
				c.rec.Violate("lookup-overlaps-"+strings.ToLower(call), "regular %s: %s entered while Lookup is running", c.name, call)
			}
			if atomic.LoadInt32(&c.inSave) > 0 {
				c.rec.Violate("savesnapshot-overlaps-"+strings.ToLower(call), "regular %s: %s entered while SaveSnapshot is running", c.name, call)
			}
		}
	} else if call == "Update" {
		if atomic.LoadInt32(&c.inLookup) > 0 {
			atomic.AddInt64(&c.rec.OverlapLookupUpdate, 1)
		}
		if atomic.LoadInt32(&c.inSave) > 0 {
			atomic.AddInt64(&c.rec.OverlapSaveUpdate, 1)
		}
	}
	atomic.AddInt32(own, 1)
	c.rec.count(call)
}

func (c *kvCore) enterShared(call string, own *int32) {
	// (a Lookup of a concurrent / on-disk state machine may legitimately arrive after
	// Close: the lock free lookup path has no closed test and the documentation only
	// requires Close not to change what Lookup sees; C11 forbids it for the plain one)
	if call != "Lookup" || c.kind == KindRegular {
		c.afterClose(call)
	}
	if c.kind == KindRegular {
		for _, o := range []struct {
			n string
			p *int32
		}{{"Update", &c.inUpdate}, {"RecoverFromSnapshot", &c.inRecover}, {"Close", &c.inClose}} {
			if atomic.LoadInt32(o.p) > 0 {
				c.rec.Violate(strings.ToLower(call)+"-overlaps-"+strings.ToLower(o.n), "regular %s: %s entered while %s is running", c.name, call, o.n)
			}
		}
	}
	atomic.AddInt32(own, 1)
	c.rec.count(call)
}

// Commands: "P|key|value" or "P|key|value|padding" (put). Everything else is a no-op command.
func (c *kvCore) applyOne(index uint64, cmd []byte) sm.Result {
	if index <= c.lastIndex {
		c.rec.Violate("update-index-not-increasing", "%s %s inc %d: Update index %d after %d", c.kind, c.name, c.inc, index, c.lastIndex)
	}
	if c.kind == KindOnDisk && index <= c.openIdx {
		c.rec.Violate("ondisk-update-at-or-below-open-index", "ondisk %s: Update index %d, Open returned %d", c.name, index, c.openIdx)
	}
	c.lastIndex = index
	parts := strings.SplitN(string(cmd), "|", 4)
	logical := string(cmd)
	if len(parts) == 4 && parts[0] == "P" {
		// the padding (compressible filler that makes entry compression and the in-memory
		// log size limit matter) is not part of the logical command, but it must arrive intact
		logical = strings.Join(parts[:3], "|")
		for i := 0; i < len(parts[3]); i++ {
			if parts[3][i] != "abcdefgh"[i%8] {
				c.rec.Violate("command-payload-altered", "%s %s: Update index %d delivered a command whose payload differs from what was proposed (byte %d of the padding of %q)", c.kind, c.name, index, i, logical)
				break
			}
		}
	}
	c.rec.mu.Lock()
	c.rec.Streams[c.name] = append(c.rec.Streams[c.name], Delivered{Inc: c.inc, Index: index, Cmd: logical})
	c.rec.mu.Unlock()
	c.mu.Lock()
	if len(parts) >= 3 && parts[0] == "P" {
		c.data[parts[1]] = parts[2]
		if c.disk != nil {
			c.disk.mu.Lock()
			c.disk.Work[parts[1]] = parts[2]
			c.disk.mu.Unlock()
		}
	}
	c.applied = index
	c.count++
	if c.disk != nil {
		c.disk.mu.Lock()
		c.disk.WorkI = index
		c.disk.WorkC = c.count
		c.disk.mu.Unlock()
	}
	c.mu.Unlock()
	// the result identifies the entry and echoes a digest of the command
	return sm.Result{Value: index, Data: append([]byte("R:"), cmd...)}
}

func (c *kvCore) lookup(q interface{}) (interface{}, error) {
	c.enterShared("Lookup", &c.inLookup)
	defer atomic.AddInt32(&c.inLookup, -1)
	c.widen()
	if c.rec.SlowLookup > 0 && atomic.AddInt64(&c.rec.lookupCount, 1)%16 == 0 {
		time.Sleep(c.rec.SlowLookup)
	}
	key, _ := q.(string)
	c.mu.Lock()
	defer c.mu.Unlock()
	if key == "\x00applied" {
		return c.applied, nil
	}
	if key == "\x00dump" {
		return c.dumpLocked(), nil
	}
	if key == "\x00state" {
		// the complete user state: applied index, number of Update calls folded in, data
		return fmt.Sprintf("applied=%d count=%d data=%s", c.applied, c.count, c.dumpLocked()), nil
	}
	return c.data[key], nil
}

func (c *kvCore) naLookup(q []byte) ([]byte, error) {
	v, err := c.lookup(string(q))
	if err != nil {
		return nil, err
	}
	sv, _ := v.(string)
	return []byte(sv), nil
}

func (c *kvCore) dumpLocked() string {
	keys := make([]string, 0, len(c.data))
	for k := range c.data {
		keys = append(keys, k)
	}
	sort.Strings(keys)
	var sb strings.Builder
	for _, k := range keys {
		fmt.Fprintf(&sb, "%s=%s;", k, c.data[k])
	}
	return sb.String()
}

type kvImage struct {
	Data    map[string]string
	Applied uint64
	Count   uint64
	// altered: what readImage found wrong with the filler that follows the image ("" = intact)
	altered string
}

func (c *kvCore) image() kvImage {
	c.mu.Lock()
	defer c.mu.Unlock()
	img := kvImage{Data: map[string]string{}, Applied: c.applied, Count: c.count}
	for k, v := range c.data {
		img.Data[k] = v
	}
	return img
}

func (img kvImage) dump() string {
	keys := make([]string, 0, len(img.Data))
	for k := range img.Data {
		keys = append(keys, k)
	}
	sort.Strings(keys)
	var sb strings.Builder
	for _, k := range keys {
		fmt.Fprintf(&sb, "%s=%s;", k, img.Data[k])
	}
	return sb.String()
}

func (r *Recorder) saveImage(name string, img kvImage) {
	r.mu.Lock()
	r.Images[img.Applied] = img.dump()
	if r.ImagesBy == nil {
		r.ImagesBy = map[string][]uint64{}
	}
	r.ImagesBy[name] = append(r.ImagesBy[name], img.Applied)
	r.mu.Unlock()
}

func writeImage(w io.Writer, img kvImage, pad int) error {
	data, err := json.Marshal(img)
	if err != nil {
		return err
	}
	var l [8]byte
	binary.LittleEndian.PutUint64(l[:], uint64(len(data)))
	if _, err := w.Write(l[:]); err != nil {
		return err
	}
	if _, err := w.Write(data); err != nil {
		return err
	}
	if pad > 0 {
		// position dependent filler: a block of the image that ends up in the place of
		// another one (or is altered in transit) is noticed by readImage
		if _, err := w.Write(padBytes(pad)); err != nil {
			return err
		}
	}
	return nil
}

func padByte(i int) byte { return byte(i*131 + i>>8*29 + i>>16*7 + 0xAB) }

var padCache []byte

func padBytes(n int) []byte {
	padMu.Lock()
	defer padMu.Unlock()
	for len(padCache) < n {
		padCache = append(padCache, padByte(len(padCache)))
	}
	return padCache[:n]
}

var padMu sync.Mutex

// ImagePadAltered counts images whose filler did not read back as written
var ImagePadAltered int64

func readImage(r io.Reader) (kvImage, error) {
	var img kvImage
	var l [8]byte
	if _, err := io.ReadFull(r, l[:]); err != nil {
		return img, err
	}
	n := binary.LittleEndian.Uint64(l[:])
	if n > 1<<26 {
		return img, fmt.Errorf("implausible image size %d", n)
	}
	data := make([]byte, n)
	if _, err := io.ReadFull(r, data); err != nil {
		return img, err
	}
	if err := json.Unmarshal(data, &img); err != nil {
		return img, err
	}
	rest, _ := io.ReadAll(r)
	for i, b := range rest {
		if b != padByte(i) {
			atomic.AddInt64(&ImagePadAltered, 1)
			img.altered = fmt.Sprintf("image filler altered at offset %d of %d (got %#x, written %#x)", i, len(rest), b, padByte(i))
			break
		}
	}
	return img, nil
}

func (c *kvCore) install(img kvImage) {
	if img.altered != "" {
		c.rec.Violate("snapshot-image-altered", "%s %s: the image handed to RecoverFromSnapshot (applied index %d) is not what SaveSnapshot wrote: %s", c.kind, c.name, img.Applied, img.altered)
	}
	c.rec.mu.Lock()
	if c.rec.RecoveredBy == nil {
		c.rec.RecoveredBy = map[string][]uint64{}
	}
	c.rec.RecoveredBy[c.name] = append(c.rec.RecoveredBy[c.name], img.Applied)
	c.rec.mu.Unlock()
	c.mu.Lock()
	defer c.mu.Unlock()
	c.data = map[string]string{}
	for k, v := range img.Data {
		c.data[k] = v
	}
	c.applied = img.Applied
	c.count = img.Count
	if c.disk != nil {
		c.disk.mu.Lock()
		c.disk.Work = map[string]string{}
		for k, v := range img.Data {
			c.disk.Work[k] = v
		}
		c.disk.WorkI = img.Applied
		c.disk.WorkC = img.Count
		c.disk.mu.Unlock()
	}
	// entries at or below the recovered index must not be delivered again
	if img.Applied > c.lastIndex {
		c.lastIndex = img.Applied
	}
	c.recovered = true
}

func (c *kvCore) close() error {
	c.enterExclusive("Close", &c.inClose)
	c.widen()
	atomic.StoreInt32(&c.closed, 1)
	// (Close must not change the state visible to Lookup - documented for all three
	// state machine interfaces - so the test state machines keep their data)
	atomic.AddInt32(&c.inClose, -1)
	return nil
}

// SnapshotPad makes snapshot files larger (bytes appended to every image).
var SnapshotPad int32

// ---- regular ----------------------------------------------------------------

type RegularKV struct{ c *kvCore }

func (s *RegularKV) Update(e sm.Entry) (sm.Result, error) {
	s.c.enterExclusive("Update", &s.c.inUpdate)
	defer atomic.AddInt32(&s.c.inUpdate, -1)
	s.c.widen()
	return s.c.applyOne(e.Index, e.Cmd), nil
}
func (s *RegularKV) Lookup(q interface{}) (interface{}, error) { return s.c.lookup(q) }

// NALookup (statemachine.IExtended): the no-allocation read path, same contract as Lookup.
func (s *RegularKV) NALookup(q []byte) ([]byte, error) { return s.c.naLookup(q) }
func (s *RegularKV) SaveSnapshot(w io.Writer, fc sm.ISnapshotFileCollection, stop <-chan struct{}) error {
	s.c.enterShared("SaveSnapshot", &s.c.inSave)
	defer atomic.AddInt32(&s.c.inSave, -1)
	s.c.rec.hook("sm-save-enter", s.c.name)
	defer s.c.rec.hook("sm-save-exit", s.c.name)
	s.c.widen()
	img := s.c.image()
	s.c.rec.saveImage(s.c.name, img)
	return writeImage(w, img, int(atomic.LoadInt32(&SnapshotPad)))
}
func (s *RegularKV) RecoverFromSnapshot(r io.Reader, files []sm.SnapshotFile, stop <-chan struct{}) error {
	s.c.enterExclusive("RecoverFromSnapshot", &s.c.inRecover)
	defer atomic.AddInt32(&s.c.inRecover, -1)
	s.c.rec.hook("sm-recover-enter", s.c.name)
	defer s.c.rec.hook("sm-recover-exit", s.c.name)
	s.c.widen()
	img, err := readImage(r)
	if err != nil {
		return err
	}
	s.c.install(img)
	return nil
}
func (s *RegularKV) Close() error { return s.c.close() }

// ---- concurrent -------------------------------------------------------------

type ConcurrentKV struct{ c *kvCore }

func (s *ConcurrentKV) Update(es []sm.Entry) ([]sm.Entry, error) {
	s.c.enterExclusive("Update", &s.c.inUpdate)
	defer atomic.AddInt32(&s.c.inUpdate, -1)
	s.c.widen()
	for i := range es {
		es[i].Result = s.c.applyOne(es[i].Index, es[i].Cmd)
	}
	return es, nil
}
func (s *ConcurrentKV) Lookup(q interface{}) (interface{}, error) { return s.c.lookup(q) }
func (s *ConcurrentKV) NALookup(q []byte) ([]byte, error)        { return s.c.naLookup(q) }
func (s *ConcurrentKV) PrepareSnapshot() (interface{}, error) {
	s.c.enterExclusive("PrepareSnapshot", &s.c.inPrepare)
	defer atomic.AddInt32(&s.c.inPrepare, -1)
	s.c.rec.hook("sm-prepare-enter", s.c.name)
	defer s.c.rec.hook("sm-prepare-exit", s.c.name)
	// PrepareSnapshot takes longer than one Update call, before and after it picks its
	// point in time: whatever is (wrongly) allowed to run beside it shows up as a
	// difference between the captured image and the index the snapshot is stamped with
	s.c.widen()
	img := s.c.image()
	s.c.widen()
	s.c.widen()
	return img, nil
}
func (s *ConcurrentKV) SaveSnapshot(ctx interface{}, w io.Writer, fc sm.ISnapshotFileCollection, stop <-chan struct{}) error {
	s.c.enterShared("SaveSnapshot", &s.c.inSave)
	defer atomic.AddInt32(&s.c.inSave, -1)
	s.c.rec.hook("sm-save-enter", s.c.name)
	defer s.c.rec.hook("sm-save-exit", s.c.name)
	s.c.widen()
	s.c.rec.saveImage(s.c.name, ctx.(kvImage))
	return writeImage(w, ctx.(kvImage), int(atomic.LoadInt32(&SnapshotPad)))
}
func (s *ConcurrentKV) RecoverFromSnapshot(r io.Reader, files []sm.SnapshotFile, stop <-chan struct{}) error {
	s.c.enterExclusive("RecoverFromSnapshot", &s.c.inRecover)
	defer atomic.AddInt32(&s.c.inRecover, -1)
	s.c.rec.hook("sm-recover-enter", s.c.name)
	defer s.c.rec.hook("sm-recover-exit", s.c.name)
	img, err := readImage(r)
	if err != nil {
		return err
	}
	s.c.install(img)
	return nil
}
func (s *ConcurrentKV) Close() error { return s.c.close() }

// ---- on disk ----------------------------------------------------------------

type OnDiskKV struct{ c *kvCore }

func (s *OnDiskKV) Open(stop <-chan struct{}) (uint64, error) {
	s.c.afterClose("Open")
	s.c.rec.count("Open")
	d := s.c.disk
	d.mu.Lock()
	defer d.mu.Unlock()
	// a restart without power cut keeps the working copy (the process wrote it to
	// its files); the harness calls DiskImage.PowerCut for power failures
	s.c.mu.Lock()
	s.c.data = map[string]string{}
	for k, v := range d.Work {
		s.c.data[k] = v
	}
	s.c.applied = d.WorkI
	s.c.count = d.WorkC
	s.c.mu.Unlock()
	s.c.openIdx = d.WorkI
	s.c.lastIndex = d.WorkI
	return d.WorkI, nil
}
func (s *OnDiskKV) Update(es []sm.Entry) ([]sm.Entry, error) {
	s.c.enterExclusive("Update", &s.c.inUpdate)
	defer atomic.AddInt32(&s.c.inUpdate, -1)
	s.c.widen()
	for i := range es {
		es[i].Result = s.c.applyOne(es[i].Index, es[i].Cmd)
	}
	return es, nil
}
func (s *OnDiskKV) Lookup(q interface{}) (interface{}, error) { return s.c.lookup(q) }
func (s *OnDiskKV) NALookup(q []byte) ([]byte, error)        { return s.c.naLookup(q) }
func (s *OnDiskKV) Sync() error {
	s.c.enterExclusive("Sync", &s.c.inSync)
	defer atomic.AddInt32(&s.c.inSync, -1)
	if s.c.recovered {
		// the Sync that makes a just recovered image durable (node.recover syncs before
		// it shrinks the snapshot the image came from)
		s.c.recovered = false
		s.c.rec.hook("sm-sync-after-recover-enter", s.c.name)
		defer s.c.rec.hook("sm-sync-after-recover-exit", s.c.name)
	}
	d := s.c.disk
	d.mu.Lock()
	defer d.mu.Unlock()
	if d.Off != nil && d.Off() {
		return nil
	}
	d.Synced = map[string]string{}
	for k, v := range d.Work {
		d.Synced[k] = v
	}
	d.SyncedI = d.WorkI
	d.SyncedC = d.WorkC
	return nil
}
func (s *OnDiskKV) PrepareSnapshot() (interface{}, error) {
	s.c.enterExclusive("PrepareSnapshot", &s.c.inPrepare)
	defer atomic.AddInt32(&s.c.inPrepare, -1)
	s.c.rec.hook("sm-prepare-enter", s.c.name)
	defer s.c.rec.hook("sm-prepare-exit", s.c.name)
	// PrepareSnapshot takes longer than one Update call, before and after it picks its
	// point in time: whatever is (wrongly) allowed to run beside it shows up as a
	// difference between the captured image and the index the snapshot is stamped with
	s.c.widen()
	img := s.c.image()
	s.c.widen()
	s.c.widen()
	return img, nil
}
func (s *OnDiskKV) SaveSnapshot(ctx interface{}, w io.Writer, stop <-chan struct{}) error {
	s.c.enterShared("SaveSnapshot", &s.c.inSave)
	defer atomic.AddInt32(&s.c.inSave, -1)
	s.c.rec.hook("sm-save-enter", s.c.name)
	defer s.c.rec.hook("sm-save-exit", s.c.name)
	s.c.widen()
	s.c.rec.saveImage(s.c.name, ctx.(kvImage))
	return writeImage(w, ctx.(kvImage), int(atomic.LoadInt32(&SnapshotPad)))
}
func (s *OnDiskKV) RecoverFromSnapshot(r io.Reader, stop <-chan struct{}) error {
	s.c.enterExclusive("RecoverFromSnapshot", &s.c.inRecover)
	defer atomic.AddInt32(&s.c.inRecover, -1)
	s.c.rec.hook("sm-recover-enter", s.c.name)
	defer s.c.rec.hook("sm-recover-exit", s.c.name)
	img, err := readImage(r)
	if err != nil {
		return err
	}
	s.c.install(img)
	return nil
}
func (s *OnDiskKV) Close() error { return s.c.close() }
