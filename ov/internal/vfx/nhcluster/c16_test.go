package nhcluster

import (
	"context"
	"encoding/json"
	"fmt"
	"io"
	"os"
	"regexp"
	"sort"
	"strconv"
	"strings"
	"sync"
	"sync/atomic"
	"testing"
	"time"

	"pgregory.net/rapid"

	dragonboat "github.com/lni/dragonboat/v4"

	"github.com/lni/dragonboat/v4/internal/fileutil"
	"github.com/lni/dragonboat/v4/internal/rsm"
	"github.com/lni/dragonboat/v4/internal/server"
	"github.com/lni/dragonboat/v4/internal/vfhelp"
	"github.com/lni/dragonboat/v4/raftio"
	pb "github.com/lni/dragonboat/v4/raftpb"
)

// C16 end to end: a host loses power at a generated *event* instant of a
// snapshot heavy workload (state machine SaveSnapshot/RecoverFromSnapshot entry
// or exit, snapshot record save in the log store, k-th snapshot chunk, snapshot
// or compaction system event). From that instant nothing becomes durable and
// nothing leaves the host; the process is then torn down, unsynced data dropped,
// the NodeHost restarted and the start-up cleanup inspected.

type c16Plan struct {
	Kind        KVKind
	Tan         bool
	Event       int
	K           int
	Victim      int
	SnapEntries uint64
	Overhead    uint64
	Writes      int
	LagVictim   bool
	Pad         int
	SecondCrash bool
	SaveDelayMs int
	PreVote     bool // an isolated replica does not inflate its term: the snapshot arrives in the term it already voted in
	Exports     bool // snapshots are exported (to a user directory, not recorded in the log store) while the workload runs
}

var c16Events = []string{"sm-save-enter", "sm-save-exit", "sm-recover-enter", "sm-recover-exit", "logdb-snapshot-record-before",
	"logdb-snapshot-record-after", "chunk", "sys-snapshot-created", "sys-snapshot-received", "sys-snapshot-recovered",
	"sys-snapshot-compacted", "sys-log-compacted",
	// state dependent instant: a snapshot record has just become durable at an index
	// above the commit index of the durable raft state
	"snapshot-record-ahead-of-durable-commit",
	// on-disk state machines: the Sync that makes a just recovered image durable
	"sm-sync-after-recover-enter", "sm-sync-after-recover-exit"}

type sysListener struct {
	host string
	tr   *trigger
}

func (l *sysListener) NodeHostShuttingDown()                            {}
func (l *sysListener) NodeUnloaded(info raftio.NodeInfo)               {}
func (l *sysListener) NodeDeleted(info raftio.NodeInfo)                {}
func (l *sysListener) NodeReady(info raftio.NodeInfo)                  {}
func (l *sysListener) MembershipChanged(info raftio.NodeInfo)          {}
func (l *sysListener) ConnectionEstablished(info raftio.ConnectionInfo) {}
func (l *sysListener) ConnectionFailed(info raftio.ConnectionInfo)     {}
func (l *sysListener) SendSnapshotStarted(info raftio.SnapshotInfo)    {}
func (l *sysListener) SendSnapshotCompleted(info raftio.SnapshotInfo)  {}
func (l *sysListener) SendSnapshotAborted(info raftio.SnapshotInfo)    {}
func (l *sysListener) SnapshotReceived(info raftio.SnapshotInfo)       { l.tr.fire("sys-snapshot-received", l.host) }
func (l *sysListener) SnapshotRecovered(info raftio.SnapshotInfo)      { l.tr.fire("sys-snapshot-recovered", l.host) }
func (l *sysListener) SnapshotCreated(info raftio.SnapshotInfo)        { l.tr.fire("sys-snapshot-created", l.host) }
func (l *sysListener) SnapshotCompacted(info raftio.SnapshotInfo)      { l.tr.fire("sys-snapshot-compacted", l.host) }
func (l *sysListener) LogCompacted(info raftio.EntryInfo)              { l.tr.fire("sys-log-compacted", l.host) }
func (l *sysListener) LogDBCompacted(info raftio.EntryInfo)            {}

var snapDirPartsRe = regexp.MustCompile(`^snapshot-([0-9A-F]+)$`)

// inspectSnapshotDirs walks the host's directory tree after the start-up cleanup.
func inspectSnapshotDirs(h *Host) (finals []uint64, problems []string) {
	var walk func(dir string)
	walk = func(dir string) {
		names, err := h.FS.List(dir)
		if err != nil {
			return
		}
		sort.Strings(names)
		for _, n := range names {
			p := h.FS.PathJoin(dir, n)
			fi, err := h.FS.Stat(p)
			if err != nil || !fi.IsDir() {
				continue
			}
			switch {
			case server.GenSnapshotDirNameRe.MatchString(n), server.RecvSnapshotDirNameRe.MatchString(n):
				problems = append(problems, "temporary snapshot directory left behind: "+p)
			case server.SnapshotDirNameRe.MatchString(n):
				m := snapDirPartsRe.FindStringSubmatch(n)
				idx, _ := strconv.ParseUint(m[1], 16, 64)
				finals = append(finals, idx)
				files, _ := h.FS.List(p)
				hasFile, hasMeta := "", false
				for _, f := range files {
					if f == fileutil.SnapshotFlagFilename {
						problems = append(problems, "flag file left in "+p)
					}
					if strings.HasSuffix(f, "."+server.SnapshotFileSuffix) {
						hasFile = h.FS.PathJoin(p, f)
					}
					if f == server.MetadataFilename {
						hasMeta = true
					}
				}
				_ = hasMeta
				if hasFile == "" {
					problems = append(problems, "snapshot directory without snapshot file: "+p)
				} else if why := validateSnapshotFile(h, hasFile); why != "" {
					problems = append(problems, "snapshot file "+hasFile+" invalid: "+why)
				}
			default:
				walk(p)
			}
		}
	}
	walk(h.Dir)
	return finals, problems
}

func validateSnapshotFile(h *Host, fp string) (why string) {
	defer func() {
		if p := recover(); p != nil {
			why = fmt.Sprintf("panic while reading: %v", p)
		}
	}()
	shrunk, err := rsm.IsShrunkSnapshotFile(fp, h.FS)
	if err != nil {
		return err.Error()
	}
	if shrunk {
		return ""
	}
	r, _, err := rsm.NewSnapshotReader(fp, h.FS)
	if err != nil {
		return err.Error()
	}
	defer r.Close()
	if _, err := io.Copy(io.Discard, r); err != nil {
		return err.Error()
	}
	return ""
}

func TestVF_C16_Cluster(t *testing.T) {
	st := vfhelp.NewStats("TestVF_C16_Cluster",
		"E6: snapshot heavy workload (small SnapshotEntries/CompactionOverhead, lagging follower receiving a snapshot) on real NodeHosts; "+
			"power cut of one host at a generated event instant (SM SaveSnapshot/RecoverFromSnapshot entry/exit, snapshot record save before/after, "+
			"k-th chunk, snapshot/compaction system events); restart and inspect the directory tree, then the history must stay linearizable; "+
			"non-trivial = the trigger fired and the host was restarted; distinct = hash of the plan")
	defer st.Flush()
	rapid.Check(t, func(t *rapid.T) {
		p := c16Plan{
			Kind:        KVKind(vfhelp.PickN(t, "kind", 3)),
			Tan:         vfhelp.Pick(t, "tan", 1) == 1,
			Event:       vfhelp.PickN(t, "event", len(c16Events)),
			K:           1 + vfhelp.PickN(t, "k", 3),
			Victim:      vfhelp.PickN(t, "victim", 3),
			SnapEntries: uint64(3 + vfhelp.PickN(t, "snapentries", 5)),
			Overhead:    uint64(1 + vfhelp.PickN(t, "overhead", 3)),
			Writes:      40 + vfhelp.PickN(t, "writes", 60),
			LagVictim:   vfhelp.Pick(t, "lag", 1) == 1,
			Pad:         []int{0, 3000, 70000, 300000}[vfhelp.Pick(t, "pad", 2)],
			SecondCrash: vfhelp.Pick(t, "second", 2) == 0,
			PreVote:     vfhelp.Pick(t, "prevote", 1) == 1,
			Exports:     vfhelp.Pick(t, "exports", 1) == 1,
		}
		if vfhelp.Pick(t, "savedelay", 1) == 1 {
			// a slow log store on every host: the step worker's SaveRaftState lags behind
			// the apply and snapshot workers
			p.SaveDelayMs = 1 + vfhelp.PickN(t, "savedelayms", 8)
		}
		if vfhelp.Pick(t, "recvpath", 1) == 1 {
			// half of the cases aim at the receive path of a lagging replica: chunks, the
			// snapshot record saved by the step worker, flag file removal, recover
			p.Event = []int{2, 3, 5, 5, 6, 8, 9, 9}[vfhelp.Pick(t, "recvevent", 3)]
			p.LagVictim = true
			if p.Kind == KindOnDisk && vfhelp.Pick(t, "syncafterrecover", 1) == 1 {
				// on-disk state machines: the window between RecoverFromSnapshot and the Sync that
				// makes the recovered image durable (the received snapshot is shrunk afterwards)
				p.Event = 13 + vfhelp.Pick(t, "syncexit", 1)
			}
		}
		ev := c16Events[p.Event]
		if strings.Contains(ev, "recover") || strings.Contains(ev, "received") || ev == "chunk" {
			if strings.HasPrefix(ev, "sm-sync-after-recover") {
				p.Kind = KindOnDisk
			}
			p.LagVictim = true // these events only happen on a replica that receives a snapshot
			if ev != "chunk" || p.Pad < 70000 {
				p.K = 1 // and only once
			}
		}
		canon, _ := json.Marshal(p)
		labels, nt, sample := runC16(t, st, p)
		if labels == nil {
			return
		}
		st.Case(canon, nt, labels...)
		if nt && st.WantSample() {
			st.Sample(sample)
		}
	})
}

// TestVF_C16_SnapshotAheadOfState aims the same machinery at one window: the log
// store is slow (SaveRaftState of the step worker takes several ms) while the
// apply and snapshot workers run ahead (committed entries are handed to the apply
// worker before the update that carries the new commit index is saved), and the
// power fails right after the snapshot record was made durable.
func TestVF_C16_SnapshotAheadOfState(t *testing.T) {
	st := vfhelp.NewStats("TestVF_C16_SnapshotAheadOfState",
		"E6: slow log store (generated SaveRaftState delay), small SnapshotEntries, power cut of one host right after its k-th snapshot record "+
			"became durable; the host must restart; non-trivial = the trigger fired and the host was restarted; distinct = hash of the plan")
	defer st.Flush()
	rapid.Check(t, func(t *rapid.T) {
		p := c16Plan{
			Kind:        KVKind(vfhelp.PickN(t, "kind", 3)),
			Tan:         vfhelp.Pick(t, "tan", 1) == 1,
			Event:       []int{5, 12, 12, 12}[vfhelp.Pick(t, "event", 2)], // logdb-snapshot-record-after | snapshot-record-ahead-of-durable-commit
			K:           1 + vfhelp.PickN(t, "k", 4),
			Victim:      vfhelp.PickN(t, "victim", 3),
			SnapEntries: uint64(2 + vfhelp.PickN(t, "snapentries", 5)),
			Overhead:    uint64(1 + vfhelp.PickN(t, "overhead", 3)),
			Writes:      40 + vfhelp.PickN(t, "writes", 60),
			SaveDelayMs: 2 + vfhelp.PickN(t, "savedelayms", 30),
		}
		if p.Event == 12 {
			p.K = 1
			if p.Kind == KindRegular {
				// the apply worker of a regular state machine is parked while a snapshot is saved
				p.Kind = KindConcurrent
			}
		}
		canon, _ := json.Marshal(p)
		labels, nt, sample := runC16(t, st, p)
		if labels == nil {
			return
		}
		st.Case(canon, nt, labels...)
		if nt && st.WantSample() {
			st.Sample(sample)
		}
	})
}

func runC16(t *rapid.T, st *vfhelp.Stats, p c16Plan) ([]string, bool, interface{}) {
	rec := NewRecorder()
	SnapshotPad = int32(p.Pad)
	defer func() { SnapshotPad = 0 }()
	c := NewCluster(ClusterOptions{Hosts: 3, Tan: p.Tan, Seed: 5, RTTms: 2})
	defer c.Close()
	ev := c16Events[p.Event]
	victim := c.Hosts[p.Victim]
	tr := &trigger{event: ev, host: victim.Addr, k: int32(p.K), c: c, ch: make(chan struct{})}
	labels := []string{"event-" + ev, "kind-" + p.Kind.String()}
	inconclusive := func(why string) ([]string, bool, interface{}) {
		st.Count("inconclusive-"+why, 1)
		return nil, false, nil
	}
	res := &Result{Rec: rec, Flags: map[string]int{}, Cluster: c}
	res.sent = newSendMonitor(res, c)
	c.Net.OnSend = res.sent.onSend
	var chunks int32
	c.Net.OnChunk = func(from, to string, ck pb.Chunk) { atomic.AddInt32(&chunks, 1); tr.fire("chunk", to) }
	rec.Hook = func(event string, name string) {
		// name is "shard/replica"; replica r runs on host r-1
		parts := strings.Split(name, "/")
		if len(parts) == 2 {
			if rid, err := strconv.Atoi(parts[1]); err == nil && rid >= 1 && rid <= len(c.Hosts) {
				tr.fire(event, c.Hosts[rid-1].Addr)
			}
		}
	}
	spec := NewShardSpec(shardID, p.Kind, rec)
	members := c.Members(3)
	cfgOf := func(rid uint64) dragonboatCfg {
		cfg := ShardConfig(shardID, rid)
		cfg.SnapshotEntries = p.SnapEntries
		cfg.CompactionOverhead = p.Overhead
		cfg.PreVote = p.PreVote
		return dragonboatCfg{cfg}
	}
	for _, h := range c.Hosts {
		h := h
		h.SysListener = &sysListener{host: h.Addr, tr: tr}
		h.Mon.BeforeSave = func(host string, uds []pb.Update) {
			for _, ud := range uds {
				if !pb.IsEmptySnapshot(ud.Snapshot) {
					tr.fire("logdb-snapshot-record-before", host)
				}
			}
		}
		h.Mon.AfterSave = func(host string, uds []pb.Update) {
			for _, ud := range uds {
				if !pb.IsEmptySnapshot(ud.Snapshot) {
					tr.fire("logdb-snapshot-record-after", host)
				}
			}
		}
		h.Mon.OnSaveSnapshots = func(host string, before bool) {
			if before {
				tr.fire("logdb-snapshot-record-before", host)
			} else {
				tr.fire("logdb-snapshot-record-after", host)
				if d := h.Mon.Get(shardID, uint64(h.Idx+1)); d.SnapIndex > d.State.Commit {
					tr.fire("snapshot-record-ahead-of-durable-commit", host)
				}
			}
		}
		if p.SaveDelayMs > 0 {
			d := time.Duration(p.SaveDelayMs) * time.Millisecond
			h.Mon.SaveDelay = func() time.Duration { return d }
		}
		h.Mon.OnViolation = res.violate
		if err := h.Start(); err != nil {
			return inconclusive("start")
		}
		if err := h.StartReplica(spec, members, false, cfgOf(uint64(h.Idx+1)).Config); err != nil {
			return inconclusive("startreplica")
		}
	}
	if _, ok := c.WaitLeader(shardID, 10*time.Second); !ok {
		return inconclusive("no-leader")
	}

	var hostMu sync.RWMutex
	var lagging int32
	var opMu sync.Mutex
	addOp := func(op *Op) {
		opMu.Lock()
		op.ID = len(res.Ops)
		res.Ops = append(res.Ops, op)
		opMu.Unlock()
	}
	var valCtr int64
	stop := make(chan struct{})
	var wg sync.WaitGroup
	for ci := 0; ci < 3; ci++ {
		wg.Add(1)
		go func(ci int) {
			defer wg.Done()
			for i := 0; i < p.Writes/3; i++ {
				select {
				case <-stop:
					return
				default:
				}
				hostMu.RLock()
				h := c.Hosts[(ci+i)%3]
				if atomic.LoadInt32(&lagging) == 1 && h == victim {
					// clients do not wait for the timeout of a host that is cut off
					h = c.Hosts[(ci+i+1)%3]
				}
				nh, up := h.NH, h.Up
				hostMu.RUnlock()
				if !up {
					time.Sleep(time.Millisecond)
					continue
				}
				key := fmt.Sprintf("k%d", i%3)
				if i%4 == 3 {
					op := &Op{Client: ci, Host: h.Idx, Key: key, Call: Now(), Mode: "syncread"}
					addOp(op)
					ctx, cancel := context.WithTimeout(context.Background(), 300*time.Millisecond)
					v, err := nh.SyncRead(ctx, shardID, key)
					cancel()
					if err == nil {
						op.Val, _ = v.(string)
					}
					op.Outcome, op.Ret = classifyErr(err), Now()
					continue
				}
				val := fmt.Sprintf("c%dv%d", ci, atomic.AddInt64(&valCtr, 1))
				op := &Op{Client: ci, Host: h.Idx, Write: true, Key: key, Val: val, Call: Now(), Mode: "syncpropose"}
				addOp(op)
				ctx, cancel := context.WithTimeout(context.Background(), 300*time.Millisecond)
				_, err := nh.SyncPropose(ctx, nh.GetNoOPSession(shardID), []byte("P|"+key+"|"+val))
				cancel()
				op.Outcome, op.Ret = classifyErr(err), Now()
				if err == nil {
					res.flag("write-completed")
				}
			}
		}(ci)
	}
	// the victim lags for a while so that it needs a snapshot from the leader
	if p.LagVictim {
		for _, h := range c.Hosts {
			if h != victim {
				c.Net.SetDown(h.Addr, victim.Addr, true)
				c.Net.SetDown(victim.Addr, h.Addr, true)
			}
		}
		// long enough for the others to snapshot and compact past the victim's log
		atomic.StoreInt32(&lagging, 1)
		appliedOf := func() uint64 {
			var best uint64
			for _, h := range c.Hosts {
				if h != victim && h.Up {
					if v, err := h.NH.StaleRead(shardID, "\x00applied"); err == nil {
						if a, _ := v.(uint64); a > best {
							best = a
						}
					}
				}
			}
			return best
		}
		start := appliedOf()
		need := p.SnapEntries + p.Overhead + 4
		for dl := time.Now().Add(2 * time.Second); time.Now().Before(dl) && appliedOf() < start+need; {
			time.Sleep(2 * time.Millisecond)
		}
		if appliedOf() >= start+need {
			labels = append(labels, "victim-lagged-behind-compaction")
		}
		atomic.StoreInt32(&lagging, 0)
		c.Net.HealAll()
		labels = append(labels, "victim-lagged")
	}
	if p.Exports {
		labels = append(labels, "exports")
		wg.Add(1)
		go func() {
			defer wg.Done()
			for n := 0; n < 6; n++ {
				select {
				case <-stop:
					return
				case <-time.After(20 * time.Millisecond):
				}
				hostMu.RLock()
				h := c.Hosts[n%3]
				if h.Up {
					dir := fmt.Sprintf("/export-%d", n)
					_ = h.FS.MkdirAll(dir, 0o755)
					if rs, err := h.NH.RequestSnapshot(shardID, dragonboat.SnapshotOption{Exported: true, ExportPath: dir}, time.Second); err == nil {
						go func() { <-rs.ResultC(); rs.Release() }()
					}
				}
				hostMu.RUnlock()
			}
		}()
	}
	doneC := make(chan struct{})
	go func() { wg.Wait(); close(doneC) }()
	fired := false
	crashAndInspect := func() {
		hostMu.Lock()
		defer hostMu.Unlock()
		// power is already off (trigger); tear the process down and drop unsynced data
		victim.NH.Close()
		victim.FS.ResetToSyncedState()
		victim.FS.SetIgnoreSyncs(false)
		NormalizeNames(victim.FS, "/")
		victim.Mon.Freeze(false)
		victim.Up = false
		if p.Kind == KindOnDisk {
			spec.Disk(shardID, uint64(victim.Idx+1)).PowerCut()
		}
		acked := victim.Mon.Get(shardID, uint64(victim.Idx+1)).SnapIndex
		preFinals, preProblems := inspectSnapshotDirs(victim)
		t.Logf("after reset, before restart: finals %v problems %v", preFinals, preProblems)
		if os.Getenv("VF_PLAN_DEBUG") != "" {
			fmt.Printf("DEBUG after reset: acked snapshot %d durable-shadow %+v finals %v problems %v\n", acked, victim.Mon.Get(shardID, uint64(victim.Idx+1)).State, preFinals, preProblems)
		}
		// restart while still cut off from the network, so that the directory tree is
		// exactly what the start-up cleanup left
		nh, err := newNodeHostIsolated(victim)
		if err != nil {
			vfhelp.Fail(t, "restart-failed", "NewNodeHost after power cut at %s: %v", ev, err)
		}
		victim.NH, victim.Up = nh, true
		victim.Inc++
		// no automatic snapshots in the new incarnation: every temporary directory
		// found below is then a leftover of the crash, not work in progress
		rcfg := cfgOf(uint64(victim.Idx + 1)).Config
		rcfg.SnapshotEntries = 0
		if err := victim.StartReplica(spec, members, false, rcfg); err != nil {
			d := victim.Mon.Get(shardID, uint64(victim.Idx+1))
			// fatal unless the signature is a listed known finding
			st.Known(t, restartSig(err), "StartReplica after power cut at %s: %v (snapshot record %d, durable state %+v)", ev, err, d.SnapIndex, d.State)
			c.Net.SetDead(victim.Addr, false)
			return
		}
		finals, problems := inspectSnapshotDirs(victim)
		if os.Getenv("VF_PLAN_DEBUG") != "" {
			fmt.Printf("DEBUG after restart: finals %v problems %v\n", finals, problems)
		}
		for _, pr := range problems {
			vfhelp.Fail(t, "snapshot-dir-not-clean-after-restart", "after power cut at %s (k=%d): %s (final dirs %v, acknowledged snapshot %d)", ev, p.K, pr, finals, acked)
		}
		newest := uint64(0)
		for _, f := range finals {
			if f > newest {
				newest = f
			}
		}
		if acked > 0 && newest < acked {
			vfhelp.Fail(t, "acknowledged-snapshot-missing-after-restart", "after power cut at %s: snapshot %d was recorded in the log store, newest directory on disk is %d (%v)", ev, acked, newest, finals)
		}
		if len(finals) > 1 {
			vfhelp.Fail(t, "snapshot-dir-not-clean-after-restart", "after power cut at %s: %d snapshot directories remain after start-up cleanup: %v", ev, len(finals), finals)
		}
		c.Net.SetDead(victim.Addr, false)
		res.flag("restart")
	}
	select {
	case <-tr.ch:
		fired = true
	case <-doneC:
		// the clients are done; events still in the pipeline (a snapshot on its way to
		// the lagging victim, a compaction) get a grace period, then the trigger is disarmed
		select {
		case <-tr.ch:
			fired = true
		case <-time.After(1500 * time.Millisecond):
			if !atomic.CompareAndSwapInt32(&tr.fired, 0, 1) {
				<-tr.ch
				fired = true
			}
		}
	case <-time.After(40 * time.Second):
	}
	if fired {
		labels = append(labels, "trigger-fired", "fired-"+ev)
		crashAndInspect()
	}
	select {
	case <-doneC:
	case <-time.After(40 * time.Second):
		close(stop)
		<-doneC
	}
	c.Net.HealAll()
	res.Plan = Plan{Keys: 3}
	res.finalReads(Plan{Keys: 3})
	res.CheckLinearizable()
	res.CheckStreams()
	for _, v := range res.AllViolations() {
		if strings.HasPrefix(v.Sig, "harness-") {
			return inconclusive(v.Sig)
		}
		if v.Sig == "linearizability-violated" || v.Sig == "completed-request-never-applied" || v.Sig == "replicas-applied-different-entries" ||
			v.Sig == "restart-failed" || v.Sig == "restart-panics-commit-outside-log-range" || v.Sig == "log-compacted-beyond-durable-snapshot" || v.Sig == "update-index-not-increasing" || v.Sig == "ondisk-update-at-or-below-open-index" {
			vfhelp.Fail(t, v.Sig, "after power cut at %s (fired %v): %s", ev, fired, v.Msg)
		}
		st.Count("foreign-violation:"+v.Sig, 1)
	}
	for k := range res.Flags {
		labels = append(labels, k)
	}
	rec.mu.Lock()
	if rec.CallCount["RecoverFromSnapshot"] > 0 {
		labels = append(labels, "sm-recovered-from-snapshot")
	}
	if rec.CallCount["SaveSnapshot"] > 0 {
		labels = append(labels, "sm-saved-snapshot")
	}
	rec.mu.Unlock()
	if atomic.LoadInt32(&chunks) > 0 {
		labels = append(labels, "chunks-sent")
	}
	sort.Strings(labels)
	sample := map[string]interface{}{"event": ev, "k": p.K, "victim": p.Victim, "kind": p.Kind.String(), "tan": p.Tan,
		"snapshot_entries": p.SnapEntries, "overhead": p.Overhead, "ops": len(res.Ops), "fired": fired}
	return labels, fired, sample
}
