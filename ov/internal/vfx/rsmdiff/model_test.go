package rsmdiff

import (
	"fmt"

	pb "github.com/lni/dragonboat/v4/raftpb"
	sm "github.com/lni/dragonboat/v4/statemachine"
)

// ------------------------------------------------------------------------
// Reference model of client sessions, written from the API documentation
// (client.Session, NodeHost.Propose / ProposeSession / SyncGetSession) and the
// property text, not from internal/rsm. It is policy agnostic about eviction:
// an over-capacity register creates "one unknown victim"; the victim is learnt
// from the first observation that shows it.

type expect int

const (
	exEmpty       expect = iota // raft no-op
	exCC                        // config change
	exSessionOK                 // register / unregister did what it says
	exSessionFail               // register of a live id / unregister of an unknown id
	exApplied                   // reaches the user SM once
	exCached                    // completed retry: cached result, SM untouched
	exAcked                     // at or below the acknowledged watermark: ignored
	exRejected                  // no such session: Rejected, SM untouched
)

func (e expect) String() string {
	return [...]string{"empty", "cc", "session-ok", "session-fail", "applied", "cached", "acked", "rejected"}[e]
}

type verdict struct {
	Exp         expect
	VictimFound bool // this observation revealed an evicted session
	Overflow    bool // this register pushed the table over its limit
	Reborn      bool // register of an id that had a session before
	SessInc     int  // incarnation of the session the entry belongs to
}

type mSess struct {
	wm    uint64               // acknowledged watermark
	cache map[uint64]sm.Result // completed, unacknowledged series
	inc   int
}

type sessModel struct {
	limit   int
	live    map[uint64]*mSess
	incs    map[uint64]int
	victims int
	ref     kv
	applied []upd
	// statistics
	victimByProposal int
	overflows        int
}

func newSessModel(limit int) *sessModel {
	return &sessModel{limit: limit, live: make(map[uint64]*mSess), incs: make(map[uint64]int)}
}

func emptyResult(r sm.Result) bool { return r.Value == 0 && len(r.Data) == 0 }

func (m *sessModel) addSession(c uint64, v *verdict) {
	if m.incs[c] > 0 {
		v.Reborn = true
	}
	m.incs[c]++
	m.live[c] = &mSess{cache: make(map[uint64]sm.Result), inc: m.incs[c]}
	v.SessInc = m.incs[c]
	if len(m.live)-m.victims > m.limit {
		m.victims++
		m.overflows++
		v.Overflow = true
	}
}

func (m *sessModel) foundVictim(c uint64, v *verdict) bool {
	if m.victims == 0 {
		return false
	}
	m.victims--
	delete(m.live, c)
	v.VictimFound = true
	return true
}

// step consumes one log entry together with what the node observed for it
// and returns the classification or a violation (sig != "").
func (m *sessModel) step(idx uint64, em entMeta, outs []outcome) (v verdict, sig string, msg string) {
	if len(outs) > 1 {
		return v, "entry-notified-twice", fmt.Sprintf("index %d: %v", idx, outs)
	}
	var o *outcome
	if len(outs) == 1 {
		o = &outs[0]
	}
	need := func() bool {
		if o == nil {
			sig, msg = "entry-without-outcome", fmt.Sprintf("index %d %v: node was never notified", idx, em)
			return false
		}
		return true
	}
	c := em.Client
	switch em.Kind {
	case ekEmpty:
		v.Exp = exEmpty
		if !need() {
			return
		}
		if o.Kind != "update" || !o.Ignored || o.Rejected || !emptyResult(o.Result) {
			return v, "noop-entry-outcome", fmt.Sprintf("index %d: %v", idx, *o)
		}
	case ekBootstrap, ekCC:
		v.Exp = exCC
		if !need() {
			return
		}
		if o.Kind != "cc" {
			return v, "cc-entry-outcome", fmt.Sprintf("index %d: %v", idx, *o)
		}
	case ekRegister:
		if !need() {
			return
		}
		if o.Kind != "update" || o.Ignored {
			return v, "register-outcome-kind", fmt.Sprintf("index %d: %v", idx, *o)
		}
		ok := o.Result.Value == c && !o.Rejected && len(o.Result.Data) == 0
		fail := emptyResult(o.Result) && o.Rejected
		if !ok && !fail {
			return v, "register-result-malformed", fmt.Sprintf("index %d client %x: %v", idx, c, *o)
		}
		if _, live := m.live[c]; live {
			if ok {
				if !m.foundVictim(c, &v) {
					return v, "register-of-live-session-accepted", fmt.Sprintf("index %d client %x: %v", idx, c, *o)
				}
				v.Exp = exSessionOK
				m.addSession(c, &v)
			} else {
				v.Exp = exSessionFail
				v.SessInc = m.live[c].inc
			}
		} else {
			if !ok {
				return v, "register-of-unknown-client-refused", fmt.Sprintf("index %d client %x: %v", idx, c, *o)
			}
			v.Exp = exSessionOK
			m.addSession(c, &v)
		}
	case ekUnregister:
		if !need() {
			return
		}
		if o.Kind != "update" || o.Ignored {
			return v, "unregister-outcome-kind", fmt.Sprintf("index %d: %v", idx, *o)
		}
		ok := o.Result.Value == c && !o.Rejected && len(o.Result.Data) == 0
		fail := emptyResult(o.Result) && o.Rejected
		if !ok && !fail {
			return v, "unregister-result-malformed", fmt.Sprintf("index %d client %x: %v", idx, c, *o)
		}
		if s, live := m.live[c]; live {
			v.SessInc = s.inc
			if ok {
				v.Exp = exSessionOK
				delete(m.live, c)
			} else {
				if !m.foundVictim(c, &v) {
					return v, "unregister-of-live-session-failed", fmt.Sprintf("index %d client %x: %v", idx, c, *o)
				}
				v.Exp = exSessionFail
			}
		} else {
			if ok {
				return v, "unregister-of-unknown-client-succeeded", fmt.Sprintf("index %d client %x: %v", idx, c, *o)
			}
			v.Exp = exSessionFail
		}
	case ekNoopSession:
		v.Exp = exApplied
		r := m.ref.apply(idx, em.Cmd)
		m.applied = append(m.applied, upd{Index: idx, Cmd: em.Cmd})
		if !need() {
			return
		}
		if o.Kind != "update" || o.Ignored || o.Rejected || !sameResult(o.Result, r) {
			return v, "noop-session-result-wrong", fmt.Sprintf("index %d: got %v want value %x data %x", idx, *o, r.Value, r.Data)
		}
	case ekProposal, ekUnknown:
		s, live := m.live[c]
		if !live {
			v.Exp = exRejected
			if o == nil {
				return v, "unknown-session-silently-dropped", fmt.Sprintf("index %d %v: no notification", idx, em)
			}
			if o.Kind != "update" || !o.Rejected || o.Ignored || !emptyResult(o.Result) {
				return v, "unknown-session-not-rejected", fmt.Sprintf("index %d %v: %v", idx, em, *o)
			}
			return
		}
		v.SessInc = s.inc
		if o != nil && o.Rejected {
			if o.Kind != "update" || o.Ignored || !emptyResult(o.Result) {
				return v, "rejection-malformed", fmt.Sprintf("index %d: %v", idx, *o)
			}
			if !m.foundVictim(c, &v) {
				return v, "spurious-rejection", fmt.Sprintf("index %d %v: rejected although the session is live and no eviction is outstanding", idx, em)
			}
			m.victimByProposal++
			v.Exp = exRejected
			return
		}
		if em.Responded > s.wm {
			s.wm = em.Responded
			for k := range s.cache {
				if k <= s.wm {
					delete(s.cache, k)
				}
			}
		}
		if em.Series <= s.wm {
			v.Exp = exAcked
			if o != nil {
				return v, "acknowledged-duplicate-not-ignored", fmt.Sprintf("index %d %v (watermark %d): %v", idx, em, s.wm, *o)
			}
			return
		}
		if r, ok := s.cache[em.Series]; ok {
			v.Exp = exCached
			if o == nil {
				return v, "retry-without-result", fmt.Sprintf("index %d %v: no notification", idx, em)
			}
			if o.Kind != "update" || o.Ignored || !sameResult(o.Result, r) {
				return v, "retry-result-differs", fmt.Sprintf("index %d %v: got %v want value %x data %x", idx, em, *o, r.Value, r.Data)
			}
			return
		}
		v.Exp = exApplied
		r := m.ref.apply(idx, em.Cmd)
		m.applied = append(m.applied, upd{Index: idx, Cmd: em.Cmd})
		s.cache[em.Series] = r
		if o == nil {
			return v, "proposal-silently-dropped", fmt.Sprintf("index %d %v: no notification", idx, em)
		}
		if o.Kind != "update" || o.Ignored || !sameResult(o.Result, r) {
			return v, "applied-result-wrong", fmt.Sprintf("index %d %v: got %v want value %x data %x", idx, em, *o, r.Value, r.Data)
		}
	}
	return
}

// expectedUpdates returns the deliveries the model demands in (after, upTo].
func (m *sessModel) expectedUpdates(after, upTo uint64) []upd {
	var out []upd
	for _, u := range m.applied {
		if u.Index > after && u.Index <= upTo {
			out = append(out, u)
		}
	}
	return out
}

// ------------------------------------------------------------------------
// Membership invariants (C07), from the property text.

type memCheck struct {
	ordered bool
	prev    pb.Membership
	kinds   map[uint64]string
	removed map[uint64]bool
	reasons map[string]int
	accepts map[string]int
}

func newMemCheck(ordered bool) *memCheck {
	return &memCheck{ordered: ordered, kinds: map[uint64]string{}, removed: map[uint64]bool{},
		reasons: map[string]int{}, accepts: map[string]int{},
		prev: pb.Membership{Addresses: map[uint64]string{}, NonVotings: map[uint64]string{},
			Witnesses: map[uint64]string{}, Removed: map[uint64]bool{}}}
}

func kindsOf(m pb.Membership) (map[uint64]string, string) {
	k := map[uint64]string{}
	put := func(id uint64, kind string) string {
		if old, ok := k[id]; ok {
			return fmt.Sprintf("id %d is both %s and %s", id, old, kind)
		}
		k[id] = kind
		return ""
	}
	for id := range m.Addresses {
		if e := put(id, "voter"); e != "" {
			return nil, e
		}
	}
	for id := range m.NonVotings {
		if e := put(id, "nonvoting"); e != "" {
			return nil, e
		}
	}
	for id := range m.Witnesses {
		if e := put(id, "witness"); e != "" {
			return nil, e
		}
	}
	return k, ""
}

func addrOf(m pb.Membership, id uint64) string {
	if a, ok := m.Addresses[id]; ok {
		return a
	}
	if a, ok := m.NonVotings[id]; ok {
		return a
	}
	return m.Witnesses[id]
}

// reason classifies why a request is invalid, judged from the membership
// before it and the rules in the property text. "" = nothing forbids it.
func (mc *memCheck) reason(cc pb.ConfigChange, before pb.Membership) string {
	if mc.ordered && !cc.Initialize && cc.ConfigChangeId != before.ConfigChangeId {
		return "stale-ccid"
	}
	kinds, _ := kindsOf(before)
	cur := kinds[cc.ReplicaID]
	if cc.Type == pb.RemoveNode {
		if cur == "voter" && len(before.Addresses) == 1 {
			return "remove-last-voter"
		}
		return ""
	}
	if before.Removed[cc.ReplicaID] {
		return "add-removed-id"
	}
	want := map[pb.ConfigChangeType]string{pb.AddNode: "voter", pb.AddNonVoting: "nonvoting", pb.AddWitness: "witness"}[cc.Type]
	if cur != "" {
		if cur == want {
			return "already-member"
		}
		if cur == "nonvoting" && want == "voter" {
			if normAddr(addrOf(before, cc.ReplicaID)) != normAddr(cc.Address) {
				return "promote-address-mismatch"
			}
			return ""
		}
		return "kind-change-" + cur + "-to-" + want
	}
	for id := range kinds {
		if normAddr(addrOf(before, id)) == normAddr(cc.Address) {
			return "address-in-use"
		}
	}
	return ""
}

// step checks one applied config change entry. before/after are the real
// memberships around it.
func (mc *memCheck) step(idx uint64, cc pb.ConfigChange, rejected bool, before, after pb.Membership) (sig, msg string) {
	cb, ca := canonMembership(before), canonMembership(after)
	why := mc.reason(cc, before)
	if rejected {
		if cb != ca {
			return "rejected-change-altered-membership", fmt.Sprintf("index %d %v: %s -> %s", idx, cc, cb, ca)
		}
		if why == "" {
			return "valid-change-rejected", fmt.Sprintf("index %d %v rejected, membership %s", idx, cc, cb)
		}
		mc.reasons[why]++
	}
	// invariants on the resulting membership, whatever the verdict was
	kinds, e := kindsOf(after)
	if e != "" {
		return "member-in-two-sets", fmt.Sprintf("index %d %v: %s (%s)", idx, cc, e, ca)
	}
	for id := range after.Removed {
		mc.removed[id] = true
	}
	for id := range mc.removed {
		if !after.Removed[id] {
			return "removed-id-forgotten", fmt.Sprintf("index %d %v: id %d no longer in Removed (%s)", idx, cc, id, ca)
		}
		if k, ok := kinds[id]; ok {
			return "removed-id-readmitted", fmt.Sprintf("index %d %v: removed id %d is a %s again (%s)", idx, cc, id, k, ca)
		}
	}
	if len(before.Addresses) > 0 && len(after.Addresses) == 0 {
		return "voter-set-empty", fmt.Sprintf("index %d %v: %s -> %s", idx, cc, cb, ca)
	}
	for id, k := range kinds {
		old, had := mc.kinds[id]
		if had && old != k && !(old == "nonvoting" && k == "voter") {
			return "illegal-kind-change", fmt.Sprintf("index %d %v: id %d %s -> %s", idx, cc, id, old, k)
		}
	}
	for id, old := range mc.kinds {
		if _, still := kinds[id]; !still && !after.Removed[id] {
			return "member-vanished", fmt.Sprintf("index %d %v: id %d (%s) disappeared without removal", idx, cc, id, old)
		}
	}
	seen := map[string]uint64{}
	for id := range kinds {
		a := normAddr(addrOf(after, id))
		if other, dup := seen[a]; dup {
			return "address-shared", fmt.Sprintf("index %d %v: ids %d and %d share address %q (%s)", idx, cc, other, id, a, ca)
		}
		seen[a] = id
	}
	if !rejected {
		if mc.ordered && !cc.Initialize && cc.ConfigChangeId != before.ConfigChangeId {
			return "stale-ccid-accepted", fmt.Sprintf("index %d %v accepted, current id %d", idx, cc, before.ConfigChangeId)
		}
		if after.ConfigChangeId != idx {
			return "accepted-change-ccid-not-index", fmt.Sprintf("index %d %v: ConfigChangeId %d", idx, cc, after.ConfigChangeId)
		}
		// the change has exactly its documented effect
		want := deepCopyM(before)
		want.ConfigChangeId = idx
		switch cc.Type {
		case pb.AddNode:
			delete(want.NonVotings, cc.ReplicaID)
			want.Addresses[cc.ReplicaID] = cc.Address
		case pb.AddNonVoting:
			want.NonVotings[cc.ReplicaID] = cc.Address
		case pb.AddWitness:
			want.Witnesses[cc.ReplicaID] = cc.Address
		case pb.RemoveNode:
			delete(want.Addresses, cc.ReplicaID)
			delete(want.NonVotings, cc.ReplicaID)
			delete(want.Witnesses, cc.ReplicaID)
			want.Removed[cc.ReplicaID] = true
		}
		if cw := canonMembership(want); cw != ca {
			return "accepted-change-wrong-effect", fmt.Sprintf("index %d %v: got %s want %s", idx, cc, ca, cw)
		}
		mc.accepts[cc.Type.String()]++
	}
	mc.kinds = kinds
	mc.prev = deepCopyM(after)
	if !rejected && why != "" {
		// the rules in the text forbid it but it was accepted and no invariant
		// tripped (cannot happen for the rules above); keep it loud
		return "invalid-change-accepted-" + why, fmt.Sprintf("index %d %v accepted: %s -> %s", idx, cc, cb, ca)
	}
	return "", ""
}

func deepCopyM(m pb.Membership) pb.Membership {
	c := pb.Membership{ConfigChangeId: m.ConfigChangeId, Addresses: map[uint64]string{},
		NonVotings: map[uint64]string{}, Witnesses: map[uint64]string{}, Removed: map[uint64]bool{}}
	for k, v := range m.Addresses {
		c.Addresses[k] = v
	}
	for k, v := range m.NonVotings {
		c.NonVotings[k] = v
	}
	for k, v := range m.Witnesses {
		c.Witnesses[k] = v
	}
	for k := range m.Removed {
		c.Removed[k] = true
	}
	return c
}
