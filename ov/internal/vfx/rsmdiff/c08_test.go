package rsmdiff

import (
	"bytes"
	"fmt"
	"testing"

	"github.com/lni/dragonboat/v4/internal/vfhelp"
	"pgregory.net/rapid"
)

func TestVF_C08_SnapshotSuffix(t *testing.T) {
	st := vfhelp.NewStats("TestVF_C08_SnapshotSuffix",
		"C05-style session streams plus membership changes into the real rsm.StateMachine for regular / concurrent / on-disk "+
			"user state machines, snapshot compression on/off; twin A applies 1..n, twin B applies 1..k and saves (concurrent kinds: "+
			"with updates applied between PrepareSnapshot and SaveSnapshot), twin C recovers B's snapshot (restart of B incl. a "+
			"generated on-disk Open index, install on a lagging replica, or streamed full on-disk snapshot) and is fed from a "+
			"generated index <= k+1 up to n; oracle: C == A on user state, session table (hash and saved bytes), membership, "+
			"applied index/term at k, m, n and on every per-entry outcome after the snapshot, deliveries to C's user SM exact. "+
			"nontrivial = the snapshot index lies strictly inside a client's retry window (a later duplicate is answered from the "+
			"restored session table) or C was handed a prefix overlapping the snapshot")
	defer st.Flush()
	var sampled [2]bool
	rapid.Check(t, func(t *rapid.T) {
		tr := runTwins(t)
		checkC08(t, tr)
		cached, acked, other := tr.retryWindowCut()
		overlap := tr.ssIndex > 0 && tr.feedFrom <= tr.ssIndex
		nt := cached > 0 || overlap
		labels := tr.labels()
		if cached > 0 {
			labels = append(labels, "NT:k-inside-retry-window(cached)")
		}
		if acked > 0 {
			labels = append(labels, "dup-across-k-acked")
		}
		if other > 0 {
			labels = append(labels, "dup-across-k-rejected-or-applied")
		}
		if overlap {
			labels = append(labels, "NT:overlapping-prefix")
		}
		st.Case(tr.canon(), nt, labels...)
		which := 1
		if cached > 0 {
			which = 0
		}
		if nt && !sampled[which] && len(tr.ents) <= 45 {
			sampled[which] = true
			st.Sample(tr.sample(map[string]interface{}{"retries_answered_from_restored_cache": cached}))
		}
	})
}

func checkC08(t *rapid.T, tr *twinRun) {
	c, a, inc := tr.c, tr.a, tr.cInc
	if tr.ssIndex > 0 {
		if tr.ssIndex != tr.k {
			vfhelp.Fail(t, "c08-snapshot-index", "snapshot requested with %d applied captured index %d", tr.k, tr.ssIndex)
		}
		s := tr.bSave
		if s.Term != tr.ents[tr.ssIndex-1].Term {
			vfhelp.Fail(t, "c08-snapshot-term", "snapshot %d carries term %d, entry term %d", s.Index, s.Term, tr.ents[tr.ssIndex-1].Term)
		}
	}
	// right after the recovery
	got := tr.viewC[0]
	want, ok := tr.viewA[got.Applied]
	if !ok {
		panic(fmt.Sprintf("harness: no view of A at %d", got.Applied))
	}
	if tr.openIdx > got.Applied {
		// the on-disk SM is ahead of the snapshot: its own state is what Open found
		if got.User != tr.refAt[tr.openIdx] {
			vfhelp.Fail(t, "c08-ondisk-state-after-open", "Open returned %d, user state %v, want %v", tr.openIdx, got.User, tr.refAt[tr.openIdx])
		}
		want.User, want.UserHash = got.User, got.UserHash
	}
	if !sameView(got, want) {
		vfhelp.Fail(t, "c08-restored-state-differs", "%s/%s: C after recovering snapshot %d: %v; A at %d: %v", tr.kind, tr.variant, tr.ssIndex, got, got.Applied, want)
	}
	for _, p := range []uint64{tr.m, tr.n} {
		if !sameView(tr.viewC[p], tr.viewA[p]) {
			vfhelp.Fail(t, "c08-state-differs-after-suffix", "%s/%s snapshot %d: at %d C %v, A %v", tr.kind, tr.variant, tr.ssIndex, p, tr.viewC[p], tr.viewA[p])
		}
	}
	// the observable result stream and the deliveries, per incarnation
	for _, r := range tr.replicas() {
		for _, i := range r.incs() {
			tr.checkIncarnation(t, r, i, "c08", false)
		}
	}
	rec := inc.usm.pr().recovered
	dummy := tr.kind == kOnDisk && tr.variant == "restart"
	switch {
	case tr.ssIndex == 0 || dummy:
		if len(rec) != 0 {
			vfhelp.Fail(t, "c08-unexpected-recover-call", "user SM RecoverFromSnapshot called (%v) although there is no payload to recover (snapshot %d, dummy %t)", rec, tr.ssIndex, dummy)
		}
	case tr.kind == kOnDisk && len(rec) == 0 && tr.preUser == tr.refAt[tr.ssIndex]:
		// streamed snapshot without anything the on-disk SM does not have yet
		// (no Update between C's position and the snapshot): nothing to load
	default:
		if len(rec) != 1 || rec[0] != tr.refAt[tr.ssIndex] {
			vfhelp.Fail(t, "c08-recovered-user-state", "user SM recovered %v, state of the full replay at %d is %v", rec, tr.ssIndex, tr.refAt[tr.ssIndex])
		}
	}
	// what the SM would put into its next snapshot
	if tr.metaA.Index != tr.n || tr.metaC.Index != tr.n || tr.metaA.Term != tr.metaC.Term || tr.metaA.Term != tr.ents[tr.n-1].Term {
		vfhelp.Fail(t, "c08-applied-index-term", "final snapshot meta: A index %d term %d, C index %d term %d, log ends at %d term %d",
			tr.metaA.Index, tr.metaA.Term, tr.metaC.Index, tr.metaC.Term, tr.n, tr.ents[tr.n-1].Term)
	}
	if !bytes.Equal(tr.sessA, tr.sessC) {
		vfhelp.Fail(t, "c08-session-table-bytes", "session tables differ: A %d sessions (%d bytes), C %d sessions (%d bytes)",
			tr.metaA.Sessions, len(tr.sessA), tr.metaC.Sessions, len(tr.sessC))
	}
	if tr.kind == kOnDisk && tr.metaA.OnDiskIndex != tr.metaC.OnDiskIndex {
		vfhelp.Fail(t, "c08-ondisk-index", "OnDiskIndex A %d, C %d", tr.metaA.OnDiskIndex, tr.metaC.OnDiskIndex)
	}
	a.probeBad()
	tr.b.probeBad()
	c.probeBad()
}
