package rsmdiff

import (
	"errors"
	"fmt"
	"strings"

	"github.com/lni/dragonboat/v4/config"
	"github.com/lni/dragonboat/v4/internal/raft"
	"github.com/lni/dragonboat/v4/internal/rsm"
	"github.com/lni/dragonboat/v4/internal/vfhelp"
	pb "github.com/lni/dragonboat/v4/raftpb"
	sm "github.com/lni/dragonboat/v4/statemachine"
)

type smKind int

const (
	kRegular smKind = iota
	kConcurrent
	kOnDisk
)

func (k smKind) String() string {
	switch k {
	case kRegular:
		return "regular"
	case kConcurrent:
		return "concurrent"
	case kOnDisk:
		return "ondisk"
	}
	return "?"
}

// caseEnv is the per-case configuration shared by all twins.
type caseEnv struct {
	t    vfhelp.TB
	kind smKind
	cfg  config.Config
	pad  int
}

// guard runs f (a call into the code under test) and turns a panic of the
// code under test into a signed violation. rapid's own control-flow panics
// pass through.
func (e *caseEnv) guard(where string, f func()) {
	defer func() {
		if r := recover(); r != nil {
			tn := fmt.Sprintf("%T", r)
			if strings.HasPrefix(tn, "rapid.") {
				panic(r)
			}
			vfhelp.Fail(e.t, "rsm-panic-"+where, "panic in %s: %v", where, r)
		}
	}()
	f()
}

type incarnation struct {
	id        int
	node      *fakeNode
	sm        *rsm.StateMachine
	nsm       *rsm.NativeSM
	usm       userSM
	snap      *snapshotter
	openIndex uint64
	recovers  []pb.Snapshot // non-empty snapshots recovered in this incarnation
	startAt   uint64        // applied index right after the initial recover
	fed       []uint64      // every index handed to this incarnation, in order
	events    []incEvent    // entries and recover requests in queue order
	noRecover map[uint64]bool
	ended     bool
	endAt     uint64 // applied index when the incarnation was crashed
}

// end is the applied index at which the incarnation stopped (so far).
func (inc *incarnation) end() uint64 {
	if inc.ended {
		return inc.endAt
	}
	return inc.sm.GetLastApplied()
}

// incEvent is one thing queued for an incarnation: an entry (Index) or a
// non-initial recover request to snapshot Index.
type incEvent struct {
	Recover bool
	Index   uint64
}

// processed replays the queue order and returns, per log index, whether this
// incarnation had to apply it (as opposed to skipping it as already covered),
// together with the final applied index.
func (inc *incarnation) processed() (map[uint64]bool, uint64) {
	out := map[uint64]bool{}
	applied := inc.startAt
	for _, ev := range inc.events {
		if ev.Recover {
			if !inc.noRecover[ev.Index] && ev.Index > applied {
				applied = ev.Index
			}
			continue
		}
		if ev.Index > inc.end() {
			// still queued when the incarnation was crashed
			break
		}
		if ev.Index == applied+1 {
			out[ev.Index] = true
			applied++
		} else if ev.Index > applied+1 {
			panic(fmt.Sprintf("harness: gap, applied %d fed %d", applied, ev.Index))
		}
	}
	return out, applied
}

type saveRec struct {
	Index    uint64
	Term     uint64
	Dummy    bool
	Exported bool
	Raced    int // entries applied between Prepare and SaveSnapshot
	Inc      int
}

// replica is one twin: a disk that survives restarts plus the current
// incarnation of the state machine stack.
type replica struct {
	env       *caseEnv
	name      string
	replicaID uint64
	disk      *disk
	store     *diskStore
	cur       *incarnation
	past      []*incarnation
	saves     []saveRec
	skipped   []string // save/recover requests the node layer legitimately dropped, with reason
	race      func()   // what the apply worker does during the next concurrent save
	raced     int
	batch     []rsm.Task
	apply     []sm.Entry
	exports   int
	pushed    uint64 // node.pushedIndex: highest index queued for the current incarnation
}

func newReplica(env *caseEnv, name string, replicaID uint64) *replica {
	r := &replica{env: env, name: name, replicaID: replicaID, disk: newDisk(name)}
	if env.kind == kOnDisk {
		r.store = newDiskStore()
	}
	return r
}

// start creates a fresh incarnation and does what the node does first: the
// initial recover task (Open for on-disk state machines, then Recover from
// the latest snapshot known to the LogDB, if any).
func (r *replica) start() {
	cfg := r.env.cfg
	cfg.ReplicaID = r.replicaID
	inc := &incarnation{id: len(r.past)}
	inc.node = newFakeNode(cfg.ShardID, r.replicaID)
	p := &probe{pad: r.env.pad}
	var ism rsm.IStateMachine
	switch r.env.kind {
	case kRegular:
		u := &regSM{p: p}
		inc.usm = u
		ism = rsm.NewInMemStateMachine(u)
	case kConcurrent:
		u := &conSM{p: p}
		inc.usm = u
		ism = rsm.NewConcurrentStateMachine(u)
	case kOnDisk:
		u := &diskSM{p: p, store: r.store}
		inc.usm = u
		ism = rsm.NewOnDiskStateMachine(u)
	}
	inc.nsm = rsm.NewNativeSM(cfg, ism, inc.node.stopc)
	inc.snap = newSnapshotter(r.disk, cfg.ShardID, r.replicaID)
	inc.sm = rsm.NewStateMachine(inc.nsm, inc.snap, cfg, inc.node, r.disk.fs)
	inc.sm.Loaded()
	r.cur = inc
	r.doRecover(rsm.Task{Recover: true, Initial: true, NewNode: len(r.past) == 0})
	inc.startAt = inc.sm.GetLastApplied()
	r.pushed = inc.startAt
}

// restart ends the current incarnation (crash: nothing is closed) and starts
// a new one from the disk. crashPos selects which on-disk SM state survived.
func (r *replica) restart(crashPos int) {
	if r.store != nil {
		r.store.crash(crashPos)
	}
	r.cur.endAt = r.cur.sm.GetLastApplied()
	r.cur.ended = true
	r.past = append(r.past, r.cur)
	r.start()
}

func (r *replica) incs() []*incarnation {
	return append(append([]*incarnation{}, r.past...), r.cur)
}

func cloneEntries(ents []pb.Entry) []pb.Entry {
	out := make([]pb.Entry, len(ents))
	for i, e := range ents {
		out[i] = e
		if e.Cmd != nil {
			out[i].Cmd = append([]byte{}, e.Cmd...)
		}
	}
	return out
}

// add queues committed entries the way node.pushEntries does.
func (r *replica) add(ents []pb.Entry) {
	if len(ents) == 0 {
		return
	}
	for _, e := range ents {
		r.cur.fed = append(r.cur.fed, e.Index)
		r.cur.events = append(r.cur.events, incEvent{Index: e.Index})
		if e.Index > r.pushed {
			r.pushed = e.Index
		}
	}
	r.cur.sm.TaskQ().Add(rsm.Task{Entries: cloneEntries(ents)})
}

func (r *replica) addSave(req rsm.SSRequest) {
	r.cur.sm.TaskQ().Add(rsm.Task{Save: true, SSRequest: req})
}

func (r *replica) addRecover(index uint64) {
	r.cur.events = append(r.cur.events, incEvent{Recover: true, Index: index})
	if index > r.pushed {
		r.pushed = index
	}
	r.cur.sm.TaskQ().Add(rsm.Task{Recover: true, Index: index})
}

// run is the apply worker: engine.processApplies + node.handleSnapshotTask,
// with the snapshot workers executed inline.
func (r *replica) run() {
	for guardN := 0; ; guardN++ {
		if guardN > 10000 {
			panic("harness: run loop does not terminate")
		}
		var task rsm.Task
		var err error
		r.env.guard("handle", func() {
			task, err = r.cur.sm.Handle(r.batch[:0], r.apply[:0])
		})
		if err != nil {
			vfhelp.Fail(r.env.t, "handle-error", "%s: Handle returned %v", r.name, err)
		}
		if task.IsSnapshotTask() {
			switch {
			case task.Recover:
				r.doRecover(task)
			case task.Save:
				r.doSave(task.SSRequest)
			default:
				panic("harness: unexpected stream task in queue")
			}
			continue
		}
		if r.cur.sm.TaskQ().Size() == 0 {
			return
		}
	}
}

// doSave is node.doSave.
func (r *replica) doSave(req rsm.SSRequest) {
	inc := r.cur
	latest, _ := r.disk.latest()
	if !req.Exported() && inc.sm.GetLastApplied() <= latest.Index {
		r.skipped = append(r.skipped, "save:no-progress")
		return
	}
	r.raced = 0
	if r.race != nil && inc.sm.Concurrent() {
		inc.snap.beforeSave = r.race
	}
	r.race = nil
	var ss pb.Snapshot
	var env rsm.SSEnv
	var err error
	r.env.guard("save", func() {
		ss, env, err = inc.sm.Save(req)
	})
	inc.snap.beforeSave = nil
	if err != nil {
		if errors.Is(err, sm.ErrSnapshotStopped) || errors.Is(err, sm.ErrSnapshotAborted) {
			env.MustRemoveTempDir()
			r.skipped = append(r.skipped, "save:aborted")
			return
		}
		if errors.Is(err, raft.ErrCompacted) || errors.Is(err, raft.ErrSnapshotOutOfDate) {
			r.skipped = append(r.skipped, "save:out-of-date")
			return
		}
		vfhelp.Fail(r.env.t, "save-error", "%s: Save returned %v", r.name, err)
	}
	if r.store != nil && !req.Exported() {
		// IOnDiskStateMachine: only what Sync() covered survives a crash, and
		// concurrentSave prepares, syncs, then writes the record: the record
		// must not promise more than the user state machine has made durable
		if got := r.store.states[r.store.synced].Last; got < ss.OnDiskIndex {
			vfhelp.Fail(r.env.t, "consave-ondisk-snapshot-ahead-of-synced-state", "%s: Save returned the snapshot record index %d OnDiskIndex %d, the last Sync() of the user state machine covered entries up to %d only",
				r.name, ss.Index, ss.OnDiskIndex, got)
		}
	}
	ok, err := inc.snap.commit(ss, req)
	if err != nil {
		vfhelp.Fail(r.env.t, "save-commit-error", "%s: commit of snapshot %d failed: %v", r.name, ss.Index, err)
	}
	if !ok {
		r.skipped = append(r.skipped, "save:final-dir-exists")
		return
	}
	if req.Exported() {
		r.saves = append(r.saves, saveRec{Index: ss.Index, Term: ss.Term, Exported: true, Inc: inc.id})
		return
	}
	valid := false
	r.env.guard("validate", func() { valid = ss.Validate(r.disk.fs) })
	if !valid {
		vfhelp.Fail(r.env.t, "save-invalid-snapshot", "%s: generated snapshot %d does not validate", r.name, ss.Index)
	}
	r.saves = append(r.saves, saveRec{Index: ss.Index, Term: ss.Term, Dummy: ss.Dummy, Raced: r.raced, Inc: inc.id})
}

// doRecover is node.recover.
func (r *replica) doRecover(task rsm.Task) {
	inc := r.cur
	if task.Initial && r.env.kind == kOnDisk {
		var idx uint64
		var err error
		r.env.guard("open", func() { idx, err = inc.sm.OpenOnDiskStateMachine() })
		if err != nil {
			vfhelp.Fail(r.env.t, "open-error", "%s: Open failed: %v", r.name, err)
		}
		if idx > 0 && task.NewNode {
			panic("harness: new node at non-zero index")
		}
		inc.openIndex = idx
	}
	var ss pb.Snapshot
	var err error
	r.env.guard("recover", func() { ss, err = inc.sm.Recover(task) })
	if err != nil {
		if errors.Is(err, sm.ErrSnapshotStopped) || errors.Is(err, raft.ErrSnapshotOutOfDate) {
			r.skipped = append(r.skipped, "recover:out-of-date")
			if inc.noRecover == nil {
				inc.noRecover = map[uint64]bool{}
			}
			inc.noRecover[task.Index] = true
			return
		}
		vfhelp.Fail(r.env.t, "recover-error", "%s: Recover returned %v", r.name, err)
	}
	if !pb.IsEmptySnapshot(ss) {
		inc.recovers = append(inc.recovers, ss)
		if r.env.kind == kOnDisk {
			r.env.guard("sync", func() { err = inc.sm.Sync() })
			if err != nil {
				vfhelp.Fail(r.env.t, "sync-error", "%s: Sync failed: %v", r.name, err)
			}
			if err := inc.snap.shrink(ss.Index); err != nil {
				vfhelp.Fail(r.env.t, "shrink-error", "%s: shrink failed: %v", r.name, err)
			}
		}
	}
}

// streamTo is node.stream on this replica with the chunks reassembled on the
// target's disk, followed by what the target's node does with the resulting
// InstallSnapshot (record it, push a Recover task). Returns false when the
// node layer would not have streamed / installed.
func (r *replica) streamTo(target *replica) bool {
	inc := r.cur
	ready := false
	r.env.guard("ready-to-stream", func() { ready = inc.sm.ReadyToStream() })
	if !ready {
		r.skipped = append(r.skipped, "stream:not-ready")
		return false
	}
	sink := &recvSink{to: target.disk, shardID: r.env.cfg.ShardID, replicaID: target.replicaID}
	r.raced = 0
	if r.race != nil {
		inc.snap.beforeSave = r.race
	}
	r.race = nil
	var err error
	r.env.guard("stream", func() { err = inc.sm.Stream(sink) })
	inc.snap.beforeSave = nil
	if err != nil {
		vfhelp.Fail(r.env.t, "stream-error", "%s: Stream returned %v (sink: %s)", r.name, err, sink.fail)
	}
	if sink.fail != "" || !sink.done || !sink.closed {
		vfhelp.Fail(r.env.t, "stream-incomplete", "%s: stream incomplete: fail=%q done=%t closed=%t",
			r.name, sink.fail, sink.done, sink.closed)
	}
	ss := sink.ss
	// receiver: raft restores from the snapshot only if it is ahead
	if ss.Index <= target.cur.sm.GetLastApplied() {
		target.skipped = append(target.skipped, "install:not-ahead")
		return false
	}
	target.disk.setLatest(ss)
	target.addRecover(ss.Index)
	r.saves = append(r.saves, saveRec{Index: ss.Index, Term: ss.Term, Raced: r.raced, Inc: inc.id})
	return true
}

// view is everything the property compares between twins at one point.
type view struct {
	Applied     uint64
	UserHash    uint64
	SessionHash uint64
	Membership  string
	MemberHash  uint64
	User        kv
}

func (v view) String() string {
	return fmt.Sprintf("{applied:%d user:%x(%v) sess:%x members:%s}", v.Applied, v.UserHash, v.User, v.SessionHash, v.Membership)
}

func (r *replica) view() view {
	var v view
	inc := r.cur
	r.env.guard("view", func() {
		v.Applied = inc.sm.GetLastApplied()
		h, err := inc.sm.GetHash()
		if err != nil {
			panic(err)
		}
		v.UserHash = h
		v.SessionHash = inc.sm.GetSessionHash()
		v.Membership = canonMembership(inc.sm.GetMembership())
		v.MemberHash = inc.sm.GetMembershipHash()
	})
	v.User = inc.usm.state()
	return v
}

// sameView compares everything the property lists: applied index, user
// state, session table hash, membership.
func sameView(a, b view) bool {
	return a.Applied == b.Applied && a.UserHash == b.UserHash && a.SessionHash == b.SessionHash &&
		a.Membership == b.Membership && a.MemberHash == b.MemberHash && a.User == b.User
}

// probeBad fails the case when a user SM or the node saw a contract breach.
func (r *replica) probeBad() {
	for _, inc := range r.incs() {
		if len(inc.usm.pr().bad) > 0 {
			vfhelp.Fail(r.env.t, "usm-contract-"+sigWord(inc.usm.pr().bad[0]), "%s/inc%d: user SM saw %v", r.name, inc.id, inc.usm.pr().bad)
		}
		if len(inc.node.bad) > 0 {
			vfhelp.Fail(r.env.t, "node-contract-"+sigWord(inc.node.bad[0]), "%s/inc%d: node saw %v", r.name, inc.id, inc.node.bad)
		}
	}
}

func sigWord(s string) string {
	if i := strings.IndexAny(s, ":@ "); i > 0 {
		s = s[:i]
	}
	return s
}
