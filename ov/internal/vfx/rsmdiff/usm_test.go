package rsmdiff

import (
	"bytes"
	"encoding/binary"
	"fmt"
	"hash/fnv"
	"io"

	sm "github.com/lni/dragonboat/v4/statemachine"
)

// kv is the whole state of the instrumented user state machine: a hash chain
// over every (index, cmd) it was handed. Any missing, duplicated, reordered or
// altered Update changes H, so equality of (Last, N, H) is equality of the
// delivered command sequence.
type kv struct {
	Last uint64 // index of the last Update
	N    uint64 // number of Updates
	H    uint64 // hash chain
}

func (s *kv) apply(index uint64, cmd []byte) sm.Result {
	h := fnv.New64a()
	var b [24]byte
	binary.LittleEndian.PutUint64(b[0:], s.H)
	binary.LittleEndian.PutUint64(b[8:], index)
	binary.LittleEndian.PutUint64(b[16:], uint64(len(cmd)))
	_, _ = h.Write(b[:])
	_, _ = h.Write(cmd)
	s.H = h.Sum64()
	s.N++
	s.Last = index
	r := sm.Result{Value: s.H}
	if len(cmd) > 0 {
		switch cmd[0] % 4 {
		case 1:
			d := make([]byte, 8)
			binary.LittleEndian.PutUint64(d, s.H^s.N)
			r.Data = d
		case 2:
			// result with Value 0 and data only
			r.Value = 0
			r.Data = []byte{byte(s.N), 0xff, 0}
		case 3:
			// the all-zero result: indistinguishable from "no result" for
			// whoever only looks at the value
			r.Value = 0
		}
	}
	return r
}

func (s kv) hash() uint64 { return s.H ^ (s.N * 0x9E3779B97F4A7C15) ^ s.Last }

func (s kv) String() string { return fmt.Sprintf("{last:%d n:%d h:%x}", s.Last, s.N, s.H) }

const kvMagic = 0x564652534d444946 // "VFRSMDIF"

func padByte(i int) byte { return byte(i*7 + i/251) }

func (s kv) encode(pad int) []byte {
	out := make([]byte, 40+pad)
	binary.LittleEndian.PutUint64(out[0:], kvMagic)
	binary.LittleEndian.PutUint64(out[8:], s.Last)
	binary.LittleEndian.PutUint64(out[16:], s.N)
	binary.LittleEndian.PutUint64(out[24:], s.H)
	binary.LittleEndian.PutUint64(out[32:], uint64(pad))
	for i := 0; i < pad; i++ {
		out[40+i] = padByte(i)
	}
	return out
}

func decodeKV(data []byte) (kv, error) {
	if len(data) < 40 {
		return kv{}, fmt.Errorf("short snapshot payload: %d bytes", len(data))
	}
	if binary.LittleEndian.Uint64(data[0:]) != kvMagic {
		return kv{}, fmt.Errorf("bad magic in snapshot payload")
	}
	s := kv{
		Last: binary.LittleEndian.Uint64(data[8:]),
		N:    binary.LittleEndian.Uint64(data[16:]),
		H:    binary.LittleEndian.Uint64(data[24:]),
	}
	pad := int(binary.LittleEndian.Uint64(data[32:]))
	if len(data) != 40+pad {
		return kv{}, fmt.Errorf("snapshot payload length %d, want %d", len(data), 40+pad)
	}
	for i := 0; i < pad; i++ {
		if data[40+i] != padByte(i) {
			return kv{}, fmt.Errorf("snapshot payload byte %d altered", 40+i)
		}
	}
	return s, nil
}

// call is one recorded invocation of a user state machine method.
type call struct {
	Op    string // open update sync prepare save recover close lookup
	Index uint64 // update: first index of the batch; open: returned index; recover/save: Last of the state
	N     int    // update: batch length
}

type upd struct {
	Index uint64
	Cmd   []byte
	Batch int // size of the batch it arrived in
}

// probe is the instrumentation shared by the three kinds; one per incarnation.
type probe struct {
	calls     []call
	updates   []upd
	recovered []kv
	saved     []kv
	closed    bool
	bad       []string // contract breaches seen by the SM itself
	pad       int
	depth     int // >0 while inside a mutually exclusive method
}

func (p *probe) enter(op string, excl bool) {
	if p.closed && op != "lookup" {
		p.bad = append(p.bad, "call-after-close:"+op)
	}
	if excl {
		if p.depth > 0 {
			p.bad = append(p.bad, "overlap:"+op)
		}
		p.depth++
	}
}

func (p *probe) leave(excl bool) {
	if excl {
		p.depth--
	}
}

func (p *probe) noteUpdates(st *kv, ents []sm.Entry) {
	if len(ents) == 0 {
		p.bad = append(p.bad, "empty-update-batch")
		return
	}
	p.calls = append(p.calls, call{Op: "update", Index: ents[0].Index, N: len(ents)})
	for i := range ents {
		cmd := append([]byte(nil), ents[i].Cmd...)
		p.updates = append(p.updates, upd{Index: ents[i].Index, Cmd: cmd, Batch: len(ents)})
		ents[i].Result = st.apply(ents[i].Index, ents[i].Cmd)
	}
}

func (p *probe) recoverFrom(r io.Reader) (kv, error) {
	data, err := io.ReadAll(r)
	if err != nil {
		return kv{}, err
	}
	s, err := decodeKV(data)
	if err != nil {
		p.bad = append(p.bad, "snapshot-payload:"+err.Error())
		return kv{}, err
	}
	p.recovered = append(p.recovered, s)
	p.calls = append(p.calls, call{Op: "recover", Index: s.Last})
	return s, nil
}

func (p *probe) saveTo(s kv, w io.Writer) error {
	p.saved = append(p.saved, s)
	p.calls = append(p.calls, call{Op: "save", Index: s.Last})
	data := s.encode(p.pad)
	// write in several pieces, the way a real SM streams its state
	for len(data) > 0 {
		n := 1000
		if n > len(data) {
			n = len(data)
		}
		if _, err := w.Write(data[:n]); err != nil {
			return err
		}
		data = data[n:]
	}
	return nil
}

// userSM is what the harness needs from every kind.
type userSM interface {
	state() kv
	pr() *probe
}

// ---------------------------------------------------------------- regular

type regSM struct {
	st kv
	p  *probe
}

var _ sm.IStateMachine = (*regSM)(nil)
var _ sm.IHash = (*regSM)(nil)

func (s *regSM) state() kv  { return s.st }
func (s *regSM) pr() *probe { return s.p }

func (s *regSM) Update(e sm.Entry) (sm.Result, error) {
	s.p.enter("update", true)
	defer s.p.leave(true)
	ents := []sm.Entry{e}
	s.p.noteUpdates(&s.st, ents)
	return ents[0].Result, nil
}

func (s *regSM) Lookup(q interface{}) (interface{}, error) {
	s.p.enter("lookup", false)
	return s.st.hash(), nil
}

func (s *regSM) SaveSnapshot(w io.Writer, fc sm.ISnapshotFileCollection, stopc <-chan struct{}) error {
	s.p.enter("save", true) // plain SM: SaveSnapshot never overlaps Update
	defer s.p.leave(true)
	return s.p.saveTo(s.st, w)
}

func (s *regSM) RecoverFromSnapshot(r io.Reader, files []sm.SnapshotFile, stopc <-chan struct{}) error {
	s.p.enter("recover", true)
	defer s.p.leave(true)
	st, err := s.p.recoverFrom(r)
	if err != nil {
		return err
	}
	s.st = st
	return nil
}

func (s *regSM) Close() error {
	s.p.enter("close", true)
	defer s.p.leave(true)
	s.p.calls = append(s.p.calls, call{Op: "close"})
	s.p.closed = true
	return nil
}

func (s *regSM) GetHash() (uint64, error) { return s.st.hash(), nil }

// ---------------------------------------------------------------- concurrent

type conSM struct {
	st kv
	p  *probe
}

var _ sm.IConcurrentStateMachine = (*conSM)(nil)
var _ sm.IHash = (*conSM)(nil)

func (s *conSM) state() kv  { return s.st }
func (s *conSM) pr() *probe { return s.p }

func (s *conSM) Update(ents []sm.Entry) ([]sm.Entry, error) {
	s.p.enter("update", true)
	defer s.p.leave(true)
	s.p.noteUpdates(&s.st, ents)
	return ents, nil
}

func (s *conSM) Lookup(q interface{}) (interface{}, error) {
	s.p.enter("lookup", false)
	return s.st.hash(), nil
}

func (s *conSM) PrepareSnapshot() (interface{}, error) {
	s.p.enter("prepare", true)
	defer s.p.leave(true)
	s.p.calls = append(s.p.calls, call{Op: "prepare", Index: s.st.Last})
	c := s.st
	return &c, nil
}

func (s *conSM) SaveSnapshot(ctx interface{}, w io.Writer, fc sm.ISnapshotFileCollection, stopc <-chan struct{}) error {
	s.p.enter("save", false) // may run concurrently with Update
	c, ok := ctx.(*kv)
	if !ok {
		s.p.bad = append(s.p.bad, "save-without-prepared-ctx")
		return fmt.Errorf("bad ctx %T", ctx)
	}
	return s.p.saveTo(*c, w)
}

func (s *conSM) RecoverFromSnapshot(r io.Reader, files []sm.SnapshotFile, stopc <-chan struct{}) error {
	s.p.enter("recover", true)
	defer s.p.leave(true)
	st, err := s.p.recoverFrom(r)
	if err != nil {
		return err
	}
	s.st = st
	return nil
}

func (s *conSM) Close() error {
	s.p.enter("close", true)
	defer s.p.leave(true)
	s.p.calls = append(s.p.calls, call{Op: "close"})
	s.p.closed = true
	return nil
}

func (s *conSM) GetHash() (uint64, error) { return s.st.hash(), nil }

// ---------------------------------------------------------------- on disk

// diskStore is the part of an on-disk state machine that survives a restart.
// states is every in-core state of the current incarnation in the order it
// was reached (states[0] = what Open loaded); synced is the position known to
// be durable. A crash may keep any position in [synced, len(states)-1] (the
// documented prefix rule of IOnDiskStateMachine.Update).
type diskStore struct {
	states []kv
	synced int
}

func newDiskStore() *diskStore { return &diskStore{states: []kv{{}}} }

// crash keeps position pos as the durable state of the next incarnation.
func (d *diskStore) crash(pos int) kv {
	if pos < d.synced || pos >= len(d.states) {
		panic(fmt.Sprintf("harness: bad crash position %d (synced %d, len %d)", pos, d.synced, len(d.states)))
	}
	s := d.states[pos]
	d.states = []kv{s}
	d.synced = 0
	return s
}

type diskSM struct {
	st     kv
	p      *probe
	store  *diskStore
	opened bool
}

var _ sm.IOnDiskStateMachine = (*diskSM)(nil)
var _ sm.IHash = (*diskSM)(nil)

func (s *diskSM) state() kv  { return s.st }
func (s *diskSM) pr() *probe { return s.p }

func (s *diskSM) Open(stopc <-chan struct{}) (uint64, error) {
	s.p.enter("open", true)
	defer s.p.leave(true)
	if s.opened {
		s.p.bad = append(s.p.bad, "open-twice")
	}
	s.opened = true
	s.st = s.store.states[len(s.store.states)-1]
	s.p.calls = append(s.p.calls, call{Op: "open", Index: s.st.Last})
	return s.st.Last, nil
}

func (s *diskSM) mustOpen(op string) {
	if !s.opened {
		s.p.bad = append(s.p.bad, op+"-before-open")
	}
}

func (s *diskSM) Update(ents []sm.Entry) ([]sm.Entry, error) {
	s.p.enter("update", true)
	defer s.p.leave(true)
	s.mustOpen("update")
	before := len(s.p.updates)
	s.p.noteUpdates(&s.st, ents)
	// record every intermediate state as a possible crash point
	tmp := s.store.states[len(s.store.states)-1]
	for _, u := range s.p.updates[before:] {
		tmp.apply(u.Index, u.Cmd)
		s.store.states = append(s.store.states, tmp)
	}
	if tmp != s.st {
		panic("harness: on-disk state history diverged")
	}
	return ents, nil
}

func (s *diskSM) Lookup(q interface{}) (interface{}, error) {
	s.p.enter("lookup", false)
	return s.st.hash(), nil
}

func (s *diskSM) Sync() error {
	s.p.enter("sync", true)
	defer s.p.leave(true)
	s.mustOpen("sync")
	s.p.calls = append(s.p.calls, call{Op: "sync", Index: s.st.Last})
	s.store.synced = len(s.store.states) - 1
	return nil
}

func (s *diskSM) PrepareSnapshot() (interface{}, error) {
	s.p.enter("prepare", true)
	defer s.p.leave(true)
	s.mustOpen("prepare")
	s.p.calls = append(s.p.calls, call{Op: "prepare", Index: s.st.Last})
	c := s.st
	return &c, nil
}

func (s *diskSM) SaveSnapshot(ctx interface{}, w io.Writer, stopc <-chan struct{}) error {
	s.p.enter("save", false)
	s.mustOpen("save")
	c, ok := ctx.(*kv)
	if !ok {
		s.p.bad = append(s.p.bad, "save-without-prepared-ctx")
		return fmt.Errorf("bad ctx %T", ctx)
	}
	return s.p.saveTo(*c, w)
}

func (s *diskSM) RecoverFromSnapshot(r io.Reader, stopc <-chan struct{}) error {
	s.p.enter("recover", true)
	defer s.p.leave(true)
	s.mustOpen("recover")
	st, err := s.p.recoverFrom(r)
	if err != nil {
		return err
	}
	s.st = st
	s.store.states = append(s.store.states, st)
	return nil
}

func (s *diskSM) Close() error {
	s.p.enter("close", true)
	defer s.p.leave(true)
	s.p.calls = append(s.p.calls, call{Op: "close"})
	s.p.closed = true
	return nil
}

func (s *diskSM) GetHash() (uint64, error) { return s.st.hash(), nil }

func sameResult(a, b sm.Result) bool {
	return a.Value == b.Value && bytes.Equal(a.Data, b.Data)
}
