package rsmdiff

import (
	"fmt"
	"testing"

	"github.com/lni/dragonboat/v4/internal/settings"
	"github.com/lni/dragonboat/v4/internal/vfhelp"
	"pgregory.net/rapid"
)

func TestVF_C11_DeliveryOrder(t *testing.T) { c11Unit(t, "TestVF_C11_DeliveryOrder") }

// TestVF_C11_DeliveryOrderUnbatched is the same check run in a working
// directory whose dragonboat-soft-settings.json switches BatchedEntryApply off
// and shrinks TaskQueueInitialCap (entry-at-a-time path of the concurrent
// kinds, task queue compaction).
func TestVF_C11_DeliveryOrderUnbatched(t *testing.T) {
	c11Unit(t, "TestVF_C11_DeliveryOrderUnbatched")
}

func c11Unit(t *testing.T, unit string) {
	st := vfhelp.NewStats(unit,
		"the A/B/C streams of C08 (session duplicates, unknown sessions, membership changes, restarts, installs, streamed "+
			"snapshots, generated on-disk Open index, overlapping re-delivery) with instrumented IStateMachine / "+
			"IConcurrentStateMachine / IOnDiskStateMachine recording every call; oracle per incarnation: Update indexes strictly "+
			"increasing, the delivered set is exactly the entries the session reference model says must be applied among those the "+
			"incarnation had to process (nothing at or below a recovered snapshot or the Open index, no duplicate / unknown-session / "+
			"no-op entry), RecoverFromSnapshot before the entries after it, single-entry Updates for the plain SM, no call overlap or "+
			"call after Close. nontrivial = an on-disk incarnation was re-fed proposals at or below its Open index, or an "+
			"incarnation that recovered a snapshot later met a session duplicate, or a snapshot was installed mid-incarnation")
	defer st.Flush()
	st.Set("BatchedEntryApply", settings.Soft.BatchedEntryApply)
	st.Set("TaskQueueInitialCap", settings.Soft.TaskQueueInitialCap)
	var sampled [3]bool
	rapid.Check(t, func(t *rapid.T) {
		tr := runTwins(t)
		skipOnDisk, dupAfterRecover, midInstall := checkC11(t, tr)
		nt := skipOnDisk > 0 || dupAfterRecover > 0 || midInstall > 0
		labels := tr.labels()
		labels = append(labels, fmt.Sprintf("setting:BatchedEntryApply=%t", settings.Soft.BatchedEntryApply))
		if skipOnDisk > 0 {
			labels = append(labels, "NT:ondisk-refed-below-open-index")
		}
		if dupAfterRecover > 0 {
			labels = append(labels, "NT:session-duplicate-after-recover")
		}
		if midInstall > 0 {
			labels = append(labels, "NT:snapshot-installed-mid-incarnation")
		}
		st.Case(tr.canon(), nt, labels...)
		which := -1
		switch {
		case skipOnDisk > 0:
			which = 0
		case dupAfterRecover > 0:
			which = 1
		case midInstall > 0:
			which = 2
		}
		if which >= 0 && !sampled[which] && len(tr.ents) <= 40 {
			sampled[which] = true
			var calls []string
			for _, c := range tr.cInc.usm.pr().calls {
				calls = append(calls, fmt.Sprintf("%s@%d", c.Op, c.Index))
			}
			st.Sample(tr.sample(map[string]interface{}{"C_user_sm_calls": calls,
				"refed_below_open": skipOnDisk, "duplicates_after_recover": dupAfterRecover}))
		}
	})
}

func checkC11(t *rapid.T, tr *twinRun) (skipOnDisk, dupAfterRecover, midInstall int) {
	for _, r := range tr.replicas() {
		for _, inc := range r.incs() {
			who := fmt.Sprintf("%s/inc%d(%s,%s)", r.name, inc.id, tr.kind, tr.variant)
			p := inc.usm.pr()
			proc, _ := inc.processed()
			tr.checkIncarnation(t, r, inc, "c11", true)
			for _, u := range p.updates {
				if tr.kind == kOnDisk && u.Index <= inc.openIndex {
					vfhelp.Fail(t, "c11-ondisk-update-below-open", "%s: Update(%d) although Open returned %d", who, u.Index, inc.openIndex)
				}
				if tr.kind == kRegular && u.Batch != 1 {
					vfhelp.Fail(t, "c11-plain-sm-batched", "%s: plain SM got a batch of %d", who, u.Batch)
				}
			}
			// order of calls
			floor := uint64(0)
			opened := tr.kind != kOnDisk
			for i, c := range p.calls {
				switch c.Op {
				case "open":
					if i != 0 {
						vfhelp.Fail(t, "c11-open-not-first", "%s: calls %v", who, p.calls)
					}
					opened = true
					floor = c.Index
				case "recover":
					if c.Index < floor && tr.kind != kOnDisk {
						vfhelp.Fail(t, "c11-recover-moves-back", "%s: recovered state at %d after update %d", who, c.Index, floor)
					}
					if c.Index > floor {
						floor = c.Index
					}
				case "update":
					if !opened {
						vfhelp.Fail(t, "c11-update-before-open", "%s: calls %v", who, p.calls)
					}
					if c.Index <= floor {
						vfhelp.Fail(t, "c11-update-at-or-below-floor", "%s: Update(%d) after the state already covered %d", who, c.Index, floor)
					}
					floor = c.Index + uint64(c.N) - 1
				}
			}
			// a regular SM that recovered a snapshot at startup: RecoverFromSnapshot comes first
			if len(inc.recovers) > 0 && inc.startAt == inc.recovers[0].Index && len(p.recovered) > 0 {
				first := p.calls[0].Op
				if tr.kind == kOnDisk {
					first = p.calls[1].Op
				}
				if first != "recover" {
					vfhelp.Fail(t, "c11-recover-not-first", "%s: calls %v", who, p.calls)
				}
			}
			// evidence: what made this incarnation interesting
			for _, idx := range inc.fed {
				if tr.kind == kOnDisk && idx <= inc.openIndex && idx > inc.startAt && tr.meta[idx-1].Kind == ekNoopSession {
					skipOnDisk++
				}
			}
			if len(inc.recovers) > 0 {
				ss := inc.recovers[len(inc.recovers)-1].Index
				for idx := range proc {
					if idx > ss && tr.meta[idx-1].Kind == ekProposal && tr.meta[idx-1].Copy > 0 &&
						(tr.verdicts[idx-1].Exp == exCached || tr.verdicts[idx-1].Exp == exAcked) {
						dupAfterRecover++
					}
				}
				if inc.startAt != inc.recovers[0].Index && len(p.updates) > 0 && p.updates[0].Index < ss {
					midInstall++
				}
			}
		}
		r.probeBad()
	}
	return
}
