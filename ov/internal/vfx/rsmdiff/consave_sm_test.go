package rsmdiff

import (
	"fmt"
	"io"
	"runtime"
	"strings"
	"sync"
	"sync/atomic"
	"time"

	"github.com/lni/dragonboat/v4/internal/rsm"
	pb "github.com/lni/dragonboat/v4/raftpb"
	sm "github.com/lni/dragonboat/v4/statemachine"
)

// ------------------------------------------------------------------------
// Instrumentation for the concurrent snapshot unit (consave_test.go): user
// state machines whose Update / PrepareSnapshot / SaveSnapshot can be parked
// by the harness, so that the apply worker goroutine and the snapshot worker
// goroutine of one replica are interleaved under the control of the main
// goroutine.
//
// Everything that is touched by more than one goroutine lives in conHooks and
// is either atomic, guarded by conHooks.mu or handed over through a channel.
// The probe of the embedded plain state machine is only ever touched from
// methods that the code under test runs under StateMachine.mu (Update, Sync,
// PrepareSnapshot), which orders them; SaveSnapshot, the one method that runs
// outside that lock, never touches the probe.

type evKind int

const (
	evSnapTask   evKind = iota // apply worker: Handle returned a snapshot task
	evIdle                     // apply worker: queue drained
	evUpdParked                // apply worker: parked inside the user Update
	evNodeParked               // apply worker: parked in the node callback of an entry (no lock held, task unfinished)
	evSaveParked               // snapshot worker: parked while writing the image
	evSaverDone                // snapshot worker: job finished
	evPanic                    // a panic of the code under test on a worker
	evHandleErr                // Handle returned an error
)

func (k evKind) String() string {
	return [...]string{"snapshot-task", "idle", "update-parked", "node-parked", "save-parked", "saver-done", "panic", "handle-error"}[k]
}

type conEvent struct {
	kind  evKind
	task  rsm.Task
	idx   uint64
	n     int
	res   *saveResult
	who   string
	val   interface{}
	stack string
	err   error
}

type conHooks struct {
	evC         chan conEvent
	abort       chan struct{} // closed when the case is over: every park returns at once
	updRelease  chan struct{}
	saveRelease chan struct{}
	nodeRelease chan struct{}

	parkIndex    uint64 // atomic; the Update call that contains this index parks (0: none)
	nodeParkAt   uint64 // atomic; the apply worker parks in the node's ApplyUpdate callback of this index (0: none)
	syncedLast   uint64 // atomic; on-disk: index of the last entry in the state the user SM's latest completed Sync() made durable
	syncCalls    int32  // atomic; user Sync() calls
	savePark     int32  // atomic; 1: the next image write parks
	prepWait     int32  // atomic; 1: PrepareSnapshot waits (bounded) for the apply worker to queue up on StateMachine.mu
	applyRunning int32  // atomic; 1 while the apply worker is inside its drain loop
	applyHeld    int32  // atomic; 1 while the apply worker is held between two Handle calls

	mu           sync.Mutex
	prepared     []kv // the images PrepareSnapshot handed out, in order
	saved        []kv // the images SaveSnapshot was asked to write, in order
	bad          []string
	prepWaited   int // PrepareSnapshot calls that looked for a queued writer
	prepObserved int // ... and saw the apply worker blocked on StateMachine.mu
	stackBuf     []byte
}

func newConHooks() *conHooks {
	return &conHooks{
		evC:         make(chan conEvent, 64),
		abort:       make(chan struct{}),
		updRelease:  make(chan struct{}, 1),
		saveRelease: make(chan struct{}, 1),
		nodeRelease: make(chan struct{}, 1),
		stackBuf:    make([]byte, 256<<10),
	}
}

func (h *conHooks) send(ev conEvent) {
	select {
	case h.evC <- ev:
	case <-h.abort:
	}
}

// onUpdate runs at the start of every user Update (apply worker, under the
// write lock of the StateMachine).
func (h *conHooks) onUpdate(ents []sm.Entry) {
	p := atomic.LoadUint64(&h.parkIndex)
	if p == 0 {
		return
	}
	for i := range ents {
		if ents[i].Index == p {
			atomic.StoreUint64(&h.parkIndex, 0)
			h.send(conEvent{kind: evUpdParked, idx: p, n: len(ents)})
			select {
			case <-h.updRelease:
			case <-h.abort:
			}
			return
		}
	}
}

// afterEntry runs in the node callback of an applied entry (apply worker,
// outside StateMachine.mu; the task the entry belongs to is not finished, so
// lastApplied has not moved yet). The real callback takes locks of the request
// tables: the apply worker can be delayed here for any length of time.
func (h *conHooks) afterEntry(index uint64) {
	p := atomic.LoadUint64(&h.nodeParkAt)
	if p == 0 || p != index {
		return
	}
	atomic.StoreUint64(&h.nodeParkAt, 0)
	atomic.StoreInt32(&h.applyHeld, 1)
	h.send(conEvent{kind: evNodeParked, idx: index})
	select {
	case <-h.nodeRelease:
	case <-h.abort:
	}
	atomic.StoreInt32(&h.applyHeld, 0)
}

// onPrepare runs inside PrepareSnapshot (snapshot worker, under the read lock).
func (h *conHooks) onPrepare(img kv) {
	h.mu.Lock()
	h.prepared = append(h.prepared, img)
	h.mu.Unlock()
	if !atomic.CompareAndSwapInt32(&h.prepWait, 1, 0) {
		return
	}
	// a slow PrepareSnapshot: the apply worker arrives at StateMachine.mu while
	// the read lock is still held. The wait is bounded and only selects the
	// interleaving; it ends as soon as the apply worker is blocked, idle or held
	seen := false
	for i := 0; i < 300; i++ {
		if atomic.LoadInt32(&h.applyRunning) == 0 || atomic.LoadInt32(&h.applyHeld) == 1 {
			break
		}
		if blk := goroutineBlock(h.stackBuf, conApplyMarker); blk != "" && blockedOnRWMutex(blk) {
			seen = true
			break
		}
		conPause(i)
	}
	h.mu.Lock()
	h.prepWaited++
	if seen {
		h.prepObserved++
	}
	h.mu.Unlock()
}

// parkSave parks the snapshot worker once (while it writes the image).
func (h *conHooks) parkSave() {
	if !atomic.CompareAndSwapInt32(&h.savePark, 1, 0) {
		return
	}
	h.send(conEvent{kind: evSaveParked})
	select {
	case <-h.saveRelease:
	case <-h.abort:
	}
}

// save is the body of the user SaveSnapshot: it writes the prepared image in
// two halves and parks between them.
func (h *conHooks) save(ctx interface{}, w io.Writer, pad int) error {
	c, ok := ctx.(*kv)
	if !ok {
		h.mu.Lock()
		h.bad = append(h.bad, "save-without-prepared-ctx")
		h.mu.Unlock()
		return fmt.Errorf("bad ctx %T", ctx)
	}
	img := *c
	h.mu.Lock()
	h.saved = append(h.saved, img)
	h.mu.Unlock()
	data := img.encode(pad)
	half := len(data) / 2
	if _, err := w.Write(data[:half]); err != nil {
		return err
	}
	h.parkSave()
	rest := data[half:]
	for len(rest) > 0 {
		n := 1000
		if n > len(rest) {
			n = len(rest)
		}
		if _, err := w.Write(rest[:n]); err != nil {
			return err
		}
		rest = rest[n:]
	}
	return nil
}

func conPause(i int) {
	if i < 40 {
		runtime.Gosched()
		return
	}
	time.Sleep(20 * time.Microsecond)
}

const (
	conApplyMarker = "rsmdiff.(*conRun).applyMain("
	conSaverMarker = "rsmdiff.(*conRun).saverMain("
)

// goroutineBlock returns the traceback block of the goroutine whose stack
// contains marker ("" when there is none).
func goroutineBlock(buf []byte, marker string) string {
	n := runtime.Stack(buf, true)
	s := string(buf[:n])
	for len(s) > 0 {
		end := strings.Index(s, "\n\n")
		blk := s
		if end >= 0 {
			blk, s = s[:end], s[end+2:]
		} else {
			s = ""
		}
		if strings.Contains(blk, marker) {
			return blk
		}
	}
	return ""
}

// blockedOnRWMutex tells whether the goroutine of the traceback block is
// waiting inside a sync.RWMutex operation.
func blockedOnRWMutex(blk string) bool {
	nl := strings.IndexByte(blk, '\n')
	if nl < 0 {
		return false
	}
	head := blk[:nl]
	if strings.Contains(head, "running") || strings.Contains(head, "runnable") {
		return false
	}
	if strings.Contains(head, "RWMutex") {
		return true
	}
	return (strings.Contains(head, "semacquire") || strings.Contains(head, "Mutex")) &&
		strings.Contains(blk, "sync.(*RWMutex).")
}

// ---------------------------------------------------------------- concurrent

type hookConSM struct {
	conSM
	h *conHooks
}

var _ sm.IConcurrentStateMachine = (*hookConSM)(nil)
var _ sm.IHash = (*hookConSM)(nil)

func (s *hookConSM) Update(ents []sm.Entry) ([]sm.Entry, error) {
	s.h.onUpdate(ents)
	return s.conSM.Update(ents)
}

func (s *hookConSM) PrepareSnapshot() (interface{}, error) {
	ctx, err := s.conSM.PrepareSnapshot()
	if c, ok := ctx.(*kv); ok && err == nil {
		s.h.onPrepare(*c)
	}
	return ctx, err
}

func (s *hookConSM) SaveSnapshot(ctx interface{}, w io.Writer, fc sm.ISnapshotFileCollection, stopc <-chan struct{}) error {
	return s.h.save(ctx, w, s.p.pad)
}

// ---------------------------------------------------------------- on disk

type hookDiskSM struct {
	diskSM
	h *conHooks
}

var _ sm.IOnDiskStateMachine = (*hookDiskSM)(nil)
var _ sm.IHash = (*hookDiskSM)(nil)

func (s *hookDiskSM) Update(ents []sm.Entry) ([]sm.Entry, error) {
	s.h.onUpdate(ents)
	return s.diskSM.Update(ents)
}

// Sync runs under the write lock of the StateMachine (apply worker: periodic
// sync task; snapshot worker: concurrentSave). What it made durable is
// published for the snapshot worker's oracle.
func (s *hookDiskSM) Sync() error {
	err := s.diskSM.Sync()
	if err == nil {
		atomic.StoreUint64(&s.h.syncedLast, s.store.states[s.store.synced].Last)
		atomic.AddInt32(&s.h.syncCalls, 1)
	}
	return err
}

func (s *hookDiskSM) PrepareSnapshot() (interface{}, error) {
	ctx, err := s.diskSM.PrepareSnapshot()
	if c, ok := ctx.(*kv); ok && err == nil {
		s.h.onPrepare(*c)
	}
	return ctx, err
}

func (s *hookDiskSM) SaveSnapshot(ctx interface{}, w io.Writer, stopc <-chan struct{}) error {
	return s.h.save(ctx, w, s.p.pad)
}

// hookNode is the rsm.INode of A: the fakeNode plus the parking point between
// two entries of a task.
type hookNode struct {
	*fakeNode
	h *conHooks
}

func (n *hookNode) ApplyUpdate(e pb.Entry, r sm.Result, rejected bool, ignored bool, notifyRead bool) {
	n.fakeNode.ApplyUpdate(e, r, rejected, ignored, notifyRead)
	n.h.afterEntry(e.Index)
}

// startHooked is replica.start() with the parkable user state machine: a
// fresh incarnation plus the initial recover task of the node.
func (r *replica) startHooked(h *conHooks) {
	cfg := r.env.cfg
	cfg.ReplicaID = r.replicaID
	inc := &incarnation{id: len(r.past)}
	inc.node = newFakeNode(cfg.ShardID, r.replicaID)
	p := &probe{pad: r.env.pad}
	var ism rsm.IStateMachine
	switch r.env.kind {
	case kConcurrent:
		u := &hookConSM{conSM: conSM{p: p}, h: h}
		inc.usm = u
		ism = rsm.NewConcurrentStateMachine(u)
	case kOnDisk:
		u := &hookDiskSM{diskSM: diskSM{p: p, store: r.store}, h: h}
		inc.usm = u
		ism = rsm.NewOnDiskStateMachine(u)
	default:
		panic("harness: the concurrent snapshot unit needs a concurrent or on-disk state machine")
	}
	inc.nsm = rsm.NewNativeSM(cfg, ism, inc.node.stopc)
	inc.snap = newSnapshotter(r.disk, cfg.ShardID, r.replicaID)
	inc.sm = rsm.NewStateMachine(inc.nsm, inc.snap, cfg, &hookNode{fakeNode: inc.node, h: h}, r.disk.fs)
	inc.sm.Loaded()
	r.cur = inc
	r.doRecover(rsm.Task{Recover: true, Initial: true, NewNode: len(r.past) == 0})
	inc.startAt = inc.sm.GetLastApplied()
	r.pushed = inc.startAt
	if r.store != nil {
		// what Open found is durable
		atomic.StoreUint64(&h.syncedLast, r.store.states[r.store.synced].Last)
	}
}
