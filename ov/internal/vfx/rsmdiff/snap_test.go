package rsmdiff

import (
	"encoding/binary"
	"errors"
	"fmt"

	"github.com/lni/dragonboat/v4/internal/rsm"
	"github.com/lni/dragonboat/v4/internal/server"
	"github.com/lni/dragonboat/v4/internal/utils"
	"github.com/lni/dragonboat/v4/internal/utils/dio"
	"github.com/lni/dragonboat/v4/internal/vfs"
	pb "github.com/lni/dragonboat/v4/raftpb"
	sm "github.com/lni/dragonboat/v4/statemachine"
)

var errNoSnapshot = errors.New("no snapshot available")

// disk is what survives a restart of a replica apart from the on-disk state
// machine's own store: the snapshot directory (on an in-memory vfs) and the
// snapshot record the LogDB holds (kept marshaled, as the LogDB does).
type disk struct {
	fs     vfs.IFS
	root   string
	record []byte
}

func newDisk(name string) *disk {
	fs := vfs.NewMemFS()
	root := "/" + name
	if err := fs.MkdirAll(root, 0o755); err != nil {
		panic(err)
	}
	return &disk{fs: fs, root: root}
}

func (d *disk) latest() (pb.Snapshot, bool) {
	if d.record == nil {
		return pb.Snapshot{}, false
	}
	var ss pb.Snapshot
	if err := ss.Unmarshal(d.record); err != nil {
		panic(fmt.Sprintf("harness: snapshot record does not unmarshal: %v", err))
	}
	return ss, true
}

func (d *disk) setLatest(ss pb.Snapshot) {
	data, err := ss.Marshal()
	if err != nil {
		panic(err)
	}
	d.record = data
}

type savedMeta struct {
	Index       uint64
	Term        uint64
	OnDiskIndex uint64
	LRUSize     uint64
	Sessions    uint64
	SessionLen  int
	Type        rsm.SSReqType
	CT          pb.CompressionType
}

// snapshotter is the in-memory rsm.ISnapshotter. Save / Load / Stream / Shrunk
// follow snapshotter.go of the root package line by line (same writer,
// compressor, SSEnv and file layout); only the file system is in memory and
// the LogDB / LogReader are replaced by disk.record.
type snapshotter struct {
	d           *disk
	shardID     uint64
	replicaID   uint64
	beforeSave  func()
	metas       []savedMeta
	lastSession []byte
	loads       int
}

var _ rsm.ISnapshotter = (*snapshotter)(nil)

func newSnapshotter(d *disk, shardID, replicaID uint64) *snapshotter {
	return &snapshotter{d: d, shardID: shardID, replicaID: replicaID}
}

func (s *snapshotter) rootFn(uint64, uint64) string { return s.d.root }

func (s *snapshotter) getEnv(index uint64) server.SSEnv {
	return server.NewSSEnv(s.rootFn, s.shardID, s.replicaID, index, s.replicaID,
		server.SnapshotMode, s.d.fs)
}

func (s *snapshotter) getCustomEnv(meta rsm.SSMeta) server.SSEnv {
	if meta.Request.Exported() {
		if len(meta.Request.Path) == 0 {
			panic("Path is empty when exporting snapshot")
		}
		gp := func(uint64, uint64) string { return meta.Request.Path }
		return server.NewSSEnv(gp, s.shardID, s.replicaID, meta.Index, s.replicaID,
			server.SnapshotMode, s.d.fs)
	}
	return s.getEnv(meta.Index)
}

func (s *snapshotter) getFilePath(index uint64) string {
	env := s.getEnv(index)
	return env.GetFilepath()
}

func compressionType(ct pb.CompressionType) dio.CompressionType {
	switch ct {
	case pb.NoCompression:
		return dio.NoCompression
	case pb.Snappy:
		return dio.Snappy
	}
	panic(fmt.Sprintf("unknown compression type %d", ct))
}

func (s *snapshotter) GetSnapshot() (pb.Snapshot, error) {
	ss, ok := s.d.latest()
	if !ok || pb.IsEmptySnapshot(ss) {
		return pb.Snapshot{}, errNoSnapshot
	}
	return ss, nil
}

func (s *snapshotter) IsNoSnapshotError(err error) bool {
	return errors.Is(err, errNoSnapshot)
}

func (s *snapshotter) Shrunk(ss pb.Snapshot) (bool, error) {
	return rsm.IsShrunkSnapshotFile(s.getFilePath(ss.Index), s.d.fs)
}

func (s *snapshotter) noteMeta(meta rsm.SSMeta) {
	m := savedMeta{Index: meta.Index, Term: meta.Term, OnDiskIndex: meta.OnDiskIndex,
		Type: meta.Request.Type, CT: meta.CompressionType}
	if meta.Session != nil {
		b := meta.Session.Bytes()
		m.SessionLen = len(b)
		s.lastSession = append([]byte{}, b...)
		if len(b) >= 16 {
			m.LRUSize = binary.LittleEndian.Uint64(b[0:])
			m.Sessions = binary.LittleEndian.Uint64(b[8:])
		}
	}
	s.metas = append(s.metas, m)
}

func (s *snapshotter) Save(savable rsm.ISavable,
	meta rsm.SSMeta) (ss pb.Snapshot, env server.SSEnv, err error) {
	s.noteMeta(meta)
	env = s.getCustomEnv(meta)
	if err := env.CreateTempDir(); err != nil {
		return pb.Snapshot{}, env, err
	}
	files := rsm.NewFileCollection()
	fp := env.GetTempFilepath()
	ct := compressionType(meta.CompressionType)
	w, err := rsm.NewSnapshotWriter(fp, meta.CompressionType, s.d.fs)
	if err != nil {
		return pb.Snapshot{}, env, err
	}
	cw := dio.NewCountedWriter(w)
	sw := dio.NewCompressor(ct, cw)
	defer func() {
		err = utils.FirstError(err, sw.Close())
		if ss.Index > 0 {
			total := cw.BytesWritten()
			ss.Checksum = w.GetPayloadChecksum()
			ss.FileSize = w.GetPayloadSize(total) + rsm.HeaderSize
		}
	}()
	if s.beforeSave != nil {
		// the apply worker keeps running while the snapshot worker is here
		// (concurrent kinds only; the caller decides)
		f := s.beforeSave
		s.beforeSave = nil
		f()
	}
	session := meta.Session.Bytes()
	dummy, err := savable.Save(meta, sw, session, files)
	if err != nil {
		return pb.Snapshot{}, env, err
	}
	fs, err := files.PrepareFiles(env.GetTempDir(), env.GetFinalDir())
	if err != nil {
		return pb.Snapshot{}, env, err
	}
	return pb.Snapshot{
		ShardID:     s.shardID,
		Filepath:    env.GetFilepath(),
		Membership:  meta.Membership,
		Index:       meta.Index,
		Term:        meta.Term,
		OnDiskIndex: meta.OnDiskIndex,
		Files:       fs,
		Dummy:       dummy,
		Type:        meta.Type,
	}, env, nil
}

func (s *snapshotter) Load(ss pb.Snapshot,
	sessions rsm.ILoadable, asm rsm.IRecoverable) (err error) {
	s.loads++
	fp := s.getFilePath(ss.Index)
	fs := make([]sm.SnapshotFile, 0)
	for _, f := range ss.Files {
		fs = append(fs, sm.SnapshotFile{FileID: f.FileId, Filepath: f.Filepath, Metadata: f.Metadata})
	}
	reader, header, err := rsm.NewSnapshotReader(fp, s.d.fs)
	if err != nil {
		return err
	}
	ct := compressionType(header.CompressionType)
	cr := dio.NewDecompressor(ct, reader)
	defer func() {
		err = utils.FirstError(err, cr.Close())
	}()
	v := rsm.SSVersion(header.Version)
	if err := sessions.LoadSessions(cr, v); err != nil {
		return err
	}
	return asm.Recover(cr, fs)
}

func (s *snapshotter) Stream(streamable rsm.IStreamable,
	meta rsm.SSMeta, sink pb.IChunkSink) error {
	s.noteMeta(meta)
	ct := compressionType(meta.CompressionType)
	cw := dio.NewCompressor(ct, rsm.NewChunkWriter(sink, meta))
	if s.beforeSave != nil {
		f := s.beforeSave
		s.beforeSave = nil
		f()
	}
	if err := streamable.Stream(meta.Ctx, cw); err != nil {
		_ = sink.Close()
		return err
	}
	return cw.Close()
}

// commit is snapshotter.Commit + the LogReader.CreateSnapshot step of
// node.doSave. It returns false when the snapshot was abandoned the way
// node.doSave abandons it (final directory already there).
func (s *snapshotter) commit(ss pb.Snapshot, req rsm.SSRequest) (bool, error) {
	env := s.getCustomEnv(rsm.SSMeta{Index: ss.Index, Request: req})
	if err := env.SaveSSMetadata(&ss); err != nil {
		return false, err
	}
	if err := env.FinalizeSnapshot(&ss); err != nil {
		if errors.Is(err, server.ErrSnapshotOutOfDate) {
			env.MustRemoveTempDir()
			return false, nil
		}
		return false, err
	}
	if !req.Exported() {
		s.d.setLatest(ss)
	}
	if err := env.RemoveFlagFile(); err != nil {
		return false, err
	}
	return true, nil
}

// shrink is snapshotter.Shrink.
func (s *snapshotter) shrink(index uint64) error {
	ss, ok := s.d.latest()
	if !ok || ss.Index < index {
		return nil
	}
	if !ss.Dummy && !ss.Witness {
		env := s.getEnv(index)
		fp := env.GetFilepath()
		shrunk := env.GetShrinkedFilepath()
		if err := rsm.ShrinkSnapshot(fp, shrunk, s.d.fs); err != nil {
			return err
		}
		return rsm.ReplaceSnapshot(shrunk, fp, s.d.fs)
	}
	return nil
}

// recvSink is the receiving end of a streamed snapshot: what transport.Chunk
// does with the chunks (validate, append to a file in a receiving temp dir,
// finalize, turn the first chunk into the InstallSnapshot's pb.Snapshot).
type recvSink struct {
	to        *disk
	shardID   uint64
	replicaID uint64
	first     pb.Chunk
	got       int
	done      bool
	closed    bool
	fail      string
	validator *rsm.SnapshotValidator
	ss        pb.Snapshot
	data      []byte
}

func (r *recvSink) ShardID() uint64     { return r.shardID }
func (r *recvSink) ToReplicaID() uint64 { return r.replicaID }
func (r *recvSink) Close() error        { r.closed = true; return nil }

func (r *recvSink) Receive(c pb.Chunk) (bool, bool) {
	if r.done {
		r.fail = "chunk after the last chunk"
		return false, false
	}
	if c.ChunkId != uint64(r.got) {
		r.fail = fmt.Sprintf("chunk id %d, want %d", c.ChunkId, r.got)
		return false, false
	}
	if r.got == 0 {
		r.first = c
		r.validator = rsm.NewSnapshotValidator()
	}
	r.got++
	if !c.IsLastChunk() || len(c.Data) > 0 {
		if !r.validator.AddChunk(c.Data, c.ChunkId) {
			r.fail = fmt.Sprintf("validator rejected chunk %d", c.ChunkId)
			return false, false
		}
	}
	r.data = append(r.data, c.Data...)
	if c.IsLastChunk() {
		r.done = true
		if !r.validator.Validate() {
			r.fail = "validator rejected the reassembled snapshot"
			return false, false
		}
		if err := r.finalize(); err != nil {
			r.fail = err.Error()
			return false, false
		}
	}
	return true, false
}

func (r *recvSink) finalize() error {
	c := r.first
	rootFn := func(uint64, uint64) string { return r.to.root }
	env := server.NewSSEnv(rootFn, c.ShardID, c.ReplicaID, c.Index, c.From,
		server.ReceivingMode, r.to.fs)
	if err := env.CreateTempDir(); err != nil {
		return err
	}
	fn := r.to.fs.PathBase(c.Filepath)
	fp := r.to.fs.PathJoin(env.GetTempDir(), fn)
	f, err := r.to.fs.Create(fp)
	if err != nil {
		return err
	}
	if _, err := f.Write(r.data); err != nil {
		return err
	}
	if err := f.Sync(); err != nil {
		return err
	}
	if err := f.Close(); err != nil {
		return err
	}
	ss := pb.Snapshot{
		Index:       c.Index,
		Term:        c.Term,
		OnDiskIndex: c.OnDiskIndex,
		Membership:  c.Membership,
		Filepath:    r.to.fs.PathJoin(env.GetFinalDir(), fn),
		FileSize:    c.FileSize,
		Witness:     c.Witness,
	}
	if err := env.FinalizeSnapshot(&ss); err != nil {
		return err
	}
	if err := env.RemoveFlagFile(); err != nil {
		return err
	}
	r.ss = ss
	return nil
}
