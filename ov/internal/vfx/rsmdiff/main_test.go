package rsmdiff

import (
	"fmt"
	"os"
	"runtime/debug"
	"strings"
	"testing"

	"github.com/lni/dragonboat/v4/config"
	"github.com/lni/dragonboat/v4/internal/vfhelp"
	"github.com/lni/dragonboat/v4/logger"
	pb "github.com/lni/dragonboat/v4/raftpb"
	"pgregory.net/rapid"
)

func TestMain(m *testing.M) {
	// the code under test logs every rejected request
	for _, n := range []string{"rsm", "raftpb", "server", "fileutil", "utils", "dio", "settings", "raft", "config", "vfs"} {
		logger.GetLogger(n).SetLevel(logger.CRITICAL)
	}
	// every snapshot writer / reader allocates 2 MiB blocks
	debug.SetGCPercent(400)
	os.Exit(m.Run())
}

// sizeOf draws the number of generated entries: mostly small and medium
// streams, some up to the design bound of 300.
func sizeOf(t *rapid.T) int {
	// rapid's integer draws lean towards the low end of a range, so the low
	// class numbers go to the medium sizes
	switch x := rapid.IntRange(0, 19).Draw(t, "sizeClass"); {
	case x < 9:
		return 25 + rapid.IntRange(0, 65).Draw(t, "n")
	case x < 12:
		return 4 + rapid.IntRange(0, 21).Draw(t, "n")
	case x < 18:
		return 80 + rapid.IntRange(0, 100).Draw(t, "n")
	default:
		if vfhelp.Thorough() {
			return 150 + rapid.IntRange(0, 150).Draw(t, "n")
		}
		return 120 + rapid.IntRange(0, 180).Draw(t, "n")
	}
}

func drawCT(t *rapid.T, label string) config.CompressionType {
	if rapid.Bool().Draw(t, label) {
		return config.Snappy
	}
	return config.NoCompression
}

func drawPad(t *rapid.T) int {
	switch rapid.IntRange(0, 3).Draw(t, "padClass") {
	case 0:
		return 0
	case 1:
		return rapid.IntRange(1, 64).Draw(t, "pad")
	default:
		return rapid.IntRange(500, 5000).Draw(t, "pad")
	}
}

func renderStream(ents []pb.Entry, meta []entMeta, max int) []string {
	var out []string
	for i := range ents {
		if i >= max {
			out = append(out, fmt.Sprintf("... %d more", len(ents)-max))
			break
		}
		out = append(out, fmt.Sprintf("%d/t%d %v", ents[i].Index, ents[i].Term, meta[i]))
	}
	return out
}

func canonStream(meta []entMeta) string {
	var sb strings.Builder
	for _, m := range meta {
		sb.WriteString(m.String())
		sb.WriteByte('|')
	}
	return sb.String()
}

func sizeLabel(n int) string {
	switch {
	case n < 25:
		return "n<25"
	case n < 90:
		return "n<90"
	case n < 180:
		return "n<180"
	}
	return "n>=180"
}
