package rsmdiff

import (
	"bytes"
	"errors"
	"fmt"
	"os"
	"runtime"
	"runtime/debug"
	"sync/atomic"
	"testing"
	"time"

	"github.com/lni/dragonboat/v4/config"
	"github.com/lni/dragonboat/v4/internal/raft"
	"github.com/lni/dragonboat/v4/internal/rsm"
	"github.com/lni/dragonboat/v4/internal/vfhelp"
	pb "github.com/lni/dragonboat/v4/raftpb"
	sm "github.com/lni/dragonboat/v4/statemachine"
	"pgregory.net/rapid"
)

// ------------------------------------------------------------------------
// Concurrent snapshot unit (C08 / C05 / C02): the REAL rsm.StateMachine of one
// replica (A) is driven by two goroutines the way the engine drives it - one
// apply worker (engine.processApplies: Handle in a loop) and one snapshot
// worker (node.save -> StateMachine.Save, or node.stream -> StateMachine.Stream
// for an on-disk state machine) - and the main goroutine decides through
// parking hooks in the user state machine how the two interleave:
//
//   - the snapshot request is dequeued by the apply worker between two Handle
//     calls (that is the only way a request reaches a worker);
//   - the worker starts right then (with the apply worker held until the image
//     is being written, or racing freely with it), or only once the user Update
//     that contains entry p is parked inside the write lock (the worker then
//     has to wait for StateMachine.mu), or only after the apply worker has gone
//     idle;
//   - PrepareSnapshot optionally lingers until the apply worker has queued up
//     on StateMachine.mu behind it;
//   - while the worker is parked in the middle of writing the image the apply
//     worker applies k more entries (proposals, session entries, config changes).
//
// Waiting for "the other goroutine is now blocked on the lock" is bounded and
// only selects the interleaving; no verdict depends on it. Whatever index the
// snapshot ends up at, it has to be one atomic cut of the applied stream.

const conWatchdog = 90 * time.Second

var conDead atomic.Bool // a watchdog fired: later cases (shrinking) give up at once

type saveResult struct {
	ss        pb.Snapshot
	skipped   string
	err       error
	commitErr error
	committed bool
	valid     bool
	sink      *recvSink
	saved     bool   // Save returned a snapshot record
	synced    uint64 // on-disk: conHooks.syncedLast right after Save returned
	panicVal  interface{}
	stack     string
}

type conState struct {
	snapTask   *rsm.Task
	idle       bool
	updParked  bool
	parkedN    int
	nodeParked bool
	saveParked bool
	saverDone  bool
	res        *saveResult
	failure    *conEvent
}

// conRun owns the two worker goroutines of replica A for the duration of one case.
type conRun struct {
	t            *rapid.T
	a            *replica
	target       *replica // stream: the replica the snapshot is streamed to
	h            *conHooks
	req          rsm.SSRequest
	stream       bool
	dummy        bool
	cmdC         chan struct{}
	goC          chan struct{}
	applyExited  chan struct{}
	saverExited  chan struct{}
	st           conState
	stackBuf     []byte
	saverStarted bool
	syncTasks    int
	stopped      bool
	cleaned      bool
}

func (cr *conRun) startApply() {
	go cr.applyMain()
}

// applyMain is the apply worker: engine.processApplies for this one replica.
func (cr *conRun) applyMain() {
	defer close(cr.applyExited)
	for range cr.cmdC {
		cr.drainLoop()
		atomic.StoreInt32(&cr.h.applyRunning, 0)
		cr.h.send(conEvent{kind: evIdle})
	}
}

func (cr *conRun) drainLoop() {
	defer func() {
		if r := recover(); r != nil {
			cr.h.send(conEvent{kind: evPanic, who: "handle", val: r, stack: string(debug.Stack())})
		}
	}()
	inc := cr.a.cur
	for guardN := 0; ; guardN++ {
		if guardN > 10000 {
			panic("harness: apply loop does not terminate")
		}
		task, err := inc.sm.Handle(nil, nil)
		if err != nil {
			cr.h.send(conEvent{kind: evHandleErr, err: err})
			return
		}
		if task.IsSnapshotTask() {
			// node.handleSnapshotTask hands the request to the worker pool and the
			// apply worker goes on; the harness decides how long "goes on" takes
			atomic.StoreInt32(&cr.h.applyHeld, 1)
			cr.h.send(conEvent{kind: evSnapTask, task: task})
			select {
			case <-cr.goC:
			case <-cr.h.abort:
				return
			}
			atomic.StoreInt32(&cr.h.applyHeld, 0)
			continue
		}
		if inc.sm.TaskQ().Size() == 0 {
			return
		}
	}
}

func (cr *conRun) startSaver() {
	cr.saverStarted = true
	atomic.StoreInt32(&cr.h.savePark, 1)
	go cr.saverMain()
}

// saverMain is the snapshot worker with its one job.
func (cr *conRun) saverMain() {
	res := &saveResult{}
	defer close(cr.saverExited)
	defer func() {
		if r := recover(); r != nil {
			res.panicVal = r
			res.stack = string(debug.Stack())
		}
		cr.h.send(conEvent{kind: evSaverDone, res: res})
	}()
	if cr.stream {
		cr.doStream(res)
	} else {
		cr.doSave(res)
	}
}

// doSave is node.doSave (see replica.doSave), reporting instead of failing.
func (cr *conRun) doSave(res *saveResult) {
	r, inc := cr.a, cr.a.cur
	latest, _ := r.disk.latest()
	if !cr.req.Exported() && inc.sm.GetLastApplied() <= latest.Index {
		res.skipped = "save:no-progress"
		return
	}
	if cr.dummy {
		// nothing of the user state machine is written into a dummy snapshot:
		// the worker is parked where the snapshotter does its file I/O
		inc.snap.beforeSave = cr.h.parkSave
	}
	ss, env, err := inc.sm.Save(cr.req)
	res.synced = atomic.LoadUint64(&cr.h.syncedLast)
	res.saved = err == nil
	inc.snap.beforeSave = nil
	if err != nil {
		switch {
		case errors.Is(err, sm.ErrSnapshotStopped) || errors.Is(err, sm.ErrSnapshotAborted):
			env.MustRemoveTempDir()
			res.skipped = "save:aborted"
		case errors.Is(err, raft.ErrCompacted) || errors.Is(err, raft.ErrSnapshotOutOfDate):
			res.skipped = "save:out-of-date"
		default:
			res.err = err
		}
		return
	}
	res.ss = ss
	ok, err := inc.snap.commit(ss, cr.req)
	if err != nil {
		res.commitErr = err
		return
	}
	if !ok {
		res.skipped = "save:final-dir-exists"
		return
	}
	res.committed = true
	res.valid = ss.Validate(r.disk.fs)
}

// doStream is node.stream towards cr.target (see replica.streamTo).
func (cr *conRun) doStream(res *saveResult) {
	inc := cr.a.cur
	sink := &recvSink{to: cr.target.disk, shardID: cr.a.env.cfg.ShardID, replicaID: cr.target.replicaID}
	res.sink = sink
	if err := inc.sm.Stream(sink); err != nil {
		res.err = err
		return
	}
	if sink.fail != "" || !sink.done || !sink.closed {
		res.err = fmt.Errorf("stream incomplete: fail=%q done=%t closed=%t", sink.fail, sink.done, sink.closed)
		return
	}
	res.ss = sink.ss
	res.committed = true
	res.valid = true
}

func (cr *conRun) note(ev conEvent) {
	switch ev.kind {
	case evSnapTask:
		tk := ev.task
		cr.st.snapTask = &tk
	case evIdle:
		cr.st.idle = true
	case evUpdParked:
		cr.st.updParked = true
		cr.st.parkedN = ev.n
	case evNodeParked:
		cr.st.nodeParked = true
	case evSaveParked:
		cr.st.saveParked = true
	case evSaverDone:
		cr.st.saverDone = true
		cr.st.res = ev.res
		if ev.res.panicVal != nil && cr.st.failure == nil {
			cr.st.failure = &conEvent{kind: evPanic, who: "save", val: ev.res.panicVal, stack: ev.res.stack}
		}
	case evPanic, evHandleErr:
		if cr.st.failure == nil {
			e := ev
			cr.st.failure = &e
		}
	}
}

func (cr *conRun) poll() {
	for {
		select {
		case ev := <-cr.h.evC:
			cr.note(ev)
		default:
			return
		}
	}
}

func (cr *conRun) checkFailure() {
	f := cr.st.failure
	if f == nil {
		return
	}
	if f.kind == evHandleErr {
		vfhelp.Fail(cr.t, "consave-handle-error", "A: Handle returned %v", f.err)
	}
	vfhelp.Fail(cr.t, "consave-panic-"+f.who, "A: panic on the %s worker: %v\n%s", f.who, f.val, f.stack)
}

// wait blocks the main goroutine until pred holds. The watchdog is not a
// verdict: a case that does not make progress is reported as inconclusive.
func (cr *conRun) wait(what string, pred func() bool) {
	for {
		cr.checkFailure()
		if pred() {
			return
		}
		select {
		case ev := <-cr.h.evC:
			cr.note(ev)
		case <-time.After(conWatchdog):
			conDead.Store(true)
			buf := make([]byte, 1<<20)
			n := runtime.Stack(buf, true)
			fmt.Fprintf(os.Stderr, "consave watchdog while waiting for %s, state %+v\n%s\n", what, cr.st, buf[:n])
			cr.t.Fatalf("VFINCONCLUSIVE consave: no progress for %v while waiting for %s", conWatchdog, what)
		}
	}
}

func (cr *conRun) drain() {
	cr.st.idle = false
	atomic.StoreInt32(&cr.h.applyRunning, 1)
	cr.cmdC <- struct{}{}
}

func (cr *conRun) waitIdle() {
	cr.wait("the apply worker to drain its queue", func() bool { return cr.st.idle })
}

// feed hands A the entries (pushed, upTo] in generated task sizes and lets the
// apply worker drain them burst by burst.
func (cr *conRun) feed(ents []pb.Entry, upTo uint64, label string) {
	from := cr.a.pushed + 1
	if upTo < from {
		return
	}
	tasks := chunks(cr.t, ents[from-1:upTo], 8, label+"Task")
	for len(tasks) > 0 {
		k := rapid.IntRange(1, 3).Draw(cr.t, label+"Burst")
		if k > len(tasks) {
			k = len(tasks)
		}
		for _, tk := range tasks[:k] {
			if cr.a.store != nil && rapid.IntRange(0, 4).Draw(cr.t, label+"Sync") == 0 {
				// the node's sync timer fired (node.runSyncTask)
				cr.a.addSync()
				cr.syncTasks++
			}
			cr.a.add(tk)
		}
		tasks = tasks[k:]
		cr.drain()
		cr.waitIdle()
	}
}

// awaitSaverBlocked gives the snapshot worker a bounded amount of time to run
// into StateMachine.mu. Returns whether it was seen blocked there.
func (cr *conRun) awaitSaverBlocked() bool {
	for i := 0; i < 400; i++ {
		cr.poll()
		if cr.st.saveParked || cr.st.saverDone || cr.st.failure != nil {
			return false
		}
		if blk := goroutineBlock(cr.stackBuf, conSaverMarker); blk != "" && blockedOnRWMutex(blk) {
			return true
		}
		conPause(i)
	}
	return false
}

func (cr *conRun) stop() {
	if cr.stopped {
		return
	}
	cr.stopped = true
	close(cr.cmdC)
	select {
	case <-cr.applyExited:
	case <-time.After(conWatchdog):
		conDead.Store(true)
		cr.t.Fatalf("VFINCONCLUSIVE consave: the apply worker does not exit")
	}
}

// cleanup ends both workers whatever state the case is in.
func (cr *conRun) cleanup() {
	if cr.cleaned {
		return
	}
	cr.cleaned = true
	close(cr.h.abort)
	if !cr.stopped {
		cr.stopped = true
		close(cr.cmdC)
	}
	for _, c := range []chan struct{}{cr.applyExited, cr.saverExited} {
		if c == cr.saverExited && !cr.saverStarted {
			continue
		}
		select {
		case <-c:
		case <-time.After(10 * time.Second):
			conDead.Store(true)
		}
	}
}

// ------------------------------------------------------------------------

type conCase struct {
	tr      *twinRun // a = uninterrupted reference R, b = A (two goroutines), c = C
	env     *caseEnv
	kind    smKind
	limit   int
	g       *streamGen
	planner *replica
	fedP    int
	variant string // restart | install | stream
	// plan
	p, a, b      uint64
	k            int
	n            uint64
	startBetween bool
	hold         bool
	parkUpdate   bool
	prepWait     bool
	parkAfter    bool   // the apply worker is held in the node callback of p (task unfinished, no lock held)
	syncPlan     string // on-disk: "", "sync-before-request", "sync-after-request": the periodic sync catches up right before p's task
	req          rsm.SSRequest
	// what happened
	mode               string
	updParked          bool
	parkedBatch        int
	startedWhileParked bool
	sawBlocked         bool
	nodeParked         bool   // the apply worker was held between two entries of p's task
	pTaskBatched       bool   // p's task goes through the batched update path
	pTaskLen, pPos     int    // size of p's task, position of p in it (1-based)
	savedMidTask       bool   // the worker prepared and wrote the snapshot while the apply worker was held mid-task
	syncedEqApplied    bool   // syncedIndex == lastApplied when the worker was started with the apply worker parked
	syncTasks          int
	lo, hi             uint64 // the snapshot index has to lie in [lo, hi]
	racedTo            uint64 // index A had applied when the worker was let go
	res                *saveResult
	metaSS             savedMeta
	sessSS             []byte
	ssIndex            uint64
	hooks              *conHooks
	viewAn, viewRs     view
	viewRn, viewC0     view
	viewCn             view
	metaA, metaC       savedMeta
	metaRs, metaRn     savedMeta
	sessA, sessC       []byte
	sessRs, sessRn     []byte
	memRs              string
	atRecover          uint64
	feedFrom           uint64
	openIdx            uint64
	cInc               *incarnation
	forcedDups         int
}

// advance lets the planner replica apply what the generator produced and the
// session model consume what the planner's node observed.
func (cc *conCase) advance(t *rapid.T) {
	g, tr := cc.g, cc.tr
	if cc.fedP < len(g.ents) {
		cc.planner.add(g.ents[cc.fedP:])
		cc.planner.run()
	}
	for i := cc.fedP; i < len(g.ents); i++ {
		idx := uint64(i + 1)
		v, sig, msg := tr.model.step(idx, g.meta[i], cc.planner.cur.node.byIndex[idx])
		if sig != "" {
			vfhelp.Fail(t, "consave-P-"+sig, "planner replica (limit %d, %v): %s", cc.limit, cc.kind, msg)
		}
		tr.verdicts = append(tr.verdicts, v)
		tr.refAt = append(tr.refAt, tr.model.ref)
	}
	cc.fedP = len(g.ents)
}

type landing struct {
	tm    *tmpl
	stale bool
}

// nearTemplates lists the client entries whose first (applied) copy lies
// close to p and that the client - or the network - may deliver again.
func (cc *conCase) nearTemplates() []landing {
	if cc.p == 0 {
		return nil
	}
	ids := map[int]bool{}
	lo := uint64(1)
	if cc.p > 4 {
		lo = cc.p - 4
	}
	for idx := lo; idx <= cc.p+8 && idx <= uint64(len(cc.g.meta)); idx++ {
		if em := cc.g.meta[idx-1]; em.Kind == ekProposal && cc.tr.verdicts[idx-1].Exp == exApplied {
			ids[em.Tmpl] = true
		}
	}
	var out []landing
	for _, c := range cc.g.clients {
		if c.state == 1 && c.cur != nil && ids[c.cur.id] {
			out = append(out, landing{c.cur, false})
		}
		if c.state == 1 || c.state == 2 {
			for _, o := range c.old {
				if ids[o.id] {
					out = append(out, landing{o, true})
				}
			}
		}
	}
	return out
}

func (cc *conCase) genStep(t *rapid.T, forceOneIn int) {
	if forceOneIn > 0 && rapid.IntRange(0, forceOneIn-1).Draw(t, "forceDup") == 0 {
		if cands := cc.nearTemplates(); len(cands) > 0 {
			l := cands[rapid.IntRange(0, len(cands)-1).Draw(t, "forcedTmpl")]
			cc.g.land(l.tm, l.stale)
			cc.forcedDups++
			cc.advance(t)
			return
		}
	}
	cc.g.step(t)
	cc.advance(t)
}

// conFlavour distinguishes the three registrations of the unit: they share the
// body, but not the cases (salt shifts the random stream the driver hands to
// all three with the same seed) nor the mix of state machine kinds.
type conFlavour struct {
	salt     int
	onDiskIn int // one case in onDiskIn uses an on-disk state machine (0: never)
}

func genConCase(t *rapid.T, fl conFlavour) *conCase {
	cc := &conCase{}
	for i := 0; i < fl.salt; i++ {
		rapid.Uint64().Draw(t, "salt")
	}
	tr := &twinRun{viewA: map[uint64]view{}, viewC: map[uint64]view{}}
	cc.tr = tr
	cc.kind = kConcurrent
	if fl.onDiskIn > 0 && rapid.IntRange(1, fl.onDiskIn).Draw(t, "kind") == fl.onDiskIn {
		cc.kind = kOnDisk
	}
	tr.kind = cc.kind
	cc.limit = rapid.IntRange(2, 6).Draw(t, "lruLimit")
	tr.limit = cc.limit
	env := &caseEnv{t: t, kind: cc.kind, pad: drawPad(t)}
	env.cfg = config.Config{ShardID: 1, ReplicaID: 1,
		SnapshotCompressionType: drawCT(t, "snapshotSnappy"),
		EntryCompressionType:    drawCT(t, "entrySnappy"),
		OrderedConfigChange:     rapid.IntRange(0, 2).Draw(t, "ordered") == 0}
	cc.env, tr.env = env, env
	rsm.LRUMaxSessionCount = uint64(cc.limit)

	o := genOpts{sessions: cc.kind != kOnDisk, entryCT: env.cfg.EntryCompressionType,
		clients: rapid.IntRange(1, cc.limit+2).Draw(t, "clients"), boot: rapid.IntRange(1, 3).Draw(t, "boot"), ccW: 6}
	defaultWeights(&o)
	o.recentN = cc.limit
	if cc.kind == kOnDisk {
		o.wNoop, o.wEmpty = 30, 5
	} else if rapid.IntRange(0, 3).Draw(t, "noopHeavy") == 0 {
		o.wNoop = 40
	}
	o.wDupCur, o.wDupStale = 18, 12
	g := newStreamGen(o)
	cc.g = g
	cc.planner = newReplica(env, "P", 9)
	cc.planner.start()
	g.memFn = func() pb.Membership { return cc.planner.cur.sm.GetMembership() }
	g.ccidFn = func() uint64 { return cc.planner.cur.sm.GetMembership().ConfigChangeId }
	tr.model = newSessModel(cc.limit)
	tr.refAt = []kv{{}}
	g.bootstrap(t)
	cc.advance(t)

	// a prefix, mostly short
	n1 := rapid.IntRange(0, 30).Draw(t, "prefix")
	if rapid.IntRange(0, 5).Draw(t, "longPrefix") == 0 {
		n1 += rapid.IntRange(10, 60).Draw(t, "prefixMore")
	}
	for i := 0; i < n1; i++ {
		cc.genStep(t, 0)
	}
	// the entry whose user Update can be parked: something that reaches the
	// user state machine, preferably a proposal of a registered session
	normal := g.o
	for try := 0; try < 6 && cc.p == 0; try++ {
		f := normal
		f.wNew, f.wDupStale, f.wUnreg, f.wDupSess, f.wUnknown, f.wEmpty, f.ccW = 0, 0, 0, 0, 0, 0, 0
		f.wPropose, f.wDupCur, f.wNoop = 60, 10, 6
		g.o = f
		cc.genStep(t, 0)
		g.o = normal
		if last := len(g.ents); tr.verdicts[last-1].Exp == exApplied {
			cc.p = uint64(last)
		}
	}
	if cc.kind == kOnDisk && cc.p > 0 && rapid.Bool().Draw(t, "mixedTask") {
		// something that is not a NoOP-session update next to p: the task that
		// contains both does not take the batched update path
		f := normal
		f.wNoop, f.wEmpty, f.ccW = 0, 10, 10
		g.o = f
		cc.genStep(t, 0)
		g.o = normal
	}
	// what follows closely: retries of the proposals around p, membership changes
	near := normal
	near.wDupCur = 40
	if rapid.Bool().Draw(t, "ccHeavy") {
		near.ccW = 30
	}
	g.o = near
	for i, m := 0, rapid.IntRange(0, 12).Draw(t, "near"); i < m; i++ {
		cc.genStep(t, 3)
	}
	g.o = normal
	for i, m := 0, rapid.IntRange(0, 40).Draw(t, "tail"); i < m; i++ {
		cc.genStep(t, 5)
	}
	tr.ents, tr.meta, tr.boot = g.ents, g.meta, o.boot
	cc.n = uint64(len(g.ents))
	tr.n = cc.n

	// ---------------------------------------------------------------- plan
	boot := uint64(o.boot)
	q := uint64(rapid.IntRange(0, 4).Draw(t, "q"))
	cc.k = rapid.IntRange(0, 6).Draw(t, "k")
	if cc.p > 0 {
		maxD := cc.p - 1 - boot
		if maxD > 4 {
			maxD = 4
		}
		cc.a = cc.p - 1 - uint64(rapid.IntRange(0, int(maxD)).Draw(t, "d"))
		cc.b = cc.p + q
		cc.parkUpdate = rapid.IntRange(0, 3).Draw(t, "parkUpdate") > 0
	} else {
		cc.a = uint64(rapid.IntRange(int(boot), int(cc.n)).Draw(t, "a"))
		cc.b = cc.a + q
	}
	if cc.b > cc.n {
		cc.b = cc.n
	}
	if cc.b+uint64(cc.k) > cc.n {
		cc.k = int(cc.n - cc.b)
	}
	cc.startBetween = rapid.Bool().Draw(t, "startBetween")
	if cc.startBetween {
		cc.hold = rapid.Bool().Draw(t, "hold")
	}
	cc.prepWait = rapid.IntRange(0, 3).Draw(t, "prepWait") > 0
	if cc.p > 0 {
		cc.parkAfter = rapid.IntRange(0, 2).Draw(t, "parkAfter") > 0
	}
	if cc.kind == kOnDisk && cc.p > 0 {
		cc.syncPlan = []string{"", "sync-before-request", "sync-after-request"}[rapid.IntRange(0, 2).Draw(t, "syncPlan")]
		if cc.syncPlan != "" {
			// the point of the plan is a Save in the middle of p's task
			cc.parkAfter, cc.hold = true, false
		}
		if cc.syncPlan != "" && cc.b == cc.p && cc.p < cc.n {
			// p is not the last entry of its task
			cc.b++
			if cc.b+uint64(cc.k) > cc.n {
				cc.k = int(cc.n - cc.b)
			}
		}
	}
	switch cc.kind {
	case kConcurrent:
		cc.variant = []string{"restart", "install"}[rapid.IntRange(0, 1).Draw(t, "variant")]
		if rapid.Bool().Draw(t, "userRequested") {
			cc.req.Type = rsm.UserRequested
		}
	case kOnDisk:
		cc.variant = []string{"stream", "restart"}[rapid.IntRange(0, 1).Draw(t, "variant")]
	}
	tr.variant = cc.variant
	return cc
}

// runA executes replica A with its two workers.
func (cc *conCase) runA(t *rapid.T) {
	ents := cc.tr.ents
	h := newConHooks()
	cc.hooks = h
	a := newReplica(cc.env, "A", 1)
	cc.tr.b = a
	a.startHooked(h)
	cr := &conRun{t: t, a: a, h: h, req: cc.req,
		stream: cc.variant == "stream", dummy: cc.kind == kOnDisk && cc.variant != "stream",
		cmdC: make(chan struct{}), goC: make(chan struct{}, 1),
		applyExited: make(chan struct{}), saverExited: make(chan struct{}),
		stackBuf: make([]byte, 256<<10)}
	if cr.stream {
		// the follower the leader decided to send a full snapshot to
		c := newReplica(cc.env, "C", 2)
		c.start()
		cc.tr.c = c
		cr.target = c
	}
	defer cr.cleanup()
	cr.startApply()

	cr.feed(ents, cc.a, "pre")
	// the request, with entries already queued behind it
	if cc.syncPlan == "sync-before-request" {
		a.addSync()
		cr.syncTasks++
	}
	if cr.stream {
		a.cur.sm.TaskQ().Add(rsm.Task{Stream: true, ShardID: cc.env.cfg.ShardID, ReplicaID: cr.target.replicaID})
	} else {
		a.addSave(cc.req)
	}
	if cc.syncPlan == "sync-after-request" {
		a.addSync()
		cr.syncTasks++
	}
	if cc.b > cc.a {
		var mid [][]pb.Entry
		if cc.syncPlan != "" {
			// one task: lastApplied stays where the periodic sync found it until
			// the whole task has been applied
			mid = [][]pb.Entry{ents[cc.a:cc.b]}
		} else {
			mid = chunks(t, ents[cc.a:cc.b], 8, "midTask")
		}
		for _, tk := range mid {
			if cc.syncPlan == "" && a.store != nil && rapid.IntRange(0, 4).Draw(t, "midSync") == 0 {
				a.addSync()
				cr.syncTasks++
			}
			a.add(tk)
			if cc.p >= tk[0].Index && cc.p <= tk[len(tk)-1].Index {
				// rsm.getEntryTypes: the batched path holds the write lock across the
				// node callbacks, nothing can be parked there
				allUpdate, allNoOP := true, true
				for i := range tk {
					allUpdate = allUpdate && tk[i].IsUpdateEntry()
					allNoOP = allNoOP && tk[i].IsNoOPSession()
				}
				cc.pTaskBatched = allUpdate && allNoOP
				cc.pTaskLen, cc.pPos = len(tk), int(cc.p-tk[0].Index)+1
			}
		}
	}
	if cc.parkUpdate {
		atomic.StoreUint64(&h.parkIndex, cc.p)
	}
	if cc.parkAfter && cc.pTaskLen > 0 && !cc.pTaskBatched {
		atomic.StoreUint64(&h.nodeParkAt, cc.p)
	} else {
		cc.parkAfter = false
	}
	if cc.prepWait && !(cc.startBetween && cc.hold) {
		atomic.StoreInt32(&h.prepWait, 1)
	}
	cr.drain()
	cr.wait("the snapshot request to be dequeued", func() bool { return cr.st.snapTask != nil || cr.st.idle })
	if cr.st.snapTask == nil {
		panic("harness: the apply worker went idle without returning the snapshot request")
	}
	if cr.stream && !a.cur.sm.ReadyToStream() {
		panic("harness: a replica that never restarted is always ready to stream")
	}
	cc.mode = "after-apply-idle"
	if cc.startBetween {
		cc.lo = cc.a
		cr.startSaver()
		cc.mode = "between-handles-racing"
		if cc.hold {
			cc.mode = "between-handles-apply-held"
			cr.wait("the snapshot worker to reach the image write", func() bool { return cr.st.saveParked || cr.st.saverDone })
			cc.hi = cc.a
		}
	}
	cr.goC <- struct{}{}
	if cc.parkUpdate {
		cr.wait("the user Update to park", func() bool { return cr.st.updParked || cr.st.idle })
		if cr.st.updParked {
			cc.updParked = true
			cc.parkedBatch = cr.st.parkedN
			if !(cr.st.saveParked || cr.st.saverDone) {
				cc.syncedEqApplied = a.cur.sm.GetSyncedIndex() == a.cur.sm.GetLastApplied()
			}
			if !cr.saverStarted {
				cc.lo = cc.p
				cc.startedWhileParked = true
				cc.mode = "while-update-parked"
				cr.startSaver()
			}
			if !(cr.st.saveParked || cr.st.saverDone) {
				cc.sawBlocked = cr.awaitSaverBlocked()
			}
			cr.st.updParked = false
			h.updRelease <- struct{}{}
		}
	}
	if cc.parkAfter {
		cr.wait("the apply worker to reach the node callback of p", func() bool { return cr.st.nodeParked || cr.st.idle })
		if cr.st.nodeParked {
			// p is applied, its task is not finished, no lock is held
			cc.nodeParked = true
			if !cr.saverStarted {
				cc.lo = cc.p
				cc.mode = "apply-held-mid-task"
				cc.syncedEqApplied = a.cur.sm.GetSyncedIndex() == a.cur.sm.GetLastApplied()
				cr.startSaver()
			}
			wasParked := cr.st.saveParked || cr.st.saverDone
			cr.wait("the snapshot worker to reach the image write", func() bool { return cr.st.saveParked || cr.st.saverDone })
			if cc.hi == 0 {
				cc.hi = cc.p
			}
			cc.savedMidTask = !wasParked
			h.nodeRelease <- struct{}{}
		}
	}
	cr.waitIdle()
	if !cr.saverStarted {
		cc.lo = cc.b
		cr.startSaver()
	}
	cr.wait("the snapshot worker to reach the image write", func() bool { return cr.st.saveParked || cr.st.saverDone })
	if cc.hi == 0 {
		cc.hi = cc.b
	}
	cc.racedTo = a.pushed
	if cr.st.saveParked && !cr.st.saverDone {
		// the apply worker goes on while the image is being written
		hi := cc.b + uint64(cc.k)
		if hi > a.pushed {
			for _, tk := range chunks(t, ents[a.pushed:hi], 8, "raceTask") {
				a.add(tk)
			}
			cr.drain()
			cr.waitIdle()
		}
		cc.racedTo = a.pushed
		h.saveRelease <- struct{}{}
		cr.wait("the snapshot worker to finish", func() bool { return cr.st.saverDone })
	}
	atomic.StoreInt32(&h.prepWait, 0)
	atomic.StoreUint64(&h.parkIndex, 0)
	atomic.StoreUint64(&h.nodeParkAt, 0)
	cc.res = cr.st.res
	// A simply continues
	cr.feed(ents, cc.n, "rest")
	cr.stop()
	cr.poll()
	cr.checkFailure()
	cc.syncTasks = cr.syncTasks
}

func (cc *conCase) who() string {
	return fmt.Sprintf("%s/%s %s p=%d a=%d b=%d k=%d parked=%t(batch %d) saver-seen-blocked=%t held-mid-task=%t(p is %d of %d) sync-plan=%q sync-tasks=%d snapshot=%d",
		cc.kind, cc.variant, cc.mode, cc.p, cc.a, cc.b, cc.k, cc.updParked, cc.parkedBatch, cc.sawBlocked, cc.nodeParked, cc.pPos, cc.pTaskLen,
		cc.syncPlan, cc.syncTasks, cc.ssIndex)
}

// finish evaluates the worker's job, builds R and C and compares.
func (cc *conCase) finish(t *rapid.T) {
	tr, a, h := cc.tr, cc.tr.b, cc.hooks
	ents, n := tr.ents, cc.n
	res := cc.res
	if res == nil {
		panic("harness: no result of the snapshot worker")
	}
	switch {
	case res.err != nil:
		vfhelp.Fail(t, "consave-save-error", "%s: the snapshot worker failed: %v", cc.who(), res.err)
	case res.commitErr != nil:
		vfhelp.Fail(t, "consave-save-commit-error", "%s: commit of snapshot %d failed: %v", cc.who(), res.ss.Index, res.commitErr)
	case res.committed && !res.valid:
		vfhelp.Fail(t, "consave-save-invalid-snapshot", "%s: generated snapshot %d does not validate", cc.who(), res.ss.Index)
	}
	if cc.kind == kOnDisk && res.saved && !cc.req.Exported() && res.synced < res.ss.OnDiskIndex {
		// IOnDiskStateMachine: only what Sync() covered survives a crash; concurrentSave
		// prepares, syncs, then writes the record - the record must not promise more
		vfhelp.Fail(t, "consave-ondisk-snapshot-ahead-of-synced-state", "%s: Save returned the snapshot record index %d OnDiskIndex %d, but the last Sync() of the user state machine that had returned by then covered entries up to %d only (%d Sync calls): after a crash the state machine reopens below the snapshot it is supposed to contain",
			cc.who(), res.ss.Index, res.ss.OnDiskIndex, res.synced, atomic.LoadInt32(&h.syncCalls))
	}
	if res.committed {
		cc.ssIndex = res.ss.Index
		if len(a.cur.snap.metas) == 0 {
			panic("harness: snapshot without recorded meta")
		}
		cc.metaSS = a.cur.snap.metas[0]
		cc.sessSS = append([]byte{}, a.cur.snap.lastSession...)
		a.saves = append(a.saves, saveRec{Index: res.ss.Index, Term: res.ss.Term, Dummy: res.ss.Dummy,
			Raced: int(cc.racedTo - res.ss.Index), Inc: a.cur.id})
	} else if res.skipped != "" {
		a.skipped = append(a.skipped, res.skipped)
	}
	tr.ssIndex = cc.ssIndex
	ss := cc.ssIndex

	// A at the end of the log, and what it would put into its next snapshot
	cc.viewAn = a.view()
	cc.metaA, cc.sessA, _ = probeSave(a)

	// R: one goroutine, never interrupted
	r := newReplica(cc.env, "R", 3)
	tr.a = r
	r.start()
	if ss > 0 {
		feedTo(t, r, ents, ss, "r")
		cc.viewRs = r.view()
		var mem pb.Membership
		cc.metaRs, cc.sessRs, mem = probeSave(r)
		cc.memRs = canonMembership(mem)
	}
	feedTo(t, r, ents, n, "r")
	cc.viewRn = r.view()
	cc.metaRn, cc.sessRn, _ = probeSave(r)
	for idx := uint64(1); idx <= n; idx++ {
		po, ro := cc.planner.cur.node.byIndex[idx], r.cur.node.byIndex[idx]
		if len(po) != len(ro) || (len(po) == 1 && !sameOutcome(po[0], ro[0])) {
			vfhelp.Fail(t, "consave-reference-replicas-differ", "index %d %v: planner %v, R %v", idx, tr.meta[idx-1], po, ro)
		}
	}

	if ss == 0 {
		cc.compareEnd(t, "A", cc.viewAn, cc.metaA, cc.sessA)
		tr.checkIncarnation(t, a, a.cur, "consave", false)
		cc.probes(t)
		return
	}

	// ---------------------------------------------------------------- the snapshot itself
	if cc.metaSS.Index != ss {
		vfhelp.Fail(t, "consave-snapshot-index-mismatch", "%s: the state machine prepared a snapshot at %d, the record says %d", cc.who(), cc.metaSS.Index, ss)
	}
	if ss < cc.lo || ss > cc.hi {
		vfhelp.Fail(t, "consave-snapshot-index-outside-window", "%s: the worker started with %d applied and was writing the image when %d was applied, snapshot index %d",
			cc.who(), cc.lo, cc.hi, ss)
	}
	if res.ss.Term != ents[ss-1].Term || cc.metaSS.Term != ents[ss-1].Term {
		vfhelp.Fail(t, "consave-snapshot-term", "%s: snapshot %d carries term %d (meta %d), the entry has term %d", cc.who(), ss, res.ss.Term, cc.metaSS.Term, ents[ss-1].Term)
	}
	h.mu.Lock()
	prepared := append([]kv{}, h.prepared...)
	saved := append([]kv{}, h.saved...)
	hbad := append([]string{}, h.bad...)
	h.mu.Unlock()
	if len(hbad) > 0 {
		vfhelp.Fail(t, "consave-usm-contract-"+sigWord(hbad[0]), "%s: user SM saw %v", cc.who(), hbad)
	}
	dummy := cc.kind == kOnDisk && cc.variant != "stream"
	if !dummy {
		if len(prepared) == 0 || len(saved) == 0 {
			vfhelp.Fail(t, "consave-image-not-written", "%s: PrepareSnapshot calls %d, SaveSnapshot calls %d", cc.who(), len(prepared), len(saved))
		}
		if prepared[0] != tr.refAt[ss] {
			vfhelp.Fail(t, "consave-snapshot-image-not-at-snapshot-index", "%s: the snapshot says index %d, PrepareSnapshot handed out the user state %v (last entry folded in: %d); the state of the full replay at %d is %v",
				cc.who(), ss, prepared[0], prepared[0].Last, ss, tr.refAt[ss])
		}
		if saved[0] != prepared[0] {
			vfhelp.Fail(t, "consave-saved-image-not-the-prepared-one", "%s: SaveSnapshot was handed %v, PrepareSnapshot returned %v", cc.who(), saved[0], prepared[0])
		}
	} else if len(prepared) > 1 || len(saved) > 1 {
		// (one of each belongs to the final probe)
		vfhelp.Fail(t, "consave-dummy-snapshot-wrote-image", "%s: dummy snapshot but PrepareSnapshot calls %d, SaveSnapshot calls %d", cc.who(), len(prepared), len(saved))
	}
	if cc.kind == kOnDisk && cc.metaSS.OnDiskIndex != tr.refAt[ss].Last {
		vfhelp.Fail(t, "consave-ondisk-index-not-at-snapshot-index", "%s: snapshot %d says OnDiskIndex %d, the last entry the user SM had at %d is %d",
			cc.who(), ss, cc.metaSS.OnDiskIndex, ss, tr.refAt[ss].Last)
	}

	// ---------------------------------------------------------------- C
	var c *replica
	switch cc.variant {
	case "restart":
		// A goes down at the end of the log and comes back from its snapshot
		a.restart(drawCrashPos(t, a, "c"))
		c = a
		cc.openIdx = c.cur.openIndex
		tr.openIdx = cc.openIdx
	case "install":
		// a fresh StateMachine on the snapshot directory / LogDB record A produced
		c = newReplica(cc.env, "C", 2)
		c.disk = a.disk
		c.start()
	case "stream":
		c = tr.c
		c.disk.setLatest(res.ss)
		c.addRecover(ss)
		if rapid.Bool().Draw(t, "behindRecover") {
			hi := ss + uint64(rapid.IntRange(1, 4).Draw(t, "behindN"))
			if hi > n {
				hi = n
			}
			c.add(ents[ss:hi])
		}
		c.run()
	}
	if cc.variant == "stream" && len(c.cur.recovers) > 0 {
		// node.recover: Recover, Sync, only then the received file is shrunk to a stub
		if got := c.store.states[c.store.synced].Last; got < res.ss.OnDiskIndex {
			vfhelp.Fail(t, "consave-ondisk-recovered-snapshot-not-synced", "%s: C recovered the streamed snapshot %d (OnDiskIndex %d) and shrunk it, the user state machine has synced up to %d only",
				cc.who(), ss, res.ss.OnDiskIndex, got)
		}
	}
	tr.c = c
	cc.cInc = c.cur
	tr.cInc = c.cur
	if len(c.cur.recovers) == 0 || c.cur.recovers[len(c.cur.recovers)-1].Index != ss {
		vfhelp.Fail(t, "consave-snapshot-not-recovered", "%s: snapshot %d was not recovered by C (recovers %v, skipped %v)", cc.who(), ss, c.cur.recovers, c.skipped)
	}
	cc.atRecover = c.cur.sm.GetLastApplied()
	if cc.variant != "stream" {
		cc.viewC0 = c.view()
	}
	cc.feedFrom = cc.atRecover + 1
	if cc.variant != "stream" && rapid.IntRange(0, 2).Draw(t, "overlap") > 0 {
		back := uint64(rapid.IntRange(1, 6).Draw(t, "overlapBy"))
		if back > cc.atRecover {
			back = cc.atRecover
		}
		cc.feedFrom = cc.atRecover + 1 - back
		hi := cc.atRecover + uint64(rapid.IntRange(0, 4).Draw(t, "overlapBeyond"))
		if hi > n {
			hi = n
		}
		c.add(ents[cc.feedFrom-1 : hi])
		c.run()
	}
	tr.feedFrom = cc.feedFrom
	feedTo(t, c, ents, n, "c")
	cc.viewCn = c.view()
	cc.metaC, cc.sessC, _ = probeSave(c)

	// the at-most-once clause, stated directly: nothing that the full replay
	// answers from the session table reaches C's user state machine
	for _, inc := range c.incs() {
		if inc.id < cc.cInc.id && c == a {
			continue
		}
		for _, u := range inc.usm.pr().updates {
			if u.Index <= ss {
				vfhelp.Fail(t, "consave-entry-below-snapshot-reapplied", "%s: C restored from snapshot %d was handed entry %d (%v) again", cc.who(), ss, u.Index, tr.meta[u.Index-1])
			}
			em, v := tr.meta[u.Index-1], tr.verdicts[u.Index-1]
			if em.Kind == ekProposal && (v.Exp == exCached || v.Exp == exAcked) {
				vfhelp.Fail(t, "consave-retry-applied-twice", "%s: entry %d %v is a retry of a proposal that was applied before (the uninterrupted replica treats it as %v), the replica restored from snapshot %d applied it again",
					cc.who(), u.Index, em, v.Exp, ss)
			}
		}
	}
	// membership and session table of the snapshot are those of index ss
	rec, _ := a.disk.latest()
	if cc.variant == "stream" {
		rec = res.ss
	}
	if got, want := canonMembership(rec.Membership), cc.viewRs.Membership; got != want || cc.memRs != want {
		vfhelp.Fail(t, "consave-membership-differs", "%s: the snapshot at %d carries membership %s, the uninterrupted replica at %d has %s (in a snapshot of its own: %s)", cc.who(), ss, got, ss, want, cc.memRs)
	}
	if !bytes.Equal(cc.sessSS, cc.sessRs) {
		vfhelp.Fail(t, "consave-snapshot-session-table-differs", "%s: the session table in the snapshot at %d (%d sessions, %d bytes) is not the one of the uninterrupted replica at %d (%d sessions, %d bytes)",
			cc.who(), ss, cc.metaSS.Sessions, len(cc.sessSS), ss, cc.metaRs.Sessions, len(cc.sessRs))
	}
	if cc.variant != "stream" {
		got, want := cc.viewC0, cc.viewRs
		if cc.atRecover != ss {
			vfhelp.Fail(t, "consave-restored-index", "%s: C recovered snapshot %d and is at %d", cc.who(), ss, cc.atRecover)
		}
		if cc.openIdx > ss {
			if got.User != tr.refAt[cc.openIdx] {
				vfhelp.Fail(t, "consave-ondisk-state-after-open", "%s: Open returned %d, user state %v, want %v", cc.who(), cc.openIdx, got.User, tr.refAt[cc.openIdx])
			}
			want.User, want.UserHash = got.User, got.UserHash
		}
		if !sameView(got, want) {
			vfhelp.Fail(t, "consave-restored-state-differs", "%s: C after recovering snapshot %d: %v; the uninterrupted replica at %d: %v", cc.who(), ss, got, ss, want)
		}
	}
	if rcv := cc.cInc.usm.pr().recovered; cc.variant == "stream" && len(rcv) == 0 && tr.refAt[ss] == (kv{}) {
		// a streamed snapshot without anything the fresh on-disk SM does not have: nothing to load
	} else if cc.variant == "install" || cc.variant == "stream" || cc.kind == kConcurrent {
		if len(rcv) != 1 || rcv[0] != tr.refAt[ss] {
			vfhelp.Fail(t, "consave-recovered-user-state", "%s: C's user SM recovered %v, the state of the full replay at %d is %v", cc.who(), rcv, ss, tr.refAt[ss])
		}
	} else if len(rcv) != 0 {
		vfhelp.Fail(t, "consave-unexpected-recover-call", "%s: RecoverFromSnapshot called (%v) for a dummy snapshot", cc.who(), rcv)
	}
	// per-entry outcomes and deliveries, for every incarnation
	for _, rp := range tr.replicas() {
		for _, inc := range rp.incs() {
			tr.checkIncarnation(t, rp, inc, "consave", false)
		}
	}
	cc.compareEnd(t, "A", cc.viewAn, cc.metaA, cc.sessA)
	cc.compareEnd(t, "C", cc.viewCn, cc.metaC, cc.sessC)
	if !sameView(cc.viewAn, cc.viewCn) {
		vfhelp.Fail(t, "consave-replicas-disagree", "%s: at %d A %v, C %v", cc.who(), n, cc.viewAn, cc.viewCn)
	}
	cc.probes(t)
}

// compareEnd compares a replica that has applied the whole log with R.
func (cc *conCase) compareEnd(t *rapid.T, name string, v view, m savedMeta, sess []byte) {
	tr, n := cc.tr, cc.n
	if !sameView(v, cc.viewRn) {
		vfhelp.Fail(t, "consave-state-differs-after-suffix", "%s: at %d %s %v, the uninterrupted replica %v", cc.who(), n, name, v, cc.viewRn)
	}
	if m.Index != n || cc.metaRn.Index != n || m.Term != cc.metaRn.Term || m.Term != tr.ents[n-1].Term {
		vfhelp.Fail(t, "consave-applied-index-term", "%s: final snapshot meta: %s index %d term %d, R index %d term %d, log ends at %d term %d",
			cc.who(), name, m.Index, m.Term, cc.metaRn.Index, cc.metaRn.Term, n, tr.ents[n-1].Term)
	}
	if !bytes.Equal(sess, cc.sessRn) {
		vfhelp.Fail(t, "consave-session-table-bytes", "%s: session tables differ at %d: %s %d sessions (%d bytes), R %d sessions (%d bytes)",
			cc.who(), n, name, m.Sessions, len(sess), cc.metaRn.Sessions, len(cc.sessRn))
	}
	if cc.kind == kOnDisk && m.OnDiskIndex != cc.metaRn.OnDiskIndex {
		vfhelp.Fail(t, "consave-ondisk-index", "%s: OnDiskIndex %s %d, R %d", cc.who(), name, m.OnDiskIndex, cc.metaRn.OnDiskIndex)
	}
}

func (cc *conCase) probes(t *rapid.T) {
	cc.planner.probeBad()
	for _, rp := range cc.tr.replicas() {
		if rp != nil {
			rp.probeBad()
		}
	}
}

// dupsNearSnapshot classifies the later copies (above the snapshot) of session
// proposals that were applied within dist entries of the snapshot index.
func (cc *conCase) dupsNearSnapshot(dist uint64) map[expect]int {
	out := map[expect]int{}
	tr, ss := cc.tr, cc.ssIndex
	if ss == 0 {
		return out
	}
	near := map[int]bool{}
	lo := uint64(1)
	if ss > dist {
		lo = ss - dist
	}
	for idx := lo; idx <= ss+dist && idx <= cc.n; idx++ {
		if em := tr.meta[idx-1]; em.Kind == ekProposal && tr.verdicts[idx-1].Exp == exApplied {
			near[em.Tmpl] = true
		}
	}
	applied := map[int]uint64{}
	for i, em := range tr.meta {
		idx := uint64(i + 1)
		if em.Kind != ekProposal || !near[em.Tmpl] {
			continue
		}
		if tr.verdicts[i].Exp == exApplied {
			if _, ok := applied[em.Tmpl]; !ok {
				applied[em.Tmpl] = idx
				continue
			}
		}
		if first, ok := applied[em.Tmpl]; ok && idx > ss && idx > first {
			out[tr.verdicts[i].Exp]++
		}
	}
	return out
}

func (cc *conCase) canon() []byte {
	var b bytes.Buffer
	fmt.Fprintf(&b, "%v/%d/%v/%v/%t|%s|%s p=%d a=%d b=%d k=%d %t%t%t%t%t%s req=%d|ss=%d from=%d open=%d",
		cc.kind, cc.limit, cc.env.cfg.SnapshotCompressionType, cc.env.cfg.EntryCompressionType, cc.env.cfg.OrderedConfigChange,
		canonStream(cc.tr.meta), cc.variant, cc.p, cc.a, cc.b, cc.k, cc.startBetween, cc.hold, cc.parkUpdate, cc.prepWait, cc.parkAfter, cc.syncPlan, cc.req.Type,
		cc.ssIndex, cc.feedFrom, cc.openIdx)
	return b.Bytes()
}

func consaveRule() string {
	return "streams from the C05/C08 generator (sessions with retries, membership changes incl. ordered config change, NoOP-session proposals) " +
		"into the real rsm.StateMachine of replica A, concurrent and on-disk user state machines only, driven by TWO goroutines as the engine does " +
		"(apply worker: TaskQ+Handle loop; snapshot worker: node.doSave -> Save, or Stream for an on-disk SM) whose interleaving the main goroutine " +
		"controls through parking hooks in the user SM: the request is dequeued between two Handle calls; the worker starts then (apply worker held " +
		"until the image is being written, or racing), or once the user Update containing a generated entry p is parked inside the write lock (worker " +
		"has to wait for StateMachine.mu), or after the apply worker went idle; PrepareSnapshot may linger until the apply worker is queued on the lock; " +
		"the apply worker may also be held in the node callback of p (p applied, its task unfinished so lastApplied lags, no lock held) while the worker " +
		"prepares and writes the snapshot; on-disk SMs get PeriodicSync tasks at generated places, in particular right before p's multi-entry task " +
		"(syncedIndex == lastApplied when Save starts mid-task); " +
		"k generated entries are applied while the worker is parked in the middle of SaveSnapshot; A then applies the rest. " +
		"C (A restarted at the end of the log / a fresh StateMachine on A's snapshot / on-disk: the target of the streamed snapshot) recovers that snapshot " +
		"and is fed the suffix (optionally an overlapping prefix); R is an uninterrupted single-goroutine replica. Oracle: the image PrepareSnapshot handed " +
		"out, the session table, the membership and index/term in the snapshot are those of R at the snapshot index; an on-disk dummy snapshot record never " +
		"promises more (OnDiskIndex) than the last completed Sync() of the user SM covered; C == R == A on user state, session table " +
		"(hash and saved bytes), membership incl. ConfigChangeId, applied index/term at the end and on every per-entry outcome; C's user SM sees no entry at or " +
		"below the snapshot index and no retry the session table has to answer. " +
		"nontrivial = the snapshot was taken by a worker that had to wait for a parked Update, or >= 1 entry was applied while it was inside SaveSnapshot, " +
		"AND the suffix contains a duplicate of a session proposal applied within 3 entries of the snapshot index (on-disk SMs cannot have client sessions: " +
		"there, instead, a membership change applied while the worker was writing the image or an Update parked under the worker)"
}

func runConsave(t *testing.T, unit string, fl conFlavour) {
	st := vfhelp.NewStats(unit, consaveRule())
	defer st.Flush()
	var sampled [2]bool
	var observedBlocked, wantedBlocked, prepWaited, prepObserved int
	rapid.Check(t, func(t *rapid.T) {
		if conDead.Load() {
			t.Fatalf("VFINCONCLUSIVE consave: an earlier case did not make progress")
		}
		cc := genConCase(t, fl)
		cc.runA(t)
		cc.finish(t)

		tr := cc.tr
		ss := cc.ssIndex
		raced := uint64(0)
		if ss > 0 && cc.racedTo > ss {
			raced = cc.racedTo - ss
		}
		duringSave := uint64(0)
		if ss > 0 && cc.racedTo > cc.hi {
			duringSave = cc.racedTo - cc.hi
		}
		underParked := ss > 0 && cc.updParked && ss >= cc.p && (cc.startedWhileParked || cc.sawBlocked)
		dups := cc.dupsNearSnapshot(3)
		ndup := 0
		for _, c := range dups {
			ndup += c
		}
		ccDuring, ccAccepted, sessDuring := 0, 0, 0
		for idx := ss + 1; ss > 0 && idx <= cc.racedTo; idx++ {
			switch tr.meta[idx-1].Kind {
			case ekCC:
				ccDuring++
				if o := tr.a.cur.node.byIndex[idx]; len(o) == 1 && !o[0].Rejected {
					ccAccepted++
				}
			case ekRegister, ekUnregister, ekProposal:
				sessDuring++
			}
		}
		nt := (underParked || duringSave > 0) && ndup > 0
		if cc.kind == kOnDisk {
			nt = (underParked || duringSave > 0 || cc.savedMidTask) && (ccAccepted > 0 || underParked || cc.savedMidTask)
		}
		labels := []string{"kind:" + cc.kind.String(), "variant:" + cc.variant, "mode:" + cc.mode, sizeLabel(len(tr.ents)),
			fmt.Sprintf("snapshot-compression:%v", cc.env.cfg.SnapshotCompressionType == config.Snappy)}
		add := func(cond bool, l string) {
			if cond {
				labels = append(labels, l)
			}
		}
		add(ss == 0, "no-snapshot-taken")
		add(cc.updParked, "update-parked")
		add(cc.updParked && cc.parkedBatch > 1, "update-parked-batched")
		add(underParked, "NT1:worker-waited-for-parked-update")
		add(duringSave > 0, "NT1:entries-applied-during-save-snapshot")
		add(raced > 0, "entries-applied-after-prepare")
		add(ndup > 0, "NT2:dup-of-proposal-near-snapshot")
		add(dups[exCached] > 0, "dup-near-snapshot:answered-from-restored-session-table")
		add(dups[exAcked] > 0, "dup-near-snapshot:acknowledged-ignored")
		add(dups[exRejected] > 0, "dup-near-snapshot:session-gone-rejected")
		add(dups[exApplied] > 0, "dup-near-snapshot:applied-in-new-session-incarnation")
		add(ccDuring > 0, "cc-applied-after-prepare")
		add(ccAccepted > 0, "cc-accepted-after-prepare")
		add(sessDuring > 0, "session-entry-applied-after-prepare")
		add(cc.env.cfg.OrderedConfigChange, "ordered-cc")
		add(ss > 0 && cc.updParked && ss == cc.p, "snapshot-index==p")
		add(ss > 0 && cc.updParked && ss > cc.p, "snapshot-index>p")
		add(ss > 0 && cc.updParked && ss < cc.p, "snapshot-index<p")
		add(ss > 0 && cc.feedFrom <= ss, "C-fed-overlapping-prefix")
		add(cc.openIdx > ss && ss > 0, "ondisk-open-index-above-snapshot")
		add(cc.forcedDups > 0, "forced-dup-landings")
		add(cc.req.Type == rsm.UserRequested, "user-requested")
		add(cc.nodeParked, "apply-held-between-entries-of-task")
		add(cc.savedMidTask, "snapshot-prepared-while-apply-held-mid-task")
		add(cc.savedMidTask && cc.pTaskLen > 1 && cc.pPos < cc.pTaskLen, "snapshot-mid-task:p-not-last-of-multi-entry-task")
		add(cc.syncTasks > 0, "periodic-sync-tasks")
		add(cc.syncPlan != "", "plan:"+cc.syncPlan)
		dummySave := cc.kind == kOnDisk && cc.variant != "stream"
		add(dummySave && cc.syncedEqApplied && ss > 0, "ondisk-save-started:synced==lastApplied,apply-parked-in-p")
		add(dummySave && cc.syncedEqApplied && cc.savedMidTask && ss >= cc.p, "NTS:ondisk-dummy-save-mid-task-with-synced==lastApplied")
		add(dummySave && cc.syncedEqApplied && cc.savedMidTask && ss >= cc.p && cc.metaSS.OnDiskIndex > cc.a, "NTS:...and-OnDiskIndex-beyond-synced-index")
		if cc.updParked && !(cc.startBetween && cc.hold) {
			wantedBlocked++
			if cc.sawBlocked {
				observedBlocked++
				labels = append(labels, "worker-seen-blocked-on-lock")
			} else {
				labels = append(labels, "worker-not-seen-blocked-on-lock")
			}
		}
		cc.hooks.mu.Lock()
		prepWaited += cc.hooks.prepWaited
		prepObserved += cc.hooks.prepObserved
		add(cc.hooks.prepObserved > 0, "prepare-saw-apply-worker-queued-on-lock")
		cc.hooks.mu.Unlock()
		for _, s := range tr.b.skipped {
			labels = append(labels, "A:skipped-"+s)
		}
		if tr.c != nil {
			for _, s := range tr.c.skipped {
				labels = append(labels, "C:skipped-"+s)
			}
		}
		st.Case(cc.canon(), nt, labels...)
		which := 0
		if cc.kind == kOnDisk {
			which = 1
		}
		if nt && !sampled[which] && len(tr.ents) <= 45 && (cc.kind == kOnDisk || dups[exCached] > 0) {
			sampled[which] = true
			st.Sample(map[string]interface{}{
				"kind": cc.kind.String(), "variant": cc.variant, "lru_limit": cc.limit, "mode": cc.mode,
				"park_update_of_entry": cc.p, "request_dequeued_after": cc.a, "queued_behind_request_up_to": cc.b,
				"entries_while_worker_inside_save_snapshot": duringSave, "update_parked": cc.updParked,
				"worker_seen_blocked_on_lock": cc.sawBlocked, "snapshot_index": ss, "C_fed_from": cc.feedFrom,
				"dups_near_snapshot": fmt.Sprint(dups), "entries": renderStream(tr.ents, tr.meta, 60),
			})
		}
	})
	st.Set("update_parked_cases_wanting_blocked_worker", wantedBlocked)
	st.Set("worker_seen_blocked_on_lock", observedBlocked)
	st.Set("prepare_snapshot_lingered", prepWaited)
	st.Set("prepare_snapshot_saw_queued_writer", prepObserved)
}

func TestVF_C08_ConcurrentSave(t *testing.T) {
	runConsave(t, "TestVF_C08_ConcurrentSave", conFlavour{salt: 0, onDiskIn: 3})
}

// C05: client sessions exist only for in-memory state machines
func TestVF_C05_ConcurrentSave(t *testing.T) {
	runConsave(t, "TestVF_C05_ConcurrentSave", conFlavour{salt: 1, onDiskIn: 0})
}

func TestVF_C02_ConcurrentSave(t *testing.T) {
	runConsave(t, "TestVF_C02_ConcurrentSave", conFlavour{salt: 2, onDiskIn: 2})
}
