package rsmdiff

import (
	"bytes"
	"fmt"

	"github.com/lni/dragonboat/v4/config"
	"github.com/lni/dragonboat/v4/internal/rsm"
	"github.com/lni/dragonboat/v4/internal/vfhelp"
	pb "github.com/lni/dragonboat/v4/raftpb"
	"pgregory.net/rapid"
)

// twinRun is one executed A/B/C scenario (DESIGN C08): A applies the whole
// log, B applies 1..k and takes a snapshot, C starts from B's snapshot (as a
// restart of B, as a lagging replica that gets the snapshot installed, or -
// on-disk - as the target of a streamed snapshot) and is fed the rest.
type twinRun struct {
	env           *caseEnv
	kind          smKind
	limit         int
	ents          []pb.Entry
	meta          []entMeta
	boot          int
	k, m, n       uint64
	variant       string // restart | install | stream
	a, b, c       *replica
	cInc          *incarnation // incarnation of C that recovered the snapshot
	model         *sessModel
	verdicts      []verdict
	refAt         []kv
	viewA         map[uint64]view
	viewC         map[uint64]view
	ssIndex       uint64 // index of the snapshot C recovered (0: none)
	lagAt         uint64 // install/stream: what C had applied before
	feedFrom      uint64 // first index handed to C after the recovery
	openIdx       uint64 // on-disk restart: what Open returned
	raced         int
	secondRestart bool
	bSave         saveRec
	cSaveAt       uint64 // C's own later snapshot (0: none)
	lagRestart    bool
	preUser       kv // C's user state just before the snapshot arrived
	metaA         savedMeta
	metaC         savedMeta
	sessA         []byte
	sessC         []byte
}

func (r *replica) addSync() { r.cur.sm.TaskQ().Add(rsm.Task{PeriodicSync: true}) }

// probeSave takes a last snapshot of r purely to look at the metadata the
// state machine hands to the snapshotter (index, term, session table bytes).
func probeSave(r *replica) (savedMeta, []byte, pb.Membership) {
	inc := r.cur
	r.exports++
	dir := fmt.Sprintf("/probe-%s-%d", r.name, r.exports)
	if err := r.disk.fs.MkdirAll(dir, 0o755); err != nil {
		panic(err)
	}
	before := len(inc.snap.metas)
	var ss pb.Snapshot
	var err error
	r.env.guard("probe-save", func() {
		ss, _, err = inc.sm.Save(rsm.SSRequest{Type: rsm.Exported, Path: dir})
	})
	if err != nil {
		vfhelp.Fail(r.env.t, "probe-save-error", "%s: final Save failed: %v", r.name, err)
	}
	return inc.snap.metas[before], inc.snap.lastSession, ss.Membership
}

func drawKind(t *rapid.T) smKind {
	return smKind(rapid.IntRange(0, 2).Draw(t, "kind"))
}

func runTwins(t *rapid.T) *twinRun {
	tr := &twinRun{viewA: map[uint64]view{}, viewC: map[uint64]view{}}
	tr.kind = drawKind(t)
	tr.limit = rapid.IntRange(2, 6).Draw(t, "lruLimit")
	env := &caseEnv{t: t, kind: tr.kind, pad: drawPad(t)}
	env.cfg = config.Config{ShardID: 1, ReplicaID: 1,
		SnapshotCompressionType: drawCT(t, "snapshotSnappy"),
		EntryCompressionType:    drawCT(t, "entrySnappy"),
		OrderedConfigChange:     rapid.IntRange(0, 3).Draw(t, "ordered") == 0}
	tr.env = env
	rsm.LRUMaxSessionCount = uint64(tr.limit)

	o := genOpts{sessions: tr.kind != kOnDisk, entryCT: env.cfg.EntryCompressionType,
		clients: rapid.IntRange(1, 10).Draw(t, "clients"), boot: rapid.IntRange(1, 3).Draw(t, "boot"), ccW: 6}
	defaultWeights(&o)
	o.recentN = tr.limit
	if tr.kind == kOnDisk {
		o.wNoop, o.wEmpty = 30, 5
	} else if rapid.IntRange(0, 2).Draw(t, "noopHeavy") == 0 {
		// runs of NoOP-session proposals: the batched update path of concurrent SMs
		o.wNoop = 40
	}
	o.wDupCur, o.wDupStale = 18, 12
	g := newStreamGen(o)
	// the generator looks at the membership the way a client would before it
	// asks for a change (SyncGetShardMembership): a planner replica applies
	// every entry as soon as it exists
	planner := newReplica(env, "P", 9)
	planner.start()
	g.memFn = func() pb.Membership { return planner.cur.sm.GetMembership() }
	g.ccidFn = func() uint64 { return planner.cur.sm.GetMembership().ConfigChangeId }
	fedP := 0
	plan := func() {
		if fedP < len(g.ents) {
			planner.add(g.ents[fedP:])
			planner.run()
			fedP = len(g.ents)
		}
	}
	g.bootstrap(t)
	plan()
	nGen := sizeOf(t)
	for i := 0; i < nGen; i++ {
		g.step(t)
		plan()
	}
	tr.ents, tr.meta, tr.boot = g.ents, g.meta, o.boot
	ents := tr.ents
	tr.n = uint64(len(ents))
	tr.k = uint64(rapid.IntRange(o.boot, int(tr.n)).Draw(t, "k"))
	if rapid.Bool().Draw(t, "kInWindow") {
		// aim the cut between two copies of the same client entry
		type win struct{ lo, hi uint64 }
		var wins []win
		firstCopy := map[int]uint64{}
		for i, em := range tr.meta {
			if em.Kind != ekProposal {
				continue
			}
			if f, ok := firstCopy[em.Tmpl]; ok {
				if uint64(i) >= f && f >= uint64(o.boot) {
					wins = append(wins, win{f, uint64(i)})
				}
			} else {
				firstCopy[em.Tmpl] = uint64(i + 1)
			}
		}
		if len(wins) > 0 {
			w := wins[rapid.IntRange(0, len(wins)-1).Draw(t, "kWindow")]
			tr.k = uint64(rapid.IntRange(int(w.lo), int(w.hi)).Draw(t, "kIn"))
		}
	}

	variants := []string{"restart", "restart", "install"}
	if tr.kind == kOnDisk {
		variants = []string{"restart", "stream"}
	}
	tr.variant = variants[rapid.IntRange(0, len(variants)-1).Draw(t, "variant")]

	// ---------------------------------------------------------------- B (and C's past)
	b := newReplica(env, "B", 1)
	tr.b = b
	b.start()
	var c *replica
	if tr.variant != "restart" {
		c = newReplica(env, "C", 2)
		if tr.variant == "install" {
			// the snapshot file reaches C's snapshot directory unchanged (C15 covers the transfer)
			c.disk = b.disk
		}
		c.start()
		tr.lagAt = uint64(rapid.IntRange(0, int(tr.k)-1).Draw(t, "lagAt"))
		lagHold := tr.variant == "install" && rapid.Bool().Draw(t, "lagHold")
		feedHold(t, c, ents, tr.lagAt, "c0", lagHold)
		if tr.kind == kOnDisk && tr.lagAt > 0 && rapid.Bool().Draw(t, "lagSync") {
			c.addSync()
			c.run()
		}
		if tr.kind == kOnDisk && tr.lagAt > 0 && rapid.IntRange(0, 2).Draw(t, "lagRestart") == 0 {
			// C went down and came back without any snapshot of its own: raft
			// replays from the start while the on-disk SM is at its Open index
			c.restart(drawCrashPos(t, c, "c0"))
			tr.lagRestart = true
			redo := uint64(rapid.IntRange(0, int(tr.lagAt)).Draw(t, "lagRedo"))
			feedTo(t, c, ents, redo, "c1")
		}
	}
	cutc := cut{At: tr.k, Kind: "save", Hold: rapid.Bool().Draw(t, "cutHold")}
	feedHold(t, b, ents, tr.k, "b", cutc.Hold && tr.variant != "stream")
	if rapid.Bool().Draw(t, "cutRaces") {
		cutc.Race = rapid.IntRange(1, 5).Draw(t, "cutRace")
	}
	if rapid.IntRange(0, 2).Draw(t, "cutQueued") == 0 {
		cutc.More = rapid.IntRange(1, 6).Draw(t, "cutMore")
	}
	if rapid.Bool().Draw(t, "cutUser") {
		cutc.Req = rsm.UserRequested
	}
	switch tr.variant {
	case "restart":
		applyCut(t, b, ents, cutc, "b")
		// B keeps running for a while before it goes down
		extra := uint64(rapid.IntRange(0, 6).Draw(t, "bExtra"))
		hi := b.cur.sm.GetLastApplied() + extra
		if hi > tr.n {
			hi = tr.n
		}
		feedTo(t, b, ents, hi, "bx")
		if tr.kind == kOnDisk && rapid.Bool().Draw(t, "bSync") {
			b.addSync()
			b.run()
		}
		if len(b.saves) > 0 {
			tr.ssIndex = b.saves[len(b.saves)-1].Index
			tr.raced = b.saves[len(b.saves)-1].Raced
		}
		b.restart(drawCrashPos(t, b, "c"))
		c = b
		tr.openIdx = c.cur.openIndex
	case "install":
		applyCut(t, b, ents, cutc, "b")
		if len(b.saves) > 0 {
			tr.ssIndex = b.saves[len(b.saves)-1].Index
			tr.raced = b.saves[len(b.saves)-1].Raced
			// raft on C restores from the InstallSnapshot message, then the node
			// pushes the Recover task; later entries may already sit behind it
			c.addRecover(tr.ssIndex)
			if rapid.Bool().Draw(t, "behindRecover") {
				hi := tr.ssIndex + uint64(rapid.IntRange(1, 4).Draw(t, "behindN"))
				if hi > tr.n {
					hi = tr.n
				}
				c.add(ents[tr.ssIndex:hi])
			}
			c.run()
		}
	case "stream":
		if cutc.Race > 0 {
			hi := tr.k + uint64(cutc.Race)
			if hi > tr.n {
				hi = tr.n
			}
			race := ents[tr.k:hi]
			if len(race) > 0 {
				b.race = func() {
					b.raced = len(race)
					b.add(race)
					b.run()
				}
			}
		}
		tr.preUser = c.cur.usm.state()
		if b.streamTo(c) {
			tr.ssIndex = b.saves[len(b.saves)-1].Index
			tr.raced = b.saves[len(b.saves)-1].Raced
			c.run()
		}
	}
	tr.c = c
	tr.cInc = c.cur
	if tr.ssIndex > 0 {
		tr.bSave = b.saves[len(b.saves)-1]
	}
	if tr.ssIndex > 0 {
		if len(c.cur.recovers) == 0 || c.cur.recovers[len(c.cur.recovers)-1].Index != tr.ssIndex {
			vfhelp.Fail(t, "twins-snapshot-not-recovered", "%s variant: snapshot %d was not recovered by C (recovers %v, skipped %v)",
				tr.variant, tr.ssIndex, c.cur.recovers, c.skipped)
		}
	}
	atRecover := c.cur.sm.GetLastApplied()
	tr.viewC[0] = c.view() // key 0: right after the recovery

	// ---------------------------------------------------------------- C catches up
	lo := atRecover
	if tr.openIdx > lo {
		lo = tr.openIdx
	}
	tr.m = uint64(rapid.IntRange(int(lo), int(tr.n)).Draw(t, "m"))
	if tr.m < lo {
		tr.m = lo
	}
	// the node may hand over entries the SM already has (they must be skipped)
	tr.feedFrom = atRecover + 1
	if atRecover > 0 && rapid.IntRange(0, 2).Draw(t, "overlap") > 0 {
		back := uint64(rapid.IntRange(1, 6).Draw(t, "overlapBy"))
		if back > atRecover {
			back = atRecover
		}
		tr.feedFrom = atRecover + 1 - back
	}
	if tr.feedFrom <= atRecover {
		hi := atRecover + uint64(rapid.IntRange(0, 4).Draw(t, "overlapBeyond"))
		if hi > tr.m {
			hi = tr.m
		}
		c.add(ents[tr.feedFrom-1 : hi])
		if rapid.Bool().Draw(t, "overlapTwice") {
			c.add(ents[tr.feedFrom-1 : hi])
		}
		c.run()
	}
	if tr.m > atRecover && rapid.Bool().Draw(t, "cSaves") {
		// C takes a snapshot of its own on the way (for an on-disk SM possibly
		// while it is still re-reading entries its state machine already has)
		tr.cSaveAt = uint64(rapid.IntRange(int(atRecover)+1, int(tr.m)).Draw(t, "cSaveAt"))
		hold := rapid.Bool().Draw(t, "cSaveHold")
		if c.pushed < tr.cSaveAt {
			feedHold(t, c, ents, tr.cSaveAt, "cs", hold)
		}
		before := len(c.saves)
		c.addSave(rsm.SSRequest{})
		c.run()
		if len(c.saves) == before {
			tr.cSaveAt = 0
		} else if got := c.saves[len(c.saves)-1].Index; got < tr.cSaveAt {
			vfhelp.Fail(t, "twins-second-snapshot-index", "C asked for a snapshot with %d queued, got one at %d", tr.cSaveAt, got)
		} else {
			tr.cSaveAt = got
		}
	}
	feedTo(t, c, ents, tr.m, "c")
	tr.viewC[tr.m] = c.view()
	if rapid.IntRange(0, 2).Draw(t, "secondRestart") == 0 {
		// C goes down once more and comes back from whatever snapshot its LogDB
		// knows (on-disk after a streamed snapshot: the shrunk file)
		if tr.kind == kOnDisk && rapid.Bool().Draw(t, "cSync") {
			c.addSync()
			c.run()
		}
		c.restart(drawCrashPos(t, c, "c2"))
		tr.secondRestart = true
	}
	feedTo(t, c, ents, tr.n, "c")
	tr.viewC[tr.n] = c.view()

	// ---------------------------------------------------------------- A
	a := newReplica(env, "A", 3)
	tr.a = a
	a.start()
	for _, p := range sortedU64(atRecover, tr.m, tr.n) {
		feedTo(t, a, ents, p, "a")
		tr.viewA[p] = a.view()
	}

	// the session model over what A's node saw (also classifies the entries)
	tr.model = newSessModel(tr.limit)
	tr.verdicts = make([]verdict, len(ents))
	tr.refAt = make([]kv, len(ents)+1)
	for i, em := range tr.meta {
		idx := uint64(i + 1)
		v, sig, msg := tr.model.step(idx, em, a.cur.node.byIndex[idx])
		if sig != "" {
			vfhelp.Fail(t, "twins-A-"+sig, "twin A (limit %d, %v): %s", tr.limit, tr.kind, msg)
		}
		tr.verdicts[i] = v
		tr.refAt[idx] = tr.model.ref
	}
	tr.metaA, tr.sessA, _ = probeSave(a)
	tr.metaC, tr.sessC, _ = probeSave(c)
	return tr
}

func sortedU64(xs ...uint64) []uint64 {
	out := append([]uint64{}, xs...)
	for i := 0; i < len(out); i++ {
		for j := i + 1; j < len(out); j++ {
			if out[j] < out[i] {
				out[i], out[j] = out[j], out[i]
			}
		}
	}
	return out
}

// retryWindowCut reports how many (client, series) have a copy at or below
// the snapshot and a later copy above it that the restored session table had
// to answer (cached) - "k strictly inside a retry window".
func (tr *twinRun) retryWindowCut() (cached, acked, other int) {
	if tr.ssIndex == 0 {
		return
	}
	first := map[int]uint64{}
	for i, em := range tr.meta {
		if em.Tmpl > 0 {
			if _, ok := first[em.Tmpl]; !ok {
				first[em.Tmpl] = uint64(i + 1)
			}
		}
	}
	for i, em := range tr.meta {
		idx := uint64(i + 1)
		if idx <= tr.ssIndex || em.Kind != ekProposal || em.Copy == 0 || first[em.Tmpl] > tr.ssIndex {
			continue
		}
		switch tr.verdicts[i].Exp {
		case exCached:
			cached++
		case exAcked:
			acked++
		default:
			other++
		}
	}
	return
}

func (tr *twinRun) canon() []byte {
	var b bytes.Buffer
	fmt.Fprintf(&b, "%d%t%t|%v/%d/%v/%v/%t|%s|k=%d m=%d %s lag=%d from=%d open=%d raced=%d", tr.cSaveAt, tr.secondRestart, tr.lagRestart, tr.kind, tr.limit,
		tr.env.cfg.SnapshotCompressionType, tr.env.cfg.EntryCompressionType, tr.env.cfg.OrderedConfigChange,
		canonStream(tr.meta), tr.k, tr.m, tr.variant, tr.lagAt, tr.feedFrom, tr.openIdx, tr.raced)
	return b.Bytes()
}

func (tr *twinRun) labels() []string {
	l := []string{"kind:" + tr.kind.String(), "variant:" + tr.variant, sizeLabel(len(tr.ents)),
		fmt.Sprintf("snapshot-compression:%v", tr.env.cfg.SnapshotCompressionType == config.Snappy)}
	if tr.ssIndex == 0 {
		l = append(l, "no-snapshot-taken")
	}
	if tr.feedFrom <= tr.ssIndex && tr.ssIndex > 0 {
		l = append(l, "C-fed-overlapping-prefix")
	}
	if tr.raced > 0 {
		l = append(l, "updates-between-prepare-and-save")
	}
	if tr.openIdx > tr.ssIndex {
		l = append(l, "ondisk-open-index-above-snapshot")
	}
	if tr.kind == kOnDisk && tr.variant == "restart" && tr.openIdx == tr.ssIndex {
		l = append(l, "ondisk-open-index-equals-snapshot")
	}
	if tr.lagRestart {
		l = append(l, "ondisk-stream-target-restarted-before")
	}
	if tr.cSaveAt > 0 {
		l = append(l, "C-saved-again")
		if tr.cSaveAt <= tr.openIdx {
			l = append(l, "ondisk-saved-while-rereading-below-open-index")
		}
		if tr.secondRestart {
			l = append(l, "C-recovered-own-second-snapshot")
		}
	}
	if tr.secondRestart {
		l = append(l, "C-restarted-again")
		if tr.kind == kOnDisk && tr.variant == "stream" && tr.ssIndex > 0 {
			l = append(l, "ondisk-restart-on-shrunk-snapshot")
		}
	}
	if tr.variant != "restart" && tr.lagAt > 0 {
		l = append(l, "C-lagging-not-fresh")
	}
	if tr.env.cfg.OrderedConfigChange {
		l = append(l, "ordered-cc")
	}
	ccAfter, ccRejAfter := 0, 0
	for i, em := range tr.meta {
		if uint64(i+1) > tr.ssIndex && em.Kind == ekCC {
			ccAfter++
			if o := tr.a.cur.node.byIndex[uint64(i+1)]; len(o) == 1 && o[0].Rejected {
				ccRejAfter++
			}
		}
	}
	if ccAfter > ccRejAfter {
		l = append(l, "cc-accepted-after-snapshot")
	}
	if ccRejAfter > 0 {
		l = append(l, "cc-rejected-after-snapshot")
	}
	batched := false
	for _, inc := range tr.c.incs() {
		for _, u := range inc.usm.pr().updates {
			if u.Batch > 1 {
				batched = true
			}
		}
	}
	if batched {
		l = append(l, "C-batched-update")
	}
	for _, s := range tr.b.skipped {
		l = append(l, "B:skipped-"+s)
	}
	for _, s := range tr.c.skipped {
		l = append(l, "C:skipped-"+s)
	}
	return l
}

func (tr *twinRun) sample(extra map[string]interface{}) map[string]interface{} {
	out := map[string]interface{}{
		"kind": tr.kind.String(), "variant": tr.variant, "lru_limit": tr.limit,
		"k": tr.k, "snapshot_index": tr.ssIndex, "m": tr.m, "n": tr.n,
		"C_lagging_at": tr.lagAt, "C_fed_from": tr.feedFrom, "ondisk_open_index": tr.openIdx,
		"updates_between_prepare_and_save": tr.raced,
		"C_restarted_again_at_m":           tr.secondRestart,
		"snapshot_compression":             fmt.Sprint(tr.env.cfg.SnapshotCompressionType),
		"entries":                          renderStream(tr.ents, tr.meta, 60),
	}
	for k, v := range extra {
		out[k] = v
	}
	return out
}

// checkIncarnation compares one incarnation of a twin with the uninterrupted
// twin A and the session model: every entry it had to process has A's outcome
// (entries an on-disk SM already contains are applied silently), and its user
// SM was handed exactly the entries the model demands among those.
func (tr *twinRun) checkIncarnation(t *rapid.T, r *replica, inc *incarnation, prefix string, deliveriesFirst bool) {
	who := fmt.Sprintf("%s/inc%d(%s,%s,snapshot %d)", r.name, inc.id, tr.kind, tr.variant, tr.ssIndex)
	proc, _ := inc.processed()
	deliveries := func() {
		var want []upd
		for _, u := range tr.model.applied {
			if proc[u.Index] && u.Index > inc.openIndex {
				want = append(want, u)
			}
		}
		if sig, msg := checkDeliveries(inc.usm.pr().updates, want); sig != "" {
			vfhelp.Fail(t, prefix+"-"+sig, "%s restored at %d, Open index %d: %s", who, inc.startAt, inc.openIndex, msg)
		}
	}
	if deliveriesFirst {
		deliveries()
	}
	for idx := uint64(1); idx <= tr.n; idx++ {
		ao, co := tr.a.cur.node.byIndex[idx], inc.node.byIndex[idx]
		if !proc[idx] {
			if len(co) > 0 {
				vfhelp.Fail(t, prefix+"-outcome-for-skipped-entry", "%s restored at %d reported %v for index %d it never had to apply", who, inc.startAt, co, idx)
			}
			continue
		}
		if tr.kind == kOnDisk && idx <= inc.openIndex && tr.meta[idx-1].Kind == ekNoopSession {
			if len(co) > 0 {
				vfhelp.Fail(t, prefix+"-ondisk-outcome-below-open", "%s: index %d <= Open index %d reported %v", who, idx, inc.openIndex, co)
			}
			continue
		}
		if len(ao) != len(co) || (len(ao) == 1 && !sameOutcome(ao[0], co[0])) {
			vfhelp.Fail(t, prefix+"-outcome-differs", "%s: index %d %v: A %v, here %v", who, idx, tr.meta[idx-1], ao, co)
		}
	}
	if !deliveriesFirst {
		deliveries()
	}
}

func (tr *twinRun) replicas() []*replica {
	reps := []*replica{tr.a, tr.b}
	if tr.c != tr.b {
		reps = append(reps, tr.c)
	}
	return reps
}
