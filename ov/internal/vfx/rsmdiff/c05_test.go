package rsmdiff

import (
	"bytes"
	"fmt"
	"io"
	"sort"
	"testing"

	"github.com/lni/dragonboat/v4/config"
	"github.com/lni/dragonboat/v4/internal/rsm"
	"github.com/lni/dragonboat/v4/internal/vfhelp"
	pb "github.com/lni/dragonboat/v4/raftpb"
	"pgregory.net/rapid"
)

// cut is something that happens to twin B once it has been handed the
// entries up to At.
type cut struct {
	At   uint64
	Kind string // save | save-restart | restart | export
	Race int    // concurrent kinds: entries applied while the snapshot is written
	More int    // entries queued behind the Save task before the worker runs
	Req  rsm.SSReqType
	Hold bool // the entries before the request are still queued when it is made
	Gap  int  // live-install: how far ahead of B the snapshot of the other replica is
}

func (c cut) String() string {
	if c.Kind == "live-install" {
		return fmt.Sprintf("live-install@%d(snapshot %d ahead, queued-behind %d, queued-before %t)", c.At, c.Gap, c.More, c.Hold)
	}
	return fmt.Sprintf("%s@%d(race %d, queued-behind %d, queued-before %t)", c.Kind, c.At, c.Race, c.More, c.Hold)
}

func drawCuts(t *rapid.T, lo, hi uint64, max int, kinds []string) []cut {
	n := max - rapid.IntRange(0, max).Draw(t, "cuts") // leans towards many cuts
	var out []cut
	for i := 0; i < n; i++ {
		c := cut{
			At:   uint64(rapid.IntRange(int(lo), int(hi)).Draw(t, "cutAt")),
			Kind: kinds[rapid.IntRange(0, len(kinds)-1).Draw(t, "cutKind")],
		}
		if rapid.Bool().Draw(t, "cutRaces") {
			c.Race = rapid.IntRange(1, 5).Draw(t, "cutRace")
		}
		if rapid.IntRange(0, 2).Draw(t, "cutQueued") == 0 {
			c.More = rapid.IntRange(1, 6).Draw(t, "cutMore")
		}
		if rapid.Bool().Draw(t, "cutUser") {
			c.Req = rsm.UserRequested
		}
		c.Hold = rapid.Bool().Draw(t, "cutHold")
		if c.Kind == "live-install" {
			c.Gap = 2 + rapid.IntRange(0, 60).Draw(t, "cutGap")
		}
		out = append(out, c)
	}
	sort.SliceStable(out, func(i, j int) bool { return out[i].At < out[j].At })
	return out
}

// feedTo hands r the log entries (pushed, upTo] in generated task sizes,
// running the apply worker after every few tasks.
func feedTo(t *rapid.T, r *replica, ents []pb.Entry, upTo uint64, label string) {
	feedHold(t, r, ents, upTo, label, false)
}

// feedHold is feedTo, but with hold the last burst of tasks stays in the
// queue (the apply worker has not got to it yet when the caller queues the
// next thing, e.g. a snapshot request).
func feedHold(t *rapid.T, r *replica, ents []pb.Entry, upTo uint64, label string, hold bool) {
	from := r.pushed + 1
	if upTo < from {
		return
	}
	tasks := chunks(t, ents[from-1:upTo], 8, label+"Task")
	for len(tasks) > 0 {
		k := rapid.IntRange(1, 3).Draw(t, label+"Burst")
		if k > len(tasks) {
			k = len(tasks)
		}
		for _, tk := range tasks[:k] {
			r.add(tk)
		}
		tasks = tasks[k:]
		if hold && len(tasks) == 0 {
			return
		}
		r.run()
	}
}

// applyCut performs c on r. ents is the whole log. Returns the index the
// snapshot was expected to capture (0 if none).
func applyCut(t *rapid.T, r *replica, ents []pb.Entry, c cut, label string) {
	n := uint64(len(ents))
	switch c.Kind {
	case "save", "save-restart", "export":
		req := rsm.SSRequest{Type: c.Req}
		if c.Kind == "export" {
			r.exports++
			dir := fmt.Sprintf("/export-%s-%d", r.name, r.exports)
			if err := r.disk.fs.MkdirAll(dir, 0o755); err != nil {
				panic(err)
			}
			req = rsm.SSRequest{Type: rsm.Exported, Path: dir}
		}
		r.addSave(req)
		at := r.pushed
		hi := at + uint64(c.More)
		if hi > n {
			hi = n
		}
		if hi > at {
			// entries already queued behind the snapshot request
			r.add(ents[at:hi])
		}
		if c.Race > 0 && r.env.kind != kRegular {
			rhi := hi + uint64(c.Race)
			if rhi > n {
				rhi = n
			}
			if rhi > hi {
				race := ents[hi:rhi]
				r.race = func() {
					r.raced = len(race)
					r.add(race)
					r.run()
				}
			}
		}
		r.run()
		r.race = nil
		if c.Kind == "save-restart" {
			r.restart(drawCrashPos(t, r, label))
		}
	case "restart":
		r.restart(drawCrashPos(t, r, label))
	}
}

func drawCrashPos(t *rapid.T, r *replica, label string) int {
	if r.store == nil {
		return 0
	}
	lo, hi := r.store.synced, len(r.store.states)-1
	switch rapid.IntRange(0, 3).Draw(t, label+"CrashKind") {
	case 0:
		return lo
	case 1:
		return hi
	}
	return rapid.IntRange(lo, hi).Draw(t, label+"CrashPos")
}

func TestVF_C05_Sessions(t *testing.T) {
	st := vfhelp.NewStats("TestVF_C05_Sessions",
		"client-API-conformant register/propose/retry/ack/unregister streams of up to 12 clients with generated "+
			"duplicate placement into the real rsm.StateMachine (regular and concurrent kinds, LRU limit 2..6); "+
			"twin A never snapshots, twin B goes through generated save / save+restart / restart / export cuts and live installs "+
			"(B lags at j, another replica saves at k > j, B recovers that snapshot through the non-initial Recover task into its live session table); "+
			"oracle = policy-agnostic session reference model + A/B differential. "+
			"nontrivial = a duplicate of a (client, series) whose first copy is covered by a snapshot B recovered from "+
			"is deduplicated after that recovery (cached result or acknowledged), or an overflow eviction is followed by a proposal of the victim, "+
			"or a snapshot is installed into a live instance holding a session the snapshot no longer has and that client shows up again")
	defer st.Flush()
	rapid.Check(t, func(t *rapid.T) { runC05(t, st) })
}

var c05Sampled [2]bool

func runC05(t *rapid.T, st *vfhelp.Stats) {
	kind := kRegular
	if rapid.IntRange(0, 2).Draw(t, "kind") == 0 {
		kind = kConcurrent
	}
	limit := rapid.IntRange(2, 6).Draw(t, "lruLimit")
	// 0..5: more clients than the session table holds; 6..9: no eviction pressure
	var nClients int
	if rapid.IntRange(0, 9).Draw(t, "pressure") < 6 {
		nClients = limit + rapid.IntRange(1, 12-limit).Draw(t, "extraClients")
	} else {
		nClients = rapid.IntRange(1, limit).Draw(t, "clients")
	}
	env := &caseEnv{t: t, kind: kind, pad: drawPad(t)}
	env.cfg = config.Config{ShardID: 1, ReplicaID: 1,
		SnapshotCompressionType: drawCT(t, "snapshotSnappy"),
		EntryCompressionType:    drawCT(t, "entrySnappy")}
	rsm.LRUMaxSessionCount = uint64(limit)

	o := genOpts{sessions: true, entryCT: env.cfg.EntryCompressionType, clients: nClients,
		boot: rapid.IntRange(1, 3).Draw(t, "boot")}
	defaultWeights(&o)
	o.recentN = limit
	o.wNew, o.wDupCur, o.wDupStale = 5, 18, 12
	if rapid.IntRange(0, 3).Draw(t, "churn") == 3 {
		// registration heavy: evictions all the time
		o.wNew, o.recentBias = 20, 30
	}
	g := newStreamGen(o)
	g.bootstrap(t)
	n := sizeOf(t)
	for i := 0; i < n; i++ {
		g.step(t)
	}
	ents, meta := g.ents, g.meta
	last := uint64(len(ents))
	cuts := drawCuts(t, uint64(o.boot), last, 5, []string{"save-restart", "save", "live-install", "restart", "export", "save-restart", "live-install", "save-restart"})

	// twin A: one incarnation, never snapshots, inspected only at the end
	a := newReplica(env, "A", 1)
	a.start()
	feedTo(t, a, ents, last, "a")

	// the model consumes what A's node observed
	model := newSessModel(limit)
	verdicts := make([]verdict, len(ents))
	refAt := make([]kv, len(ents)+1)
	liveAt := make([]map[uint64]int, len(ents)+1) // client id -> session incarnation the model holds live
	liveAt[0] = map[uint64]int{}
	for i, em := range meta {
		idx := uint64(i + 1)
		v, sig, msg := model.step(idx, em, a.cur.node.byIndex[idx])
		if sig != "" {
			vfhelp.Fail(t, "c05-"+sig, "twin A (limit %d, %v): %s", limit, kind, msg)
		}
		verdicts[i] = v
		refAt[idx] = model.ref
		liveAt[idx] = map[uint64]int{}
		for c, ms := range model.live {
			liveAt[idx][c] = ms.inc
		}
	}
	if sig, msg := checkDeliveries(a.cur.usm.pr().updates, model.expectedUpdates(0, last)); sig != "" {
		vfhelp.Fail(t, "c05-A-"+sig, "twin A: %s", msg)
	}
	if a.cur.usm.state() != model.ref {
		vfhelp.Fail(t, "c05-A-user-state", "twin A user state %v, model %v", a.cur.usm.state(), model.ref)
	}
	// at most one Update per (client, session incarnation, series)
	seen := map[string]uint64{}
	byIdx := map[uint64]bool{}
	for _, u := range a.cur.usm.pr().updates {
		byIdx[u.Index] = true
	}
	for i, em := range meta {
		idx := uint64(i + 1)
		if em.Kind != ekProposal || !byIdx[idx] {
			continue
		}
		key := fmt.Sprintf("%x/%d/%d", em.Client, verdicts[i].SessInc, em.Series)
		if other, dup := seen[key]; dup {
			vfhelp.Fail(t, "c05-applied-twice", "client %x series %d applied at index %d and %d within one session", em.Client, em.Series, other, idx)
		}
		seen[key] = idx
	}

	// twin V: only there to be looked at in the middle of the log, at every
	// index at which B can take a snapshot
	vw := newReplica(env, "V", 1)
	vw.start()
	viewAt := map[uint64]view{}
	for _, p := range snapshotPositions(cuts, last, kind) {
		feedTo(t, vw, ents, p, "v")
		viewAt[p] = vw.view()
	}
	feedTo(t, vw, ents, last, "v")

	// twin B: the cuts
	b := newReplica(env, "B", 1)
	b.start()
	type installRec struct{ J, K uint64 }
	var installs []installRec
	for i, c := range cuts {
		feedHold(t, b, ents, c.At, "b", c.Hold)
		if c.Kind == "live-install" {
			// B is a live follower that stopped getting entries at j; the rest
			// of the cluster went on, compacted its log and now sends the
			// snapshot it took at k: raft restores from it and the node pushes
			// the non-initial Recover task to the very same state machine
			j := b.pushed
			k := j + uint64(c.Gap)
			if k > last {
				k = last
			}
			if k <= j {
				b.run()
				b.skipped = append(b.skipped, "install:nothing-ahead")
				continue
			}
			l := newReplica(env, fmt.Sprintf("L%d", i), 1)
			l.start()
			feedTo(t, l, ents, k, "l")
			l.addSave(rsm.SSRequest{})
			l.run()
			if !installFrom(l, b, k) {
				b.run()
				b.skipped = append(b.skipped, "install:not-possible")
				continue
			}
			b.addRecover(k)
			hi := k + uint64(c.More)
			if hi > last {
				hi = last
			}
			if hi > k {
				b.add(ents[k:hi])
			}
			b.run()
			if r := b.cur.recovers; len(r) == 0 || r[len(r)-1].Index != k {
				vfhelp.Fail(t, "c05-install-not-recovered", "live B at %d did not recover the installed snapshot %d (skipped %v)", j, k, b.skipped)
			}
			feedTo(t, l, ents, hi, "l")
			if got, want := b.view(), l.view(); !sameView(got, want) {
				vfhelp.Fail(t, "c05-live-install-state-differs", "live B (was at %d) after installing snapshot %d and applying to %d: %v; the replica the snapshot came from at %d: %v", j, k, hi, got, hi, want)
			}
			l.probeBad()
			installs = append(installs, installRec{j, k})
			continue
		}
		applyCut(t, b, ents, c, fmt.Sprintf("b%d", i))
		if inc := b.cur; (c.Kind == "save-restart" || c.Kind == "restart") && len(inc.recovers) > 0 {
			// just restarted from a snapshot: must be where the uninterrupted twin was
			want, ok := viewAt[inc.startAt]
			if !ok {
				panic(fmt.Sprintf("harness: no reference view at %d", inc.startAt))
			}
			if got := b.view(); !sameView(got, want) {
				vfhelp.Fail(t, "c05-restored-state-differs", "B restarted from snapshot %d: %v, uninterrupted twin at that index: %v", inc.startAt, got, want)
			}
		}
	}
	feedTo(t, b, ents, last, "b")

	// differential, per incarnation of B
	dupAfterCut := map[string]int{}
	first := map[int]uint64{}
	for i, em := range meta {
		if em.Tmpl > 0 {
			if _, ok := first[em.Tmpl]; !ok {
				first[em.Tmpl] = uint64(i + 1)
			}
		}
	}
	for _, inc := range b.incs() {
		proc, _ := inc.processed()
		var want []upd
		for idx := uint64(1); idx <= last; idx++ {
			ao, bo := a.cur.node.byIndex[idx], inc.node.byIndex[idx]
			if !proc[idx] {
				if len(bo) > 0 {
					vfhelp.Fail(t, "c05-outcome-for-skipped-entry", "B/inc%d (started at %d, recovered %d snapshots) reported %v for index %d it never had to apply", inc.id, inc.startAt, len(inc.recovers), bo, idx)
				}
				continue
			}
			if len(ao) != len(bo) || (len(ao) == 1 && !sameOutcome(ao[0], bo[0])) {
				vfhelp.Fail(t, "c05-twins-differ-outcome", "index %d %v: A %v, B/inc%d (started at %d, installs %v) %v", idx, meta[idx-1], ao, inc.id, inc.startAt, installs, bo)
			}
		}
		for _, u := range model.applied {
			if proc[u.Index] {
				want = append(want, u)
			}
		}
		if sig, msg := checkDeliveries(inc.usm.pr().updates, want); sig != "" {
			vfhelp.Fail(t, "c05-B-"+sig, "B/inc%d (started at %d, ended at %d, installs %v): %s", inc.id, inc.startAt, inc.end(), installs, msg)
		}
		rec := inc.usm.pr().recovered
		if len(rec) != len(inc.recovers) {
			vfhelp.Fail(t, "c05-recovered-user-state", "B/inc%d recovered %d snapshots, user SM saw %d RecoverFromSnapshot calls", inc.id, len(inc.recovers), len(rec))
		}
		for i, ss := range inc.recovers {
			if rec[i] != refAt[ss.Index] {
				vfhelp.Fail(t, "c05-recovered-user-state", "B/inc%d snapshot %d: user SM recovered %v, want %v", inc.id, ss.Index, rec[i], refAt[ss.Index])
			}
		}
		// which duplicates had to be answered from a restored session table?
		for idx := range proc {
			em := meta[idx-1]
			if em.Kind != ekProposal || em.Copy == 0 {
				continue
			}
			for _, ss := range inc.recovers {
				if ss.Index < idx && first[em.Tmpl] <= ss.Index {
					dupAfterCut[verdicts[idx-1].Exp.String()]++
					break
				}
			}
		}
	}
	av, bv, vv := a.view(), b.view(), vw.view()
	if !sameView(av, bv) {
		vfhelp.Fail(t, "c05-twins-differ-final", "A %v, B %v", av, bv)
	}
	if !sameView(av, vv) {
		vfhelp.Fail(t, "c05-inspection-perturbs-state", "A %v, inspected twin %v", av, vv)
	}
	for _, inc := range b.incs() {
		for _, m := range inc.snap.metas {
			if m.LRUSize != uint64(limit) || m.Sessions > uint64(limit) {
				vfhelp.Fail(t, "c05-session-table-over-limit", "snapshot %d carries %d sessions, table size %d, limit %d", m.Index, m.Sessions, m.LRUSize, limit)
			}
		}
	}
	a.probeBad()
	b.probeBad()
	vw.probeBad()

	// ------------------------------------------------------------ evidence
	labels := []string{"kind:" + kind.String(), fmt.Sprintf("limit:%d", limit), sizeLabel(n)}
	if nClients > limit {
		labels = append(labels, "clients>limit")
	}
	vc := map[expect]int{}
	staleApplied, reborn, overflow, victim := 0, 0, 0, 0
	for i, v := range verdicts {
		vc[v.Exp]++
		if v.Exp == exApplied && meta[i].Stale {
			staleApplied++
		}
		if v.Reborn {
			reborn++
		}
		if v.Overflow {
			overflow++
		}
		if v.VictimFound {
			victim++
		}
	}
	for e, c := range vc {
		if c > 0 {
			labels = append(labels, "has:"+e.String())
		}
	}
	if staleApplied > 0 {
		labels = append(labels, "stale-copy-applied-first")
	}
	appliedPerTmpl := map[int]int{}
	for i, v := range verdicts {
		if v.Exp == exApplied && meta[i].Tmpl > 0 {
			appliedPerTmpl[meta[i].Tmpl]++
		}
	}
	for _, c := range appliedPerTmpl {
		if c > 1 {
			// only possible across two incarnations of a client id (see assumptions)
			labels = append(labels, "same-entry-applied-in-two-session-incarnations")
			break
		}
	}
	if reborn > 0 {
		labels = append(labels, "session-id-registered-again")
	}
	if overflow > 0 {
		labels = append(labels, "lru-overflow")
	}
	if victim > 0 {
		labels = append(labels, "victim-discovered")
	}
	if model.victimByProposal > 0 {
		labels = append(labels, "NT:evicted-victim-proposes")
	}
	for k := range dupAfterCut {
		labels = append(labels, "dup-after-restore:"+k)
	}
	restarts, fromSS, replayAll, raced, saves := 0, 0, 0, 0, 0
	for _, inc := range b.incs()[1:] {
		restarts++
		if len(inc.recovers) > 0 {
			fromSS++
		} else {
			replayAll++
		}
	}
	for _, s := range b.saves {
		saves++
		if s.Raced > 0 {
			raced++
		}
	}
	if fromSS > 0 {
		labels = append(labels, "B:restart-from-snapshot")
	}
	if replayAll > 0 {
		labels = append(labels, "B:restart-full-replay")
	}
	if raced > 0 {
		labels = append(labels, "B:updates-during-save")
	}
	if saves > 0 {
		labels = append(labels, "B:saved")
	}
	for _, s := range b.skipped {
		labels = append(labels, "B:skipped-"+s)
	}
	// live installs: did B hold a session that the snapshot no longer has,
	// and did that client propose again afterwards?
	staleInstall, staleRetried := 0, 0
	for _, in := range installs {
		for c, incn := range liveAt[in.J] {
			if now, ok := liveAt[in.K][c]; ok && now == incn {
				continue
			}
			staleInstall++
			for idx := in.K + 1; idx <= last; idx++ {
				if em := meta[idx-1]; em.Client == c && (em.Kind == ekProposal || em.Kind == ekRegister || em.Kind == ekUnregister) {
					staleRetried++
					break
				}
			}
		}
	}
	if len(installs) > 0 {
		labels = append(labels, "B:live-install")
	}
	if staleInstall > 0 {
		labels = append(labels, "B:live-install-with-stale-session")
	}
	if staleRetried > 0 {
		labels = append(labels, "NT:live-install-stale-session-client-returns")
	}
	nt := model.victimByProposal > 0 || dupAfterCut["cached"] > 0 || dupAfterCut["acked"] > 0 || staleRetried > 0
	if dupAfterCut["cached"] > 0 || dupAfterCut["acked"] > 0 {
		labels = append(labels, "NT:dup-dedup-after-restore")
	}
	var canon bytes.Buffer
	fmt.Fprintf(&canon, "%v/%d/%v/%v|%s|%v", kind, limit, env.cfg.SnapshotCompressionType, env.cfg.EntryCompressionType, canonStream(meta), cuts)
	st.Case(canon.Bytes(), nt, labels...)
	which := -1
	if dupAfterCut["cached"] > 0 {
		which = 0
	} else if model.victimByProposal > 0 {
		which = 1
	}
	if which >= 0 && !c05Sampled[which] && len(ents) <= 40 {
		c05Sampled[which] = true
		st.Sample(map[string]interface{}{
			"kind": kind.String(), "lru_limit": limit, "clients": nClients,
			"entries": renderStream(ents, meta, 60), "cuts_on_B": fmt.Sprint(cuts),
			"verdicts": fmt.Sprint(verdicts2(verdicts)), "dedup_after_restore": dupAfterCut,
			"victims_found_by_proposal": model.victimByProposal,
		})
	}
}

// snapshotPositions over-approximates the set of indexes at which B can be
// when one of its cuts takes a snapshot (B falls back to an earlier snapshot
// index on every restart), in ascending order.
func snapshotPositions(cuts []cut, last uint64, kind smKind) []uint64 {
	set := map[uint64]bool{}
	cur := map[uint64]bool{0: true}
	for _, c := range cuts {
		next := map[uint64]bool{}
		for p := range cur {
			at := p
			if c.At > at {
				at = c.At
			}
			if c.Kind == "live-install" {
				k := at + uint64(c.Gap)
				if k > last {
					k = last
				}
				next[at] = true
				if k > at {
					set[k] = true // B may later restart from the installed snapshot
					for _, more := range []uint64{0, uint64(c.More)} {
						q := k + more
						if q > last {
							q = last
						}
						next[q] = true
					}
				}
				continue
			}
			set[at] = true
			for _, more := range []uint64{0, uint64(c.More)} {
				for _, race := range []uint64{0, uint64(c.Race)} {
					q := at + more + race
					if q > last {
						q = last
					}
					next[q] = true
				}
			}
		}
		for p := range set {
			next[p] = true
		}
		next[0] = true
		cur = next
	}
	var out []uint64
	for p := range set {
		if p > 0 {
			out = append(out, p)
		}
	}
	sort.Slice(out, func(i, j int) bool { return out[i] < out[j] })
	return out
}

func verdicts2(v []verdict) []string {
	out := make([]string, len(v))
	for i := range v {
		out[i] = v[i].Exp.String()
		if v[i].VictimFound {
			out[i] += "(victim)"
		}
		if v[i].Overflow {
			out[i] += "(overflow)"
		}
	}
	return out
}

// checkDeliveries compares what a user SM was handed with what it should have
// been handed.
func checkDeliveries(got []upd, want []upd) (string, string) {
	for i := 1; i < len(got); i++ {
		if got[i].Index <= got[i-1].Index {
			return "update-order", fmt.Sprintf("Update index %d after %d", got[i].Index, got[i-1].Index)
		}
	}
	gi := map[uint64]upd{}
	for _, u := range got {
		gi[u.Index] = u
	}
	wi := map[uint64]upd{}
	for _, u := range want {
		wi[u.Index] = u
		g, ok := gi[u.Index]
		if !ok {
			return "update-missing", fmt.Sprintf("entry %d (cmd %x) never reached the user SM", u.Index, u.Cmd)
		}
		if !bytes.Equal(g.Cmd, u.Cmd) {
			return "update-cmd-altered", fmt.Sprintf("entry %d reached the user SM as %x, proposed %x", u.Index, g.Cmd, u.Cmd)
		}
	}
	for _, u := range got {
		if _, ok := wi[u.Index]; !ok {
			return "update-unexpected", fmt.Sprintf("entry %d (cmd %x) reached the user SM but must not (duplicate / unknown session / not a proposal / below the restored index)", u.Index, u.Cmd)
		}
	}
	return "", ""
}

// installFrom puts the latest snapshot of src (which must be at index) into
// dst's snapshot directory and LogDB record, the way a received InstallSnapshot
// ends up there (the transfer itself is C15's subject).
func installFrom(src, dst *replica, index uint64) bool {
	ss, ok := src.disk.latest()
	if !ok || ss.Index != index {
		return false
	}
	senv, denv := src.cur.snap.getEnv(index), dst.cur.snap.getEnv(index)
	if _, err := dst.disk.fs.Stat(denv.GetFinalDir()); err == nil {
		return false
	}
	f, err := src.disk.fs.Open(senv.GetFilepath())
	if err != nil {
		panic(err)
	}
	data, err := io.ReadAll(f)
	if err != nil {
		panic(err)
	}
	_ = f.Close()
	if err := dst.disk.fs.MkdirAll(denv.GetFinalDir(), 0o755); err != nil {
		panic(err)
	}
	w, err := dst.disk.fs.Create(denv.GetFilepath())
	if err != nil {
		panic(err)
	}
	if _, err := w.Write(data); err != nil {
		panic(err)
	}
	if err := w.Sync(); err != nil {
		panic(err)
	}
	_ = w.Close()
	ss.Filepath = denv.GetFilepath()
	dst.disk.setLatest(ss)
	return true
}
