package rsmdiff

import (
	"fmt"

	pb "github.com/lni/dragonboat/v4/raftpb"
	sm "github.com/lni/dragonboat/v4/statemachine"
)

// outcome is what the node (and through it the client) observes for one entry.
type outcome struct {
	Index      uint64
	Kind       string // "update" (ApplyUpdate) or "cc" (ApplyConfigChange)
	Result     sm.Result
	Rejected   bool
	Ignored    bool
	NotifyRead bool
	CC         pb.ConfigChange
	Key        uint64
}

func (o outcome) String() string {
	if o.Kind == "cc" {
		return fmt.Sprintf("cc{idx:%d rejected:%t}", o.Index, o.Rejected)
	}
	return fmt.Sprintf("upd{idx:%d v:%x d:%x rejected:%t ignored:%t}",
		o.Index, o.Result.Value, o.Result.Data, o.Rejected, o.Ignored)
}

// sameOutcome compares the client visible part.
func sameOutcome(a, b outcome) bool {
	return a.Index == b.Index && a.Kind == b.Kind && sameResult(a.Result, b.Result) &&
		a.Rejected == b.Rejected && a.Ignored == b.Ignored
}

// fakeNode is the rsm.INode of one incarnation. It mirrors what node.go does
// with the callbacks (including its fail-stop checks) and records everything.
type fakeNode struct {
	shardID   uint64
	replicaID uint64
	outs      []outcome
	byIndex   map[uint64][]outcome
	restored  []pb.Snapshot
	stepReady int
	bad       []string
	stopc     chan struct{}
}

func newFakeNode(shardID, replicaID uint64) *fakeNode {
	return &fakeNode{
		shardID:   shardID,
		replicaID: replicaID,
		byIndex:   make(map[uint64][]outcome),
		stopc:     make(chan struct{}),
	}
}

func (n *fakeNode) add(o outcome) {
	n.outs = append(n.outs, o)
	n.byIndex[o.Index] = append(n.byIndex[o.Index], o)
}

func (n *fakeNode) StepReady() { n.stepReady++ }

func (n *fakeNode) RestoreRemotes(ss pb.Snapshot) error {
	if ss.Membership.ConfigChangeId == 0 {
		// node.go panics here
		n.bad = append(n.bad, "restore-remotes-ccid-0")
	}
	n.restored = append(n.restored, ss)
	return nil
}

func (n *fakeNode) ApplyUpdate(e pb.Entry, r sm.Result, rejected bool, ignored bool, notifyRead bool) {
	if !ignored && e.Key == 0 {
		// node.go panics "key is 0"
		n.bad = append(n.bad, fmt.Sprintf("apply-update-key-0@%d", e.Index))
	}
	rc := sm.Result{Value: r.Value}
	if r.Data != nil {
		rc.Data = append([]byte{}, r.Data...)
	}
	n.add(outcome{Index: e.Index, Kind: "update", Result: rc, Rejected: rejected,
		Ignored: ignored, NotifyRead: notifyRead, Key: e.Key})
}

func (n *fakeNode) ApplyConfigChange(cc pb.ConfigChange, key uint64, rejected bool) error {
	// the harness sets Key = Index on config change entries
	n.add(outcome{Index: key, Kind: "cc", Rejected: rejected, CC: cc, Key: key})
	return nil
}

func (n *fakeNode) ReplicaID() uint64           { return n.replicaID }
func (n *fakeNode) ShardID() uint64             { return n.shardID }
func (n *fakeNode) ShouldStop() <-chan struct{} { return n.stopc }
