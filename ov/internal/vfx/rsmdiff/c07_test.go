package rsmdiff

import (
	"bytes"
	"fmt"
	"sort"
	"testing"

	"github.com/lni/dragonboat/v4/config"
	"github.com/lni/dragonboat/v4/internal/rsm"
	"github.com/lni/dragonboat/v4/internal/vfhelp"
	pb "github.com/lni/dragonboat/v4/raftpb"
	"pgregory.net/rapid"
)

func TestVF_C07_MembershipRules(t *testing.T) {
	st := vfhelp.NewStats("TestVF_C07_MembershipRules",
		"sequences of add / remove / add-non-voting / add-witness / promote config change entries with colliding replica ids "+
			"and addresses (case and white-space spellings), current / stale / arbitrary ConfigChangeId, ordered and unordered mode, "+
			"interleaved with proposals and no-op entries, applied entry by entry to two real rsm.StateMachine instances (all three SM kinds) "+
			"one of which is saved / restarted / recovered at generated points; requests are aimed using the observed membership the way a "+
			"client of SyncGetShardMembership would. oracle: the invariants of the property text after every entry, documented effect of an "+
			"accepted change, byte-identical membership after a rejected one, identical outcome and membership on both instances. "+
			"nontrivial = the sequence exercised >= 3 different rejection reasons")
	defer st.Flush()
	var sampled int
	rapid.Check(t, func(t *rapid.T) {
		kind := drawKind(t)
		env := &caseEnv{t: t, kind: kind, pad: drawPad(t)}
		env.cfg = config.Config{ShardID: 1, ReplicaID: 1,
			SnapshotCompressionType: drawCT(t, "snapshotSnappy"),
			OrderedConfigChange:     rapid.Bool().Draw(t, "ordered")}
		rsm.LRUMaxSessionCount = 4
		x := newReplica(env, "X", 1)
		y := newReplica(env, "Y", 1)
		x.start()
		y.start()
		o := genOpts{sessions: false, clients: 0, boot: rapid.IntRange(1, 3).Draw(t, "boot"), ccW: 80}
		defaultWeights(&o)
		o.wNoop, o.wEmpty = 10, 6
		g := newStreamGen(o)
		g.memFn = func() pb.Membership { return x.cur.sm.GetMembership() }
		g.ccidFn = func() uint64 { return x.cur.sm.GetMembership().ConfigChangeId }
		mc := newMemCheck(env.cfg.OrderedConfigChange)
		var cutsDone []string
		n := rapid.IntRange(6, 70).Draw(t, "n")
		// what happens to Y before it is handed entry number i (0-based)
		yCuts := map[int]int{}
		for i, nc := 0, rapid.IntRange(0, 4).Draw(t, "yCuts"); i < nc; i++ {
			yCuts[rapid.IntRange(1, n+o.boot-1).Draw(t, "yCutAt")] = []int{1, 2, 2, 3}[rapid.IntRange(0, 3).Draw(t, "yCutKind")]
		}
		done := 0
		process := func() {
			for ; done < len(g.ents); done++ {
				e, em := g.ents[done], g.meta[done]
				before := x.cur.sm.GetMembership()
				x.add([]pb.Entry{e})
				x.run()
				// Y: the same entry, sometimes behind a snapshot request, sometimes
				// after a restart
				switch yCuts[done] {
				case 1:
					if before.ConfigChangeId > 0 {
						y.addSave(rsm.SSRequest{})
						cutsDone = append(cutsDone, fmt.Sprintf("save@%d", e.Index-1))
					}
				case 2:
					if before.ConfigChangeId > 0 {
						y.addSave(rsm.SSRequest{})
						y.run()
						y.restart(drawCrashPos(t, y, "y"))
						cutsDone = append(cutsDone, fmt.Sprintf("save-restart@%d", e.Index-1))
					}
				case 3:
					y.restart(drawCrashPos(t, y, "y"))
					cutsDone = append(cutsDone, fmt.Sprintf("restart@%d", e.Index-1))
				}
				// a restarted Y replays from its snapshot
				feedTo(t, y, g.ents, e.Index-1, "yReplay")
				y.add([]pb.Entry{e})
				y.run()
				after := x.cur.sm.GetMembership()
				ya := y.cur.sm.GetMembership()
				if ca, cy := canonMembership(after), canonMembership(ya); ca != cy {
					vfhelp.Fail(t, "c07-instances-differ-membership", "after index %d %v: X %s, Y (%v) %s", e.Index, em, ca, cutsDone, cy)
				}
				xo, yo := x.cur.node.byIndex[e.Index], y.cur.node.byIndex[e.Index]
				if len(xo) != 1 || len(yo) != 1 || !sameOutcome(xo[0], yo[0]) {
					vfhelp.Fail(t, "c07-instances-differ-outcome", "index %d %v: X %v, Y (%v) %v", e.Index, em, xo, cutsDone, yo)
				}
				if em.Kind == ekCC || em.Kind == ekBootstrap {
					if xo[0].Kind != "cc" {
						vfhelp.Fail(t, "c07-cc-outcome-kind", "index %d: %v", e.Index, xo[0])
					}
					if sig, msg := mc.step(e.Index, em.CC, xo[0].Rejected, before, after); sig != "" {
						vfhelp.Fail(t, "c07-"+sig, "ordered=%t: %s", env.cfg.OrderedConfigChange, msg)
					}
				} else if cb, ca := canonMembership(before), canonMembership(after); cb != ca {
					vfhelp.Fail(t, "c07-non-cc-entry-changed-membership", "index %d %v: %s -> %s", e.Index, em, cb, ca)
				}
			}
		}
		g.bootstrap(t)
		process()
		for i := 0; i < n; i++ {
			g.step(t)
			process()
		}
		if xv, yv := x.view(), y.view(); !sameView(xv, yv) {
			vfhelp.Fail(t, "c07-instances-differ-final", "X %v, Y %v", xv, yv)
		}
		x.probeBad()
		y.probeBad()

		labels := []string{"kind:" + kind.String(), fmt.Sprintf("ordered:%t", env.cfg.OrderedConfigChange)}
		var reasons []string
		for r := range mc.reasons {
			reasons = append(reasons, r)
			labels = append(labels, "rejected:"+r)
		}
		sort.Strings(reasons)
		for a := range mc.accepts {
			labels = append(labels, "accepted:"+a)
		}
		fromSS := 0
		for _, inc := range y.incs()[1:] {
			if len(inc.recovers) > 0 {
				fromSS++
			}
		}
		if fromSS > 0 {
			labels = append(labels, "Y:recovered-from-snapshot")
		}
		if len(y.past) > fromSS {
			labels = append(labels, "Y:restart-full-replay")
		}
		if len(y.saves) > 0 {
			labels = append(labels, "Y:saved")
		}
		labels = append(labels, fmt.Sprintf("distinct-rejection-reasons:%d", min(len(reasons), 6)))
		nt := len(reasons) >= 3
		var canon bytes.Buffer
		fmt.Fprintf(&canon, "%v/%t|%s|%v", kind, env.cfg.OrderedConfigChange, canonStream(g.meta), cutsDone)
		st.Case(canon.Bytes(), nt, labels...)
		if nt && sampled < 2 && len(g.ents) <= 30 {
			sampled++
			var outs []string
			for i := range g.ents {
				o := x.cur.node.byIndex[uint64(i+1)]
				if len(o) == 1 && o[0].Kind == "cc" {
					outs = append(outs, fmt.Sprintf("%d:rejected=%t", i+1, o[0].Rejected))
				}
			}
			st.Sample(map[string]interface{}{"kind": kind.String(), "ordered": env.cfg.OrderedConfigChange,
				"entries": renderStream(g.ents, g.meta, 40), "outcomes": outs, "rejection_reasons": reasons,
				"cuts_on_Y": cutsDone, "final_membership": canonMembership(x.cur.sm.GetMembership())})
		}
	})
}
