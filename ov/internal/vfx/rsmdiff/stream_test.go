package rsmdiff

import (
	"fmt"
	"math"
	"strings"

	"github.com/lni/dragonboat/v4/client"
	"github.com/lni/dragonboat/v4/config"
	"github.com/lni/dragonboat/v4/internal/rsm"
	pb "github.com/lni/dragonboat/v4/raftpb"
	"pgregory.net/rapid"
)

type entKind int

const (
	ekEmpty       entKind = iota // raft no-op entry of a new leader
	ekBootstrap                  // config change of an initial member
	ekCC                         // requested config change
	ekRegister                   // session register
	ekUnregister                 // session unregister
	ekProposal                   // proposal under a regular session
	ekNoopSession                // proposal under the NoOP session
	ekUnknown                    // proposal of a client id that never registered
)

func (k entKind) String() string {
	return [...]string{"empty", "bootstrap", "cc", "register", "unregister", "proposal", "noop-session", "unknown"}[k]
}

// entMeta is the harness' knowledge about one log entry.
type entMeta struct {
	Kind      entKind
	Client    uint64
	Series    uint64
	Responded uint64
	Cmd       []byte // the user's command (before payload encoding)
	Tmpl      int    // entries with the same Tmpl are the same client entry retried
	Copy      int    // 0: first time this template lands in the log
	Stale     bool   // landed after the client moved on from this series
	CC        pb.ConfigChange
}

func (m entMeta) String() string {
	switch m.Kind {
	case ekEmpty:
		return "empty"
	case ekBootstrap, ekCC:
		return fmt.Sprintf("%s{%s id:%d addr:%q ccid:%d}", m.Kind, m.CC.Type, m.CC.ReplicaID, m.CC.Address, m.CC.ConfigChangeId)
	case ekRegister, ekUnregister:
		return fmt.Sprintf("%s{c:%x copy:%d}", m.Kind, m.Client, m.Copy)
	case ekNoopSession:
		return fmt.Sprintf("noop-session{c:%x cmd:%x}", m.Client, m.Cmd)
	}
	st := ""
	if m.Stale {
		st = " stale"
	}
	return fmt.Sprintf("%s{c:%x s:%d r:%d cmd:%x copy:%d%s}", m.Kind, m.Client, m.Series, m.Responded, m.Cmd, m.Copy, st)
}

type tmpl struct {
	id     int
	e      pb.Entry // without Index / Term / Key
	meta   entMeta
	copies int
}

// simClient follows the client.Session API: it really owns a client.Session
// object and only ever calls the documented methods on it.
type simClient struct {
	cs      *client.Session
	state   int // 0 new, 1 registered, 2 closed
	cur     *tmpl
	old     []*tmpl
	reg     *tmpl
	unreg   *tmpl
	lastUse int
}

type genOpts struct {
	sessions bool // regular client sessions allowed (not for on-disk SMs)
	ccW      int  // weight of requested config changes
	entryCT  config.CompressionType
	clients  int
	boot     int // number of initial members
	// weights
	wNew, wPropose, wDupCur, wDupStale, wUnreg, wDupSess, wUnknown, wNoop, wEmpty int
	recentBias                                                                    int // percent of client picks restricted to the most recently used ones
	recentN                                                                       int
}

func defaultWeights(o *genOpts) {
	o.wNew, o.wPropose, o.wDupCur, o.wDupStale = 8, 30, 12, 10
	o.wUnreg, o.wDupSess, o.wUnknown, o.wNoop, o.wEmpty = 3, 4, 2, 6, 4
	o.recentBias, o.recentN = 60, 3
}

// clientIDPool mixes small ids with boundary values; ids are what
// client.NewSession draws from its random source (any non-zero uint64).
var clientIDPool = []uint64{
	3, 1, 2, math.MaxUint64, 1 << 63, 0x1234567890abcdef, 7, 1<<53 + 1, 255, 256, 1 << 32, math.MaxUint64 - 1,
	11, 13, 17, 19,
}

var addrBases = []string{"host1:1", "host2:2", "10.0.0.3:3", "node-four:4", "a5.example.com:5", "h6:6", "h7:7"}

// addrVariant returns one of the spellings the target validator accepts for
// the same host:port (it trims white space; host names are case insensitive).
func addrVariant(t *rapid.T, base string) string {
	switch rapid.IntRange(0, 7).Draw(t, "addrVariant") {
	case 0:
		return strings.ToUpper(base)
	case 1:
		return " " + base
	case 2:
		return base + " "
	case 3:
		return "\t" + strings.ToUpper(base[:1]) + base[1:] + "\n"
	default:
		return base
	}
}

func normAddr(a string) string { return strings.ToLower(strings.TrimSpace(a)) }

type streamGen struct {
	o       genOpts
	ents    []pb.Entry
	meta    []entMeta
	term    uint64
	clients []*simClient
	nextTm  int
	lastCC  uint64 // index of the most recent config change entry
	ccidFn  func() uint64
	memFn   func() pb.Membership // optional: observed membership to bias config changes
	noopIDs []uint64
}

func newStreamGen(o genOpts) *streamGen {
	g := &streamGen{o: o, term: 1}
	for i := 0; i < o.clients && i < len(clientIDPool); i++ {
		g.clients = append(g.clients, &simClient{
			cs: &client.Session{ShardID: 1, ClientID: clientIDPool[i], SeriesID: client.NoOPSeriesID + 1},
		})
	}
	g.noopIDs = []uint64{0x77, math.MaxUint64 - 7, 5}
	return g
}

func (g *streamGen) next() uint64 { return uint64(len(g.ents)) + 1 }

func (g *streamGen) push(e pb.Entry, m entMeta) {
	e.Index = g.next()
	e.Term = g.term
	if m.Kind != ekEmpty {
		// the pending-request key, unique per Propose / RequestConfigChange
		// call (bootstrap entries carry none in production; the harness uses
		// it to attribute ApplyConfigChange callbacks to log indexes)
		e.Key = e.Index
	}
	g.ents = append(g.ents, e)
	g.meta = append(g.meta, m)
}

func (g *streamGen) land(tm *tmpl, stale bool) {
	m := tm.meta
	m.Copy = tm.copies
	m.Stale = stale
	tm.copies++
	g.push(tm.e, m)
}

// bootstrap appends the config change entries raft creates for the initial
// members (peer.go bootstrap()).
func (g *streamGen) bootstrap(t *rapid.T) {
	for i := 0; i < g.o.boot; i++ {
		cc := pb.ConfigChange{Type: pb.AddNode, ReplicaID: uint64(i + 1), Initialize: true,
			Address: addrVariant(t, addrBases[i])}
		g.push(pb.Entry{Type: pb.ConfigChangeEntry, Cmd: pb.MustMarshal(&cc)},
			entMeta{Kind: ekBootstrap, CC: cc})
		g.lastCC = g.next() - 1
	}
}

func (g *streamGen) encode(cmd []byte) pb.Entry {
	// request.go proposalShard.propose
	if len(cmd) == 0 {
		return pb.Entry{Type: pb.ApplicationEntry}
	}
	return pb.Entry{Type: pb.EncodedEntry, Cmd: rsm.GetEncoded(rsm.ToDioType(g.o.entryCT), cmd, nil)}
}

func genCmd(t *rapid.T) []byte {
	if rapid.IntRange(0, 9).Draw(t, "cmdEmpty") == 0 {
		return nil
	}
	n := rapid.IntRange(1, 6).Draw(t, "cmdLen")
	if rapid.IntRange(0, 30).Draw(t, "cmdBig") == 0 {
		n = rapid.IntRange(40, 300).Draw(t, "cmdBigLen")
	}
	out := make([]byte, n)
	out[0] = byte(rapid.IntRange(0, 255).Draw(t, "cmd0"))
	for i := 1; i < n; i++ {
		out[i] = out[0] + byte(i)
	}
	return out
}

func (g *streamGen) newTmpl(e pb.Entry, m entMeta) *tmpl {
	g.nextTm++
	m.Tmpl = g.nextTm
	return &tmpl{id: g.nextTm, e: e, meta: m}
}

func (g *streamGen) withState(states ...int) []*simClient {
	var out []*simClient
	for _, c := range g.clients {
		for _, s := range states {
			if c.state == s {
				out = append(out, c)
			}
		}
	}
	return out
}

// pick chooses a client, biased to the recently used ones so that sessions
// stay alive long enough to matter even with a tiny LRU.
func (g *streamGen) pick(t *rapid.T, cands []*simClient) *simClient {
	if len(cands) == 0 {
		return nil
	}
	if rapid.IntRange(0, 99).Draw(t, "recent") < g.o.recentBias {
		// the recentN most recently used candidates
		best := append([]*simClient{}, cands...)
		for i := 0; i < len(best); i++ {
			for j := i + 1; j < len(best); j++ {
				if best[j].lastUse > best[i].lastUse {
					best[i], best[j] = best[j], best[i]
				}
			}
		}
		n := g.o.recentN
		if n > len(best) {
			n = len(best)
		}
		return best[rapid.IntRange(0, n-1).Draw(t, "recentIdx")]
	}
	return cands[rapid.IntRange(0, len(cands)-1).Draw(t, "clientIdx")]
}

// step appends exactly one entry. Only operations that are possible in the
// current state take part in the draw.
func (g *streamGen) step(t *rapid.T) {
	type op struct {
		w int
		f func()
	}
	step := len(g.ents)
	var ops []op
	add := func(w int, f func()) {
		if w > 0 {
			ops = append(ops, op{w, f})
		}
	}
	moveOn := func(c *simClient) {
		if c.cur != nil {
			// completed or given up by the application
			c.cs.ProposalCompleted()
			c.old = append(c.old, c.cur)
			c.cur = nil
		}
	}
	add(g.o.wEmpty, func() {
		if rapid.Bool().Draw(t, "newTerm") {
			g.term += uint64(rapid.IntRange(1, 2).Draw(t, "termStep"))
		}
		g.push(pb.Entry{Type: pb.ApplicationEntry}, entMeta{Kind: ekEmpty})
	})
	if g.o.sessions {
		fresh := g.withState(0)
		active := g.withState(1)
		var inflight, withOld []*simClient
		var sessTmpls []*tmpl
		for _, c := range active {
			if c.cur != nil {
				inflight = append(inflight, c)
			}
		}
		for _, c := range g.withState(1, 2) {
			if len(c.old) > 0 {
				withOld = append(withOld, c)
			}
			if c.reg != nil {
				sessTmpls = append(sessTmpls, c.reg)
			}
			if c.unreg != nil {
				sessTmpls = append(sessTmpls, c.unreg)
			}
		}
		if len(fresh) > 0 {
			add(g.o.wNew, func() { // a new client registers
				c := fresh[0]
				c.cs.PrepareForRegister()
				e := pb.Entry{Type: pb.ApplicationEntry, ClientID: c.cs.ClientID, SeriesID: c.cs.SeriesID, RespondedTo: c.cs.RespondedTo}
				c.reg = g.newTmpl(e, entMeta{Kind: ekRegister, Client: c.cs.ClientID, Series: c.cs.SeriesID})
				g.land(c.reg, false)
				c.cs.PrepareForPropose()
				c.state = 1
				c.lastUse = step
			})
		}
		if len(active) > 0 {
			add(g.o.wPropose, func() { // next proposal of a registered client
				c := g.pick(t, active)
				moveOn(c)
				if !c.cs.ValidForProposal(1) {
					panic("harness: session not valid for proposal")
				}
				cmd := genCmd(t)
				e := g.encode(cmd)
				e.ClientID, e.SeriesID, e.RespondedTo = c.cs.ClientID, c.cs.SeriesID, c.cs.RespondedTo
				c.cur = g.newTmpl(e, entMeta{Kind: ekProposal, Client: e.ClientID, Series: e.SeriesID, Responded: e.RespondedTo, Cmd: cmd})
				c.lastUse = step
				if rapid.IntRange(0, 9).Draw(t, "lost") == 9 {
					// this attempt is still in flight; the entry lands later (or
					// never) through a retry; something else lands now
					g.push(pb.Entry{Type: pb.ApplicationEntry}, entMeta{Kind: ekEmpty})
					return
				}
				g.land(c.cur, false)
			})
			add(g.o.wUnreg, func() { // unregister
				c := g.pick(t, active)
				moveOn(c)
				c.cs.PrepareForUnregister()
				e := pb.Entry{Type: pb.ApplicationEntry, ClientID: c.cs.ClientID, SeriesID: c.cs.SeriesID, RespondedTo: c.cs.RespondedTo}
				c.unreg = g.newTmpl(e, entMeta{Kind: ekUnregister, Client: c.cs.ClientID, Series: c.cs.SeriesID, Responded: e.RespondedTo})
				g.land(c.unreg, false)
				c.state = 2
			})
		}
		if len(inflight) > 0 {
			add(g.o.wDupCur, func() { // retry of the proposal in flight
				c := g.pick(t, inflight)
				c.lastUse = step
				g.land(c.cur, false)
			})
		}
		if len(withOld) > 0 {
			add(g.o.wDupStale, func() { // a delayed copy of an older series
				c := g.pick(t, withOld)
				k := len(c.old) - 1 // mostly the most recent one
				if len(c.old) > 1 && rapid.IntRange(0, 2).Draw(t, "older") == 2 {
					k = rapid.IntRange(0, len(c.old)-1).Draw(t, "oldIdx")
				}
				g.land(c.old[k], true)
			})
		}
		if len(sessTmpls) > 0 {
			add(g.o.wDupSess, func() { // retried register / unregister
				g.land(sessTmpls[rapid.IntRange(0, len(sessTmpls)-1).Draw(t, "sessTmpl")], true)
			})
		}
		add(g.o.wUnknown, func() { // a session that was never registered
			id := uint64(0xdead0000) + uint64(rapid.IntRange(0, 2).Draw(t, "unknownID"))
			cmd := genCmd(t)
			e := g.encode(cmd)
			s := uint64(rapid.IntRange(1, 3).Draw(t, "unknownSeries"))
			e.ClientID, e.SeriesID, e.RespondedTo = id, s, s-1
			g.push(e, entMeta{Kind: ekUnknown, Client: id, Series: s, Responded: s - 1, Cmd: cmd, Tmpl: -1})
		})
	}
	add(g.o.wNoop, func() {
		cmd := genCmd(t)
		e := g.encode(cmd)
		e.ClientID = g.noopIDs[rapid.IntRange(0, len(g.noopIDs)-1).Draw(t, "noopID")]
		e.SeriesID = client.NoOPSeriesID
		g.push(e, entMeta{Kind: ekNoopSession, Client: e.ClientID, Cmd: cmd, Tmpl: -1})
	})
	add(g.o.ccW, func() {
		cc := g.genCC(t)
		g.push(pb.Entry{Type: pb.ConfigChangeEntry, Cmd: pb.MustMarshal(&cc)}, entMeta{Kind: ekCC, CC: cc})
		g.lastCC = g.next() - 1
	})
	total := 0
	for _, o := range ops {
		total += o.w
	}
	x := rapid.IntRange(0, total-1).Draw(t, "op")
	for _, o := range ops {
		if x < o.w {
			o.f()
			return
		}
		x -= o.w
	}
}

// genCC draws a config change request the way node.requestConfigChange builds
// it. Ids and addresses come from small pools so that they collide; when the
// current membership can be observed (memFn, what SyncGetShardMembership gives
// a real client) some requests aim at a specific rule.
func (g *streamGen) genCC(t *rapid.T) pb.ConfigChange {
	types := []pb.ConfigChangeType{pb.AddNode, pb.AddNode, pb.RemoveNode, pb.RemoveNode, pb.AddNonVoting, pb.AddNonVoting, pb.AddWitness}
	cc := pb.ConfigChange{Type: types[rapid.IntRange(0, len(types)-1).Draw(t, "ccType")]}
	cc.ReplicaID = uint64(rapid.IntRange(1, 7).Draw(t, "ccID"))
	base := addrBases[rapid.IntRange(0, len(addrBases)-1).Draw(t, "ccAddr")]
	if g.memFn != nil {
		mem := g.memFn()
		all := map[uint64]string{}
		for id, a := range mem.Addresses {
			all[id] = a
		}
		for id, a := range mem.NonVotings {
			all[id] = a
		}
		for id, a := range mem.Witnesses {
			all[id] = a
		}
		pickID := func(m map[uint64]string, label string) (uint64, bool) {
			ids := sortedIDs(m)
			if len(ids) == 0 {
				return 0, false
			}
			return ids[rapid.IntRange(0, len(ids)-1).Draw(t, label)], true
		}
		freeAddr := func() string {
			for _, b := range addrBases {
				used := false
				for _, a := range all {
					if normAddr(a) == b {
						used = true
					}
				}
				if !used {
					return b
				}
			}
			return base
		}
		freeID := func() uint64 {
			for id := uint64(1); id <= 9; id++ {
				if _, ok := all[id]; !ok && !mem.Removed[id] {
					return id
				}
			}
			return cc.ReplicaID
		}
		switch rapid.IntRange(0, 11).Draw(t, "ccIntent") {
		case 0: // promotion of a non-voting member, same address
			if id, ok := pickID(mem.NonVotings, "ccPick"); ok {
				cc.Type, cc.ReplicaID, base = pb.AddNode, id, normAddr(mem.NonVotings[id])
			}
		case 1: // promotion with a different address
			if id, ok := pickID(mem.NonVotings, "ccPick"); ok {
				cc.Type, cc.ReplicaID, base = pb.AddNode, id, freeAddr()
			}
		case 2: // new id, address of an existing member
			if id, ok := pickID(all, "ccPick"); ok && cc.Type != pb.RemoveNode {
				cc.ReplicaID, base = freeID(), normAddr(all[id])
			}
		case 3: // existing member id, any kind, free address
			if id, ok := pickID(all, "ccPick"); ok && cc.Type != pb.RemoveNode {
				cc.ReplicaID, base = id, freeAddr()
			}
		case 4: // remove an existing member
			if id, ok := pickID(all, "ccPick"); ok {
				cc.Type, cc.ReplicaID = pb.RemoveNode, id
			}
		case 5: // remove a voter (the last one, when there is only one)
			if id, ok := pickID(mem.Addresses, "ccPick"); ok {
				cc.Type, cc.ReplicaID = pb.RemoveNode, id
			}
		case 6: // add a removed id again
			rm := map[uint64]string{}
			for id := range mem.Removed {
				rm[id] = ""
			}
			if id, ok := pickID(rm, "ccPick"); ok && cc.Type != pb.RemoveNode {
				cc.ReplicaID, base = id, freeAddr()
			}
		case 7, 8: // a clean addition
			if cc.Type != pb.RemoveNode {
				cc.ReplicaID, base = freeID(), freeAddr()
			}
		}
	}
	if cc.Type != pb.RemoveNode {
		cc.Address = addrVariant(t, base)
	}
	cur := g.lastCC
	if g.ccidFn != nil {
		cur = g.ccidFn()
	}
	switch rapid.IntRange(0, 9).Draw(t, "ccidKind") {
	case 0:
		cc.ConfigChangeId = 0
	case 1:
		cc.ConfigChangeId = uint64(rapid.IntRange(0, int(g.next())).Draw(t, "ccidAny"))
	case 2:
		if cur > 0 {
			cc.ConfigChangeId = cur - 1
		}
	case 3:
		// the id of the previous config change entry, whether or not it was applied
		cc.ConfigChangeId = g.lastCC
	default:
		cc.ConfigChangeId = cur
	}
	return cc
}

func sortedIDs(m map[uint64]string) []uint64 {
	out := make([]uint64, 0, len(m))
	for k := range m {
		out = append(out, k)
	}
	for i := 0; i < len(out); i++ {
		for j := i + 1; j < len(out); j++ {
			if out[j] < out[i] {
				out[i], out[j] = out[j], out[i]
			}
		}
	}
	return out
}

func sortedBoolIDs(m map[uint64]bool) []uint64 {
	out := make([]uint64, 0, len(m))
	for k := range m {
		out = append(out, k)
	}
	for i := 0; i < len(out); i++ {
		for j := i + 1; j < len(out); j++ {
			if out[j] < out[i] {
				out[i], out[j] = out[j], out[i]
			}
		}
	}
	return out
}

// canonMembership is a byte-exact canonical rendering of a membership.
func canonMembership(m pb.Membership) string {
	var sb strings.Builder
	fmt.Fprintf(&sb, "ccid=%d;A{", m.ConfigChangeId)
	for _, id := range sortedIDs(m.Addresses) {
		fmt.Fprintf(&sb, "%d=%q,", id, m.Addresses[id])
	}
	sb.WriteString("}N{")
	for _, id := range sortedIDs(m.NonVotings) {
		fmt.Fprintf(&sb, "%d=%q,", id, m.NonVotings[id])
	}
	sb.WriteString("}W{")
	for _, id := range sortedIDs(m.Witnesses) {
		fmt.Fprintf(&sb, "%d=%q,", id, m.Witnesses[id])
	}
	sb.WriteString("}R{")
	for _, id := range sortedBoolIDs(m.Removed) {
		fmt.Fprintf(&sb, "%d,", id)
	}
	sb.WriteString("}")
	return sb.String()
}

// chunks splits ents[lo:hi] into tasks of generated sizes.
func chunks(t *rapid.T, ents []pb.Entry, maxSize int, label string) [][]pb.Entry {
	var out [][]pb.Entry
	for len(ents) > 0 {
		n := rapid.IntRange(1, maxSize).Draw(t, label)
		if n > len(ents) {
			n = len(ents)
		}
		out = append(out, ents[:n])
		ents = ents[n:]
	}
	return out
}
