// Package rsmdiff holds the E2 harness (C05, C08, C07.E2, C11.E2): the real
// internal/rsm.StateMachine with its session manager, membership, NativeSM and
// the three adapters is driven through synthetic committed-entry streams exactly
// the way node.go drives it (TaskQ().Add + Handle, Save / Recover / Stream
// tasks), with a recording rsm.INode, an in-memory but faithful
// rsm.ISnapshotter and instrumented user state machines. Overlay-only.
package rsmdiff
