package codec

// One unit per persisted / wire type of C13. Each unit draws a value with the
// structure-aware generator of gen.go and applies the oracles of
// oracle_test.go. Non-trivial (the rule of DESIGN C13): the value has at least
// one non-zero uint64 field below 2^49 and at least one at or above 2^49.

import (
	"bytes"
	"encoding/binary"
	"reflect"
	"testing"

	"github.com/lni/dragonboat/v4/client"
	"github.com/lni/dragonboat/v4/internal/vfhelp"
	pb "github.com/lni/dragonboat/v4/raftpb"
	"pgregory.net/rapid"
)

const ntRule = "structure-aware generator (boundary-biased uint64s, nil/empty/populated slices and maps, " +
	"nested values); non-trivial = at least one non-zero uint64 field < 2^49 and at least one >= 2^49; " +
	"distinct = distinct canonical JSON rendering of the value"

var fillGen = rapid.SampledFrom([]byte{0x00, 0xff, 0xa5, 0x7f, 0x80})

func finish(st *vfhelp.Stats, m *Meta, v interface{}, extra ...string) {
	nt := m.Spread.Both()
	labels := append(m.ClassLabels(), extra...)
	st.Case(Canon(v), nt, labels...)
	if nt && st.WantSample() {
		st.Sample(string(Canon(v)))
	}
}

// measured worst case of Size()-len(Cmd) over all generated entries, split by
// declared / undeclared Type values (evidence for the 128 byte slack of
// settings.EntryNonCmdFieldsSize)
var maxOverheadDeclared, maxOverheadAny int

func propEntry(st *vfhelp.Stats) func(t *rapid.T) {
	return func(t *rapid.T) {
		m := NewMeta()
		e := Entry(t, DefaultLimits(), m)
		data := checkSized(t, "entry", &e, normEntry, true, fillGen.Draw(t, "fill"))
		if oh := len(data) - len(e.Cmd); true {
			if oh > maxOverheadAny {
				maxOverheadAny = oh
				st.Set("max_noncmd_bytes_any_type", oh)
			}
			if e.Type >= 0 && e.Type <= pb.MetadataEntry && oh > maxOverheadDeclared {
				maxOverheadDeclared = oh
				st.Set("max_noncmd_bytes_declared_type", oh)
			}
		}
		// the colfer record always ends with the 0x7f terminator
		if len(data) == 0 || data[len(data)-1] != 0x7f {
			vfhelp.Fail(t, "entry-terminator", "encoding %x does not end with 0x7f", data)
		}
		finish(st, m, &e)
	}
}

func TestVF_C13_Entry(t *testing.T) {
	st := vfhelp.NewStats("TestVF_C13_Entry", "raftpb.Entry (hand written colfer codec): "+ntRule)
	defer st.Flush()
	rapid.Check(t, propEntry(st))
}

// FuzzVF_C13_Entry is the same property as a native fuzz target; as a plain
// test it runs on its seed corpus only.
func FuzzVF_C13_Entry(f *testing.F) {
	st := vfhelp.NewStats("FuzzVF_C13_Entry", "raftpb.Entry round trip driven by the native fuzzer through rapid.MakeFuzz")
	defer st.Flush()
	f.Add([]byte{})
	f.Add(bytes.Repeat([]byte{0xff}, 256))
	f.Add(bytes.Repeat([]byte{0x00, 0x01, 0x80, 0x7f}, 64))
	f.Add(bytes.Repeat([]byte{0x02, 0x00, 0x00, 0x00, 0x00, 0x00, 0x00}, 40))
	for k := uint64(1); k <= 12; k++ { // pseudo random seeds
		x := k * 0x9E3779B97F4A7C15
		b := make([]byte, 768)
		for i := range b {
			x ^= x << 13
			x ^= x >> 7
			x ^= x << 17
			b[i] = byte(x >> 24)
		}
		f.Add(b)
	}
	f.Fuzz(rapid.MakeFuzz(propEntry(st)))
}

func TestVF_C13_EntryBatch(t *testing.T) {
	st := vfhelp.NewStats("TestVF_C13_EntryBatch", "raftpb.EntryBatch incl. batches compacted the way logdb does (Term/Index of entries 1.. zeroed): "+ntRule)
	defer st.Flush()
	rapid.Check(t, func(t *rapid.T) {
		m := NewMeta()
		lim := DefaultLimits()
		lim.MaxElems = 6
		eb := pb.EntryBatch{Entries: Entries(t, lim, m, "entries")}
		var extra []string
		// internal/logdb/batch.go compactBatchFields: same term, consecutive
		// indexes => Term and Index of entries 1.. are stored as 0
		if n := len(eb.Entries); n > 1 && eb.Entries[0].Term == eb.Entries[n-1].Term &&
			eb.Entries[0].Index+uint64(n-1) == eb.Entries[n-1].Index && rapid.Bool().Draw(t, "compact") {
			for i := 1; i < n; i++ {
				eb.Entries[i].Term, eb.Entries[i].Index = 0, 0
			}
			extra = append(extra, "batch-compacted-fields")
		}
		data := checkSized(t, "entrybatch", &eb, normEntryBatch, true, fillGen.Draw(t, "fill"))
		// (e) cross-type: the batch is a sequence of field-1 records each holding
		// exactly the stand-alone encoding of the entry
		fs, err := parseWire(data)
		if err != nil {
			vfhelp.Fail(t, "entrybatch-wire-malformed", "%v: %x", err, data)
		}
		if len(fs) != len(eb.Entries) {
			vfhelp.Fail(t, "entrybatch-wire-count", "%d records for %d entries", len(fs), len(eb.Entries))
		}
		for i, f := range fs {
			want, _ := eb.Entries[i].Marshal()
			if f.num != 1 || f.wt != 2 || !bytes.Equal(f.b, want) {
				vfhelp.Fail(t, "entrybatch-wire-entry", "record %d: field %d wt %d %x, want entry encoding %x", i, f.num, f.wt, f.b, want)
			}
		}
		finish(st, m, &eb, extra...)
	})
}

func TestVF_C13_State(t *testing.T) {
	st := vfhelp.NewStats("TestVF_C13_State", "raftpb.State: "+ntRule)
	defer st.Flush()
	rapid.Check(t, func(t *rapid.T) {
		m := NewMeta()
		s := State(t, m)
		checkSized(t, "state", &s, nil, true, fillGen.Draw(t, "fill"))
		finish(st, m, &s)
	})
}

// wantMessageWire lists the fields raft.proto prescribes for a Message, in
// field order, from the Go value (written from raft.proto, independent of
// message.go).
func wantMessageWire(msg *pb.Message) []wireField {
	out := []wireField{
		{num: 1, v: varintOfInt32(int32(msg.Type))},
		{num: 2, v: msg.To}, {num: 3, v: msg.From}, {num: 4, v: msg.ShardID}, {num: 5, v: msg.Term},
		{num: 6, v: msg.LogTerm}, {num: 7, v: msg.LogIndex}, {num: 8, v: msg.Commit},
		{num: 9, v: b2u(msg.Reject)}, {num: 10, v: msg.Hint},
	}
	for i := range msg.Entries {
		b, _ := msg.Entries[i].Marshal()
		out = append(out, wireField{num: 11, wt: 2, b: b})
	}
	out = append(out, wireField{num: 12, wt: 2}, wireField{num: 13, v: msg.HintHigh})
	return out
}

func checkMessageWire(t *rapid.T, data []byte, msg *pb.Message) {
	fs, err := parseWire(data)
	if err != nil {
		vfhelp.Fail(t, "message-wire-malformed", "%v: %x", err, data)
	}
	want := wantMessageWire(msg)
	if len(fs) != len(want) {
		vfhelp.Fail(t, "message-wire-fields", "%d fields on the wire, want %d: %x", len(fs), len(want), data)
	}
	for i, w := range want {
		f := fs[i]
		if f.num != w.num || f.wt != w.wt || f.v != w.v {
			vfhelp.Fail(t, "message-wire-fields", "field #%d: got num=%d wt=%d v=%d want num=%d wt=%d v=%d",
				i, f.num, f.wt, f.v, w.num, w.wt, w.v)
		}
		switch w.num {
		case 11:
			if !bytes.Equal(f.b, w.b) {
				vfhelp.Fail(t, "message-wire-entry", "entry bytes %x want %x", f.b, w.b)
			}
		case 12:
			var s pb.Snapshot
			if err := s.Unmarshal(f.b); err != nil {
				vfhelp.Fail(t, "message-wire-snapshot", "embedded snapshot does not decode: %v", err)
			}
			wantS := msg.Snapshot
			normSnapshot(&wantS)
			normSnapshot(&s)
			if !reflect.DeepEqual(&s, &wantS) {
				vfhelp.Fail(t, "message-wire-snapshot", "embedded snapshot %s want %s", Canon(&s), Canon(&wantS))
			}
		}
	}
}

func TestVF_C13_Message(t *testing.T) {
	st := vfhelp.NewStats("TestVF_C13_Message", "raftpb.Message (generated encoder, hand written decoder) incl. entries and snapshot; "+
		"the encoding is also read with an independent protobuf wire reader and compared field by field: "+ntRule)
	defer st.Flush()
	rapid.Check(t, func(t *rapid.T) {
		m := NewMeta()
		msg := Message(t, DefaultLimits(), m)
		data := checkSized(t, "message", &msg, normMessage, messageDeterministic(&msg), fillGen.Draw(t, "fill"))
		checkMessageWire(t, data, &msg)
		finish(st, m, &msg)
	})
}

func TestVF_C13_MessageBatch(t *testing.T) {
	st := vfhelp.NewStats("TestVF_C13_MessageBatch", "raftpb.MessageBatch of generated messages (entries, snapshots); independent wire reader: "+ntRule)
	defer st.Flush()
	rapid.Check(t, func(t *rapid.T) {
		m := NewMeta()
		lim := DefaultLimits()
		lim.MaxElems = 3
		mb := MessageBatch(t, lim, m)
		data := checkSized(t, "messagebatch", &mb, normMessageBatch, batchDeterministic(&mb), fillGen.Draw(t, "fill"))
		fs, err := parseWire(data)
		if err != nil {
			vfhelp.Fail(t, "messagebatch-wire-malformed", "%v: %x", err, data)
		}
		if len(fs) != len(mb.Requests)+3 {
			vfhelp.Fail(t, "messagebatch-wire-fields", "%d fields, want %d", len(fs), len(mb.Requests)+3)
		}
		for i := range mb.Requests {
			if fs[i].num != 1 || fs[i].wt != 2 {
				vfhelp.Fail(t, "messagebatch-wire-fields", "field #%d is num=%d wt=%d, want Requests", i, fs[i].num, fs[i].wt)
			}
			checkMessageWire(t, fs[i].b, &mb.Requests[i])
		}
		tail := fs[len(mb.Requests):]
		if tail[0].num != 2 || tail[0].wt != 0 || tail[0].v != mb.DeploymentId ||
			tail[1].num != 3 || tail[1].wt != 2 || string(tail[1].b) != mb.SourceAddress ||
			tail[2].num != 4 || tail[2].wt != 0 || tail[2].v != uint64(mb.BinVer) {
			vfhelp.Fail(t, "messagebatch-wire-fields", "trailer fields %+v do not match deployment=%d source=%q binver=%d",
				tail, mb.DeploymentId, mb.SourceAddress, mb.BinVer)
		}
		finish(st, m, &mb)
	})
}

func TestVF_C13_Snapshot(t *testing.T) {
	st := vfhelp.NewStats("TestVF_C13_Snapshot", "raftpb.Snapshot with membership maps and snapshot files: "+ntRule)
	defer st.Flush()
	rapid.Check(t, func(t *rapid.T) {
		m := NewMeta()
		s := Snapshot(t, DefaultLimits(), m, false)
		checkSized(t, "snapshot", &s, normSnapshot, membershipDeterministic(&s.Membership), fillGen.Draw(t, "fill"))
		finish(st, m, &s)
	})
}

func TestVF_C13_SnapshotFile(t *testing.T) {
	st := vfhelp.NewStats("TestVF_C13_SnapshotFile", "raftpb.SnapshotFile: "+ntRule)
	defer st.Flush()
	rapid.Check(t, func(t *rapid.T) {
		m := NewMeta()
		s := SnapshotFile(t, DefaultLimits(), m)
		checkSized(t, "snapshotfile", &s, nil, true, fillGen.Draw(t, "fill"))
		finish(st, m, &s)
	})
}

func TestVF_C13_SnapshotHeader(t *testing.T) {
	st := vfhelp.NewStats("TestVF_C13_SnapshotHeader", "raftpb.SnapshotHeader: "+ntRule)
	defer st.Flush()
	rapid.Check(t, func(t *rapid.T) {
		m := NewMeta()
		s := SnapshotHeader(t, DefaultLimits(), m)
		checkSized(t, "snapshotheader", &s, nil, true, fillGen.Draw(t, "fill"))
		finish(st, m, &s)
	})
}

func TestVF_C13_Membership(t *testing.T) {
	st := vfhelp.NewStats("TestVF_C13_Membership", "raftpb.Membership (four maps, each nil / empty / populated): "+ntRule)
	defer st.Flush()
	rapid.Check(t, func(t *rapid.T) {
		m := NewMeta()
		s := Membership(t, DefaultLimits(), m)
		checkSized(t, "membership", &s, normMembership, membershipDeterministic(&s), fillGen.Draw(t, "fill"))
		finish(st, m, &s)
	})
}

func TestVF_C13_ConfigChange(t *testing.T) {
	st := vfhelp.NewStats("TestVF_C13_ConfigChange", "raftpb.ConfigChange: "+ntRule)
	defer st.Flush()
	rapid.Check(t, func(t *rapid.T) {
		m := NewMeta()
		s := ConfigChange(t, DefaultLimits(), m)
		checkSized(t, "configchange", &s, nil, true, fillGen.Draw(t, "fill"))
		finish(st, m, &s)
	})
}

func TestVF_C13_Chunk(t *testing.T) {
	st := vfhelp.NewStats("TestVF_C13_Chunk", "raftpb.Chunk with membership, file info and data: "+ntRule)
	defer st.Flush()
	rapid.Check(t, func(t *rapid.T) {
		m := NewMeta()
		s := Chunk(t, DefaultLimits(), m)
		checkSized(t, "chunk", &s, normChunk, membershipDeterministic(&s.Membership), fillGen.Draw(t, "fill"))
		finish(st, m, &s)
	})
}

func TestVF_C13_Bootstrap(t *testing.T) {
	st := vfhelp.NewStats("TestVF_C13_Bootstrap", "raftpb.Bootstrap; non-trivial = address map with keys on both sides of 2^49: "+ntRule)
	defer st.Flush()
	rapid.Check(t, func(t *rapid.T) {
		m := NewMeta()
		lim := DefaultLimits()
		lim.MaxElems = 5
		s := Bootstrap(t, lim, m)
		checkSized(t, "bootstrap", &s, normBootstrap, len(s.Addresses) <= 1, fillGen.Draw(t, "fill"))
		finish(st, m, &s)
	})
}

func TestVF_C13_RaftDataStatus(t *testing.T) {
	st := vfhelp.NewStats("TestVF_C13_RaftDataStatus", "raftpb.RaftDataStatus: "+ntRule)
	defer st.Flush()
	rapid.Check(t, func(t *rapid.T) {
		m := NewMeta()
		s := RaftDataStatus(t, DefaultLimits(), m)
		checkSized(t, "raftdatastatus", &s, nil, true, fillGen.Draw(t, "fill"))
		finish(st, m, &s)
	})
}

func TestVF_C13_Session(t *testing.T) {
	st := vfhelp.NewStats("TestVF_C13_Session", "client.Session: "+ntRule)
	defer st.Flush()
	rapid.Check(t, func(t *rapid.T) {
		m := NewMeta()
		s := Session(t, m)
		if Pick(t, "special", 3) == 0 {
			s.SeriesID = rapid.SampledFrom([]uint64{client.NoOPSeriesID, client.SeriesIDForRegister,
				client.SeriesIDForUnregister, client.SeriesIDFirstProposal}).Draw(t, "series")
			m.Tag("session-special-series")
		}
		checkSized(t, "session", &s, nil, true, fillGen.Draw(t, "fill"))
		finish(st, m, &s)
	})
}

// ---- Update: the Tan record ---------------------------------------------

func uvarintLen(v uint64) int {
	var b [binary.MaxVarintLen64]byte
	return binary.PutUvarint(b[:], v)
}

// updateRecordLen is the record length prescribed by the format documented in
// raftpb/update.go MarshalTo.
func updateRecordLen(u *pb.Update) int {
	n := uvarintLen(u.ShardID) + uvarintLen(u.ReplicaID)
	n++
	if !pb.IsEmptyState(u.State) {
		n += 4 + u.State.Size()
	}
	n += 4
	for i := range u.EntriesToSave {
		n += 4 + u.EntriesToSave[i].Size()
	}
	n++
	if !pb.IsEmptySnapshot(u.Snapshot) {
		n += 4 + u.Snapshot.Size()
	}
	return n
}

func persistedUpdate(u *pb.Update) pb.Update {
	out := pb.Update{ShardID: u.ShardID, ReplicaID: u.ReplicaID, State: u.State}
	out.EntriesToSave = normEntries(u.EntriesToSave)
	if !pb.IsEmptySnapshot(u.Snapshot) {
		out.Snapshot = u.Snapshot
		normSnapshot(&out.Snapshot)
	}
	return out
}

func TestVF_C13_Update(t *testing.T) {
	st := vfhelp.NewStats("TestVF_C13_Update", "raftpb.Update as written by internal/tan (MarshalTo into a dirty buffer of exactly / at least SizeUpperLimit(), Unmarshal of the record): "+ntRule)
	defer st.Flush()
	rapid.Check(t, func(t *rapid.T) {
		m := NewMeta()
		lim := DefaultLimits()
		lim.MaxElems = 5
		u := Update(t, lim, m)
		fill := fillGen.Draw(t, "fill")
		var upper int
		guard(t, "update-sizeupperlimit-panic", func() { upper = u.SizeUpperLimit() })
		want := updateRecordLen(&u)
		if want > upper {
			vfhelp.Fail(t, "update-size-exceeds-upper-limit", "record needs %d bytes, SizeUpperLimit()=%d for %s", want, upper, Canon(&u))
		}
		// internal/tan/db.go write(): buf of exactly SizeUpperLimit() when the
		// shared buffer is too small, otherwise a larger, reused (dirty) buffer
		extra := rapid.SampledFrom([]int{0, 0, 0, 1, 7, 64}).Draw(t, "extra")
		buf := dirtyBuf(upper+extra, fill)
		var n int
		var err error
		guard(t, "update-marshalto-upper-panic", func() { n, err = u.MarshalTo(buf) })
		if err != nil {
			vfhelp.Fail(t, "update-marshalto-error", "%v", err)
		}
		if n != want {
			vfhelp.Fail(t, "update-record-length", "MarshalTo returned %d, the record format prescribes %d for %s", n, want, Canon(&u))
		}
		for _, b := range buf[n:] {
			if b != fill {
				vfhelp.Fail(t, "update-marshalto-writes-past-record", "bytes after the returned length were modified")
			}
		}
		deterministic := membershipDeterministic(&u.Snapshot.Membership)
		if deterministic {
			again := dirtyBuf(upper, ^fill)
			var n2 int
			guard(t, "update-marshalto-upper-panic", func() { n2, err = u.MarshalTo(again) })
			if n2 != n || !bytes.Equal(again[:n2], buf[:n]) {
				vfhelp.Fail(t, "update-marshalto-depends-on-buffer", "encoding depends on the previous content of the buffer")
			}
		}
		var got pb.Update
		guard(t, "update-unmarshal-panic", func() { err = got.Unmarshal(buf[:n]) })
		if err != nil {
			vfhelp.Fail(t, "update-unmarshal-error", "%v record=%x for %s", err, buf[:n], Canon(&u))
		}
		for i := range buf { // tan reuses the record buffer: the decoded value must not alias it
			buf[i] = 0xee
		}
		got.EntriesToSave = normEntries(got.EntriesToSave)
		normSnapshot(&got.Snapshot)
		exp := persistedUpdate(&u)
		if !reflect.DeepEqual(&got, &exp) {
			vfhelp.Fail(t, "update-roundtrip", "got %s want %s", Canon(&got), Canon(&exp))
		}
		finish(st, m, &exp)
	})
}
