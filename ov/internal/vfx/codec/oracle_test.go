package codec

// Oracles of C13, shared by the per-type units. Every oracle has its own
// signature "<type>-<what>":
//
//	-marshal-panic / -marshal-error      Marshal must work for every value
//	-size-mismatch                       len(Marshal(x)) == x.Size()
//	-unmarshal-error / -unmarshal-panic  decoding the own encoding must work
//	-roundtrip                           Unmarshal(Marshal(x)) == x (modulo the stated normalisation)
//	-marshalto-exact-panic               MarshalTo into a buffer of exactly Size() bytes
//	-marshalto-len / -marshalto-bytes    ... returns Size() and the bytes Marshal returned
//	-size-exceeds-upper-limit            Size() <= SizeUpperLimit()
//	-marshalto-upper-*                   MarshalTo into a (dirty) buffer of exactly SizeUpperLimit() bytes
//
// Normalisation (the only differences between x and Unmarshal(Marshal(x)) that
// are accepted; they are exactly the nil/empty identifications the wire format
// cannot express, see the norm* functions):
//
//	Entry          Cmd: empty -> nil (a zero length Cmd is not written at all)
//	EntryBatch     Entries: empty -> nil; per entry as Entry
//	Message        Entries: empty -> nil; per entry as Entry; Snapshot as Snapshot
//	MessageBatch   Requests: empty -> nil; per message as Message
//	Membership     each of the four maps: empty -> nil
//	Snapshot       Files: empty -> nil; Membership as Membership
//	               (Checksum and SnapshotFile.Metadata keep nil != empty: the
//	               encoder writes a zero length field for empty-non-nil and the
//	               decoder restores []byte{})
//	Chunk          Membership as Membership (Data, FileInfo.Metadata keep nil != empty)
//	Bootstrap      Addresses: empty -> nil
//	SnapshotHeader, SnapshotFile, State, ConfigChange, RaftDataStatus, Session: none
//	Update         only ShardID, ReplicaID, State, EntriesToSave, Snapshot are persisted;
//	               EntriesToSave: empty -> nil; a Snapshot with Index == 0 is the
//	               "empty dummy record" (pb.IsEmptySnapshot) and is not written.

import (
	"bytes"
	"fmt"
	"reflect"

	"github.com/lni/dragonboat/v4/internal/vfhelp"
	pb "github.com/lni/dragonboat/v4/raftpb"
	"pgregory.net/rapid"
)

type sized interface {
	Marshal() ([]byte, error)
	MarshalTo([]byte) (int, error)
	Unmarshal([]byte) error
	Size() int
}

type upperLimited interface {
	SizeUpperLimit() int
}

// guard runs f and converts a panic of the code under test into a violation.
func guard(t *rapid.T, sig string, f func()) {
	defer func() {
		if r := recover(); r != nil {
			vfhelp.Fail(t, sig, "panic: %v", r)
		}
	}()
	f()
}

func dirtyBuf(n int, fill byte) []byte {
	b := make([]byte, n)
	for i := range b {
		b[i] = fill
	}
	return b
}

// checkSized applies oracles (a), (b), (c) to one value. x is the value,
// fresh returns a new zero value to decode into, norm normalises in place,
// deterministic says whether the encoding is byte-for-byte deterministic (false
// for values with a multi-entry map: the encoder iterates the Go map).
// It returns the encoding.
func checkSized[T any, P interface {
	*T
	sized
}](t *rapid.T, name string, x *T, norm func(*T), deterministic bool, fill byte) []byte {
	px := P(x)
	var size int
	guard(t, name+"-size-panic", func() { size = px.Size() })
	var data []byte
	var err error
	guard(t, name+"-marshal-panic", func() { data, err = px.Marshal() })
	if err != nil {
		vfhelp.Fail(t, name+"-marshal-error", "%v for %s", err, Canon(x))
	}
	if len(data) != size {
		vfhelp.Fail(t, name+"-size-mismatch", "len(Marshal)=%d Size()=%d for %s", len(data), size, Canon(x))
	}
	// (c) exact buffer, pre-filled with garbage: no panic, same length, same bytes
	exact := dirtyBuf(size, fill)
	var n int
	guard(t, name+"-marshalto-exact-panic", func() { n, err = px.MarshalTo(exact) })
	if err != nil {
		vfhelp.Fail(t, name+"-marshalto-error", "%v", err)
	}
	if n != size {
		vfhelp.Fail(t, name+"-marshalto-len", "MarshalTo returned %d, Size()=%d for %s", n, size, Canon(x))
	}
	if deterministic && !bytes.Equal(exact[:n], data) {
		vfhelp.Fail(t, name+"-marshalto-bytes", "MarshalTo(dirty exact buffer)=%x Marshal=%x", exact[:n], data)
	}
	// (b') upper limit, where the type advertises one
	if ul, ok := interface{}(px).(upperLimited); ok {
		var upper int
		guard(t, name+"-sizeupperlimit-panic", func() { upper = ul.SizeUpperLimit() })
		if size > upper {
			vfhelp.Fail(t, name+"-size-exceeds-upper-limit", "Size()=%d SizeUpperLimit()=%d for %s", size, upper, Canon(x))
		}
		ub := dirtyBuf(upper, fill)
		guard(t, name+"-marshalto-upper-panic", func() { n, err = px.MarshalTo(ub) })
		if err != nil || n != size {
			vfhelp.Fail(t, name+"-marshalto-upper-len", "MarshalTo(upper limit buffer) n=%d err=%v Size()=%d", n, err, size)
		}
		if deterministic && !bytes.Equal(ub[:n], data) {
			vfhelp.Fail(t, name+"-marshalto-upper-bytes", "MarshalTo(upper limit buffer)=%x Marshal=%x", ub[:n], data)
		}
	}
	// (a) round trip, of both encodings
	decodeEq := func(src []byte, what string) {
		y := new(T)
		// decode from a private copy and scribble over it afterwards: the
		// transport and the log stores reuse their read buffers, so a decoded
		// value must not alias the bytes it was decoded from
		enc := append([]byte(nil), src...)
		guard(t, name+"-unmarshal-panic", func() { err = P(y).Unmarshal(enc) })
		if err != nil {
			vfhelp.Fail(t, name+"-unmarshal-error", "%s: %v data=%x for %s", what, err, enc, Canon(x))
		}
		for i := range enc {
			enc[i] = 0xee
		}
		if norm != nil {
			norm(y)
		}
		want := *x // shallow copy; norm only replaces empty by nil
		if norm != nil {
			norm(&want)
		}
		if !reflect.DeepEqual(&want, y) {
			vfhelp.Fail(t, name+"-roundtrip", "%s: got %s want %s", what, Canon(y), Canon(&want))
		}
	}
	decodeEq(data, "Marshal")
	if !deterministic {
		decodeEq(exact[:n], "MarshalTo")
	}
	return data
}

// ---- normalisation -------------------------------------------------------

func normEntry(e *pb.Entry) {
	if len(e.Cmd) == 0 {
		e.Cmd = nil
	}
}

func normEntries(es []pb.Entry) []pb.Entry {
	if len(es) == 0 {
		return nil
	}
	out := make([]pb.Entry, len(es))
	copy(out, es)
	for i := range out {
		normEntry(&out[i])
	}
	return out
}

func normEntryBatch(b *pb.EntryBatch) { b.Entries = normEntries(b.Entries) }

func normMembership(m *pb.Membership) {
	if len(m.Addresses) == 0 {
		m.Addresses = nil
	}
	if len(m.Removed) == 0 {
		m.Removed = nil
	}
	if len(m.NonVotings) == 0 {
		m.NonVotings = nil
	}
	if len(m.Witnesses) == 0 {
		m.Witnesses = nil
	}
}

func normSnapshot(s *pb.Snapshot) {
	normMembership(&s.Membership)
	if len(s.Files) == 0 {
		s.Files = nil
	}
}

func normMessage(m *pb.Message) {
	m.Entries = normEntries(m.Entries)
	normSnapshot(&m.Snapshot)
}

func normMessageBatch(b *pb.MessageBatch) {
	if len(b.Requests) == 0 {
		b.Requests = nil
		return
	}
	out := make([]pb.Message, len(b.Requests))
	copy(out, b.Requests)
	for i := range out {
		normMessage(&out[i])
	}
	b.Requests = out
}

func normChunk(c *pb.Chunk) { normMembership(&c.Membership) }

func normBootstrap(b *pb.Bootstrap) {
	if len(b.Addresses) == 0 {
		b.Addresses = nil
	}
}

// ---- determinism of the encoding ----------------------------------------

func membershipDeterministic(m *pb.Membership) bool {
	return len(m.Addresses) <= 1 && len(m.Removed) <= 1 && len(m.NonVotings) <= 1 && len(m.Witnesses) <= 1
}

func messageDeterministic(m *pb.Message) bool { return membershipDeterministic(&m.Snapshot.Membership) }

func batchDeterministic(b *pb.MessageBatch) bool {
	for i := range b.Requests {
		if !messageDeterministic(&b.Requests[i]) {
			return false
		}
	}
	return true
}

// ---- independent protobuf wire reader ------------------------------------

// wireField is one field of a protobuf message as found on the wire.
type wireField struct {
	num int
	wt  int
	v   uint64 // wire type 0
	b   []byte // wire type 2
}

// parseWire is a minimal, independent reader of the protobuf wire format
// (varint and length-delimited fields only, which is all raft.proto uses).
func parseWire(data []byte) ([]wireField, error) {
	var out []wireField
	i := 0
	uv := func() (uint64, error) {
		var x uint64
		for s := uint(0); ; s += 7 {
			if i >= len(data) {
				return 0, fmt.Errorf("truncated varint at %d", i)
			}
			if s >= 64 {
				return 0, fmt.Errorf("varint overflow at %d", i)
			}
			b := data[i]
			i++
			x |= uint64(b&0x7f) << s
			if b < 0x80 {
				return x, nil
			}
		}
	}
	for i < len(data) {
		tag, err := uv()
		if err != nil {
			return nil, err
		}
		f := wireField{num: int(tag >> 3), wt: int(tag & 7)}
		switch f.wt {
		case 0:
			if f.v, err = uv(); err != nil {
				return nil, err
			}
		case 2:
			l, err := uv()
			if err != nil {
				return nil, err
			}
			if l > uint64(len(data)-i) {
				return nil, fmt.Errorf("field %d length %d exceeds input", f.num, l)
			}
			f.b = data[i : i+int(l)]
			i += int(l)
		default:
			return nil, fmt.Errorf("unexpected wire type %d for field %d", f.wt, f.num)
		}
		out = append(out, f)
	}
	return out, nil
}

func b2u(b bool) uint64 {
	if b {
		return 1
	}
	return 0
}

// varintOfInt32 is how proto3 encodes an int32 / enum: sign extended to 64 bit.
func varintOfInt32(v int32) uint64 { return uint64(int64(v)) }
