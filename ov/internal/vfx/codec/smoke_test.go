package codec

import (
	"fmt"
	"reflect"
	"testing"

	"github.com/lni/dragonboat/v4/internal/vfhelp"
	pb "github.com/lni/dragonboat/v4/raftpb"
	"pgregory.net/rapid"
)

func TestVF_C13_Smoke(t *testing.T) {
	st := vfhelp.NewStats("TestVF_C13_Smoke", "entry round trip; nontrivial = a field >= 2^49 and one below")
	defer st.Flush()
	rapid.Check(t, func(t *rapid.T) {
		e := pb.Entry{
			Term:  vfhelp.U64().Draw(t, "term"),
			Index: vfhelp.U64().Draw(t, "index"),
			Key:   vfhelp.U64().Draw(t, "key"),
			Cmd:   vfhelp.Bytes(64).Draw(t, "cmd"),
		}
		data, err := e.Marshal()
		if err != nil {
			t.Fatalf("marshal %v", err)
		}
		var e2 pb.Entry
		if err := e2.Unmarshal(data); err != nil {
			vfhelp.Fail(t, "entry-unmarshal", "unmarshal failed: %v", err)
		}
		if len(e.Cmd) == 0 {
			e.Cmd = nil
		}
		if len(e2.Cmd) == 0 {
			e2.Cmd = nil
		}
		if !reflect.DeepEqual(e, e2) {
			vfhelp.Fail(t, "entry-roundtrip", "got %v want %v", e2, e)
		}
		big := e.Term >= 1<<49 || e.Index >= 1<<49 || e.Key >= 1<<49
		small := e.Term < 1<<49 || e.Index < 1<<49 || e.Key < 1<<49
		st.Case([]byte(fmt.Sprintf("%v", e)), big && small)
		if big && small {
			st.Sample(fmt.Sprintf("%+v", e))
		}
	})
}
