// Package codec holds the E4 codec harness (C13). Overlay-only.
package codec
