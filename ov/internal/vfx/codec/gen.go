package codec

// Structure-aware rapid generators for every persisted / wire type listed by
// property C13. The file is a non-test file on purpose: the in-package frame
// harness of internal/transport imports these generators too.
//
// Conventions
//   - every uint64 is drawn from vfhelp.U64() (boundary biased: 0, 1, 127/128,
//     2^14±1, 2^49-1, 2^49, 2^49+1, 2^63, 2^64-1, small, uniform);
//   - every slice / map / []byte is drawn as nil, empty-but-non-nil or populated;
//   - enums are drawn from their declared values; with a small probability an
//     undeclared (incl. negative) int32 is used (the Go types admit them, a newer
//     peer could send them) and the case is labelled "enum-undeclared";
//   - large byte payloads are synthesised from a few drawn bytes so that a 2 MiB
//     command does not cost 2 Mi rapid draws.

import (
	"encoding/json"
	"math"

	"github.com/lni/dragonboat/v4/client"
	"github.com/lni/dragonboat/v4/internal/vfhelp"
	pb "github.com/lni/dragonboat/v4/raftpb"
	"pgregory.net/rapid"
)

// Switch49 is the value at which the hand written Entry codec switches from the
// varint form to the fixed 8 byte form.
const Switch49 = uint64(1) << 49

var (
	genU64      = vfhelp.U64()
	genSmallU64 = vfhelp.SmallU64()
	genBool     = rapid.Bool()
	genByte     = rapid.Byte()
	genInt32    = rapid.Int32()
	genUint32   = rapid.OneOf(
		rapid.SampledFrom([]uint32{0, 1, 127, 128, 1<<14 - 1, 1 << 14, 1<<21 - 1, 1 << 21,
			1<<28 - 1, 1 << 28, 1<<31 - 1, 1 << 31, math.MaxUint32 - 1, math.MaxUint32}),
		rapid.Uint32Range(0, 300),
		rapid.Uint32(),
	)
	genShortBytes = rapid.SliceOfN(rapid.Byte(), 1, 48)
	genText       = rapid.OneOf(
		rapid.SampledFrom([]string{"", "a", "localhost:26000", "10.0.0.1:63001",
			"/data/snapshot-1-1/snapshot-00000000000000AB/snapshot-00000000000000AB.gbsnap",
			"nhid-12345", "sharded-pebble", "host.example.com:443"}),
		rapid.StringN(0, 24, 64),
		rapid.StringN(0, 24, 64),
	)
	// lengths around the 1/2 byte (128) and 2/3 byte (16384) varint length switch
	boundaryLens = []int{126, 127, 128, 129, 255, 256, 16382, 16383, 16384, 16385}
	// lengths around the 3/4 byte varint switch (2 MiB)
	bigLens = []int{1<<21 - 1, 1 << 21, 1<<21 + 1}
)

// Limits bounds the generated sizes.
type Limits struct {
	// MaxCmd is the maximum length of an ordinary populated byte field.
	MaxCmd int
	// MaxElems is the maximum number of elements of a populated slice / map.
	MaxElems int
	// Boundary enables byte fields whose length sits on a varint length switch
	// (127/128, 16383/16384).
	Boundary bool
	// Big enables (rare) byte fields of about 2 MiB.
	Big bool
}

// DefaultLimits are the limits used by the codec units.
func DefaultLimits() Limits {
	return Limits{MaxCmd: 48, MaxElems: 4, Boundary: true, Big: true}
}

// SmallLimits keep values compact (used for transport frames <= 256 bytes).
func SmallLimits() Limits {
	return Limits{MaxCmd: 12, MaxElems: 2}
}

// Pick draws an integer uniformly from [0, 2^bits). rapid's integer and
// SampledFrom generators are deliberately biased towards small values and
// range ends (measured: IntRange(0,99) yields 0 and 1 with 10 % each), which
// would distort the class weights below; rapid.Bool is a fair coin.
func Pick(t *rapid.T, l string, bits int) int {
	v := 0
	for i := 0; i < bits; i++ {
		v <<= 1
		if genBool.Draw(t, l) {
			v |= 1
		}
	}
	return v
}

// U64 draws a boundary biased uint64.
func U64(t *rapid.T, l string) uint64 { return genU64.Draw(t, l) }

// Spread records on which side of the 2^49 switch the uint64 fields of a value
// lie.
type Spread struct {
	Zero, Lo, Hi     int // ==0, 0<v<2^49, v>=2^49
	At49, Below49    int // exactly 2^49, exactly 2^49-1
	Max              int // 2^64-1
	VarintLenBuckets [11]int
}

// Add records one uint64 field value.
func (s *Spread) Add(vs ...uint64) {
	for _, v := range vs {
		switch {
		case v == 0:
			s.Zero++
		case v < Switch49:
			s.Lo++
		default:
			s.Hi++
		}
		if v == Switch49 {
			s.At49++
		}
		if v == Switch49-1 {
			s.Below49++
		}
		if v == math.MaxUint64 {
			s.Max++
		}
		n := 1
		for x := v; x >= 0x80; x >>= 7 {
			n++
		}
		s.VarintLenBuckets[n]++
	}
}

// Both reports whether at least one non-zero field lies below and at least one
// at or above 2^49: the non-triviality rule of C13.
func (s *Spread) Both() bool { return s.Lo > 0 && s.Hi > 0 }

// Labels returns the class labels of the spread.
func (s *Spread) Labels() []string {
	var out []string
	if s.Both() {
		out = append(out, "u64-both-sides-of-2^49")
	} else if s.Hi > 0 {
		out = append(out, "u64-only>=2^49")
	} else if s.Lo > 0 {
		out = append(out, "u64-only<2^49")
	} else {
		out = append(out, "u64-all-zero")
	}
	if s.At49 > 0 {
		out = append(out, "u64-exactly-2^49")
	}
	if s.Below49 > 0 {
		out = append(out, "u64-exactly-2^49-1")
	}
	if s.Max > 0 {
		out = append(out, "u64-max")
	}
	if s.Zero > 0 {
		out = append(out, "u64-has-zero")
	}
	if s.VarintLenBuckets[10] > 0 {
		out = append(out, "u64-10-byte-varint")
	}
	return out
}

// Canon returns a deterministic rendering of v (map keys sorted, pointers
// followed, nil and empty slices distinguished) for case hashing and samples.
func Canon(v interface{}) []byte {
	b, err := json.Marshal(v)
	if err != nil {
		return []byte(err.Error())
	}
	return b
}

// patternBytes synthesises n bytes from a short drawn seed.
func patternBytes(t *rapid.T, n int) []byte {
	seed := genShortBytes.Draw(t, "pattern")
	mode := Pick(t, "patternmode", 4) % 3
	out := make([]byte, n)
	switch mode {
	case 0: // repeat (compressible)
		for i := range out {
			out[i] = seed[i%len(seed)]
		}
	case 1: // xorshift stream keyed by the seed (incompressible)
		var x uint64 = 0x9E3779B97F4A7C15
		for _, b := range seed {
			x = (x ^ uint64(b)) * 0x100000001B3
		}
		if x == 0 {
			x = 1
		}
		for i := range out {
			x ^= x << 13
			x ^= x >> 7
			x ^= x << 17
			out[i] = byte(x >> 32)
		}
	default: // mostly zero with the seed at both ends
		copy(out, seed)
		if n >= len(seed) {
			copy(out[n-len(seed):], seed)
		}
	}
	return out
}

// Bytes draws a nil / empty / populated byte slice within the limits and
// returns it together with a class label.
func Bytes(t *rapid.T, lim Limits, l string) ([]byte, string) {
	k := Pick(t, l+"-kind", 6) // 0..63
	switch {
	case k < 10:
		return nil, "nil"
	case k < 20:
		return []byte{}, "empty"
	case k < 25 && lim.Boundary:
		n := rapid.SampledFrom(boundaryLens).Draw(t, l+"-blen")
		return patternBytes(t, n), "varint-len-boundary"
	case k == 25 && lim.Big && Pick(t, l+"-big", 5) == 0: // 1/2048 per byte field; TestVF_C13_LargePayload covers the large sizes
		n := rapid.SampledFrom(bigLens).Draw(t, l+"-biglen")
		return patternBytes(t, n), "2MiB"
	default:
		max := lim.MaxCmd
		if max < 1 {
			max = 1
		}
		return rapid.SliceOfN(genByte, 1, max).Draw(t, l), "small"
	}
}

// Text draws a string (address, path, host name ...).
func Text(t *rapid.T, lim Limits, l string) string {
	k := Pick(t, l+"-kind", 5)
	if k < 2 && lim.Boundary {
		n := rapid.SampledFrom([]int{127, 128, 129, 300}).Draw(t, l+"-len")
		return string(patternBytesASCII(t, n))
	}
	return genText.Draw(t, l)
}

func patternBytesASCII(t *rapid.T, n int) []byte {
	b := patternBytes(t, n)
	for i := range b {
		b[i] = 'a' + b[i]%26
	}
	return b
}

// elems draws the shape of a slice / map: -1 nil, 0 empty non-nil, n populated.
func elems(t *rapid.T, lim Limits, l string) int {
	k := Pick(t, l+"-shape", 4)
	switch {
	case k < 3:
		return -1
	case k < 6:
		return 0
	default:
		max := lim.MaxElems
		if max < 1 {
			max = 1
		}
		return rapid.IntRange(1, max).Draw(t, l+"-n")
	}
}

// enum draws a declared enum value in [0,max] or, rarely, an undeclared int32.
func enum(t *rapid.T, max int32, l string) (int32, bool) {
	if Pick(t, l+"-enumkind", 5) == 0 {
		v := rapid.OneOf(
			rapid.SampledFrom([]int32{-1, math.MinInt32, math.MaxInt32, 127, 128, 16384, -128, -129}),
			genInt32,
		).Draw(t, l+"-undeclared")
		return v, v < 0 || v > max
	}
	return rapid.Int32Range(0, max).Draw(t, l), false
}

// Meta carries the class information gathered while generating a value.
type Meta struct {
	Spread Spread
	Labels map[string]int
}

// NewMeta creates an empty Meta.
func NewMeta() *Meta { return &Meta{Labels: make(map[string]int)} }

// Tag adds a label.
func (m *Meta) Tag(l string) { m.Labels[l]++ }

// ClassLabels returns all labels (spread and tags), each once.
func (m *Meta) ClassLabels() []string {
	out := m.Spread.Labels()
	for k := range m.Labels {
		out = append(out, k)
	}
	return out
}

// Entry draws a raftpb.Entry.
func Entry(t *rapid.T, lim Limits, m *Meta) pb.Entry {
	var e pb.Entry
	switch k := Pick(t, "entry-kind", 4); {
	case k == 0: // all numeric fields zero
		m.Tag("entry-all-zero-fields")
	case k == 1: // all fields in fixed 8 byte form
		f := func(l string) uint64 { return rapid.Uint64Range(Switch49, math.MaxUint64).Draw(t, l) }
		e.Term, e.Index, e.Key = f("term"), f("index"), f("key")
		e.ClientID, e.SeriesID, e.RespondedTo = f("clientid"), f("seriesid"), f("respondedto")
		m.Tag("entry-all-fixed-form")
	case k == 2: // all fields in varint form
		f := func(l string) uint64 { return rapid.Uint64Range(1, Switch49-1).Draw(t, l) }
		e.Term, e.Index, e.Key = f("term"), f("index"), f("key")
		e.ClientID, e.SeriesID, e.RespondedTo = f("clientid"), f("seriesid"), f("respondedto")
		m.Tag("entry-all-varint-form")
	case k == 3: // a session register / unregister request as produced by the client package
		e.Term, e.Index, e.Key = U64(t, "term"), U64(t, "index"), U64(t, "key")
		e.ClientID = U64(t, "clientid")
		e.SeriesID = rapid.SampledFrom([]uint64{client.SeriesIDForRegister, client.SeriesIDForUnregister,
			client.NoOPSeriesID, client.SeriesIDFirstProposal}).Draw(t, "seriesid")
		m.Tag("entry-session-special-series")
	case k == 4 && lim.Boundary:
		// worst case for SizeUpperLimit: every field in its longest form, the
		// longest Type encodings, Cmd lengths with the longest length prefixes
		f := func(l string) uint64 { return rapid.Uint64Range(Switch49, math.MaxUint64).Draw(t, l) }
		e.Term, e.Index, e.Key = f("term"), f("index"), f("key")
		e.ClientID, e.SeriesID, e.RespondedTo = f("clientid"), f("seriesid"), f("respondedto")
		e.Type = rapid.SampledFrom([]pb.EntryType{pb.MetadataEntry, math.MaxInt32, math.MinInt32, -1, 1 << 28, 1 << 21}).Draw(t, "maxtype")
		n := rapid.SampledFrom([]int{16384, 127, 128, 16383, 1, 0}).Draw(t, "maxcmdlen")
		if lim.Big && Pick(t, "maxcmd-big", 6) == 0 {
			n = 1 << 21
		}
		if n > 0 {
			e.Cmd = patternBytes(t, n)
		}
		if e.Type < 0 || e.Type > pb.MetadataEntry {
			m.Tag("enum-undeclared")
		}
		m.Tag("entry-max-overhead")
		m.Spread.Add(e.Term, e.Index, e.Key, e.ClientID, e.SeriesID, e.RespondedTo)
		return e
	default:
		e.Term, e.Index, e.Key = U64(t, "term"), U64(t, "index"), U64(t, "key")
		e.ClientID, e.SeriesID, e.RespondedTo = U64(t, "clientid"), U64(t, "seriesid"), U64(t, "respondedto")
	}
	ty, und := enum(t, int32(pb.MetadataEntry), "entrytype")
	e.Type = pb.EntryType(ty)
	if und {
		m.Tag("enum-undeclared")
		if ty < 0 {
			m.Tag("entry-type-negative")
		}
	}
	var bl string
	e.Cmd, bl = Bytes(t, lim, "cmd")
	m.Tag("cmd-" + bl)
	m.Spread.Add(e.Term, e.Index, e.Key, e.ClientID, e.SeriesID, e.RespondedTo)
	return e
}

// Entries draws nil / empty / populated []Entry. When contiguous is drawn the
// entries get consecutive indexes and one term, which is what raft produces and
// what makes logdb's compactBatchFields apply.
func Entries(t *rapid.T, lim Limits, m *Meta, l string) []pb.Entry {
	n := elems(t, lim, l)
	switch n {
	case -1:
		m.Tag(l + "-nil")
		return nil
	case 0:
		m.Tag(l + "-empty")
		return []pb.Entry{}
	}
	m.Tag(l + "-populated")
	out := make([]pb.Entry, n)
	for i := range out {
		out[i] = Entry(t, lim, m)
	}
	if genBool.Draw(t, l+"-contiguous") {
		m.Tag(l + "-contiguous")
		for i := 1; i < n; i++ {
			out[i].Term = out[0].Term
			out[i].Index = out[0].Index + uint64(i)
		}
	}
	return out
}

// State draws a raftpb.State.
func State(t *rapid.T, m *Meta) pb.State {
	s := pb.State{Term: U64(t, "st-term"), Vote: U64(t, "st-vote"), Commit: U64(t, "st-commit")}
	m.Spread.Add(s.Term, s.Vote, s.Commit)
	return s
}

func addrMap(t *rapid.T, lim Limits, m *Meta, l string) map[uint64]string {
	n := elems(t, lim, l)
	switch n {
	case -1:
		m.Tag("map-nil")
		return nil
	case 0:
		m.Tag("map-empty")
		return map[uint64]string{}
	}
	m.Tag("map-populated")
	out := make(map[uint64]string, n)
	for i := 0; i < n; i++ {
		k := U64(t, l+"-key")
		out[k] = Text(t, lim, l+"-val")
		m.Spread.Add(k)
	}
	if len(out) > 1 {
		m.Tag("map-multi")
	}
	return out
}

// Membership draws a raftpb.Membership.
func Membership(t *rapid.T, lim Limits, m *Meta) pb.Membership {
	if Pick(t, "membership-kind", 4) == 0 {
		m.Tag("membership-zero")
		return pb.Membership{}
	}
	ms := pb.Membership{ConfigChangeId: U64(t, "ccid")}
	m.Spread.Add(ms.ConfigChangeId)
	ms.Addresses = addrMap(t, lim, m, "addresses")
	n := elems(t, lim, "removed")
	switch n {
	case -1:
		m.Tag("map-nil")
	case 0:
		m.Tag("map-empty")
		ms.Removed = map[uint64]bool{}
	default:
		m.Tag("map-populated")
		ms.Removed = make(map[uint64]bool, n)
		for i := 0; i < n; i++ {
			k := U64(t, "removed-key")
			// dragonboat only ever stores true; false is expressible on the wire
			ms.Removed[k] = Pick(t, "removed-val", 4) != 0
			m.Spread.Add(k)
		}
		if len(ms.Removed) > 1 {
			m.Tag("map-multi")
		}
	}
	ms.NonVotings = addrMap(t, lim, m, "nonvotings")
	ms.Witnesses = addrMap(t, lim, m, "witnesses")
	return ms
}

// SnapshotFile draws a raftpb.SnapshotFile.
func SnapshotFile(t *rapid.T, lim Limits, m *Meta) pb.SnapshotFile {
	f := pb.SnapshotFile{
		Filepath: Text(t, lim, "sf-path"),
		FileSize: U64(t, "sf-size"),
		FileId:   U64(t, "sf-id"),
	}
	var bl string
	f.Metadata, bl = Bytes(t, lim, "sf-meta")
	m.Tag("metadata-" + bl)
	m.Spread.Add(f.FileSize, f.FileId)
	return f
}

// Snapshot draws a raftpb.Snapshot. minIndex > 0 forces a non-empty snapshot
// record (Index != 0).
func Snapshot(t *rapid.T, lim Limits, m *Meta, nonEmpty bool) pb.Snapshot {
	if !nonEmpty && Pick(t, "snapshot-kind", 4) < 4 {
		m.Tag("snapshot-zero")
		return pb.Snapshot{}
	}
	m.Tag("snapshot-populated")
	s := pb.Snapshot{
		Filepath:    Text(t, lim, "ss-path"),
		FileSize:    U64(t, "ss-size"),
		Index:       U64(t, "ss-index"),
		Term:        U64(t, "ss-term"),
		Membership:  Membership(t, lim, m),
		Dummy:       genBool.Draw(t, "ss-dummy"),
		ShardID:     U64(t, "ss-shard"),
		Imported:    genBool.Draw(t, "ss-imported"),
		OnDiskIndex: U64(t, "ss-ondisk"),
		Witness:     genBool.Draw(t, "ss-witness"),
	}
	if nonEmpty && s.Index == 0 {
		s.Index = rapid.Uint64Range(1, math.MaxUint64).Draw(t, "ss-index-nz")
	}
	ty, und := enum(t, int32(pb.OnDiskStateMachine), "ss-type")
	s.Type = pb.StateMachineType(ty)
	if und {
		m.Tag("enum-undeclared")
	}
	switch n := elems(t, lim, "ss-files"); n {
	case -1:
		m.Tag("files-nil")
	case 0:
		m.Tag("files-empty")
		s.Files = []*pb.SnapshotFile{}
	default:
		m.Tag("files-populated")
		for i := 0; i < n; i++ {
			f := SnapshotFile(t, lim, m)
			s.Files = append(s.Files, &f)
		}
	}
	var bl string
	s.Checksum, bl = Bytes(t, lim, "ss-checksum")
	m.Tag("checksum-" + bl)
	m.Spread.Add(s.FileSize, s.Index, s.Term, s.ShardID, s.OnDiskIndex)
	return s
}

// Message draws a raftpb.Message.
func Message(t *rapid.T, lim Limits, m *Meta) pb.Message {
	ty, und := enum(t, int32(pb.LogQuery), "msgtype")
	if und {
		m.Tag("enum-undeclared")
	}
	msg := pb.Message{
		Type:     pb.MessageType(ty),
		To:       U64(t, "to"),
		From:     U64(t, "from"),
		ShardID:  U64(t, "shard"),
		Term:     U64(t, "term"),
		LogTerm:  U64(t, "logterm"),
		LogIndex: U64(t, "logindex"),
		Commit:   U64(t, "commit"),
		Reject:   genBool.Draw(t, "reject"),
		Hint:     U64(t, "hint"),
		HintHigh: U64(t, "hinthigh"),
	}
	m.Spread.Add(msg.To, msg.From, msg.ShardID, msg.Term, msg.LogTerm, msg.LogIndex, msg.Commit,
		msg.Hint, msg.HintHigh)
	msg.Entries = Entries(t, lim, m, "entries")
	msg.Snapshot = Snapshot(t, lim, m, false)
	return msg
}

// MessageBatch draws a raftpb.MessageBatch.
func MessageBatch(t *rapid.T, lim Limits, m *Meta) pb.MessageBatch {
	mb := pb.MessageBatch{
		DeploymentId:  U64(t, "deployment"),
		SourceAddress: Text(t, lim, "source"),
		BinVer:        genUint32.Draw(t, "binver"),
	}
	m.Spread.Add(mb.DeploymentId)
	switch n := elems(t, lim, "requests"); n {
	case -1:
		m.Tag("requests-nil")
	case 0:
		m.Tag("requests-empty")
		mb.Requests = []pb.Message{}
	default:
		m.Tag("requests-populated")
		mb.Requests = make([]pb.Message, n)
		for i := range mb.Requests {
			mb.Requests[i] = Message(t, lim, m)
		}
	}
	return mb
}

// ConfigChange draws a raftpb.ConfigChange.
func ConfigChange(t *rapid.T, lim Limits, m *Meta) pb.ConfigChange {
	ty, und := enum(t, int32(pb.AddWitness), "cctype")
	if und {
		m.Tag("enum-undeclared")
	}
	cc := pb.ConfigChange{
		ConfigChangeId: U64(t, "ccid"),
		Type:           pb.ConfigChangeType(ty),
		ReplicaID:      U64(t, "replica"),
		Address:        Text(t, lim, "address"),
		Initialize:     genBool.Draw(t, "initialize"),
	}
	m.Spread.Add(cc.ConfigChangeId, cc.ReplicaID)
	return cc
}

// SnapshotHeader draws a raftpb.SnapshotHeader.
func SnapshotHeader(t *rapid.T, lim Limits, m *Meta) pb.SnapshotHeader {
	ct, und1 := enum(t, int32(pb.HIGHWAY), "checksumtype")
	cp, und2 := enum(t, int32(pb.Snappy), "compressiontype")
	if und1 || und2 {
		m.Tag("enum-undeclared")
	}
	h := pb.SnapshotHeader{
		SessionSize:     U64(t, "sessionsize"),
		DataStoreSize:   U64(t, "datastoresize"),
		UnreliableTime:  U64(t, "unreliabletime"),
		GitVersion:      Text(t, lim, "gitversion"),
		ChecksumType:    pb.ChecksumType(ct),
		Version:         U64(t, "version"),
		CompressionType: pb.CompressionType(cp),
	}
	var l1, l2 string
	h.HeaderChecksum, l1 = Bytes(t, lim, "headerchecksum")
	h.PayloadChecksum, l2 = Bytes(t, lim, "payloadchecksum")
	m.Tag("headerchecksum-" + l1)
	m.Tag("payloadchecksum-" + l2)
	m.Spread.Add(h.SessionSize, h.DataStoreSize, h.UnreliableTime, h.Version)
	return h
}

// Chunk draws a raftpb.Chunk.
func Chunk(t *rapid.T, lim Limits, m *Meta) pb.Chunk {
	c := pb.Chunk{
		ShardID:        U64(t, "shard"),
		ReplicaID:      U64(t, "replica"),
		From:           U64(t, "from"),
		ChunkId:        U64(t, "chunkid"),
		ChunkSize:      U64(t, "chunksize"),
		ChunkCount:     U64(t, "chunkcount"),
		Index:          U64(t, "index"),
		Term:           U64(t, "term"),
		Membership:     Membership(t, lim, m),
		Filepath:       Text(t, lim, "filepath"),
		FileSize:       U64(t, "filesize"),
		DeploymentId:   U64(t, "deployment"),
		FileChunkId:    U64(t, "filechunkid"),
		FileChunkCount: U64(t, "filechunkcount"),
		HasFileInfo:    genBool.Draw(t, "hasfileinfo"),
		BinVer:         genUint32.Draw(t, "binver"),
		OnDiskIndex:    U64(t, "ondiskindex"),
		Witness:        genBool.Draw(t, "witness"),
	}
	if c.HasFileInfo || Pick(t, "fileinfo-anyway", 4) == 0 {
		c.FileInfo = SnapshotFile(t, lim, m)
		m.Tag("chunk-fileinfo-populated")
	} else {
		m.Tag("chunk-fileinfo-zero")
	}
	var bl string
	c.Data, bl = Bytes(t, lim, "data")
	m.Tag("data-" + bl)
	m.Spread.Add(c.ShardID, c.ReplicaID, c.From, c.ChunkId, c.ChunkSize, c.ChunkCount, c.Index, c.Term,
		c.FileSize, c.DeploymentId, c.FileChunkId, c.FileChunkCount, c.OnDiskIndex)
	return c
}

// Bootstrap draws a raftpb.Bootstrap.
func Bootstrap(t *rapid.T, lim Limits, m *Meta) pb.Bootstrap {
	ty, und := enum(t, int32(pb.OnDiskStateMachine), "smtype")
	if und {
		m.Tag("enum-undeclared")
	}
	return pb.Bootstrap{
		Addresses: addrMap(t, lim, m, "addresses"),
		Join:      genBool.Draw(t, "join"),
		Type:      pb.StateMachineType(ty),
	}
}

// RaftDataStatus draws a raftpb.RaftDataStatus.
func RaftDataStatus(t *rapid.T, lim Limits, m *Meta) pb.RaftDataStatus {
	r := pb.RaftDataStatus{
		Address:             Text(t, lim, "address"),
		BinVer:              genUint32.Draw(t, "binver"),
		HardHash:            U64(t, "hardhash"),
		LogdbType:           Text(t, lim, "logdbtype"),
		Hostname:            Text(t, lim, "hostname"),
		DeploymentId:        U64(t, "deployment"),
		StepWorkerCount:     U64(t, "stepworkers"),
		LogdbShardCount:     U64(t, "logdbshards"),
		MaxSessionCount:     U64(t, "maxsessions"),
		EntryBatchSize:      U64(t, "entrybatchsize"),
		AddressByNodeHostId: genBool.Draw(t, "addrbynhid"),
	}
	m.Spread.Add(r.HardHash, r.DeploymentId, r.StepWorkerCount, r.LogdbShardCount, r.MaxSessionCount,
		r.EntryBatchSize)
	return r
}

// Session draws a client.Session.
func Session(t *rapid.T, m *Meta) client.Session {
	s := client.Session{
		ShardID:     U64(t, "shard"),
		ClientID:    U64(t, "clientid"),
		SeriesID:    U64(t, "seriesid"),
		RespondedTo: U64(t, "respondedto"),
	}
	m.Spread.Add(s.ShardID, s.ClientID, s.SeriesID, s.RespondedTo)
	return s
}

// Update draws a raftpb.Update the way the engine hands it to the log store:
// ShardID/ReplicaID, optionally a State, EntriesToSave and optionally a
// snapshot record. Fields that are not persisted are set in some cases to
// make sure they do not leak into (or disturb) the record.
func Update(t *rapid.T, lim Limits, m *Meta) pb.Update {
	u := pb.Update{ShardID: U64(t, "shard"), ReplicaID: U64(t, "replica")}
	m.Spread.Add(u.ShardID, u.ReplicaID)
	if Pick(t, "state-kind", 4) < 5 {
		m.Tag("update-state-empty")
	} else {
		u.State = State(t, m)
		if pb.IsEmptyState(u.State) {
			m.Tag("update-state-empty")
		} else {
			m.Tag("update-state-set")
		}
	}
	u.EntriesToSave = Entries(t, lim, m, "entriestosave")
	if Pick(t, "update-snapshot-kind", 4) < 8 {
		m.Tag("update-snapshot-empty")
	} else {
		u.Snapshot = Snapshot(t, lim, m, true)
		m.Tag("update-snapshot-set")
	}
	if Pick(t, "update-volatile", 4) < 4 {
		m.Tag("update-volatile-fields-set")
		u.FastApply = true
		u.MoreCommittedEntries = true
		u.LastApplied = U64(t, "lastapplied")
		u.CommittedEntries = []pb.Entry{{Index: 1, Term: 1, Cmd: []byte("x")}}
		u.Messages = []pb.Message{{Type: pb.Heartbeat, To: 2}}
		u.ReadyToReads = []pb.ReadyToRead{{Index: 3}}
	}
	return u
}

// SmallU64 exposes vfhelp.SmallU64 with a cached generator.
func SmallU64(t *rapid.T, l string) uint64 { return genSmallU64.Draw(t, l) }
