package codec

// Oracle (d) of C13: entry payload encoding with or without compression
// returns the original payload; dio block and stream compression round trip.

import (
	"bytes"
	"fmt"
	"io"
	"testing"

	"github.com/lni/dragonboat/v4/internal/rsm"
	"github.com/lni/dragonboat/v4/internal/utils/dio"
	"github.com/lni/dragonboat/v4/internal/vfhelp"
	pb "github.com/lni/dragonboat/v4/raftpb"
	"pgregory.net/rapid"
)

// proposalEntry mirrors request.go pendingProposal.propose: an empty payload is
// an ApplicationEntry without Cmd (rsm.GetEncoded documents that it must not be
// called with an empty payload), everything else is an EncodedEntry.
func proposalEntry(ct dio.CompressionType, cmd []byte, dst []byte) pb.Entry {
	e := pb.Entry{}
	if len(cmd) == 0 {
		e.Type = pb.ApplicationEntry
	} else {
		e.Type = pb.EncodedEntry
		e.Cmd = rsm.GetEncoded(ct, cmd, dst)
	}
	return e
}

type nopWriteCloser struct{ *bytes.Buffer }

func (nopWriteCloser) Close() error { return nil }

func drawPayload(t *rapid.T) ([]byte, string) {
	k := Pick(t, "payload-kind", 6) // 0..63, uniform
	switch {
	case k < 3:
		return nil, "payload-nil"
	case k < 6:
		return []byte{}, "payload-empty"
	case k < 10:
		return []byte{rapid.Byte().Draw(t, "b")}, "payload-1-byte"
	case k < 26:
		return rapid.SliceOfN(rapid.Byte(), 1, 64).Draw(t, "payload"), "payload-small-random"
	case k < 36:
		n := rapid.SampledFrom([]int{126, 127, 128, 129, 16383, 16384, 16385, 65535, 65536, 65537}).Draw(t, "len")
		return patternBytes(t, n), "payload-length-boundary"
	case k == 36 && Pick(t, "big", 1) == 0:
		n := rapid.SampledFrom([]int{1<<21 - 1, 1 << 21, 1<<21 + 1}).Draw(t, "biglen")
		return patternBytes(t, n), "payload-2MiB"
	default:
		n := rapid.IntRange(2, 5000).Draw(t, "len")
		return patternBytes(t, n), "payload-pattern"
	}
}

func TestVF_C13_Payload(t *testing.T) {
	st := vfhelp.NewStats("TestVF_C13_Payload", "entry payloads (nil, empty, 1 byte, random, compressible / incompressible patterns, lengths on varint and 64 KiB snappy block boundaries, 2 MiB) "+
		"encoded the way request.go does with NoCompression and Snappy, optionally through a caller supplied dst buffer, then carried through Entry.Marshal/Unmarshal and decoded with rsm.GetPayload; "+
		"dio snappy block and stream round trips; non-trivial = non-empty payload with Snappy; distinct = distinct (compression type, payload)")
	defer st.Flush()
	rapid.Check(t, func(t *rapid.T) {
		payload, label := drawPayload(t)
		ct := dio.NoCompression
		ctl := "ct-none"
		if rapid.Bool().Draw(t, "snappy") {
			ct = dio.Snappy
			ctl = "ct-snappy"
		}
		orig := append([]byte(nil), payload...)
		// dst as allowed by GetEncoded: nil, too short, exact-ish, long; dirty
		var dst []byte
		dl := "dst-nil"
		switch Pick(t, "dst-kind", 3) {
		case 1:
			dst = dirtyBuf(len(payload)/2, 0xa5)
			dl = "dst-short"
		case 2:
			dst = dirtyBuf(len(payload)+1, 0xa5)
			dl = "dst-len+1"
		case 3:
			dst = dirtyBuf(2*len(payload)+64, 0xa5)
			dl = "dst-long"
		case 4: // exactly one byte too short for the header + payload, with spare capacity
			dst = dirtyBuf(len(payload)+8, 0xa5)[:len(payload)]
			dl = "dst-len"
		case 5:
			if len(payload) > 0 {
				dst = dirtyBuf(len(payload)-1, 0xa5)
				dl = "dst-len-1"
			}
		case 6: // roomy for the snappy worst case as well
			dst = dirtyBuf(len(payload)+len(payload)/6+40, 0x00)
			dl = "dst-maxencodedlen-ish"
		}
		var e pb.Entry
		guard(t, "payload-encode-panic", func() { e = proposalEntry(ct, payload, dst) })
		if !bytes.Equal(payload, orig) {
			vfhelp.Fail(t, "payload-encode-modifies-input", "GetEncoded modified its input")
		}
		var got []byte
		var err error
		guard(t, "payload-decode-panic", func() { got, err = rsm.GetPayload(e) })
		if err != nil {
			vfhelp.Fail(t, "payload-decode-error", "%v", err)
		}
		if !bytes.Equal(got, orig) {
			vfhelp.Fail(t, "payload-roundtrip", "ct=%v len(payload)=%d len(got)=%d", ct, len(orig), len(got))
		}
		// through the entry codec, as it travels through the log / the wire
		e.Index, e.Term = U64(t, "index"), U64(t, "term")
		e.Key, e.ClientID = U64(t, "key"), U64(t, "clientid")
		data, err := e.Marshal()
		if err != nil {
			vfhelp.Fail(t, "payload-entry-marshal", "%v", err)
		}
		var e2 pb.Entry
		if err := e2.Unmarshal(data); err != nil {
			vfhelp.Fail(t, "payload-entry-unmarshal", "%v", err)
		}
		guard(t, "payload-decode-panic", func() { got, err = rsm.GetPayload(e2) })
		if err != nil || !bytes.Equal(got, orig) {
			vfhelp.Fail(t, "payload-roundtrip-through-entry", "ct=%v len(payload)=%d len(got)=%d err=%v", ct, len(orig), len(got), err)
		}
		// the encoded form is header + body; for NoCompression the body is the payload
		if len(orig) > 0 {
			if ct == dio.NoCompression && (len(e.Cmd) != len(orig)+1 || !bytes.Equal(e.Cmd[1:], orig)) {
				vfhelp.Fail(t, "payload-nocompression-layout", "encoded length %d for payload length %d", len(e.Cmd), len(orig))
			}
			if ct == dio.Snappy {
				max, ok := dio.MaxEncodedLen(dio.Snappy, uint64(len(orig)))
				if !ok || uint64(len(e.Cmd)) > max+1 {
					vfhelp.Fail(t, "payload-snappy-exceeds-max-encoded-len", "encoded %d > MaxEncodedLen %d + 1", len(e.Cmd), max)
				}
			}
		}
		// dio block API (used for snapshot blocks and by GetEncoded)
		if len(orig) > 0 {
			max, ok := dio.MaxEncodedLen(dio.Snappy, uint64(len(orig)))
			if !ok {
				vfhelp.Fail(t, "dio-maxencodedlen", "not ok for %d", len(orig))
			}
			cbuf := dirtyBuf(int(max), 0x5a)
			var n int
			guard(t, "dio-compress-block-panic", func() { n = dio.CompressSnappyBlock(orig, cbuf) })
			out := dirtyBuf(len(orig), 0x33)
			guard(t, "dio-decompress-block-panic", func() { err = dio.DecompressSnappyBlock(cbuf[:n], out) })
			if err != nil || !bytes.Equal(out, orig) {
				vfhelp.Fail(t, "dio-block-roundtrip", "err=%v len=%d", err, len(orig))
			}
		}
		// dio stream API (used for snapshot files), written in drawn piece sizes
		if Pick(t, "stream", 2) == 0 {
			piece := rapid.SampledFrom([]int{1, 7, 64, 4096, 65536, 1 << 20}).Draw(t, "piece")
			var sink bytes.Buffer
			w := dio.NewCompressor(ct, nopWriteCloser{&sink})
			for off := 0; off < len(orig); off += piece {
				end := off + piece
				if end > len(orig) {
					end = len(orig)
				}
				if _, err := w.Write(orig[off:end]); err != nil {
					vfhelp.Fail(t, "dio-stream-write", "%v", err)
				}
			}
			if ct != dio.NoCompression {
				if err := w.Close(); err != nil {
					vfhelp.Fail(t, "dio-stream-close", "%v", err)
				}
			}
			r := dio.NewDecompressor(ct, io.NopCloser(bytes.NewReader(sink.Bytes())))
			back, err := io.ReadAll(r)
			if err != nil || !bytes.Equal(back, orig) {
				vfhelp.Fail(t, "dio-stream-roundtrip", "ct=%v err=%v len=%d got=%d", ct, err, len(orig), len(back))
			}
			label2 := "stream-roundtrip"
			st.Count(label2, 1)
		}
		canon := append([]byte{byte(ct)}, orig...)
		nt := len(orig) > 0 && ct == dio.Snappy
		st.Case(canon, nt, label, ctl, dl)
		if nt && len(orig) <= 64 && st.WantSample() {
			st.Sample(map[string]interface{}{"ct": "snappy", "payload": orig, "encoded": e.Cmd})
		}
	})
}

// TestVF_C13_LargePayload covers the "maximum-size payloads" of the
// quantifier with a few cases per run: commands of 2 MiB+1 (4 byte length
// prefix), 4 MiB, 8 MiB and 64 MiB (settings.LargeEntitySize, the default
// MaxEntrySize / MaxMessageBatchSize) ± 1, carried by every container that
// preallocates from SizeUpperLimit, optionally produced by GetEncoded.
func TestVF_C13_LargePayload(t *testing.T) {
	st := vfhelp.NewStats("TestVF_C13_LargePayload", "commands of 2 MiB+1 .. 64 MiB (±1) inside Entry / EntryBatch / Update / MessageBatch, raw or GetEncoded(NoCompression|Snappy); "+
		"same oracles as the per-type units; non-trivial = command >= 8 MiB; distinct = distinct (container, encoding, length, pattern seed)")
	defer st.Flush()
	rapid.Check(t, func(t *rapid.T) {
		base := rapid.SampledFrom([]int{1<<21 + 1, 4 << 20, 8 << 20, 64 << 20}).Draw(t, "size")
		n := base + rapid.SampledFrom([]int{0, -1, 1}).Draw(t, "delta")
		cmd := patternBytes(t, n)
		enc := Pick(t, "encoding", 2) // 0,1 raw; 2 nocompression; 3 snappy
		e := pb.Entry{Term: U64(t, "term"), Index: U64(t, "index"), Key: U64(t, "key"), ClientID: U64(t, "clientid"),
			SeriesID: U64(t, "seriesid"), RespondedTo: U64(t, "respondedto")}
		encl := "raw"
		switch enc {
		case 2:
			guard(t, "payload-encode-panic", func() { e.Cmd = rsm.GetEncoded(dio.NoCompression, cmd, nil) })
			e.Type = pb.EncodedEntry
			encl = "encoded-nocompression"
		case 3:
			guard(t, "payload-encode-panic", func() { e.Cmd = rsm.GetEncoded(dio.Snappy, cmd, nil) })
			e.Type = pb.EncodedEntry
			encl = "encoded-snappy"
		default:
			e.Cmd = cmd
		}
		if e.Type == pb.EncodedEntry {
			var got []byte
			var err error
			guard(t, "payload-decode-panic", func() { got, err = rsm.GetPayload(e) })
			if err != nil || !bytes.Equal(got, cmd) {
				vfhelp.Fail(t, "payload-roundtrip", "large payload len=%d got=%d err=%v", len(cmd), len(got), err)
			}
		}
		small := pb.Entry{Term: e.Term, Index: e.Index + 1, Cmd: []byte("tail")}
		fill := fillGen.Draw(t, "fill")
		container := Pick(t, "container", 2)
		cl := ""
		switch container {
		case 0:
			cl = "in-entry"
			checkSized(t, "entry", &e, normEntry, true, fill)
		case 1:
			cl = "in-entrybatch"
			eb := pb.EntryBatch{Entries: []pb.Entry{e, small}}
			checkSized(t, "entrybatch", &eb, normEntryBatch, true, fill)
		case 2:
			cl = "in-messagebatch"
			mb := pb.MessageBatch{DeploymentId: U64(t, "deployment"), SourceAddress: "host:1",
				Requests: []pb.Message{{Type: pb.Replicate, To: 2, From: 1, ShardID: 1, Entries: []pb.Entry{e, small}}}}
			checkSized(t, "messagebatch", &mb, normMessageBatch, true, fill)
		default:
			cl = "in-update"
			u := pb.Update{ShardID: U64(t, "shard"), ReplicaID: U64(t, "replica"), EntriesToSave: []pb.Entry{small, e},
				State: pb.State{Term: e.Term, Commit: 1}}
			upper := u.SizeUpperLimit()
			want := updateRecordLen(&u)
			if want > upper {
				vfhelp.Fail(t, "update-size-exceeds-upper-limit", "record needs %d bytes, SizeUpperLimit()=%d", want, upper)
			}
			buf := dirtyBuf(upper, fill)
			var nn int
			var err error
			guard(t, "update-marshalto-upper-panic", func() { nn, err = u.MarshalTo(buf) })
			if err != nil || nn != want {
				vfhelp.Fail(t, "update-record-length", "n=%d err=%v want %d", nn, err, want)
			}
			var got pb.Update
			guard(t, "update-unmarshal-panic", func() { err = got.Unmarshal(buf[:nn]) })
			if err != nil {
				vfhelp.Fail(t, "update-unmarshal-error", "%v", err)
			}
			exp := persistedUpdate(&u)
			if got.ShardID != exp.ShardID || got.ReplicaID != exp.ReplicaID || got.State != exp.State ||
				len(got.EntriesToSave) != 2 || !bytes.Equal(got.EntriesToSave[1].Cmd, e.Cmd) ||
				!bytes.Equal(got.EntriesToSave[0].Cmd, small.Cmd) || got.EntriesToSave[1].Index != e.Index {
				vfhelp.Fail(t, "update-roundtrip", "large update differs after the round trip")
			}
		}
		canon := []byte(fmt.Sprintf("%s/%s/%d/%x/%d/%d", cl, encl, n, cmd[:16], e.Term, e.Index))
		st.Case(canon, n >= 8<<20, cl, encl, fmt.Sprintf("cmd-%dMiB", base>>20))
		if st.WantSample() {
			st.Sample(string(canon))
		}
	})
}
