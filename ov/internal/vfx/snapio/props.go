package snapio

import (
	"bytes"
	"fmt"
	"sort"
	"strings"

	"github.com/lni/dragonboat/v4/internal/rsm"
	"github.com/lni/dragonboat/v4/internal/server"
	"github.com/lni/dragonboat/v4/internal/vfhelp"
	"github.com/lni/dragonboat/v4/internal/vfs"
	pb "github.com/lni/dragonboat/v4/raftpb"
	"pgregory.net/rapid"
)

// Flavor selects the snapshot format version under test and how its pieces
// are produced (V1 needs the in-package bridge of internal/rsm).
type Flavor struct {
	V1 bool
	// Writer creates the snapshot file writer.
	Writer WriterFactory
	// SessionBytes serialises the sessions in the flavor's format and returns
	// the V2 serialisation a correctly loaded session manager must re-save.
	SessionBytes func(SessionSpec) (file []byte, wantResaved []byte)
}

// V2Flavor is the production flavor.
func V2Flavor() Flavor {
	return Flavor{
		Writer: rsm.NewSnapshotWriter,
		SessionBytes: func(s SessionSpec) ([]byte, []byte) {
			_, b := s.Build()
			return b, b
		},
	}
}

func ct(compressed bool) pb.CompressionType {
	if compressed {
		return pb.Snappy
	}
	return pb.NoCompression
}

type built struct {
	c       FileCase
	fs      vfs.IFS
	dir     string
	fp      string
	session []byte
	resaved []byte
	payload []byte
	sv      Saved
}

func buildFile(t *rapid.T, fl Flavor, c FileCase) built {
	b := built{c: c, fs: vfs.NewMemFS(), dir: "/ss/snapshot-00000000000000AA"}
	if err := b.fs.MkdirAll(b.dir, 0o755); err != nil {
		t.Fatalf("mkdir: %v", err)
	}
	b.fp = b.fs.PathJoin(b.dir, server.GetSnapshotFilename(0xAA))
	b.session, b.resaved = fl.SessionBytes(c.Sess)
	b.payload = c.Pay.Bytes()
	// the writer gets its own buffers; the pristine copies are what everything
	// read back is compared with
	wsession := append([]byte{}, b.session...)
	wpayload := append([]byte{}, b.payload...)
	sv, err := SaveFile(b.fs, b.fp, fl.Writer, ct(c.Compressed), wsession, Segments(wpayload, c.WriteCuts))
	if err != nil {
		vfhelp.Fail(t, "c14-save-failed", "saving failed: %v", err)
	}
	checkCallerBuffers(t, "file writer", c, wsession, b.session, wpayload, b.payload)
	b.sv = sv
	return b
}

// checkCallerBuffers fails if the writer modified the buffers handed to Write.
func checkCallerBuffers(t *rapid.T, who string, c FileCase, wsession, session, wpayload, payload []byte) {
	if !bytes.Equal(wsession, session) {
		vfhelp.Fail(t, "c14-writer-modified-caller-buffer", "%s modified the session buffer passed to Write (first difference at %d), case %s",
			who, firstDiff(wsession, session), c.Canon())
	}
	if !bytes.Equal(wpayload, payload) {
		d := firstDiff(wpayload, payload)
		vfhelp.Fail(t, "c14-writer-modified-caller-buffer",
			"%s modified the payload buffer passed to Write: first difference at payload offset %d (stream offset %d = %d blocks %+d bytes), case %s",
			who, d, d+len(session), (d+len(session))/BlockSize, (d+len(session))%BlockSize, c.Canon())
	}
}

func resave(m *rsm.SessionManager) []byte {
	buf := &bytes.Buffer{}
	if err := m.SaveSessions(buf); err != nil {
		panic(err)
	}
	return buf.Bytes()
}

// checkIdentical verifies that a successful load delivered exactly the
// original data. It returns a description of the difference or "".
func (b built) checkIdentical(l Loaded) string {
	if !l.Sessions.Done || !l.SM.Done {
		return fmt.Sprintf("loader did not complete (sessions done %v, sm done %v)", l.Sessions.Done, l.SM.Done)
	}
	if !bytes.Equal(l.Sessions.Consumed, b.session) {
		return fmt.Sprintf("session loader consumed %d bytes differing from the %d written", len(l.Sessions.Consumed), len(b.session))
	}
	if got := resave(l.Sessions.Real); !bytes.Equal(got, b.resaved) {
		return "loaded sessions differ from the saved ones"
	}
	if !bytes.Equal(l.SM.Got, b.payload) {
		return fmt.Sprintf("state machine received %d bytes, differing from the %d bytes written (first difference at %d)",
			len(l.SM.Got), len(b.payload), firstDiff(l.SM.Got, b.payload))
	}
	return ""
}

func firstDiff(a, b []byte) int {
	n := len(a)
	if len(b) < n {
		n = len(b)
	}
	for i := 0; i < n; i++ {
		if a[i] != b[i] {
			return i
		}
	}
	return n
}

func cutNearBoundary(cuts []int, sessLen int) bool {
	for _, c := range cuts {
		for k := 1; k <= 3; k++ {
			d := c + sessLen - k*BlockSize
			if d >= -8 && d <= 8 {
				return true
			}
		}
	}
	return false
}

func sizesNearBoundary(sizes []int, sessLen int) bool {
	off := 0
	cuts := make([]int, 0, len(sizes))
	for _, s := range sizes {
		off += s
		cuts = append(cuts, off)
	}
	return cutNearBoundary(cuts, sessLen)
}

func wantDiskSize(total uint64) uint64 {
	blocks := (total + uint64(BlockSize) - 1) / uint64(BlockSize)
	return uint64(HeaderSize) + total + blocks*CRCSize + TailSize
}

// ---------------------------------------------------------------------------
// C14 unit: round trip of the file writer path, recorded size/checksum, shrink

// FileRoundTrip returns the property function.
func FileRoundTrip(st *vfhelp.Stats, fl Flavor, bigPct int) func(t *rapid.T) {
	return FileRoundTripHuge(st, fl, bigPct, 0)
}

// largeWriteAtBoundary tells whether one Write call still holds at least a
// whole block plus the CRC size when the writer reaches a block boundary
// inside it (uncompressed stream coordinates).
func largeWriteAtBoundary(cuts []int, payloadLen int, sessLen int) bool {
	prev := 0
	ends := append(append([]int{}, cuts...), payloadLen)
	for _, e := range ends {
		if e > payloadLen {
			e = payloadLen
		}
		if e > prev {
			// first block boundary at or after the start of this piece
			start, end := prev+sessLen, e+sessLen
			bnd := (start + BlockSize - 1) / BlockSize * BlockSize
			if bnd > 0 && end-bnd >= BlockSize+CRCSize {
				return true
			}
			prev = e
		}
	}
	return false
}

// FileRoundTripHuge is FileRoundTrip with hugePct percent of 3 block cases.
func FileRoundTripHuge(st *vfhelp.Stats, fl Flavor, bigPct int, hugePct int) func(t *rapid.T) {
	return func(t *rapid.T) {
		c := GenFileCaseHuge(t, fl.V1, bigPct, hugePct, func(s SessionSpec) int {
			f, _ := fl.SessionBytes(s)
			return len(f)
		})
		b := buildFile(t, fl, c)
		fi, err := b.fs.Stat(b.fp)
		if err != nil {
			t.Fatalf("stat: %v", err)
		}
		if uint64(fi.Size()) != b.sv.FileSize {
			vfhelp.Fail(t, "c14-recorded-filesize-mismatch", "recorded FileSize %d, file has %d bytes (stream %d bytes) case %s",
				b.sv.FileSize, fi.Size(), b.sv.Total, c.Canon())
		}
		if !c.Compressed && b.sv.Total != uint64(len(b.session)+len(b.payload)) {
			vfhelp.Fail(t, "c14-counted-bytes-mismatch", "counted %d bytes, wrote %d", b.sv.Total, len(b.session)+len(b.payload))
		}
		file, err := ReadFile(b.fs, b.fp)
		if err != nil {
			t.Fatalf("read: %v", err)
		}
		if !fl.V1 {
			if want := wantDiskSize(b.sv.Total); want != uint64(len(file)) {
				vfhelp.Fail(t, "c14-v2-disk-size", "file has %d bytes, format says %d for a %d byte stream", len(file), want, b.sv.Total)
			}
			sum, err := rsm.GetV2PayloadChecksum(b.fp, b.fs)
			if err != nil {
				vfhelp.Fail(t, "c14-recorded-checksum-unreadable", "GetV2PayloadChecksum: %v", err)
			}
			if !bytes.Equal(sum, b.sv.Checksum) {
				vfhelp.Fail(t, "c14-recorded-checksum-mismatch", "recorded checksum %x, file yields %x, case %s", b.sv.Checksum, sum, c.Canon())
			}
		} else if uint64(len(file)) != uint64(HeaderSize)+b.sv.Total {
			vfhelp.Fail(t, "c14-v1-disk-size", "file has %d bytes, want %d", len(file), uint64(HeaderSize)+b.sv.Total)
		}
		func() {
			defer func() {
				if r := recover(); r != nil {
					vfhelp.Fail(t, "c14-snapshot-validate-panics", "pb.Snapshot.Validate panicked: %v", r)
				}
			}()
			ss := pb.Snapshot{Filepath: b.fp, FileSize: b.sv.FileSize, Checksum: b.sv.Checksum, Index: 0xAA, Term: 1}
			if !ss.Validate(b.fs) {
				vfhelp.Fail(t, "c14-snapshot-validate-false", "pb.Snapshot.Validate false")
			}
		}()
		l := LoadFile(b.fs, b.fp, c.ReadSizes, c.ReadFull)
		if l.Failed() {
			vfhelp.Fail(t, "c14-roundtrip-load-failed", "loading the pristine file failed: %s, case %s", l.Why(), c.Canon())
		}
		wantVer := uint64(rsm.V2)
		if fl.V1 {
			wantVer = uint64(rsm.V1)
		}
		if l.Header.Version != wantVer || l.Header.CompressionType != ct(c.Compressed) ||
			l.Header.ChecksumType != rsm.DefaultChecksumType || !bytes.Equal(l.Header.PayloadChecksum, b.sv.Checksum) {
			vfhelp.Fail(t, "c14-header-fields", "header %+v does not describe the file (checksum %x)", l.Header, b.sv.Checksum)
		}
		if d := b.checkIdentical(l); d != "" {
			vfhelp.Fail(t, "c14-roundtrip-bytes-differ", "%s, case %s", d, c.Canon())
		}
		labels := []string{c.LenClass, fmt.Sprintf("compressed=%v", c.Compressed), fmt.Sprintf("sessions=%d", len(c.Sess.Clients))}
		wb := cutNearBoundary(c.WriteCuts, len(b.session))
		rb := sizesNearBoundary(c.ReadSizes, len(b.session))
		if wb {
			labels = append(labels, "write-cut-at-block-boundary")
		}
		if rb {
			labels = append(labels, "read-cut-at-block-boundary")
		}
		labels = append(labels, fmt.Sprintf("write-pieces<=%d", bucket(len(c.WriteCuts)+1)), fmt.Sprintf("read-pieces<=%d", bucket(len(c.ReadSizes)+1)))
		if len(b.payload) >= BlockSize {
			switch n := len(c.WriteCuts) + 1; {
			case n == 1:
				labels = append(labels, "big-payload/single-write")
			case n <= 3:
				labels = append(labels, "big-payload/two-or-three-writes")
			default:
				labels = append(labels, "big-payload/many-writes")
			}
		}
		if largeWriteAtBoundary(c.WriteCuts, len(b.payload), len(b.session)) {
			l := "write-holds-whole-block-at-boundary"
			if c.Compressed {
				l += "/compressed"
			} else {
				l += "/uncompressed"
			}
			labels = append(labels, l)
		}
		if !fl.V1 {
			// shrunk-file recognition and shrinking (on disk state machines)
			wantShrunk := !c.Compressed && len(b.payload) == 0 && len(c.Sess.Clients) == 0
			got, err := rsm.IsShrunkSnapshotFile(b.fp, b.fs)
			if err != nil {
				vfhelp.Fail(t, "c14-isshrunk-error", "IsShrunkSnapshotFile on a regular file: %v", err)
			}
			if got != wantShrunk {
				vfhelp.Fail(t, "c14-isshrunk-wrong", "IsShrunkSnapshotFile = %v, want %v, case %s", got, wantShrunk, c.Canon())
			}
			if wantShrunk {
				labels = append(labels, "looks-shrunk-before-shrink")
			}
			shrunkFp := b.fs.PathJoin(b.dir, "snapshot-00000000000000AA.shrunk")
			rounds := 1
			if len(b.payload)%3 == 0 {
				rounds = 2 // shrinking an already shrunk file
				labels = append(labels, "shrunk-twice")
			}
			for i := 0; i < rounds; i++ {
				if err := rsm.ShrinkSnapshot(b.fp, shrunkFp, b.fs); err != nil {
					vfhelp.Fail(t, "c14-shrink-error", "ShrinkSnapshot: %v", err)
				}
				if err := rsm.ReplaceSnapshot(shrunkFp, b.fp, b.fs); err != nil {
					vfhelp.Fail(t, "c14-replace-error", "ReplaceSnapshot: %v", err)
				}
			}
			if _, err := b.fs.Stat(shrunkFp); err == nil {
				vfhelp.Fail(t, "c14-shrunk-temp-left", "shrunk temp file still exists after ReplaceSnapshot")
			}
			got, err = rsm.IsShrunkSnapshotFile(b.fp, b.fs)
			if err != nil || !got {
				vfhelp.Fail(t, "c14-shrunk-not-recognised", "IsShrunkSnapshotFile after shrink = %v, %v", got, err)
			}
			sl := LoadFile(b.fs, b.fp, c.ReadSizes, c.ReadFull)
			if sl.Failed() {
				vfhelp.Fail(t, "c14-shrunk-load-failed", "loading the shrunk file failed: %s", sl.Why())
			}
			if !sl.Sessions.Done || !sl.SM.Done || !bytes.Equal(sl.Sessions.Consumed, rsm.GetEmptyLRUSession()) || len(sl.SM.Got) != 0 {
				vfhelp.Fail(t, "c14-shrunk-not-empty", "shrunk file loads sessions %x and a %d byte payload", sl.Sessions.Consumed, len(sl.SM.Got))
			}
			sfi, err := b.fs.Stat(b.fp)
			if err != nil || uint64(sfi.Size()) != wantDiskSize(16) {
				vfhelp.Fail(t, "c14-shrunk-size", "shrunk file size %v err %v", sfi, err)
			}
			if _, err := rsm.GetV2PayloadChecksum(b.fp, b.fs); err != nil {
				vfhelp.Fail(t, "c14-shrunk-checksum-unreadable", "%v", err)
			}
		}
		nt := b.sv.Total+uint64(TailSize) >= uint64(BlockSize) && (wb || rb || largeWriteAtBoundary(c.WriteCuts, len(b.payload), len(b.session)))
		st.Case([]byte(c.Canon()), nt, labels...)
		if nt && st.WantSample() {
			st.Sample(map[string]interface{}{"case": c.Canon(), "stream_bytes": b.sv.Total, "file_bytes": len(file)})
		}
	}
}

func bucket(n int) int {
	for _, b := range []int{1, 2, 4, 8, 16, 64} {
		if n <= b {
			return b
		}
	}
	return 4096
}

// ---------------------------------------------------------------------------
// C14 unit: single bit flips of a snapshot file

func shortRegion(r string) string {
	if strings.HasPrefix(r, "hdr-rec/") {
		parts := strings.Split(r, "/")
		return "hdr-rec/" + parts[1]
	}
	return r
}

// judgeFlip loads a file with one flipped bit and classifies the outcome.
// It fails the test if altered data was loaded.
func (b built) judgeFlip(t *rapid.T, st *vfhelp.Stats, fl Flavor, prefix string, orig []byte, lay Layout, bit int, fp2 string) (region, outcome string) {
	region = lay.Region(bit / 8)
	mut := Flip(orig, bit)
	if err := WriteFile(b.fs, fp2, mut); err != nil {
		t.Fatalf("write: %v", err)
	}
	l := LoadFile(b.fs, fp2, b.c.ReadSizes, b.c.ReadFull)
	smAltered := !IsPrefix(l.SM.Got, b.payload)
	switch {
	case !l.Failed():
		if d := b.checkIdentical(l); d != "" {
			vfhelp.Fail(t, "c14-flip-altered-data-loaded",
				"bit %d of byte %d (%s) flipped: load succeeded but %s; header now %+v; case %s",
				bit%8, bit/8, region, d, l.Header, b.c.Canon())
		}
		outcome = "accepted-harmless"
	case !l.SM.Called:
		outcome = "rejected-before-sm"
		if l.Err == ErrSessionRecordTooLarge {
			// the real session loader would try to allocate the absurd record
			// length (crash by out-of-memory / makeslice panic / unexpected EOF)
			st.Count(prefix+"rejected-by-session-loader-absurd-record-length", 1)
		}
	case smAltered:
		// the state machine consumed altered bytes before the failure
		if !fl.V1 {
			vfhelp.Fail(t, "c14-v2-altered-bytes-reach-sm-before-failure",
				"bit %d of byte %d (%s) flipped: load failed (%s) but the state machine had already received altered bytes (first difference at %d); case %s",
				bit%8, bit/8, region, l.Why(), firstDiff(l.SM.Got, b.payload), b.c.Canon())
		}
		outcome = "rejected-after-sm-got-altered-bytes"
	case l.SM.Done:
		outcome = "rejected-after-sm-got-original"
	default:
		outcome = "rejected-mid-sm-prefix-original"
	}
	st.Count(prefix+shortRegion(region)+"/"+outcome, 1)
	return region, outcome
}

// FileFlip returns the property function: single bit flips of the header
// record region, of sampled padding bits and of boundary biased payload bits.
func FileFlip(st *vfhelp.Stats, fl Flavor, bigPct int) func(t *rapid.T) {
	return func(t *rapid.T) {
		c := GenFileCase(t, fl.V1, bigPct, func(s SessionSpec) int {
			f, _ := fl.SessionBytes(s)
			return len(f)
		})
		b := buildFile(t, fl, c)
		orig, err := ReadFile(b.fs, b.fp)
		if err != nil {
			t.Fatalf("read: %v", err)
		}
		if l := LoadFile(b.fs, b.fp, c.ReadSizes, c.ReadFull); l.Failed() || b.checkIdentical(l) != "" {
			vfhelp.Fail(t, "c14-roundtrip-load-failed", "pristine load: %s %s", l.Why(), b.checkIdentical(l))
		}
		lay := ParseLayout(orig, !fl.V1)
		big := len(orig) > 256<<10
		var bits []int
		recEnd := 12 + lay.RecLen
		// (every header bit is covered by the HeaderExhaustive unit; here a sample,
		// with the last record byte - the compression type - always included)
		nh := rapid.IntRange(24, 48).Draw(t, "nhdrflips")
		if big {
			nh = rapid.IntRange(3, 6).Draw(t, "nhdrflips")
		}
		for i := 0; i < nh; i++ {
			bits = append(bits, rapid.IntRange(0, recEnd*8-1).Draw(t, "hdrbit"))
		}
		bits = append(bits, (8+lay.RecLen-1)*8)
		// padding: first and last padding bytes and random ones
		npad := 6
		if big {
			npad = 2
		}
		for i := 0; i < npad; i++ {
			var off int
			switch rapid.IntRange(0, 3).Draw(t, "padkind") {
			case 0:
				off = recEnd
			case 1:
				off = HeaderSize - 1
			default:
				off = rapid.IntRange(recEnd, HeaderSize-1).Draw(t, "padoff")
			}
			bits = append(bits, off*8+rapid.IntRange(0, 7).Draw(t, "padbit"))
		}
		// payload: structural boundaries
		bo := lay.BoundaryOffsets(len(orig))
		nb := len(bo)
		if big {
			nb = rapid.IntRange(5, 9).Draw(t, "nboundary")
		}
		touched := map[string]bool{}
		if nb >= len(bo) {
			for _, o := range bo {
				bits = append(bits, o*8+rapid.IntRange(0, 7).Draw(t, "bbit"))
			}
		} else {
			for i := 0; i < nb; i++ {
				o := rapid.SampledFrom(bo).Draw(t, "boff")
				bits = append(bits, o*8+rapid.IntRange(0, 7).Draw(t, "bbit"))
			}
		}
		nrand := 3
		if big {
			nrand = 1
		}
		if len(orig) > HeaderSize {
			for i := 0; i < nrand; i++ {
				o := rapid.IntRange(HeaderSize, len(orig)-1).Draw(t, "roff")
				bits = append(bits, o*8+rapid.IntRange(0, 7).Draw(t, "rbit"))
			}
		}
		fp2 := b.fs.PathJoin(b.dir, "flipped.gbsnap")
		for _, bit := range bits {
			region, _ := b.judgeFlip(t, st, fl, "flip/", orig, lay, bit, fp2)
			touched[shortRegion(region)] = true
		}
		partial := !fl.V1 && lay.Blocks >= 2 && b.sv.Total%uint64(BlockSize) != 0
		nt := partial && (touched["block-crc"] || touched["tail-total"] || touched["tail-magic"])
		if fl.V1 {
			// V1 has no blocks: a flip in a payload of at least 64 KiB (detected at Close only)
			nt = touched["v1-payload"] && len(b.payload) >= 64<<10
		}
		labels := []string{c.LenClass, fmt.Sprintf("compressed=%v", c.Compressed), fmt.Sprintf("blocks=%d", lay.Blocks)}
		if partial {
			labels = append(labels, ">=2blocks-partial-last")
		}
		st.Count("flips-evaluated", len(bits))
		st.Case([]byte(c.Canon()+fmt.Sprint(bits[len(bits)-nrand:])), nt, labels...)
		if nt && st.WantSample() {
			st.Sample(map[string]interface{}{"case": c.Canon(), "file_bytes": len(orig), "flips": len(bits)})
		}
	}
}

// HeaderExhaustive flips every bit of the 1 KiB header region of a small
// file and accumulates the per field outcome table.
func HeaderExhaustive(st *vfhelp.Stats, fl Flavor, table map[string]map[string]int) func(t *rapid.T) {
	return func(t *rapid.T) {
		c := FileCase{V1: fl.V1}
		c.Compressed = rapid.Bool().Draw(t, "compressed")
		c.Sess = GenSessions(t)
		c.Pay = Payload{Kind: rapid.IntRange(0, 2).Draw(t, "paykind"), Seed: rapid.Uint64().Draw(t, "seed"),
			Len: rapid.IntRange(0, 400).Draw(t, "len")}
		c.LenClass = "payload<=400"
		c.ReadFull = rapid.Bool().Draw(t, "readfull")
		b := buildFile(t, fl, c)
		orig, err := ReadFile(b.fs, b.fp)
		if err != nil {
			t.Fatalf("read: %v", err)
		}
		lay := ParseLayout(orig, !fl.V1)
		fp2 := b.fs.PathJoin(b.dir, "flipped.gbsnap")
		for bit := 0; bit < HeaderSize*8; bit++ {
			region, outcome := b.judgeFlip(t, st, fl, "hdrx/", orig, lay, bit, fp2)
			key := fmt.Sprintf("compressed=%v/%s", c.Compressed, region)
			if table[key] == nil {
				table[key] = map[string]int{}
			}
			table[key][outcome]++
		}
		st.Count("flips-evaluated", HeaderSize*8)
		st.Case([]byte(c.Canon()), true, fmt.Sprintf("compressed=%v", c.Compressed), fmt.Sprintf("sessions=%d", len(c.Sess.Clients)))
		if st.WantSample() {
			st.Sample(map[string]interface{}{"case": c.Canon(), "header_record_bytes": lay.RecLen})
		}
	}
}

// ---------------------------------------------------------------------------
// C14 unit: chunk streams against the stream validator

// SigUnloadableAccepted is the signature of the S7 finding: the header record
// of file written snapshots is covered by no checksum, the stream validator
// accepts a corrupted header and the receiver stores an unloadable snapshot.
const SigUnloadableAccepted = "c14-stream-validator-accepts-corrupt-file-header-unloadable"

// StreamCase is one generated chunk stream.
type StreamCase struct {
	Source     string // "chunkwriter" (streamed, header CRC present) or "file" (file split by the sender)
	File       FileCase
	ChunkSize  int // for Source == "file"
	Perturbs   []string
	NPerturbed int
}

// uncovered tells whether a region is covered by no checksum for the source.
func uncovered(source, region string) bool {
	if region == "hdr-padding" {
		return true
	}
	if source != "chunkwriter" {
		// file written headers: the CRC slot is zero, the record is unchecked (S7);
		// the length field and the slot itself still take part in the check
		return strings.HasPrefix(region, "hdr-rec/")
	}
	return false
}

type perturbation struct {
	name    string
	datas   [][]byte
	regions []string // regions of altered bytes ("" when structure changed)
}

func cloneDatas(d [][]byte) [][]byte {
	out := make([][]byte, len(d))
	copy(out, d)
	return out
}

// locate maps an offset of the concatenated stream to (chunk, offset).
func locate(datas [][]byte, off int) (int, int) {
	for i, d := range datas {
		if off < len(d) {
			return i, off
		}
		off -= len(d)
	}
	return -1, 0
}

func genStreamPerturbation(t *rapid.T, datas [][]byte, concat []byte, lay Layout, i int) perturbation {
	lbl := func(s string) string { return fmt.Sprintf("%s%d", s, i) }
	nd := len(datas)
	kind := rapid.SampledFrom([]string{"flip", "flip", "flip", "flip", "cut-inside-chunk", "cut-inside-chunk-keep-rest",
		"drop-last-k", "drop-tail-chunk", "drop-middle", "duplicate", "swap", "cut-prefix"}).Draw(t, lbl("pkind"))
	p := perturbation{name: kind, datas: cloneDatas(datas)}
	switch kind {
	case "flip":
		var off int
		switch rapid.IntRange(0, 7).Draw(t, lbl("fregion")) {
		case 0:
			off = rapid.SampledFrom([]int{0, 1, 2, 7, 8 + lay.RecLen, 9 + lay.RecLen, 10 + lay.RecLen, 11 + lay.RecLen}).Draw(t, lbl("foff"))
		case 1, 2:
			off = rapid.IntRange(8, 8+lay.RecLen-1).Draw(t, lbl("foff"))
			if rapid.IntRange(0, 4).Draw(t, lbl("flast")) == 0 {
				off = 8 + lay.RecLen - 1 // compression type value
			}
		case 3:
			off = rapid.IntRange(12+lay.RecLen, HeaderSize-1).Draw(t, lbl("foff"))
		case 4, 5:
			bo := lay.BoundaryOffsets(len(concat))
			off = rapid.SampledFrom(bo).Draw(t, lbl("foff"))
		default:
			off = rapid.IntRange(HeaderSize, len(concat)-1).Draw(t, lbl("foff"))
		}
		bit := rapid.IntRange(0, 7).Draw(t, lbl("fbit"))
		ci, co := locate(datas, off)
		d := append([]byte{}, datas[ci]...)
		d[co] ^= 1 << uint(bit)
		p.datas[ci] = d
		p.regions = []string{lay.Region(off)}
		p.name = "flip/" + shortRegion(lay.Region(off))
	case "cut-inside-chunk", "cut-inside-chunk-keep-rest":
		ci := rapid.IntRange(0, nd-1).Draw(t, lbl("cchunk"))
		if len(datas[ci]) == 0 {
			p.name = "noop"
			return p
		}
		var keep int
		switch rapid.IntRange(0, 3).Draw(t, lbl("ckind")) {
		case 0:
			keep = len(datas[ci]) - 1
		case 1:
			keep = rapid.IntRange(0, minInt(len(datas[ci])-1, HeaderSize+40)).Draw(t, lbl("ckeep"))
		case 2:
			keep = maxInt(0, len(datas[ci])-rapid.IntRange(1, 24).Draw(t, lbl("cback")))
		default:
			keep = rapid.IntRange(0, len(datas[ci])-1).Draw(t, lbl("ckeep"))
		}
		p.datas[ci] = datas[ci][:keep]
		if kind == "cut-inside-chunk" {
			p.datas = p.datas[:ci+1]
		}
		if ci == 0 && keep < HeaderSize {
			p.name += "/inside-header"
		}
	case "cut-prefix":
		// the stream ends at an arbitrary byte, biased to structural boundaries
		var end int
		if rapid.Bool().Draw(t, lbl("pb")) {
			bo := lay.BoundaryOffsets(len(concat))
			end = rapid.SampledFrom(bo).Draw(t, lbl("pend"))
		} else {
			end = rapid.IntRange(0, len(concat)-1).Draw(t, lbl("pend"))
		}
		ci, co := locate(datas, end)
		p.datas = p.datas[:ci+1]
		p.datas[ci] = datas[ci][:co]
	case "drop-last-k":
		k := rapid.IntRange(1, nd).Draw(t, lbl("k"))
		p.datas = p.datas[:nd-k]
	case "drop-tail-chunk":
		// the last piece that carries data
		last := nd - 1
		for last > 0 && len(datas[last]) == 0 {
			last--
		}
		p.datas = append(p.datas[:last], p.datas[last+1:]...)
	case "drop-middle":
		if nd < 2 {
			p.name = "noop"
			return p
		}
		ci := rapid.IntRange(0, nd-1).Draw(t, lbl("dchunk"))
		if len(datas[ci]) == 0 {
			p.name = "noop"
			return p
		}
		p.datas = append(p.datas[:ci], p.datas[ci+1:]...)
	case "duplicate":
		ci := rapid.IntRange(0, nd-1).Draw(t, lbl("dchunk"))
		if len(datas[ci]) == 0 {
			p.name = "noop"
			return p
		}
		nds := append([][]byte{}, datas[:ci+1]...)
		nds = append(nds, datas[ci:]...)
		p.datas = nds
	case "swap":
		if nd < 2 {
			p.name = "noop"
			return p
		}
		ci := rapid.IntRange(0, nd-2).Draw(t, lbl("schunk"))
		if ci > 0 && len(p.datas[ci]) == BlockSize+CRCSize && len(p.datas[ci+1]) == BlockSize+CRCSize {
			// two interior full size blocks: the block format carries no sequence number,
			// their order is guarded by the chunk ids of the transport (C15), not by the
			// stream validator, and a swap is neither a bit flip nor a truncation
			p.name = "noop"
			return p
		}
		p.datas[ci], p.datas[ci+1] = p.datas[ci+1], p.datas[ci]
	}
	return p
}

func minInt(a, b int) int {
	if a < b {
		return a
	}
	return b
}

func maxInt(a, b int) int {
	if a > b {
		return a
	}
	return b
}

// Stream returns the property function for chunk streams.
func Stream(st *vfhelp.Stats, fl Flavor, bigPct int) func(t *rapid.T) {
	return func(t *rapid.T) {
		source := "file"
		if !fl.V1 {
			source = rapid.SampledFrom([]string{"chunkwriter", "chunkwriter", "file"}).Draw(t, "source")
		}
		var c FileCase
		var datas [][]byte
		var b built
		chunkSize := 0
		if source == "chunkwriter" {
			// (a tenth of the streams has three or more blocks: two consecutive full size
			// chunks after chunk 0 exist only then)
			c = GenFileCaseHuge(t, false, bigPct, 10, func(SessionSpec) int { return 16 })
			c.Sess = SessionSpec{}
			c.ReadSizes = nil
			b = built{c: c, fs: vfs.NewMemFS(), dir: "/ss/recv"}
			if err := b.fs.MkdirAll(b.dir, 0o755); err != nil {
				t.Fatalf("mkdir %v", err)
			}
			b.session = rsm.GetEmptyLRUSession()
			b.resaved = b.session
			b.payload = c.Pay.Bytes()
			meta := rsm.SSMeta{
				From: rapid.Uint64Range(1, 5).Draw(t, "from"), Index: rapid.Uint64Range(1, 1<<40).Draw(t, "index"),
				Term: rapid.Uint64Range(1, 100).Draw(t, "term"), OnDiskIndex: rapid.Uint64Range(0, 50).Draw(t, "odi"),
				CompressionType: ct(c.Compressed),
				Membership:      pb.Membership{Addresses: map[uint64]string{1: "a1", 2: "a2"}, ConfigChangeId: 7},
			}
			sink := &RecSink{Shard: 11, To: 3}
			wpayload := append([]byte{}, b.payload...)
			if err := StreamChunks(sink, meta, Segments(wpayload, c.WriteCuts)); err != nil {
				vfhelp.Fail(t, "c14-stream-write-failed", "%v", err)
			}
			checkCallerBuffers(t, "chunk writer", c, b.session, b.session, wpayload, b.payload)
			checkChunkMeta(t, sink, meta, c)
			for _, ch := range sink.Chunks {
				datas = append(datas, ch.Data)
			}
		} else {
			c = GenFileCase(t, fl.V1, bigPct, func(s SessionSpec) int {
				f, _ := fl.SessionBytes(s)
				return len(f)
			})
			c.ReadSizes = nil
			b = buildFile(t, fl, c)
			file, err := ReadFile(b.fs, b.fp)
			if err != nil {
				t.Fatalf("read %v", err)
			}
			if len(file) > 256<<10 {
				chunkSize = rapid.SampledFrom([]int{BlockSize, BlockSize, BlockSize + CRCSize, 1 << 20, 3 << 19, BlockSize - 1, BlockSize + 1}).Draw(t, "chunksize")
			} else {
				chunkSize = rapid.OneOf(rapid.SampledFrom([]int{HeaderSize, HeaderSize + 1, 4096, BlockSize}), rapid.IntRange(HeaderSize, 70000)).Draw(t, "chunksize")
			}
			datas = SplitFile(file, chunkSize)
		}
		concat := Concat(datas)
		lay := ParseLayout(concat, !fl.V1)
		if v := ValidateChunks(datas); !v.Accepted {
			vfhelp.Fail(t, "c14-stream-pristine-rejected", "validator rejects what the writer produced (%s at %s, panic %v), case %s source %s chunk size %d",
				"rejected", v.Where, v.Panic, c.Canon(), source, chunkSize)
		}
		// what the receiver stores is the concatenation: it must load back
		recv := b.fs.PathJoin(b.dir, "received.gbsnap")
		if err := WriteFile(b.fs, recv, concat); err != nil {
			t.Fatalf("write %v", err)
		}
		if l := LoadFile(b.fs, recv, nil, false); l.Failed() || b.checkIdentical(l) != "" {
			vfhelp.Fail(t, "c14-stream-roundtrip", "reassembled stream does not load back: %s %s, case %s", l.Why(), b.checkIdentical(l), c.Canon())
		}
		if source == "chunkwriter" {
			slot := concat[8+lay.RecLen : 12+lay.RecLen]
			if bytes.Equal(slot, []byte{0, 0, 0, 0}) {
				st.Count("streamed-header-crc-zero", 1)
			}
		}
		big := len(concat) > 256<<10
		np := rapid.IntRange(3, 8).Draw(t, "nperturb")
		if big {
			np = rapid.IntRange(2, 4).Draw(t, "nperturb")
		}
		var names []string
		hitBoundary := false
		removedBytes := false
		for i := 0; i < np; i++ {
			p := genStreamPerturbation(t, datas, concat, lay, i)
			if p.name == "noop" {
				continue
			}
			names = append(names, p.name)
			pc := Concat(p.datas)
			same := bytes.Equal(pc, concat) && len(p.datas) > 0 && len(p.datas[0]) >= HeaderSize
			v := ValidateChunks(p.datas)
			verdict := "rejected@" + strings.SplitN(v.Where, "-", 2)[0]
			harmlessOnly := len(p.regions) > 0
			for _, r := range p.regions {
				if !uncovered(source, r) {
					harmlessOnly = false
				}
				if r == "block-crc" || r == "tail-total" || r == "tail-magic" || r == "v1-payload" {
					hitBoundary = true
				}
			}
			if strings.HasPrefix(p.name, "cut") || strings.HasPrefix(p.name, "drop") {
				hitBoundary = hitBoundary || lay.Blocks >= 2
				removedBytes = true
			}
			switch {
			case same:
				if !v.Accepted {
					vfhelp.Fail(t, "c14-stream-pristine-rejected", "perturbation %s left the bytes unchanged but the validator rejected (%s)", p.name, v.Where)
				}
				verdict = "accepted-unchanged"
			case v.Accepted && harmlessOnly:
				// no checksum covers these bytes: judged end to end
				if err := WriteFile(b.fs, recv, pc); err != nil {
					t.Fatalf("write %v", err)
				}
				l := LoadFile(b.fs, recv, nil, false)
				if !l.Failed() {
					if d := b.checkIdentical(l); d != "" {
						vfhelp.Fail(t, "c14-flip-altered-data-loaded", "stream (%s) with %s accepted by the validator and loaded with altered data: %s", source, p.name, d)
					}
					verdict = "accepted-harmless"
				} else {
					if !IsPrefix(l.SM.Got, b.payload) && !fl.V1 {
						vfhelp.Fail(t, "c14-v2-altered-bytes-reach-sm-before-failure", "stream (%s) with %s accepted, load failed (%s) after handing altered bytes to the state machine", source, p.name, l.Why())
					}
					verdict = "accepted-by-validator-but-unloadable"
					st.Known(t, SigUnloadableAccepted,
						"source %s: the stream validator accepted a chunk stream with one flipped bit in %v of the header record; the received file cannot be loaded (%s); case %s chunk size %d",
						source, p.regions, l.Why(), c.Canon(), chunkSize)
				}
			case v.Accepted:
				vfhelp.Fail(t, "c14-stream-corruption-accepted",
					"source %s: validator accepted a stream perturbed by %s (regions %v; %d pieces, %d of %d bytes); case %s chunk size %d",
					source, p.name, p.regions, len(p.datas), len(pc), len(concat), c.Canon(), chunkSize)
			}
			if v.Panic != nil {
				verdict = "rejected@panic"
			}
			st.Count("stream/"+source+"/"+p.name+"/"+verdict, 1)
		}
		partial := lay.Blocks >= 2 && (len(concat)-HeaderSize-TailSize)%(BlockSize+CRCSize) != 0
		nt := partial && hitBoundary
		if fl.V1 {
			// V1 has no blocks: at least 3 pieces and a perturbation of the payload or of the piece list
			nt = len(datas) >= 3 && (hitBoundary || removedBytes)
		}
		sort.Strings(names)
		labels := []string{"source=" + source, c.LenClass, fmt.Sprintf("compressed=%v", c.Compressed), fmt.Sprintf("blocks=%d", lay.Blocks),
			fmt.Sprintf("pieces<=%d", bucket(len(datas)))}
		st.Count("perturbations-evaluated", len(names))
		st.Case([]byte(fmt.Sprintf("%s|%s|%d|%v", source, c.Canon(), chunkSize, names)), nt, labels...)
		if nt && st.WantSample() {
			st.Sample(map[string]interface{}{"source": source, "case": c.Canon(), "chunk_size": chunkSize, "pieces": len(datas), "perturbations": names})
		}
	}
}

func checkChunkMeta(t *rapid.T, sink *RecSink, meta rsm.SSMeta, c FileCase) {
	if sink.Closed != 1 {
		vfhelp.Fail(t, "c14-stream-sink-close", "sink closed %d times", sink.Closed)
	}
	n := len(sink.Chunks)
	if n < 2 {
		vfhelp.Fail(t, "c14-stream-chunk-count", "only %d chunks", n)
	}
	for i, ch := range sink.Chunks {
		last := i == n-1
		if ch.ChunkId != uint64(i) || ch.FileChunkId != uint64(i) {
			vfhelp.Fail(t, "c14-stream-chunk-ids", "chunk %d has id %d/%d", i, ch.ChunkId, ch.FileChunkId)
		}
		if last != (ch.ChunkCount == pb.LastChunkCount) || last != (ch.FileChunkCount == pb.LastChunkCount) {
			vfhelp.Fail(t, "c14-stream-last-marker", "chunk %d of %d has count %d/%d", i, n, ch.ChunkCount, ch.FileChunkCount)
		}
		if last && len(ch.Data) != 0 {
			vfhelp.Fail(t, "c14-stream-last-marker", "last chunk carries %d bytes", len(ch.Data))
		}
		if !last && (ch.ChunkSize != uint64(len(ch.Data)) || len(ch.Data) == 0) {
			vfhelp.Fail(t, "c14-stream-chunk-size", "chunk %d: ChunkSize %d, %d bytes", i, ch.ChunkSize, len(ch.Data))
		}
		if ch.Index != meta.Index || ch.Term != meta.Term || ch.From != meta.From || ch.OnDiskIndex != meta.OnDiskIndex ||
			ch.ShardID != sink.Shard || ch.ReplicaID != sink.To || ch.Filepath != server.GetSnapshotFilename(meta.Index) ||
			len(ch.Membership.Addresses) != len(meta.Membership.Addresses) || ch.HasFileInfo {
			vfhelp.Fail(t, "c14-stream-chunk-meta", "chunk %d meta %+v does not match %+v", i, ch, meta)
		}
		if i > 0 && i < n-3 && len(ch.Data) != BlockSize+CRCSize {
			vfhelp.Fail(t, "c14-stream-chunk-size", "inner chunk %d has %d bytes", i, len(ch.Data))
		}
	}
	if n < 3 || len(sink.Chunks[n-2].Data) != TailSize {
		vfhelp.Fail(t, "c14-stream-tail", "%d chunks, tail chunk has %d bytes", n, len(sink.Chunks[n-2].Data))
	}
}
