package snapio

import (
	"fmt"
	"sort"

	"pgregory.net/rapid"
)

// FileCase is one generated snapshot (what is written and how it is read).
type FileCase struct {
	V1         bool
	Compressed bool
	Sess       SessionSpec
	Pay        Payload
	LenClass   string
	WriteCuts  []int // cut offsets inside the payload (one Write per segment)
	ReadSizes  []int
	ReadFull   bool
}

// Canon is the canonical rendering used for distinctness.
func (c FileCase) Canon() string {
	return fmt.Sprintf("%v|%v|%v|%v|%v|%v|%v|%v", c.V1, c.Compressed, c.Sess, c.Pay, c.LenClass,
		c.WriteCuts, c.ReadSizes, c.ReadFull)
}

// GenSessions draws a session spec.
func GenSessions(t *rapid.T) SessionSpec {
	n := rapid.SampledFrom([]int{0, 0, 0, 1, 2, 5}).Draw(t, "nclients")
	s := SessionSpec{}
	seen := map[uint64]bool{}
	for i := 0; i < n; i++ {
		c := rapid.Uint64Range(1, 1<<40).Draw(t, "client")
		for seen[c] {
			c++ // distinct ids: the save order is the LRU order, re-registering would reorder
		}
		seen[c] = true
		s.Clients = append(s.Clients, c)
	}
	if n > 0 {
		s.Responses = rapid.IntRange(0, 3).Draw(t, "responses")
	}
	return s
}

// GenPayload draws the payload so that the uncompressed stream (session bytes
// followed by payload) has a length in one of the classes around the block
// size. sessLen is the length of the session bytes. bigPct is the percentage
// of cases with a stream of about one block or more.
func GenPayload(t *rapid.T, sessLen int, bigPct int) (Payload, string) {
	return GenPayloadHuge(t, sessLen, bigPct, 0)
}

// GenPayloadHuge is GenPayload with an additional hugePct percent of cases
// whose stream is 3 blocks (-1, exactly, +1, + a few bytes) or 2 blocks plus a
// few bytes: the sizes at which one Write call still holds a whole block (and
// more) when the writer reaches an interior block boundary.
func GenPayloadHuge(t *rapid.T, sessLen int, bigPct int, hugePct int) (Payload, string) {
	p := Payload{
		Kind: rapid.SampledFrom([]int{0, 1, 2, 2}).Draw(t, "paykind"),
		Seed: rapid.Uint64().Draw(t, "payseed"),
	}
	var class string
	k := rapid.IntRange(0, 99).Draw(t, "lenclass")
	if k >= 100-hugePct {
		blocks := rapid.SampledFrom([]int{3, 3, 3, 2}).Draw(t, "hblocks")
		deltas := []int{-1, 0, 1, CRCSize, TailSize, 100, 4096}
		if blocks == 2 {
			deltas = []int{CRCSize - 1, CRCSize, CRCSize + 1, TailSize, 100, 4096}
		}
		delta := rapid.SampledFrom(deltas).Draw(t, "hdelta")
		p.Len = blocks*BlockSize + delta - sessLen
		class = fmt.Sprintf("stream=%dblk%+d", blocks, delta)
		if delta < -1 || delta > 1 {
			class = fmt.Sprintf("stream=%dblk+few", blocks)
		}
		return p, class
	}
	switch {
	case k < bigPct:
		blocks := rapid.SampledFrom([]int{1, 1, 1, 2}).Draw(t, "blocks")
		delta := rapid.SampledFrom([]int{-1, 0, 1, -1, 0, 1, -2, 2, -CRCSize, CRCSize, -TailSize, TailSize}).Draw(t, "delta")
		p.Len = blocks*BlockSize + delta - sessLen
		class = fmt.Sprintf("stream=%dblk%+d", blocks, delta)
		if delta < -1 || delta > 1 {
			class = fmt.Sprintf("stream=%dblk+-few", blocks)
		}
	case k < bigPct+4:
		p.Len = rapid.IntRange(64<<10, 2*BlockSize+4096).Draw(t, "midlen")
		class = "stream=mid"
	case k < bigPct+14:
		p.Len = 0
		class = "payload=0"
	case k < bigPct+22:
		p.Len = 1
		class = "payload=1"
	default:
		p.Len = rapid.OneOf(rapid.IntRange(2, 300), rapid.IntRange(2, 64<<10)).Draw(t, "smalllen")
		class = "payload=small"
	}
	if p.Len < 0 {
		p.Len = 0
	}
	return p, class
}

// GenCuts draws up to a few dozen cut offsets in [0,n], biased towards the
// anchors (offsets of structural boundaries in the same coordinates).
func GenCuts(t *rapid.T, label string, n int, anchors []int) []int {
	if n == 0 {
		if rapid.IntRange(0, 3).Draw(t, label+"-zerocut") == 0 {
			return []int{0}
		}
		return nil
	}
	valid := make([]int, 0, len(anchors))
	for _, a := range anchors {
		if a >= 0 && a <= n {
			valid = append(valid, a)
		}
	}
	var cuts []int
	put := func(c int) {
		if c >= 0 && c <= n {
			cuts = append(cuts, c)
		}
	}
	kind := rapid.IntRange(0, 5).Draw(t, label+"-kind")
	if n >= BlockSize {
		// payloads of a block or more: a single call for everything and two or
		// three large calls are what io.Copy / bulk writers produce; make them common
		switch lk := rapid.IntRange(0, 9).Draw(t, label+"-largekind"); {
		case lk < 4:
			kind = 0
		case lk < 7:
			kind = 6
		}
	}
	switch kind {
	case 6: // two or three large pieces (each at least a quarter block)
		k := rapid.IntRange(1, 2).Draw(t, label+"-nlarge")
		for i := 0; i < k; i++ {
			put(rapid.IntRange(BlockSize/4, n-BlockSize/4).Draw(t, label+"-largecut"))
		}
	case 0: // one piece
	case 1: // uniform
		k := rapid.IntRange(1, 8).Draw(t, label+"-k")
		for i := 0; i < k; i++ {
			put(rapid.IntRange(0, n).Draw(t, label+"-cut"))
		}
	case 2: // stride
		minStride := n/48 + 1
		stride := rapid.IntRange(minStride, minStride*4+7).Draw(t, label+"-stride")
		for c := stride; c < n; c += stride {
			put(c)
		}
	case 3: // around anchors
		for _, a := range valid {
			k := rapid.IntRange(1, 3).Draw(t, label+"-ak")
			for i := 0; i < k; i++ {
				put(a + rapid.IntRange(-3, 3).Draw(t, label+"-ad"))
			}
		}
		if len(valid) == 0 {
			put(rapid.IntRange(0, n).Draw(t, label+"-cut"))
		}
	case 4: // single byte pieces around an anchor (or a random place)
		c := rapid.IntRange(0, n).Draw(t, label+"-centre")
		if len(valid) > 0 {
			c = rapid.SampledFrom(valid).Draw(t, label+"-anchor")
		}
		for d := -8; d <= 8; d++ {
			put(c + d)
		}
	default: // mixture with repeated offsets (zero length pieces)
		k := rapid.IntRange(1, 6).Draw(t, label+"-k")
		for i := 0; i < k; i++ {
			c := rapid.IntRange(0, n).Draw(t, label+"-cut")
			put(c)
			if rapid.Bool().Draw(t, label+"-dup") {
				put(c)
			}
		}
		for _, a := range valid {
			put(a)
		}
	}
	sort.Ints(cuts)
	return cuts
}

// CutsToSizes converts sorted cut offsets into piece sizes (the remainder
// after the last cut is left to the caller).
func CutsToSizes(cuts []int) []int {
	out := make([]int, 0, len(cuts))
	prev := 0
	for _, c := range cuts {
		out = append(out, c-prev)
		prev = c
	}
	return out
}

// GenFileCase draws a snapshot description. sessLenOf returns the length of
// the serialised sessions for a spec (version dependent).
func GenFileCase(t *rapid.T, v1 bool, bigPct int, sessLenOf func(SessionSpec) int) FileCase {
	return GenFileCaseHuge(t, v1, bigPct, 0, sessLenOf)
}

// GenFileCaseHuge is GenFileCase with hugePct percent of 3 block cases.
func GenFileCaseHuge(t *rapid.T, v1 bool, bigPct int, hugePct int, sessLenOf func(SessionSpec) int) FileCase {
	c := FileCase{V1: v1}
	c.Compressed = rapid.IntRange(0, 2).Draw(t, "compressed") == 0
	c.Sess = GenSessions(t)
	sl := sessLenOf(c.Sess)
	c.Pay, c.LenClass = GenPayloadHuge(t, sl, bigPct, hugePct)
	var anchors []int
	for b := 1; b <= 3; b++ {
		anchors = append(anchors, b*BlockSize-sl)
	}
	c.WriteCuts = GenCuts(t, "w", c.Pay.Len, anchors)
	c.ReadSizes = CutsToSizes(GenCuts(t, "r", c.Pay.Len, anchors))
	if c.Pay.Len >= BlockSize/2 && rapid.IntRange(0, 2).Draw(t, "hugeread") == 0 {
		// bulk readers: the rest of the stream is read into one buffer that can hold it
		// all (io.ReadFull into a payload sized buffer, a reader with a buffer of several
		// blocks), after the generated smaller reads
		consumed := 0
		for _, n := range c.ReadSizes {
			consumed += n
		}
		extra := rapid.SampledFrom([]int{0, 0, CRCSize, TailSize, 100, BlockSize}).Draw(t, "hugeextra")
		if rest := c.Pay.Len - consumed; rest > 0 {
			c.ReadSizes = append(c.ReadSizes, rest+extra)
		}
	}
	c.ReadFull = rapid.Bool().Draw(t, "readfull")
	return c
}
