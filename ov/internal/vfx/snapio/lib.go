package snapio

import (
	"bytes"
	"encoding/binary"
	"errors"
	"fmt"
	"io"
	"sort"

	"github.com/lni/dragonboat/v4/internal/rsm"
	"github.com/lni/dragonboat/v4/internal/settings"
	"github.com/lni/dragonboat/v4/internal/utils/dio"
	"github.com/lni/dragonboat/v4/internal/vfs"
	pb "github.com/lni/dragonboat/v4/raftpb"
	sm "github.com/lni/dragonboat/v4/statemachine"
)

const (
	// BlockSize is rsm.blockSize (unexported there): payload bytes per CRC block.
	BlockSize = int(settings.SnapshotChunkSize)
	// HeaderSize is the size of the fixed header region of a snapshot file.
	HeaderSize = int(rsm.HeaderSize)
	// CRCSize is the size of the per block checksum.
	CRCSize = 4
	// TailSize is the size of the v2 tail record (total, magic).
	TailSize = 16
	// maxSessionRecord bounds a single session record in the guarded session
	// loader; nothing generated here comes close.
	maxSessionRecord = 64 << 20
)

// ---------------------------------------------------------------------------
// payloads and sessions

// Payload describes generated payload bytes by (kind, seed, len) so that big
// payloads do not have to be drawn byte by byte.
type Payload struct {
	Kind int // 0 zeros, 1 repeating 251 byte pattern, 2 pseudo random
	Seed uint64
	Len  int
}

// Bytes renders the payload.
func (p Payload) Bytes() []byte {
	out := make([]byte, p.Len)
	switch p.Kind {
	case 0:
	case 1:
		for i := range out {
			out[i] = byte((uint64(i%251) + p.Seed) & 0xff)
		}
	default:
		x := p.Seed*2862933555777941757 + 3037000493
		if x == 0 {
			x = 88172645463325252
		}
		i := 0
		for i+8 <= len(out) {
			x ^= x << 13
			x ^= x >> 7
			x ^= x << 17
			binary.LittleEndian.PutUint64(out[i:], x)
			i += 8
		}
		for ; i < len(out); i++ {
			x ^= x << 13
			x ^= x >> 7
			x ^= x << 17
			out[i] = byte(x)
		}
	}
	return out
}

// SessionSpec describes the client sessions stored ahead of the payload.
type SessionSpec struct {
	Clients   []uint64
	Responses int // responses recorded per client
}

// Build creates a real session manager holding the sessions and its V2
// serialisation (what statemachine.go puts into SSMeta.Session).
func (s SessionSpec) Build() (*rsm.SessionManager, []byte) {
	m := rsm.NewSessionManager()
	for _, c := range s.Clients {
		if r := m.RegisterClientID(c); r.Value != c {
			continue
		}
		ses, ok := m.ClientRegistered(c)
		if !ok {
			panic("session not registered")
		}
		for i := 0; i < s.Responses; i++ {
			m.AddResponse(ses, uint64(i+1), sm.Result{Value: c + uint64(i), Data: []byte{byte(i), byte(c)}})
		}
	}
	buf := &bytes.Buffer{}
	if err := m.SaveSessions(buf); err != nil {
		panic(err)
	}
	return m, buf.Bytes()
}

// ---------------------------------------------------------------------------
// segmentation

// Segments turns sorted cut offsets into consecutive slices of data.
func Segments(data []byte, cuts []int) [][]byte {
	cs := append([]int{}, cuts...)
	sort.Ints(cs)
	out := make([][]byte, 0, len(cs)+1)
	prev := 0
	for _, c := range cs {
		if c < prev {
			continue
		}
		if c > len(data) {
			c = len(data)
		}
		out = append(out, data[prev:c]) // may be empty: zero length writes are legal
		prev = c
	}
	out = append(out, data[prev:])
	return out
}

// ---------------------------------------------------------------------------
// writing, as snapshotter.Save composes it

// WriterFactory creates the snapshot writer (V2: rsm.NewSnapshotWriter; V1: the
// unexported versioned writer through the in-package bridge).
type WriterFactory func(fp string, ct pb.CompressionType, fs vfs.IFS) (*rsm.SnapshotWriter, error)

// Saved is what snapshotter.Save records about the written file.
type Saved struct {
	FileSize uint64
	Checksum []byte
	Total    uint64 // bytes that went into the versioned writer
}

func compressionType(ct pb.CompressionType) dio.CompressionType {
	switch ct {
	case pb.NoCompression:
		return dio.NoCompression
	case pb.Snappy:
		return dio.Snappy
	default:
		panic(fmt.Sprintf("unknown compression type: %d", ct))
	}
}

// SaveFile mirrors snapshotter.Save + NativeSM.save: session bytes first, then
// the state machine's writes (one Write call per segment).
func SaveFile(fs vfs.IFS, fp string, mk WriterFactory, ct pb.CompressionType,
	session []byte, segs [][]byte) (sv Saved, err error) {
	w, err := mk(fp, ct, fs)
	if err != nil {
		return Saved{}, err
	}
	cw := dio.NewCountedWriter(w)
	sw := dio.NewCompressor(compressionType(ct), cw)
	werr := func() error {
		if _, err := sw.Write(session); err != nil {
			return err
		}
		for _, s := range segs {
			n, err := sw.Write(s)
			if err != nil {
				return err
			}
			if n != len(s) {
				return io.ErrShortWrite
			}
		}
		return nil
	}()
	cerr := sw.Close()
	if werr != nil {
		return Saved{}, werr
	}
	if cerr != nil {
		return Saved{}, cerr
	}
	total := cw.BytesWritten()
	return Saved{
		Total:    total,
		Checksum: w.GetPayloadChecksum(),
		FileSize: w.GetPayloadSize(total) + rsm.HeaderSize,
	}, nil
}

// ---------------------------------------------------------------------------
// loading, as snapshotter.Load composes it

// ErrSessionRecordTooLarge is returned by the guarded session loader where
// the real loader would try to allocate an absurd record (and then die from
// out-of-memory, panic in makeslice or fail with an unexpected EOF).
var ErrSessionRecordTooLarge = errors.New("vf: session record length beyond any generated stream")

// GuardedSessions is an rsm.ILoadable that reads the session framing with
// bounded allocations, records the consumed bytes and then hands exactly those
// bytes to a real rsm.SessionManager.
type GuardedSessions struct {
	Real     *rsm.SessionManager
	Consumed []byte
	Called   bool
	Done     bool
}

// LoadSessions implements rsm.ILoadable.
func (g *GuardedSessions) LoadSessions(r io.Reader, v rsm.SSVersion) error {
	g.Called = true
	buf := &bytes.Buffer{}
	defer func() { g.Consumed = buf.Bytes() }()
	b8 := make([]byte, 8)
	rd := func() (uint64, error) {
		n, err := io.ReadFull(r, b8)
		buf.Write(b8[:n])
		if err != nil {
			return 0, err
		}
		return binary.LittleEndian.Uint64(b8), nil
	}
	if _, err := rd(); err != nil {
		return err
	}
	total, err := rd()
	if err != nil {
		return err
	}
	for i := uint64(0); i < total; i++ {
		l, err := rd()
		if err != nil {
			return err
		}
		if l > maxSessionRecord {
			return ErrSessionRecordTooLarge
		}
		data := make([]byte, l)
		n, err := io.ReadFull(r, data)
		buf.Write(data[:n])
		if err != nil {
			return err
		}
	}
	if err := g.Real.LoadSessions(bytes.NewReader(buf.Bytes()), v); err != nil {
		return err
	}
	g.Done = true
	return nil
}

// RecordingSM is the recording state machine side of the loader (what
// NativeSM.Recover hands to the user state machine).
type RecordingSM struct {
	ReadSizes []int // sizes of the first Read calls
	Full      bool  // use io.ReadFull for each size instead of a single Read
	Got       []byte
	Called    bool
	Done      bool
}

// Recover reads the whole stream with the generated read segmentation.
func (s *RecordingSM) Recover(r io.Reader) error {
	s.Called = true
	out := &bytes.Buffer{}
	defer func() { s.Got = out.Bytes() }()
	for _, n := range s.ReadSizes {
		b := make([]byte, n)
		var m int
		var err error
		if s.Full {
			m, err = io.ReadFull(r, b)
		} else {
			m, err = r.Read(b)
		}
		out.Write(b[:m])
		if err == io.EOF || err == io.ErrUnexpectedEOF {
			s.Done = true
			return nil
		}
		if err != nil {
			return err
		}
	}
	b := make([]byte, 256<<10)
	for {
		m, err := r.Read(b)
		out.Write(b[:m])
		if err == io.EOF {
			s.Done = true
			return nil
		}
		if err != nil {
			return err
		}
	}
}

// Loaded is the outcome of one load.
type Loaded struct {
	Err      error
	Panic    interface{}
	Header   pb.SnapshotHeader
	Sessions *GuardedSessions
	SM       *RecordingSM
}

// Failed tells whether the load failed (error or panic).
func (l Loaded) Failed() bool { return l.Err != nil || l.Panic != nil }

// Why renders the failure.
func (l Loaded) Why() string {
	if l.Panic != nil {
		return fmt.Sprintf("panic: %v", l.Panic)
	}
	if l.Err != nil {
		return fmt.Sprintf("error: %v", l.Err)
	}
	return "ok"
}

func firstError(a, b error) error {
	if a != nil {
		return a
	}
	return b
}

// LoadFile mirrors snapshotter.Load: reader -> decompressor -> session loader
// -> state machine, Close deferred. A panic anywhere (including the deferred
// Close) is recovered and reported as a fail-stop outcome.
func LoadFile(fs vfs.IFS, fp string, readSizes []int, full bool) (res Loaded) {
	res.Sessions = &GuardedSessions{Real: rsm.NewSessionManager()}
	res.SM = &RecordingSM{ReadSizes: readSizes, Full: full}
	defer func() {
		if r := recover(); r != nil {
			res.Panic = r
		}
	}()
	res.Err = func() (err error) {
		reader, header, err := rsm.NewSnapshotReader(fp, fs)
		if err != nil {
			return err
		}
		res.Header = header
		ct := compressionType(header.CompressionType)
		cr := dio.NewDecompressor(ct, reader)
		defer func() {
			err = firstError(err, cr.Close())
		}()
		v := rsm.SSVersion(header.Version)
		if err := res.Sessions.LoadSessions(cr, v); err != nil {
			return err
		}
		if err := res.SM.Recover(cr); err != nil {
			return err
		}
		return nil
	}()
	return res
}

// ---------------------------------------------------------------------------
// in-memory file helpers

// ReadFile returns the content of a file.
func ReadFile(fs vfs.IFS, fp string) ([]byte, error) {
	f, err := fs.Open(fp)
	if err != nil {
		return nil, err
	}
	defer f.Close()
	st, err := f.Stat()
	if err != nil {
		return nil, err
	}
	out := make([]byte, st.Size())
	if len(out) == 0 {
		return out, nil
	}
	if _, err := f.ReadAt(out, 0); err != nil && err != io.EOF {
		return nil, err
	}
	return out, nil
}

// WriteFile creates/overwrites a file.
func WriteFile(fs vfs.IFS, fp string, data []byte) error {
	f, err := fs.Create(fp)
	if err != nil {
		return err
	}
	if _, err := f.Write(data); err != nil {
		_ = f.Close()
		return err
	}
	return f.Close()
}

// Flip returns a copy of data with one bit flipped.
func Flip(data []byte, bit int) []byte {
	out := append([]byte{}, data...)
	out[bit/8] ^= 1 << uint(bit%8)
	return out
}

// ---------------------------------------------------------------------------
// layout of a snapshot file

var headerFieldNames = map[uint64]string{
	1: "session_size", 2: "data_store_size", 3: "unreliable_time", 4: "git_version",
	5: "header_checksum", 6: "payload_checksum", 7: "checksum_type", 8: "version",
	9: "compression_type",
}

// Span is a named byte range.
type Span struct {
	Name       string
	Start, End int
}

// Layout describes which bytes of a snapshot file are what.
type Layout struct {
	RecLen int
	Spans  []Span // sorted, covering the whole file
	Blocks int
}

// Region names the region a byte offset belongs to.
func (l Layout) Region(off int) string {
	i := sort.Search(len(l.Spans), func(i int) bool { return l.Spans[i].End > off })
	if i < len(l.Spans) && l.Spans[i].Start <= off {
		return l.Spans[i].Name
	}
	return "unknown"
}

// ParseLayout computes the layout of a pristine file.
func ParseLayout(file []byte, v2 bool) Layout {
	var l Layout
	add := func(name string, s, e int) {
		if e > s {
			l.Spans = append(l.Spans, Span{name, s, e})
		}
	}
	add("hdr-len", 0, 8)
	rl := int(binary.LittleEndian.Uint64(file))
	l.RecLen = rl
	rec := file[8 : 8+rl]
	pos := 0
	for pos < len(rec) {
		start := pos
		tag, n := binary.Uvarint(rec[pos:])
		if n <= 0 {
			panic("bad header record")
		}
		pos += n
		name := headerFieldNames[tag>>3]
		add("hdr-rec/"+name+"/tag", 8+start, 8+pos)
		switch tag & 7 {
		case 0:
			_, n := binary.Uvarint(rec[pos:])
			add("hdr-rec/"+name+"/value", 8+pos, 8+pos+n)
			pos += n
		case 2:
			ln, n := binary.Uvarint(rec[pos:])
			add("hdr-rec/"+name+"/len", 8+pos, 8+pos+n)
			pos += n
			add("hdr-rec/"+name+"/value", 8+pos, 8+pos+int(ln))
			pos += int(ln)
		default:
			panic("unexpected wire type")
		}
	}
	add("hdr-crcslot", 8+rl, 12+rl)
	add("hdr-padding", 12+rl, HeaderSize)
	if !v2 {
		add("v1-payload", HeaderSize, len(file))
		return l
	}
	body := len(file) - HeaderSize - TailSize
	off := HeaderSize
	for body > 0 {
		n := BlockSize + CRCSize
		if body < n {
			n = body
		}
		add(fmt.Sprintf("block-data"), off, off+n-CRCSize)
		add(fmt.Sprintf("block-crc"), off+n-CRCSize, off+n)
		off += n
		body -= n
		l.Blocks++
	}
	add("tail-total", off, off+8)
	add("tail-magic", off+8, off+16)
	return l
}

// BoundaryOffsets returns the byte offsets of a file that sit on structural
// boundaries (first/last byte of each block's data, every CRC byte, the byte
// after, the 16 tail bytes, last byte of the file).
func (l Layout) BoundaryOffsets(fileLen int) []int {
	seen := map[int]bool{}
	var out []int
	put := func(o int) {
		if o >= HeaderSize && o < fileLen && !seen[o] {
			seen[o] = true
			out = append(out, o)
		}
	}
	for _, s := range l.Spans {
		if s.Start < HeaderSize {
			continue
		}
		switch s.Name {
		case "block-data", "v1-payload":
			put(s.Start)
			put(s.Start + 1)
			put(s.End - 2)
			put(s.End - 1)
		default:
			for o := s.Start; o < s.End; o++ {
				put(o)
			}
		}
	}
	put(fileLen - 1)
	sort.Ints(out)
	return out
}

// ---------------------------------------------------------------------------
// streaming path, as snapshotter.Stream + NativeSM.Stream compose it

// RecSink is a recording pb.IChunkSink.
type RecSink struct {
	Chunks   []pb.Chunk
	Closed   int
	Shard    uint64
	To       uint64
	FailAt   int // Receive returns (false,false) for this chunk number when > 0
	Received int
}

// Receive implements pb.IChunkSink.
func (s *RecSink) Receive(c pb.Chunk) (bool, bool) {
	s.Received++
	if s.FailAt > 0 && s.Received == s.FailAt {
		return false, false
	}
	s.Chunks = append(s.Chunks, c)
	return true, false
}

// Close implements pb.IChunkSink.
func (s *RecSink) Close() error { s.Closed++; return nil }

// ShardID implements pb.IChunkSink.
func (s *RecSink) ShardID() uint64 { return s.Shard }

// ToReplicaID implements pb.IChunkSink.
func (s *RecSink) ToReplicaID() uint64 { return s.To }

// StreamChunks mirrors snapshotter.Stream with NativeSM.Stream: an empty LRU
// session, then the state machine's writes, through the compressor into the
// chunk writer.
func StreamChunks(sink *RecSink, meta rsm.SSMeta, segs [][]byte) error {
	return StreamTo(sink, meta, segs)
}

// StreamTo is StreamChunks for any chunk sink (e.g. the Sink of a real
// transport streaming job).
func StreamTo(sink pb.IChunkSink, meta rsm.SSMeta, segs [][]byte) error {
	ct := compressionType(meta.CompressionType)
	cw := dio.NewCompressor(ct, rsm.NewChunkWriter(sink, meta))
	if _, err := cw.Write(rsm.GetEmptyLRUSession()); err != nil {
		_ = sink.Close()
		return err
	}
	for _, s := range segs {
		if _, err := cw.Write(s); err != nil {
			_ = sink.Close()
			return err
		}
	}
	return cw.Close()
}

// StreamVerdict is the outcome of feeding a chunk list to the validator the
// way transport.Chunk does.
type StreamVerdict struct {
	Accepted bool
	Panic    interface{}
	Where    string
}

// ValidateChunks feeds the data of the chunks to a fresh SnapshotValidator in
// the way transport.Chunk does (AddChunk per chunk, Validate when done).
func ValidateChunks(datas [][]byte) (v StreamVerdict) {
	defer func() {
		if r := recover(); r != nil {
			v.Accepted = false
			v.Panic = r
			v.Where = "panic"
		}
	}()
	val := rsm.NewSnapshotValidator()
	for i, d := range datas {
		if !val.AddChunk(d, uint64(i)) {
			return StreamVerdict{Where: fmt.Sprintf("addchunk-%d", i)}
		}
	}
	if !val.Validate() {
		return StreamVerdict{Where: "validate"}
	}
	return StreamVerdict{Accepted: true}
}

// SplitFile splits file bytes the way the sender does for file based
// snapshots: consecutive pieces of chunkSize bytes, last one shorter.
func SplitFile(file []byte, chunkSize int) [][]byte {
	var out [][]byte
	for off := 0; off < len(file); off += chunkSize {
		e := off + chunkSize
		if e > len(file) {
			e = len(file)
		}
		out = append(out, file[off:e])
	}
	return out
}

// Concat joins chunk data.
func Concat(datas [][]byte) []byte {
	n := 0
	for _, d := range datas {
		n += len(d)
	}
	out := make([]byte, 0, n)
	for _, d := range datas {
		out = append(out, d...)
	}
	return out
}

// IsPrefix tells whether got is a prefix of want.
func IsPrefix(got, want []byte) bool {
	return len(got) <= len(want) && bytes.Equal(got, want[:len(got)])
}
