package snapio

import (
	"bytes"
	"fmt"
	"os"
	"path/filepath"
	"testing"

	"github.com/lni/dragonboat/v4/internal/rsm"
	"github.com/lni/dragonboat/v4/internal/vfhelp"
	"pgregory.net/rapid"
)

// TestVF_C14_Files covers rsm.Files (internal/rsm/files.go), the collection of
// external files a state machine adds while saving: PrepareFiles hard links
// them into the temporary snapshot directory and records size and final path.
// It works on the real file system (files.go uses package os directly).
func TestVF_C14_Files(t *testing.T) {
	st := vfhelp.NewStats("TestVF_C14_Files",
		"0-4 external files (generated ids, sizes 1..5000, metadata) added to rsm.Files and prepared into a temporary directory on the real file system; "+
			"non-trivial = at least 2 files")
	defer st.Flush()
	cwd, err := os.Getwd()
	if err != nil {
		t.Fatal(err)
	}
	n := 0
	rapid.Check(t, func(t *rapid.T) {
		n++
		base := filepath.Join(cwd, fmt.Sprintf("files-case-%d", n))
		_ = os.RemoveAll(base)
		defer os.RemoveAll(base)
		src, tmp, final := filepath.Join(base, "sm"), filepath.Join(base, "snapshot-1-5.generating"), filepath.Join(base, "snapshot-1")
		for _, d := range []string{src, tmp} {
			if err := os.MkdirAll(d, 0o755); err != nil {
				t.Fatalf("mkdir %v", err)
			}
		}
		fc := rsm.NewFileCollection()
		nf := rapid.IntRange(0, 4).Draw(t, "nfiles")
		type ext struct {
			id   uint64
			data []byte
			meta []byte
			path string
		}
		var exts []ext
		seen := map[uint64]bool{}
		for i := 0; i < nf; i++ {
			id := vfhelp.SmallU64().Draw(t, "fileid")
			for seen[id] {
				id++
			}
			seen[id] = true
			e := ext{id: id, meta: vfhelp.Bytes(16).Draw(t, "meta")}
			e.data = Payload{Kind: 2, Seed: id, Len: rapid.IntRange(1, 5000).Draw(t, "size")}.Bytes()
			e.path = filepath.Join(src, fmt.Sprintf("user-file-%d.dat", i))
			if err := os.WriteFile(e.path, e.data, 0o644); err != nil {
				t.Fatalf("write %v", err)
			}
			fc.AddFile(e.id, e.path, e.meta)
			exts = append(exts, e)
		}
		if fc.Size() != uint64(nf) {
			vfhelp.Fail(t, "c14-files-size", "Size() = %d, want %d", fc.Size(), nf)
		}
		// adding an id twice must be refused (fail-stop)
		if nf > 0 {
			func() {
				defer func() {
					if recover() == nil {
						vfhelp.Fail(t, "c14-files-duplicate-id-accepted", "AddFile accepted id %d twice", exts[0].id)
					}
				}()
				fc.AddFile(exts[0].id, exts[0].path, nil)
			}()
		}
		out, err := fc.PrepareFiles(tmp, final)
		if err != nil {
			vfhelp.Fail(t, "c14-files-prepare-error", "PrepareFiles: %v", err)
		}
		if len(out) != nf {
			vfhelp.Fail(t, "c14-files-count", "PrepareFiles returned %d files, want %d", len(out), nf)
		}
		for i, e := range exts {
			f := out[i]
			name := fmt.Sprintf("external-file-%d", e.id)
			if f.FileId != e.id || f.FileSize != uint64(len(e.data)) || !bytes.Equal(f.Metadata, e.meta) || f.Filepath != filepath.Join(final, name) {
				vfhelp.Fail(t, "c14-files-record-wrong", "file %d recorded as %+v, want id %d size %d path %s", i, f, e.id, len(e.data), filepath.Join(final, name))
			}
			got, err := os.ReadFile(filepath.Join(tmp, name))
			if err != nil || !bytes.Equal(got, e.data) {
				vfhelp.Fail(t, "c14-files-content", "prepared file %s differs from the source (%v)", name, err)
			}
			if g := fc.GetFileAt(uint64(i)); g != f {
				vfhelp.Fail(t, "c14-files-getfileat", "GetFileAt(%d) returns another record", i)
			}
		}
		ents, _ := os.ReadDir(tmp)
		if len(ents) != nf {
			vfhelp.Fail(t, "c14-files-extra-entries", "temporary directory holds %d entries, want %d", len(ents), nf)
		}
		st.Case([]byte(fmt.Sprintf("%v", exts)), nf >= 2, fmt.Sprintf("files=%d", nf))
		if nf >= 2 && st.WantSample() {
			ids := []uint64{}
			for _, e := range exts {
				ids = append(ids, e.id)
			}
			st.Sample(map[string]interface{}{"ids": ids})
		}
	})
}
