package snapio

import (
	"bytes"
	"fmt"
	"sort"
	"testing"

	"github.com/lni/dragonboat/v4/internal/rsm"
	"github.com/lni/dragonboat/v4/internal/vfhelp"
	"github.com/lni/dragonboat/v4/internal/vfs"
	pb "github.com/lni/dragonboat/v4/raftpb"
	"pgregory.net/rapid"
)

const ruleRoundTrip = "snapshot = generated sessions + payload (kind,seed,len; stream length classes 0/1/small/around 1, 2 and 3 blocks of 2 MiB; payloads of a block or more are written by a single Write, by two/three large Writes or by generated pieces), " +
	"written through the snapshotter.Save composition with generated write pieces, read back through the snapshotter.Load composition with generated read sizes, " +
	"compression on/off, caller buffers compared with pristine copies after writing, then shrunk+replaced; non-trivial = stream reaches a 2 MiB block boundary and a write or read piece ends within 8 bytes of it, or one Write call still holds a whole block when the writer reaches a block boundary inside it"

const ruleFlip = "one generated snapshot file per case; single bit flips: every bit of header length+record+CRC slot (sampled for files > 256 KiB), sampled padding bits, " +
	"one bit in each structural boundary byte of the payload (block ends, CRC bytes, tail; sampled for big files) and random payload bits, each loaded through the snapshotter.Load composition; " +
	"non-trivial = >= 2 blocks with a partial last block and a flip in a block CRC or the tail"

const ruleStream = "chunk stream = rsm.ChunkWriter output (streamed) or a SnapshotWriter file split at a generated chunk size (file based transfer); pristine stream must validate and load back; " +
	"3-8 perturbations per case (bit flips by region, cuts inside a chunk, prefix cuts, dropped last k / tail / middle chunks, duplicates, swaps) fed to rsm.SnapshotValidator as transport.Chunk does; " +
	"non-trivial = >= 2 blocks with partial last block and a perturbation touching CRC/tail or removing bytes"

func TestVF_C14_FileRoundTrip(t *testing.T) {
	st := vfhelp.NewStats("TestVF_C14_FileRoundTrip", ruleRoundTrip)
	defer st.Flush()
	rapid.Check(t, FileRoundTripHuge(st, V2Flavor(), 30, 13))
}

func TestVF_C14_FileFlip(t *testing.T) {
	st := vfhelp.NewStats("TestVF_C14_FileFlip", ruleFlip)
	defer st.Flush()
	rapid.Check(t, FileFlip(st, V2Flavor(), 22))
}

func TestVF_C14_HeaderExhaustive(t *testing.T) {
	st := vfhelp.NewStats("TestVF_C14_HeaderExhaustive",
		"small generated snapshot file (compression, sessions, payload <= 400 bytes); every one of the 8192 bits of the 1 KiB header region flipped and loaded; every case is non-trivial")
	defer st.Flush()
	table := map[string]map[string]int{}
	defer func() {
		st.Set("header_flip_outcomes_by_region", table)
		var undetected []string
		for k, v := range table {
			if v["accepted-harmless"] > 0 {
				undetected = append(undetected, k)
			}
		}
		sort.Strings(undetected)
		st.Set("regions_with_undetected_flips", undetected)
	}()
	rapid.Check(t, HeaderExhaustive(st, V2Flavor(), table))
}

func TestVF_C14_Stream(t *testing.T) {
	st := vfhelp.NewStats("TestVF_C14_Stream", ruleStream)
	defer st.Flush()
	rapid.Check(t, Stream(st, V2Flavor(), 25))
}

// TestVF_C14_ReproS7 is the minimal deterministic reproduction of the S7
// finding (no generated input); it reports through Stats.Known.
func TestVF_C14_ReproS7(t *testing.T) {
	st := vfhelp.NewStats("TestVF_C14_ReproS7", "one fixed scenario: minimal reproduction of the known finding of C14 (no generated input)")
	defer st.Flush()
	fl := V2Flavor()
	fs := vfs.NewMemFS()
	if err := fs.MkdirAll("/ss", 0o755); err != nil {
		t.Fatal(err)
	}
	fp := "/ss/snapshot-0000000000000001.gbsnap"
	payload := bytes.Repeat([]byte("dragonboat"), 100)
	session := rsm.GetEmptyLRUSession()
	if _, err := SaveFile(fs, fp, fl.Writer, pb.Snappy, session, [][]byte{payload}); err != nil {
		t.Fatal(err)
	}
	file, err := ReadFile(fs, fp)
	if err != nil {
		t.Fatal(err)
	}
	lay := ParseLayout(file, true)
	slot := file[8+lay.RecLen : 12+lay.RecLen]
	st.Set("header_crc_slot_of_file_written_snapshot", fmt.Sprintf("%x", slot))
	// the last byte of the header record is the compression type: Snappy (1) -> NoCompression (0)
	mut := Flip(file, (8+lay.RecLen-1)*8)
	verdict := ValidateChunks(SplitFile(mut, BlockSize))
	recv := "/ss/received.gbsnap"
	if err := WriteFile(fs, recv, mut); err != nil {
		t.Fatal(err)
	}
	l := LoadFile(fs, recv, nil, false)
	st.Set("validator_accepted", verdict.Accepted)
	st.Set("load_of_received_file", l.Why())
	st.Set("header_seen_by_reader", fmt.Sprintf("%+v", l.Header))
	switch {
	case !verdict.Accepted:
		st.Count("repro-s7-validator-rejects", 1)
	case !l.Failed():
		if !bytes.Equal(l.SM.Got, payload) {
			vfhelp.Fail(t, "c14-flip-altered-data-loaded", "altered data loaded")
		}
		st.Count("repro-s7-accepted-harmless", 1)
	default:
		st.Known(t, SigUnloadableAccepted,
			"minimal reproduction: snapshot file written by rsm.SnapshotWriter with Snappy compression, header CRC slot = %x; bit 0 of the compression type byte (file offset %d) flipped; "+
				"SnapshotValidator accepts the chunk stream; NewSnapshotReader accepts the header (%+v); loading fails only in the session loader: %s",
			slot, 8+lay.RecLen-1, l.Header, l.Why())
		st.Count("repro-s7-accepted-unloadable", 1)
	}
	st.Case([]byte("repro-s7"), false, "fixed-scenario")
}
