package logstore

import (
	"github.com/lni/vfs"
	"io"
	"log"

	"github.com/lni/dragonboat/v4/config"
	"github.com/lni/dragonboat/v4/internal/logdb"
	"github.com/lni/dragonboat/v4/internal/logdb/kv"
	"github.com/lni/dragonboat/v4/internal/logdb/kv/pebble"
	"github.com/lni/dragonboat/v4/internal/settings"
	"github.com/lni/dragonboat/v4/internal/tan"
	"github.com/lni/dragonboat/v4/logger"
	"github.com/lni/dragonboat/v4/raftio"
)

const (
	dataDir      = "/data/logdb"
	pebbleShards = 2
)

func nhConfig(fs vfs.FS) config.NodeHostConfig {
	expert := config.GetDefaultExpertConfig()
	expert.LogDB = config.GetTinyMemLogDBConfig()
	expert.LogDB.Shards = pebbleShards
	// 1 MiB memtables: generated workloads stay far below it, so Pebble never
	// flushes or compacts on its own while a case runs
	expert.LogDB.KVWriteBufferSize = 1024 * 1024
	expert.FS = fs
	return config.NodeHostConfig{Expert: expert}
}

// kvWrap lets a test interpose on the kv store of every Pebble shard.
type kvWrap func(kv.IKVStore) kv.IKVStore

// pebbleOpener opens the sharded Pebble store through logdb.NewLogDB with the
// harness' own kv.Factory (the default factory refuses wrapped file systems).
func pebbleOpener(batched bool, wrap kvWrap) Opener {
	return func(fs vfs.FS) (raftio.ILogDB, error) {
		f := func(c config.LogDBConfig, cb kv.LogDBCallback, dir string, wal string,
			ifs vfs.FS) (kv.IKVStore, error) {
			s, err := pebble.NewKVStore(c, cb, dir, wal, ifs)
			if err != nil || wrap == nil {
				return s, err
			}
			return wrap(s), nil
		}
		return logdb.NewLogDB(nhConfig(fs), nil, []string{dataDir}, []string{}, batched, false, f)
	}
}

func tanOpener(mux bool) Opener {
	return func(fs vfs.FS) (raftio.ILogDB, error) {
		cfg := nhConfig(fs)
		// tan uses KVWriteBufferSize only as the size of its marshal buffers
		cfg.Expert.LogDB.KVWriteBufferSize = 64 * 1024
		if mux {
			return tan.CreateLogMultiplexedTan(cfg, nil, []string{dataDir}, []string{})
		}
		return tan.CreateTan(cfg, nil, []string{dataDir}, []string{})
	}
}

func batchSize() uint64 { return settings.Hard.LogDBEntryBatchSize }

var (
	trPebblePlain   = Traits{Name: "pebble-plain", BatchSz: 48}
	trPebbleBatched = Traits{Name: "pebble-batched", Batched: true}
	trTanRegular    = Traits{Name: "tan-regular", Tan: true, BatchSz: 48}
	trTanMux        = Traits{Name: "tan-mux", Tan: true, Mux: true, BatchSz: 48}
)

func init() {
	// Pebble logs "background error: vfs: not supported" (MemFS has no disk
	// usage) through the standard logger on every open
	log.SetOutput(io.Discard)
	for _, name := range []string{"tan", "logdb", "pebblekv", "config", "settings", "dragonboat", "fileutil", "utils"} {
		logger.GetLogger(name).SetLevel(logger.ERROR)
	}
}
