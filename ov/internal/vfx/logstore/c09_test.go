package logstore

import (
	"testing"

	"pgregory.net/rapid"

	"github.com/lni/dragonboat/v4/internal/vfhelp"
)

func c09cfg() GenCfg {
	cfg := GenCfg{MaxEntries: 300, MinOps: 5, MaxOps: 60, NewLife: true,
		Weights: map[OpKind]int{OpRemoveNode: 5}}
	if !vfhelp.Thorough() {
		cfg.MaxOps = 40
	}
	return cfg
}

// allowKnown lets roughly one in n candidate calls of a known-finding shape
// through, and only when the finding is listed as known (otherwise the shape is
// always generated, so an unlisted finding is reported as a violation).
func allowKnown(sig string, n int) func(t *rapid.T) bool {
	return func(t *rapid.T) bool {
		if !vfhelp.IsKnown(sig) {
			return true
		}
		return rapid.IntRange(0, n-1).Draw(t, "allow-known") == 0
	}
}

func runC09Unit(t *testing.T, unit string, tr Traits, open Opener, cfg GenCfg) {
	st := vfhelp.NewStats(unit, C09Rule)
	defer st.Flush()
	st.Set("store", tr.Name)
	st.Set("batch_size", tr.BatchSz)
	if tr.Tan {
		cfg.AllowS3 = allowKnown(SigS3, 6)
		// records larger than tan's 32 KiB block, log files beyond the 128 KiB
		// index block size
		cfg.BigCmd, cfg.HugeCmd = true, true
	}
	if tr.Mux {
		cfg.AllowS2 = allowKnown(SigS2, 4)
	}
	rapid.Check(t, func(t *rapid.T) {
		RunC09(t, st, tr, open, cfg)
	})
}

func TestVF_C09_PebblePlain(t *testing.T) {
	runC09Unit(t, "TestVF_C09_PebblePlain", trPebblePlain, pebbleOpener(false, nil), c09cfg())
}

func TestVF_C09_PebbleBatched(t *testing.T) {
	tr := trPebbleBatched
	tr.BatchSz = batchSize()
	runC09Unit(t, "TestVF_C09_PebbleBatched", tr, pebbleOpener(true, nil), c09cfg())
}

// TestVF_C09_PebbleBatchedSmall runs with LogDBEntryBatchSize shrunk through
// dragonboat-hard-settings.json in the unit's working directory, so that most
// saves and reads span several batches.
func TestVF_C09_PebbleBatchedSmall(t *testing.T) {
	tr := trPebbleBatched
	tr.Name = "pebble-batched-small"
	tr.BatchSz = batchSize()
	if tr.BatchSz > 8 {
		t.Fatalf("VFINCONCLUSIVE dragonboat-hard-settings.json not applied: batch size %d", tr.BatchSz)
	}
	cfg := c09cfg()
	cfg.MaxEntries = 120
	runC09Unit(t, "TestVF_C09_PebbleBatchedSmall", tr, pebbleOpener(true, nil), cfg)
}

func TestVF_C09_TanRegular(t *testing.T) {
	runC09Unit(t, "TestVF_C09_TanRegular", trTanRegular, tanOpener(false), c09cfg())
}

func TestVF_C09_TanMux(t *testing.T) {
	runC09Unit(t, "TestVF_C09_TanMux", trTanMux, tanOpener(true), c09cfg())
}
