package logstore

import (
	"testing"

	"pgregory.net/rapid"

	"github.com/lni/dragonboat/v4/internal/vfhelp"
)

func c10cfg(tr Traits) CrashCfg {
	cfg := CrashCfg{
		Gen: GenCfg{MaxEntries: 120, MinOps: 5, MaxOps: 25,
			Weights: map[OpKind]int{OpImport: 6, OpRemoveNode: 5, OpRemoveEntries: 10, OpSaveSnapshots: 12}},
		Exhaustive: vfhelp.Thorough(),
		MaxPoints:  64,
	}
	if tr.Tan {
		cfg.Gen.BigCmd = true
	}
	if !tr.Tan {
		// Pebble's manual compaction flushes and compacts on background
		// goroutines: operation numbers would not be reproducible
		cfg.Gen.NoCompact = true
	}
	return cfg
}

func runC10CrashUnit(t *testing.T, unit string, tr Traits, open Opener) {
	st := vfhelp.NewStats(unit, C10CrashRule)
	defer st.Flush()
	cfg := c10cfg(tr)
	st.Set("store", tr.Name)
	st.Set("exhaustive", cfg.Exhaustive)
	rapid.Check(t, func(t *rapid.T) {
		c := cfg
		if tr.Tan {
			// half of the tan workloads avoid the trigger of known finding S9 so
			// that the search continues behind it
			c.Gen.NoCommitOnly = rapid.Bool().Draw(t, "no-commit-only")
		}
		RunC10Crash(t, st, tr, open, c)
	})
}

func TestVF_C10_Crash_PebblePlain(t *testing.T) {
	runC10CrashUnit(t, "TestVF_C10_Crash_PebblePlain", trPebblePlain, pebbleOpener(false, nil))
}

func TestVF_C10_Crash_PebbleBatched(t *testing.T) {
	tr := trPebbleBatched
	tr.BatchSz = batchSize()
	runC10CrashUnit(t, "TestVF_C10_Crash_PebbleBatched", tr, pebbleOpener(true, nil))
}

func TestVF_C10_Crash_TanRegular(t *testing.T) {
	runC10CrashUnit(t, "TestVF_C10_Crash_TanRegular", trTanRegular, tanOpener(false))
}

func TestVF_C10_Crash_TanMux(t *testing.T) {
	runC10CrashUnit(t, "TestVF_C10_Crash_TanMux", trTanMux, tanOpener(true))
}
