package logstore

import (
	"fmt"
	"strings"

	"github.com/lni/vfs"
	"pgregory.net/rapid"

	"github.com/lni/dragonboat/v4/internal/vfhelp"
)

// signatures of the known findings of engine E3
const (
	// SigS2: RemoveNodeData / ImportSnapshot on multiplexed tan deletes the log
	// files of the other shards sharing the db.
	SigS2 = "tan-mux-removenodedata-loses-other-shard"
	// SigS3: tan keeps reporting entries above a restore-type snapshot saved
	// through SaveRaftState.
	SigS3 = "tan-restore-snapshot-keeps-stale-entries"
	// SigS9: tan makes its index file durable (close, log rollover) without
	// syncing the log file first; a hard-state record written without fsync
	// (commit-only change) is then lost by a power cut while the durable index
	// still points to it: the replica's hard state reads back empty.
	SigS9 = "tan-crash-index-durable-before-log-synced"
	// SigS11: tan ImportSnapshot is not crash-atomic. It starts a new log file
	// without saving the index of the current one (a power cut before the next
	// manifest edit leaves two log files without index: open() panics forever
	// after), then drops all log files from the manifest before the record with
	// the imported snapshot is durable (a power cut there leaves the replica with
	// neither its old data nor the snapshot).
	SigS11 = "tan-crash-in-importsnapshot-not-atomic"
	// SigS12: sharded Pebble does not invalidate its per-node caches (snapshot
	// index, hard state, last entry batch) in RemoveNodeData; a new life of the
	// replica in the same process has its first saves filtered against the
	// removed life (snapshot record / state silently not written).
	SigS12 = "logdb-removenodedata-stale-cache-on-new-life"
)

// C09Rule is the generation / non-triviality rule reported in the evidence.
const C09Rule = "rapid model-based sequences over 2-4 (shard,replica) pairs on one store: SaveRaftState batches " +
	"(append / overwrite-from-above-commit with higher term / state / restore-type snapshot), SaveSnapshots, RemoveEntriesTo, " +
	"CompactEntriesTo, RemoveNodeData, ImportSnapshot, bootstrap, reopen, size-limited IterateEntries; every replica compared with " +
	"the reference log after every call. non-trivial = (overwrite that shortens the log, later reopen) or (restore-type snapshot, " +
	"later append, later reopen) or (RemoveNodeData, new life of the same replica, later reopen) or a size-limited/ranged read that straddles a batch boundary or entries written before and after " +
	"a reopen/log-file switch; distinct = hash of the rendered call sequence"

func history(ops []string) string {
	return "\n  calls:\n    " + strings.Join(ops, "\n    ")
}

type c09run struct {
	t   *rapid.T
	st  *vfhelp.Stats
	tr  Traits
	s   *Store
	m   *Model
	ops []string

	s2Victims map[int]bool
	known     string
}

// checkAll compares every replica with the model. It returns false when a known
// finding was tolerated (the case must end: store and model have diverged).
func (c *c09run) checkAll(after string) bool {
	for i, r := range c.m.Reps {
		mis := CheckReplica(c.s.DB, r, c.tr)
		if mis == nil {
			continue
		}
		msg := fmt.Sprintf("[%s] after %s: %s%s", c.tr.Name, after, mis.Msg, history(c.ops))
		if c.s2Victims[i] {
			if c.st.Known(c.t, SigS2, "%s", msg) {
				c.known = SigS2
				return false
			}
		}
		if c.tr.Tan && r.S3Stale && mis.Sig == "raftstate-entry-past-logical-end" {
			if c.st.Known(c.t, SigS3, "%s", msg) {
				c.known = SigS3
				return false
			}
		}
		vfhelp.Fail(c.t, c.tr.Name+"-"+mis.Sig, "%s", msg)
	}
	if mis := CheckNodeList(c.s.DB, c.m, false); mis != nil {
		vfhelp.Fail(c.t, c.tr.Name+"-"+mis.Sig, "[%s] after %s: %s%s", c.tr.Name, after, mis.Msg, history(c.ops))
	}
	return true
}

// RunC09 is the body of one C09 case: it generates a call sequence, executes
// it against a fresh store on a strict in-memory FS and compares the store with
// the reference model after every call.
func RunC09(t *rapid.T, st *vfhelp.Stats, tr Traits, open Opener, cfg GenCfg) {
	mem := vfs.NewStrictMem()
	s, err := OpenStore(mem, open)
	if err != nil {
		t.Fatalf("VFINCONCLUSIVE cannot open store: %v", err)
	}
	defer func() { _ = s.Close() }()
	labels := map[string]bool{}
	cfg.Count = func(l string) { st.Count(l, 1) }
	c := &c09run{t: t, st: st, tr: tr, s: s, m: GenModel(t, tr), s2Victims: map[int]bool{}}
	m := c.m
	nOps := rapid.IntRange(cfg.MinOps, cfg.MaxOps).Draw(t, "nops")

	// bookkeeping for the non-triviality rule
	shortened := map[int]bool{} // replica had an overwrite that shortened its log
	restored := map[int]int{}   // 1: restore seen, 2: append after it
	ntShortReopen, ntRestoreReopen, ntStraddle := false, false, false
	lifeStage := map[int]int{} // 1: node data removed, 2: written again (new life)
	ntNewLifeReopen := false

	for step := 0; step < nOps; step++ {
		o := GenOp(t, m, tr, &cfg)
		var victims []int
		if o.Kind == OpRemoveNode || o.Kind == OpImport {
			victims = m.S2Victims(o.Rep, o.Kind == OpImport, tr)
		}
		c.ops = append(c.ops, o.String())
		for _, l := range o.Labels {
			labels[l] = true
		}
		// classification that needs the model before the call
		if o.Kind == OpSave {
			for _, u := range o.Updates {
				r := m.find(u.ShardID, u.ReplicaID)
				idx := -1
				for i := range m.Reps {
					if m.Reps[i] == r {
						idx = i
					}
				}
				if n := len(u.EntriesToSave); n > 0 {
					if u.EntriesToSave[0].Index <= r.Last && u.Snapshot.Index == 0 &&
						u.EntriesToSave[n-1].Index < r.Last {
						shortened[idx] = true
					}
					if restored[idx] == 1 {
						restored[idx] = 2
					}
				}
				if u.Snapshot.Index > 0 {
					restored[idx] = 1
					if n := len(u.EntriesToSave); n > 0 {
						restored[idx] = 2
					}
				}
			}
		}
		if o.Kind == OpRemoveNode {
			lifeStage[o.Rep] = 1
		}
		if o.Kind == OpSave {
			for _, i := range m.Touched(o) {
				if lifeStage[i] == 1 && m.Reps[i].Removed {
					lifeStage[i] = 2
				}
			}
		}
		if o.Kind == OpReopen || o.Kind == OpImport {
			for _, v := range lifeStage {
				if v == 1 {
					labels["removed-then-reopen"] = true
				}
				if v == 2 {
					ntNewLifeReopen = true
				}
			}
		}
		if o.Kind == OpReopen || o.Kind == OpImport {
			for range shortened {
				ntShortReopen = true
			}
			for _, v := range restored {
				if v == 2 {
					ntRestoreReopen = true
				}
			}
		}
		if o.Kind == OpQuery {
			r := m.Reps[o.Rep]
			n, mis := QueryCheck(s.DB, r, o.Low, o.High, o.Max)
			if mis != nil {
				msg := fmt.Sprintf("[%s] %s%s", tr.Name, mis.Msg, history(c.ops))
				if c.s2Victims[o.Rep] && st.Known(t, SigS2, "%s", msg) {
					c.known = SigS2
					break
				}
				vfhelp.Fail(t, tr.Name+"-"+mis.Sig, "%s", msg)
			}
			want := int(o.High - o.Low)
			labels["query"] = true
			if n < want {
				labels["query-cut-by-size"] = true
			}
			if o.Max == 0 {
				labels["query-max-zero"] = true
			}
			straddle := false
			if want > 1 && o.Low/tr.BatchSz != (o.High-1)/tr.BatchSz {
				labels["query-straddles-batch"] = true
				if tr.Batched {
					straddle = true
				}
			}
			g0 := r.Gen[o.Low-r.First]
			for i := o.Low; i < o.High; i++ {
				if r.Gen[i-r.First] != g0 {
					labels["query-straddles-reopen"] = true
					straddle = true
					break
				}
			}
			if straddle && (n < want || want < int(r.Last-maxU(r.Marker+1, r.First)+1)) {
				ntStraddle = true
			}
			continue
		}
		err, panicked := s.ExecSafe(o, m)
		if err != nil {
			sig := "store-call-error"
			if panicked {
				sig = "store-call-panic"
			}
			msg := fmt.Sprintf("[%s] %s failed: %v%s", tr.Name, o.String(), err, history(c.ops))
			if len(victims) > 0 && st.Known(t, SigS2, "%s", msg) {
				c.known = SigS2
				break
			}
			vfhelp.Fail(t, tr.Name+"-"+sig, "%s", msg)
		}
		m.Apply(o, tr)
		if len(victims) > 0 {
			// known finding S2: the other shards' log files are removed by a
			// background worker; a reopen makes the loss deterministic
			for _, v := range victims {
				c.s2Victims[v] = true
			}
			labels["s2-shape"] = true
			c.ops = append(c.ops, "Reopen (forced after S2 shape)")
			if err := s.Reopen(); err != nil {
				msg := fmt.Sprintf("[%s] reopen after %s failed: %v%s", tr.Name, o.String(), err, history(c.ops))
				if st.Known(t, SigS2, "%s", msg) {
					c.known = SigS2
					break
				}
				vfhelp.Fail(t, tr.Name+"-reopen-error", "%s", msg)
			}
			m.Apply(Op{Kind: OpReopen}, tr)
		}
		if !c.checkAll(o.String()) {
			break
		}
	}
	if c.known != "" {
		labels["ended-by-known-"+c.known] = true
	}
	for l, on := range map[string]bool{
		"nt-overwrite-shorter-then-reopen": ntShortReopen,
		"nt-restore-append-reopen":         ntRestoreReopen,
		"nt-read-straddles-boundary":       ntStraddle,
		"nt-remove-newlife-reopen":         ntNewLifeReopen,
	} {
		if on {
			labels[l] = true
		}
	}
	nontrivial := ntShortReopen || ntRestoreReopen || ntStraddle || ntNewLifeReopen
	ls := make([]string, 0, len(labels))
	for l := range labels {
		ls = append(ls, l)
	}
	canon := strings.Join(c.ops, ";")
	pairs := make([]string, 0, len(m.Reps))
	for _, r := range m.Reps {
		pairs = append(pairs, r.ID())
	}
	canon = strings.Join(pairs, "") + "|" + canon
	st.Case([]byte(canon), nontrivial, ls...)
	if nontrivial && c.known == "" && st.WantSample() {
		st.Sample(map[string]interface{}{"store": tr.Name, "pairs": pairs, "calls": c.ops})
	}
}
