// Package logstore holds engine E3 of the /verif harnesses: a reference model of
// the logical raft log kept by a raftio.ILogDB, generators for store call
// sequences that real callers can produce, the oracle that compares a store with
// the model (properties C09 and C10), and the counting / crash / error-injecting
// vfs.FS wrapper used for crash-point enumeration.
//
// The package is overlay-only (it never exists in /repo). Its non-test files do
// not import internal/logdb or internal/tan so that in-package tests of those
// packages can import it without an import cycle; stores are passed in through
// the Opener type.
package logstore
