package logstore

import (
	"fmt"
	"sort"
	"strings"

	"github.com/lni/vfs"

	"github.com/lni/dragonboat/v4/raftio"
	pb "github.com/lni/dragonboat/v4/raftpb"
)

// Traits describes the store kind under test.
type Traits struct {
	Name    string
	Tan     bool
	Mux     bool // multiplexed tan: shards congruent mod 16 share one db
	Batched bool
	BatchSz uint64 // boundary value around which indexes / lengths are drawn
	Tiny    bool   // tan with a tiny MaxLogFileSize (rollover every few writes)
}

// Opener opens the store under test on the given file system.
type Opener func(fs vfs.FS) (raftio.ILogDB, error)

// ExecShards is the number of step workers assumed (engine default). All
// updates of one SaveRaftState call belong to shards congruent modulo it.
const ExecShards = 16

// Rep is the reference model of one (shard, replica) pair.
type Rep struct {
	Shard, Replica uint64

	First  uint64     // index of Log[0]
	Log    []pb.Entry // the logical log above the marker (contiguous)
	Gen    []int      // store generation (reopen count) each entry was written in
	Last   uint64     // logical last index (== snapshot index when the log is empty)
	Marker uint64     // queries start above it
	Snap   pb.Snapshot
	State  pb.State

	HasState bool
	Boot     *pb.Bootstrap
	Removed  bool
	// GoneLast is the highest index any removed life of the replica ever held
	// (RemoveNodeData must leave nothing of it behind); Lives counts the lives
	// started after a RemoveNodeData.
	GoneLast uint64
	Lives    int
	// RemovedGen is the store generation (reopen count) in which the node data
	// was removed.
	RemovedGen int
	Term       uint64 // highest term handed out by the generator
	Written    int    // entries written so far (budget)

	SnapGen, StateGen int

	// S3Stale: on tan, stale entries above a restore-type snapshot may be
	// reported until the next append (known finding S3); StaleLast is the last
	// index before the restore.
	S3Stale   bool
	StaleLast uint64

	// StateHist lists every hard state written so far. LagOK (set only on the
	// candidates of a crash validation) lets the recovered state be an earlier
	// one with the same term and vote: tan does not fsync a change of the commit
	// index alone (raft does not need a durable commit index).
	StateHist []pb.State
	LagOK     bool
}

// ID renders the pair.
func (r *Rep) ID() string { return fmt.Sprintf("(%d,%d)", r.Shard, r.Replica) }

// Commit is the commit index of the last saved state.
func (r *Rep) Commit() uint64 {
	if !r.HasState {
		return 0
	}
	return r.State.Commit
}

// HasData reports whether anything was stored for the replica.
func (r *Rep) HasData() bool {
	return r.HasState || r.Snap.Index > 0 || len(r.Log) > 0
}

func (r *Rep) clone() *Rep {
	c := *r
	c.Log = append([]pb.Entry(nil), r.Log...)
	c.Gen = append([]int(nil), r.Gen...)
	c.StateHist = append([]pb.State(nil), r.StateHist...)
	if r.Boot != nil {
		b := *r.Boot
		c.Boot = &b
	}
	return &c
}

// Entry returns the model entry at index.
func (r *Rep) Entry(index uint64) pb.Entry {
	return r.Log[index-r.First]
}

// TermAt returns the term of the model entry at index (0 if not in Log).
func (r *Rep) TermAt(index uint64) uint64 {
	if index < r.First || index >= r.First+uint64(len(r.Log)) {
		return 0
	}
	return r.Log[index-r.First].Term
}

func (r *Rep) truncateFrom(index uint64) {
	if len(r.Log) == 0 || index >= r.First+uint64(len(r.Log)) {
		return
	}
	if index <= r.First {
		r.Log, r.Gen = nil, nil
		return
	}
	r.Log = r.Log[:index-r.First]
	r.Gen = r.Gen[:index-r.First]
}

func (r *Rep) resetLogAt(index uint64) {
	r.Log, r.Gen = nil, nil
	r.First = index + 1
	r.Last = index
}

// Model is the reference model of everything kept in one store.
type Model struct {
	Reps []*Rep
	Gen  int // incremented by every reopen
}

// Clone returns a deep copy.
func (m *Model) Clone() *Model {
	c := &Model{Gen: m.Gen}
	for _, r := range m.Reps {
		c.Reps = append(c.Reps, r.clone())
	}
	return c
}

// OpKind enumerates store calls.
type OpKind int

// store call kinds
const (
	OpSave OpKind = iota + 1
	OpSaveSnapshots
	OpRemoveEntries
	OpCompact
	OpRemoveNode
	OpImport
	OpBootstrap
	OpReopen
	OpQuery
)

var opNames = map[OpKind]string{
	OpSave: "SaveRaftState", OpSaveSnapshots: "SaveSnapshots", OpRemoveEntries: "RemoveEntriesTo",
	OpCompact: "CompactEntriesTo", OpRemoveNode: "RemoveNodeData", OpImport: "ImportSnapshot",
	OpBootstrap: "SaveBootstrapInfo", OpReopen: "Reopen", OpQuery: "IterateEntries",
}

// Op is one generated store call.
type Op struct {
	Kind    OpKind
	Updates []pb.Update // OpSave, OpSaveSnapshots
	Worker  uint64      // OpSave
	Rep     int         // index into Model.Reps for single-replica calls
	Index   uint64      // OpRemoveEntries, OpCompact
	Snap    pb.Snapshot // OpImport
	Boot    pb.Bootstrap
	Low     uint64 // OpQuery
	High    uint64
	Max     uint64
	Labels  []string
}

func renderEntries(ents []pb.Entry) string {
	if len(ents) == 0 {
		return "-"
	}
	var b strings.Builder
	fmt.Fprintf(&b, "%d..%d terms[", ents[0].Index, ents[len(ents)-1].Index)
	pt := uint64(0)
	for i, e := range ents {
		if i == 0 || e.Term != pt {
			if i > 0 {
				b.WriteByte(' ')
			}
			fmt.Fprintf(&b, "%d@%d", e.Term, e.Index)
			pt = e.Term
		}
	}
	b.WriteString("] sz")
	sz := 0
	for _, e := range ents {
		sz += len(e.Cmd)
	}
	fmt.Fprintf(&b, "%d", sz)
	return b.String()
}

func renderUpdate(u pb.Update) string {
	s := fmt.Sprintf("{(%d,%d)", u.ShardID, u.ReplicaID)
	if !pb.IsEmptyState(u.State) {
		s += fmt.Sprintf(" st(t%d v%d c%d)", u.State.Term, u.State.Vote, u.State.Commit)
	}
	if u.Snapshot.Index > 0 {
		s += fmt.Sprintf(" ss(%d t%d)", u.Snapshot.Index, u.Snapshot.Term)
	}
	if len(u.EntriesToSave) > 0 {
		s += " ents " + renderEntries(u.EntriesToSave)
	}
	return s + "}"
}

// String renders the call (used as canonical encoding and in samples).
func (o Op) String() string {
	switch o.Kind {
	case OpSave, OpSaveSnapshots:
		parts := make([]string, 0, len(o.Updates))
		for _, u := range o.Updates {
			parts = append(parts, renderUpdate(u))
		}
		return fmt.Sprintf("%s(w%d %s)", opNames[o.Kind], o.Worker, strings.Join(parts, " "))
	case OpRemoveEntries, OpCompact:
		return fmt.Sprintf("%s(#%d, %d)", opNames[o.Kind], o.Rep, o.Index)
	case OpRemoveNode:
		return fmt.Sprintf("%s(#%d)", opNames[o.Kind], o.Rep)
	case OpImport:
		return fmt.Sprintf("Reopen;ImportSnapshot(#%d, ss(%d t%d));Reopen", o.Rep, o.Snap.Index, o.Snap.Term)
	case OpBootstrap:
		return fmt.Sprintf("%s(#%d, join=%v n=%d)", opNames[o.Kind], o.Rep, o.Boot.Join, len(o.Boot.Addresses))
	case OpQuery:
		return fmt.Sprintf("%s(#%d, [%d,%d) max %d)", opNames[o.Kind], o.Rep, o.Low, o.High, o.Max)
	}
	return opNames[o.Kind]
}

// applyUpdate applies one Update of a SaveRaftState call to the replica model.
func (m *Model) applyUpdate(r *Rep, u pb.Update, tr Traits) {
	if r.Removed {
		// a new life of a replica whose node data was removed
		r.Removed = false
		r.Lives++
	}
	if !pb.IsEmptyState(u.State) {
		r.State = u.State
		r.HasState = true
		r.StateGen = m.Gen
		r.StateHist = append(r.StateHist, u.State)
		if u.State.Term > r.Term {
			r.Term = u.State.Term
		}
	}
	if u.Snapshot.Term > r.Term {
		r.Term = u.Snapshot.Term
	}
	if n := len(u.EntriesToSave); n > 0 && u.EntriesToSave[n-1].Term > r.Term {
		r.Term = u.EntriesToSave[n-1].Term
	}
	if u.Snapshot.Index > 0 {
		// a snapshot record delivered through SaveRaftState is a restore
		prevLast := r.Last
		if u.Snapshot.Index > r.Snap.Index {
			r.Snap = u.Snapshot
			r.SnapGen = m.Gen
		}
		r.resetLogAt(u.Snapshot.Index)
		if u.Snapshot.Index > r.Marker {
			r.Marker = u.Snapshot.Index
		}
		if tr.Tan && prevLast > u.Snapshot.Index && len(u.EntriesToSave) == 0 {
			r.S3Stale = true
			r.StaleLast = prevLast
		}
	}
	if n := len(u.EntriesToSave); n > 0 {
		f := u.EntriesToSave[0].Index
		r.truncateFrom(f)
		if len(r.Log) == 0 {
			r.First = f
		}
		for _, e := range u.EntriesToSave {
			r.Log = append(r.Log, e)
			r.Gen = append(r.Gen, m.Gen)
		}
		r.Last = u.EntriesToSave[n-1].Index
		r.Written += n
		r.S3Stale = false
	}
}

func (m *Model) find(shard, replica uint64) *Rep {
	for _, r := range m.Reps {
		if r.Shard == shard && r.Replica == replica {
			return r
		}
	}
	return nil
}

// Apply applies a call to the model.
func (m *Model) Apply(o Op, tr Traits) {
	switch o.Kind {
	case OpSave:
		for _, u := range o.Updates {
			m.applyUpdate(m.find(u.ShardID, u.ReplicaID), u, tr)
		}
	case OpSaveSnapshots:
		for _, u := range o.Updates {
			r := m.find(u.ShardID, u.ReplicaID)
			if u.Snapshot.Index > r.Snap.Index {
				r.Snap = u.Snapshot
				r.SnapGen = m.Gen
			}
		}
	case OpRemoveEntries:
		r := m.Reps[o.Rep]
		if o.Index > r.Marker {
			r.Marker = o.Index
		}
	case OpCompact, OpQuery:
	case OpRemoveNode:
		r := m.Reps[o.Rep]
		gone := maxU(r.GoneLast, maxU(r.Last, r.StaleLast))
		*r = Rep{Shard: r.Shard, Replica: r.Replica, Removed: true, Term: r.Term, Written: r.Written, First: 1,
			GoneLast: gone, Lives: r.Lives, RemovedGen: m.Gen}
	case OpImport:
		m.Gen++ // reopen before
		r := m.Reps[o.Rep]
		r.Snap = o.Snap
		r.SnapGen = m.Gen
		r.State = pb.State{Term: o.Snap.Term, Commit: o.Snap.Index}
		r.StateHist = append(r.StateHist, r.State)
		r.HasState = true
		r.StateGen = m.Gen
		r.resetLogAt(o.Snap.Index)
		r.Marker = o.Snap.Index
		r.Boot = &pb.Bootstrap{Join: true, Type: o.Snap.Type}
		r.S3Stale = false
		if o.Snap.Term > r.Term {
			r.Term = o.Snap.Term
		}
		m.Gen++ // reopen after
	case OpBootstrap:
		b := o.Boot
		m.Reps[o.Rep].Boot = &b
	case OpReopen:
		m.Gen++
	}
}

// Touched lists the indexes of the replicas a call writes to.
func (m *Model) Touched(o Op) []int {
	var out []int
	switch o.Kind {
	case OpSave, OpSaveSnapshots:
		for _, u := range o.Updates {
			for i, r := range m.Reps {
				if r.Shard == u.ShardID && r.Replica == u.ReplicaID {
					out = append(out, i)
				}
			}
		}
	case OpRemoveEntries, OpCompact, OpRemoveNode, OpImport, OpBootstrap:
		out = append(out, o.Rep)
	}
	sort.Ints(out)
	return out
}

// SameDB reports whether two replicas share a multiplexed tan db.
func SameDB(a, b *Rep) bool { return a.Shard%16 == b.Shard%16 }

// S2Victims lists the replicas whose data a RemoveNodeData / ImportSnapshot of
// replica idx destroys on multiplexed tan (known finding S2): every other
// replica of the same db with live data in a log file older than the current
// one. ImportSnapshot always starts a new log file first.
func (m *Model) S2Victims(idx int, isImport bool, tr Traits) []int {
	if !tr.Mux {
		return nil
	}
	var out []int
	me := m.Reps[idx]
	for i, r := range m.Reps {
		if i == idx || !SameDB(me, r) || !r.HasData() {
			continue
		}
		// with tiny log files a rollover can have moved the data to an older file
		// at any time
		old := isImport || tr.Tiny
		if r.HasState && r.StateGen < m.Gen {
			old = true
		}
		if r.Snap.Index > 0 && r.SnapGen < m.Gen {
			old = true
		}
		for j, g := range r.Gen {
			if g < m.Gen && r.First+uint64(j) > r.Marker {
				old = true
				break
			}
		}
		if old {
			out = append(out, i)
		}
	}
	return out
}
