package logstore

import (
	"errors"
	"fmt"
	"strings"
	"testing"

	"github.com/lni/vfs"

	"github.com/lni/dragonboat/v4/internal/logdb/kv"
	"github.com/lni/dragonboat/v4/internal/vfhelp"
	"github.com/lni/dragonboat/v4/raftio"
	pb "github.com/lni/dragonboat/v4/raftpb"
)

// TestVF_C10_ReproS1 is the minimal reproduction of known finding S1, without
// rapid: the kv store fails the snapshot-listing read of a SaveRaftState that
// carries a snapshot record (and of a SaveSnapshots); both calls return nil and
// a reopened store shows that nothing was saved.
func TestVF_C10_ReproS1(t *testing.T) {
	st := vfhelp.NewStats("TestVF_C10_ReproS1", "fixed reproduction of S1 (logdb saveSnapshot error swallowed)")
	defer st.Flush()
	st.Set("exhaustive", true) // fixed case(s), nothing sampled
	for _, viaSaveSnapshots := range []bool{false, true} {
		mem := vfs.NewStrictMem()
		f := &kvFault{}
		open := pebbleOpener(false, func(s kv.IKVStore) kv.IKVStore { return &faultKV{IKVStore: s, f: f} })
		db := mustOpen(t, mem, open)
		must(t, db.SaveRaftState([]pb.Update{
			{ShardID: 1, ReplicaID: 1, State: pb.State{Term: 1, Commit: 5}, EntriesToSave: mkEntries(1, 10, 1)},
		}, 2))
		ss := pb.Snapshot{Index: 20, Term: 2, ShardID: 1, Type: pb.RegularStateMachine}
		f.arm(1) // the first kv call of the next save fails
		var err error
		if viaSaveSnapshots {
			err = db.SaveSnapshots([]pb.Update{{ShardID: 1, ReplicaID: 1, Snapshot: ss}})
		} else {
			err = db.SaveRaftState([]pb.Update{{ShardID: 1, ReplicaID: 1, State: pb.State{Term: 2, Vote: 3, Commit: 20},
				Snapshot: ss, EntriesToSave: mkEntries(21, 22, 2)}}, 2)
		}
		_, failedOp := f.disarm()
		must(t, db.Close())
		db = mustOpen(t, mem, pebbleOpener(false, nil))
		got, gerr := db.GetSnapshot(1, 1)
		must(t, gerr)
		rs, rerr := db.ReadRaftState(1, 1, got.Index)
		must(t, rerr)
		must(t, db.Close())
		t.Logf("viaSaveSnapshots=%v: injected failure in %s, save returned %v; after reopen snapshot index %d, state %+v, first %d count %d",
			viaSaveSnapshots, failedOp, err, got.Index, rs.State, rs.FirstIndex, rs.EntryCount)
		st.Case([]byte(fmt.Sprintf("s1-%v", viaSaveSnapshots)), true, "repro")
		if failedOp != "IterateValue" {
			t.Fatalf("expected the snapshot listing (IterateValue) to be the first kv call, got %q", failedOp)
		}
		if err == nil && got.Index != 20 {
			st.Known(t, SigS1, "kv IterateValue failed inside the save, the save returned nil, after reopen: snapshot index %d "+
				"(want 20), state %+v, entries first %d count %d", got.Index, rs.State, rs.FirstIndex, rs.EntryCount)
		}
	}
}

// TestVF_C10_ReproS10 is the minimal reproduction of known finding S10: batched
// format, entries 1..10 saved, store reopened (cold cache), the read of the
// stored batch fails while entry 11 is saved: the save returns nil and entries
// 1..10 are gone.
func TestVF_C10_ReproS10(t *testing.T) {
	st := vfhelp.NewStats("TestVF_C10_ReproS10", "fixed reproduction of S10 (batched getBatchFromDB error swallowed)")
	defer st.Flush()
	st.Set("exhaustive", true) // fixed case(s), nothing sampled
	mem := vfs.NewStrictMem()
	f := &kvFault{}
	open := pebbleOpener(true, func(s kv.IKVStore) kv.IKVStore { return &faultKV{IKVStore: s, f: f} })
	db := mustOpen(t, mem, open)
	must(t, db.SaveRaftState([]pb.Update{
		{ShardID: 1, ReplicaID: 1, State: pb.State{Term: 1, Commit: 5}, EntriesToSave: mkEntries(1, 10, 1)},
	}, 2))
	must(t, db.Close())
	db = mustOpen(t, mem, open)
	f.arm(1)
	var err error
	func() {
		// a panic on the calling goroutine is an accepted way for a save to fail
		defer func() {
			if p := recover(); p != nil {
				err = fmt.Errorf("panic: %v", p)
			}
		}()
		err = db.SaveRaftState([]pb.Update{
			{ShardID: 1, ReplicaID: 1, State: pb.State{Term: 1, Commit: 6}, EntriesToSave: mkEntries(11, 11, 1)},
		}, 2)
	}()
	_, failedOp := f.disarm()
	if err != nil {
		// the failed save may have left the store unusable (fail-stop): abandon it
		st.Case([]byte("s10"), true, "repro", "save-failed-as-required")
		return
	}
	must(t, db.Close())
	db = mustOpen(t, mem, pebbleOpener(true, nil))
	defer db.Close()
	rs, rerr := db.ReadRaftState(1, 1, 0)
	must(t, rerr)
	ents, _, ierr := db.IterateEntries(nil, 0, 1, 1, 1, 12, 1<<40)
	t.Logf("injected failure in %s, save returned %v; after reopen first %d count %d, IterateEntries(1,12) -> %d entries, err %v",
		failedOp, err, rs.FirstIndex, rs.EntryCount, len(ents), ierr)
	st.Case([]byte("s10"), true, "repro")
	if failedOp != "GetValue" {
		t.Fatalf("expected the read of the stored batch (GetValue), got %q", failedOp)
	}
	if err == nil && (rs.FirstIndex != 1 || rs.EntryCount != 11 || len(ents) != 11) {
		st.Known(t, SigS10, "kv GetValue failed inside the save of entry 11, the save returned nil; after reopen "+
			"ReadRaftState first %d count %d (want 1, 11), IterateEntries(1,12) returned %d entries",
			rs.FirstIndex, rs.EntryCount, len(ents))
	}
}

// TestVF_C10_ReproS9Close is the minimal reproduction of known finding S9 in
// its close form, without rapid: a commit-only hard-state update is written
// without fsync, the store is closed gracefully (the index is made durable, the
// log file is closed without fsync), then power is cut.
func TestVF_C10_ReproS9Close(t *testing.T) {
	st := vfhelp.NewStats("TestVF_C10_ReproS9Close", "fixed reproduction of S9 (tan close)")
	defer st.Flush()
	st.Set("exhaustive", true) // fixed case(s), nothing sampled
	mem := vfs.NewStrictMem()
	open := tanOpener(false)
	db := mustOpen(t, mem, open)
	must(t, db.SaveRaftState([]pb.Update{
		{ShardID: 1, ReplicaID: 1, State: pb.State{Term: 5, Vote: 2, Commit: 1}, EntriesToSave: mkEntries(1, 3, 5)},
	}, 2))
	must(t, db.SaveRaftState([]pb.Update{
		{ShardID: 1, ReplicaID: 1, State: pb.State{Term: 5, Vote: 2, Commit: 3}}, // commit only: no fsync
	}, 2))
	must(t, db.Close()) // graceful close, all fsyncs honoured
	mem.ResetToSyncedState()
	db = mustOpen(t, mem, open)
	defer db.Close()
	rs, err := db.ReadRaftState(1, 1, 0)
	t.Logf("after close + power cut: ReadRaftState = %+v, err %v", rs, err)
	st.Case([]byte("s9-close"), true, "repro")
	if err != nil || rs.State.Term != 5 || rs.State.Vote != 2 {
		st.Known(t, SigS9, "hard state {term 5 vote 2} was fsynced with commit 1, then commit 3 written without fsync, "+
			"store closed, power cut: ReadRaftState = %+v, err %v (term and vote lost)", rs, err)
	}
}

// TestVF_C10_ReproS11 enumerates the power-cut points of one fixed
// ImportSnapshot on tan and reports the points after which the db cannot be
// opened any more (known finding S11).
func TestVF_C10_ReproS11(t *testing.T) {
	st := vfhelp.NewStats("TestVF_C10_ReproS11", "fixed ImportSnapshot on tan, every power-cut point inside it")
	defer st.Flush()
	st.Set("exhaustive", true) // fixed case(s), nothing sampled
	open := tanOpener(false)
	ss := pb.Snapshot{Index: 30, Term: 3, ShardID: 1, Type: pb.RegularStateMachine, Imported: true}
	run := func(k int64) (first, last int64, mem *vfs.MemFS) {
		mem = vfs.NewStrictMem()
		ctl := NewFSCtl(mem)
		fs := NewCtlFS(mem, ctl)
		db := mustOpen(t, fs, open)
		must(t, db.SaveRaftState([]pb.Update{
			{ShardID: 1, ReplicaID: 1, State: pb.State{Term: 1, Commit: 5}, EntriesToSave: mkEntries(1, 10, 1)},
		}, 2))
		must(t, db.Close())
		db = mustOpen(t, fs, open)
		first = ctl.Ops() + 1
		ctl.CutAt(k)
		must(t, db.ImportSnapshot(ss, 1))
		last = ctl.Ops()
		mem.SetIgnoreSyncs(true)
		_ = db.Close()
		PowerCycle(mem, nil, 0)
		return first, last, mem
	}
	first, last, _ := run(0)
	bad := []string{}
	for k := first; k <= last+1; k++ {
		_, _, mem := run(k)
		outcome := func() (res string) {
			defer func() {
				if p := recover(); p != nil {
					res = fmt.Sprintf("panic: %v", p)
				}
			}()
			db, err := open(mem)
			if err != nil {
				return "open error: " + err.Error()
			}
			defer db.Close()
			got, err := db.GetSnapshot(1, 1)
			if err != nil {
				return "GetSnapshot error: " + err.Error()
			}
			rs, err := db.ReadRaftState(1, 1, got.Index)
			if err != nil && !errors.Is(err, raftio.ErrNoSavedLog) {
				return "ReadRaftState error: " + err.Error()
			}
			return fmt.Sprintf("snapshot %d state %+v first %d count %d", got.Index, rs.State, rs.FirstIndex, rs.EntryCount)
		}()
		t.Logf("power cut at op %d of [%d,%d]: %s", k, first, last, outcome)
		st.Case([]byte(fmt.Sprintf("s11-%d", k)), true, "repro")
		old := "snapshot 0 state {Term:1 Vote:0 Commit:5} first 1 count 10"
		imported := "snapshot 30 state {Term:3 Vote:0 Commit:30} first 0 count 0"
		if outcome != old && outcome != imported {
			bad = append(bad, fmt.Sprintf("%d (%s)", k, outcome))
		}
	}
	if len(bad) > 0 {
		st.Known(t, SigS11, "ImportSnapshot on tan performs FS operations %d..%d; a power cut at these operations leaves "+
			"neither the old data nor the imported snapshot: %s", first, last, strings.Join(bad, "; "))
	}
}

// TestVF_C10_ReproS13 is the minimal reproduction of finding S13 (fixed in
// /repo): when tan opens a db whose newest log file has no index file (the
// process died before it could close), it rebuilds the index from the log and
// makes the index durable - but not the log. Records at the tail of that log
// that had been written and not yet fsynced (a state change that only moves the
// commit index is written without fsync by design; an interrupted save is another
// source) may have survived the first failure in the OS cache; they are indexed,
// exposed to raft, and lost by the next power failure while the durable index
// keeps pointing at them.
func TestVF_C10_ReproS13(t *testing.T) {
	st := vfhelp.NewStats("TestVF_C10_ReproS13", "fixed reproduction of S13 (tan open: rebuilt index durable before the log tail it describes)")
	defer st.Flush()
	st.Set("exhaustive", true) // fixed case(s), nothing sampled
	mem := vfs.NewStrictMem()
	ctl := NewFSCtl(mem)
	fs := NewCtlFS(mem, ctl)
	open := tanOpener(false)
	db := mustOpen(t, fs, open)
	must(t, db.SaveRaftState([]pb.Update{
		{ShardID: 1, ReplicaID: 1, State: pb.State{Term: 5, Vote: 2, Commit: 1}, EntriesToSave: mkEntries(1, 3, 5)},
	}, 2)) // fsynced
	must(t, db.SaveRaftState([]pb.Update{
		{ShardID: 1, ReplicaID: 1, State: pb.State{Term: 5, Vote: 2, Commit: 3}}, // commit only: written, no fsync
	}, 2))
	// first failure: the process dies before it can close the db (no index file is
	// written); the unsynced tail of the log survives because the OS had already
	// written it back
	ctl.ForceCut()
	torn := ctl.Torn()
	_ = db.Close()
	if torn == nil || len(torn.Data) == 0 {
		t.Fatalf("the commit-only state change left no unsynced bytes in the log")
	}
	if !PowerCycle(mem, torn, len(torn.Data)) {
		t.Fatalf("could not re-apply the unsynced tail %+v", torn)
	}
	t.Logf("unsynced tail: %d bytes of %s (synced length %d)", len(torn.Data), torn.Path, torn.Synced)
	// recovery
	db = mustOpen(t, mem, open)
	rs, err := db.ReadRaftState(1, 1, 0)
	t.Logf("after the first recovery: ReadRaftState = %+v, err %v", rs, err)
	if err != nil || rs.State.Term != 5 || rs.State.Vote != 2 {
		t.Fatalf("first recovery lost the fsynced hard state: %+v %v", rs, err)
	}
	// second failure right after the recovery: the power goes
	mem.SetIgnoreSyncs(true)
	_ = db.Close()
	mem.ResetToSyncedState()
	mem.SetIgnoreSyncs(false)
	db = mustOpen(t, mem, open)
	defer db.Close()
	rs2, err := db.ReadRaftState(1, 1, 0)
	t.Logf("after the power cut that followed the recovery: ReadRaftState = %+v, err %v", rs2, err)
	st.Case([]byte("s13"), true, "repro")
	if err != nil || rs2.State.Term != 5 || rs2.State.Vote != 2 || rs2.EntryCount != 3 {
		vfhelp.Fail(t, "tan-recovery-index-durable-before-log-tail", "hard state {term 5 vote 2} and entries 1..3 were fsynced, a commit-only change was written without fsync, "+
			"the process died, tan recovered (state %+v), the power went right after the recovery: ReadRaftState = %+v, err %v", rs.State, rs2, err)
	}
}
