package logstore

import (
	"errors"
	"fmt"
	"strings"
	"sync"
	"testing"

	"github.com/lni/vfs"
	"pgregory.net/rapid"

	"github.com/lni/dragonboat/v4/internal/logdb/kv"
	"github.com/lni/dragonboat/v4/internal/vfhelp"
)

// SigS1: db.saveRaftState / db.saveSnapshots return nil when listing the
// existing snapshot records fails.
const SigS1 = "logdb-savesnapshot-error-swallowed"

// SigS10: batchedEntries.getBatchFromDB treats a failed read of the stored last
// batch as "no such batch"; the save then overwrites the batch with the new
// entries only and reports success.
const SigS10 = "logdb-batched-getbatch-error-swallowed"

const c10ErrRule = "generated prefix of 3-12 store calls (as in C09) followed by one target call (SaveRaftState, SaveSnapshots, " +
	"SaveBootstrapInfo, RemoveEntriesTo); phase 1 counts the storage operations J the target call performs (kv.IKVStore calls " +
	"for sharded Pebble, FS operations of the injectable kinds for tan); then for EVERY j in 1..J a fresh store runs the prefix " +
	"and the target with the j-th operation failing: the call must return an error or panic on the calling goroutine, and if it " +
	"returns nil a reopen must show the call fully applied (all replicas equal to the model); after a failed call a reopen must " +
	"show each touched replica either before or after the call. one evaluation = one (workload, j) pair; non-trivial = the " +
	"target changes >= 2 of {entries, state, snapshot} for some replica or J >= 3"

var errInjectedKV = errors.New("vf: injected kv error")

// kvFault counts the kv calls made while armed and fails the chosen one.
type kvFault struct {
	mu     sync.Mutex
	armed  bool
	failAt int
	seen   int
	failed string
}

func (f *kvFault) step(op string) error {
	f.mu.Lock()
	defer f.mu.Unlock()
	if !f.armed {
		return nil
	}
	f.seen++
	if f.seen == f.failAt {
		f.failed = op
		return errInjectedKV
	}
	return nil
}

func (f *kvFault) arm(j int) {
	f.mu.Lock()
	f.armed, f.failAt, f.seen, f.failed = true, j, 0, ""
	f.mu.Unlock()
}

func (f *kvFault) disarm() (int, string) {
	f.mu.Lock()
	defer f.mu.Unlock()
	f.armed = false
	return f.seen, f.failed
}

type faultKV struct {
	kv.IKVStore
	f *kvFault
}

func (k *faultKV) IterateValue(fk []byte, lk []byte, inc bool, op func(key []byte, data []byte) (bool, error)) error {
	if err := k.f.step("IterateValue"); err != nil {
		return err
	}
	return k.IKVStore.IterateValue(fk, lk, inc, op)
}

func (k *faultKV) GetValue(key []byte, op func([]byte) error) error {
	if err := k.f.step("GetValue"); err != nil {
		return err
	}
	return k.IKVStore.GetValue(key, op)
}

func (k *faultKV) SaveValue(key []byte, value []byte) error {
	if err := k.f.step("SaveValue"); err != nil {
		return err
	}
	return k.IKVStore.SaveValue(key, value)
}

func (k *faultKV) DeleteValue(key []byte) error {
	if err := k.f.step("DeleteValue"); err != nil {
		return err
	}
	return k.IKVStore.DeleteValue(key)
}

func (k *faultKV) CommitWriteBatch(wb kv.IWriteBatch) error {
	if err := k.f.step("CommitWriteBatch"); err != nil {
		return err
	}
	return k.IKVStore.CommitWriteBatch(wb)
}

func (k *faultKV) BulkRemoveEntries(fk []byte, lk []byte) error {
	if err := k.f.step("BulkRemoveEntries"); err != nil {
		return err
	}
	return k.IKVStore.BulkRemoveEntries(fk, lk)
}

func (k *faultKV) CompactEntries(fk []byte, lk []byte) error {
	if err := k.f.step("CompactEntries"); err != nil {
		return err
	}
	return k.IKVStore.CompactEntries(fk, lk)
}

// injector abstracts over the two fault mechanisms.
type injector interface {
	// fresh returns a new empty file system to run on and the opener to use
	fresh() (vfs.FS, *vfs.MemFS, Opener)
	// arm makes the j-th injectable operation fail (0: count only)
	arm(target Op, j int)
	// disarm returns the number of injectable operations seen and a description
	// of the failed one ("" none)
	disarm() (int, string)
}

type kvInjector struct {
	batched bool
	f       *kvFault
}

func (i *kvInjector) fresh() (vfs.FS, *vfs.MemFS, Opener) {
	mem := vfs.NewStrictMem()
	i.f = &kvFault{}
	f := i.f
	return mem, mem, pebbleOpener(i.batched, func(s kv.IKVStore) kv.IKVStore { return &faultKV{IKVStore: s, f: f} })
}
func (i *kvInjector) arm(_ Op, j int)       { i.f.arm(j) }
func (i *kvInjector) disarm() (int, string) { return i.f.disarm() }

type fsInjector struct {
	mux bool
	ctl *FSCtl
}

func (i *fsInjector) fresh() (vfs.FS, *vfs.MemFS, Opener) {
	mem := vfs.NewStrictMem()
	i.ctl = NewFSCtl(mem)
	return NewCtlFS(mem, i.ctl), mem, tanOpener(i.mux)
}

func (i *fsInjector) arm(target Op, j int) {
	// Limit (DESIGN C10): regular-mode SaveRaftState fsyncs on goroutines the
	// harness does not own and panics there; only its writes are failed.
	// RemoveAll runs on tan's background deleter and is never failed.
	kinds := []FSOp{FSWrite}
	switch {
	case target.Kind == OpBootstrap:
		kinds = []FSOp{FSCreate, FSWrite, FSSync, FSRename, FSDirSync}
	case target.Kind != OpSave || i.mux:
		kinds = []FSOp{FSWrite, FSSync}
	}
	i.ctl.ArmFail(j, kinds...)
}

func (i *fsInjector) disarm() (int, string) {
	n, failed, kind := i.ctl.Disarm()
	if failed {
		return n, kind.String()
	}
	return n, ""
}

func runErrCase(t *rapid.T, st *vfhelp.Stats, tr Traits, inj injector) {
	gen := GenCfg{MaxEntries: 120, MinOps: 3, MaxOps: 12, NoQuery: true, NoCompact: true}
	if tr.Tan {
		// records spanning several 32 KiB blocks of tan's log format: one file
		// Write per full block, so a one-shot error can hit a non-last Write of a
		// record
		gen.BigCmd = true
		gen.GiantOneIn = 12
	}
	gen.Count = func(l string) { st.Count(l, 1) }
	w := genWorkload(t, tr, &gen)
	// the target call: a save on the state the prefix left behind
	m := w.models[len(w.ops)].Clone()
	tgen := gen
	tgen.NoReopen, tgen.NoImport, tgen.NoRemoveNode = true, true, true
	if tr.Tan {
		tgen.GiantOneIn = 2
		tgen.Weights = map[OpKind]int{OpSave: 80}
	}
	var target Op
	for try := 0; ; try++ {
		target = GenOp(t, m, tr, &tgen)
		if target.Kind == OpSave || target.Kind == OpSaveSnapshots || target.Kind == OpBootstrap ||
			target.Kind == OpRemoveEntries {
			break
		}
		if try > 20 {
			t.Skip("no target call")
		}
	}
	before := m.Clone()
	after := m.Clone()
	after.Apply(target, tr)
	calls := append(w.render(), "TARGET "+target.String())
	failf := func(sig string, format string, args ...interface{}) {
		vfhelp.Fail(t, tr.Name+"-"+sig, "[%s] %s%s", tr.Name, fmt.Sprintf(format, args...), history(calls))
	}
	runPrefix := func() (*Store, *vfs.MemFS) {
		fs, mem, open := inj.fresh()
		s, err := OpenStore(fs, open)
		if err != nil {
			t.Fatalf("VFINCONCLUSIVE open: %v", err)
		}
		for i, o := range w.ops {
			if err, _ := s.ExecSafe(o, w.models[i]); err != nil {
				_ = s.Close()
				failf("call-error-without-fault", "%s failed although no error was injected: %v", o.String(), err)
			}
		}
		return s, mem
	}
	// phase 1: count
	s, _ := runPrefix()
	inj.arm(target, 0)
	err, _ := s.ExecSafe(target, before)
	total, _ := inj.disarm()
	_ = s.Close()
	if err != nil {
		failf("call-error-without-fault", "target %s failed although no error was injected: %v", target.String(), err)
	}
	nt := total >= 3
	if target.Kind == OpSave {
		for _, u := range target.Updates {
			if components(u, before.find(u.ShardID, u.ReplicaID)) >= 2 {
				nt = true
			}
		}
	}
	canonBase := strings.Join(calls, ";")
	for _, r := range w.m0.Reps {
		canonBase = r.ID() + canonBase
	}
	if total == 0 {
		st.Count("target-without-storage-op", 1)
	}
	for j := 1; j <= total; j++ {
		s, mem := runPrefix()
		inj.arm(target, j)
		err, panicked := s.ExecSafe(target, before)
		_, failedOp := inj.disarm()
		labels := []string{"target-" + opNames[target.Kind]}
		for _, l := range target.Labels {
			if l == "giant-command" {
				labels = append(labels, "target-with-giant-command")
			}
		}
		// a call that reported success must be readable in the running store too
		var liveMis *Mismatch
		if err == nil && failedOp != "" {
			for _, r := range after.Reps {
				if !r.Removed && liveMis == nil {
					liveMis = CheckReplica(s.DB, r, tr)
				}
			}
		}
		if failedOp == "" {
			// the j-th operation was not reached this time (background I/O)
			st.Count("injection-not-reached", 1)
			_ = s.Close()
			continue
		}
		labels = append(labels, "failed-op-"+failedOp)
		// the process would stop here (engine panics on a failed save); what is
		// on disk is what a restarted process sees
		// on disk is what a restarted process sees. The Pebble store is closed to
		// release its memory; the tan store is abandoned like a dead process
		// would leave it (a failed regular-mode save may still have fsync
		// goroutines of its earlier updates running, Close would race with them)
		if !tr.Tan {
			func() {
				defer func() { _ = recover() }()
				_ = s.Close()
			}()
		}
		s2, oerr := OpenStore(mem, pebbleOrTanPlain(tr))
		if oerr != nil {
			failf("reopen-after-injected-error", "reopen after injected %s failure (j=%d) failed: %v", failedOp, j, oerr)
		}
		known := ""
		if err == nil {
			labels = append(labels, "returned-nil")
			// success reported: everything must be applied
			for _, r := range after.Reps {
				if r.Removed {
					continue
				}
				if mis := CheckReplica(s2.DB, r, tr); mis != nil {
					msg := fmt.Sprintf("[%s] the %d-th storage operation (%s) of the target call failed, the call returned nil, "+
						"but a reopen shows it not (fully) applied: %s%s", tr.Name, j, failedOp, mis.Msg, history(calls))
					sig := tr.Name + "-injected-error-returned-nil-not-applied"
					hasSnap := false
					for _, u := range target.Updates {
						if u.Snapshot.Index > 0 {
							hasSnap = true
						}
					}
					switch {
					case !tr.Tan && failedOp == "IterateValue" && hasSnap:
						sig = SigS1
					case tr.Batched && failedOp == "GetValue" && target.Kind == OpSave:
						sig = SigS10
					}
					if sig == SigS1 || sig == SigS10 {
						if st.Known(t, sig, "%s", msg) {
							known = sig
							break
						}
					}
					_ = s2.Close()
					vfhelp.Fail(t, sig, "%s", msg)
				}
			}
			if known == "" && liveMis != nil {
				_ = s2.Close()
				failf("injected-error-returned-nil-not-readable-live", "the %d-th storage operation (%s) of the target call "+
					"failed, the call returned nil, the running store does not show it applied: %s", j, failedOp, liveMis.Msg)
			}
			if known == "" {
				labels = append(labels, "returned-nil-and-applied")
			}
		} else {
			if panicked {
				labels = append(labels, "panicked")
			} else {
				labels = append(labels, "returned-error")
			}
			// failed call: each touched replica is before or after
			touched := map[int]bool{}
			for _, i := range before.Touched(target) {
				touched[i] = true
			}
			for i := range before.Reps {
				b, a := before.Reps[i].clone(), after.Reps[i].clone()
				b.LagOK, a.LagOK = tr.Tan, tr.Tan
				if b.Removed {
					continue
				}
				mis := CheckReplica(s2.DB, b, tr)
				if mis != nil && touched[i] {
					if CheckReplica(s2.DB, a, tr) == nil {
						mis = nil
						labels = append(labels, "failed-call-visible")
					}
				}
				if mis != nil {
					_ = s2.Close()
					failf("injected-error-partial", "the %d-th storage operation (%s) of the target call failed (call result: %v); "+
						"after a reopen the replica is neither before nor after the call: %s", j, failedOp, err, mis.Msg)
				}
			}
		}
		_ = s2.Close()
		if known != "" {
			labels = append(labels, "known-"+known)
		}
		st.Case([]byte(fmt.Sprintf("%s@%d", canonBase, j)), nt && known == "", labels...)
		if nt && known == "" && j == 1 && st.WantSample() {
			st.Sample(map[string]interface{}{"store": tr.Name, "calls": calls, "storage_ops_in_target": total})
		}
	}
	st.Count("workloads", 1)
}

// pebbleOrTanPlain returns the opener without any fault wrapper.
func pebbleOrTanPlain(tr Traits) Opener {
	if tr.Tan {
		return tanOpener(tr.Mux)
	}
	return pebbleOpener(tr.Batched, nil)
}

func runErrUnit(t *testing.T, unit string, tr Traits, inj injector) {
	st := vfhelp.NewStats(unit, c10ErrRule)
	defer st.Flush()
	st.Set("store", tr.Name)
	st.Set("exhaustive", true) // every j of every generated target call is injected
	rapid.Check(t, func(t *rapid.T) {
		runErrCase(t, st, tr, inj)
	})
}

func TestVF_C10_KVErr_PebblePlain(t *testing.T) {
	runErrUnit(t, "TestVF_C10_KVErr_PebblePlain", trPebblePlain, &kvInjector{batched: false})
}

func TestVF_C10_KVErr_PebbleBatched(t *testing.T) {
	tr := trPebbleBatched
	tr.BatchSz = batchSize()
	runErrUnit(t, "TestVF_C10_KVErr_PebbleBatched", tr, &kvInjector{batched: true})
}

func TestVF_C10_FSErr_TanRegular(t *testing.T) {
	runErrUnit(t, "TestVF_C10_FSErr_TanRegular", trTanRegular, &fsInjector{mux: false})
}

func TestVF_C10_FSErr_TanMux(t *testing.T) {
	runErrUnit(t, "TestVF_C10_FSErr_TanMux", trTanMux, &fsInjector{mux: true})
}
